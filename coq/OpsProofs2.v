(* OpsProofs2.v — continuation of OpsProofs.v: the engine templates not yet covered
   (C06 / C07 / C11):
     U1  eng_minmax_vv       safe / reuse / incr (= reuse) / unsafe (= panic)
     U2  eng_minmax_scalar   safe, tensor-left and scalar-left, raw and iterator paths
     U3  eng_arith_scalar    reuse and incr, left and right
     U4  eng_cmp_scalar      safe, bool and same-type results, left and right
     U5  eng_cmp_vv          unsafe and reuse (both result types)
   Same architecture as OpsProofs.v: kernel meaning lemmas (instances of schema_map), one
   unfolding lemma per template and mode, then the engine theorem.
   The element type V and the scalar operation f : V -> V -> V are arbitrary. *)
From TV Require Import Base Index AP Iter Mem Spec Ops IndexProofs IterProofs APProofs OpsProofs.
From Coq Require Import Lia ZifyBool.

Arguments Z.mul : simpl never.
Arguments Z.add : simpl never.
Arguments Z.sub : simpl never.
Arguments Z.leb : simpl never.
Arguments Z.ltb : simpl never.
Arguments Z.eqb : simpl never.
Arguments Z.div : simpl never.
Arguments Z.modulo : simpl never.
Arguments Z.min : simpl never.
Arguments Z.of_nat : simpl never.
Arguments Z.to_nat : simpl never.
Arguments Z.testbit : simpl never.

(* ====================================================================================== *)
(*  0. list facts                                                                         *)
(* ====================================================================================== *)
Lemma zip2_map_snd_In (a b : list Z) k : In k (map snd (zip2 a b)) -> In k b.
Proof.
  intro H. apply in_map_iff in H. destruct H as ([x y] & Hq & Hin). cbn [snd] in Hq. subst y.
  apply zip2_fst_In in Hin. tauto.
Qed.

Lemma zip2_map_fst_In' (a b : list Z) i : In i (map fst (zip2 a b)) -> In i a.
Proof.
  intro H. apply in_map_iff in H. destruct H as ([x y] & Hq & Hin). cbn [fst] in Hq. subst x.
  apply zip2_fst_In in Hin. tauto.
Qed.

(* pigeonhole: n distinct values of [0, n) are all of [0, n) *)
Lemma nodup_range_cover (l : list Z) (n : Z) :
  NoDup l -> (forall o, In o l -> 0 <= o < n) -> length l = Z.to_nat n ->
  forall i, 0 <= i < n -> In i l.
Proof.
  intros Hnd Hr Hlen i Hi.
  assert (Hincl : incl (zseq 0 (Z.to_nat n)) l).
  { apply NoDup_length_incl; [exact Hnd|rewrite zseq_length; lia|].
    intros o Ho. apply zseq_In. specialize (Hr o Ho). lia. }
  apply Hincl. apply zseq_In. lia.
Qed.

Section Store2.
Variable V : Type.
Variable vzero : V.
Variable vadd : V -> V -> V.

Notation store := (store V).
Notation get_buf := (get_buf V).
Notation win_get := (win_get V).
Notation tens := (tens V).
Notation bufs := (bufs V).
Notation get_t := (get_t V).
Notation run_asgs := (run_asgs V vzero vadd).
Notation wf_dense := (wf_dense V).
Notation cell := (cell V).
Notation in_buf := (in_buf V).
Notation frame_ok := (frame_ok V).
Notation peek := (peek V).
Notation gf := (gf V).
Notation asg_good := (asg_good V).
Notation sc_store := (sc_store V).
Notation sc_hdr := (sc_hdr V).
Notation nd_store := (nd_store V vzero).
Notation nd_dense := (nd_dense V).
Notation ext_of := (ext_of V).
Notation dest_post := (dest_post V).
Notation dest_post_x := (dest_post_x V).
Notation cmp_post := (cmp_post V).

Ltac proj := cbn [Ops.a_dst Ops.a_cap Ops.a_k Ops.a_kz Ops.a_x Ops.a_y Ops.a_acc src_good fst snd Ops.rd].

(* ====================================================================================== *)
(*  1. the remaining kernels (instances of schema_map)                                    *)
(* ====================================================================================== *)
Section Kern2.
Variable f : V -> V -> V.

(* <Cmp>VS(a, s, ret): ret[i] = f a[i] s for every cell of ret's window *)
Theorem k_ret_vs_spec σ a s r e :
  in_buf σ a -> in_buf σ r -> sep r a -> d_len r <= d_len a ->
  exists σ', run_asgs (gf f) σ (k_ret_vs V a s r) e = Some (σ', e) /\ frame_ok σ σ' r /\
    (forall i x, 0 <= i < d_len r -> win_get σ a i = Some x -> win_get σ' r i = Some (f x s)).
Proof.
  intros Ha Hr Hs Hl. unfold k_ret_vs, wlen.
  destruct (schema_map V vzero vadd f σ r false (fun i => mkAsg V r false i i (SLen V a i) (SConst V s) false)
              (fun i => i) (idxs (d_len r)) e Hr) as (σ' & Hrun & Hfr & Hv & _).
  - intros i Hi. apply idxs_In in Hi. split; [|reflexivity]. unfold OpsProofs.asg_good. proj.
    refine (conj eq_refl (conj eq_refl (conj Hi (conj _ I)))). right.
    split; [exact Hs|]. split; [exact Ha|lia].
  - rewrite map_id. apply idxs_NoDup.
  - exists σ'. split; [exact Hrun|]. split; [exact Hfr|].
    intros i x Hi Hx. rewrite (Hv i) by (apply idxs_In; exact Hi).
    apply asg_val_plain; proj; [exact Hx|reflexivity|reflexivity].
Qed.

(* <Cmp>SV(s, b, ret): ret[i] = f s b[i] *)
Theorem k_ret_sv_spec σ s b r e :
  in_buf σ b -> in_buf σ r -> sep r b -> d_len r <= d_len b ->
  exists σ', run_asgs (gf f) σ (k_ret_sv V s b r) e = Some (σ', e) /\ frame_ok σ σ' r /\
    (forall i y, 0 <= i < d_len r -> win_get σ b i = Some y -> win_get σ' r i = Some (f s y)).
Proof.
  intros Hb Hr Hs Hl. unfold k_ret_sv, wlen.
  destruct (schema_map V vzero vadd f σ r false (fun i => mkAsg V r false i i (SConst V s) (SLen V b i) false)
              (fun i => i) (idxs (d_len r)) e Hr) as (σ' & Hrun & Hfr & Hv & _).
  - intros i Hi. apply idxs_In in Hi. split; [|reflexivity]. unfold OpsProofs.asg_good. proj.
    refine (conj eq_refl (conj eq_refl (conj Hi (conj I _)))). right.
    split; [exact Hs|]. split; [exact Hb|lia].
  - rewrite map_id. apply idxs_NoDup.
  - exists σ'. split; [exact Hrun|]. split; [exact Hfr|].
    intros i y Hi Hy. rewrite (Hv i) by (apply idxs_In; exact Hi).
    apply asg_val_plain; proj; [reflexivity|exact Hy|reflexivity].
Qed.

(* <Cmp>IterVS(a, s, ret, ait, rit): ret[k] = f a[i] s along the two iterators *)
Theorem k_ret_iter_vs_spec σ a s r ai ri e :
  in_buf σ a -> in_buf σ r -> sep r a -> NoDup ri ->
  (forall i, In i ai -> 0 <= i < d_len a) -> (forall k, In k ri -> 0 <= k < d_len r) ->
  exists σ', run_asgs (gf f) σ (k_ret_iter_vs V a s r ai ri) e = Some (σ', e) /\ frame_ok σ σ' r /\
    (forall i k x, In (i, k) (zip2 ai ri) -> win_get σ a i = Some x -> win_get σ' r k = Some (f x s)) /\
    (forall k, ~ In k (map snd (zip2 ai ri)) -> win_get σ' r k = win_get σ r k).
Proof.
  intros Ha Hr Hs Hnd Hai Hri. unfold k_ret_iter_vs.
  destruct (schema_map V vzero vadd f σ r false
              (fun p : Z * Z => mkAsg V r false (snd p) (snd p) (SLen V a (fst p)) (SConst V s) false)
              snd (zip2 ai ri) e Hr) as (σ' & Hrun & Hfr & Hv & Hoth & _).
  - intros [i k] Hin. apply zip2_fst_In in Hin. destruct Hin as [Hi Hk]. split; [|reflexivity].
    unfold OpsProofs.asg_good. proj. refine (conj eq_refl (conj eq_refl (conj (Hri k Hk) (conj _ I)))). right.
    split; [exact Hs|]. split; [exact Ha|apply Hai; exact Hi].
  - apply zip2_NoDup_snd. exact Hnd.
  - exists σ'. split; [exact Hrun|]. split; [exact Hfr|]. split; [|exact Hoth].
    intros i k x Hin Hx. pose proof (Hv (i, k) Hin) as Hq. cbn [snd] in Hq. rewrite Hq.
    apply asg_val_plain; proj; [exact Hx|reflexivity|reflexivity].
Qed.

Theorem k_ret_iter_sv_spec σ s b r bi ri e :
  in_buf σ b -> in_buf σ r -> sep r b -> NoDup ri ->
  (forall j, In j bi -> 0 <= j < d_len b) -> (forall k, In k ri -> 0 <= k < d_len r) ->
  exists σ', run_asgs (gf f) σ (k_ret_iter_sv V s b r bi ri) e = Some (σ', e) /\ frame_ok σ σ' r /\
    (forall j k y, In (j, k) (zip2 bi ri) -> win_get σ b j = Some y -> win_get σ' r k = Some (f s y)) /\
    (forall k, ~ In k (map snd (zip2 bi ri)) -> win_get σ' r k = win_get σ r k).
Proof.
  intros Hb Hr Hs Hnd Hbi Hri. unfold k_ret_iter_sv.
  destruct (schema_map V vzero vadd f σ r false
              (fun p : Z * Z => mkAsg V r false (snd p) (snd p) (SConst V s) (SLen V b (fst p)) false)
              snd (zip2 bi ri) e Hr) as (σ' & Hrun & Hfr & Hv & Hoth & _).
  - intros [j k] Hin. apply zip2_fst_In in Hin. destruct Hin as [Hj Hk]. split; [|reflexivity].
    unfold OpsProofs.asg_good. proj. refine (conj eq_refl (conj eq_refl (conj (Hri k Hk) (conj I _)))). right.
    split; [exact Hs|]. split; [exact Hb|apply Hbi; exact Hj].
  - apply zip2_NoDup_snd. exact Hnd.
  - exists σ'. split; [exact Hrun|]. split; [exact Hfr|]. split; [|exact Hoth].
    intros j k y Hin Hy. pose proof (Hv (j, k) Hin) as Hq. cbn [snd] in Hq. rewrite Hq.
    apply asg_val_plain; proj; [reflexivity|exact Hy|reflexivity].
Qed.

(* <Op>IncrVS(a, s, incr): incr[i] += f a[i] s for every cell of incr's window *)
Theorem k_incr_vs_spec σ a s inc e :
  in_buf σ a -> in_buf σ inc -> sep inc a -> d_len inc <= d_len a ->
  exists σ', run_asgs (gf f) σ (k_incr_vs V a s inc) e = Some (σ', e) /\ frame_ok σ σ' inc /\
    (forall i x o, win_get σ a i = Some x -> win_get σ inc i = Some o ->
                   win_get σ' inc i = Some (vadd o (f x s))).
Proof.
  intros Ha Hr Hs Hl. unfold k_incr_vs, wlen.
  destruct (schema_map V vzero vadd f σ inc false (fun i => mkAsg V inc false i i (SLen V a i) (SConst V s) true)
              (fun i => i) (idxs (d_len inc)) e Hr) as (σ' & Hrun & Hfr & Hv & _).
  - intros i Hi. apply idxs_In in Hi. split; [|reflexivity]. unfold OpsProofs.asg_good. proj.
    refine (conj eq_refl (conj eq_refl (conj Hi (conj _ I)))). right.
    split; [exact Hs|]. split; [exact Ha|lia].
  - rewrite map_id. apply idxs_NoDup.
  - exists σ'. split; [exact Hrun|]. split; [exact Hfr|].
    intros i x o Hx Ho. pose proof (win_get_some_range _ _ _ _ _ Ho) as Hi.
    rewrite (Hv i) by (apply idxs_In; exact Hi).
    apply asg_val_acc; proj; [exact Hx|reflexivity|reflexivity|exact Ho].
Qed.

Theorem k_incr_sv_spec σ s b inc e :
  in_buf σ b -> in_buf σ inc -> sep inc b -> d_len inc <= d_len b ->
  exists σ', run_asgs (gf f) σ (k_incr_sv V s b inc) e = Some (σ', e) /\ frame_ok σ σ' inc /\
    (forall i y o, win_get σ b i = Some y -> win_get σ inc i = Some o ->
                   win_get σ' inc i = Some (vadd o (f s y))).
Proof.
  intros Hb Hr Hs Hl. unfold k_incr_sv, wlen.
  destruct (schema_map V vzero vadd f σ inc false (fun i => mkAsg V inc false i i (SConst V s) (SLen V b i) true)
              (fun i => i) (idxs (d_len inc)) e Hr) as (σ' & Hrun & Hfr & Hv & _).
  - intros i Hi. apply idxs_In in Hi. split; [|reflexivity]. unfold OpsProofs.asg_good. proj.
    refine (conj eq_refl (conj eq_refl (conj Hi (conj I _)))). right.
    split; [exact Hs|]. split; [exact Hb|lia].
  - rewrite map_id. apply idxs_NoDup.
  - exists σ'. split; [exact Hrun|]. split; [exact Hfr|].
    intros i y o Hy Ho. pose proof (win_get_some_range _ _ _ _ _ Ho) as Hi.
    rewrite (Hv i) by (apply idxs_In; exact Hi).
    apply asg_val_acc; proj; [reflexivity|exact Hy|reflexivity|exact Ho].
Qed.

(* <Op>IterIncrVS(a, s, incr, ait, iit): incr[k] += f a[i] s *)
Theorem k_iter_incr_vs_spec σ a s inc ai ii e :
  in_buf σ a -> in_buf σ inc -> sep inc a -> NoDup ii ->
  (forall i, In i ai -> 0 <= i < d_len a) -> (forall k, In k ii -> 0 <= k < d_len inc) ->
  exists σ', run_asgs (gf f) σ (k_iter_incr_vs V a s inc ai ii) e = Some (σ', e) /\ frame_ok σ σ' inc /\
    (forall i k x o, In (i, k) (zip2 ai ii) -> win_get σ a i = Some x -> win_get σ inc k = Some o ->
                     win_get σ' inc k = Some (vadd o (f x s))) /\
    (forall k, ~ In k (map snd (zip2 ai ii)) -> win_get σ' inc k = win_get σ inc k).
Proof.
  intros Ha Hr Hs Hnd Hai Hii. unfold k_iter_incr_vs.
  destruct (schema_map V vzero vadd f σ inc false
              (fun p : Z * Z => mkAsg V inc false (snd p) (fst p) (SLen V a (fst p)) (SConst V s) true)
              snd (zip2 ai ii) e Hr) as (σ' & Hrun & Hfr & Hv & Hoth & _).
  - intros [i k] Hin. apply zip2_fst_In in Hin. destruct Hin as [Hi Hk]. split; [|reflexivity].
    unfold OpsProofs.asg_good. proj. refine (conj eq_refl (conj eq_refl (conj (Hii k Hk) (conj _ I)))). right.
    split; [exact Hs|]. split; [exact Ha|apply Hai; exact Hi].
  - apply zip2_NoDup_snd. exact Hnd.
  - exists σ'. split; [exact Hrun|]. split; [exact Hfr|]. split; [|exact Hoth].
    intros i k x o Hin Hx Ho. pose proof (Hv (i, k) Hin) as Hq. cbn [snd] in Hq. rewrite Hq.
    apply asg_val_acc; proj; [exact Hx|reflexivity|reflexivity|exact Ho].
Qed.

Theorem k_iter_incr_sv_spec σ s b inc bi ii e :
  in_buf σ b -> in_buf σ inc -> sep inc b -> NoDup ii ->
  (forall j, In j bi -> 0 <= j < d_len b) -> (forall k, In k ii -> 0 <= k < d_len inc) ->
  exists σ', run_asgs (gf f) σ (k_iter_incr_sv V s b inc bi ii) e = Some (σ', e) /\ frame_ok σ σ' inc /\
    (forall j k y o, In (j, k) (zip2 bi ii) -> win_get σ b j = Some y -> win_get σ inc k = Some o ->
                     win_get σ' inc k = Some (vadd o (f s y))) /\
    (forall k, ~ In k (map snd (zip2 bi ii)) -> win_get σ' inc k = win_get σ inc k).
Proof.
  intros Hb Hr Hs Hnd Hbi Hii. unfold k_iter_incr_sv.
  destruct (schema_map V vzero vadd f σ inc false
              (fun p : Z * Z => mkAsg V inc false (snd p) (fst p) (SConst V s) (SLen V b (fst p)) true)
              snd (zip2 bi ii) e Hr) as (σ' & Hrun & Hfr & Hv & Hoth & _).
  - intros [j k] Hin. apply zip2_fst_In in Hin. destruct Hin as [Hj Hk]. split; [|reflexivity].
    unfold OpsProofs.asg_good. proj. refine (conj eq_refl (conj eq_refl (conj (Hii k Hk) (conj I _)))). right.
    split; [exact Hs|]. split; [exact Hb|apply Hbi; exact Hj].
  - apply zip2_NoDup_snd. exact Hnd.
  - exists σ'. split; [exact Hrun|]. split; [exact Hfr|]. split; [|exact Hoth].
    intros j k y o Hin Hy Ho. pose proof (Hv (j, k) Hin) as Hq. cbn [snd] in Hq. rewrite Hq.
    apply asg_val_acc; proj; [reflexivity|exact Hy|reflexivity|exact Ho].
Qed.

End Kern2.

(* ====================================================================================== *)
(*  2. the E dispatch with a one-element (scalar header) operand                          *)
(* ====================================================================================== *)
Lemma e_ret_vs g σ a b r s : isS a = false -> isS b = true -> isS r = false -> hd0 V σ b = Some s ->
  e_ret V vzero vadd g σ a b r = (run_asgs g σ (k_ret_vs V a s r) false, false).
Proof. intros Ha Hb Hr Hs. unfold e_ret. rewrite Ha, Hb, Hr, Hs. reflexivity. Qed.

Lemma e_ret_sv g σ a b r s : isS a = true -> isS b = false -> isS r = false -> hd0 V σ a = Some s ->
  e_ret V vzero vadd g σ a b r = (run_asgs g σ (k_ret_sv V s b r) false, false).
Proof. intros Ha Hb Hr Hs. unfold e_ret. rewrite Ha, Hb, Hr, Hs. reflexivity. Qed.

Lemma e_ret_iter_vs g σ a b r ai bi ri s : isS a = false -> isS b = true -> isS r = false -> hd0 V σ b = Some s ->
  e_ret_iter V vzero vadd g σ a b r ai bi ri = (run_asgs g σ (k_ret_iter_vs V a s r ai ri) false, false).
Proof. intros Ha Hb Hr Hs. unfold e_ret_iter. rewrite Ha, Hb, Hr, Hs. reflexivity. Qed.

Lemma e_ret_iter_sv g σ a b r ai bi ri s : isS a = true -> isS b = false -> isS r = false -> hd0 V σ a = Some s ->
  e_ret_iter V vzero vadd g σ a b r ai bi ri = (run_asgs g σ (k_ret_iter_sv V s b r bi ri) false, false).
Proof. intros Ha Hb Hr Hs. unfold e_ret_iter. rewrite Ha, Hb, Hr, Hs. reflexivity. Qed.

Lemma e_incr_vs g σ a b inc s : isS a = false -> isS b = true -> isS inc = false -> hd0 V σ b = Some s ->
  e_incr V vzero vadd g σ a b inc = (drop_err V (run_asgs g σ (k_incr_vs V a s inc) false), false).
Proof. intros Ha Hb Hr Hs. unfold e_incr. rewrite Ha, Hb, Hr, Hs. reflexivity. Qed.

Lemma e_incr_sv g σ a b inc s : isS a = true -> isS b = false -> isS inc = false -> hd0 V σ a = Some s ->
  e_incr V vzero vadd g σ a b inc = (drop_err V (run_asgs g σ (k_incr_sv V s b inc) false), false).
Proof. intros Ha Hb Hr Hs. unfold e_incr. rewrite Ha, Hb, Hr, Hs. reflexivity. Qed.

Lemma e_iter_incr_vs g σ a b inc ai bi ii s : isS a = false -> isS b = true -> isS inc = false -> hd0 V σ b = Some s ->
  e_iter_incr V vzero vadd g σ a b inc ai bi ii = (run_asgs g σ (k_iter_incr_vs V a s inc ai ii) false, false).
Proof. intros Ha Hb Hr Hs. unfold e_iter_incr. rewrite Ha, Hb, Hr, Hs. reflexivity. Qed.

Lemma e_iter_incr_sv g σ a b inc ai bi ii s : isS a = true -> isS b = false -> isS inc = false -> hd0 V σ a = Some s ->
  e_iter_incr V vzero vadd g σ a b inc ai bi ii = (run_asgs g σ (k_iter_incr_sv V s b inc bi ii) false, false).
Proof. intros Ha Hb Hr Hs. unfold e_iter_incr. rewrite Ha, Hb, Hr, Hs. reflexivity. Qed.

(* WithReuse r / WithIncr r on a template without an increment form *)
Definition rmode (inc : bool) (r : nat) : cmode := if inc then CIncr r else CReuse r.

(* ====================================================================================== *)
(*  U1. StdEng.MinBetween / MaxBetween (tensor-tensor)                                    *)
(* ====================================================================================== *)
Section MinMaxVV.
Variable f : V -> V -> V.

(* safe mode: NewDense, Copy / CopyIter of a, then the kernel in place — exactly the code of a
   same-type comparison *)
Lemma eng_minmax_vv_safe_unfold g σ ta tb a b :
  get_t σ ta = Some a -> get_t σ tb = Some b ->
  shp (d_ap a) = shp (d_ap b) -> is_scalar (shp (d_ap a)) = false ->
  is_cm (ord (d_ap a)) = false -> is_cm (ord (d_ap b)) = false ->
  eng_minmax_vv V vzero vadd g σ ta tb CSafe = eng_cmp_vv V vzero vadd g σ ta tb true CSafe.
Proof.
  intros Ha Hb Hsh Hsc Hca Hcb.
  rewrite (eng_cmp_vv_safe_unfold V vzero vadd g σ ta tb a b true Ha Hb Hsh Hsc Hca Hcb). cbv zeta.
  unfold eng_minmax_vv. rewrite Ha, Hb.
  replace (shape_eq (shp (d_ap a)) (shp (d_ap b))) with true by (rewrite Hsh; symmetry; apply shape_eq_refl).
  cbn [negb]. rewrite (new_dense_eq V vzero σ _ Hsc).
  unfold has_same_order. rewrite Hca, Hcb.
  cbn [Bool.eqb negb]. rewrite !orb_false_r.
  destruct (requires_iterator a || requires_iterator b); [|reflexivity].
  destruct (all_iter a); [|reflexivity]. destruct (all_iter b); [|reflexivity].
  destruct (all_iter (nd_dense σ (shp (d_ap a)))); reflexivity.
Qed.

Theorem minmax_vv_safe_post σ ta tb a b :
  get_t σ ta = Some a -> get_t σ tb = Some b -> wf_dense σ a -> wf_dense σ b ->
  shp (d_ap a) = shp (d_ap b) -> 1 < size (shp (d_ap a)) ->
  cmp_post σ a (eng_minmax_vv V vzero vadd (gf f) σ ta tb CSafe) (fun c => lift2 V f (cell σ a c) (cell σ b c)).
Proof.
  intros Ha Hb Wa Wb Hsh Hsz.
  rewrite (eng_minmax_vv_safe_unfold (gf f) σ ta tb a b Ha Hb Hsh (nd_is_scalar _ Hsz) (wf_rm _ _ _ Wa) (wf_rm _ _ _ Wb)).
  apply cmp_vv_safe_post; assumption.
Qed.

(* unsafe: "both switches fall to panic("Unreachable")" — after the result has been allocated *)
Theorem minmax_vv_unsafe_panics g σ ta tb a b :
  get_t σ ta = Some a -> get_t σ tb = Some b -> shp (d_ap a) = shp (d_ap b) ->
  eng_minmax_vv V vzero vadd g σ ta tb CUnsafe = (fst (fst (new_dense V vzero σ (shp (d_ap a)))), OPanicR).
Proof.
  intros Ha Hb Hsh. unfold eng_minmax_vv. rewrite Ha, Hb, Hsh, shape_eq_refl. cbn [negb].
  rewrite <- Hsh. destruct (new_dense V vzero σ (shp (d_ap a))) as [[σ' t'] d']. reflexivity.
Qed.

(* reuse (inc = false) and incr (inc = true): ONE code path *)
Lemma eng_minmax_vv_reuse_unfold g σ ta tb r a b rdn inc :
  get_t σ ta = Some a -> get_t σ tb = Some b -> get_t σ r = Some rdn ->
  shp (d_ap a) = shp (d_ap b) -> shp (d_ap rdn) = shp (d_ap a) -> d_len rdn = size (shp (d_ap a)) ->
  is_cm (ord (d_ap a)) = false -> is_cm (ord (d_ap b)) = false -> is_cm (ord (d_ap rdn)) = false ->
  eng_minmax_vv V vzero vadd g σ ta tb (rmode inc r) =
    if requires_iterator a || requires_iterator b || requires_iterator rdn then
      match all_iter a, all_iter b, all_iter rdn with
      | Some ai, Some bi, Some ri =>
        match copy_iter_idx V σ rdn a ri ai with
        | Some σ3 => finish V (e_iter V vzero vadd g σ3 rdn b ri bi) σ3 r
        | None => (σ, OPanicR)
        end
      | _, _, _ => (σ, OPanicR)
      end
    else
      match copy_hdr V σ rdn a with
      | Some σ3 => finish V (e_plain V vzero vadd g σ3 rdn b) σ3 r
      | None => (σ, OPanicR)
      end.
Proof.
  intros Ha Hb Hr Hsh Hsr Hl Hca Hcb Hcr.
  assert (Hh : forall i, handle_reuse V σ r (shp (d_ap a)) (ord (d_ap a)) i = Ok σ).
  { intro i. apply (handle_reuse_ok V σ r rdn _ _ i Hr Hl Hsr). unfold has_same_order. rewrite Hca, Hcr. reflexivity. }
  destruct inc; unfold rmode, eng_minmax_vv; rewrite Ha, Hb, Hsh, shape_eq_refl; cbn [negb]; rewrite <- Hsh, Hh;
    rewrite Ha, Hb, Hr; unfold has_same_order; rewrite Hca, Hcb, Hcr;
    cbn [Bool.eqb negb orb]; rewrite !orb_false_r; reflexivity.
Qed.

(* KNOWN FINDING: WithIncr is silently treated as WithReuse (the result OVERWRITES the tensor) *)
Theorem minmax_vv_incr_is_reuse g σ ta tb r a b rdn :
  get_t σ ta = Some a -> get_t σ tb = Some b -> get_t σ r = Some rdn ->
  shp (d_ap a) = shp (d_ap b) -> shp (d_ap rdn) = shp (d_ap a) -> d_len rdn = size (shp (d_ap a)) ->
  is_cm (ord (d_ap a)) = false -> is_cm (ord (d_ap b)) = false -> is_cm (ord (d_ap rdn)) = false ->
  eng_minmax_vv V vzero vadd g σ ta tb (CIncr r) = eng_minmax_vv V vzero vadd g σ ta tb (CReuse r).
Proof.
  intros Ha Hb Hr Hsh Hsr Hl Hca Hcb Hcr.
  pose proof (eng_minmax_vv_reuse_unfold g σ ta tb r a b rdn true Ha Hb Hr Hsh Hsr Hl Hca Hcb Hcr) as H1.
  pose proof (eng_minmax_vv_reuse_unfold g σ ta tb r a b rdn false Ha Hb Hr Hsh Hsr Hl Hca Hcb Hcr) as H2.
  unfold rmode in H1, H2. rewrite H1, H2. reflexivity.
Qed.

(* the result goes to the reuse tensor — ANY well-formed tensor of the right shape and size (a
   non-contiguous one sends the whole operation to the iterator path) *)
Theorem minmax_vv_reuse_post σ ta tb r a b rdn inc :
  get_t σ ta = Some a -> get_t σ tb = Some b -> get_t σ r = Some rdn ->
  wf_dense σ a -> wf_dense σ b -> wf_dense σ rdn -> d_len rdn = size (shp (d_ap rdn)) ->
  shp (d_ap a) = shp (d_ap b) -> shp (d_ap rdn) = shp (d_ap a) ->
  sep rdn a -> sep rdn b ->
  dest_post σ rdn r (eng_minmax_vv V vzero vadd (gf f) σ ta tb (rmode inc r))
            (fun c => lift2 V f (cell σ a c) (cell σ b c)).
Proof.
  intros Ha Hb Hr Wa Wb Wr Hlr Hsh Hsr Hsa Hsb.
  rewrite (eng_minmax_vv_reuse_unfold (gf f) σ ta tb r a b rdn inc Ha Hb Hr Hsh Hsr) by
    (first [rewrite Hlr, Hsr; reflexivity | apply (wf_rm _ _ _ Wa) | apply (wf_rm _ _ _ Wb) | apply (wf_rm _ _ _ Wr)]).
  pose proof (wf_isS _ _ _ Wa) as HSa. pose proof (wf_isS _ _ _ Wb) as HSb. pose proof (wf_isS _ _ _ Wr) as HSr.
  pose proof (wf_big _ _ _ Wa) as Hbiga. pose proof (wf_big _ _ _ Wr) as Hbigr.
  destruct (requires_iterator a || requires_iterator b || requires_iterator rdn) eqn:Eu.
  - rewrite (wf_all_iter _ _ _ Wa), (wf_all_iter _ _ _ Wb), (wf_all_iter _ _ _ Wr). unfold copy_iter_idx.
    destruct (copy_seq_spec V vzero vadd σ rdn a (offsets (d_ap rdn)) (offsets (d_ap a)) (wf_win _ _ _ Wr) (wf_win _ _ _ Wa) Hsa
                (wf_nodup _ _ _ Wr) (wf_range _ _ _ Wr) (wf_range _ _ _ Wa)) as (σ2 & Hcp & Hfr2 & Hv2 & Ho2).
    rewrite Hcp. rewrite (e_iter_vv V vzero vadd (gf f) σ2 rdn b _ _ HSr HSb).
    assert (Hin2r : in_buf σ2 rdn) by (apply (in_buf_frame V σ); [apply Hfr2|apply (wf_win _ _ _ Wr)]).
    assert (Hin2b : in_buf σ2 b) by (apply (in_buf_frame V σ); [apply Hfr2|apply (wf_win _ _ _ Wb)]).
    destruct (k_iter_spec V vzero vadd f σ2 rdn b (offsets (d_ap rdn)) (offsets (d_ap b)) false Hin2r Hin2b Hsb
                (wf_nodup _ _ _ Wr) (wf_range _ _ _ Wr) (wf_range _ _ _ Wb)) as (σ3 & Hrun & Hfr3 & Hv3 & Ho3).
    rewrite Hrun. cbn [drop_err finish]. apply dest_run; [eapply frame_ok_trans; eassumption| |].
    + intros c Hc. assert (Hca : inbox (shp (d_ap a)) c) by (rewrite <- Hsr; exact Hc).
      destruct (wf_cell_some _ _ _ _ Wa Hca) as [xa Hxa].
      destruct (wf_cell_some V σ b c Wb) as [xb Hxb]; [rewrite <- Hsh; exact Hca|].
      rewrite Hxa, Hxb. cbn [lift2]. apply (Hv3 _ (dot (str (d_ap b)) c)).
      * apply zip2_offsets_In; [congruence|apply (wf_pos _ _ _ Wr)|exact Hc].
      * rewrite (Hv2 _ (dot (str (d_ap a)) c)); [exact Hxa|].
        apply zip2_offsets_In; [exact Hsr|apply (wf_pos _ _ _ Wr)|exact Hc].
      * destruct Hfr2 as (_ & _ & _ & _ & Hs2 & _). rewrite (Hs2 b _ Hsb). exact Hxb.
    + intros i Hi. pose proof (offs_nonlogical _ _ (wf_pos _ _ _ Wr) Hi) as Hni.
      rewrite Ho3 by (intro Hin; apply zip2_map_fst_In' in Hin; contradiction).
      apply Ho2. intro Hin. apply zip2_map_fst_In' in Hin. contradiction.
  - apply orb_false_elim in Eu. destruct Eu as [Eu Hrr]. apply orb_false_elim in Eu. destruct Eu as [Hra Hrb].
    destruct (wf_flag _ _ _ Wr Hrr) as [Hstr _].
    destruct (wf_flag _ _ _ Wa Hra) as [Hstra Hla]. destruct (wf_flag _ _ _ Wb Hrb) as [Hstrb Hlb].
    destruct (copy_hdr_spec V vzero vadd σ rdn a (wf_win _ _ _ Wr) (wf_win _ _ _ Wa)) as (σ2 & Hcp & Hfr2 & Hv2); [lia|lia|].
    rewrite Hcp. rewrite (e_plain_vv V vzero vadd (gf f) σ2 rdn b HSr HSb).
    assert (Hin2r : in_buf σ2 rdn) by (apply (in_buf_frame V σ); [apply Hfr2|apply (wf_win _ _ _ Wr)]).
    assert (Hin2b : in_buf σ2 b) by (apply (in_buf_frame V σ); [apply Hfr2|apply (wf_win _ _ _ Wb)]).
    destruct (k_vec_spec V vzero vadd f σ2 rdn b false Hin2r Hin2b Hsb) as (l & σ3 & Hk & Hrun & Hfr3 & Hv3 & _).
    { rewrite Hlr, Hlb, Hsr, Hsh. lia. }
    rewrite Hk. cbn [run_opt]. rewrite Hrun. cbn [finish]. apply dest_run; [eapply frame_ok_trans; eassumption| |].
    + intros c Hc. assert (Hca : inbox (shp (d_ap a)) c) by (rewrite <- Hsr; exact Hc).
      destruct (wf_cell_some _ _ _ _ Wa Hca) as [xa Hxa].
      destruct (wf_cell_some V σ b c Wb) as [xb Hxb]; [rewrite <- Hsh; exact Hca|].
      rewrite Hxa, Hxb. cbn [lift2].
      assert (Hi : 0 <= dot (str (d_ap rdn)) c < d_len rdn).
      { apply (wf_range _ _ _ Wr). apply offsets_In; [apply (wf_pos _ _ _ Wr)|exact Hc]. }
      apply Hv3.
      * rewrite Hv2 by (rewrite Hla, Hlr, Hsr in *; lia).
        unfold OpsProofs.cell in Hxa. rewrite Hstr, Hsr, <- Hstra. exact Hxa.
      * destruct Hfr2 as (_ & _ & _ & _ & Hs2 & _). rewrite (Hs2 b _ Hsb).
        unfold OpsProofs.cell in Hxb. rewrite Hstr, Hsr, Hsh, <- Hstrb. exact Hxb.
    + apply (contig_nonlogical V σ); assumption.
Qed.

End MinMaxVV.

(* ====================================================================================== *)
(*  scalar forms whose result is allocated by NewDense: the common setting                *)
(* ====================================================================================== *)
(* the fresh ROW-MAJOR result of a scalar form, stated over the caller's store: the one-element
   header of the Go scalar and the result live in NEW allocations *)
Definition cmp_post1 (σ : store) (t : dense) (res : store * oresult) (val : list Z -> option V) : Prop :=
  exists σ' d', res = (σ', OOk (length (tens σ))) /\
    get_t σ' (length (tens σ)) = Some d' /\
    shp (d_ap d') = shp (d_ap t) /\ str (d_ap d') = calc_strides (shp (d_ap t)) /\
    is_cm (ord (d_ap d')) = false /\ requires_iterator d' = false /\
    (length (bufs σ) <= d_buf d')%nat /\
    (forall c, inbox (shp (d_ap t)) c -> cell σ' d' c = val c) /\
    (forall k, (k < length (bufs σ))%nat -> get_buf σ' k = get_buf σ k) /\
    firstn (length (tens σ)) (tens σ') = tens σ.

Lemma cmp_post_sc σ s t res val : cmp_post (sc_store σ s) t res val -> cmp_post1 σ t res val.
Proof.
  intros (σ' & d' & Hr & Hg & _ & H1 & H2 & H3 & H4 & Hbuf & Hv & Hb & Hf).
  cbn [OpsProofs.sc_store Mem.tens Mem.bufs] in *.
  exists σ', d'. split; [exact Hr|]. split; [exact Hg|]. repeat (split; [assumption|]).
  split; [rewrite Hbuf, app_length; lia|]. split; [exact Hv|]. split; [|exact Hf].
  intros k Hk. rewrite Hb by (rewrite app_length; cbn [length]; lia). apply sc_store_buf. exact Hk.
Qed.

Lemma sc_nd_setup σ s t : wf_dense σ t -> 1 < size (shp (d_ap t)) ->
  let σ3 := nd_store (sc_store σ s) (shp (d_ap t)) in
  let D := nd_dense (sc_store σ s) (shp (d_ap t)) in
  wf_dense σ3 D /\ wf_dense σ3 t /\ sep D t /\ (forall i, win_get σ3 t i = win_get σ t i) /\
  requires_iterator D = false /\ d_len D = size (shp (d_ap t)) /\
  str (d_ap D) = calc_strides (shp (d_ap t)) /\ shp (d_ap D) = shp (d_ap t) /\
  isS (sc_hdr σ) = true /\
  (forall σ4, frame_ok σ3 σ4 D ->
     hd0 V σ4 (sc_hdr σ) = Some s /\ in_buf σ4 D /\ in_buf σ4 t /\ (forall i, win_get σ4 t i = win_get σ t i)).
Proof.
  intros W Hsz σ3 D.
  pose proof (sc_ext V σ s) as Hext. pose proof (ext_of_wf V _ _ _ Hext W) as W2.
  pose proof (nd_wf V vzero (sc_store σ s) _ (wf_pos _ _ _ W) Hsz) as WD. fold σ3 D in WD.
  destruct (nd_operand V vzero (sc_store σ s) (shp (d_ap t)) t W2) as (W3 & Hsep & Hw3). fold σ3 D in W3, Hsep, Hw3.
  assert (Hwt : forall i, win_get σ3 t i = win_get σ t i).
  { intro i. rewrite Hw3. apply (ext_of_win V σ); [exact Hext|eapply wf_buf_lt; eassumption]. }
  split; [exact WD|]. split; [exact W3|]. split; [exact Hsep|]. split; [exact Hwt|].
  split; [apply nd_requires_iterator; exact Hsz|]. split; [reflexivity|]. split; [reflexivity|]. split; [reflexivity|].
  split; [reflexivity|].
  intros σ4 Hfr. pose proof Hfr as (_ & _ & Hlen & Hoth & Hs & _).
  split; [|split; [|split]].
  - unfold hd0. rewrite (win_get_buf_eq V (sc_store σ s) σ4).
    + apply sc_hd0'.
    + rewrite Hoth.
      * unfold σ3, OpsProofs.nd_store. apply get_buf_app_l.
        unfold OpsProofs.sc_hdr, OpsProofs.sc_store. cbn [d_buf Mem.bufs]. rewrite app_length. cbn [length]. lia.
      * unfold D, OpsProofs.nd_dense, OpsProofs.sc_hdr, OpsProofs.sc_store. cbn [d_buf Mem.bufs].
        rewrite app_length. cbn [length]. lia.
  - apply (in_buf_frame V σ3); [exact Hlen|apply (wf_win _ _ _ WD)].
  - apply (in_buf_frame V σ3); [exact Hlen|apply (wf_win _ _ _ W3)].
  - intro i. rewrite (Hs t i Hsep). apply Hwt.
Qed.

(* ====================================================================================== *)
(*  U2. StdEng.MinBetweenScalar / MaxBetweenScalar, safe mode                             *)
(* ====================================================================================== *)
Section MinMaxScalar.
Variable f : V -> V -> V.

Lemma eng_minmax_scalar_safe_unfold g σ tt t s lt :
  get_t σ tt = Some t -> is_scalar (shp (d_ap t)) = false ->
  eng_minmax_scalar V vzero vadd g σ tt s lt CSafe =
    let sh := sc_hdr σ in
    let σ3 := nd_store (sc_store σ s) (shp (d_ap t)) in
    let d := nd_dense (sc_store σ s) (shp (d_ap t)) in
    let r := length (tens σ) in
    if requires_iterator t then
      match all_iter t, all_iter d with
      | Some ti, Some ri =>
        match copy_iter_idx V σ3 d t ri ti with
        | Some σ4 =>
          if lt then finish V (e_iter V vzero vadd g σ4 d sh ri []) σ4 r
          else finish V (e_iter V vzero vadd g σ4 sh d [] ti) σ4 r
        | None => (σ3, OPanicR)
        end
      | _, _ => (σ3, OPanicR)
      end
    else
      match copy_hdr V σ3 d t with
      | Some σ4 =>
        if lt || (d_len t =? 1) then finish V (e_plain V vzero vadd g σ4 d sh) σ4 r
        else finish V (e_plain V vzero vadd g σ4 sh d) σ4 r
      | None => (σ3, OPanicR)
      end.
Proof.
  intros Ht Hsc. unfold eng_minmax_scalar. rewrite Ht. cbn [scalar_hdr add_buf].
  change (mkStore V (bufs σ ++ [[s]]) (tens σ)) with (sc_store σ s).
  rewrite (new_dense_eq V vzero (sc_store σ s) _ Hsc), Hsc. cbn [negb]. rewrite !orb_false_r. reflexivity.
Qed.

(* tensor on the left: f x s *)
Theorem minmax_scalar_safe_left_post σ tt t s :
  get_t σ tt = Some t -> wf_dense σ t -> 1 < size (shp (d_ap t)) ->
  cmp_post1 σ t (eng_minmax_scalar V vzero vadd (gf f) σ tt s true CSafe) (fun c => lift_l V f s (cell σ t c)).
Proof.
  intros Ht W Hsz.
  rewrite (eng_minmax_scalar_safe_unfold (gf f) σ tt t s true Ht (nd_is_scalar _ Hsz)). cbv zeta.
  destruct (sc_nd_setup σ s t W Hsz) as (WD & W3 & Hsep & Hwt & HrD & HDlen & HDstr & HDshp & HSs & Hafter).
  set (σ3 := nd_store (sc_store σ s) (shp (d_ap t))) in *. set (D := nd_dense (sc_store σ s) (shp (d_ap t))) in *.
  pose proof (wf_isS _ _ _ WD) as HSD. pose proof (wf_big _ _ _ W) as Hbig.
  apply (cmp_post_sc σ s).
  destruct (requires_iterator t) eqn:Er.
  - rewrite (wf_all_iter _ _ _ W), (wf_all_iter _ _ _ WD). unfold copy_iter_idx.
    destruct (copy_seq_spec V vzero vadd σ3 D t (offsets (d_ap D)) (offsets (d_ap t)) (wf_win _ _ _ WD) (wf_win _ _ _ W3) Hsep
                (wf_nodup _ _ _ WD) (wf_range _ _ _ WD) (wf_range _ _ _ W3)) as (σ4 & Hcp & Hfr4 & Hv4 & _).
    rewrite Hcp. destruct (Hafter σ4 Hfr4) as (Hhd & HinD & _ & _).
    rewrite (e_iter_vs V vzero vadd (gf f) σ4 D (sc_hdr σ) _ _ s HSD HSs Hhd).
    destruct (k_iter_vs_spec V vzero vadd f σ4 D s (offsets (d_ap D)) false HinD (wf_nodup _ _ _ WD) (wf_range _ _ _ WD))
      as (σ5 & Hrun & Hfr5 & Hv5 & _).
    rewrite Hrun. cbn [drop_err finish].
    apply (cmp_run V vzero (sc_store σ s) t); [exact Hsz|eapply frame_ok_trans; eassumption|].
    intros c Hc. destruct (wf_cell_some _ _ _ _ W Hc) as [x Hx]. rewrite Hx. cbn [lift_l].
    change (dot (calc_strides (shp (d_ap t))) c) with (dot (str (d_ap D)) c).
    apply Hv5; [apply offsets_In; [apply (wf_pos _ _ _ WD)|exact Hc]|].
    rewrite (Hv4 _ (dot (str (d_ap t)) c)); [rewrite Hwt; exact Hx|].
    apply zip2_offsets_In; [reflexivity|apply (wf_pos _ _ _ WD)|exact Hc].
  - destruct (wf_flag _ _ _ W Er) as [Hstrt Hlt].
    destruct (copy_hdr_spec V vzero vadd σ3 D t (wf_win _ _ _ WD) (wf_win _ _ _ W3)) as (σ4 & Hcp & Hfr4 & Hv4); [lia|lia|].
    rewrite Hcp. destruct (Hafter σ4 Hfr4) as (Hhd & HinD & _ & _). cbn [orb].
    rewrite (e_plain_vs V vzero vadd (gf f) σ4 D (sc_hdr σ) s HSD HSs Hhd).
    destruct (k_vs_spec V vzero vadd f σ4 D s false HinD) as (σ5 & Hrun & Hfr5 & Hv5).
    rewrite Hrun. cbn [finish].
    apply (cmp_run V vzero (sc_store σ s) t); [exact Hsz|eapply frame_ok_trans; eassumption|].
    intros c Hc. destruct (wf_cell_some _ _ _ _ W Hc) as [x Hx]. rewrite Hx. cbn [lift_l].
    assert (Hi : 0 <= dot (calc_strides (shp (d_ap t))) c < size (shp (d_ap t))).
    { rewrite <- rk_dot. apply rk_bound; [apply (wf_pos _ _ _ W)|exact Hc]. }
    apply Hv5. rewrite Hv4 by lia. rewrite Hwt.
    unfold OpsProofs.cell in Hx. rewrite Hstrt in Hx. exact Hx.
Qed.

(* scalar on the left: f s x.  On the iterator path the RESULT is walked with the TENSOR's
   iterator; this is right exactly when the tensor's offsets are a permutation of the result's
   window, i.e. when the tensor fills its window (GUARD d_len t = size of the shape: a lazily
   transposed tensor, but not a sliced view of a larger window) *)
Theorem minmax_scalar_safe_right_post σ tt t s :
  get_t σ tt = Some t -> wf_dense σ t -> 1 < size (shp (d_ap t)) ->
  d_len t = size (shp (d_ap t)) ->
  cmp_post1 σ t (eng_minmax_scalar V vzero vadd (gf f) σ tt s false CSafe) (fun c => lift_r V f s (cell σ t c)).
Proof.
  intros Ht W Hsz Hfull.
  rewrite (eng_minmax_scalar_safe_unfold (gf f) σ tt t s false Ht (nd_is_scalar _ Hsz)). cbv zeta.
  destruct (sc_nd_setup σ s t W Hsz) as (WD & W3 & Hsep & Hwt & HrD & HDlen & HDstr & HDshp & HSs & Hafter).
  set (σ3 := nd_store (sc_store σ s) (shp (d_ap t))) in *. set (D := nd_dense (sc_store σ s) (shp (d_ap t))) in *.
  pose proof (wf_isS _ _ _ WD) as HSD. pose proof (wf_big _ _ _ W) as Hbig.
  apply (cmp_post_sc σ s).
  assert (Hi : forall c, inbox (shp (d_ap t)) c -> 0 <= dot (calc_strides (shp (d_ap t))) c < size (shp (d_ap t))).
  { intros c Hc. rewrite <- rk_dot. apply rk_bound; [apply (wf_pos _ _ _ W)|exact Hc]. }
  destruct (requires_iterator t) eqn:Er.
  - rewrite (wf_all_iter _ _ _ W), (wf_all_iter _ _ _ WD). unfold copy_iter_idx.
    destruct (copy_seq_spec V vzero vadd σ3 D t (offsets (d_ap D)) (offsets (d_ap t)) (wf_win _ _ _ WD) (wf_win _ _ _ W3) Hsep
                (wf_nodup _ _ _ WD) (wf_range _ _ _ WD) (wf_range _ _ _ W3)) as (σ4 & Hcp & Hfr4 & Hv4 & _).
    rewrite Hcp. destruct (Hafter σ4 Hfr4) as (Hhd & HinD & _ & _).
    rewrite (e_iter_sv V vzero vadd (gf f) σ4 (sc_hdr σ) D _ _ s HSs HSD Hhd).
    assert (Hrange : forall j, In j (offsets (d_ap t)) -> 0 <= j < d_len D).
    { intros j Hj. rewrite HDlen, <- Hfull. apply (wf_range _ _ _ W). exact Hj. }
    destruct (k_iter_sv_spec V vzero vadd f σ4 s D (offsets (d_ap t)) false HinD (wf_nodup _ _ _ W) Hrange)
      as (σ5 & Hrun & Hfr5 & Hv5 & _).
    rewrite Hrun. cbn [drop_err finish].
    apply (cmp_run V vzero (sc_store σ s) t); [exact Hsz|eapply frame_ok_trans; eassumption|].
    intros c Hc. destruct (wf_cell_some _ _ _ _ W Hc) as [x Hx]. rewrite Hx. cbn [lift_r].
    apply Hv5.
    + (* the tensor's iterator does reach the result cell of c *)
      apply (nodup_range_cover (offsets (d_ap t)) (size (shp (d_ap t)))); [apply (wf_nodup _ _ _ W)| |apply offsets_length|apply Hi; exact Hc].
      intros o Ho. rewrite <- Hfull. apply (wf_range _ _ _ W). exact Ho.
    + change (dot (calc_strides (shp (d_ap t))) c) with (dot (str (d_ap D)) c).
      rewrite (Hv4 _ (dot (str (d_ap t)) c)); [rewrite Hwt; exact Hx|].
      apply zip2_offsets_In; [reflexivity|apply (wf_pos _ _ _ WD)|exact Hc].
  - destruct (wf_flag _ _ _ W Er) as [Hstrt Hlt].
    destruct (copy_hdr_spec V vzero vadd σ3 D t (wf_win _ _ _ WD) (wf_win _ _ _ W3)) as (σ4 & Hcp & Hfr4 & Hv4); [lia|lia|].
    rewrite Hcp. destruct (Hafter σ4 Hfr4) as (Hhd & HinD & _ & _).
    replace (d_len t =? 1) with false by lia. cbn [orb].
    rewrite (e_plain_sv V vzero vadd (gf f) σ4 (sc_hdr σ) D s HSs HSD Hhd).
    destruct (k_sv_spec V vzero vadd f σ4 s D false HinD) as (σ5 & Hrun & Hfr5 & Hv5).
    rewrite Hrun. cbn [finish].
    apply (cmp_run V vzero (sc_store σ s) t); [exact Hsz|eapply frame_ok_trans; eassumption|].
    intros c Hc. destruct (wf_cell_some _ _ _ _ W Hc) as [x Hx]. rewrite Hx. cbn [lift_r].
    apply Hv5. rewrite Hv4 by (specialize (Hi c Hc); lia). rewrite Hwt.
    unfold OpsProofs.cell in Hx. rewrite Hstrt in Hx. exact Hx.
Qed.

(* the guard suggested by the code: a tensor that needs no iterator fills its window *)
Corollary minmax_scalar_safe_right_contig σ tt t s :
  get_t σ tt = Some t -> wf_dense σ t -> 1 < size (shp (d_ap t)) -> requires_iterator t = false ->
  cmp_post1 σ t (eng_minmax_scalar V vzero vadd (gf f) σ tt s false CSafe) (fun c => lift_r V f s (cell σ t c)).
Proof.
  intros Ht W Hsz Hr. apply minmax_scalar_safe_right_post; try assumption. apply (wf_flag _ _ _ W Hr).
Qed.

End MinMaxScalar.

(* ====================================================================================== *)
(*  U4. StdEng.<Cmp>Scalar, safe mode, both result types                                  *)
(* ====================================================================================== *)
Section CmpScalar.
Variable f : V -> V -> V.

(* AsSameType(): NewDense, Copy / CopyIter of the tensor, then the <Cmp>Same kernel in place —
   the code of MinBetweenScalar / MaxBetweenScalar *)
Lemma eng_cmp_scalar_same_unfold g σ tt t s lt :
  get_t σ tt = Some t -> is_scalar (shp (d_ap t)) = false -> isS t = false ->
  eng_cmp_scalar V vzero vadd g σ tt s lt true CSafe = eng_minmax_scalar V vzero vadd g σ tt s lt CSafe.
Proof.
  intros Ht Hsc HSt. rewrite (eng_minmax_scalar_safe_unfold g σ tt t s lt Ht Hsc). cbv zeta.
  unfold eng_cmp_scalar, eng_cmp_scalar_h. rewrite Ht. cbn [scalar_hdr add_buf].
  change (mkStore V (bufs σ ++ [[s]]) (tens σ)) with (sc_store σ s).
  rewrite (new_dense_eq V vzero (sc_store σ s) _ Hsc), Hsc. cbn [negb orb]. rewrite !orb_false_r.
  change (mkDense (length (bufs σ)) 0 1 scalar_ap None false) with (sc_hdr σ).
  assert (Hl1 : (d_len t =? 1) = false) by exact HSt.
  destruct (requires_iterator t).
  - destruct (all_iter t) as [seq|]; [|reflexivity].
    destruct (all_iter (nd_dense (sc_store σ s) (shp (d_ap t)))) as [ri|]; [|reflexivity].
    destruct lt; reflexivity.
  - destruct lt; cbn [orb]; [reflexivity|]. rewrite Hl1, HSt, andb_false_r. reflexivity.
Qed.

(* bool result: the <Cmp>VS / <Cmp>SV kernels write the fresh result directly *)
Lemma eng_cmp_scalar_bool_unfold g σ tt t s lt :
  get_t σ tt = Some t -> is_scalar (shp (d_ap t)) = false ->
  eng_cmp_scalar V vzero vadd g σ tt s lt false CSafe =
    let sh := sc_hdr σ in
    let σ3 := nd_store (sc_store σ s) (shp (d_ap t)) in
    let d := nd_dense (sc_store σ s) (shp (d_ap t)) in
    let r := length (tens σ) in
    if requires_iterator t then
      match all_iter t with
      | None => (σ3, OPanicR)
      | Some seq =>
        match all_iter d with
        | Some ri =>
          if lt then finish2 V (e_ret_iter V vzero vadd g σ3 t sh d seq [] ri) σ3 r
          else finish2 V (e_ret_iter V vzero vadd g σ3 sh t d [] seq ri) σ3 r
        | None => (σ3, OPanicR)
        end
      end
    else
      if lt then finish2 V (e_ret V vzero vadd g σ3 t sh d) σ3 r
      else finish2 V (e_ret V vzero vadd g σ3 sh t d) σ3 r.
Proof.
  intros Ht Hsc. unfold eng_cmp_scalar, eng_cmp_scalar_h. rewrite Ht. cbn [scalar_hdr add_buf].
  change (mkStore V (bufs σ ++ [[s]]) (tens σ)) with (sc_store σ s).
  rewrite (new_dense_eq V vzero (sc_store σ s) _ Hsc), Hsc. cbn [negb orb]. rewrite !orb_false_r.
  change (mkDense (length (bufs σ)) 0 1 scalar_ap None false) with (sc_hdr σ).
  destruct (requires_iterator t).
  - destruct (all_iter t) as [seq|]; [|reflexivity].
    destruct (all_iter (nd_dense (sc_store σ s) (shp (d_ap t)))) as [ri|]; [|reflexivity].
    destruct lt; reflexivity.
  - destruct lt; reflexivity.
Qed.

Theorem cmp_scalar_safe_left_post σ tt t s same0 :
  get_t σ tt = Some t -> wf_dense σ t -> 1 < size (shp (d_ap t)) ->
  cmp_post1 σ t (eng_cmp_scalar V vzero vadd (gf f) σ tt s true same0 CSafe) (fun c => lift_l V f s (cell σ t c)).
Proof.
  intros Ht W Hsz. destruct same0.
  { rewrite (eng_cmp_scalar_same_unfold (gf f) σ tt t s true Ht (nd_is_scalar _ Hsz) (wf_isS _ _ _ W)).
    apply minmax_scalar_safe_left_post; assumption. }
  rewrite (eng_cmp_scalar_bool_unfold (gf f) σ tt t s true Ht (nd_is_scalar _ Hsz)). cbv zeta.
  destruct (sc_nd_setup σ s t W Hsz) as (WD & W3 & Hsep & Hwt & HrD & HDlen & HDstr & HDshp & HSs & Hafter).
  set (σ3 := nd_store (sc_store σ s) (shp (d_ap t))) in *. set (D := nd_dense (sc_store σ s) (shp (d_ap t))) in *.
  pose proof (wf_isS _ _ _ WD) as HSD. pose proof (wf_isS _ _ _ W) as HSt. pose proof (wf_big _ _ _ W) as Hbig.
  destruct (Hafter σ3 (frame_ok_refl V σ3 D)) as (Hhd & _ & _ & _).
  apply (cmp_post_sc σ s).
  destruct (requires_iterator t) eqn:Er.
  - rewrite (wf_all_iter _ _ _ W), (wf_all_iter _ _ _ WD).
    rewrite (e_ret_iter_vs (gf f) σ3 t (sc_hdr σ) D _ _ _ s HSt HSs HSD Hhd).
    destruct (k_ret_iter_vs_spec f σ3 t s D (offsets (d_ap t)) (offsets (d_ap D)) false (wf_win _ _ _ W3) (wf_win _ _ _ WD) Hsep
                (wf_nodup _ _ _ WD) (wf_range _ _ _ W3) (wf_range _ _ _ WD)) as (σ4 & Hrun & Hfr4 & Hv4 & _).
    rewrite Hrun. cbn [finish2 finish fst snd].
    apply (cmp_run V vzero (sc_store σ s) t); [exact Hsz|exact Hfr4|].
    intros c Hc. destruct (wf_cell_some _ _ _ _ W Hc) as [x Hx]. rewrite Hx. cbn [lift_l].
    change (dot (calc_strides (shp (d_ap t))) c) with (dot (str (d_ap D)) c).
    apply (Hv4 (dot (str (d_ap t)) c)); [|rewrite Hwt; exact Hx].
    apply zip2_offsets_In; [reflexivity|apply (wf_pos _ _ _ W)|exact Hc].
  - destruct (wf_flag _ _ _ W Er) as [Hstrt Hlt].
    rewrite (e_ret_vs (gf f) σ3 t (sc_hdr σ) D s HSt HSs HSD Hhd).
    destruct (k_ret_vs_spec f σ3 t s D false (wf_win _ _ _ W3) (wf_win _ _ _ WD) Hsep) as (σ4 & Hrun & Hfr4 & Hv4); [lia|].
    rewrite Hrun. cbn [finish2 finish fst snd].
    apply (cmp_run V vzero (sc_store σ s) t); [exact Hsz|exact Hfr4|].
    intros c Hc. destruct (wf_cell_some _ _ _ _ W Hc) as [x Hx]. rewrite Hx. cbn [lift_l].
    assert (Hi : 0 <= dot (calc_strides (shp (d_ap t))) c < size (shp (d_ap t))).
    { rewrite <- rk_dot. apply rk_bound; [apply (wf_pos _ _ _ W)|exact Hc]. }
    apply Hv4; [lia|]. rewrite Hwt. unfold OpsProofs.cell in Hx. rewrite Hstrt in Hx. exact Hx.
Qed.

(* scalar on the left.  Only the same-type result on the iterator path needs the guard of
   minmax_scalar_safe_right_post (the result is walked with the tensor's iterator) *)
Theorem cmp_scalar_safe_right_post σ tt t s same0 :
  get_t σ tt = Some t -> wf_dense σ t -> 1 < size (shp (d_ap t)) ->
  (same0 = true -> d_len t = size (shp (d_ap t))) ->
  cmp_post1 σ t (eng_cmp_scalar V vzero vadd (gf f) σ tt s false same0 CSafe) (fun c => lift_r V f s (cell σ t c)).
Proof.
  intros Ht W Hsz Hfull. destruct same0.
  { rewrite (eng_cmp_scalar_same_unfold (gf f) σ tt t s false Ht (nd_is_scalar _ Hsz) (wf_isS _ _ _ W)).
    apply minmax_scalar_safe_right_post; auto. }
  clear Hfull.
  rewrite (eng_cmp_scalar_bool_unfold (gf f) σ tt t s false Ht (nd_is_scalar _ Hsz)). cbv zeta.
  destruct (sc_nd_setup σ s t W Hsz) as (WD & W3 & Hsep & Hwt & HrD & HDlen & HDstr & HDshp & HSs & Hafter).
  set (σ3 := nd_store (sc_store σ s) (shp (d_ap t))) in *. set (D := nd_dense (sc_store σ s) (shp (d_ap t))) in *.
  pose proof (wf_isS _ _ _ WD) as HSD. pose proof (wf_isS _ _ _ W) as HSt. pose proof (wf_big _ _ _ W) as Hbig.
  destruct (Hafter σ3 (frame_ok_refl V σ3 D)) as (Hhd & _ & _ & _).
  apply (cmp_post_sc σ s).
  destruct (requires_iterator t) eqn:Er.
  - rewrite (wf_all_iter _ _ _ W), (wf_all_iter _ _ _ WD).
    rewrite (e_ret_iter_sv (gf f) σ3 (sc_hdr σ) t D _ _ _ s HSs HSt HSD Hhd).
    destruct (k_ret_iter_sv_spec f σ3 s t D (offsets (d_ap t)) (offsets (d_ap D)) false (wf_win _ _ _ W3) (wf_win _ _ _ WD) Hsep
                (wf_nodup _ _ _ WD) (wf_range _ _ _ W3) (wf_range _ _ _ WD)) as (σ4 & Hrun & Hfr4 & Hv4 & _).
    rewrite Hrun. cbn [finish2 finish fst snd].
    apply (cmp_run V vzero (sc_store σ s) t); [exact Hsz|exact Hfr4|].
    intros c Hc. destruct (wf_cell_some _ _ _ _ W Hc) as [x Hx]. rewrite Hx. cbn [lift_r].
    change (dot (calc_strides (shp (d_ap t))) c) with (dot (str (d_ap D)) c).
    apply (Hv4 (dot (str (d_ap t)) c)); [|rewrite Hwt; exact Hx].
    apply zip2_offsets_In; [reflexivity|apply (wf_pos _ _ _ W)|exact Hc].
  - destruct (wf_flag _ _ _ W Er) as [Hstrt Hlt].
    rewrite (e_ret_sv (gf f) σ3 (sc_hdr σ) t D s HSs HSt HSD Hhd).
    destruct (k_ret_sv_spec f σ3 s t D false (wf_win _ _ _ W3) (wf_win _ _ _ WD) Hsep) as (σ4 & Hrun & Hfr4 & Hv4); [lia|].
    rewrite Hrun. cbn [finish2 finish fst snd].
    apply (cmp_run V vzero (sc_store σ s) t); [exact Hsz|exact Hfr4|].
    intros c Hc. destruct (wf_cell_some _ _ _ _ W Hc) as [x Hx]. rewrite Hx. cbn [lift_r].
    assert (Hi : 0 <= dot (calc_strides (shp (d_ap t))) c < size (shp (d_ap t))).
    { rewrite <- rk_dot. apply rk_bound; [apply (wf_pos _ _ _ W)|exact Hc]. }
    apply Hv4; [lia|]. rewrite Hwt. unfold OpsProofs.cell in Hx. rewrite Hstrt in Hx. exact Hx.
Qed.

End CmpScalar.

(* ====================================================================================== *)
(*  U5. StdEng.<Cmp> (tensor-tensor) in unsafe / reuse / incr mode                        *)
(* ====================================================================================== *)
Section CmpVVModes.
Variable f : V -> V -> V.

(* unsafe forces the same-type result and runs the arithmetic template's unsafe code *)
Lemma eng_cmp_vv_unsafe_unfold g σ ta tb a b same0 :
  get_t σ ta = Some a -> get_t σ tb = Some b ->
  shp (d_ap a) = shp (d_ap b) ->
  is_cm (ord (d_ap a)) = false -> is_cm (ord (d_ap b)) = false ->
  eng_cmp_vv V vzero vadd g σ ta tb same0 CUnsafe = eng_arith_vv V vzero vadd g σ ta tb MUnsafe.
Proof.
  intros Ha Hb Hsh Hca Hcb.
  rewrite (eng_arith_vv_unsafe_unfold V vzero vadd g σ ta tb a b Ha Hb Hsh Hca Hcb).
  unfold eng_cmp_vv. rewrite Ha, Hb, Hsh, shape_eq_refl. cbn [negb].
  unfold has_same_order. rewrite Hca, Hcb. cbn [Bool.eqb negb]. rewrite !orb_false_r.
  destruct (requires_iterator a || requires_iterator b); [|reflexivity].
  destruct (all_iter a); [|reflexivity]. destruct (all_iter b); reflexivity.
Qed.

Theorem cmp_vv_unsafe_post σ ta tb a b same0 :
  get_t σ ta = Some a -> get_t σ tb = Some b -> wf_dense σ a -> wf_dense σ b ->
  shp (d_ap a) = shp (d_ap b) -> sep a b ->
  dest_post σ a ta (eng_cmp_vv V vzero vadd (gf f) σ ta tb same0 CUnsafe) (fun c => lift2 V f (cell σ a c) (cell σ b c)).
Proof.
  intros Ha Hb Wa Wb Hsh Hsep.
  rewrite (eng_cmp_vv_unsafe_unfold (gf f) σ ta tb a b same0 Ha Hb Hsh (wf_rm _ _ _ Wa) (wf_rm _ _ _ Wb)).
  apply arith_vv_unsafe_post; assumption.
Qed.

(* reuse (inc = false) and incr (inc = true): one code path here too *)
Lemma eng_cmp_vv_reuse_unfold g σ ta tb r a b rdn same0 inc :
  get_t σ ta = Some a -> get_t σ tb = Some b -> get_t σ r = Some rdn ->
  shp (d_ap a) = shp (d_ap b) -> shp (d_ap rdn) = shp (d_ap a) -> d_len rdn = size (shp (d_ap a)) ->
  is_cm (ord (d_ap a)) = false -> is_cm (ord (d_ap b)) = false -> is_cm (ord (d_ap rdn)) = false ->
  eng_cmp_vv V vzero vadd g σ ta tb same0 (rmode inc r) =
    if requires_iterator a || requires_iterator b || requires_iterator rdn then
      match all_iter a, all_iter b, all_iter rdn with
      | Some ai, Some bi, Some ri =>
        if same0 then
          match copy_iter_idx V σ rdn a ri ai with
          | Some σ3 => finish V (e_iter V vzero vadd g σ3 rdn b ri bi) σ3 r
          | None => (σ, OPanicR)
          end
        else finish2 V (e_ret_iter V vzero vadd g σ a b rdn ai bi ri) σ r
      | _, _, _ => (σ, OPanicR)
      end
    else
      if same0 then
        match copy_hdr V σ rdn a with
        | Some σ3 => finish V (e_plain V vzero vadd g σ3 rdn b) σ3 r
        | None => (σ, OPanicR)
        end
      else finish2 V (e_ret V vzero vadd g σ a b rdn) σ r.
Proof.
  intros Ha Hb Hr Hsh Hsr Hl Hca Hcb Hcr.
  assert (Hh : forall i, handle_reuse V σ r (shp (d_ap a)) (ord (d_ap a)) i = Ok σ).
  { intro i. apply (handle_reuse_ok V σ r rdn _ _ i Hr Hl Hsr). unfold has_same_order. rewrite Hca, Hcr. reflexivity. }
  destruct inc; unfold rmode, eng_cmp_vv; rewrite Ha, Hb, Hsh, shape_eq_refl; cbn [negb]; rewrite <- Hsh, Hh;
    rewrite Ha, Hb, Hr; unfold has_same_order; rewrite Hca, Hcb, Hcr;
    cbn [Bool.eqb negb orb]; rewrite !orb_false_r;
    (destruct (requires_iterator a || requires_iterator b || requires_iterator rdn);
     [destruct (all_iter a); [|reflexivity]; destruct (all_iter b); [|reflexivity];
      destruct (all_iter rdn); destruct same0; reflexivity
     |destruct same0; reflexivity]).
Qed.

Lemma eng_cmp_vv_same_reuse_is_minmax g σ ta tb r a b rdn inc :
  get_t σ ta = Some a -> get_t σ tb = Some b -> get_t σ r = Some rdn ->
  shp (d_ap a) = shp (d_ap b) -> shp (d_ap rdn) = shp (d_ap a) -> d_len rdn = size (shp (d_ap a)) ->
  is_cm (ord (d_ap a)) = false -> is_cm (ord (d_ap b)) = false -> is_cm (ord (d_ap rdn)) = false ->
  eng_cmp_vv V vzero vadd g σ ta tb true (rmode inc r) = eng_minmax_vv V vzero vadd g σ ta tb (rmode inc r).
Proof.
  intros Ha Hb Hr Hsh Hsr Hl Hca Hcb Hcr.
  rewrite (eng_cmp_vv_reuse_unfold g σ ta tb r a b rdn true inc Ha Hb Hr Hsh Hsr Hl Hca Hcb Hcr).
  rewrite (eng_minmax_vv_reuse_unfold g σ ta tb r a b rdn inc Ha Hb Hr Hsh Hsr Hl Hca Hcb Hcr).
  reflexivity.
Qed.

(* KNOWN FINDING: WithIncr on a comparison is treated as WithReuse *)
Theorem cmp_vv_incr_is_reuse g σ ta tb r a b rdn same0 :
  get_t σ ta = Some a -> get_t σ tb = Some b -> get_t σ r = Some rdn ->
  shp (d_ap a) = shp (d_ap b) -> shp (d_ap rdn) = shp (d_ap a) -> d_len rdn = size (shp (d_ap a)) ->
  is_cm (ord (d_ap a)) = false -> is_cm (ord (d_ap b)) = false -> is_cm (ord (d_ap rdn)) = false ->
  eng_cmp_vv V vzero vadd g σ ta tb same0 (CIncr r) = eng_cmp_vv V vzero vadd g σ ta tb same0 (CReuse r).
Proof.
  intros Ha Hb Hr Hsh Hsr Hl Hca Hcb Hcr.
  pose proof (eng_cmp_vv_reuse_unfold g σ ta tb r a b rdn same0 true Ha Hb Hr Hsh Hsr Hl Hca Hcb Hcr) as H1.
  pose proof (eng_cmp_vv_reuse_unfold g σ ta tb r a b rdn same0 false Ha Hb Hr Hsh Hsr Hl Hca Hcb Hcr) as H2.
  unfold rmode in H1, H2. rewrite H1, H2. reflexivity.
Qed.

Theorem cmp_vv_reuse_post σ ta tb r a b rdn same0 inc :
  get_t σ ta = Some a -> get_t σ tb = Some b -> get_t σ r = Some rdn ->
  wf_dense σ a -> wf_dense σ b -> wf_dense σ rdn -> d_len rdn = size (shp (d_ap rdn)) ->
  shp (d_ap a) = shp (d_ap b) -> shp (d_ap rdn) = shp (d_ap a) ->
  sep rdn a -> sep rdn b ->
  dest_post σ rdn r (eng_cmp_vv V vzero vadd (gf f) σ ta tb same0 (rmode inc r))
            (fun c => lift2 V f (cell σ a c) (cell σ b c)).
Proof.
  intros Ha Hb Hr Wa Wb Wr Hlr Hsh Hsr Hsa Hsb.
  assert (Hl : d_len rdn = size (shp (d_ap a))) by (rewrite Hlr, Hsr; reflexivity).
  destruct same0.
  { rewrite (eng_cmp_vv_same_reuse_is_minmax (gf f) σ ta tb r a b rdn inc Ha Hb Hr Hsh Hsr Hl
               (wf_rm _ _ _ Wa) (wf_rm _ _ _ Wb) (wf_rm _ _ _ Wr)).
    apply minmax_vv_reuse_post; assumption. }
  rewrite (eng_cmp_vv_reuse_unfold (gf f) σ ta tb r a b rdn false inc Ha Hb Hr Hsh Hsr Hl
             (wf_rm _ _ _ Wa) (wf_rm _ _ _ Wb) (wf_rm _ _ _ Wr)).
  pose proof (wf_isS _ _ _ Wa) as HSa. pose proof (wf_isS _ _ _ Wb) as HSb. pose proof (wf_isS _ _ _ Wr) as HSr.
  destruct (requires_iterator a || requires_iterator b || requires_iterator rdn) eqn:Eu.
  - rewrite (wf_all_iter _ _ _ Wa), (wf_all_iter _ _ _ Wb), (wf_all_iter _ _ _ Wr).
    rewrite (e_ret_iter_vv V vzero vadd (gf f) σ a b rdn _ _ _ HSa HSb).
    destruct (k_ret_iter_spec V vzero vadd f σ a b rdn (offsets (d_ap a)) (offsets (d_ap b)) (offsets (d_ap rdn)) false
                (wf_win _ _ _ Wa) (wf_win _ _ _ Wb) (wf_win _ _ _ Wr) Hsa Hsb (wf_nodup _ _ _ Wr)
                (wf_range _ _ _ Wa) (wf_range _ _ _ Wb) (wf_range _ _ _ Wr)) as (σ' & Hrun & Hfr & Hv & Hoth).
    rewrite Hrun. cbn [finish2 finish fst snd]. apply dest_run; [exact Hfr| |].
    + intros c Hc. assert (Hca : inbox (shp (d_ap a)) c) by (rewrite <- Hsr; exact Hc).
      destruct (wf_cell_some _ _ _ _ Wa Hca) as [xa Hxa].
      destruct (wf_cell_some V σ b c Wb) as [xb Hxb]; [rewrite <- Hsh; exact Hca|].
      rewrite Hxa, Hxb. cbn [lift2].
      apply (Hv (dot (str (d_ap a)) c) (dot (str (d_ap b)) c)); [|exact Hxa|exact Hxb].
      apply zip3_offsets_In; [exact Hsh|exact Hsr|apply (wf_pos _ _ _ Wa)|exact Hca].
    + intros i Hi. apply Hoth. intro Hin. apply (zip3_map_snd_In V vzero vadd f) in Hin.
      revert Hin. apply offs_nonlogical; [apply (wf_pos _ _ _ Wr)|exact Hi].
  - apply orb_false_elim in Eu. destruct Eu as [Eu Hrr]. apply orb_false_elim in Eu. destruct Eu as [Hra Hrb].
    destruct (wf_flag _ _ _ Wr Hrr) as [Hstr _].
    destruct (wf_flag _ _ _ Wa Hra) as [Hstra Hla]. destruct (wf_flag _ _ _ Wb Hrb) as [Hstrb Hlb].
    rewrite (e_ret_vv V vzero vadd (gf f) σ a b rdn HSa HSb).
    destruct (k_ret_spec V vzero vadd f σ a b rdn false (wf_win _ _ _ Wa) (wf_win _ _ _ Wb) (wf_win _ _ _ Wr) Hsa Hsb)
      as (l & σ' & Hk & Hrun & Hfr & Hv).
    { rewrite Hla, Hlb, Hsh. lia. }
    { rewrite Hl, Hla. lia. }
    rewrite Hk. cbn [run_opt]. rewrite Hrun. cbn [finish2 finish fst snd]. apply dest_run; [exact Hfr| |].
    + intros c Hc. assert (Hca : inbox (shp (d_ap a)) c) by (rewrite <- Hsr; exact Hc).
      destruct (wf_cell_some _ _ _ _ Wa Hca) as [xa Hxa].
      destruct (wf_cell_some V σ b c Wb) as [xb Hxb]; [rewrite <- Hsh; exact Hca|].
      rewrite Hxa, Hxb. cbn [lift2]. apply Hv.
      * unfold OpsProofs.cell in Hxa. rewrite Hstr, Hsr, <- Hstra. exact Hxa.
      * unfold OpsProofs.cell in Hxb. rewrite Hstr, Hsr, Hsh, <- Hstrb. exact Hxb.
    + apply (contig_nonlogical V σ); assumption.
Qed.

End CmpVVModes.

(* ====================================================================================== *)
(*  U3. StdEng.<Op>Scalar in reuse / incr mode                                            *)
(* ====================================================================================== *)
(* the scalar header survives every write into a destination that existed before *)
Lemma sc_hd0_frame σ s σ3 D : (d_buf D < length (bufs σ))%nat -> frame_ok (sc_store σ s) σ3 D ->
  hd0 V σ3 (sc_hdr σ) = Some s.
Proof.
  intros HD (_ & _ & _ & Hoth & _). unfold hd0. rewrite (win_get_buf_eq V (sc_store σ s) σ3).
  - apply sc_hd0'.
  - apply Hoth. unfold OpsProofs.sc_hdr. cbn [d_buf]. lia.
Qed.

Section ScalarModes.
Variable f : V -> V -> V.

Lemma eng_arith_scalar_reuse_unfold g σ tt t s lt r rdn seq :
  get_t σ tt = Some t -> get_t σ r = Some rdn -> all_iter t = Some seq ->
  shp (d_ap rdn) = shp (d_ap t) -> d_len rdn = size (shp (d_ap t)) ->
  is_cm (ord (d_ap t)) = false -> is_cm (ord (d_ap rdn)) = false ->
  is_scalar (shp (d_ap t)) = false -> is_scalar_equiv (shp (d_ap t)) = false ->
  eng_arith_scalar V vzero vadd g σ tt s lt (MReuse r) =
    let σ2 := sc_store σ s in let sh := sc_hdr σ in
    if requires_iterator t || requires_iterator rdn then
      match all_iter rdn with
      | Some ii =>
        match copy_iter_idx V σ2 rdn t ii seq with
        | Some σ3 =>
          if lt then finish V (e_iter V vzero vadd g σ3 rdn sh ii []) σ3 r
          else finish V (e_iter V vzero vadd g σ3 sh rdn [] ii) σ3 r
        | None => (σ2, OPanicR)
        end
      | None => (σ2, OPanicR)
      end
    else
      match copy_hdr V σ2 rdn t with
      | Some σ3 =>
        if lt then finish V (e_plain V vzero vadd g σ3 rdn sh) σ3 r
        else match e_plain V vzero vadd g σ3 sh rdn with
             | Some (σ4, e) => finish V (Some (σ4, e)) σ4 r
             | None => (σ2, OPanicR)
             end
      | None => (σ2, OPanicR)
      end.
Proof.
  intros Ht Hr Hseq Hsr Hl Hct Hcr Hsc Hse. unfold eng_arith_scalar, eng_arith_scalar_h. rewrite Ht. cbn [opt_reuse].
  rewrite (handle_reuse_ok V σ r rdn _ _ false Hr Hl Hsr) by (unfold has_same_order; rewrite Hct, Hcr; reflexivity).
  rewrite Ht, Hr. cbn [scalar_hdr add_buf]. rewrite Hseq, Hsc, Hse.
  unfold has_same_order. rewrite Hct, Hcr. cbn [Bool.eqb negb]. rewrite !orb_false_r.
  destruct lt; destruct (requires_iterator t || requires_iterator rdn); cbn [is_some negb]; reflexivity.
Qed.

Lemma eng_arith_scalar_incr_unfold g σ tt t s lt r rdn seq :
  get_t σ tt = Some t -> get_t σ r = Some rdn -> all_iter t = Some seq ->
  shp (d_ap rdn) = shp (d_ap t) -> d_len rdn = size (shp (d_ap t)) ->
  is_cm (ord (d_ap t)) = false -> is_cm (ord (d_ap rdn)) = false ->
  is_scalar (shp (d_ap t)) = false ->
  eng_arith_scalar V vzero vadd g σ tt s lt (MIncr r) =
    let σ2 := sc_store σ s in let sh := sc_hdr σ in
    if requires_iterator t || requires_iterator rdn then
      match all_iter rdn with
      | Some ii =>
        if lt then finish2 V (e_iter_incr V vzero vadd g σ2 t sh rdn seq [] ii) σ2 r
        else finish2 V (e_iter_incr V vzero vadd g σ2 sh t rdn [] seq ii) σ2 r
      | None => (σ2, OPanicR)
      end
    else
      if lt then finish2 V (e_incr V vzero vadd g σ2 t sh rdn) σ2 r
      else finish2 V (e_incr V vzero vadd g σ2 sh t rdn) σ2 r.
Proof.
  intros Ht Hr Hseq Hsr Hl Hct Hcr Hsc. unfold eng_arith_scalar, eng_arith_scalar_h. rewrite Ht. cbn [opt_reuse].
  rewrite (handle_reuse_ok V σ r rdn _ _ true Hr Hl Hsr) by (unfold has_same_order; rewrite Hct, Hcr; reflexivity).
  rewrite Ht, Hr. cbn [scalar_hdr add_buf]. rewrite Hseq, Hsc.
  unfold has_same_order. rewrite Hct, Hcr. cbn [Bool.eqb negb]. rewrite !orb_false_r.
  destruct lt; destruct (requires_iterator t || requires_iterator rdn); cbn [is_some negb]; reflexivity.
Qed.

(* what the hypotheses of the two theorems give *)
Lemma scalar_dest_setup σ s t rdn :
  wf_dense σ t -> wf_dense σ rdn -> d_len rdn = size (shp (d_ap rdn)) -> shp (d_ap rdn) = shp (d_ap t) ->
  d_len rdn = size (shp (d_ap t)) /\ is_scalar (shp (d_ap t)) = false /\ is_scalar_equiv (shp (d_ap t)) = false /\
  ext_of σ (sc_store σ s) /\ wf_dense (sc_store σ s) t /\ wf_dense (sc_store σ s) rdn /\
  (d_buf rdn < length (bufs σ))%nat /\
  (forall i, win_get (sc_store σ s) t i = win_get σ t i) /\
  (forall i, win_get (sc_store σ s) rdn i = win_get σ rdn i).
Proof.
  intros W Wr Hlr Hsr. pose proof (wf_big _ _ _ Wr) as Hbig.
  assert (Hsz : 1 < size (shp (d_ap t))) by (rewrite <- Hsr, <- Hlr; exact Hbig).
  pose proof (sc_ext V σ s) as Hext.
  split; [rewrite Hlr, Hsr; reflexivity|]. split; [apply nd_is_scalar; exact Hsz|]. split.
  { destruct (is_scalar_equiv (shp (d_ap t))) eqn:Ese; [|reflexivity]. apply allones_size in Ese. lia. }
  split; [exact Hext|]. split; [apply (ext_of_wf V σ); assumption|]. split; [apply (ext_of_wf V σ); assumption|].
  split; [eapply wf_buf_lt; eassumption|]. split.
  - intro i. apply (ext_of_win V σ); [exact Hext|eapply wf_buf_lt; eassumption].
  - intro i. apply (ext_of_win V σ); [exact Hext|eapply wf_buf_lt; eassumption].
Qed.

(* ---- reuse: Copy / CopyIter of the tensor into the reuse tensor, then the VS / SV kernel in
        place; the scalar header stays behind as a temporary ---- *)
Theorem arith_scalar_reuse_left_post σ tt t s r rdn :
  get_t σ tt = Some t -> get_t σ r = Some rdn ->
  wf_dense σ t -> wf_dense σ rdn -> d_len rdn = size (shp (d_ap rdn)) ->
  shp (d_ap rdn) = shp (d_ap t) -> sep rdn t ->
  dest_post_x σ rdn r (eng_arith_scalar V vzero vadd (gf f) σ tt s true (MReuse r)) (fun c => lift_l V f s (cell σ t c)).
Proof.
  intros Ht Hr W Wr Hlr Hsr Hsep.
  destruct (scalar_dest_setup σ s t rdn W Wr Hlr Hsr) as (Hl & Hsc & Hse & Hext & W2 & Wr2 & Hrlt & Hwt & Hwr).
  rewrite (eng_arith_scalar_reuse_unfold (gf f) σ tt t s true r rdn _ Ht Hr (wf_all_iter _ _ _ W) Hsr Hl
             (wf_rm _ _ _ W) (wf_rm _ _ _ Wr) Hsc Hse). cbv zeta.
  pose proof (wf_isS _ _ _ Wr) as HSr. pose proof (wf_big _ _ _ W) as Hbig. pose proof (wf_big _ _ _ Wr) as Hbigr.
  destruct (requires_iterator t || requires_iterator rdn) eqn:Eu.
  - rewrite (wf_all_iter _ _ _ Wr). unfold copy_iter_idx.
    destruct (copy_seq_spec V vzero vadd (sc_store σ s) rdn t (offsets (d_ap rdn)) (offsets (d_ap t)) (wf_win _ _ _ Wr2) (wf_win _ _ _ W2) Hsep
                (wf_nodup _ _ _ Wr) (wf_range _ _ _ Wr) (wf_range _ _ _ W)) as (σ3 & Hcp & Hfr3 & Hv3 & Ho3).
    rewrite Hcp. pose proof (sc_hd0_frame σ s σ3 rdn Hrlt Hfr3) as Hhd.
    rewrite (e_iter_vs V vzero vadd (gf f) σ3 rdn (sc_hdr σ) _ _ s HSr eq_refl Hhd).
    assert (Hin3 : in_buf σ3 rdn) by (apply (in_buf_frame V (sc_store σ s)); [apply Hfr3|apply (wf_win _ _ _ Wr2)]).
    destruct (k_iter_vs_spec V vzero vadd f σ3 rdn s (offsets (d_ap rdn)) false Hin3 (wf_nodup _ _ _ Wr) (wf_range _ _ _ Wr))
      as (σ4 & Hrun & Hfr4 & Hv4 & Ho4).
    rewrite Hrun. cbn [drop_err finish].
    apply (dest_run_x V σ (sc_store σ s)); [exact Hext|exact Hrlt|eapply frame_ok_trans; eassumption| |].
    + intros c Hc. assert (Hct : inbox (shp (d_ap t)) c) by (rewrite <- Hsr; exact Hc).
      destruct (wf_cell_some _ _ _ _ W Hct) as [x Hx]. rewrite Hx. cbn [lift_l].
      apply Hv4; [apply offsets_In; [apply (wf_pos _ _ _ Wr)|exact Hc]|].
      rewrite (Hv3 _ (dot (str (d_ap t)) c)); [rewrite Hwt; exact Hx|].
      apply zip2_offsets_In; [exact Hsr|apply (wf_pos _ _ _ Wr)|exact Hc].
    + intros i Hi. pose proof (offs_nonlogical _ _ (wf_pos _ _ _ Wr) Hi) as Hni.
      rewrite Ho4 by exact Hni. apply Ho3. intro Hin. apply zip2_map_fst_In' in Hin. contradiction.
  - apply orb_false_elim in Eu. destruct Eu as [Hrt Hrr].
    destruct (wf_flag _ _ _ Wr Hrr) as [Hstr _]. destruct (wf_flag _ _ _ W Hrt) as [Hstrt Hlt].
    destruct (copy_hdr_spec V vzero vadd (sc_store σ s) rdn t (wf_win _ _ _ Wr2) (wf_win _ _ _ W2)) as (σ3 & Hcp & Hfr3 & Hv3); [lia|lia|].
    rewrite Hcp. pose proof (sc_hd0_frame σ s σ3 rdn Hrlt Hfr3) as Hhd.
    rewrite (e_plain_vs V vzero vadd (gf f) σ3 rdn (sc_hdr σ) s HSr eq_refl Hhd).
    assert (Hin3 : in_buf σ3 rdn) by (apply (in_buf_frame V (sc_store σ s)); [apply Hfr3|apply (wf_win _ _ _ Wr2)]).
    destruct (k_vs_spec V vzero vadd f σ3 rdn s false Hin3) as (σ4 & Hrun & Hfr4 & Hv4).
    rewrite Hrun. cbn [finish].
    apply (dest_run_x V σ (sc_store σ s)); [exact Hext|exact Hrlt|eapply frame_ok_trans; eassumption| |].
    + intros c Hc. assert (Hct : inbox (shp (d_ap t)) c) by (rewrite <- Hsr; exact Hc).
      destruct (wf_cell_some _ _ _ _ W Hct) as [x Hx]. rewrite Hx. cbn [lift_l].
      assert (Hi : 0 <= dot (str (d_ap rdn)) c < d_len rdn).
      { apply (wf_range _ _ _ Wr). apply offsets_In; [apply (wf_pos _ _ _ Wr)|exact Hc]. }
      apply Hv4. rewrite Hv3 by lia. rewrite Hwt.
      unfold OpsProofs.cell in Hx. rewrite Hstr, Hsr, <- Hstrt. exact Hx.
    + apply (contig_nonlogical V σ); assumption.
Qed.

Theorem arith_scalar_reuse_right_post σ tt t s r rdn :
  get_t σ tt = Some t -> get_t σ r = Some rdn ->
  wf_dense σ t -> wf_dense σ rdn -> d_len rdn = size (shp (d_ap rdn)) ->
  shp (d_ap rdn) = shp (d_ap t) -> sep rdn t ->
  dest_post_x σ rdn r (eng_arith_scalar V vzero vadd (gf f) σ tt s false (MReuse r)) (fun c => lift_r V f s (cell σ t c)).
Proof.
  intros Ht Hr W Wr Hlr Hsr Hsep.
  destruct (scalar_dest_setup σ s t rdn W Wr Hlr Hsr) as (Hl & Hsc & Hse & Hext & W2 & Wr2 & Hrlt & Hwt & Hwr).
  rewrite (eng_arith_scalar_reuse_unfold (gf f) σ tt t s false r rdn _ Ht Hr (wf_all_iter _ _ _ W) Hsr Hl
             (wf_rm _ _ _ W) (wf_rm _ _ _ Wr) Hsc Hse). cbv zeta.
  pose proof (wf_isS _ _ _ Wr) as HSr. pose proof (wf_big _ _ _ W) as Hbig. pose proof (wf_big _ _ _ Wr) as Hbigr.
  destruct (requires_iterator t || requires_iterator rdn) eqn:Eu.
  - rewrite (wf_all_iter _ _ _ Wr). unfold copy_iter_idx.
    destruct (copy_seq_spec V vzero vadd (sc_store σ s) rdn t (offsets (d_ap rdn)) (offsets (d_ap t)) (wf_win _ _ _ Wr2) (wf_win _ _ _ W2) Hsep
                (wf_nodup _ _ _ Wr) (wf_range _ _ _ Wr) (wf_range _ _ _ W)) as (σ3 & Hcp & Hfr3 & Hv3 & Ho3).
    rewrite Hcp. pose proof (sc_hd0_frame σ s σ3 rdn Hrlt Hfr3) as Hhd.
    rewrite (e_iter_sv V vzero vadd (gf f) σ3 (sc_hdr σ) rdn _ _ s eq_refl HSr Hhd).
    assert (Hin3 : in_buf σ3 rdn) by (apply (in_buf_frame V (sc_store σ s)); [apply Hfr3|apply (wf_win _ _ _ Wr2)]).
    destruct (k_iter_sv_spec V vzero vadd f σ3 s rdn (offsets (d_ap rdn)) false Hin3 (wf_nodup _ _ _ Wr) (wf_range _ _ _ Wr))
      as (σ4 & Hrun & Hfr4 & Hv4 & Ho4).
    rewrite Hrun. cbn [drop_err finish].
    apply (dest_run_x V σ (sc_store σ s)); [exact Hext|exact Hrlt|eapply frame_ok_trans; eassumption| |].
    + intros c Hc. assert (Hct : inbox (shp (d_ap t)) c) by (rewrite <- Hsr; exact Hc).
      destruct (wf_cell_some _ _ _ _ W Hct) as [x Hx]. rewrite Hx. cbn [lift_r].
      apply Hv4; [apply offsets_In; [apply (wf_pos _ _ _ Wr)|exact Hc]|].
      rewrite (Hv3 _ (dot (str (d_ap t)) c)); [rewrite Hwt; exact Hx|].
      apply zip2_offsets_In; [exact Hsr|apply (wf_pos _ _ _ Wr)|exact Hc].
    + intros i Hi. pose proof (offs_nonlogical _ _ (wf_pos _ _ _ Wr) Hi) as Hni.
      rewrite Ho4 by exact Hni. apply Ho3. intro Hin. apply zip2_map_fst_In' in Hin. contradiction.
  - apply orb_false_elim in Eu. destruct Eu as [Hrt Hrr].
    destruct (wf_flag _ _ _ Wr Hrr) as [Hstr _]. destruct (wf_flag _ _ _ W Hrt) as [Hstrt Hlt].
    destruct (copy_hdr_spec V vzero vadd (sc_store σ s) rdn t (wf_win _ _ _ Wr2) (wf_win _ _ _ W2)) as (σ3 & Hcp & Hfr3 & Hv3); [lia|lia|].
    rewrite Hcp. pose proof (sc_hd0_frame σ s σ3 rdn Hrlt Hfr3) as Hhd.
    rewrite (e_plain_sv V vzero vadd (gf f) σ3 (sc_hdr σ) rdn s eq_refl HSr Hhd).
    assert (Hin3 : in_buf σ3 rdn) by (apply (in_buf_frame V (sc_store σ s)); [apply Hfr3|apply (wf_win _ _ _ Wr2)]).
    destruct (k_sv_spec V vzero vadd f σ3 s rdn false Hin3) as (σ4 & Hrun & Hfr4 & Hv4).
    rewrite Hrun. cbn [finish].
    apply (dest_run_x V σ (sc_store σ s)); [exact Hext|exact Hrlt|eapply frame_ok_trans; eassumption| |].
    + intros c Hc. assert (Hct : inbox (shp (d_ap t)) c) by (rewrite <- Hsr; exact Hc).
      destruct (wf_cell_some _ _ _ _ W Hct) as [x Hx]. rewrite Hx. cbn [lift_r].
      assert (Hi : 0 <= dot (str (d_ap rdn)) c < d_len rdn).
      { apply (wf_range _ _ _ Wr). apply offsets_In; [apply (wf_pos _ _ _ Wr)|exact Hc]. }
      apply Hv4. rewrite Hv3 by lia. rewrite Hwt.
      unfold OpsProofs.cell in Hx. rewrite Hstr, Hsr, <- Hstrt. exact Hx.
    + apply (contig_nonlogical V σ); assumption.
Qed.

(* ---- incr: incr[c] += f x s (resp. f s x) ---- *)
Definition lift_acc_l (s : V) (o x : option V) : option V :=
  match o, x with Some o, Some x => Some (vadd o (f x s)) | _, _ => None end.
Definition lift_acc_r (s : V) (o x : option V) : option V :=
  match o, x with Some o, Some x => Some (vadd o (f s x)) | _, _ => None end.

Theorem arith_scalar_incr_left_post σ tt t s r rdn :
  get_t σ tt = Some t -> get_t σ r = Some rdn ->
  wf_dense σ t -> wf_dense σ rdn -> d_len rdn = size (shp (d_ap rdn)) ->
  shp (d_ap rdn) = shp (d_ap t) -> sep rdn t ->
  dest_post_x σ rdn r (eng_arith_scalar V vzero vadd (gf f) σ tt s true (MIncr r))
              (fun c => lift_acc_l s (cell σ rdn c) (cell σ t c)).
Proof.
  intros Ht Hr W Wr Hlr Hsr Hsep.
  destruct (scalar_dest_setup σ s t rdn W Wr Hlr Hsr) as (Hl & Hsc & Hse & Hext & W2 & Wr2 & Hrlt & Hwt & Hwr).
  rewrite (eng_arith_scalar_incr_unfold (gf f) σ tt t s true r rdn _ Ht Hr (wf_all_iter _ _ _ W) Hsr Hl
             (wf_rm _ _ _ W) (wf_rm _ _ _ Wr) Hsc). cbv zeta.
  pose proof (wf_isS _ _ _ Wr) as HSr. pose proof (wf_isS _ _ _ W) as HSt.
  pose proof (wf_big _ _ _ W) as Hbig. pose proof (wf_big _ _ _ Wr) as Hbigr.
  pose proof (sc_hd0' V σ s) as Hhd.
  destruct (requires_iterator t || requires_iterator rdn) eqn:Eu.
  - rewrite (wf_all_iter _ _ _ Wr).
    rewrite (e_iter_incr_vs (gf f) (sc_store σ s) t (sc_hdr σ) rdn _ _ _ s HSt eq_refl HSr Hhd).
    destruct (k_iter_incr_vs_spec f (sc_store σ s) t s rdn (offsets (d_ap t)) (offsets (d_ap rdn)) false
                (wf_win _ _ _ W2) (wf_win _ _ _ Wr2) Hsep (wf_nodup _ _ _ Wr) (wf_range _ _ _ W) (wf_range _ _ _ Wr))
      as (σ3 & Hrun & Hfr3 & Hv3 & Ho3).
    rewrite Hrun. cbn [finish2 finish fst snd].
    apply (dest_run_x V σ (sc_store σ s)); [exact Hext|exact Hrlt|exact Hfr3| |].
    + intros c Hc. assert (Hct : inbox (shp (d_ap t)) c) by (rewrite <- Hsr; exact Hc).
      destruct (wf_cell_some _ _ _ _ W Hct) as [x Hx]. destruct (wf_cell_some _ _ _ _ Wr Hc) as [o Ho].
      rewrite Hx, Ho. cbn [lift_acc_l].
      apply (Hv3 (dot (str (d_ap t)) c)); [|rewrite Hwt; exact Hx|rewrite Hwr; exact Ho].
      apply zip2_offsets_In; [symmetry; exact Hsr|apply (wf_pos _ _ _ W)|exact Hct].
    + intros i Hi. apply Ho3. intro Hin. apply zip2_map_snd_In in Hin.
      revert Hin. apply offs_nonlogical; [apply (wf_pos _ _ _ Wr)|exact Hi].
  - apply orb_false_elim in Eu. destruct Eu as [Hrt Hrr].
    destruct (wf_flag _ _ _ Wr Hrr) as [Hstr _]. destruct (wf_flag _ _ _ W Hrt) as [Hstrt Hlt].
    rewrite (e_incr_vs (gf f) (sc_store σ s) t (sc_hdr σ) rdn s HSt eq_refl HSr Hhd).
    destruct (k_incr_vs_spec f (sc_store σ s) t s rdn false (wf_win _ _ _ W2) (wf_win _ _ _ Wr2) Hsep)
      as (σ3 & Hrun & Hfr3 & Hv3); [lia|].
    rewrite Hrun. cbn [drop_err finish2 finish fst snd].
    apply (dest_run_x V σ (sc_store σ s)); [exact Hext|exact Hrlt|exact Hfr3| |].
    + intros c Hc. assert (Hct : inbox (shp (d_ap t)) c) by (rewrite <- Hsr; exact Hc).
      destruct (wf_cell_some _ _ _ _ W Hct) as [x Hx]. destruct (wf_cell_some _ _ _ _ Wr Hc) as [o Ho].
      rewrite Hx, Ho. cbn [lift_acc_l]. apply Hv3; [|rewrite Hwr; exact Ho].
      rewrite Hwt. unfold OpsProofs.cell in Hx. rewrite Hstr, Hsr, <- Hstrt. exact Hx.
    + apply (contig_nonlogical V σ); assumption.
Qed.

Theorem arith_scalar_incr_right_post σ tt t s r rdn :
  get_t σ tt = Some t -> get_t σ r = Some rdn ->
  wf_dense σ t -> wf_dense σ rdn -> d_len rdn = size (shp (d_ap rdn)) ->
  shp (d_ap rdn) = shp (d_ap t) -> sep rdn t ->
  dest_post_x σ rdn r (eng_arith_scalar V vzero vadd (gf f) σ tt s false (MIncr r))
              (fun c => lift_acc_r s (cell σ rdn c) (cell σ t c)).
Proof.
  intros Ht Hr W Wr Hlr Hsr Hsep.
  destruct (scalar_dest_setup σ s t rdn W Wr Hlr Hsr) as (Hl & Hsc & Hse & Hext & W2 & Wr2 & Hrlt & Hwt & Hwr).
  rewrite (eng_arith_scalar_incr_unfold (gf f) σ tt t s false r rdn _ Ht Hr (wf_all_iter _ _ _ W) Hsr Hl
             (wf_rm _ _ _ W) (wf_rm _ _ _ Wr) Hsc). cbv zeta.
  pose proof (wf_isS _ _ _ Wr) as HSr. pose proof (wf_isS _ _ _ W) as HSt.
  pose proof (wf_big _ _ _ W) as Hbig. pose proof (wf_big _ _ _ Wr) as Hbigr.
  pose proof (sc_hd0' V σ s) as Hhd.
  destruct (requires_iterator t || requires_iterator rdn) eqn:Eu.
  - rewrite (wf_all_iter _ _ _ Wr).
    rewrite (e_iter_incr_sv (gf f) (sc_store σ s) (sc_hdr σ) t rdn _ _ _ s eq_refl HSt HSr Hhd).
    destruct (k_iter_incr_sv_spec f (sc_store σ s) s t rdn (offsets (d_ap t)) (offsets (d_ap rdn)) false
                (wf_win _ _ _ W2) (wf_win _ _ _ Wr2) Hsep (wf_nodup _ _ _ Wr) (wf_range _ _ _ W) (wf_range _ _ _ Wr))
      as (σ3 & Hrun & Hfr3 & Hv3 & Ho3).
    rewrite Hrun. cbn [finish2 finish fst snd].
    apply (dest_run_x V σ (sc_store σ s)); [exact Hext|exact Hrlt|exact Hfr3| |].
    + intros c Hc. assert (Hct : inbox (shp (d_ap t)) c) by (rewrite <- Hsr; exact Hc).
      destruct (wf_cell_some _ _ _ _ W Hct) as [x Hx]. destruct (wf_cell_some _ _ _ _ Wr Hc) as [o Ho].
      rewrite Hx, Ho. cbn [lift_acc_r].
      apply (Hv3 (dot (str (d_ap t)) c)); [|rewrite Hwt; exact Hx|rewrite Hwr; exact Ho].
      apply zip2_offsets_In; [symmetry; exact Hsr|apply (wf_pos _ _ _ W)|exact Hct].
    + intros i Hi. apply Ho3. intro Hin. apply zip2_map_snd_In in Hin.
      revert Hin. apply offs_nonlogical; [apply (wf_pos _ _ _ Wr)|exact Hi].
  - apply orb_false_elim in Eu. destruct Eu as [Hrt Hrr].
    destruct (wf_flag _ _ _ Wr Hrr) as [Hstr _]. destruct (wf_flag _ _ _ W Hrt) as [Hstrt Hlt].
    rewrite (e_incr_sv (gf f) (sc_store σ s) (sc_hdr σ) t rdn s eq_refl HSt HSr Hhd).
    destruct (k_incr_sv_spec f (sc_store σ s) s t rdn false (wf_win _ _ _ W2) (wf_win _ _ _ Wr2) Hsep)
      as (σ3 & Hrun & Hfr3 & Hv3); [lia|].
    rewrite Hrun. cbn [drop_err finish2 finish fst snd].
    apply (dest_run_x V σ (sc_store σ s)); [exact Hext|exact Hrlt|exact Hfr3| |].
    + intros c Hc. assert (Hct : inbox (shp (d_ap t)) c) by (rewrite <- Hsr; exact Hc).
      destruct (wf_cell_some _ _ _ _ W Hct) as [x Hx]. destruct (wf_cell_some _ _ _ _ Wr Hc) as [o Ho].
      rewrite Hx, Ho. cbn [lift_acc_r]. apply Hv3; [|rewrite Hwr; exact Ho].
      rewrite Hwt. unfold OpsProofs.cell in Hx. rewrite Hstr, Hsr, <- Hstrt. exact Hx.
    + apply (contig_nonlogical V σ); assumption.
Qed.

End ScalarModes.

(* ====================================================================================== *)
(*  the statements per option (instances of the theorems above)                           *)
(* ====================================================================================== *)
Section Instances.
Variable f : V -> V -> V.

Corollary minmax_vv_reuse_dest σ ta tb r a b rdn :
  get_t σ ta = Some a -> get_t σ tb = Some b -> get_t σ r = Some rdn ->
  wf_dense σ a -> wf_dense σ b -> wf_dense σ rdn -> d_len rdn = size (shp (d_ap rdn)) ->
  shp (d_ap a) = shp (d_ap b) -> shp (d_ap rdn) = shp (d_ap a) ->
  sep rdn a -> sep rdn b ->
  dest_post σ rdn r (eng_minmax_vv V vzero vadd (gf f) σ ta tb (CReuse r))
            (fun c => lift2 V f (cell σ a c) (cell σ b c)).
Proof. exact (fun H1 H2 H3 H4 H5 H6 H7 H8 H9 H10 H11 => minmax_vv_reuse_post f σ ta tb r a b rdn false H1 H2 H3 H4 H5 H6 H7 H8 H9 H10 H11). Qed.

(* incr: the cells are f xa xb — the old content of the "incr" tensor is LOST, not added to *)
Corollary minmax_vv_incr_dest σ ta tb r a b rdn :
  get_t σ ta = Some a -> get_t σ tb = Some b -> get_t σ r = Some rdn ->
  wf_dense σ a -> wf_dense σ b -> wf_dense σ rdn -> d_len rdn = size (shp (d_ap rdn)) ->
  shp (d_ap a) = shp (d_ap b) -> shp (d_ap rdn) = shp (d_ap a) ->
  sep rdn a -> sep rdn b ->
  dest_post σ rdn r (eng_minmax_vv V vzero vadd (gf f) σ ta tb (CIncr r))
            (fun c => lift2 V f (cell σ a c) (cell σ b c)).
Proof. exact (fun H1 H2 H3 H4 H5 H6 H7 H8 H9 H10 H11 => minmax_vv_reuse_post f σ ta tb r a b rdn true H1 H2 H3 H4 H5 H6 H7 H8 H9 H10 H11). Qed.

Corollary cmp_vv_reuse_dest σ ta tb r a b rdn same0 :
  get_t σ ta = Some a -> get_t σ tb = Some b -> get_t σ r = Some rdn ->
  wf_dense σ a -> wf_dense σ b -> wf_dense σ rdn -> d_len rdn = size (shp (d_ap rdn)) ->
  shp (d_ap a) = shp (d_ap b) -> shp (d_ap rdn) = shp (d_ap a) ->
  sep rdn a -> sep rdn b ->
  dest_post σ rdn r (eng_cmp_vv V vzero vadd (gf f) σ ta tb same0 (CReuse r))
            (fun c => lift2 V f (cell σ a c) (cell σ b c)).
Proof. exact (fun H1 H2 H3 H4 H5 H6 H7 H8 H9 H10 H11 => cmp_vv_reuse_post f σ ta tb r a b rdn same0 false H1 H2 H3 H4 H5 H6 H7 H8 H9 H10 H11). Qed.

Corollary cmp_vv_incr_dest σ ta tb r a b rdn same0 :
  get_t σ ta = Some a -> get_t σ tb = Some b -> get_t σ r = Some rdn ->
  wf_dense σ a -> wf_dense σ b -> wf_dense σ rdn -> d_len rdn = size (shp (d_ap rdn)) ->
  shp (d_ap a) = shp (d_ap b) -> shp (d_ap rdn) = shp (d_ap a) ->
  sep rdn a -> sep rdn b ->
  dest_post σ rdn r (eng_cmp_vv V vzero vadd (gf f) σ ta tb same0 (CIncr r))
            (fun c => lift2 V f (cell σ a c) (cell σ b c)).
Proof. exact (fun H1 H2 H3 H4 H5 H6 H7 H8 H9 H10 H11 => cmp_vv_reuse_post f σ ta tb r a b rdn same0 true H1 H2 H3 H4 H5 H6 H7 H8 H9 H10 H11). Qed.

End Instances.

End Store2.

(* ====================================================================================== *)
(*  comparisons against a scalar: the statements with an explicit boolean comparison      *)
(* ====================================================================================== *)
Theorem cmp_scalar_safe_left_pointwise (V : Type) (vzero vone : V) (vadd : V -> V -> V) (cmp : V -> V -> bool)
        (σ : store V) (tt : nat) (t : dense) (s : V) (same0 : bool) :
  get_t V σ tt = Some t -> wf_dense V σ t -> 1 < size (shp (d_ap t)) ->
  exists σ' d',
    eng_cmp_scalar V vzero vadd (fun x y => CV V (if cmp x y then vone else vzero)) σ tt s true same0 CSafe
      = (σ', OOk (length (tens V σ))) /\
    get_t V σ' (length (tens V σ)) = Some d' /\
    shp (d_ap d') = shp (d_ap t) /\ str (d_ap d') = calc_strides (shp (d_ap t)) /\
    is_cm (ord (d_ap d')) = false /\ requires_iterator d' = false /\ (length (bufs V σ) <= d_buf d')%nat /\
    (forall c x, inbox (shp (d_ap t)) c -> cell V σ t c = Some x ->
                 cell V σ' d' c = Some (if cmp x s then vone else vzero)) /\
    (forall k, (k < length (bufs V σ))%nat -> get_buf V σ' k = get_buf V σ k) /\
    firstn (length (tens V σ)) (tens V σ') = tens V σ.
Proof.
  intros Ht W Hsz.
  destruct (cmp_scalar_safe_left_post V vzero vadd (fun x y => if cmp x y then vone else vzero) σ tt t s same0 Ht W Hsz)
    as (σ' & d' & Hr & Hg & H1 & H2 & H3 & H4 & H5 & Hv & Hbuf & Hf).
  exists σ', d'. split; [exact Hr|]. repeat (split; [assumption|]). split; [|split; assumption].
  intros c x Hc Hx. rewrite (Hv c Hc), Hx. reflexivity.
Qed.

Theorem cmp_scalar_safe_right_pointwise (V : Type) (vzero vone : V) (vadd : V -> V -> V) (cmp : V -> V -> bool)
        (σ : store V) (tt : nat) (t : dense) (s : V) (same0 : bool) :
  get_t V σ tt = Some t -> wf_dense V σ t -> 1 < size (shp (d_ap t)) ->
  (same0 = true -> d_len t = size (shp (d_ap t))) ->
  exists σ' d',
    eng_cmp_scalar V vzero vadd (fun x y => CV V (if cmp x y then vone else vzero)) σ tt s false same0 CSafe
      = (σ', OOk (length (tens V σ))) /\
    get_t V σ' (length (tens V σ)) = Some d' /\
    shp (d_ap d') = shp (d_ap t) /\ str (d_ap d') = calc_strides (shp (d_ap t)) /\
    is_cm (ord (d_ap d')) = false /\ requires_iterator d' = false /\ (length (bufs V σ) <= d_buf d')%nat /\
    (forall c x, inbox (shp (d_ap t)) c -> cell V σ t c = Some x ->
                 cell V σ' d' c = Some (if cmp s x then vone else vzero)) /\
    (forall k, (k < length (bufs V σ))%nat -> get_buf V σ' k = get_buf V σ k) /\
    firstn (length (tens V σ)) (tens V σ') = tens V σ.
Proof.
  intros Ht W Hsz Hfull.
  destruct (cmp_scalar_safe_right_post V vzero vadd (fun x y => if cmp x y then vone else vzero) σ tt t s same0 Ht W Hsz Hfull)
    as (σ' & d' & Hr & Hg & H1 & H2 & H3 & H4 & H5 & Hv & Hbuf & Hf).
  exists σ', d'. split; [exact Hr|]. repeat (split; [assumption|]). split; [|split; assumption].
  intros c x Hc Hx. rewrite (Hv c Hc), Hx. reflexivity.
Qed.

(* ====================================================================================== *)
(*  the guard d_len t = size (shape) of the scalar-left forms is needed                    *)
(* ====================================================================================== *)
(* t = the first two columns of a 3x3 matrix: shape (3,2), strides (3,1), window of length 8,
   NonContiguous flag set — well-formed, iterator path.  Its offsets 0 1 3 4 6 7 are used to walk
   the fresh 6-element result: tensor-left is right, scalar-left runs out of the result (index 6)
   and panics *)
Example minmax_scalar_right_guard_needed :
  let t := mkDense 0 0 8 (mkAP [3; 2] [3; 1] 2 true) None true in
  let σ := mkStore Z [[1; 2; 3; 4; 5; 6; 7; 8; 9]] [t] in
  wf_denseb Z σ t = true /\ requires_iterator t = true /\ d_len t = 8 /\ size (shp (d_ap t)) = 6 /\
  logical Z σ 0 = map Ok [1; 2; 4; 5; 7; 8] /\
  (let res := eng_minmax_scalar Z 0 Z.add (gf Z Z.max) σ 0 5 true CSafe in
   snd res = OOk 1 /\ logical Z (fst res) 1 = map Ok [5; 5; 5; 5; 7; 8]) /\
  snd (eng_minmax_scalar Z 0 Z.add (gf Z Z.max) σ 0 5 false CSafe) = OPanicR.
Proof. vm_compute. repeat split; reflexivity. Qed.

(* the same tensor, 5 < t: the bool result is right, the same-type result panics *)
Example cmp_scalar_right_same_guard_needed :
  let t := mkDense 0 0 8 (mkAP [3; 2] [3; 1] 2 true) None true in
  let σ := mkStore Z [[1; 2; 3; 4; 5; 6; 7; 8; 9]] [t] in
  let lt : cellf Z := fun x y => CV Z (if x <? y then 1 else 0) in
  wf_denseb Z σ t = true /\ requires_iterator t = true /\ d_len t = 8 /\ size (shp (d_ap t)) = 6 /\
  (let res := eng_cmp_scalar Z 0 Z.add lt σ 0 5 false false CSafe in
   snd res = OOk 1 /\ logical Z (fst res) 1 = map Ok [0; 0; 0; 0; 1; 1]) /\
  snd (eng_cmp_scalar Z 0 Z.add lt σ 0 5 false true CSafe) = OPanicR.
Proof. vm_compute. repeat split; reflexivity. Qed.
