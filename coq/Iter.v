(* Iter.v — MODEL of iterator.go: FlatIterator (newFlatIterator, Next, singleNext/Previous,
   ndNext/ndPrevious, Reset, SetReverse/SetForward, Coord, Done), FlatMaskedIterator
   (NextValidity, NextValid, NextInvalid).  No proofs here. *)
From TV Require Import Base Index AP.

Record fiter := mkIter {
  it_shape : list Z; it_strides : list Z;      (* the AP it iterates (by pointer in Go) *)
  it_track : list Z; it_next : Z; it_last : Z; it_size : Z;
  it_done : bool; it_vdim : nat; it_rev : bool;
  it_scalar : bool; it_vec : bool
}.

Fixpoint first_non_one (s : list Z) (d : nat) : nat :=
  match s with
  | [] => O
  | x :: r => if x =? 1 then first_non_one r (S d) else d
  end.

(* newFlatIterator *)
Definition new_iter (a : ap) : fiter :=
  let vl := ap_is_vectorlike a in
  mkIter (shp a) (str a) (map (fun _ => 0) (shp a)) 0 0 (size (shp a)) false
         (if vl then first_non_one (shp a) 0 else O) false (ap_is_scalar a) vl.

(* one odometer step, natural axis order, processed from the last axis:
   returns (track', index delta, carry-out).  carry-out at the top = done. *)
Fixpoint nd_inc (sh st tr : list Z) : list Z * Z * bool :=
  match sh, st, tr with
  | s :: sh', k :: st', t :: tr' =>
    let '(tr'', d, carry) := nd_inc sh' st' tr' in
    if carry then
      if t + 1 =? s then (0 :: tr'', d - (s - 1) * k, true)
      else ((t + 1) :: tr'', d + k, false)
    else (t :: tr'', d, false)
  | _, _, _ => ([], 0, true)
  end.

Fixpoint nd_dec (sh st tr : list Z) : list Z * Z * bool :=
  match sh, st, tr with
  | s :: sh', k :: st', t :: tr' =>
    let '(tr'', d, carry) := nd_dec sh' st' tr' in
    if carry then
      if t - 1 <? 0 then ((s - 1) :: tr'', d + (s - 1) * k, true)
      else ((t - 1) :: tr'', d - k, false)
    else (t :: tr'', d, false)
  | _, _, _ => ([], 0, true)
  end.

Definition set_track (tr : list Z) (d : nat) (f : Z -> Z) : option (list Z) :=
  match nth_error tr d with
  | Some v => Some (upd tr d (f v))
  | None => None
  end.

(* Next: result index (Ok i), the exhaustion error (Err), or a Go panic *)
Definition iter_next (it : fiter) : fiter * res Z :=
  if it_done it then (it, Err) else
  if it_scalar it then
    (mkIter (it_shape it) (it_strides it) (it_track it) (it_next it) (it_last it) (it_size it)
            true (it_vdim it) (it_rev it) (it_scalar it) (it_vec it), Ok 0)
  else if it_vec it then
    let delta := if it_rev it then -1 else 1 in
    match set_track (it_track it) (it_vdim it) (fun v => v + delta) with
    | None => (it, Panic)
    | Some tr' =>
      let tracked := znth 0 tr' (Z.of_nat (it_vdim it)) in
      let dn := if it_rev it then tracked <? 0 else it_size it <=? tracked in
      (mkIter (it_shape it) (it_strides it) tr' (it_next it + delta) (it_next it) (it_size it)
              dn (it_vdim it) (it_rev it) (it_scalar it) (it_vec it), Ok (it_next it))
    end
  else
    (* ndNext re-slices shape/track/strides to len(shape): a shorter strides slice panics *)
    if (length (it_strides it) <? length (it_shape it))%nat then (it, Panic) else
    let '(tr', d, carry) :=
      if it_rev it then nd_dec (it_shape it) (it_strides it) (it_track it)
      else nd_inc (it_shape it) (it_strides it) (it_track it) in
    (mkIter (it_shape it) (it_strides it) tr' (it_next it + d) (it_next it) (it_size it)
            carry (it_vdim it) (it_rev it) (it_scalar it) (it_vec it), Ok (it_next it)).

(* Reset *)
Definition iter_reset (it : fiter) : res fiter :=
  if it_rev it then
    let tr := map (fun s => s - 1) (it_shape it) in
    let nxt :=
      if is_scalar (it_shape it) then Some 0
      else if it_vec it then
        match nth_error (it_shape it) (it_vdim it), nth_error (it_strides it) (it_vdim it) with
        | Some s0, Some k0 => Some ((s0 - 1) * k0)
        | _, _ => None
        end
      else if (length (it_strides it) <? length (it_shape it))%nat then None
      else Some (dot (map (fun s => s - 1) (it_shape it)) (it_strides it)) in
    match nxt with
    | None => Panic
    | Some n =>
      Ok (mkIter (it_shape it) (it_strides it) tr n (it_last it) (it_size it) false
                 (it_vdim it) true (it_scalar it) (it_vec it))
    end
  else
    Ok (mkIter (it_shape it) (it_strides it) (map (fun _ => 0) (it_track it)) 0 (it_last it)
               (it_size it) false (it_vdim it) false (it_scalar it) (it_vec it)).

Definition iter_set_dir (it : fiter) (rev : bool) : res fiter :=
  iter_reset (mkIter (it_shape it) (it_strides it) (it_track it) (it_next it) (it_last it)
                     (it_size it) (it_done it) (it_vdim it) rev (it_scalar it) (it_vec it)).

(* run Next until exhaustion (at most fuel steps); collects the indices *)
Fixpoint iter_run (fuel : nat) (it : fiter) : fiter * list Z * bool (* ended cleanly *) :=
  match fuel with
  | O => (it, [], false)
  | S f =>
    match iter_next it with
    | (it', Ok i) => let '(it'', l, ok) := iter_run f it' in (it'', i :: l, ok)
    | (it', Err) => (it', [], true)
    | (it', Panic) => (it', [], false)
    end
  end.

(* all offsets a fresh forward iterator over the AP yields; None = panic / no termination *)
Definition iter_all (a : ap) : option (list Z) :=
  let '(_, l, ok) := iter_run (S (S (Z.to_nat (size (shp a))))) (new_iter a) in
  if ok then Some l else None.

(* ---- FlatMaskedIterator ---- *)
(* NextValidity with a non-empty mask: (index, valid) *)
Definition miter_next_validity (mask : list bool) (it : fiter) : fiter * res (Z * bool) :=
  match iter_next it with
  | (it', Ok i) =>
    match mask with
    | [] => (it', Ok (i, true))
    | _ => match zget mask i with
           | Some m => (it', Ok (i, negb m))
           | None => (it', Panic)
           end
    end
  | (it', Err) => (it', Err)
  | (it', Panic) => (it', Panic)
  end.

(* NextValid / NextInvalid with a mask: loops Next until a (in)valid element; returns
   (index or -1, signed count, found?) *)
Fixpoint miter_seek (fuel : nat) (want_masked : bool) (mask : list bool) (it : fiter) (count : Z)
  : fiter * res (Z * Z * bool) :=
  match fuel with
  | O => (it, Panic)
  | S f =>
    match iter_next it with
    | (it', Ok i) =>
      match zget mask i with
      | None => (it', Panic)
      | Some m =>
        if Bool.eqb m want_masked
        then (it', Ok (i, (if it_rev it then -1 else 1) * (count + 1), true))
        else miter_seek f want_masked mask it' (count + 1)
      end
    | (it', Err) => (it', Ok (-1, (if it_rev it then -1 else 1) * count, false))
    | (it', Panic) => (it', Panic)
    end
  end.

(* FlatIterator.NextValid / NextInvalid (no mask): (index, skip, error?) *)
Definition flat_next_valid (it : fiter) : fiter * (Z * Z * bool (* error *)) * bool (* panic *) :=
  if it_done it then (it, (-1, 1, true), false) else
  if it_scalar it then
    (mkIter (it_shape it) (it_strides it) (it_track it) (it_next it) (it_last it) (it_size it)
            true (it_vdim it) (it_rev it) (it_scalar it) (it_vec it), (0, 0, false), false)
  else
    match iter_next it with
    | (it', Ok i) => (it', (i, (if it_rev it then -1 else 1), false), false)
    | (it', Err) => (it', (-1, (if it_rev it then -1 else 1), true), false)
    | (it', Panic) => (it', (0, 0, false), true)
    end.

Definition flat_next_invalid (it : fiter) : Z * Z :=
  if it_rev it then (-1, - it_last it) else (-1, it_size it - it_last it).
