(* RefineProofs4.v — the history refinement of RefineProofs3.v extended to the last three constructors
   of RunZ.zop that were still outside the fragment:
     1. ZCopyTo   src.CopyTo(dst): nothing for dst == src, a refusal for different sizes, tensor.Copy
                  otherwise (sim_OCopy_partial of RefineProofs.v)
     2. ZApply    Dense.Apply / StdEng.Map in the modes unsafe (= ZUn unsafe) and safe (Materialize() or
                  Clone() of the operand, then the in-place kernel on the fresh tensor); the modes reuse
                  and incr are outside zguard (GApplyDest, finding F81)
     3. ZReduceFn Dense.Reduce(fn, axis, default): the axis dispatch of OptimizedReduce directly on the
                  operand's window, no materialisation, the last-axis kernel folding from the default 0
   then zstep_sim4, zhistory_refines4 (the fragment is now every constructor of zop; what stays outside
   are VALUES of constructor arguments: zin_fragment4_spec), the guard gaps found on the way and the
   non-vacuity history.  Conventions as in RefineProofs3.v: zguard_Z<op>, zstep_model_Z<op>, sim_Z<op>,
   and the boolean <op>_extra with a comment per clause (PROOF restriction or GAP of zguard). *)
From Coq Require Import Lia ZifyBool.
From Coq Require Import Sorted Permutation.
From TV Require Import Base Index AP Iter Mem Spec Guards Run Ops Reduce Shapeops Linalg RunZ.
From TV Require Import IndexProofs IterProofs APProofs OpsProofs OpsProofs2 MemProofs.
From TV Require Import ReduceProofs ReduceProofs2 LinalgProofs ShapeopsProofs RunZProofs.
From TV Require Import RefineProofs RefineProofs2 RefineProofs3.

Arguments Z.mul : simpl never.
Arguments Z.add : simpl never.
Arguments Z.sub : simpl never.
Arguments Z.leb : simpl never.
Arguments Z.ltb : simpl never.
Arguments Z.eqb : simpl never.
Arguments Z.div : simpl never.
Arguments Z.modulo : simpl never.
Arguments Z.min : simpl never.
Arguments Z.of_nat : simpl never.
Arguments Z.to_nat : simpl never.

Local Arguments bufs {V}.
Local Arguments tens {V}.
Local Arguments s_vals {V}.
Local Arguments s_tens {V}.

Local Notation get_buf := (Mem.get_buf Z).
Local Notation get_t := (Mem.get_t Z).
Local Notation set_t := (Mem.set_t Z).
Local Notation sget := (Spec.sget Z).
Local Notation sset := (Spec.sset Z).
Local Notation bget := (MemProofs.bget Z).
Local Notation win_get := (Mem.win_get Z).
Local Notation wf_dense := (MemProofs.wf_dense Z).
Local Notation mcell := (MemProofs.cell Z).
Local Notation ocell := (OpsProofs.cell Z).
Local Notation owf := (OpsProofs.wf_dense Z).
Local Notation R := (RefineProofs.R Z 0).
Local Notation Rphi := (RefineProofs.Rphi Z 0).
Local Notation RM := (RefineProofs.RM Z).
Local Notation slogical := (Spec.slogical Z 0).
Local Notation step_model := (Run.step_model Z 0).
Local Notation step_spec := (Run.step_spec Z 0).

(* ====================================================================================== *)
(*  1. ZCopyTo                                                                             *)
(* ====================================================================================== *)
Lemma zguard_ZCopyTo σ s d : zguard σ (ZCopyTo s d) = GOk ->
  guard_op Z σ (OCopy Z d s) = GOk /\ exists ds dd, get_t σ s = Some ds /\ get_t σ d = Some dd.
Proof.
  intro H. change (guard_op Z σ (OCopy Z d s) = GOk) in H. split; [exact H|].
  unfold Run.guard_op in H. destruct (get_t σ d) as [dd|]; [|discriminate H].
  destruct (get_t σ s) as [ds|]; [|discriminate H]. eauto.
Qed.

(* what has to be added to zguard for a CopyTo step that reaches tensor.Copy (src <> dst, equal sizes):
   - equal SHAPES                          the SPEC is silent about equal sizes with different shapes
                                           (ZCopyTo_shape_zguard_gap: the MODEL copies)
   - source and destination in different   PROOF restriction inherited from RefineProofs.copy_extra
     allocations                           (disjoint views of one allocation agree:
                                           zextra4_proof_restrictions; overlapping ones: the SPEC is
                                           silent, ZCopyTo_overlap_zguard_gap) *)
Definition copyto_extra (σ : store Z) (s d : nat) : bool :=
  (s =? d)%nat ||
  match get_t σ s, get_t σ d with
  | Some ds, Some dd => negb (size (shp (d_ap ds)) =? size (shp (d_ap dd))) || copy_extra Z σ d s
  | _, _ => false
  end.

Lemma sim_ZCopyTo σ ς s d σ' r : R σ ς -> RM σ ->
  zguard σ (ZCopyTo s d) = GOk -> copyto_extra σ s d = true ->
  zstep_model σ (ZCopyTo s d) = (σ', r) ->
  exists ς', zstep_spec ς (ZCopyTo s d) = Some (ς', r) /\ R σ' ς' /\ RM σ'.
Proof.
  intros HR HRM Hg He H. pose proof HR as (φ & Hφ).
  destruct (zguard_ZCopyTo σ s d Hg) as (Hgo & ds & dd & Hs & Hd).
  destruct (R_tensor φ σ ς s ds Hφ Hs) as (xs & Hxs & _ & Ss & _).
  destruct (R_tensor φ σ ς d dd Hφ Hd) as (xd & Hxd & _ & Sd & _).
  unfold zstep_model in H. rewrite Hs, Hd in H.
  unfold zstep_spec. rewrite Hxs, Hxd. rewrite <- Ss, <- Sd.
  unfold copyto_extra in He. rewrite Hs, Hd in He.
  destruct (s =? d)%nat eqn:Esd.
  { injection H as <- <-. exists ς. auto. }
  cbn [orb] in He.
  destruct (negb (size (shp (d_ap ds)) =? size (shp (d_ap dd)))) eqn:Esz.
  { injection H as <- <-. exists ς. auto. }
  cbn [orb] in He.
  assert (Esh : list_eqb (shp (d_ap ds)) (shp (d_ap dd)) = true).
  { unfold copy_extra in He. change (Mem.get_t Z σ d) with (get_t σ d) in He.
    change (Mem.get_t Z σ s) with (get_t σ s) in He. rewrite Hs, Hd in He.
    apply andb_true_iff in He as [_ He]. apply list_eqb_true in He.
    apply list_eqb_true. symmetry. exact He. }
  rewrite Esh. cbn [negb].
  destruct (sim_OCopy_partial Z 0 σ ς d s σ' r HR HRM Hgo He H) as (ς' & E & HR' & Ht).
  exists ς'. split; [exact E|]. split; [exact HR'|apply (RM_tens Z σ σ' Ht HRM)].
Qed.

(* ====================================================================================== *)
(*  2. ZApply: Dense.Apply = StdEng.Map, modes unsafe and safe                              *)
(* ====================================================================================== *)
Lemma zguard_ZApply σ code a m da : get_t σ a = Some da ->
  zguard σ (ZApply code a m) = GOk ->
  (m = MSafe \/ m = MUnsafe) /\
  guard_elementwise [da] None (size (shp (d_ap da))) (shp (d_ap da)) = GOk.
Proof.
  intros Ha H. unfold zguard in H. cbn [flat_map] in H. rewrite Ha in H. cbn [app] in H.
  destruct m; try discriminate H; (split; [auto|exact H]).
Qed.

Lemma zstep_spec_ZApply ς code a m x : sget ς a = Some x ->
  zstep_spec ς (ZApply code a m)
  = spec_vals_deliver ς a (s_shape x) (map (fun v => Some v) (map (zun code) (slogical ς x))) (mode_code m) (s_cm x).
Proof. intro Hx. unfold zstep_spec. rewrite Hx, map_map. reflexivity. Qed.

(* what has to be added to zguard for an Apply step:
   - the operand exists                                  GAP of zguard (ZApply_missing_zguard_gap, as ZUn_zguard_gap)
   - safe mode: nothing pending on the operand             PROOF (as for ZUn safe: the SPEC gives the result
     pending = 2 when the operand carries a thunk, which R cannot express)
   - safe mode on a view: more than one element            PROOF (wf_big, the engine lemmas' technical guard
     on the materialised copy; both sides agree: zextra4_proof_restrictions)
   - reuse / incr: zguard = GApplyDest, nothing to add *)
Definition apply_extra (σ : store Z) (a : nat) (m : mode) : bool :=
  match get_t σ a with
  | Some da =>
    match m with
    | MSafe => negb (is_some (d_old da)) && (negb (d_view da) || (1 <? size (shp (d_ap da))))
    | _ => true
    end
  | None => false
  end.

(* unsafe: literally the unary engine call of ZUn *)
Lemma sim_ZApply_unsafe σ ς code a da σ' r : R σ ς -> RM σ -> get_t σ a = Some da ->
  zguard σ (ZApply code a MUnsafe) = GOk ->
  zstep_model σ (ZApply code a MUnsafe) = (σ', r) ->
  exists ς', zstep_spec ς (ZApply code a MUnsafe) = Some (ς', r) /\ R σ' ς' /\ RM σ'.
Proof.
  intros HR HRM Ha Hg H.
  assert (Hm : zstep_model σ (ZApply code a MUnsafe) = zstep_model σ (ZUn code a MUnsafe)).
  { unfold zstep_model. rewrite Ha. reflexivity. }
  rewrite Hm in H.
  change (zguard σ (ZUn code a MUnsafe) = GOk) in Hg.
  change (zstep_spec ς (ZApply code a MUnsafe)) with (zstep_spec ς (ZUn code a MUnsafe)).
  apply (sim_ZUn_unsafe rowmajor rowmajor_new σ ς code a da σ' r HR HRM Ha Hg H).
Qed.

(* safe: the in-place kernel on a fresh copy d1 (index t' = the next free one, allocation = the next
   free one) whose cells are the operand's *)
Lemma apply_safe_tail σ ς σ1 a da x d1 code σ' r : R σ ς -> RM σ ->
  get_t σ a = Some da -> sget ς a = Some x -> wf_dense σ da -> d_old da = None ->
  tens σ1 = tens σ ++ [d1] ->
  (forall k, (k < length (bufs σ))%nat -> get_buf σ1 k = get_buf σ k) ->
  d_buf d1 = length (bufs σ) ->
  wf_dense σ1 d1 -> owf σ1 d1 -> d_view d1 = false -> d_old d1 = None ->
  shp (d_ap d1) = shp (d_ap da) ->
  (forall c, inbox (shp (d_ap da)) c -> ocell σ1 d1 c = ocell σ da c) ->
  of_oresult σ (eng_unary Z 0 Z.add (zun code) σ1 (length (tens σ)) MUnsafe) = (σ', r) ->
  exists ς', spec_vals_deliver ς a (s_shape x) (map (fun v => Some v) (map (zun code) (slogical ς x))) (0, O) (s_cm x)
             = Some (ς', r) /\ R σ' ς' /\ RM σ'.
Proof.
  intros HR HRM Ha Hx Wa Ho Ht1 Hb1 Hbuf W1 O1 Hv1 Ho1 Hs1 Hc1 H. pose proof HR as (φ & Hφ).
  set (vs := map (zun code) (slogical ς x)).
  assert (Hg1 : get_t σ1 (length (tens σ)) = Some d1).
  { unfold Mem.get_t. rewrite Ht1. apply MemProofs.nth_error_app_last. }
  destruct (dest_post_written σ1 d1 (length (tens σ)) _ _ vs
              (dest_post_to_x Z σ1 d1 _ _ _ (unary_unsafe_post Z 0 Z.add (zun code) σ1 (length (tens σ)) d1 Hg1 O1)) W1)
    as (σ2 & Er & Hdw).
  { intros c Hc. rewrite Hs1 in Hc |- *. rewrite (Hc1 c Hc). unfold lift1.
    apply (vals1 rowmajor rowmajor_new φ σ ς a da x (zun code) c Hφ Ha Hx Wa Hc). }
  rewrite Er in H. cbn [of_oresult] in H. injection H as <- <-.
  pose proof Hdw as (Ft & Hoth & Hcells & _).
  pose proof (wf_dense_buf_lt Z σ1 d1 W1) as Hlt. rewrite Hbuf in Hlt.
  assert (W2 : wf_dense σ2 d1) by (apply (dest_written_wf σ1 σ2 d1 vs d1 W1 Hdw W1)).
  apply (sim_fresh_gen rowmajor rowmajor_new σ ς σ2 a da x d1 vs (s_cm x) HR HRM Ha Hx Ho).
  - intros k Hk. rewrite Hoth by lia. apply Hb1. exact Hk.
  - rewrite Ft. exact Ht1.
  - rewrite Hbuf. apply le_n.
  - exact W2.
  - exact Hv1.
  - exact Ho1.
  - exact Hs1.
  - apply (OpsProofs.wf_rm Z σ1 d1 O1).
  - unfold vs. rewrite map_length, slogical_length. reflexivity.
  - intros c Hc. rewrite <- Hs1 in Hc |- *. rewrite (ocell_bget σ2 d1 c W2 Hc). apply Hcells. exact Hc.
Qed.

Lemma sim_ZApply_safe σ ς code a da σ' r : R σ ς -> RM σ -> get_t σ a = Some da ->
  d_old da = None -> (d_view da = true -> 1 < size (shp (d_ap da))) ->
  zguard σ (ZApply code a MSafe) = GOk ->
  zstep_model σ (ZApply code a MSafe) = (σ', r) ->
  exists ς', zstep_spec ς (ZApply code a MSafe) = Some (ς', r) /\ R σ' ς' /\ RM σ'.
Proof.
  intros HR HRM Ha Ho Hbig Hg H. pose proof HR as (φ & Hφ).
  destruct (zguard_ZApply σ code a MSafe da Ha Hg) as [_ Hge].
  destruct (operand_facts φ σ ς a da _ _ _ _ Hφ Ha Hge ltac:(left; reflexivity))
    as (x & Hx & Wa & Oa & Sa & La & Ca & Pa).
  destruct (guard_elementwise_ok _ _ _ _ Hge) as [Hops _].
  destruct (Hops da ltac:(left; reflexivity)) as (Gr & _ & _ & Hcm).
  rewrite (zstep_spec_ZApply ς code a MSafe x Hx). cbn [mode_code].
  unfold zstep_model in H. rewrite Ha in H.
  destruct (is_materializable da) eqn:Hm.
  - (* a view: Materialize *)
    assert (Hvw : d_view da = true).
    { unfold is_materializable in Hm. rewrite Ho in Hm. cbn [is_some] in Hm. rewrite orb_false_r in Hm. exact Hm. }
    destruct (m_materialize_fresh_equal Z 0 σ a da Ha Wa Hm (fun Hri => guard_read_contig da Gr Hcm Hri))
      as (σ1 & d1 & E1 & Hg1 & Ed1 & W1 & Ct1 & _ & Ext & Lb1 & Lt1 & Hcell1).
    rewrite E1 in H.
    assert (Fd1 : d_buf d1 = length (bufs σ) /\ d_len d1 = size (shp (d_ap da)) /\
                  shp (d_ap d1) = shp (d_ap da) /\ ord (d_ap d1) = 0 /\ d_view d1 = false /\ d_old d1 = None).
    { rewrite Ed1. repeat split. }
    destruct Fd1 as (Bd1 & Ld1 & Sd1 & Od1 & Vd1 & Old1).
    assert (OW1 : owf σ1 d1).
    { apply mem_wf_to_ops; [exact W1|exact Ct1|rewrite Ld1; apply Hbig; exact Hvw|rewrite Od1; reflexivity]. }
    apply (apply_safe_tail σ ς σ1 a da x d1 code σ' r HR HRM Ha Hx Wa Ho); try assumption.
    + apply tens_of_extends; assumption.
    + destruct Ext as [Eb _]. exact Eb.
  - (* a plain tensor: Clone *)
    destruct (clone_ops_wf σ da Oa) as (W1 & Hw1 & Hb1). cbv zeta in W1, Hw1, Hb1.
    unfold m_clone in H. rewrite Ha in H. unfold add_buf, add_t in H. cbn [bufs tens] in H.
    set (d1 := mkDense (length (bufs σ)) 0 (d_len da) (d_ap da) (d_old da) false) in *.
    set (σ1 := mkStore Z (bufs σ ++ [window Z σ da]) (tens σ ++ [d1])) in *.
    assert (Wm1 : wf_dense σ1 d1).
    { pose proof (OpsProofs.wf_win Z σ1 d1 W1) as [I0 I1]. pose proof (OpsProofs.wf_big Z σ1 d1 W1) as Ib.
      destruct Wa as (_ & Wap & Wold). split; [|split; [exact Wap|exact Wold]].
      split; [exact I0|]. split; [lia|exact I1]. }
    apply (apply_safe_tail σ ς σ1 a da x d1 code σ' r HR HRM Ha Hx Wa Ho); try assumption; try reflexivity.
    intros c Hc. unfold OpsProofs.cell. change (d_ap d1) with (d_ap da). apply Hw1.
Qed.

Lemma sim_ZApply σ ς code a m σ' r : R σ ς -> RM σ ->
  zguard σ (ZApply code a m) = GOk -> apply_extra σ a m = true ->
  zstep_model σ (ZApply code a m) = (σ', r) ->
  exists ς', zstep_spec ς (ZApply code a m) = Some (ς', r) /\ R σ' ς' /\ RM σ'.
Proof.
  intros HR HRM Hg He H. unfold apply_extra in He.
  destruct (get_t σ a) as [da|] eqn:Ha; [|discriminate He].
  destruct (zguard_ZApply σ code a m da Ha Hg) as [[-> | ->] _].
  - apply andb_true_iff in He as [E1 E2].
    apply (sim_ZApply_safe σ ς code a da σ' r HR HRM Ha (old_none _ E1)); [|exact Hg|exact H].
    intro Hv. rewrite Hv in E2. cbn [negb orb] in E2. lia.
  - apply (sim_ZApply_unsafe σ ς code a da σ' r HR HRM Ha Hg H).
Qed.

(* ====================================================================================== *)
(*  3. ZReduceFn: Dense.Reduce(fn, axis, default)                                          *)
(* ====================================================================================== *)
Lemma zguard_ZReduceFn σ code a axis refused : zguard σ (ZReduceFn code a axis refused) = GOk ->
  exists da, get_t σ a = Some da /\ guard_read da = GOk /\ is_cm (ord (d_ap da)) = false /\
    uses_bad_default [axis] 0 (shp (d_ap da)) = false.
Proof.
  intro H. unfold zguard in H. cbn [flat_map] in H. destruct (get_t σ a) as [da|]; [|discriminate H].
  cbn [app] in H. exists da. split; [reflexivity|].
  destruct (guard_read da) eqn:G; try discriminate H.
  destruct (is_cm (ord (d_ap da))); [discriminate H|].
  destruct (negb (is_materializable da) && negb (d_len da =? size (shp (d_ap da)))); [discriminate H|].
  change (sort_z [axis]) with [axis] in H.
  destruct (uses_bad_default [axis] 0 (shp (d_ap da))); [discriminate H|]. auto.
Qed.

Lemma zstep_model_ZReduceFn σ code a axis refused da : get_t σ a = Some da ->
  zstep_model σ (ZReduceFn code a axis refused)
  = match optimized_reduce Z 0 (zred code) true (window Z σ da) da axis with
    | Ok (sh, data) => let '(σ', t) := new_result σ sh data in (σ', RNew Z t)
    | Err => (σ, RErr Z)
    | Panic => (σ, RPanic Z)
    end.
Proof. intro Ha. unfold zstep_model. rewrite Ha. reflexivity. Qed.

(* the generic entry point passes the DEFAULT value (0) to the last-axis kernel, which folds from
   it, whatever the function; the first-axis and the middle-axis kernels start from the first
   element.  For Sum that is the SPEC's fold; for Min / Max it is not *)
Lemma kfold_spec_fold code sh a (lane : list Z) : lane <> [] ->
  ((code =? 0) = true \/ (negb (a =? 0)%nat && (S a =? length sh)%nat) = false) ->
  fold1 0 (zred code) (code =? 0) lane = kfold 0 (zred code) true sh a lane.
Proof.
  intros Hne Hc. unfold kfold. destruct (negb (a =? 0)%nat && (S a =? length sh)%nat) eqn:Ek.
  - destruct Hc as [Hc|Hc]; [rewrite Hc; reflexivity|discriminate Hc].
  - apply (fold1_hd Z 0 (zred code) (code =? 0) (zred_unit code) lane Hne).
Qed.

(* MODEL = SPEC values for one axis of a contiguous row-major operand *)
Lemma reducefn_vals σ ς code da x axis : wf_dense σ da -> contig da -> requires_iterator da = false ->
  is_cm (ord (d_ap da)) = false -> content σ da (sval ς x) -> shp (d_ap da) = s_shape x ->
  0 <= axis < zlen (shp (d_ap da)) -> default_ok (shp (d_ap da)) (Z.to_nat axis) ->
  ((code =? 0) = true \/ axis = 0 \/ axis <> zlen (shp (d_ap da)) - 1) ->
  exists data,
    optimized_reduce Z 0 (zred code) true (window Z σ da) da axis
    = Ok (remove_nth (Z.to_nat axis) (shp (d_ap da)), data) /\
    spec_reduce_vals Z 0 (zred code) (code =? 0) ς x [axis]
    = (remove_nth (Z.to_nat axis) (shp (d_ap da)), map (fun v => Some v) data) /\
    zlen data = size (remove_nth (Z.to_nat axis) (shp (d_ap da))).
Proof.
  intros Wa Hct Hri Hcm Hcont Sa Hax Hgd Hcase.
  pose proof Wa as (_ & (Hp & _) & _). pose proof Hct as [Hstr Hlen].
  rewrite (window_contig Z σ da (sval ς x) Wa Hct Hcont).
  set (sh := shp (d_ap da)) in *. set (a := Z.to_nat axis) in *. set (g := sval ς x) in *.
  assert (Sx : s_shape x = sh) by (symmetry; exact Sa).
  pose proof (size_pos sh Hp) as Hsz.
  set (w := map g (coords sh)).
  assert (Hw : zlen w = size sh) by (unfold w, zlen; rewrite map_length, MemProofs.coords_length; lia).
  destruct (optimized_reduce_spec Z 0 (zred code) true w da axis Hri Hcm Hstr Hlen Hp Hw Hax Hgd) as (r & Eo & L & P).
  fold sh a in Eo, L, P.
  assert (Ha : (a < length sh)%nat) by (unfold a, zlen in *; lia).
  assert (Hp' : pos_shape (remove_nth a sh)) by (apply pos_shape_remove_nth; exact Hp).
  assert (Er : r = map (fun c' => kfold 0 (zred code) true sh a (lane_of g sh a c')) (coords (remove_nth a sh))).
  { apply (pointwise_to_map Z 0); [exact Hp'|exact L|]. intros c' Hc. rewrite (P c' Hc). f_equal.
    apply (lane_content Z 0 (zred code)); assumption. }
  exists r. split; [exact Eo|]. split; [|exact L].
  pose proof (split_at 0 a sh Ha) as Hsplit.
  set (l1 := firstn a sh) in *. set (D := nth a sh 0) in *. set (l2 := skipn (S a) sh) in *.
  assert (Hl1 : length l1 = a) by (unfold l1; rewrite firstn_length; lia).
  assert (Hax' : axis = zlen l1) by (unfold zlen, a in *; lia).
  assert (Hrm : remove_nth a sh = l1 ++ l2) by (rewrite Hsplit at 1; rewrite <- Hl1; apply remove_nth_app).
  rewrite Hax'. rewrite (spec_reduce_single Z 0 (zred code) (code =? 0) ς x l1 D l2) by (rewrite <- Hsplit; assumption).
  cbv zeta. rewrite <- Hsplit, Hrm, Hl1. f_equal. rewrite Er, Hrm, map_map.
  rewrite Hrm in Hp'.
  apply map_ext_in. intros c' Hc. apply (MemProofs.coords_In _ _ Hp') in Hc. rewrite <- Hrm in Hc.
  assert (Hlane : lane_of (fun c => nth (nth (Z.to_nat (rank_rm sh c)) (s_cells x) O) (s_vals ς) 0) sh a c'
                  = lane_of g sh a c').
  { apply (lane_ext Z 0 (zred code)); [exact Ha|exact Hc|]. intros c _. unfold g, sval. rewrite Sx. reflexivity. }
  rewrite Hlane.
  assert (Hne : lane_of g sh a c' <> []).
  { unfold lane_of. assert (HD : 1 <= nth a sh 0).
    { unfold pos_shape in Hp. rewrite Forall_forall in Hp. apply Hp. apply nth_In. exact Ha. }
    destruct (Z.to_nat (nth a sh 0)) as [|n] eqn:En; [lia|]. cbn [zseq map]. discriminate. }
  rewrite (sfold_fold1 Z 0 (zred code) (code =? 0) _ Hne). f_equal.
  apply kfold_spec_fold; [exact Hne|].
  destruct Hcase as [Hc0|Hc0]; [left; exact Hc0|right].
  destruct (Nat.eqb_spec a 0) as [E0|E0]; [reflexivity|].
  destruct (Nat.eqb_spec (S a) (length sh)) as [E1|E1]; [|reflexivity].
  exfalso. unfold a, zlen in *. lia.
Qed.

(* the hint field of ZReduceFn: faithful in both directions (the operand is NOT materialised by this
   entry point, so the library refuses every operand that needs an iterator, and the SPEC accepts a
   refusal only when the hint says so) *)
Definition hintF (r : outcome Z) (refused : bool) : bool :=
  match r with
  | RErr _ => refused
  | RPanic _ => false
  | _ => negb refused
  end.

(* what has to be added to zguard for a Reduce(fn, axis, default) step:
   - the hint is faithful (hintF)                                   convention of the operation language
   - 0 <= axis < rank                                               the SPEC is silent (ZReduceFn_axis_zguard_gap:
                                                                    the MODEL refuses / panics)
   - an operand that is reduced (needs no iterator):
       nothing pending                                              PROOF (only a one-element window can carry a
                                                                    thunk without needing an iterator)
       Sum, or not the last-axis kernel (axis = 0 or axis < rank-1) GAP ZReduceFn_default_zguard_gap: Min / Max
                                                                    along the last axis fold from the default 0 *)
Definition reducefn_extra (σ : store Z) (code : Z) (a : nat) (axis : Z) (refused : bool) : bool :=
  match get_t σ a with
  | Some d =>
    let dims := zlen (shp (d_ap d)) in
    hintF (snd (zstep_model σ (ZReduceFn code a axis refused))) refused
    && ((0 <=? axis) && (axis <? dims))
    && (requires_iterator d
        || (negb (is_some (d_old d)) && ((code =? 0) || (axis =? 0) || negb (axis =? dims - 1))))
  | None => false
  end.

Lemma sim_ZReduceFn σ ς code a axis refused σ' r : R σ ς -> RM σ ->
  zguard σ (ZReduceFn code a axis refused) = GOk -> reducefn_extra σ code a axis refused = true ->
  zstep_model σ (ZReduceFn code a axis refused) = (σ', r) ->
  exists ς', zstep_spec ς (ZReduceFn code a axis refused) = Some (ς', r) /\ R σ' ς' /\ RM σ'.
Proof.
  intros HR HRM Hg He H. pose proof HR as (φ & Hφ).
  destruct (zguard_ZReduceFn σ code a axis refused Hg) as (da & Ha & Gr & Hcm & Hbd).
  unfold reducefn_extra in He. rewrite Ha, H in He. cbn [snd] in He.
  apply andb_true_iff in He as [He Hcase]. apply andb_true_iff in He as [Hh Hrange].
  destruct (R_tensor φ σ ς a da Hφ Ha) as (x & Hx & Wa & Sa & La & Pa & Hpend & Hc).
  assert (Hax : 0 <= axis < zlen (shp (d_ap da))) by lia.
  assert (Pd : pos_shape (shp (d_ap da))) by (rewrite Sa; exact Pa).
  rewrite (zstep_model_ZReduceFn σ code a axis refused da Ha) in H.
  destruct (requires_iterator da) eqn:Hri.
  - (* refused by prepDataUnary *)
    rewrite (optimized_reduce_iter_refused Z 0 (zred code) true _ da axis Hri Hax Pd) in H.
    injection H as <- <-. cbn [hintF] in Hh. subst refused.
    exists ς. split; [|split; assumption].
    change (zstep_spec ς (ZReduceFn code a axis true)) with (spec_reduce_step ς code a [axis] true).
    unfold spec_reduce_step. rewrite Hx. rewrite <- Sa. cbn [forallb nodup_z existsb].
    replace ((0 <=? axis) && (axis <? zlen (shp (d_ap da)))) with true by lia. reflexivity.
  - cbn [orb] in Hcase. apply andb_true_iff in Hcase as [Hold Hk]. pose proof (old_none _ Hold) as Ho.
    specialize (Hpend Ho).
    pose proof (guard_read_contig da Gr Hcm Hri) as Hct.
    pose proof (R_content φ σ ς a da x Hφ Ha Hx) as Hcont.
    assert (Hgd : default_ok (shp (d_ap da)) (Z.to_nat axis)).
    { assert (G : axes_guard [axis] 0 (shp (d_ap da))).
      { apply bad_default_guard; [repeat constructor|constructor; [lia|constructor]|exact Hbd]. }
      destruct G as [G _]. replace (axis - 0) with axis in G by lia. exact G. }
    destruct (reducefn_vals σ ς code da x axis Wa Hct Hri Hcm Hcont Sa Hax Hgd) as (data & Em & Es & Hlen).
    { destruct (code =? 0); [left; reflexivity|right; lia]. }
    rewrite Em in H.
    set (sh' := remove_nth (Z.to_nat axis) (shp (d_ap da))) in *.
    assert (Psh' : pos_shape sh') by (apply pos_shape_remove_nth; exact Pd).
    assert (Hr : exists t, r = RNew Z t).
    { destruct (new_result σ sh' data) as [σ1 t]. injection H as _ <-. eauto. }
    destruct Hr as [t ->]. cbn [hintF] in Hh. apply negb_true_iff in Hh. subst refused.
    change (zstep_spec ς (ZReduceFn code a axis false)) with (zstep_spec ς (ZReduce code a [axis] false)).
    rewrite (zstep_spec_ZReduce ς code a [axis] x Hx).
    2:{ cbn [reduce_axes_of forallb nodup_z existsb]. rewrite <- Sa. lia. }
    cbn [reduce_axes_of]. rewrite Es. cbn [fst snd].
    apply (sim_new_result σ ς a x sh' data σ' (RNew Z t) HR HRM Hx Hpend Hlen (pos_shape_complete sh' Psh') H).
Qed.

(* ====================================================================================== *)
(*  one step of the whole language; histories                                              *)
(* ====================================================================================== *)
Definition zin_new4 (o : zop) : bool :=
  match o with
  | ZReduceFn _ _ _ _ | ZApply _ _ _ | ZCopyTo _ _ => true
  | _ => false
  end.

Definition zin_fragment4 (o : zop) : bool := zin_fragment3 o || zin_new4 o.

Lemma zin_fragment4_spec o :
  zin_fragment4 o = zin_fragment3 o ||
    match o with
    | ZReduceFn _ _ _ _ | ZApply _ _ _ | ZCopyTo _ _ => true
    | _ => false
    end.
Proof. reflexivity. Qed.

(* EVERY constructor of zop is now inside.  zin_fragment4 is not constantly true: what stays outside are
   particular VALUES of constructor arguments, exactly these:
   - ZBase (ONew order ..) with order <> 0 (column-major New: the separate theorems
     zstep_sim_cm_partial / zhistory_refines_cm_partial of RefineProofs2.v) and ZBase (OReshape ..)
     (the separate theorems zstep_sim_r / zhistory_refines_r, which carry the extra SPEC invariant SRM);
     every other constructor of Run.op — the 13 of PropC19c.v, RollAxis and tensor.Transpose — is inside;
   - ZBin / ZBinS with a code that is not total (/ and %: the zero-divisor branches; min / max: another
     engine entry): code_tot code = false;
   - ZCmpS in a mode other than safe. *)
Lemma zin_fragment4_char o :
  zin_fragment4 o =
  match o with
  | ZBase (ONew _ order _ _) => order =? 0
  | ZBase (OReshape _ _ _ _) => false
  | ZBin code _ _ _ _ | ZBinS code _ _ _ _ => code_tot code
  | ZCmpS _ _ _ _ _ m => match m with CSafe => true | _ => false end
  | _ => true
  end.
Proof.
  unfold zin_fragment4, zin_fragment3.
  destruct o as [b| | | | | | | | | | | | | | | | | ]; try destruct b;
    cbn [zin_fragment zin_new zin_new4 in_fragment2 in_fragment]; rewrite ?orb_false_r; reflexivity.
Qed.

(* what has to be added to zguard: zextra3 on the fragment of RefineProofs3.v; on the three new
   constructors reducefn_extra, apply_extra, copyto_extra (a comment per clause at their definitions) *)
Definition zextra4 (σ : store Z) (o : zop) : bool :=
  match o with
  | ZReduceFn code a axis refused => reducefn_extra σ code a axis refused
  | ZApply _ a m => apply_extra σ a m
  | ZCopyTo s d => copyto_extra σ s d
  | _ => zextra3 σ o
  end.

Lemma zextra4_old σ o : zin_new4 o = false -> zextra4 σ o = zextra3 σ o.
Proof. destruct o; cbn [zin_new4]; intro H; try discriminate H; reflexivity. Qed.

Theorem zstep_sim4 σ ς o σ' r : R σ ς -> RM σ -> zin_fragment4 o = true ->
  zguard σ o = GOk -> zextra4 σ o = true ->
  zstep_model σ o = (σ', r) ->
  exists ς', zstep_spec ς o = Some (ς', r) /\ R σ' ς' /\ RM σ'.
Proof.
  intros HR HRM Hf Hg He H. destruct (zin_new4 o) eqn:En.
  - destruct o; try discriminate En; cbn [zextra4] in He.
    + apply (sim_ZApply σ ς code a m σ' r HR HRM Hg He H).
    + apply (sim_ZReduceFn σ ς code a axis refused σ' r HR HRM Hg He H).
    + apply (sim_ZCopyTo σ ς src dst σ' r HR HRM Hg He H).
  - unfold zin_fragment4 in Hf. rewrite En, orb_false_r in Hf.
    rewrite (zextra4_old σ o En) in He.
    apply (zstep_sim3 σ ς o σ' r HR HRM Hf Hg He H).
Qed.

(* every step's guard, evaluated on the model state reached so far *)
Fixpoint zguards_ok4 (σ : store Z) (ops : list zop) : Prop :=
  match ops with
  | [] => True
  | o :: rest => zguard σ o = GOk /\ zextra4 σ o = true /\ zguards_ok4 (fst (zstep_model σ o)) rest
  end.

Fixpoint zextra4_trace (σ : store Z) (ops : list zop) : list bool :=
  match ops with
  | [] => []
  | o :: rest => zextra4 σ o :: zextra4_trace (fst (zstep_model σ o)) rest
  end.

Lemma zguards_ok4_firstn k : forall ops σ, zguards_ok4 σ ops -> zguards_ok4 σ (firstn k ops).
Proof.
  induction k as [|k IH]; intros [|o ops] σ H; cbn [firstn zguards_ok4]; auto.
  destruct H as (H1 & H2 & H3). auto.
Qed.

Lemma zhistory_sim4 : forall ops σ ς, R σ ς -> RM σ -> forallb zin_fragment4 ops = true -> zguards_ok4 σ ops ->
  exists ς', zrun_spec ops ς = Some (ς', snd (zrun_model ops σ)) /\ R (fst (zrun_model ops σ)) ς' /\
             RM (fst (zrun_model ops σ)).
Proof.
  induction ops as [|o ops IH]; intros σ ς HR HRM Hf Hg.
  - exists ς. split; [reflexivity|]. split; [exact HR|exact HRM].
  - cbn [forallb] in Hf. apply andb_true_iff in Hf as [Hf1 Hf2].
    destruct Hg as (Hg1 & Hg2 & Hg3).
    cbn [zrun_model zrun_spec]. destruct (zstep_model σ o) as [σ1 r] eqn:Es.
    destruct (zstep_sim4 σ ς o σ1 r HR HRM Hf1 Hg1 Hg2 Es) as (ς1 & E1 & HR1 & HRM1).
    rewrite E1. cbn [fst] in Hg3. destruct (IH σ1 ς1 HR1 HRM1 Hf2 Hg3) as (ς2 & E2 & HR2 & HRM2).
    rewrite E2. destruct (zrun_model ops σ1) as [σ2 rs]. cbn [fst snd] in *.
    exists ς2. split; [reflexivity|]. split; [exact HR2|exact HRM2].
Qed.

(* MODEL and SPEC, run side by side from the empty state over a history of the whole language whose
   guards all hold: after EVERY step (= for every prefix) the SPEC is defined, the outcomes are the
   same, and every tensor has the same shape and the same logical contents *)
Theorem zhistory_refines4 : forall ops,
  forallb zin_fragment4 ops = true -> zguards_ok4 (empty_store Z) ops ->
  forall k,
    let pre := firstn k ops in
    let σ := fst (zrun_model pre (empty_store Z)) in
    exists ς, zrun_spec pre (empty_sstate Z) = Some (ς, snd (zrun_model pre (empty_store Z))) /\
      ntens_model Z σ = ntens_spec Z ς /\
      (forall t d x, get_t σ t = Some d -> sget ς t = Some x ->
         shp (d_ap d) = s_shape x /\ logical Z σ t = map Ok (slogical ς x)) /\
      (forall t, fst (fst (fst (fst (fst (fst (obs_model Z σ t))))))
                 = (fst (obs_spec Z 0 ς t), map Ok (snd (obs_spec Z 0 ς t)))).
Proof.
  intros ops Hf Hg k pre σ.
  destruct (zhistory_sim4 pre (empty_store Z) (empty_sstate Z) (R_empty Z 0) (RM_empty Z)
              (forallb_firstn _ k ops Hf) (zguards_ok4_firstn k ops _ Hg)) as (ς & E & HR & _).
  fold σ in HR. exists ς. split; [exact E|]. split; [|split].
  - destruct HR as (φ & Hl & _). exact Hl.
  - intros t d x Ht Hx. apply (R_obs Z 0 σ ς t d x HR Ht Hx).
  - intro t. unfold obs_model, obs_spec.
    destruct (get_t σ t) as [d|] eqn:Ht.
    + destruct HR as (φ & Hφ). destruct (get_sget Z 0 φ σ ς t d Hφ Ht) as [x Hx]. rewrite Hx.
      destruct (R_obs Z 0 σ ς t d x (ex_intro _ φ Hφ) Ht Hx) as [Hs Hlg]. cbn [fst snd]. congruence.
    + destruct (sget ς t) as [x|] eqn:Hx; [|reflexivity].
      destruct HR as (φ & Hl & _). apply nth_error_Some_lt in Hx. apply nth_error_None in Ht. lia.
Qed.

(* ====================================================================================== *)
(*  where zguard = GOk is not enough for the three new operations                          *)
(* ====================================================================================== *)
(* ZReduceFn with Min (or Max) along the LAST axis of a tensor of rank >= 2: a REAL gap.  Dense.Reduce
   hands the caller's default value to the last-axis kernel, which folds every lane FROM it
   (reduceLast: retVal[at] = fn over the slice, seeded with the default); the first-axis and the
   middle-axis kernels start from the first element.  With default 0, Min along axis 1 of
   [[1 2 3][4 5 6]] is [0 0]; the SPEC (and Min along axis 0 of the same tensor, next step) folds the
   elements only: [1 4].  All guards GOk, all outcomes equal, different contents.
   Extra guard (reducefn_extra): Sum, or axis = 0, or axis < rank - 1. *)
Example ZReduceFn_default_zguard_gap :
  let ops := [ZBase (ONew Z 0 [2; 3] [1; 2; 3; 4; 5; 6]); ZReduceFn 1 0 1 false; ZReduceFn 1 0 0 false] in
  let σ := fst (zrun_model ops (empty_store Z)) in
  zguard_trace (empty_store Z) ops = [GOk; GOk; GOk] /\
  zextra4_trace (empty_store Z) ops = [true; false; true] /\
  match zrun_spec ops (empty_sstate Z) with
  | Some (ς, outs) =>
    outs = snd (zrun_model ops (empty_store Z)) /\
    logical Z σ 1%nat = map Ok [0; 0] /\ obs_spec Z 0 ς 1%nat = ([2], [1; 4]) /\
    logical Z σ 2%nat = map Ok [1; 2; 3] /\ obs_spec Z 0 ς 2%nat = ([3], [1; 2; 3])
  | None => False
  end.
Proof. vm_compute. repeat split. Qed.

(* the same with Max over negative elements: 0 where the SPEC says -1, -4 *)
Example ZReduceFn_default_max_zguard_gap :
  let ops := [ZBase (ONew Z 0 [2; 3] [-1; -2; -3; -4; -5; -6]); ZReduceFn 2 0 1 false] in
  let σ := fst (zrun_model ops (empty_store Z)) in
  zguard_trace (empty_store Z) ops = [GOk; GOk] /\ zextra4_trace (empty_store Z) ops = [true; false] /\
  match zrun_spec ops (empty_sstate Z) with
  | Some (ς, outs) =>
    outs = snd (zrun_model ops (empty_store Z)) /\
    logical Z σ 1%nat = map Ok [0; 0] /\ obs_spec Z 0 ς 1%nat = ([2], [-1; -4])
  | None => False
  end.
Proof. vm_compute. repeat split. Qed.

(* ZReduceFn along an axis that is no axis of the tensor: the library refuses (axis >= rank) or panics
   (negative axis: the middle-axis kernel indexes the strides with it); the SPEC speaks about axes of
   the tensor only.  Extra guard (reducefn_extra): 0 <= axis < rank. *)
Example ZReduceFn_axis_zguard_gap :
  let σ := fst (zrun_model [ZBase (ONew Z 0 [2; 3] [1; 2; 3; 4; 5; 6])] (empty_store Z)) in
  let ς := mkSS Z [1; 2; 3; 4; 5; 6] [mkSten [2; 3] [0; 1; 2; 3; 4; 5]%nat None 0 false false] in
  zrun_spec [ZBase (ONew Z 0 [2; 3] [1; 2; 3; 4; 5; 6])] (empty_sstate Z) = Some (ς, [RNew Z 0]) /\
  zguard σ (ZReduceFn 0 0 5 true) = GOk /\ zextra4 σ (ZReduceFn 0 0 5 true) = false /\
  snd (zstep_model σ (ZReduceFn 0 0 5 true)) = RErr Z /\ zstep_spec ς (ZReduceFn 0 0 5 true) = None /\
  zguard σ (ZReduceFn 0 0 (-1) false) = GOk /\ zextra4 σ (ZReduceFn 0 0 (-1) false) = false /\
  snd (zstep_model σ (ZReduceFn 0 0 (-1) false)) = RPanic Z /\ zstep_spec ς (ZReduceFn 0 0 (-1) false) = None.
Proof. vm_compute. repeat split. Qed.

(* the hint of ZReduceFn.  Reduce(fn, axis, default) does not materialise its operand: a lazily
   transposed tensor (any operand that needs an iterator) is REFUSED.  The SPEC accepts a refusal only
   when the hint field says so: with the faithful hint (true) both sides refuse and zextra4 holds; with
   the hint false the SPEC delivers the sums — that history is outside zextra4 (hintF) *)
Example ZReduceFn_hint :
  let pre := [ZBase (ONew Z 0 [2; 3] [1; 2; 3; 4; 5; 6]); ZBase (OT Z 0 [])] in
  zguard_trace (empty_store Z) (pre ++ [ZReduceFn 0 0 1 true]) = [GOk; GOk; GOk] /\
  zextra4_trace (empty_store Z) (pre ++ [ZReduceFn 0 0 1 true]) = [true; true; true] /\
  snd (zrun_model (pre ++ [ZReduceFn 0 0 1 true]) (empty_store Z)) = [RNew Z 0; RUnit Z; RErr Z] /\
  option_map snd (zrun_spec (pre ++ [ZReduceFn 0 0 1 true]) (empty_sstate Z)) = Some [RNew Z 0; RUnit Z; RErr Z] /\
  zguard_trace (empty_store Z) (pre ++ [ZReduceFn 0 0 1 false]) = [GOk; GOk; GOk] /\
  zextra4_trace (empty_store Z) (pre ++ [ZReduceFn 0 0 1 false]) = [true; true; false] /\
  snd (zrun_model (pre ++ [ZReduceFn 0 0 1 false]) (empty_store Z)) = [RNew Z 0; RUnit Z; RErr Z] /\
  option_map snd (zrun_spec (pre ++ [ZReduceFn 0 0 1 false]) (empty_sstate Z)) = Some [RNew Z 0; RUnit Z; RNew Z 1].
Proof. vm_compute. repeat split. Qed.

(* ZApply over a tensor index that does not exist: zguard collects the operands that exist and finds
   nothing to object to; the implementation panics, the SPEC is undetermined (as ZUn_zguard_gap) *)
Example ZApply_missing_zguard_gap :
  let ops m := [ZBase (ONew Z 0 [2] [1; 2]); ZApply 0 5 m] in
  zguard_trace (empty_store Z) (ops MUnsafe) = [GOk; GOk] /\ zextra4_trace (empty_store Z) (ops MUnsafe) = [true; false] /\
  snd (zrun_model (ops MUnsafe) (empty_store Z)) = [RNew Z 0; RPanic Z] /\ zrun_spec (ops MUnsafe) (empty_sstate Z) = None /\
  zguard_trace (empty_store Z) (ops MSafe) = [GOk; GOk] /\ zextra4_trace (empty_store Z) (ops MSafe) = [true; false] /\
  snd (zrun_model (ops MSafe) (empty_store Z)) = [RNew Z 0; RPanic Z] /\ zrun_spec (ops MSafe) (empty_sstate Z) = None.
Proof. vm_compute. repeat split. Qed.

(* ZCopyTo between tensors of equal SIZE and different SHAPES: CopyTo only compares the sizes and copies
   (tensor 1, shape (3,2), receives 1..6); the SPEC is silent.  Extra guard (copyto_extra): equal shapes *)
Example ZCopyTo_shape_zguard_gap :
  let ops := [ZBase (ONew Z 0 [2; 3] [1; 2; 3; 4; 5; 6]); ZBase (ONew Z 0 [3; 2] [0; 0; 0; 0; 0; 0]); ZCopyTo 0 1] in
  zguard_trace (empty_store Z) ops = [GOk; GOk; GOk] /\ zextra4_trace (empty_store Z) ops = [true; true; false] /\
  snd (zrun_model ops (empty_store Z)) = [RNew Z 0; RNew Z 1; RUnit Z] /\
  logical Z (fst (zrun_model ops (empty_store Z))) 1%nat = map Ok [1; 2; 3; 4; 5; 6] /\
  zrun_spec ops (empty_sstate Z) = None.
Proof. vm_compute. repeat split. Qed.

(* ZCopyTo between OVERLAPPING views of one allocation: the destination (cells 1..3) receives the
   source's old elements 1 2 3, and the source (cells 0..2), sharing two cells with it, reads 1 1 2
   afterwards; the SPEC is silent about copies between tensors that share cells.  Covered by the clause
   "different allocations" of copyto_extra, which for DISJOINT views of one allocation is a restriction
   of the proof only (zextra4_proof_restrictions) *)
Example ZCopyTo_overlap_zguard_gap :
  let ops := [ZBase (ONew Z 0 [4] [1; 2; 3; 4]); ZBase (OSlice Z 0 [Some (0, 3, 1)] [3]);
              ZBase (OSlice Z 0 [Some (1, 4, 1)] [3]); ZCopyTo 1 2] in
  zguard_trace (empty_store Z) ops = [GOk; GOk; GOk; GOk] /\
  zextra4_trace (empty_store Z) ops = [true; true; true; false] /\
  snd (zrun_model ops (empty_store Z)) = [RNew Z 0; RNew Z 1; RNew Z 2; RUnit Z] /\
  logical Z (fst (zrun_model ops (empty_store Z))) 0%nat = map Ok [1; 1; 2; 3] /\
  zrun_spec ops (empty_sstate Z) = None.
Proof. vm_compute. repeat split. Qed.

(* the remaining clauses of zextra4 on the new constructors are restrictions of the PROOF: on these
   histories (Apply safe on a lazily transposed tensor; Apply safe on a one-element view of a longer
   window; CopyTo between disjoint views of one allocation) zextra4 fails and both sides agree,
   outcomes and contents *)
Example zextra4_proof_restrictions :
  let agree ops :=
    let σ := fst (zrun_model ops (empty_store Z)) in
    forallb (fun g => match g with GOk => true | _ => false end) (zguard_trace (empty_store Z) ops) = true /\
    forallb (fun b => b) (zextra4_trace (empty_store Z) ops) = false /\
    match zrun_spec ops (empty_sstate Z) with
    | Some (ς, outs) =>
      outs = snd (zrun_model ops (empty_store Z)) /\
      forall t, In t [0; 1; 2]%nat -> logical Z σ t = map Ok (snd (obs_spec Z 0 ς t))
    | None => False
    end in
  agree [ZBase (ONew Z 0 [2; 3] [1; 2; 3; 4; 5; 6]); ZBase (OT Z 0 []); ZApply 0 0 MSafe] /\
  agree [ZBase (ONew Z 0 [2; 1] [1; 2]); ZBase (OSlice Z 0 [Some (0, 2, 2)] [1]); ZApply 0 1 MSafe] /\
  agree [ZBase (ONew Z 0 [4] [1; 2; 3; 4]); ZBase (OSlice Z 0 [Some (0, 2, 1)] [2]);
         ZBase (OSlice Z 0 [Some (2, 4, 1)] [2]); ZCopyTo 1 2].
Proof.
  vm_compute. repeat split; intros t Ht; repeat (destruct Ht as [<-|Ht]; [reflexivity|]); destruct Ht.
Qed.

(* ====================================================================================== *)
(*  non-vacuity                                                                            *)
(* ====================================================================================== *)
(* two matrices (0, 1); a strided view of the first (2: its columns 1..2); Apply(square) safe on the
   view (3: a fresh tensor); Apply(neg) unsafe on the view (in place, seen through tensor 0);
   Reduce(add, 1) (4), Reduce(min, 0) (5) of tensor 0, Reduce(max, 0) of tensor 1 (6); tensor 0 copied
   into tensor 1; CopyTo itself; CopyTo a tensor of another size (refused); a contiguous row view (7) and
   its Reduce(add, 0) (8: a scalar); tensor 1 lazily transposed: Reduce refuses it (hint true);
   an element read; Apply(abs) safe on tensor 0 (9); Reduce of the strided view: refused (hint true);
   the Apply result (3) copied into the view (2), seen through tensor 0 *)
Definition zdemo4 : list zop :=
  [ ZBase (ONew Z 0 [2; 3] [1; 2; 3; 4; 5; 6]);
    ZBase (ONew Z 0 [2; 3] [10; 20; 30; 40; 50; 60]);
    ZBase (OSlice Z 0 [None; Some (1, 3, 1)] [2; 2]);
    ZApply 1 2 MSafe;
    ZApply 0 2 MUnsafe;
    ZReduceFn 0 0 1 false;
    ZReduceFn 1 0 0 false;
    ZReduceFn 2 1 0 false;
    ZCopyTo 0 1;
    ZCopyTo 1 1;
    ZCopyTo 3 0;
    ZBase (OSlice Z 0 [Some (1, 2, 1)] [3]);
    ZReduceFn 0 7 0 false;
    ZBase (OT Z 1 []);
    ZReduceFn 0 1 0 true;
    ZBase (OAt Z 0 [1; 2]);
    ZApply 3 0 MSafe;
    ZReduceFn 0 2 0 true;
    ZCopyTo 3 2 ].

Example zdemo4_in_domain :
  forallb zin_fragment4 zdemo4 = true /\ zguards_ok4 (empty_store Z) zdemo4.
Proof. vm_compute. repeat split. Qed.

Example zdemo4_outcomes :
  snd (zrun_model zdemo4 (empty_store Z))
  = [RNew Z 0; RNew Z 1; RNew Z 2; RNew Z 3; RNew Z 2; RNew Z 4; RNew Z 5; RNew Z 6; RUnit Z; RUnit Z;
     RErr Z; RNew Z 7; RNew Z 8; RUnit Z; RErr Z; RVal Z (-6); RNew Z 9; RErr Z; RUnit Z] /\
  option_map snd (zrun_spec zdemo4 (empty_sstate Z))
  = Some (snd (zrun_model zdemo4 (empty_store Z))) /\
  map (logical Z (fst (zrun_model zdemo4 (empty_store Z)))) [0; 1; 2; 3; 4; 5; 6; 7; 8; 9]%nat
  = [map Ok [1; 4; 9; 4; 25; 36]; map Ok [1; 4; -2; -5; -3; -6]; map Ok [4; 9; 25; 36]; map Ok [4; 9; 25; 36];
     map Ok [-4; -7]; map Ok [1; -5; -6]; map Ok [40; 50; 60]; map Ok [4; 25; 36]; map Ok [-7];
     map Ok [1; 2; 3; 4; 5; 6]].
Proof. vm_compute. repeat split. Qed.

(* zextra4, written out on the new constructors *)
Lemma zextra4_unfold σ o :
  zextra4 σ o =
  match o with
  | ZReduceFn code a axis refused =>
    match get_t σ a with
    | Some d =>
      let dims := zlen (shp (d_ap d)) in
      hintF (snd (zstep_model σ (ZReduceFn code a axis refused))) refused
      && ((0 <=? axis) && (axis <? dims))
      && (requires_iterator d
          || (negb (is_some (d_old d)) && ((code =? 0) || (axis =? 0) || negb (axis =? dims - 1))))
    | None => false
    end
  | ZApply _ a m =>
    match get_t σ a with
    | Some da =>
      match m with
      | MSafe => negb (is_some (d_old da)) && (negb (d_view da) || (1 <? size (shp (d_ap da))))
      | _ => true
      end
    | None => false
    end
  | ZCopyTo s d =>
    (s =? d)%nat ||
    match get_t σ s, get_t σ d with
    | Some ds, Some dd => negb (size (shp (d_ap ds)) =? size (shp (d_ap dd))) || copy_extra Z σ d s
    | _, _ => false
    end
  | _ => zextra3 σ o
  end.
Proof. destruct o; reflexivity. Qed.
