(* Inplace.v — MODEL of the alternative build `-tags inplacetranspose`
   (defaultengine_matop_transpose_inplace.go): the physical transposition moves the elements in
   place by following the cycles of the index permutation, with a bitmap of settled positions
   (bitmap.go), instead of gathering into a fresh buffer (defaultengine_matop_transpose.go).
   denseTranspose1/2/4/8/Arbitrary are the same loop over different element widths; the
   destination index is Dense.transposeIndex (Itol over the old shape/strides, then the new
   strides applied to the permuted coordinate).  No proofs here. *)
From TV Require Import Base Index AP.

Section Inplace.
Variable V : Type.
Variable vzero : V.

(* Dense.transposeIndex(i, axes, expStrides): old coordinate of i, dotted with the new strides
   through the transpose pattern *)
Definition transpose_index (oshape ostrides axes expStrides : list Z) (i : Z) : option Z :=
  match itol i oshape ostrides with
  | Ok (oc, false) =>
    (* for i, axis := range transposePat { index += oldCoord[axis] * strides[i] } *)
    let fix go (axes strides : list Z) (acc : Z) : option Z :=
        match axes, strides with
        | [], _ => Some acc
        | ax :: axes', st :: strides' =>
          match zget oc ax with Some c => go axes' strides' (acc + c * st) | None => None end
        | _ :: _, [] => None
        end in
    go axes expStrides 0
  | _ => None                                  (* Itol error -> panic *)
  end.

(* the inner "for i < size && track.IsSet(i) { i++ }" *)
Fixpoint skip_set (fuel : nat) (track : list bool) (size i : Z) : Z :=
  match fuel with
  | O => i
  | S f => if (i <? size) && znth false track i then skip_set f track size (i + 1) else i
  end.

(* one pass of the main loop per unit of fuel; None = index panic / out of fuel *)
Fixpoint cycle_loop (fuel : nat) (dest : Z -> option Z) (size : Z)
         (data : list V) (track : list bool) (saved : V) (i : Z) : option (list V) :=
  match fuel with
  | O => None
  | S f =>
    match dest i with
    | None => None
    | Some d =>
      match zget track i, zget track d with
      | Some ti, Some td =>
        if ti && td then
          match zset data i saved with
          | None => None
          | Some data' =>
            let i' := skip_set (Z.to_nat size) track size i in
            if size <=? i' then Some data'
            else cycle_loop f dest size data' track vzero i'
          end
        else
          match zget data i, zset data i saved, zset track i true with
          | Some tmp, Some data', Some track' => cycle_loop f dest size data' track' tmp d
          | _, _, _ => None
          end
      | _, _ => None                             (* BitMap.IsSet: "Index out of range" *)
      end
    end
  end.

(* denseTranspose<N>: bitmap with the first and last position set; fewer than 4 elements: nothing *)
Definition inplace_transpose (dest : Z -> option Z) (data : list V) : option (list V) :=
  let size := zlen data in
  if size <? 4 then Some data else
  let track := map (fun k => (k =? 0) || (k =? size - 1)) (zseq 0 (length data)) in
  cycle_loop (2 * length data + 2) dest size data track vzero 1.

(* the copying build: for every i, out[dest i] = data[i]  (defaultengine_matop_transpose.go
   iterates i over the old layout and writes tmp[transposeIndex(i)] = data[i]) *)
Definition scatter_transpose (dest : Z -> option Z) (data : list V) : option (list V) :=
  fold_left (fun acc i =>
               match acc, dest i, zget data i with
               | Some out, Some d, Some v => zset out d v
               | _, _, _ => None
               end) (zseq 0 (length data)) (Some data).

End Inplace.
