(* PropC05c.v — C05, multi-iterator part, continued: direction switches and Done().
   Only statements; every proof is `exact <lemma of MultProofs2>`.
   MODEL functions: Mult.new_mult, mult_next, mult_reset, mult_set_dir (MultIterator.SetReverse /
   SetForward: every block iterator is switched and reset, the multi-iterator's own done flag and
   lastIndexArr are left as they are), mult_done (MultIterator.Done: true iff every block iterator
   is done, and the answer is STORED in the multi-iterator's done flag, which Next consults).
   Helper vocabulary: MultProofs.mult_steps (k Next calls), mult_run (Next until the error,
   collecting (lastIndexArr, result)), stride_guardb (see PropC05b);
   MultProofs2.mreach2 (states reachable by Next / Reset / SetReverse / SetForward / Done calls),
   like_fresh (spelled out by C05_like_fresh_meaning below), dir_ok (examples only).
   Hypotheses: exactly those of C05_mult_lastindex (PropC05b) - nothing was added; in particular
   the reverse run needs no "not the vector-like fast path" side condition. *)
From TV Require Import Base Index AP Iter Mult IndexProofs IterProofs MultProofs MultProofs2.

(* (1) SetReverse on a fresh multi-iterator succeeds and leaves lastIndexArr and the (clear) done
   flag alone.  Then for k < size the (k+1)-th Next succeeds, returns operand 0's offset of the
   (size-1-k)-th coordinate (row-major rank), and lastIndexArr holds for EVERY operand j its own
   offset of that coordinate - what operand j's own reversed flat iterator returns at its (k+1)-th
   call (C05_reverse); before that call done is clear and Done() answers false.
   Exhaustion in reverse: the size-th call (which returns the offset of coordinate 0) raises the
   done flag (every block iterator wraps around and reports done); from then on the state is
   frozen, Done() answers true without changing it, and Next returns the error. *)
Theorem C05_mult_reverse_lastindex : forall sh aps,
  pos_shape sh -> sh <> [] -> aps <> [] ->
  (forall a, In a aps ->
     shp a = sh /\ length (str a) = length sh /\ stride_guardb sh (str a) = true) ->
  (forall a b, In a aps -> In b aps -> hash_ints (str a) = hash_ints (str b) -> str a = str b) ->
  exists mi0 mi1, new_mult aps = Ok mi0 /\ mult_set_dir mi0 true = Ok mi1 /\
    mi_last mi1 = mi_last mi0 /\ mi_done mi1 = false /\
    (forall (k : nat) (d : ap), Z.of_nat k < size sh ->
       mi_done (mult_steps k mi1) = false /\
       snd (mult_done (mult_steps k mi1)) = false /\
       mult_next (mult_steps k mi1)
       = (mult_steps (S k) mi1,
          Ok (dot (str (hd d aps)) (unrank sh (size sh - 1 - Z.of_nat k)))) /\
       mi_last (mult_steps (S k) mi1)
       = map (fun a => dot (str a) (unrank sh (size sh - 1 - Z.of_nat k))) aps /\
       (forall j : nat, (j < length aps)%nat ->
          nth j (mi_last (mult_steps (S k) mi1)) 0
          = dot (str (nth j aps d)) (unrank sh (size sh - 1 - Z.of_nat k)))) /\
    (forall k : nat, size sh <= Z.of_nat k ->
       mult_steps k mi1 = mult_steps (Z.to_nat (size sh)) mi1 /\
       mi_done (mult_steps k mi1) = true /\
       mult_done (mult_steps k mi1) = (mult_steps k mi1, true) /\
       mult_next (mult_steps k mi1) = (mult_steps k mi1, Err)).
Proof. exact mult_reverse_lastindex. Qed.
Print Assumptions C05_mult_reverse_lastindex.

(* The vocabulary of (2): like_fresh r sh aps mi.  With r = false this is the conclusion of
   C05_mult_lastindex about mi (plus what Done() answers and that the exhausted state is frozen);
   with r = true it is the conclusion of (1). *)
Theorem C05_like_fresh_meaning : forall r sh aps mi, like_fresh r sh aps mi <->
  (forall (k : nat) (d : ap), Z.of_nat k < size sh ->
     mi_done (mult_steps k mi) = false /\
     snd (mult_done (mult_steps k mi)) = false /\
     mult_next (mult_steps k mi)
     = (mult_steps (S k) mi,
        Ok (dot (str (hd d aps))
                (unrank sh (if r then size sh - 1 - Z.of_nat k else Z.of_nat k)))) /\
     mi_last (mult_steps (S k) mi)
     = map (fun a => dot (str a) (unrank sh (if r then size sh - 1 - Z.of_nat k else Z.of_nat k)))
           aps /\
     (forall j : nat, (j < length aps)%nat ->
        nth j (mi_last (mult_steps (S k) mi)) 0
        = dot (str (nth j aps d))
              (unrank sh (if r then size sh - 1 - Z.of_nat k else Z.of_nat k)))) /\
  (forall k : nat, size sh <= Z.of_nat k ->
     mult_steps k mi = mult_steps (Z.to_nat (size sh)) mi /\
     mi_done (mult_steps k mi) = true /\
     mult_done (mult_steps k mi) = (mult_steps k mi, true) /\
     mult_next (mult_steps k mi) = (mult_steps k mi, Err)).
Proof. exact like_fresh_unfold. Qed.
Print Assumptions C05_like_fresh_meaning.

(* (2) SetForward applied to ANY state mi reached from the fresh multi-iterator by Next (successful
   or not), Reset, SetReverse, SetForward and Done calls succeeds, and keeps lastIndexArr and the
   done flag of mi.  What follows depends on that flag, which SetForward does not clear:
     - flag set (e.g. after a complete run in either direction): Next returns the error and does
       not move - the multi-iterator is stuck although every block iterator is fresh;
     - flag clear: the iterator behaves exactly like the fresh one at once;
     - in both cases Done() answers false, stores that answer, and the result behaves exactly like
       the fresh iterator; so does the result of Reset. *)
Theorem C05_mult_forward_again : forall sh aps,
  pos_shape sh -> sh <> [] -> aps <> [] ->
  (forall a, In a aps ->
     shp a = sh /\ length (str a) = length sh /\ stride_guardb sh (str a) = true) ->
  (forall a b, In a aps -> In b aps -> hash_ints (str a) = hash_ints (str b) -> str a = str b) ->
  forall mi0 mi, new_mult aps = Ok mi0 -> mreach2 mi0 mi ->
  exists mi2, mult_set_dir mi false = Ok mi2 /\
    mi_done mi2 = mi_done mi /\ mi_last mi2 = mi_last mi /\
    (mi_done mi = true -> mult_next mi2 = (mi2, Err)) /\
    (mi_done mi = false -> like_fresh false sh aps mi2) /\
    (snd (mult_done mi2) = false /\ like_fresh false sh aps (fst (mult_done mi2))) /\
    (exists mi3, mult_reset mi2 = Ok mi3 /\ like_fresh false sh aps mi3).
Proof. exact mult_forward_again. Qed.
Print Assumptions C05_mult_forward_again.

(* (3) Done(): the answer is "every block iterator is done", and the only effect on the state is
   that this answer overwrites the multi-iterator's own done flag (any operand list, any state). *)
Theorem C05_mult_done_spec : forall mi mi' d, mult_done mi = (mi', d) ->
  d = forallb (fun f => it_done f) (mi_fits mi) /\
  mi' = mkMI (mi_fits mi) (mi_which mi) (mi_last mi) (mi_fit0 mi) d.
Proof. exact mult_done_spec. Qed.
Print Assumptions C05_mult_done_spec.

(* The observed phenomenon, computed by the model: an exhausted multi-iterator; SetForward (the
   block iterators are fresh again, the multi-iterator's flag still says done); Next fails; Done()
   answers false (and clears the flag); Next then succeeds with offset 0 and the whole forward run
   follows. *)
Example C05_mult_stale_done_example :
  let aps := [mkAP [2; 3] [3; 1] 0 true; mkAP [2; 3] [1; 2] 0 true] in
  exists mi0 mi1, new_mult aps = Ok mi0 /\
    mi_done (mult_steps 6 mi0) = true /\
    mult_set_dir (mult_steps 6 mi0) false = Ok mi1 /\
    mi_done mi1 = true /\ map (fun f => it_done f) (mi_fits mi1) = [false; false] /\
    mult_next mi1 = (mi1, Err) /\
    snd (mult_done mi1) = false /\ mi_done (fst (mult_done mi1)) = false /\
    snd (mult_next (fst (mult_done mi1))) = Ok 0 /\
    mult_run 10 (fst (mult_done mi1))
    = [([0; 0], 0); ([1; 2], 1); ([2; 4], 2); ([3; 1], 3); ([4; 3], 4); ([5; 5], 5)].
Proof. exact mult_stale_done_example. Qed.
Print Assumptions C05_mult_stale_done_example.

(* (4) Non-vacuity: a contiguous 2x3 operand (strides 3,1) and a transposed one (strides 1,2) meet
   the computable parts of the hypotheses; the reverse run yields 5,4,3,2,1,0 / 5,3,1,4,2,0 (the
   operands' own reversed flat iterators, first two lines); switching back yields the forward run
   - at once in the middle of a run, after Reset when the reverse run was complete. *)
Example C05_mult_reverse_example :
  let sh := [2; 3] in
  let aps := [mkAP sh [3; 1] 0 true; mkAP sh [1; 2] 0 true] in
  pos_shapeb sh = true /\
  forallb (fun a => list_eqb (shp a) sh && (length (str a) =? length sh)%nat
                    && stride_guardb sh (str a)) aps = true /\
  (hash_ints [3; 1] =? hash_ints [1; 2]) = false /\
  iter_all_rev (nth 0 aps scalar_ap) = Some [5; 4; 3; 2; 1; 0] /\
  iter_all_rev (nth 1 aps scalar_ap) = Some [5; 3; 1; 4; 2; 0] /\
  exists mi0 mi1 mi2, new_mult aps = Ok mi0 /\ mult_set_dir mi0 true = Ok mi1 /\
    mult_run 10 mi1
    = [([5; 5], 5); ([4; 3], 4); ([3; 1], 3); ([2; 4], 2); ([1; 2], 1); ([0; 0], 0)] /\
    mi_done (mult_steps 6 mi1) = true /\ snd (mult_next (mult_steps 6 mi1)) = Err /\
    snd (mult_done (mult_steps 6 mi1)) = true /\
    mult_set_dir (mult_steps 2 mi1) false = Ok mi2 /\
    mult_run 10 mi2
    = [([0; 0], 0); ([1; 2], 1); ([2; 4], 2); ([3; 1], 3); ([4; 3], 4); ([5; 5], 5)] /\
    mult_run 10 (dir_ok (mult_steps 6 mi1) false) = [] /\
    match mult_reset (dir_ok (mult_steps 6 mi1) false) with
    | Ok mi3 => mult_run 10 mi3
    | _ => []
    end = [([0; 0], 0); ([1; 2], 1); ([2; 4], 2); ([3; 1], 3); ([4; 3], 4); ([5; 5], 5)].
Proof. exact mult_reverse_example. Qed.
Print Assumptions C05_mult_reverse_example.
