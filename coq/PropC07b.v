(* PropC07b.v — C06 / C07 / C11 for the engine templates NOT covered by PropC06 / PropC07 / PropC11:
   "coordinate-wise results; each option mode writes only its destination".
   Only statements; every proof is `exact <lemma of OpsProofs2>`.
   MODEL (Ops.v): eng_minmax_vv (StdEng.MinBetween / MaxBetween), eng_minmax_scalar
   (MinBetweenScalar / MaxBetweenScalar), eng_arith_scalar in MReuse / MIncr mode, eng_cmp_scalar
   (StdEng.<Cmp>Scalar) in safe mode, eng_cmp_vv in CUnsafe / CReuse / CIncr mode.
   V, vadd (the element type's +) and the total scalar operation f (resp. the comparison cmp) are
   arbitrary.  Vocabulary: see PropC06.v / PropC07.v.
   Guards: operands wf_dense (1 < d_len, row-major, flag soundness); plain shape equality;
   1 < size of the shape wherever the result is allocated by NewDense; NO ALIASING between the
   destination and the operands (sep); a reuse / incr tensor of the operands' shape that fills its
   window (d_len = size of the shape) — it need NOT be contiguous: a destination that needs an
   iterator sends the whole operation to the iterator path; and, for the scalar-LEFT forms whose
   result is a copy of the tensor (MinBetweenScalar / MaxBetweenScalar, same-type <Cmp>Scalar), the
   tensor itself fills its window (the result is walked with the TENSOR's iterator; the guard is
   needed: C07_minmax_scalar_right_guard_needed, C11_cmp_scalar_right_same_guard_needed).
   FINDINGS stated as theorems: WithIncr on MinBetween / MaxBetween and on a comparison is treated
   as WithReuse (the destination is OVERWRITTEN); UseUnsafe on MinBetween / MaxBetween panics. *)
From TV Require Import Base Index AP Iter Mem Spec Ops IndexProofs IterProofs APProofs OpsProofs OpsProofs2.

(* ====================================================================================== *)
(*  U1. MinBetween / MaxBetween, tensor-tensor                                            *)
(* ====================================================================================== *)
(* ---- safe: a FRESH ROW-MAJOR contiguous tensor with cell c = f (a c) (b c) ---- *)
Theorem C06_minmax_vv_safe : forall (V : Type) (vzero : V) (vadd f : V -> V -> V)
    (σ : store V) (ta tb : nat) (a b : dense),
  get_t V σ ta = Some a -> get_t V σ tb = Some b -> wf_dense V σ a -> wf_dense V σ b ->
  shp (d_ap a) = shp (d_ap b) -> 1 < size (shp (d_ap a)) ->
  exists σ' d',
    eng_minmax_vv V vzero vadd (gf V f) σ ta tb CSafe = (σ', OOk (length (tens V σ))) /\
    get_t V σ' (length (tens V σ)) = Some d' /\
    tens V σ' = tens V σ ++ [d'] /\                          (* all old tensors: same metadata *)
    shp (d_ap d') = shp (d_ap a) /\ str (d_ap d') = calc_strides (shp (d_ap a)) /\
    is_cm (ord (d_ap d')) = false /\ requires_iterator d' = false /\
    d_buf d' = length (bufs V σ) /\                          (* a NEW allocation *)
    (forall c, inbox (shp (d_ap a)) c -> cell V σ' d' c = lift2 V f (cell V σ a c) (cell V σ b c)) /\
    (forall k, (k < length (bufs V σ))%nat -> get_buf V σ' k = get_buf V σ k) /\   (* every old buffer *)
    firstn (length (tens V σ)) (tens V σ') = tens V σ.
Proof. exact minmax_vv_safe_post. Qed.
Print Assumptions C06_minmax_vv_safe.

(* ---- reuse: the returned tensor IS the reuse tensor; only its logical cells are written ---- *)
Theorem C07_minmax_vv_reuse_dest : forall (V : Type) (vzero : V) (vadd f : V -> V -> V)
    (σ : store V) (ta tb r : nat) (a b rdn : dense),
  get_t V σ ta = Some a -> get_t V σ tb = Some b -> get_t V σ r = Some rdn ->
  wf_dense V σ a -> wf_dense V σ b -> wf_dense V σ rdn -> d_len rdn = size (shp (d_ap rdn)) ->
  shp (d_ap a) = shp (d_ap b) -> shp (d_ap rdn) = shp (d_ap a) ->
  sep rdn a -> sep rdn b ->
  exists σ',
    eng_minmax_vv V vzero vadd (gf V f) σ ta tb (CReuse r) = (σ', OOk r) /\
    tens V σ' = tens V σ /\ length (bufs V σ') = length (bufs V σ) /\
    (forall c, inbox (shp (d_ap rdn)) c -> cell V σ' rdn c = lift2 V f (cell V σ a c) (cell V σ b c)) /\
    (forall k, k <> d_buf rdn -> get_buf V σ' k = get_buf V σ k) /\
    (forall E i, sep rdn E -> win_get V σ' E i = win_get V σ E i) /\          (* operands and all the rest *)
    (forall i, (forall c, inbox (shp (d_ap rdn)) c -> i <> dot (str (d_ap rdn)) c) ->
               win_get V σ' rdn i = win_get V σ rdn i) /\
    (forall p, ~ (d_off rdn <= p < d_off rdn + d_len rdn) -> peek V σ' (d_buf rdn) p = peek V σ (d_buf rdn) p).
Proof. exact minmax_vv_reuse_dest. Qed.
Print Assumptions C07_minmax_vv_reuse_dest.

(* ---- incr (FINDING): the same post-condition as reuse — the old content of the "incr" tensor is
        overwritten by f (a c) (b c), nothing is added ---- *)
Theorem C07_minmax_vv_incr_dest : forall (V : Type) (vzero : V) (vadd f : V -> V -> V)
    (σ : store V) (ta tb r : nat) (a b rdn : dense),
  get_t V σ ta = Some a -> get_t V σ tb = Some b -> get_t V σ r = Some rdn ->
  wf_dense V σ a -> wf_dense V σ b -> wf_dense V σ rdn -> d_len rdn = size (shp (d_ap rdn)) ->
  shp (d_ap a) = shp (d_ap b) -> shp (d_ap rdn) = shp (d_ap a) ->
  sep rdn a -> sep rdn b ->
  exists σ',
    eng_minmax_vv V vzero vadd (gf V f) σ ta tb (CIncr r) = (σ', OOk r) /\
    tens V σ' = tens V σ /\ length (bufs V σ') = length (bufs V σ) /\
    (forall c, inbox (shp (d_ap rdn)) c -> cell V σ' rdn c = lift2 V f (cell V σ a c) (cell V σ b c)) /\
    (forall k, k <> d_buf rdn -> get_buf V σ' k = get_buf V σ k) /\
    (forall E i, sep rdn E -> win_get V σ' E i = win_get V σ E i) /\
    (forall i, (forall c, inbox (shp (d_ap rdn)) c -> i <> dot (str (d_ap rdn)) c) ->
               win_get V σ' rdn i = win_get V σ rdn i) /\
    (forall p, ~ (d_off rdn <= p < d_off rdn + d_len rdn) -> peek V σ' (d_buf rdn) p = peek V σ (d_buf rdn) p).
Proof. exact minmax_vv_incr_dest. Qed.
Print Assumptions C07_minmax_vv_incr_dest.

(* the same finding as an equation, for ANY kernel g (also a partial one) *)
Theorem C07_minmax_vv_incr_is_reuse : forall (V : Type) (vzero : V) (vadd : V -> V -> V) (g : cellf V)
    (σ : store V) (ta tb r : nat) (a b rdn : dense),
  get_t V σ ta = Some a -> get_t V σ tb = Some b -> get_t V σ r = Some rdn ->
  shp (d_ap a) = shp (d_ap b) -> shp (d_ap rdn) = shp (d_ap a) -> d_len rdn = size (shp (d_ap a)) ->
  is_cm (ord (d_ap a)) = false -> is_cm (ord (d_ap b)) = false -> is_cm (ord (d_ap rdn)) = false ->
  eng_minmax_vv V vzero vadd g σ ta tb (CIncr r) = eng_minmax_vv V vzero vadd g σ ta tb (CReuse r).
Proof. exact minmax_vv_incr_is_reuse. Qed.
Print Assumptions C07_minmax_vv_incr_is_reuse.

(* ---- unsafe (FINDING): panic("Unreachable") — after the result tensor has been allocated ---- *)
Theorem C07_minmax_vv_unsafe_panics : forall (V : Type) (vzero : V) (vadd : V -> V -> V) (g : cellf V)
    (σ : store V) (ta tb : nat) (a b : dense),
  get_t V σ ta = Some a -> get_t V σ tb = Some b -> shp (d_ap a) = shp (d_ap b) ->
  eng_minmax_vv V vzero vadd g σ ta tb CUnsafe = (fst (fst (new_dense V vzero σ (shp (d_ap a)))), OPanicR).
Proof. exact minmax_vv_unsafe_panics. Qed.
Print Assumptions C07_minmax_vv_unsafe_panics.

(* ====================================================================================== *)
(*  U2. MinBetweenScalar / MaxBetweenScalar, safe mode                                    *)
(* ====================================================================================== *)
(* The one-element header of the Go scalar and the result live in NEW allocations (index
   >= length (bufs σ)); lift_l f s x = f x s (tensor left), lift_r f s x = f s x (scalar left) *)
Theorem C06_minmax_scalar_safe_left : forall (V : Type) (vzero : V) (vadd f : V -> V -> V)
    (σ : store V) (tt : nat) (t : dense) (s : V),
  get_t V σ tt = Some t -> wf_dense V σ t -> 1 < size (shp (d_ap t)) ->
  exists σ' d',
    eng_minmax_scalar V vzero vadd (gf V f) σ tt s true CSafe = (σ', OOk (length (tens V σ))) /\
    get_t V σ' (length (tens V σ)) = Some d' /\
    shp (d_ap d') = shp (d_ap t) /\ str (d_ap d') = calc_strides (shp (d_ap t)) /\
    is_cm (ord (d_ap d')) = false /\ requires_iterator d' = false /\
    (length (bufs V σ) <= d_buf d')%nat /\
    (forall c, inbox (shp (d_ap t)) c -> cell V σ' d' c = lift_l V f s (cell V σ t c)) /\
    (forall k, (k < length (bufs V σ))%nat -> get_buf V σ' k = get_buf V σ k) /\
    firstn (length (tens V σ)) (tens V σ') = tens V σ.
Proof. exact minmax_scalar_safe_left_post. Qed.
Print Assumptions C06_minmax_scalar_safe_left.

(* scalar left: GUARD d_len t = size (shape) — on the iterator path the result is walked with the
   tensor's iterator *)
Theorem C06_minmax_scalar_safe_right : forall (V : Type) (vzero : V) (vadd f : V -> V -> V)
    (σ : store V) (tt : nat) (t : dense) (s : V),
  get_t V σ tt = Some t -> wf_dense V σ t -> 1 < size (shp (d_ap t)) ->
  d_len t = size (shp (d_ap t)) ->
  exists σ' d',
    eng_minmax_scalar V vzero vadd (gf V f) σ tt s false CSafe = (σ', OOk (length (tens V σ))) /\
    get_t V σ' (length (tens V σ)) = Some d' /\
    shp (d_ap d') = shp (d_ap t) /\ str (d_ap d') = calc_strides (shp (d_ap t)) /\
    is_cm (ord (d_ap d')) = false /\ requires_iterator d' = false /\
    (length (bufs V σ) <= d_buf d')%nat /\
    (forall c, inbox (shp (d_ap t)) c -> cell V σ' d' c = lift_r V f s (cell V σ t c)) /\
    (forall k, (k < length (bufs V σ))%nat -> get_buf V σ' k = get_buf V σ k) /\
    firstn (length (tens V σ)) (tens V σ') = tens V σ.
Proof. exact minmax_scalar_safe_right_post. Qed.
Print Assumptions C06_minmax_scalar_safe_right.

(* the guard in the form suggested by the code: a tensor that needs no iterator *)
Theorem C06_minmax_scalar_safe_right_contig : forall (V : Type) (vzero : V) (vadd f : V -> V -> V)
    (σ : store V) (tt : nat) (t : dense) (s : V),
  get_t V σ tt = Some t -> wf_dense V σ t -> 1 < size (shp (d_ap t)) -> requires_iterator t = false ->
  exists σ' d',
    eng_minmax_scalar V vzero vadd (gf V f) σ tt s false CSafe = (σ', OOk (length (tens V σ))) /\
    get_t V σ' (length (tens V σ)) = Some d' /\
    shp (d_ap d') = shp (d_ap t) /\ str (d_ap d') = calc_strides (shp (d_ap t)) /\
    is_cm (ord (d_ap d')) = false /\ requires_iterator d' = false /\
    (length (bufs V σ) <= d_buf d')%nat /\
    (forall c, inbox (shp (d_ap t)) c -> cell V σ' d' c = lift_r V f s (cell V σ t c)) /\
    (forall k, (k < length (bufs V σ))%nat -> get_buf V σ' k = get_buf V σ k) /\
    firstn (length (tens V σ)) (tens V σ') = tens V σ.
Proof. exact minmax_scalar_safe_right_contig. Qed.
Print Assumptions C06_minmax_scalar_safe_right_contig.

(* the guard is needed: the first two columns of a 3x3 matrix (shape (3,2), strides (3,1), window
   of length 8); tensor-left is right, scalar-left panics (index 6 of the 6-element result) *)
Example C07_minmax_scalar_right_guard_needed :
  let t := mkDense 0 0 8 (mkAP [3; 2] [3; 1] 2 true) None true in
  let σ := mkStore Z [[1; 2; 3; 4; 5; 6; 7; 8; 9]] [t] in
  wf_denseb Z σ t = true /\ requires_iterator t = true /\ d_len t = 8 /\ size (shp (d_ap t)) = 6 /\
  logical Z σ 0 = map Ok [1; 2; 4; 5; 7; 8] /\
  (let res := eng_minmax_scalar Z 0 Z.add (gf Z Z.max) σ 0 5 true CSafe in
   snd res = OOk 1 /\ logical Z (fst res) 1 = map Ok [5; 5; 5; 5; 7; 8]) /\
  snd (eng_minmax_scalar Z 0 Z.add (gf Z Z.max) σ 0 5 false CSafe) = OPanicR.
Proof. exact minmax_scalar_right_guard_needed. Qed.

(* ====================================================================================== *)
(*  U3. <Op>Scalar in reuse / incr mode                                                   *)
(* ====================================================================================== *)
(* The scalar header stays behind as a temporary in a NEW allocation; every allocation that existed
   before, except the destination's, is unchanged (this covers the tensor operand) *)
Theorem C07_scalar_reuse_left_dest : forall (V : Type) (vzero : V) (vadd f : V -> V -> V)
    (σ : store V) (tt : nat) (t : dense) (s : V) (r : nat) (rdn : dense),
  get_t V σ tt = Some t -> get_t V σ r = Some rdn ->
  wf_dense V σ t -> wf_dense V σ rdn -> d_len rdn = size (shp (d_ap rdn)) ->
  shp (d_ap rdn) = shp (d_ap t) -> sep rdn t ->
  exists σ',
    eng_arith_scalar V vzero vadd (gf V f) σ tt s true (MReuse r) = (σ', OOk r) /\
    tens V σ' = tens V σ /\ (length (bufs V σ) <= length (bufs V σ'))%nat /\
    (forall c, inbox (shp (d_ap rdn)) c -> cell V σ' rdn c = lift_l V f s (cell V σ t c)) /\
    (forall k, (k < length (bufs V σ))%nat -> k <> d_buf rdn -> get_buf V σ' k = get_buf V σ k) /\
    (forall i, (forall c, inbox (shp (d_ap rdn)) c -> i <> dot (str (d_ap rdn)) c) ->
               win_get V σ' rdn i = win_get V σ rdn i) /\
    (forall p, ~ (d_off rdn <= p < d_off rdn + d_len rdn) -> peek V σ' (d_buf rdn) p = peek V σ (d_buf rdn) p).
Proof. exact arith_scalar_reuse_left_post. Qed.
Print Assumptions C07_scalar_reuse_left_dest.

Theorem C07_scalar_reuse_right_dest : forall (V : Type) (vzero : V) (vadd f : V -> V -> V)
    (σ : store V) (tt : nat) (t : dense) (s : V) (r : nat) (rdn : dense),
  get_t V σ tt = Some t -> get_t V σ r = Some rdn ->
  wf_dense V σ t -> wf_dense V σ rdn -> d_len rdn = size (shp (d_ap rdn)) ->
  shp (d_ap rdn) = shp (d_ap t) -> sep rdn t ->
  exists σ',
    eng_arith_scalar V vzero vadd (gf V f) σ tt s false (MReuse r) = (σ', OOk r) /\
    tens V σ' = tens V σ /\ (length (bufs V σ) <= length (bufs V σ'))%nat /\
    (forall c, inbox (shp (d_ap rdn)) c -> cell V σ' rdn c = lift_r V f s (cell V σ t c)) /\
    (forall k, (k < length (bufs V σ))%nat -> k <> d_buf rdn -> get_buf V σ' k = get_buf V σ k) /\
    (forall i, (forall c, inbox (shp (d_ap rdn)) c -> i <> dot (str (d_ap rdn)) c) ->
               win_get V σ' rdn i = win_get V σ rdn i) /\
    (forall p, ~ (d_off rdn <= p < d_off rdn + d_len rdn) -> peek V σ' (d_buf rdn) p = peek V σ (d_buf rdn) p).
Proof. exact arith_scalar_reuse_right_post. Qed.
Print Assumptions C07_scalar_reuse_right_dest.

(* incr: lift_acc_l vadd f s o x = vadd o (f x s), lift_acc_r vadd f s o x = vadd o (f s x) *)
Theorem C07_scalar_incr_left_dest : forall (V : Type) (vzero : V) (vadd f : V -> V -> V)
    (σ : store V) (tt : nat) (t : dense) (s : V) (r : nat) (rdn : dense),
  get_t V σ tt = Some t -> get_t V σ r = Some rdn ->
  wf_dense V σ t -> wf_dense V σ rdn -> d_len rdn = size (shp (d_ap rdn)) ->
  shp (d_ap rdn) = shp (d_ap t) -> sep rdn t ->
  exists σ',
    eng_arith_scalar V vzero vadd (gf V f) σ tt s true (MIncr r) = (σ', OOk r) /\
    tens V σ' = tens V σ /\ (length (bufs V σ) <= length (bufs V σ'))%nat /\
    (forall c, inbox (shp (d_ap rdn)) c ->
               cell V σ' rdn c = lift_acc_l V vadd f s (cell V σ rdn c) (cell V σ t c)) /\
    (forall k, (k < length (bufs V σ))%nat -> k <> d_buf rdn -> get_buf V σ' k = get_buf V σ k) /\
    (forall i, (forall c, inbox (shp (d_ap rdn)) c -> i <> dot (str (d_ap rdn)) c) ->
               win_get V σ' rdn i = win_get V σ rdn i) /\
    (forall p, ~ (d_off rdn <= p < d_off rdn + d_len rdn) -> peek V σ' (d_buf rdn) p = peek V σ (d_buf rdn) p).
Proof. exact arith_scalar_incr_left_post. Qed.
Print Assumptions C07_scalar_incr_left_dest.

Theorem C07_scalar_incr_right_dest : forall (V : Type) (vzero : V) (vadd f : V -> V -> V)
    (σ : store V) (tt : nat) (t : dense) (s : V) (r : nat) (rdn : dense),
  get_t V σ tt = Some t -> get_t V σ r = Some rdn ->
  wf_dense V σ t -> wf_dense V σ rdn -> d_len rdn = size (shp (d_ap rdn)) ->
  shp (d_ap rdn) = shp (d_ap t) -> sep rdn t ->
  exists σ',
    eng_arith_scalar V vzero vadd (gf V f) σ tt s false (MIncr r) = (σ', OOk r) /\
    tens V σ' = tens V σ /\ (length (bufs V σ) <= length (bufs V σ'))%nat /\
    (forall c, inbox (shp (d_ap rdn)) c ->
               cell V σ' rdn c = lift_acc_r V vadd f s (cell V σ rdn c) (cell V σ t c)) /\
    (forall k, (k < length (bufs V σ))%nat -> k <> d_buf rdn -> get_buf V σ' k = get_buf V σ k) /\
    (forall i, (forall c, inbox (shp (d_ap rdn)) c -> i <> dot (str (d_ap rdn)) c) ->
               win_get V σ' rdn i = win_get V σ rdn i) /\
    (forall p, ~ (d_off rdn <= p < d_off rdn + d_len rdn) -> peek V σ' (d_buf rdn) p = peek V σ (d_buf rdn) p).
Proof. exact arith_scalar_incr_right_post. Qed.
Print Assumptions C07_scalar_incr_right_dest.

(* ====================================================================================== *)
(*  U4. <Cmp>Scalar, safe mode, bool (same0 = false) and same-type (same0 = true) results  *)
(* ====================================================================================== *)
Theorem C11_cmp_scalar_safe_left : forall (V : Type) (vzero vone : V) (vadd : V -> V -> V) (cmp : V -> V -> bool)
    (σ : store V) (tt : nat) (t : dense) (s : V) (same0 : bool),
  get_t V σ tt = Some t -> wf_dense V σ t -> 1 < size (shp (d_ap t)) ->
  exists σ' d',
    eng_cmp_scalar V vzero vadd (fun x y => CV V (if cmp x y then vone else vzero)) σ tt s true same0 CSafe
      = (σ', OOk (length (tens V σ))) /\
    get_t V σ' (length (tens V σ)) = Some d' /\
    (* a fresh ROW-MAJOR contiguous tensor of the operand's shape *)
    shp (d_ap d') = shp (d_ap t) /\ str (d_ap d') = calc_strides (shp (d_ap t)) /\
    is_cm (ord (d_ap d')) = false /\ requires_iterator d' = false /\ (length (bufs V σ) <= d_buf d')%nat /\
    (forall c x, inbox (shp (d_ap t)) c -> cell V σ t c = Some x ->
                 cell V σ' d' c = Some (if cmp x s then vone else vzero)) /\
    (forall k, (k < length (bufs V σ))%nat -> get_buf V σ' k = get_buf V σ k) /\
    firstn (length (tens V σ)) (tens V σ') = tens V σ.
Proof. exact cmp_scalar_safe_left_pointwise. Qed.
Print Assumptions C11_cmp_scalar_safe_left.

(* scalar left: cmp s x.  GUARD for the same-type result only: the tensor fills its window *)
Theorem C11_cmp_scalar_safe_right : forall (V : Type) (vzero vone : V) (vadd : V -> V -> V) (cmp : V -> V -> bool)
    (σ : store V) (tt : nat) (t : dense) (s : V) (same0 : bool),
  get_t V σ tt = Some t -> wf_dense V σ t -> 1 < size (shp (d_ap t)) ->
  (same0 = true -> d_len t = size (shp (d_ap t))) ->
  exists σ' d',
    eng_cmp_scalar V vzero vadd (fun x y => CV V (if cmp x y then vone else vzero)) σ tt s false same0 CSafe
      = (σ', OOk (length (tens V σ))) /\
    get_t V σ' (length (tens V σ)) = Some d' /\
    shp (d_ap d') = shp (d_ap t) /\ str (d_ap d') = calc_strides (shp (d_ap t)) /\
    is_cm (ord (d_ap d')) = false /\ requires_iterator d' = false /\ (length (bufs V σ) <= d_buf d')%nat /\
    (forall c x, inbox (shp (d_ap t)) c -> cell V σ t c = Some x ->
                 cell V σ' d' c = Some (if cmp s x then vone else vzero)) /\
    (forall k, (k < length (bufs V σ))%nat -> get_buf V σ' k = get_buf V σ k) /\
    firstn (length (tens V σ)) (tens V σ') = tens V σ.
Proof. exact cmp_scalar_safe_right_pointwise. Qed.
Print Assumptions C11_cmp_scalar_safe_right.

(* the guard is needed: on the sliced view 5 < t is right as a bool result and panics as a
   same-type result *)
Example C11_cmp_scalar_right_same_guard_needed :
  let t := mkDense 0 0 8 (mkAP [3; 2] [3; 1] 2 true) None true in
  let σ := mkStore Z [[1; 2; 3; 4; 5; 6; 7; 8; 9]] [t] in
  let lt : cellf Z := fun x y => CV Z (if x <? y then 1 else 0) in
  wf_denseb Z σ t = true /\ requires_iterator t = true /\ d_len t = 8 /\ size (shp (d_ap t)) = 6 /\
  (let res := eng_cmp_scalar Z 0 Z.add lt σ 0 5 false false CSafe in
   snd res = OOk 1 /\ logical Z (fst res) 1 = map Ok [0; 0; 0; 0; 1; 1]) /\
  snd (eng_cmp_scalar Z 0 Z.add lt σ 0 5 false true CSafe) = OPanicR.
Proof. exact cmp_scalar_right_same_guard_needed. Qed.

(* ====================================================================================== *)
(*  U5. <Cmp> tensor-tensor in unsafe / reuse / incr mode                                 *)
(* ====================================================================================== *)
(* unsafe: whatever same0, the same-type result OVERWRITES the first operand *)
Theorem C07_cmp_vv_unsafe_dest : forall (V : Type) (vzero : V) (vadd f : V -> V -> V)
    (σ : store V) (ta tb : nat) (a b : dense) (same0 : bool),
  get_t V σ ta = Some a -> get_t V σ tb = Some b -> wf_dense V σ a -> wf_dense V σ b ->
  shp (d_ap a) = shp (d_ap b) -> sep a b ->
  exists σ',
    eng_cmp_vv V vzero vadd (gf V f) σ ta tb same0 CUnsafe = (σ', OOk ta) /\
    tens V σ' = tens V σ /\ length (bufs V σ') = length (bufs V σ) /\
    (forall c, inbox (shp (d_ap a)) c -> cell V σ' a c = lift2 V f (cell V σ a c) (cell V σ b c)) /\
    (forall k, k <> d_buf a -> get_buf V σ' k = get_buf V σ k) /\
    (forall E i, sep a E -> win_get V σ' E i = win_get V σ E i) /\
    (forall i, (forall c, inbox (shp (d_ap a)) c -> i <> dot (str (d_ap a)) c) ->
               win_get V σ' a i = win_get V σ a i) /\
    (forall p, ~ (d_off a <= p < d_off a + d_len a) -> peek V σ' (d_buf a) p = peek V σ (d_buf a) p).
Proof. exact cmp_vv_unsafe_post. Qed.
Print Assumptions C07_cmp_vv_unsafe_dest.

(* reuse, both result types (same0 = true: Copy / CopyIter then <Cmp>Same in place; same0 = false:
   the bool-result kernels write the reuse tensor directly) *)
Theorem C07_cmp_vv_reuse_dest : forall (V : Type) (vzero : V) (vadd f : V -> V -> V)
    (σ : store V) (ta tb r : nat) (a b rdn : dense) (same0 : bool),
  get_t V σ ta = Some a -> get_t V σ tb = Some b -> get_t V σ r = Some rdn ->
  wf_dense V σ a -> wf_dense V σ b -> wf_dense V σ rdn -> d_len rdn = size (shp (d_ap rdn)) ->
  shp (d_ap a) = shp (d_ap b) -> shp (d_ap rdn) = shp (d_ap a) ->
  sep rdn a -> sep rdn b ->
  exists σ',
    eng_cmp_vv V vzero vadd (gf V f) σ ta tb same0 (CReuse r) = (σ', OOk r) /\
    tens V σ' = tens V σ /\ length (bufs V σ') = length (bufs V σ) /\
    (forall c, inbox (shp (d_ap rdn)) c -> cell V σ' rdn c = lift2 V f (cell V σ a c) (cell V σ b c)) /\
    (forall k, k <> d_buf rdn -> get_buf V σ' k = get_buf V σ k) /\
    (forall E i, sep rdn E -> win_get V σ' E i = win_get V σ E i) /\
    (forall i, (forall c, inbox (shp (d_ap rdn)) c -> i <> dot (str (d_ap rdn)) c) ->
               win_get V σ' rdn i = win_get V σ rdn i) /\
    (forall p, ~ (d_off rdn <= p < d_off rdn + d_len rdn) -> peek V σ' (d_buf rdn) p = peek V σ (d_buf rdn) p).
Proof. exact cmp_vv_reuse_dest. Qed.
Print Assumptions C07_cmp_vv_reuse_dest.

(* incr (FINDING): treated as reuse *)
Theorem C07_cmp_vv_incr_is_reuse : forall (V : Type) (vzero : V) (vadd : V -> V -> V) (g : cellf V)
    (σ : store V) (ta tb r : nat) (a b rdn : dense) (same0 : bool),
  get_t V σ ta = Some a -> get_t V σ tb = Some b -> get_t V σ r = Some rdn ->
  shp (d_ap a) = shp (d_ap b) -> shp (d_ap rdn) = shp (d_ap a) -> d_len rdn = size (shp (d_ap a)) ->
  is_cm (ord (d_ap a)) = false -> is_cm (ord (d_ap b)) = false -> is_cm (ord (d_ap rdn)) = false ->
  eng_cmp_vv V vzero vadd g σ ta tb same0 (CIncr r) = eng_cmp_vv V vzero vadd g σ ta tb same0 (CReuse r).
Proof. exact cmp_vv_incr_is_reuse. Qed.
Print Assumptions C07_cmp_vv_incr_is_reuse.

Theorem C07_cmp_vv_incr_dest : forall (V : Type) (vzero : V) (vadd f : V -> V -> V)
    (σ : store V) (ta tb r : nat) (a b rdn : dense) (same0 : bool),
  get_t V σ ta = Some a -> get_t V σ tb = Some b -> get_t V σ r = Some rdn ->
  wf_dense V σ a -> wf_dense V σ b -> wf_dense V σ rdn -> d_len rdn = size (shp (d_ap rdn)) ->
  shp (d_ap a) = shp (d_ap b) -> shp (d_ap rdn) = shp (d_ap a) ->
  sep rdn a -> sep rdn b ->
  exists σ',
    eng_cmp_vv V vzero vadd (gf V f) σ ta tb same0 (CIncr r) = (σ', OOk r) /\
    tens V σ' = tens V σ /\ length (bufs V σ') = length (bufs V σ) /\
    (forall c, inbox (shp (d_ap rdn)) c -> cell V σ' rdn c = lift2 V f (cell V σ a c) (cell V σ b c)) /\
    (forall k, k <> d_buf rdn -> get_buf V σ' k = get_buf V σ k) /\
    (forall E i, sep rdn E -> win_get V σ' E i = win_get V σ E i) /\
    (forall i, (forall c, inbox (shp (d_ap rdn)) c -> i <> dot (str (d_ap rdn)) c) ->
               win_get V σ' rdn i = win_get V σ rdn i) /\
    (forall p, ~ (d_off rdn <= p < d_off rdn + d_len rdn) -> peek V σ' (d_buf rdn) p = peek V σ (d_buf rdn) p).
Proof. exact cmp_vv_incr_dest. Qed.
Print Assumptions C07_cmp_vv_incr_dest.

(* C07b_remaining_partial.  Still outside the proved part of C06 / C07 / C11: eng_minmax_scalar and
   eng_cmp_scalar in reuse / incr / unsafe mode; the *_h variants with a scalar-shaped TENSOR passed
   as the scalar (api_arith / api_cmp: the scalar header then aliases that tensor's memory);
   partial kernels (integer division: CZero / CPanic cells); a reuse tensor aliasing an operand
   (outside the no-aliasing hypothesis); one-element shapes (size = 1) of the NewDense templates. *)

(* ====================================================================================== *)
(*  non-vacuity: a 2x3 tensor, a lazily transposed 3x2 one, a contiguous and a lazily      *)
(*  transposed 2x3 destination                                                            *)
(* ====================================================================================== *)
Definition exσ : store Z :=
  mkStore Z [[1; 25; 3; 45; 5; 65]; [10; 20; 30; 40; 50; 60]; [100; 200; 300; 400; 500; 600];
             [7; 7; 7; 7; 7; 7]; [8; 8; 8; 8; 8; 8]]
            [mkDense 0 0 6 (mkAP [2; 3] [3; 1] 0 true) None false;
             mkDense 1 0 6 (mkAP [2; 3] [1; 2] 4 true) (Some (mkAP [3; 2] [2; 1] 0 true)) false;
             mkDense 2 0 6 (mkAP [2; 3] [3; 1] 0 true) None false;
             mkDense 3 0 6 (mkAP [2; 3] [1; 2] 4 true) (Some (mkAP [3; 2] [2; 1] 0 true)) false;
             mkDense 4 0 6 (mkAP [2; 3] [3; 1] 0 true) None false].
Definition ltz : cellf Z := fun x y => CV Z (if x <? y then 1 else 0).

(* the hypotheses of every theorem above hold of exσ: a = tensor 0, bT = tensor 1 (logical
   [[10;30;50];[20;40;60]]), destinations r = tensor 2 (contiguous), rT = tensor 3 (transposed) and
   r2 = tensor 4 (contiguous; used when r is an operand) *)
Example C07b_hypotheses :
  exists a b r rT r2,
    get_t Z exσ 0 = Some a /\ get_t Z exσ 1 = Some b /\ get_t Z exσ 2 = Some r /\ get_t Z exσ 3 = Some rT /\
    get_t Z exσ 4 = Some r2 /\
    wf_dense Z exσ a /\ wf_dense Z exσ b /\ wf_dense Z exσ r /\ wf_dense Z exσ rT /\ wf_dense Z exσ r2 /\
    shp (d_ap r2) = shp (d_ap a) /\ d_len r2 = size (shp (d_ap r2)) /\ sep r2 a /\ sep r2 r /\
    shp (d_ap a) = shp (d_ap b) /\ shp (d_ap r) = shp (d_ap a) /\ shp (d_ap rT) = shp (d_ap a) /\
    1 < size (shp (d_ap a)) /\
    d_len b = size (shp (d_ap b)) /\ d_len r = size (shp (d_ap r)) /\ d_len rT = size (shp (d_ap rT)) /\
    requires_iterator b = true /\ requires_iterator rT = true /\
    sep a b /\ sep r a /\ sep r b /\ sep rT a /\ sep rT b /\
    logical Z exσ 1 = map Ok [10; 30; 50; 20; 40; 60].
Proof.
  do 5 eexists. do 5 (split; [reflexivity|]).
  do 5 (split; [apply wf_denseb_sound; vm_compute; reflexivity|]).
  do 2 (split; [reflexivity|]). do 2 (split; [left; vm_compute; congruence|]).
  do 9 (split; [reflexivity|]).
  do 5 (split; [left; vm_compute; congruence|]).
  vm_compute. reflexivity.
Qed.

(* U1: max a bT (iterator path) safe / reuse into r / reuse into the TRANSPOSED rT / incr = reuse;
   max a r (raw path); unsafe panics *)
Example C07b_minmax_vv_example :
  (let res := eng_minmax_vv Z 0 Z.add (gf Z Z.max) exσ 0 1 CSafe in
   snd res = OOk 5 /\ logical Z (fst res) 5 = map Ok [10; 30; 50; 45; 40; 65] /\
   firstn 5 (bufs Z (fst res)) = bufs Z exσ) /\
  (let res := eng_minmax_vv Z 0 Z.add (gf Z Z.max) exσ 0 2 CSafe in
   snd res = OOk 5 /\ logical Z (fst res) 5 = map Ok [100; 200; 300; 400; 500; 600]) /\
  (let res := eng_minmax_vv Z 0 Z.add (gf Z Z.max) exσ 0 1 (CReuse 2) in
   snd res = OOk 2 /\ logical Z (fst res) 2 = map Ok [10; 30; 50; 45; 40; 65] /\
   get_buf Z (fst res) 0 = get_buf Z exσ 0 /\ get_buf Z (fst res) 1 = get_buf Z exσ 1) /\
  (let res := eng_minmax_vv Z 0 Z.add (gf Z Z.max) exσ 0 1 (CReuse 3) in
   snd res = OOk 3 /\ logical Z (fst res) 3 = map Ok [10; 30; 50; 45; 40; 65] /\
   get_buf Z (fst res) 0 = get_buf Z exσ 0 /\ get_buf Z (fst res) 1 = get_buf Z exσ 1) /\
  (* raw path: three contiguous tensors, max a r into r2 *)
  (let res := eng_minmax_vv Z 0 Z.add (gf Z Z.max) exσ 0 2 (CReuse 4) in
   snd res = OOk 4 /\ logical Z (fst res) 4 = map Ok [100; 200; 300; 400; 500; 600] /\
   get_buf Z (fst res) 0 = get_buf Z exσ 0 /\ get_buf Z (fst res) 2 = get_buf Z exσ 2) /\
  (* incr: the old content 100 .. 600 of r is overwritten, not added to *)
  (let res := eng_minmax_vv Z 0 Z.add (gf Z Z.max) exσ 0 1 (CIncr 2) in
   snd res = OOk 2 /\ logical Z (fst res) 2 = map Ok [10; 30; 50; 45; 40; 65]) /\
  snd (eng_minmax_vv Z 0 Z.add (gf Z Z.max) exσ 0 1 CUnsafe) = OPanicR.
Proof. vm_compute. repeat split; reflexivity. Qed.

(* U2: max bT 35 and max 35 bT (iterator path, transposed operand), min a 35 / min 35 a (raw) *)
Example C07b_minmax_scalar_example :
  (let res := eng_minmax_scalar Z 0 Z.add (gf Z Z.max) exσ 1 35 true CSafe in
   snd res = OOk 5 /\ logical Z (fst res) 5 = map Ok [35; 35; 50; 35; 40; 60] /\
   firstn 5 (bufs Z (fst res)) = bufs Z exσ) /\
  (let res := eng_minmax_scalar Z 0 Z.add (gf Z Z.max) exσ 1 35 false CSafe in
   snd res = OOk 5 /\ logical Z (fst res) 5 = map Ok [35; 35; 50; 35; 40; 60] /\
   firstn 5 (bufs Z (fst res)) = bufs Z exσ) /\
  (let res := eng_minmax_scalar Z 0 Z.add (gf Z Z.min) exσ 0 35 true CSafe in
   snd res = OOk 5 /\ logical Z (fst res) 5 = map Ok [1; 25; 3; 35; 5; 35]) /\
  (let res := eng_minmax_scalar Z 0 Z.add (gf Z Z.min) exσ 0 35 false CSafe in
   snd res = OOk 5 /\ logical Z (fst res) 5 = map Ok [1; 25; 3; 35; 5; 35]).
Proof. vm_compute. repeat split; reflexivity. Qed.

(* U3: bT - 1 and 1 - bT into r (reuse, incr) and into the transposed rT; a - 1 into r (raw path) *)
Example C07b_scalar_modes_example :
  (let res := eng_arith_scalar Z 0 Z.add (gf Z Z.sub) exσ 1 1 true (MReuse 2) in
   snd res = OOk 2 /\ logical Z (fst res) 2 = map Ok [9; 29; 49; 19; 39; 59] /\
   get_buf Z (fst res) 1 = get_buf Z exσ 1) /\
  (let res := eng_arith_scalar Z 0 Z.add (gf Z Z.sub) exσ 1 1 false (MReuse 2) in
   snd res = OOk 2 /\ logical Z (fst res) 2 = map Ok [-9; -29; -49; -19; -39; -59] /\
   get_buf Z (fst res) 1 = get_buf Z exσ 1) /\
  (let res := eng_arith_scalar Z 0 Z.add (gf Z Z.sub) exσ 1 1 false (MReuse 3) in
   snd res = OOk 3 /\ logical Z (fst res) 3 = map Ok [-9; -29; -49; -19; -39; -59] /\
   get_buf Z (fst res) 1 = get_buf Z exσ 1) /\
  (let res := eng_arith_scalar Z 0 Z.add (gf Z Z.sub) exσ 1 1 true (MIncr 2) in
   snd res = OOk 2 /\ logical Z (fst res) 2 = map Ok [109; 229; 349; 419; 539; 659] /\
   get_buf Z (fst res) 1 = get_buf Z exσ 1) /\
  (let res := eng_arith_scalar Z 0 Z.add (gf Z Z.sub) exσ 1 1 false (MIncr 2) in
   snd res = OOk 2 /\ logical Z (fst res) 2 = map Ok [91; 171; 251; 381; 461; 541] /\
   get_buf Z (fst res) 1 = get_buf Z exσ 1) /\
  (let res := eng_arith_scalar Z 0 Z.add (gf Z Z.sub) exσ 0 1 true (MReuse 2) in
   snd res = OOk 2 /\ logical Z (fst res) 2 = map Ok [0; 24; 2; 44; 4; 64] /\
   get_buf Z (fst res) 0 = get_buf Z exσ 0) /\
  (let res := eng_arith_scalar Z 0 Z.add (gf Z Z.sub) exσ 0 1 false (MIncr 2) in
   snd res = OOk 2 /\ logical Z (fst res) 2 = map Ok [100; 176; 298; 356; 496; 536] /\
   get_buf Z (fst res) 0 = get_buf Z exσ 0).
Proof. vm_compute. repeat split; reflexivity. Qed.

(* U4: bT < 35 and 35 < bT (iterator path), 35 < a (raw path), bool and same-type results *)
Example C07b_cmp_scalar_example :
  (let res := eng_cmp_scalar Z 0 Z.add ltz exσ 1 35 true false CSafe in
   snd res = OOk 5 /\ logical Z (fst res) 5 = map Ok [1; 1; 0; 1; 0; 0]) /\
  (let res := eng_cmp_scalar Z 0 Z.add ltz exσ 1 35 true true CSafe in
   snd res = OOk 5 /\ logical Z (fst res) 5 = map Ok [1; 1; 0; 1; 0; 0]) /\
  (let res := eng_cmp_scalar Z 0 Z.add ltz exσ 1 35 false false CSafe in
   snd res = OOk 5 /\ logical Z (fst res) 5 = map Ok [0; 0; 1; 0; 1; 1]) /\
  (let res := eng_cmp_scalar Z 0 Z.add ltz exσ 1 35 false true CSafe in
   snd res = OOk 5 /\ logical Z (fst res) 5 = map Ok [0; 0; 1; 0; 1; 1] /\
   firstn 5 (bufs Z (fst res)) = bufs Z exσ) /\
  (let res := eng_cmp_scalar Z 0 Z.add ltz exσ 0 35 false false CSafe in
   snd res = OOk 5 /\ logical Z (fst res) 5 = map Ok [0; 0; 0; 1; 0; 1]) /\
  (let res := eng_cmp_scalar Z 0 Z.add ltz exσ 0 35 false true CSafe in
   snd res = OOk 5 /\ logical Z (fst res) 5 = map Ok [0; 0; 0; 1; 0; 1]).
Proof. vm_compute. repeat split; reflexivity. Qed.

(* U5: a < bT unsafe (into a), reuse into r (both result types) and into the transposed rT, incr *)
Example C07b_cmp_vv_modes_example :
  (let res := eng_cmp_vv Z 0 Z.add ltz exσ 0 1 false CUnsafe in
   snd res = OOk 0 /\ logical Z (fst res) 0 = map Ok [1; 1; 1; 0; 1; 0] /\
   get_buf Z (fst res) 1 = get_buf Z exσ 1) /\
  (let res := eng_cmp_vv Z 0 Z.add ltz exσ 0 1 true (CReuse 2) in
   snd res = OOk 2 /\ logical Z (fst res) 2 = map Ok [1; 1; 1; 0; 1; 0] /\
   get_buf Z (fst res) 0 = get_buf Z exσ 0 /\ get_buf Z (fst res) 1 = get_buf Z exσ 1) /\
  (let res := eng_cmp_vv Z 0 Z.add ltz exσ 0 1 false (CReuse 2) in
   snd res = OOk 2 /\ logical Z (fst res) 2 = map Ok [1; 1; 1; 0; 1; 0] /\
   get_buf Z (fst res) 0 = get_buf Z exσ 0 /\ get_buf Z (fst res) 1 = get_buf Z exσ 1) /\
  (let res := eng_cmp_vv Z 0 Z.add ltz exσ 0 1 false (CReuse 3) in
   snd res = OOk 3 /\ logical Z (fst res) 3 = map Ok [1; 1; 1; 0; 1; 0] /\
   get_buf Z (fst res) 0 = get_buf Z exσ 0 /\ get_buf Z (fst res) 1 = get_buf Z exσ 1) /\
  (let res := eng_cmp_vv Z 0 Z.add ltz exσ 0 1 false (CIncr 2) in
   snd res = OOk 2 /\ logical Z (fst res) 2 = map Ok [1; 1; 1; 0; 1; 0]) /\
  (* raw path (contiguous tensors only): a < r unsafe, and r < a into r2 with both result types *)
  (let res := eng_cmp_vv Z 0 Z.add ltz exσ 0 2 true CUnsafe in
   snd res = OOk 0 /\ logical Z (fst res) 0 = map Ok [1; 1; 1; 1; 1; 1] /\
   get_buf Z (fst res) 2 = get_buf Z exσ 2) /\
  (let res := eng_cmp_vv Z 0 Z.add ltz exσ 2 0 false (CReuse 4) in
   snd res = OOk 4 /\ logical Z (fst res) 4 = map Ok [0; 0; 0; 0; 0; 0] /\
   get_buf Z (fst res) 0 = get_buf Z exσ 0 /\ get_buf Z (fst res) 2 = get_buf Z exσ 2) /\
  (let res := eng_cmp_vv Z 0 Z.add ltz exσ 2 0 true (CReuse 4) in
   snd res = OOk 4 /\ logical Z (fst res) 4 = map Ok [0; 0; 0; 0; 0; 0] /\
   get_buf Z (fst res) 0 = get_buf Z exσ 0 /\ get_buf Z (fst res) 2 = get_buf Z exσ 2).
Proof. vm_compute. repeat split; reflexivity. Qed.
