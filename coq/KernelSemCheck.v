(* KernelSemCheck.v — the interpreter of KernelSem.v run on bodies taken from the GENERATED table
   (V := Z), and the link between table entries and the schema theorems. *)
From Coq Require Import String.
From TV Require Import Base Kernel KernelTable KernelSem.
Open Scope string_scope.
Open Scope Z_scope.

Definition zbop (o : binop) (x y : Z) : Z :=
  match o with OAdd => x + y | OSub => x - y | OMul => x * y | ODiv => Z.quot x y | OMod => Z.rem x y | _ => 0 end.
Definition zcmpop (o : binop) (x y : Z) : bool :=
  match o with OEq => x =? y | ONe => negb (x =? y) | OLt => x <? y | OLe => x <=? y | OGt => y <? x | OGe => y <=? x | _ => false end.
Definition zlitv (s : string) : Z := if String.eqb s "1" then 1 else 0.
(* the mapped function of the Map kernels: x |-> 10 * x *)
Definition zcall (f : string) (xs : list Z) : Z := match xs with [x] => 10 * x | _ => 0 end.

Definition run := exec Z zbop zcmpop Z.opp zcall zlitv (fun _ => 0) (fun _ x => x).
Definition body_of (name : string) : list kstmt :=
  match find (fun k => String.eqb (k_name k) name) kernels with Some k => k_body k | None => [Opaque "no such kernel"] end.
Definition geta (o : option (outcome Z)) (x : string) : option (val Z) :=
  match o with
  | Some (ONormal _ e) | Some (OReturn _ e _) => get Z e x
  | _ => None
  end.
Notation S_ := (VS Z). Notation It := (VIt Z). Notation E_ := (VErr Z).

(* a flat kernel from the table *)
Example run_VecAddI8 :
  geta (run 0 (body_of "VecAddI8") [("a", S_ [1; 2; 3]); ("b", S_ [10; 20; 30; 40])]) "a" = Some (S_ [11; 22; 33]).
Proof. vm_compute. reflexivity. Qed.

(* operand order of the scalar variants *)
Example run_SubSVI16 :
  geta (run 0 (body_of "SubSVI16") [("a", VE Z 100); ("b", S_ [1; 2; 3])]) "b" = Some (S_ [99; 98; 97]).
Proof. vm_compute. reflexivity. Qed.
Example run_SubVSI16 :
  geta (run 0 (body_of "SubVSI16") [("a", S_ [1; 2; 3]); ("b", VE Z 100)]) "a" = Some (S_ [-99; -98; -97]).
Proof. vm_compute. reflexivity. Qed.

(* iterator kernel: only rounds where both positions are valid are executed *)
Example run_MulIterI32 :
  geta (run 10 (body_of "MulIterI32")
         [("a", S_ [1; 2; 3]); ("b", S_ [5; 6; 7]); ("ait", It [(0, true); (1, false); (2, true)]);
          ("bit", It [(2, true); (1, true); (0, true)]); ("err", E_ (ENil))]) "a" = Some (S_ [7; 2; 15]).
Proof. vm_compute. reflexivity. Qed.

(* integer division guard, flat loop: the zero divisor position is reset and reported *)
Example run_VecDivU8 :
  run 0 (body_of "VecDivU8") [("a", S_ [8; 9; 10]); ("b", S_ [2; 0; 5]); ("err", E_ ENil)]
  = Some (OReturn Z [("a", S_ [4; 0; 2]); ("b", S_ [2; 0; 5]); ("err", E_ ENil); ("errs", VIdxs Z [1]); ("i", VI Z 2)] [VIdxs Z [1]]).
Proof. vm_compute. reflexivity. Qed.

(* DEVIATION 1 (known_noncanonical): DivIterIncr for integers.  a[0]/b[0] has a zero divisor and
   the incr iterator says the result belongs at incr[2].  The generated code zeroes incr[0]
   (the index of a) and leaves incr[2] alone.  The canonical template zeroes incr[2]. *)
Definition div_iter_incr_input : env Z :=
  [("a", S_ [6; 8]); ("b", S_ [0; 2]); ("incr", S_ [100; 200; 300]);
   ("ait", It [(0, true); (1, true)]); ("bit", It [(0, true); (1, true)]); ("iit", It [(2, true); (1, true)]);
   ("err", E_ ENil)].

Example run_DivIterIncrI8_generated :
  geta (run 10 (body_of "DivIterIncrI8") div_iter_incr_input) "incr" = Some (S_ [0; 204; 300]).
Proof. vm_compute. reflexivity. Qed.

Example run_DivIterIncr_canonical :
  match arith_tmpl sh_dst "Div" ("", "IterIncr", sh_iter_incr, true, None) Signed with
  | Some t => geta (run 10 (t_body t) div_iter_incr_input) "incr"
  | None => None
  end = Some (S_ [100; 204; 0]).
Proof. vm_compute. reflexivity. Qed.

(* DEVIATION 2: MapIncrErr stores fn(a[i]) instead of adding it (fn = 10 * x here) *)
Example run_MapIncrI64 :
  geta (run 0 (body_of "MapIncrI64") [("a", S_ [1; 2; 3])]) "a" = Some (S_ [11; 22; 33]).
Proof. vm_compute. reflexivity. Qed.

(* the Err variant needs a function value returning (x, err); the interpreter has no such calls, so
   the deviation is exhibited on the syntax: the last statement of the loop body *)
Example MapIncrErr_stores_plainly :
  body_of "MapIncrErrI64" =
  [Range "i" "" (Var "a")
     [VarDecl ["x"] TT [];
      If (AssignN [Var "x"; Var "err"] (Call "fn" [ix "a" "i"])) (Bin ONe (Var "err") (Var "nil"))
         [If (Assign (Var "err") (Call "handleNoOp" [Var "err"])) (Bin ONe (Var "err") (Var "nil")) [Return []] []] [];
      Assign (ix "a" "i") (Var "x")];          (* canonical: OpAssign OAdd (ix "a" "i") (Var "x") *)
   Return []].
Proof. vm_compute. reflexivity. Qed.

(* link: the table entry IS the schema the theorems of KernelSem.v talk about, so they apply to it *)
Lemma VecAddI8_is_schema :
  body_of "VecAddI8" = build (sh_loop sh_vv) false (arith_core false false (Bin OAdd) sh_vv (sh_dst sh_vv)).
Proof. vm_compute. reflexivity. Qed.

Corollary VecAddI8_meaning V bop cmpop negV fcall lit slit conv fuel (la lb : list V) :
  (length la <= length lb)%nat ->
  exists e', exec V bop cmpop negV fcall lit slit conv fuel (body_of "VecAddI8") [("a", VS V la); ("b", VS V lb)]
             = Some (ONormal V e')
    /\ get V e' "a" = Some (VS V (map2 (bop OAdd) la lb)).
Proof.
  intros H. rewrite VecAddI8_is_schema.
  destruct (tmpl_vv_sem V bop cmpop negV fcall lit slit conv fuel (Bin OAdd) (bop OAdd) la lb) as [e' [R [A _]]]; auto.
  - apply sop_sem_bin. reflexivity.
  - eauto.
Qed.
Print Assumptions VecAddI8_meaning.

Lemma SubIterU16_is_schema :
  body_of "SubIterU16" = build (sh_loop sh_iter) false (arith_core false false (Bin OSub) sh_iter (sh_dst sh_iter)).
Proof. vm_compute. reflexivity. Qed.

Lemma VecDivI64_is_schema :
  body_of "VecDivI64" = build (sh_loop sh_vv) true (arith_core false true (Bin ODiv) sh_vv (sh_dst sh_vv)).
Proof. vm_compute. reflexivity. Qed.

Lemma GtF32_is_schema :
  body_of "GtF32" = build (sh_loop sh_cmp) false [Assign (sh_dst sh_cmp) (Bin OGt (sh_x sh_cmp) (sh_y sh_cmp))].
Proof. vm_compute. reflexivity. Qed.
