(* MultProofs.v — proofs about the MultIterator MODEL of Mult.v (C05, multi-iterator part). *)
From TV Require Import Base Index AP Iter Mult IndexProofs IterProofs.
From Coq Require Import ZifyBool.

Local Notation zeros s := (map (fun _ : Z => 0) s).

(* the "zeros are overwritten by ones" map of block_iter *)
Definition fix1 (k : Z) : Z := if k =? 0 then 1 else k.

(* ---------- the guard ---------- *)
(* no zero stride on an axis of extent <> 1 *)
Fixpoint nz_wideb (sh st : list Z) : bool :=
  match sh, st with
  | s :: sh', k :: st' => ((s =? 1) || negb (k =? 0)) && nz_wideb sh' st'
  | _, _ => true
  end.

(* the per-operand guard under which the stride block of an operand of shape sh (= the common
   shape) is faithful:
     1. no zero stride on an axis of extent <> 1 (block_iter overwrites EVERY zero by one, not only
        the zeros BroadcastStrides introduced);
     2. on a row vector [1; n] (n > 1) the stride of axis 1 is 1 (the vector shortcut of
        BroadcastStrides keeps strides[0] only, axis 1 gets 0, then 1).
   Both conditions are also necessary, see mult_zero_stride_refuted / mult_rowvec_stride_refuted. *)
Definition stride_guardb (sh st : list Z) : bool :=
  nz_wideb sh st &&
  (negb (is_rowvec sh) || match st with [_; k] => k =? 1 | _ => false end).

(* ---------- bs_loop on equal shapes ---------- *)
(* st with zeros at the axes of extent 1 *)
Fixpoint zao (sh st : list Z) : list Z :=
  match sh, st with
  | s :: sh', k :: st' => (if s =? 1 then 0 else k) :: zao sh' st'
  | _, _ => []
  end.

Lemma zao_length sh : forall st, length st = length sh -> length (zao sh st) = length sh.
Proof.
  induction sh as [|s sh IH]; intros [|k st] H; cbn in *; try discriminate; auto.
Qed.

Lemma bs_loop_same sh : forall st, length st = length sh -> bs_loop sh sh st = Some (zao sh st).
Proof.
  induction sh as [|s sh IH]; intros [|k st] H; cbn in H; try discriminate; [reflexivity|].
  cbn [bs_loop zao]. rewrite IH by lia.
  destruct (s =? 1) eqn:E; [reflexivity|]. rewrite Z.eqb_refl. reflexivity.
Qed.

Lemma cpz_full : forall (src dst : list Z), length dst = length src -> cpz dst src = src.
Proof.
  induction src as [|s src IH]; intros [|d dst] H; cbn in H; try discriminate; [reflexivity|].
  cbn [cpz]. rewrite IH by lia. reflexivity.
Qed.

(* dot is insensitive to the stride at axes of extent 1, and fix1 is the identity elsewhere *)
Lemma dot_fix_zao sh : forall st c, length st = length sh -> nz_wideb sh st = true ->
  inbox sh c -> dot (map fix1 (zao sh st)) c = dot st c.
Proof.
  induction sh as [|s sh IH]; intros [|k st] [|x c] Hl Hn Hb; cbn in Hl, Hb; try discriminate;
    try tauto; try reflexivity.
  cbn [nz_wideb] in Hn. apply andb_true_iff in Hn as [Hk Hn]. destruct Hb as [Hx Hb].
  cbn [zao map dot]. rewrite IH by (auto; lia). unfold fix1.
  destruct (s =? 1) eqn:Es.
  - assert (x = 0) by lia. subst x. lia.
  - destruct (k =? 0) eqn:Ek; [cbn in Hk; lia|reflexivity].
Qed.

(* ---------- the stride block of one operand ---------- *)
Definition good_block (sh : list Z) (a : ap) (bs : list Z) : Prop :=
  length bs = length sh /\ forall c, inbox sh c -> dot (map fix1 bs) c = dot (str a) c.

Lemma is_vector_long (x y z : Z) (r : list Z) : is_vector (x :: y :: z :: r) = false.
Proof. reflexivity. Qed.

Lemma block_good sh a : pos_shape sh -> sh <> [] -> shp a = sh -> length (str a) = length sh ->
  stride_guardb sh (str a) = true ->
  exists bs, block_strides (length sh) sh a = Some bs /\ good_block sh a bs.
Proof.
  intros Hp Hne Hs Hl Hg. unfold stride_guardb in Hg. apply andb_true_iff in Hg as [Hn Hr].
  unfold good_block, block_strides, broadcast_strides. rewrite Hs.
  destruct (is_vector sh) eqn:Ev; cbn [andb].
  - (* the vector shortcut *)
    destruct sh as [|n [|m [|z r]]]; [congruence| | |rewrite is_vector_long in Ev; discriminate].
    + (* rank 1 *)
      destruct (str a) as [|s0 [|? ?]] eqn:Est; cbn in Hl; try discriminate.
      exists [s0]. split; [reflexivity|]. split; [reflexivity|].
      intros [|x [|? ?]] Hb; cbn in Hb; try tauto. destruct Hb as [Hx _].
      cbn [map dot]. cbn [nz_wideb] in Hn. unfold fix1.
      destruct (s0 =? 0) eqn:E0; [|reflexivity]. assert (x = 0) by lia. subst x. lia.
    + (* column / row vector *)
      destruct (str a) as [|s0 [|s1 [|? ?]]] eqn:Est; cbn in Hl; try discriminate.
      exists [s0; 0]. split; [reflexivity|]. split; [reflexivity|].
      intros [|x [|y [|? ?]]] Hb; cbn in Hb; try tauto. destruct Hb as [Hx [Hy _]].
      cbn [map dot]. cbn [nz_wideb] in Hn. unfold fix1. rewrite Z.eqb_refl.
      unfold is_vector, is_colvec, is_rowvec in Ev, Hr. cbn [length Nat.eqb] in Ev.
      inversion Hp as [|? ? Hn1 Hp']; subst. inversion Hp' as [|? ? Hm1 _]; subst.
      destruct (s0 =? 0) eqn:E0; destruct (n =? 1) eqn:En; destruct (m =? 1) eqn:Em;
        cbn in Ev, Hr, Hn; try discriminate; try lia;
        try (assert (x = 0) by lia; subst x); try (assert (y = 0) by lia; subst y);
        try (assert (s1 = 1) by lia; subst s1); lia.
  - (* the general loop *)
    rewrite Nat.sub_diag, Nat.ltb_irrefl. cbn [skipn repeat app].
    rewrite bs_loop_same by exact Hl.
    exists (zao sh (str a)). rewrite cpz_full by (rewrite repeat_length, zao_length; auto).
    split; [reflexivity|]. split; [apply zao_length; exact Hl|].
    intros c Hb. apply dot_fix_zao; assumption.
Qed.

Lemma block_strides_bcast n sh a bs : block_strides n sh a = Some bs ->
  match broadcast_strides sh (shp a) (repeat 0 n) (str a) with Ok _ => true | _ => false end = true.
Proof.
  unfold block_strides. destruct (broadcast_strides sh (shp a) (repeat 0 n) (str a));
    [reflexivity|discriminate|discriminate].
Qed.

Lemma block_strides_ext n sh a b : shp a = shp b -> str a = str b ->
  block_strides n sh a = block_strides n sh b.
Proof. intros H1 H2. unfold block_strides. rewrite H1, H2. reflexivity. Qed.

(* ---------- the flat iterator of a block ---------- *)
Lemma allones_fix1 bs : allones bs = true -> map fix1 bs = bs.
Proof.
  induction bs as [|k bs IH]; cbn [allones forallb map]; [reflexivity|].
  intro H. apply andb_true_iff in H as [Hk Hb]. fold (allones bs) in Hb. rewrite IH by exact Hb.
  unfold fix1. destruct (k =? 0) eqn:E; [lia|reflexivity].
Qed.

Definition block_offsets (sh bs : list Z) : list Z :=
  map (fun j => dot (map fix1 bs) (unrank sh j)) (zseq 0 (Z.to_nat (size sh))).

(* block_iter computes the flags from bs (zeros in place) and then swaps the strides:
   - flags say vector-like  => bs is all ones, the swap is the identity, it IS new_iter;
   - flags say n-d          => it is the n-d state over the swapped strides (even if those are now
                               all ones), and the odometer lemmas hold for arbitrary strides. *)
Lemma block_iter_yields sh bs : pos_shape sh -> sh <> [] -> length bs = length sh ->
  yields false (block_iter sh bs) (block_offsets sh bs).
Proof.
  intros Hp Hne Hl. pose proof (size_pos _ Hp) as Hsz. unfold block_offsets.
  destruct (ap_is_vectorlike (mkAP sh bs 0 true)) eqn:Hv.
  - pose proof Hv as Hv'. unfold ap_is_vectorlike in Hv'. cbn [shp str] in Hv'.
    apply andb_true_iff in Hv' as [_ Ha]. pose proof (allones_fix1 bs Ha) as Hf.
    assert (E : block_iter sh bs = new_iter (mkAP sh bs 0 true)).
    { unfold block_iter. change (map (fun k : Z => if k =? 0 then 1 else k) bs) with (map fix1 bs).
      rewrite Hf. unfold new_iter. cbn [shp str it_shape it_track it_next
        it_last it_size it_done it_vdim it_rev it_scalar it_vec]. reflexivity. }
    rewrite E, Hf.
    pose proof (yields_new_vec (mkAP sh bs 0 true) Hp Hl Hv Hne) as Hy.
    rewrite offsets_zseq in Hy. exact Hy.
  - assert (E : block_iter sh bs = nd_st sh (map fix1 bs) 0 0 false false).
    { unfold block_iter. change (map (fun k : Z => if k =? 0 then 1 else k) bs) with (map fix1 bs).
      unfold new_iter, nd_st. rewrite Hv. cbn [shp str it_shape it_track it_next
        it_last it_size it_done it_vdim it_rev it_scalar it_vec].
      rewrite unrank_zero, dot_zeros by exact Hp. unfold ap_is_scalar. cbn [shp].
      destruct sh; [congruence|reflexivity]. }
    rewrite E. destruct (Z.to_nat (size sh)) as [|n] eqn:En; [lia|].
    apply nd_yields_fwd; [exact Hp|rewrite map_length; exact Hl|lia|lia].
Qed.

Lemma block_iter_scalar sh bs : sh <> [] -> it_scalar (block_iter sh bs) = false.
Proof. intro H. unfold block_iter. cbn. unfold ap_is_scalar. cbn. destruct sh; [congruence|reflexivity]. Qed.

Lemma block_iter_size sh bs : it_size (block_iter sh bs) = size sh.
Proof. reflexivity. Qed.

Lemma block_iter_last sh bs : it_last (block_iter sh bs) = 0.
Proof. reflexivity. Qed.

(* ---------- an iterator that yields g 0, g 1, ..., g (N-1) ---------- *)
Definition tracks (N : nat) (f : fiter) (g : Z -> Z) : Prop :=
  it_scalar f = false /\ yields false f (map g (zseq 0 N)).

Lemma iter_steps_scalar k : forall it, it_scalar (iter_steps k it) = it_scalar it.
Proof.
  induction k as [|k IH]; intros it; [reflexivity|]. cbn [iter_steps]. rewrite IH.
  destruct (iter_next_frame it) as (_ & _ & _ & _ & _ & H & _). exact H.
Qed.

Lemma iter_next_last it it' o : iter_next it = (it', Ok o) -> it_scalar it = false -> it_last it' = o.
Proof.
  unfold iter_next. intros H Hs. rewrite Hs in H.
  destruct (it_done it); [discriminate|].
  destruct (it_vec it).
  - destruct (set_track (it_track it) (it_vdim it) _); [|discriminate].
    injection H as <- <-. reflexivity.
  - destruct (length (it_strides it) <? length (it_shape it))%nat; [discriminate|].
    destruct (if it_rev it then _ else _) as [[tr' d] c]. injection H as <- <-. reflexivity.
Qed.

Lemma nth_error_map_zseq (g : Z -> Z) N k :
  nth_error (map g (zseq 0 N)) k = if (k <? N)%nat then Some (g (Z.of_nat k)) else None.
Proof.
  destruct (k <? N)%nat eqn:E.
  - apply Nat.ltb_lt in E. rewrite (map_nth_error g k (zseq 0 N) (d := 0 + Z.of_nat k))
      by (apply nth_error_zseq; exact E). reflexivity.
  - apply Nat.ltb_ge in E. apply nth_error_None. rewrite map_length, zseq_length. exact E.
Qed.

Lemma tracks_done N f g k : tracks N f g ->
  it_done (iter_steps k f) = (N <=? k)%nat.
Proof.
  intros [_ Hy]. pose proof (yields_steps _ _ _ Hy k) as H. rewrite nth_error_map_zseq in H.
  destruct (k <? N)%nat eqn:E; destruct H as [H _]; rewrite H; symmetry.
  - apply Nat.ltb_lt in E. apply Nat.leb_gt. exact E.
  - apply Nat.ltb_ge in E. apply Nat.leb_le. exact E.
Qed.

Lemma tracks_step N f g k : tracks N f g -> (k < N)%nat ->
  iter_next (iter_steps k f) = (iter_steps (S k) f, Ok (g (Z.of_nat k))) /\
  it_last (iter_steps (S k) f) = g (Z.of_nat k).
Proof.
  intros [Hs Hy] Hk. pose proof (yields_steps _ _ _ Hy k) as H. rewrite nth_error_map_zseq in H.
  apply Nat.ltb_lt in Hk. rewrite Hk in H. destruct H as [_ H]. split; [exact H|].
  apply (iter_next_last _ _ _ H). rewrite iter_steps_scalar. exact Hs.
Qed.

(* ---------- lock-step advance of all blocks ---------- *)
Lemma step_all_tracks N k : (k < N)%nat -> forall fits,
  Forall (fun f => exists g, tracks N f g) fits ->
  step_all (map (iter_steps k) fits)
  = Some (map (iter_steps (S k)) fits, existsb (fun f => it_done (iter_steps (S k) f)) fits).
Proof.
  intros Hk. induction 1 as [|f fits [g Hf] _ IH]; [reflexivity|].
  cbn [map step_all existsb]. destruct (tracks_step N f g k Hf Hk) as [E _].
  rewrite E, IH. reflexivity.
Qed.

Lemma existsb_done N k : forall fits, fits <> [] ->
  Forall (fun f => exists g, tracks N f g) fits ->
  existsb (fun f => it_done (iter_steps k f)) fits = (N <=? k)%nat.
Proof.
  intros fits Hne H. induction H as [|f fits [g Hf] Hr IH]; [congruence|].
  cbn [existsb]. rewrite (tracks_done N f g k Hf).
  destruct fits as [|f' fits']; [cbn; apply orb_false_r|].
  rewrite IH by congruence. apply orb_diag.
Qed.

(* k calls of MultIterator.Next, results dropped *)
Fixpoint mult_steps (k : nat) (mi : miter) : miter :=
  match k with O => mi | S k' => fst (mult_next (mult_steps k' mi)) end.

Lemma mult_next_done mi : mi_done mi = true -> mult_next mi = (mi, Err).
Proof. intro H. unfold mult_next. rewrite H. reflexivity. Qed.

Lemma mult_steps_state N fits which l0 : (0 < N)%nat -> fits <> [] ->
  Forall (fun f => exists g, tracks N f g) fits ->
  forall k, (k <= N)%nat ->
  let mi := mult_steps k (mkMI fits which l0 0 false) in
  mi_fits mi = map (iter_steps k) fits /\ mi_which mi = which /\ mi_fit0 mi = 0%nat /\
  mi_done mi = (N <=? k)%nat.
Proof.
  intros HN Hne Hall. induction k as [|k IH]; intros Hk mi; subst mi.
  - cbn [mult_steps mi_fits mi_which mi_fit0 mi_done]. rewrite map_id.
    repeat split. symmetry. apply Nat.leb_gt. exact HN.
  - destruct IH as (A & B & C & D); [lia|]. cbn [mult_steps].
    unfold mult_next. rewrite D. replace (N <=? k)%nat with false by (symmetry; apply Nat.leb_gt; lia).
    rewrite A, step_all_tracks with (N := N) by (auto; lia).
    cbn [fst mi_fits mi_which mi_fit0 mi_done]. rewrite B, C.
    repeat split. apply existsb_done; assumption.
Qed.

Lemma mult_steps_past N mi0 : mi_done (mult_steps N mi0) = true ->
  forall k, (N <= k)%nat -> mult_steps k mi0 = mult_steps N mi0.
Proof.
  intros Hd k Hk. induction Hk as [|k Hk IH]; [reflexivity|].
  cbn [mult_steps]. rewrite IH, mult_next_done by exact Hd. reflexivity.
Qed.

Lemma last_of_map_steps fits k w f : nth_error fits w = Some f ->
  last_of (map (iter_steps k) fits) w = it_last (iter_steps k f).
Proof. intro H. unfold last_of. rewrite (map_nth_error _ _ _ H). reflexivity. Qed.

(* the (k+1)-th call *)
Lemma mult_next_step N fits which l0 k : (k < N)%nat -> fits <> [] ->
  Forall (fun f => exists g, tracks N f g) fits ->
  let mi0 := mkMI fits which l0 0 false in
  mi_done (mult_steps k mi0) = false /\
  mult_next (mult_steps k mi0)
  = (mult_steps (S k) mi0, Ok (last_of (map (iter_steps (S k)) fits) 0)) /\
  mi_last (mult_steps (S k) mi0) = map (last_of (map (iter_steps (S k)) fits)) which.
Proof.
  intros Hk Hne Hall mi0.
  destruct (mult_steps_state N fits which l0 ltac:(lia) Hne Hall k ltac:(lia)) as (A & B & C & D).
  fold mi0 in A, B, C, D.
  assert (Hd : mi_done (mult_steps k mi0) = false)
    by (rewrite D; apply Nat.leb_gt; lia).
  split; [exact Hd|]. cbn [mult_steps]. unfold mult_next. rewrite Hd, A.
  rewrite step_all_tracks with (N := N) by (auto; lia).
  cbn [fst mi_last]. rewrite B, C. split; reflexivity.
Qed.

(* ---------- NewMultIterator: shape selection, fit0 ---------- *)
Lemma max_shape_same sh : forall aps md, (forall a, In a aps -> shp a = sh) ->
  (md <= length sh)%nat ->
  max_shape aps md sh = (match aps with [] => md | _ => length sh end, sh).
Proof.
  induction aps as [|a r IH]; intros md Hs Hmd; [reflexivity|].
  cbn [max_shape]. rewrite (Hs a (or_introl eq_refl)).
  replace (md <=? length sh)%nat with true by (symmetry; apply Nat.leb_le; exact Hmd).
  rewrite Z.ltb_irrefl. rewrite IH; [|intros b Hb; apply Hs; right; exact Hb|lia].
  destruct r; reflexivity.
Qed.

Lemma pick_fit0_same bsz : forall fits i best, Forall (fun f => it_size f = bsz) fits ->
  pick_fit0 fits i best bsz = best.
Proof.
  induction fits as [|f r IH]; intros i best H; [reflexivity|].
  pose proof (Forall_inv H) as Hf. pose proof (Forall_inv_tail H) as Hr. cbn beta in Hf.
  cbn [pick_fit0]. rewrite Hf, Z.ltb_irrefl. apply IH. exact Hr.
Qed.

Lemma find_key_In m : forall k v, find_key m k = Some v -> In (k, v) m.
Proof.
  induction m as [|[k' v'] m IH]; intros k v H; [discriminate|]. cbn [find_key] in H.
  destruct (k =? k') eqn:E.
  - injection H as <-. assert (k = k') by lia. subst k'. left. reflexivity.
  - right. apply IH. exact H.
Qed.

Lemma Forall2_mono {A B} (R1 R2 : A -> B -> Prop) : (forall a b, R1 a b -> R2 a b) ->
  forall l1 l2, Forall2 R1 l1 l2 -> Forall2 R2 l1 l2.
Proof. intros H l1 l2. induction 1; constructor; auto. Qed.

Lemma Forall2_len {A B} (R : A -> B -> Prop) l1 l2 : Forall2 R l1 l2 -> length l1 = length l2.
Proof. induction 1; cbn; auto. Qed.

Lemma Forall2_map_eq {A B C} (R : A -> B -> Prop) (f : B -> C) (g : A -> C) :
  (forall a b, R a b -> f b = g a) -> forall l1 l2, Forall2 R l1 l2 -> map f l2 = map g l1.
Proof. intros H l1 l2. induction 1 as [|a b l1 l2 Hab _ IH]; cbn [map]; [reflexivity|]. rewrite IH, (H a b Hab). reflexivity. Qed.

(* ---------- the block loop ---------- *)
Section Blocks.
Variables (n : nat) (sh : list Z) (all : list ap) (bsf : ap -> list Z).
Hypothesis Hbs : forall a, In a all -> block_strides n sh a = Some (bsf a).
Hypothesis Hinj : forall a b, In a all -> In b all ->
  hash_ints (str a) = hash_ints (str b) -> bsf a = bsf b.

(* every registered key maps to the block of an operand with that key *)
Definition minv (m : list (Z * nat)) (blocks : list (list Z)) : Prop :=
  Forall (fun kv => exists a, In a all /\ fst kv = hash_ints (str a) /\
                              nth_error blocks (snd kv) = Some (bsf a)) m.
(* every processed operand is assigned its own block *)
Definition winv (pre : list ap) (blocks : list (list Z)) (which : list nat) : Prop :=
  Forall2 (fun a w => nth_error blocks w = Some (bsf a)) pre which.
(* every block is the block of some operand *)
Definition binv (blocks : list (list Z)) : Prop :=
  Forall (fun bs => exists a, In a all /\ bs = bsf a) blocks.

Lemma nth_error_app_some {A} (l l' : list A) i x :
  nth_error l i = Some x -> nth_error (l ++ l') i = Some x.
Proof. intro H. rewrite nth_error_app1; [exact H|]. eapply nth_error_Some_lt; exact H. Qed.

Lemma minv_app m blocks ext : minv m blocks -> minv m (blocks ++ ext).
Proof.
  unfold minv. apply Forall_impl. intros kv (a & Ha & Hk & Hn).
  exists a. repeat split; auto. apply nth_error_app_some. exact Hn.
Qed.

Lemma winv_app pre blocks which ext : winv pre blocks which -> winv pre (blocks ++ ext) which.
Proof. unfold winv. apply Forall2_mono. intros a w H. apply nth_error_app_some. exact H. Qed.

Lemma mult_blocks_inv : forall aps pre m blocks which,
  incl aps all -> minv m blocks -> winv pre blocks which -> binv blocks ->
  exists ext which', mult_blocks n sh aps m blocks which = Some (blocks ++ ext, which') /\
                     winv (pre ++ aps) (blocks ++ ext) which' /\ binv (blocks ++ ext).
Proof.
  induction aps as [|a r IH]; intros pre m blocks which Hin Hm Hw Hb.
  - exists [], which. rewrite !app_nil_r. cbn [mult_blocks]. auto.
  - assert (Ha : In a all) by (apply Hin; left; reflexivity).
    assert (Hr : incl r all) by (intros x Hx; apply Hin; right; exact Hx).
    cbn [mult_blocks]. destruct (find_key m (hash_ints (str a))) as [f|] eqn:Ef.
    + apply find_key_In in Ef. unfold minv in Hm. rewrite Forall_forall in Hm.
      destruct (Hm _ Ef) as (a' & Ha' & Hk & Hn). cbn [fst snd] in Hk, Hn.
      rewrite (Hinj a' a Ha' Ha (eq_sym Hk)) in Hn.
      destruct (IH (pre ++ [a]) m blocks (which ++ [f]) Hr) as (ext & which' & E & Hw' & Hb').
      * unfold minv. rewrite Forall_forall. exact Hm.
      * apply Forall2_app; [exact Hw|]. constructor; [exact Hn|constructor].
      * exact Hb.
      * exists ext, which'. rewrite <- app_assoc in Hw'. auto.
    + rewrite (Hbs a Ha).
      destruct (IH (pre ++ [a]) ((hash_ints (str a), length blocks) :: m) (blocks ++ [bsf a])
                   (which ++ [length blocks]) Hr) as (ext & which' & E & Hw' & Hb').
      * constructor; [|apply minv_app; exact Hm]. exists a. cbn [fst snd].
        repeat split; auto. rewrite nth_error_app2, Nat.sub_diag by lia. reflexivity.
      * apply Forall2_app; [apply winv_app; exact Hw|]. constructor; [|constructor].
        rewrite nth_error_app2, Nat.sub_diag by lia. reflexivity.
      * apply Forall_app. split; [exact Hb|]. constructor; [|constructor]. exists a. auto.
      * exists (bsf a :: ext), which'. rewrite <- app_assoc in E, Hw', Hb'.
        rewrite <- app_assoc in Hw'. auto.
Qed.
End Blocks.

(* ---------- NewMultIterator on equally shaped operands ---------- *)
Definition bsf_of (sh : list Z) (a : ap) : list Z :=
  match block_strides (length sh) sh a with Some bs => bs | None => [] end.

Definition operands_ok (sh : list Z) (aps : list ap) : Prop :=
  forall a, In a aps ->
    shp a = sh /\ length (str a) = length sh /\ stride_guardb sh (str a) = true.

(* hypothesis (i): the 64-bit FNV-1a hash of the strides does not collide ON THIS LIST.  It cannot
   be discharged in general (2^64 hash values, unboundedly many stride lists), so it is a
   hypothesis of the theorems, not an axiom. *)
Definition hash_inj_on (aps : list ap) : Prop :=
  forall a b, In a aps -> In b aps -> hash_ints (str a) = hash_ints (str b) -> str a = str b.

Lemma bsf_good sh aps : pos_shape sh -> sh <> [] -> operands_ok sh aps ->
  forall a, In a aps ->
  block_strides (length sh) sh a = Some (bsf_of sh a) /\ good_block sh a (bsf_of sh a).
Proof.
  intros Hp Hsh Hok a Ha. destruct (Hok a Ha) as (Hs & Hl & Hg).
  destruct (block_good sh a Hp Hsh Hs Hl Hg) as (bs & E & G).
  unfold bsf_of. rewrite E. auto.
Qed.

Lemma new_mult_eq sh a0 r : pos_shape sh -> sh <> [] ->
  operands_ok sh (a0 :: r) -> hash_inj_on (a0 :: r) ->
  exists ext which,
    new_mult (a0 :: r)
    = Ok (mkMI (map (block_iter sh) (bsf_of sh a0 :: ext)) which
               (map (fun _ => 0) (a0 :: r)) 0 false) /\
    winv (bsf_of sh) (a0 :: r) (bsf_of sh a0 :: ext) which /\
    binv (a0 :: r) (bsf_of sh) (bsf_of sh a0 :: ext).
Proof.
  intros Hp Hsh Hok Hinj. set (aps := a0 :: r) in *.
  assert (Hshp : forall a, In a aps -> shp a = sh) by (intros a Ha; apply (Hok a Ha)).
  assert (Hbs : forall a, In a aps -> block_strides (length sh) sh a = Some (bsf_of sh a))
    by (intros a Ha; apply (bsf_good sh aps Hp Hsh Hok a Ha)).
  assert (Hinj' : forall a b, In a aps -> In b aps ->
            hash_ints (str a) = hash_ints (str b) -> bsf_of sh a = bsf_of sh b).
  { intros a b Ha Hb Hh. unfold bsf_of.
    rewrite (block_strides_ext (length sh) sh a b); [reflexivity| |apply Hinj; assumption].
    rewrite (Hshp a Ha), (Hshp b Hb). reflexivity. }
  assert (Ha0 : In a0 aps) by (left; reflexivity).
  destruct (mult_blocks_inv (length sh) sh aps (bsf_of sh) Hbs Hinj' r [a0]
              [(hash_ints (str a0), 0%nat)] [bsf_of sh a0] [0%nat])
    as (ext & which & E & Hw & Hb).
  - intros x Hx. right. exact Hx.
  - constructor; [|constructor]. exists a0. cbn [fst snd nth_error]. auto.
  - constructor; [reflexivity|constructor].
  - constructor; [|constructor]. exists a0. auto.
  - cbn [app] in E, Hw, Hb. exists ext, which. split; [|split; [exact Hw|exact Hb]].
    subst aps. unfold new_mult. rewrite (Hshp a0 Ha0).
    rewrite (max_shape_same sh (a0 :: r) 0 Hshp) by lia. cbv beta iota.
    rewrite Nat.ltb_irrefl, firstn_all.
    match goal with |- context [forallb ?f ?l] =>
      assert (Hfa : forallb f l = true) end.
    { apply forallb_forall. intros a Ha. apply (block_strides_bcast _ _ _ _ (Hbs a Ha)). }
    rewrite Hfa. cbn [negb mult_blocks find_key]. rewrite (Hbs a0 Ha0). cbn [length app].
    rewrite E. cbn [map].
    rewrite pick_fit0_same; [reflexivity|].
    constructor; [reflexivity|]. apply Forall_forall. intros f Hf.
    apply in_map_iff in Hf as (bs & <- & _). reflexivity.
Qed.

Lemma Forall2_In_l {A B} (R : A -> B -> Prop) l1 l2 : Forall2 R l1 l2 ->
  Forall2 (fun a b => In a l1 /\ R a b) l1 l2.
Proof.
  induction 1 as [|a b l1 l2 Hab _ IH]; constructor.
  - split; [left; reflexivity|exact Hab].
  - revert IH. apply Forall2_mono. intros x y [Hx Hxy]. split; [right; exact Hx|exact Hxy].
Qed.

Lemma blocks_track sh aps blocks : pos_shape sh -> sh <> [] -> operands_ok sh aps ->
  binv aps (bsf_of sh) blocks ->
  Forall (fun f => exists g, tracks (Z.to_nat (size sh)) f g) (map (block_iter sh) blocks).
Proof.
  intros Hp Hsh Hok Hb. apply Forall_forall. intros f Hf.
  apply in_map_iff in Hf as (bs & <- & Hin). unfold binv in Hb. rewrite Forall_forall in Hb.
  destruct (Hb bs Hin) as (a & Ha & ->).
  destruct (bsf_good sh aps Hp Hsh Hok a Ha) as (_ & Hl & _).
  exists (fun j => dot (map fix1 (bsf_of sh a)) (unrank sh j)). split.
  - apply block_iter_scalar. exact Hsh.
  - apply block_iter_yields; assumption.
Qed.

(* the lastIndex of the block of operand a after the (k+1)-th call *)
Lemma last_block sh aps blocks a w k : pos_shape sh -> sh <> [] -> operands_ok sh aps ->
  In a aps -> nth_error blocks w = Some (bsf_of sh a) -> Z.of_nat k < size sh ->
  last_of (map (iter_steps (S k)) (map (block_iter sh) blocks)) w
  = dot (str a) (unrank sh (Z.of_nat k)).
Proof.
  intros Hp Hsh Hok Ha Hn Hk.
  destruct (bsf_good sh aps Hp Hsh Hok a Ha) as (_ & Hl & Hdot).
  rewrite (last_of_map_steps _ _ _ (block_iter sh (bsf_of sh a)))
    by (apply map_nth_error; exact Hn).
  assert (Ht : tracks (Z.to_nat (size sh)) (block_iter sh (bsf_of sh a))
                      (fun j => dot (map fix1 (bsf_of sh a)) (unrank sh j))).
  { split; [apply block_iter_scalar; exact Hsh|apply block_iter_yields; assumption]. }
  destruct (tracks_step _ _ _ k Ht) as [_ E]; [lia|]. rewrite E.
  apply Hdot. apply unrank_inbox; [exact Hp|lia].
Qed.

(* ---------- M1 ---------- *)
Theorem mult_lastindex sh aps :
  pos_shape sh -> sh <> [] -> aps <> [] -> operands_ok sh aps -> hash_inj_on aps ->
  exists mi0, new_mult aps = Ok mi0 /\
    (forall (k : nat) (d : ap), Z.of_nat k < size sh ->
       mi_done (mult_steps k mi0) = false /\
       mult_next (mult_steps k mi0)
       = (mult_steps (S k) mi0, Ok (dot (str (hd d aps)) (unrank sh (Z.of_nat k)))) /\
       mi_last (mult_steps (S k) mi0)
       = map (fun a => dot (str a) (unrank sh (Z.of_nat k))) aps /\
       (forall j : nat, (j < length aps)%nat ->
          nth j (mi_last (mult_steps (S k) mi0)) 0
          = dot (str (nth j aps d)) (unrank sh (Z.of_nat k)))) /\
    (forall k : nat, size sh <= Z.of_nat k ->
       mi_done (mult_steps k mi0) = true /\
       mult_next (mult_steps k mi0) = (mult_steps k mi0, Err)).
Proof.
  intros Hp Hsh Hne Hok Hinj. destruct aps as [|a0 r]; [congruence|]. clear Hne.
  destruct (new_mult_eq sh a0 r Hp Hsh Hok Hinj) as (ext & which & E & Hw & Hb).
  set (aps := a0 :: r) in *. set (blocks := bsf_of sh a0 :: ext) in *.
  set (fits := map (block_iter sh) blocks) in *.
  set (N := Z.to_nat (size sh)). pose proof (size_pos _ Hp) as Hsz.
  assert (Hfne : fits <> []) by (subst fits blocks; cbn [map]; congruence).
  assert (Hall : Forall (fun f => exists g, tracks N f g) fits)
    by (apply (blocks_track sh aps); assumption).
  eexists. split; [exact E|]. split.
  - intros k d Hk.
    destruct (mult_next_step N fits which (map (fun _ => 0) aps) k ltac:(lia) Hfne Hall)
      as (Hd & Hn & Hl).
    assert (Hlast : mi_last (mult_steps (S k) (mkMI fits which (map (fun _ => 0) aps) 0 false))
                    = map (fun a => dot (str a) (unrank sh (Z.of_nat k))) aps).
    { rewrite Hl. apply (Forall2_map_eq (fun a w => In a aps /\ nth_error blocks w = Some (bsf_of sh a))).
      - intros a w [Ha Hnw]. apply (last_block sh aps); assumption.
      - apply Forall2_In_l. exact Hw. }
    split; [exact Hd|]. split; [|split; [exact Hlast|]].
    + rewrite Hn. f_equal. f_equal. cbn [hd aps]. apply (last_block sh aps); auto.
      left. reflexivity.
    + intros j Hj. rewrite Hlast.
      rewrite (nth_indep _ 0 ((fun a => dot (str a) (unrank sh (Z.of_nat k))) d))
        by (rewrite map_length; exact Hj).
      exact (map_nth (fun a => dot (str a) (unrank sh (Z.of_nat k))) aps d j).
  - intros k Hk.
    destruct (mult_steps_state N fits which (map (fun _ => 0) aps) ltac:(lia) Hfne Hall N (le_n N))
      as (_ & _ & _ & D).
    rewrite Nat.leb_refl in D.
    rewrite (mult_steps_past N _ D k) by lia. split; [exact D|]. apply mult_next_done. exact D.
Qed.

(* ---------- M2: Reset ---------- *)
(* states reachable from it0 by any number of Next calls (successful or not) *)
Inductive reach (it0 : fiter) : fiter -> Prop :=
| reach_refl : reach it0 it0
| reach_next it : reach it0 it -> reach it0 (fst (iter_next it)).

Definition fresh (it : fiter) : Prop :=
  it_rev it = false /\ it_track it = zeros (it_shape it) /\ it_next it = 0 /\ it_done it = false.

Lemma reach_frame it0 it : reach it0 it -> length (it_track it0) = length (it_shape it0) ->
  it_shape it = it_shape it0 /\ it_strides it = it_strides it0 /\ it_size it = it_size it0 /\
  it_vdim it = it_vdim it0 /\ it_rev it = it_rev it0 /\ it_scalar it = it_scalar it0 /\
  it_vec it = it_vec it0 /\ length (it_track it) = length (it_shape it0).
Proof.
  intros Hr Hl. induction Hr as [|it Hr IH]; [repeat split; auto|].
  destruct IH as (A & B & C & D & E & F & G & H).
  destruct (iter_next_frame it) as (A' & B' & C' & D' & E' & F' & G' & H').
  rewrite A', B', C', D', E', F', G'. rewrite A in H'. rewrite H' by exact H.
  repeat split; assumption.
Qed.

(* generalises IterProofs.reset_restarts (the instance it0 = new_iter a) to any fresh forward
   iterator — needed because on the n-d path block_iter is not the new_iter of any AP *)
Lemma reset_reach it0 it : fresh it0 -> reach it0 it ->
  iter_reset it = Ok (set_last it0 (it_last it)).
Proof.
  intros (Hrev & Htr & Hnx & Hdn) Hr.
  assert (Hl : length (it_track it0) = length (it_shape it0)) by (rewrite Htr, map_length; reflexivity).
  destruct (reach_frame it0 it Hr Hl) as (A & B & C & D & E & F & G & H).
  unfold iter_reset. rewrite E, Hrev. unfold set_last.
  rewrite A, B, C, D, F, G, Htr, Hnx, Hdn, Hrev. do 2 f_equal.
  apply map_const_length. exact H.
Qed.

Lemma reset_restarts_instance a it : fwd_reachable a it -> reach (new_iter a) it.
Proof. induction 1; [apply reach_refl|apply reach_next; assumption]. Qed.

Lemma block_iter_fresh sh bs : fresh (block_iter sh bs).
Proof. repeat split. Qed.

Lemma new_mult_fits aps mi0 : new_mult aps = Ok mi0 ->
  exists sh blocks, mi_fits mi0 = map (block_iter sh) blocks.
Proof.
  unfold new_mult. destruct aps as [|a0 r]; [discriminate|].
  destruct (max_shape (a0 :: r) 0 (shp a0)) as [md ms].
  destruct (length ms <? md)%nat; [discriminate|].
  destruct (negb _); [discriminate|].
  destruct (mult_blocks md ms (a0 :: r) [] [] []) as [[blocks which]|]; [|discriminate].
  destruct (map (block_iter (firstn md ms)) blocks) as [|f0 fr] eqn:Em; [discriminate|].
  intro H. injection H as <-. cbn [mi_fits]. rewrite <- Em. eauto.
Qed.

(* states reachable from mi0 by any number of MultIterator.Next calls *)
Inductive mreach (mi0 : miter) : miter -> Prop :=
| mr_refl : mreach mi0 mi0
| mr_next mi : mreach mi0 mi -> mreach mi0 (fst (mult_next mi)).

Lemma step_all_next : forall fits fits' dn, step_all fits = Some (fits', dn) ->
  Forall2 (fun f f' => f' = fst (iter_next f)) fits fits'.
Proof.
  induction fits as [|f r IH]; intros fits' dn H; cbn [step_all] in H.
  - injection H as <- <-. constructor.
  - destruct (iter_next f) as [f' [o| |]] eqn:En; try discriminate.
    destruct (step_all r) as [[r' dn']|] eqn:Er; [|discriminate].
    injection H as <- <-. constructor; [rewrite En; reflexivity|]. eapply IH. reflexivity.
Qed.

Lemma reach_all_step : forall fits0 fits fits', Forall2 reach fits0 fits ->
  Forall2 (fun f f' => f' = fst (iter_next f)) fits fits' -> Forall2 reach fits0 fits'.
Proof.
  intros fits0 fits fits' H. revert fits'.
  induction H as [|f0 f fits0 fits Hr _ IH]; intros fits' H'; inversion H' as [|? f' ? r' Hf Hr']; subst.
  - constructor.
  - constructor; [apply reach_next; exact Hr|apply IH; exact Hr'].
Qed.

Lemma Forall2_refl {A} (R : A -> A -> Prop) : (forall a, R a a) -> forall l, Forall2 R l l.
Proof. intros H l. induction l; constructor; auto. Qed.

Lemma mreach_inv mi0 mi : mreach mi0 mi ->
  Forall2 reach (mi_fits mi0) (mi_fits mi) /\ mi_which mi = mi_which mi0 /\
  mi_fit0 mi = mi_fit0 mi0.
Proof.
  induction 1 as [|mi Hr (A & B & C)].
  - split; [apply Forall2_refl; apply reach_refl|auto].
  - unfold mult_next. destruct (mi_done mi); [cbn [fst]; auto|].
    destruct (step_all (mi_fits mi)) as [[fits' dn]|] eqn:Es; [|cbn [fst]; auto].
    cbn [fst mi_fits mi_which mi_fit0]. split; [|auto].
    eapply reach_all_step; [exact A|]. eapply step_all_next. exact Es.
Qed.

(* the fresh iterators with the lastIndex fields of the current ones *)
Fixpoint reset_fits (fits0 fits : list fiter) : list fiter :=
  match fits0, fits with
  | f0 :: r0, f :: r => set_last f0 (it_last f) :: reset_fits r0 r
  | _, _ => []
  end.

Definition sel_ok (r : res fiter) : list fiter := match r with Ok f => [f] | _ => [] end.

Lemma reset_all : forall fits0 fits, Forall fresh fits0 -> Forall2 reach fits0 fits ->
  forallb (fun r : res fiter => match r with Ok _ => true | _ => false end) (map iter_reset fits) = true /\
  flat_map sel_ok (map iter_reset fits) = reset_fits fits0 fits.
Proof.
  intros fits0 fits Hf H. induction H as [|f0 f fits0 fits Hr _ IH]; [split; reflexivity|].
  pose proof (Forall_inv Hf) as Hf0. pose proof (Forall_inv_tail Hf) as Hfr.
  destruct (IH Hfr) as [IH1 IH2]. cbn [map forallb flat_map reset_fits].
  rewrite (reset_reach f0 f Hf0 Hr), IH1, IH2. split; reflexivity.
Qed.

Theorem mult_reset_restarts aps mi0 mi : new_mult aps = Ok mi0 -> mreach mi0 mi ->
  let fits' := reset_fits (mi_fits mi0) (mi_fits mi) in
  mult_reset mi
  = Ok (mkMI fits' (mi_which mi0) (map (last_of fits') (mi_which mi0)) (mi_fit0 mi0) false) /\
  Forall2 (fun f0 f' => f' = set_last f0 (it_last f')) (mi_fits mi0) fits' /\
  map it_last fits' = map it_last (mi_fits mi).
Proof.
  intros E Hr fits'. destruct (new_mult_fits aps mi0 E) as (sh & blocks & Ef).
  destruct (mreach_inv mi0 mi Hr) as (A & B & C).
  assert (Hfresh : Forall fresh (mi_fits mi0)).
  { rewrite Ef. apply Forall_forall. intros f Hf. apply in_map_iff in Hf as (bs & <- & _).
    apply block_iter_fresh. }
  destruct (reset_all _ _ Hfresh A) as [R1 R2]. split; [|split].
  - unfold mult_reset. rewrite R1. fold sel_ok. rewrite R2, B, C. reflexivity.
  - subst fits'. clear -A. induction A as [|f0 f fits0 fits _ _ IH]; cbn [reset_fits]; constructor;
      [reflexivity|exact IH].
  - subst fits'. clear -A. induction A as [|f0 f fits0 fits _ _ IH]; cbn [reset_fits map];
      [reflexivity|]. rewrite IH. reflexivity.
Qed.

Lemma mreach_steps k mi0 : mreach mi0 (mult_steps k mi0).
Proof. induction k as [|k IH]; [apply mr_refl|cbn [mult_steps]; apply mr_next; exact IH]. Qed.

Corollary mult_reset_restarts_steps aps mi0 k : new_mult aps = Ok mi0 ->
  let fits' := reset_fits (mi_fits mi0) (mi_fits (mult_steps k mi0)) in
  mult_reset (mult_steps k mi0)
  = Ok (mkMI fits' (mi_which mi0) (map (last_of fits') (mi_which mi0)) (mi_fit0 mi0) false) /\
  Forall2 (fun f0 f' => f' = set_last f0 (it_last f')) (mi_fits mi0) fits' /\
  map it_last fits' = map it_last (mi_fits (mult_steps k mi0)).
Proof. intro E. apply (mult_reset_restarts aps); [exact E|apply mreach_steps]. Qed.

(* ---------- M3: what the model makes false ---------- *)
(* Row vectors [1; n]: the vector shortcut of BroadcastStrides keeps strides[0] only; the stride of
   the axis that actually varies is lost.  The second operand's recorded offsets are 0, 1 although
   its own flat iterator yields 0, 3.  (No hash collision is involved: which = [0; 1].) *)
Theorem mult_rowvec_stride_refuted :
  let aps := [mkAP [1; 2] [1; 1] 0 true; mkAP [1; 2] [2; 3] 0 true] in
  exists mi0, new_mult aps = Ok mi0 /\ mi_which mi0 = [0%nat; 1%nat] /\
    snd (mult_next mi0) = Ok 0 /\ snd (mult_next (mult_steps 1 mi0)) = Ok 1 /\
    nth 1 (mi_last (mult_steps 1 mi0)) 0 = 0 /\
    nth 1 (mi_last (mult_steps 2 mi0)) 0 = 1 /\
    mi_done (mult_steps 2 mi0) = true /\
    iter_all (nth 1 aps scalar_ap) = Some [0; 3] /\
    nz_wideb [1; 2] [2; 3] = true /\ stride_guardb [1; 2] [2; 3] = false.
Proof. vm_compute. eexists. repeat split; reflexivity. Qed.

(* Zero strides on an axis of extent > 1 (a broadcast view): block_iter overwrites EVERY zero of
   the block strides by one, so the recorded offsets are 0, 1, 1, 2 (strides [1; 1]) although the operand's own
   flat iterator yields 0, 1, 0, 1. *)
Theorem mult_zero_stride_refuted :
  let aps := [mkAP [2; 2] [2; 1] 0 true; mkAP [2; 2] [0; 1] 0 true] in
  exists mi0, new_mult aps = Ok mi0 /\ mi_which mi0 = [0%nat; 1%nat] /\
    map (fun k => nth 1 (mi_last (mult_steps (S k) mi0)) 0) [0; 1; 2; 3]%nat = [0; 1; 1; 2] /\
    iter_all (nth 1 aps scalar_ap) = Some [0; 1; 0; 1] /\
    is_vector [2; 2] = false /\ stride_guardb [2; 2] [0; 1] = false.
Proof. vm_compute. eexists. repeat split; reflexivity. Qed.

(* helper for examples: run Next until the error, collecting lastIndexArr and the result *)
Fixpoint mult_run (fuel : nat) (mi : miter) : list (list Z * Z) :=
  match fuel with
  | O => []
  | S f => match mult_next mi with
           | (mi', Ok i) => (mi_last mi', i) :: mult_run f mi'
           | _ => []
           end
  end.
