(* KernelSem.v — what the canonical templates of Kernel.v compute.

   An interpreter for the kernel AST over an ABSTRACT element type V (section variables give the
   meaning of the scalar operators, of literals and of the opaque library calls), and lemmas that
   say, schema by schema, which function of the input slices the template body computes.

   Modelling decisions (documented limits):
   - a slice is a Coq list; two slice variables never alias (Go callers may pass overlapping
     slices; that case is outside these lemmas);
   - a run-time panic (index out of range, bad re-slice) is [None]; so is running out of fuel in an
     unbounded `for { }`;
   - an Iterator is the list of (index, valid) pairs it will still deliver; when the list is
     exhausted NextValidity returns a NoOp error, which handleNoOp turns into nil. *)
From Coq Require Import String Ascii.
From TV Require Import Base Kernel.
Open Scope string_scope.
Open Scope Z_scope.

Section Sem.

Variable V : Type.
Variable bop : binop -> V -> V -> V.          (* + - * / % on elements *)
Variable cmpop : binop -> V -> V -> bool.     (* == != < <= > >= on elements *)
Variable negV : V -> V.                       (* unary minus *)
Variable fcall : string -> list V -> V.       (* math32.F, math.F, cmplx.F, fn: opaque named primitives *)
Variable lit : string -> V.                   (* numeric literal at the element type *)
Variable slit : string -> V.                  (* string literal at the element type *)
Variable conv : kty -> V -> V.                (* conversions T(x), complex128(x), ... *)

Inductive errv := ENil | ENoOp | EOther.

Inductive val :=
| VE (x : V)                     (* an element *)
| VS (l : list V)                (* []T *)
| VI (z : Z)                     (* int *)
| VB (b : bool)
| VBs (l : list bool)            (* []bool *)
| VIt (l : list (Z * bool))      (* Iterator: what NextValidity will still return *)
| VErr (e : errv)
| VIdxs (l : list Z)             (* errorIndices *)
| VLit (s : string)              (* untyped numeric constant *)
| VNil.

Definition env := list (string * val).

Fixpoint get (e : env) (x : string) : option val :=
  match e with
  | [] => None
  | (y, v) :: r => if String.eqb y x then Some v else get r x
  end.

(* replace in place, or append: environments keep a canonical shape *)
Fixpoint bind (x : string) (v : val) (e : env) : env :=
  match e with
  | [] => [(x, v)]
  | (y, w) :: r => if String.eqb y x then (y, v) :: r else (y, w) :: bind x v r
  end.

Inductive outcome :=
| ONormal (e : env)
| OContinue (e : env)
| OBreak (e : env)
| OReturn (e : env) (vs : list val).

Definition zlit (s : string) : option Z :=
  if String.eqb s "0" then Some 0 else if String.eqb s "1" then Some 1 else None.

Definition is_arith (o : binop) : bool :=
  match o with OAdd | OSub | OMul | ODiv | OMod => true | _ => false end.
Definition is_cmp (o : binop) : bool :=
  match o with OEq | ONe | OLt | OLe | OGt | OGe => true | _ => false end.

Definition zarith (o : binop) (x y : Z) : option Z :=
  match o with
  | OAdd => Some (x + y) | OSub => Some (x - y) | OMul => Some (x * y)
  | ODiv => if y =? 0 then None else Some (Z.quot x y)
  | OMod => if y =? 0 then None else Some (Z.rem x y)
  | _ => None
  end.
Definition zcmp (o : binop) (x y : Z) : option bool :=
  match o with
  | OEq => Some (x =? y) | ONe => Some (negb (x =? y)) | OLt => Some (x <? y) | OLe => Some (x <=? y)
  | OGt => Some (y <? x) | OGe => Some (y <=? x)
  | _ => None
  end.

Definition binV (o : binop) (x y : V) : option val :=
  if is_arith o then Some (VE (bop o x y)) else if is_cmp o then Some (VB (cmpop o x y)) else None.
Definition binZ (o : binop) (x y : Z) : option val :=
  if is_arith o then option_map VI (zarith o x y) else option_map VB (zcmp o x y).

Definition eval_bin (o : binop) (a b : val) : option val :=
  match a, b with
  | VE x, VE y => binV o x y
  | VE x, VLit s => binV o x (lit s)
  | VLit s, VE y => binV o (lit s) y
  | VI x, VI y => binZ o x y
  | VI x, VLit s => match zlit s with Some y => binZ o x y | None => None end
  | VLit s, VI y => match zlit s with Some x => binZ o x y | None => None end
  | VB x, VB y => match o with
                  | OAnd => Some (VB (x && y)) | OOr => Some (VB (x || y))
                  | OEq => Some (VB (Bool.eqb x y)) | ONe => Some (VB (negb (Bool.eqb x y)))
                  | _ => None end
  | VErr e, VNil => match o with
                    | ONe => Some (VB (match e with ENil => false | _ => true end))
                    | OEq => Some (VB (match e with ENil => true | _ => false end))
                    | _ => None end
  | _, _ => None
  end.

Definition as_elem (v : val) : option V :=
  match v with VE x => Some x | VLit s => Some (lit s) | _ => None end.

Fixpoint all_some {A} (l : list (option A)) : option (list A) :=
  match l with
  | [] => Some []
  | Some a :: r => option_map (cons a) (all_some r)
  | None :: _ => None
  end.

Definition handle_noop (e : errv) : errv := match e with ENoOp => ENil | _ => e end.

Fixpoint eval (e : env) (x : kexpr) : option val :=
  match x with
  | Var n => if String.eqb n "nil" then Some VNil
             else if String.eqb n "true" then Some (VB true)
             else if String.eqb n "false" then Some (VB false)
             else get e n
  | Lit s => Some (VLit s)
  | StrLit s => Some (VE (slit s))
  | Idx a i =>
      match eval e a, eval e i with
      | Some (VS l), Some (VI z) => option_map VE (zget l z)
      | Some (VBs l), Some (VI z) => option_map VB (zget l z)
      | _, _ => None
      end
  | Un UNeg a => match eval e a with
                 | Some (VE v) => Some (VE (negV v))
                 | Some (VLit s) => Some (VLit ("-" ++ s))
                 | _ => None end
  | Un UNot a => match eval e a with Some (VB b) => Some (VB (negb b)) | _ => None end
  | Bin o a b => match eval e a, eval e b with Some va, Some vb => eval_bin o va vb | _, _ => None end
  | Call f args =>
      if String.eqb f "handleNoOp" then
        match args with
        | [a] => match eval e a with Some (VErr r) => Some (VErr (handle_noop r)) | _ => None end
        | _ => None
        end
      else
        match all_some (map (fun a => match eval e a with Some v => as_elem v | None => None end) args) with
        | Some xs => Some (VE (fcall f xs))
        | None => None
        end
  | Conv t a => match eval e a with Some v => option_map (fun y => VE (conv t y)) (as_elem v) | None => None end
  | Len a => match eval e a with
             | Some (VS l) => Some (VI (zlen l)) | Some (VBs l) => Some (VI (zlen l)) | Some (VIdxs l) => Some (VI (zlen l))
             | _ => None end
  | Slice a ENone hi =>
      match eval e a with
      | Some (VS l) =>
          match hi with
          | ENone => Some (VS l)
          | _ => match eval e hi with
                 | Some (VI h) => if (0 <=? h) && (h <=? zlen l) then Some (VS (firstn (Z.to_nat h) l)) else None
                 | _ => None end
          end
      | Some (VBs l) =>
          match hi with
          | ENone => Some (VBs l)
          | _ => match eval e hi with
                 | Some (VI h) => if (0 <=? h) && (h <=? zlen l) then Some (VBs (firstn (Z.to_nat h) l)) else None
                 | _ => None end
          end
      | _ => None
      end
  | _ => None
  end.

(* store v in variable x, typing an untyped constant after the current content *)
Definition assign_var (e : env) (x : string) (v : val) : option env :=
  match v, get e x with
  | VLit s, Some (VE _) => Some (bind x (VE (lit s)) e)
  | VLit s, Some (VI _) => option_map (fun z => bind x (VI z) e) (zlit s)
  | VLit _, _ => None
  | _, _ => Some (bind x v e)
  end.

Definition assign_idx (e : env) (x : string) (i : Z) (v : val) : option env :=
  match get e x, v with
  | Some (VS l), VE y => option_map (fun l' => bind x (VS l') e) (zset l i y)
  | Some (VS l), VLit s => option_map (fun l' => bind x (VS l') e) (zset l i (lit s))
  | Some (VBs l), VB b => option_map (fun l' => bind x (VBs l') e) (zset l i b)
  | _, _ => None
  end.

Definition assign (e : env) (l : kexpr) (v : val) : option env :=
  match l with
  | Var x => assign_var e x v
  | Idx (Var x) ie => match eval e ie with Some (VI i) => assign_idx e x i v | _ => None end
  | _ => None
  end.

Definition zero_of (t : kty) : option val :=
  match t with
  | TInt => Some (VI 0)
  | TBool => Some (VB false)
  | TT => Some (VE (lit "0"))
  | TNamed n => if String.eqb n "errorIndices" then Some (VIdxs []) else None
  | _ => None
  end.

(* "ait.NextValidity" -> Some "ait" *)
Definition iterator_of (f : string) : option string :=
  match index 0 "." f with
  | Some n => if String.eqb (substring (S n) (String.length f - S n) f) "NextValidity" then Some (substring 0 n f) else None
  | None => None
  end.

(* sequencing: go on only after normal completion *)
Definition bindO (o : option outcome) (k : env -> option outcome) : option outcome :=
  match o with Some (ONormal e) => k e | _ => o end.

Definition seq_exec (ex : kstmt -> env -> option outcome) : list kstmt -> env -> option outcome :=
  fix go l e :=
    match l with
    | [] => Some (ONormal e)
    | s :: r => bindO (ex s e) (go r)
    end.

(* for k := range <cnt elements>, body given as a function of the environment *)
Fixpoint range_iter (run : env -> option outcome) (k : string) (cnt : nat) (i : Z) (e : env) : option outcome :=
  match cnt with
  | O => Some (ONormal e)
  | S c =>
      match run (bind k (VI i) e) with
      | Some (ONormal e') | Some (OContinue e') => range_iter run k c (i + 1) e'
      | Some (OBreak e') => Some (ONormal e')
      | o => o
      end
  end.

(* for _, v := range x / for k, v := range x : v is read from the live slice *)
Fixpoint range_iter_v (run : env -> option outcome) (rd : env -> Z -> option val) (k v : string) (cnt : nat) (i : Z) (e : env) : option outcome :=
  match cnt with
  | O => Some (ONormal e)
  | S c =>
      match rd e i with
      | None => None
      | Some x =>
        let e0 := if String.eqb k "_" then e else bind k (VI i) e in
        match run (bind v x e0) with
        | Some (ONormal e') | Some (OContinue e') => range_iter_v run rd k v c (i + 1) e'
        | Some (OBreak e') => Some (ONormal e')
        | o => o
        end
      end
  end.

Fixpoint loop_iter (run : env -> option outcome) (fuel : nat) (e : env) : option outcome :=
  match fuel with
  | O => None
  | S n =>
      match run e with
      | Some (ONormal e') | Some (OContinue e') => loop_iter run n e'
      | Some (OBreak e') => Some (ONormal e')
      | o => o
      end
  end.

Fixpoint forc_iter (cond : env -> option bool) (run post : env -> option outcome) (fuel : nat) (e : env) : option outcome :=
  match fuel with
  | O => None
  | S n =>
      match cond e with
      | Some true =>
          match run e with
          | Some (ONormal e') | Some (OContinue e') =>
              match post e' with Some (ONormal e'') => forc_iter cond run post n e'' | _ => None end
          | Some (OBreak e') => Some (ONormal e')
          | o => o
          end
      | Some false => Some (ONormal e)
      | None => None
      end
  end.

Definition cond_of (e : env) (c : kexpr) : option bool :=
  match eval e c with Some (VB b) => Some b | _ => None end.

Fixpoint exec_stmt (fuel : nat) (s : kstmt) (e : env) {struct s} : option outcome :=
  match s with
  | Skip => Some (ONormal e)
  | Range k v x body =>
      match eval e x with
      | Some xs =>
          match (match xs with VS l => Some (length l) | VBs l => Some (length l) | _ => None end) with
          | Some n =>
              if String.eqb v "" then range_iter (seq_exec (exec_stmt fuel) body) k n 0 e
              else range_iter_v (seq_exec (exec_stmt fuel) body)
                     (fun e' i => match eval e' x with
                                  | Some (VS l) => option_map VE (zget l i)
                                  | Some (VBs l) => option_map VB (zget l i)
                                  | _ => None end) k v n 0 e
          | None => None
          end
      | None => None
      end
  | Loop body => loop_iter (seq_exec (exec_stmt fuel) body) fuel e
  | ForC init c post body =>
      bindO (exec_stmt fuel init e) (fun e1 =>
          forc_iter (fun e' => cond_of e' c) (seq_exec (exec_stmt fuel) body) (exec_stmt fuel post) fuel e1)
  | If init c th el =>
      bindO (exec_stmt fuel init e) (fun e1 =>
          match cond_of e1 c with
          | Some true => seq_exec (exec_stmt fuel) th e1
          | Some false => seq_exec (exec_stmt fuel) el e1
          | None => None
          end)
  | Assign l r => match eval e r with Some v => option_map ONormal (assign e l v) | None => None end
  | AssignN ls r =>
      match ls, r with
      | [Var i; Var vd; Var er], Call f [] =>
          match iterator_of f with
          | Some it =>
              match get e it with
              | Some (VIt ((z, b) :: rest)) =>
                  Some (ONormal (bind it (VIt rest) (bind er (VErr ENil) (bind vd (VB b) (bind i (VI z) e)))))
              | Some (VIt []) => Some (ONormal (bind er (VErr ENoOp) (bind vd (VB false) (bind i (VI (-1)) e))))
              | _ => None
              end
          | None => None
          end
      | _, _ => None
      end
  | Define xs r =>
      match xs with
      | [x] => match eval e r with Some (VLit _) => None | Some v => Some (ONormal (bind x v e)) | None => None end
      | _ => None
      end
  | OpAssign o l r =>
      match eval e l, eval e r with
      | Some vl, Some vr => match eval_bin o vl vr with Some v => option_map ONormal (assign e l v) | None => None end
      | _, _ => None
      end
  | IncDec inc l =>
      match eval e l with
      | Some (VI z) => option_map ONormal (assign e l (VI (if inc then z + 1 else z - 1)))
      | _ => None
      end
  | Continue => Some (OContinue e)
  | Break => Some (OBreak e)
  | Return es => option_map (OReturn e) (all_some (map (eval e) es))
  | VarDecl xs t init =>
      match init with
      | [] => option_map (fun z => ONormal (fold_left (fun acc x => bind x z acc) xs e)) (zero_of t)
      | [i] => match xs, eval e i, zero_of t with
               | [x], Some (VLit s), Some (VE _) => Some (ONormal (bind x (VE (lit s)) e))
               | [x], Some (VLit s), Some (VI _) => option_map (fun z => ONormal (bind x (VI z) e)) (zlit s)
               | [x], Some (VLit s), _ => None
               | [x], Some v, _ => Some (ONormal (bind x v e))
               | _, _, _ => None
               end
      | _ => None
      end
  | ExprS _ => None          (* calls for effect (vecf32/vecf64 assembly, copy, panic) are not modelled *)
  | AppendErrs x =>
      match eval e x, get e "errs" with
      | Some (VI z), Some (VIdxs l) => Some (ONormal (bind "errs" (VIdxs (l ++ [z])%list) e))
      | _, _ => None
      end
  | Opaque _ => None
  end.

Definition exec (fuel : nat) : list kstmt -> env -> option outcome := seq_exec (exec_stmt fuel).

(* ------------------------------------------------------------------------------------------- *)
(** * Environment algebra *)

Lemma get_bind_eq x v e : get (bind x v e) x = Some v.
Proof.
  induction e as [|[y w] r IH]; simpl.
  - now rewrite String.eqb_refl.
  - destruct (String.eqb y x) eqn:E; simpl; rewrite ?E; auto.
Qed.

Lemma get_bind_neq x y v e : x <> y -> get (bind x v e) y = get e y.
Proof.
  intros N. induction e as [|[z w] r IH]; simpl.
  - destruct (String.eqb x y) eqn:E; auto. apply String.eqb_eq in E. contradiction.
  - destruct (String.eqb z x) eqn:E; simpl.
    + apply String.eqb_eq in E. subst z.
      destruct (String.eqb x y) eqn:E2; [apply String.eqb_eq in E2; contradiction|reflexivity].
    + destruct (String.eqb z y); auto.
Qed.

(** * Loop rules *)

(* invariant rule for `for i := range` over n elements *)
Lemma range_iter_inv (run : env -> option outcome) (k : string) (Inv : nat -> env -> Prop) (n : nat) :
  (forall j e, (j < n)%nat -> Inv j e ->
     exists e', (run (bind k (VI (Z.of_nat j)) e) = Some (ONormal e') \/
                 run (bind k (VI (Z.of_nat j)) e) = Some (OContinue e')) /\ Inv (S j) e') ->
  forall e, Inv O e -> exists e', range_iter run k n 0 e = Some (ONormal e') /\ Inv n e'.
Proof.
  intros Step.
  assert (G : forall m j e, (j + m = n)%nat -> Inv j e ->
              exists e', range_iter run k m (Z.of_nat j) e = Some (ONormal e') /\ Inv n e').
  { induction m as [|m IH]; intros j e Hj HI; simpl.
    - replace n with j by lia. eauto.
    - destruct (Step j e) as [e' [[R|R] HI']]; [lia|assumption| |]; rewrite R;
        replace (Z.of_nat j + 1) with (Z.of_nat (S j)) by lia; apply IH; auto; lia. }
  intros e HI. apply (G n O e); auto.
Qed.

(** * Pure list facts used by the schemas *)

Definition map2 {A B C} (f : A -> B -> C) (la : list A) (lb : list B) : list C :=
  map (fun p => f (fst p) (snd p)) (combine la lb).

Lemma map2_length {A B C} (f : A -> B -> C) la lb :
  (length la <= length lb)%nat -> length (map2 f la lb) = length la.
Proof. intros. unfold map2. rewrite map_length, combine_length. lia. Qed.

Lemma zget_nat {A} (l : list A) (j : nat) : zget l (Z.of_nat j) = nth_error l j.
Proof. unfold zget. destruct (Z.ltb_spec (Z.of_nat j) 0); [lia|]. now rewrite Nat2Z.id. Qed.

Lemma zset_nat {A} (l : list A) (j : nat) v : (j < length l)%nat -> zset l (Z.of_nat j) v = Some (upd l j v).
Proof.
  intros H. unfold zset, zlen.
  destruct (Z.ltb_spec (Z.of_nat j) 0); [lia|]. destruct (Z.leb_spec (Z.of_nat (length l)) (Z.of_nat j)); [lia|].
  simpl. now rewrite Nat2Z.id.
Qed.

(* the list after j rounds of an in-place pointwise loop: new values up to j, old ones from j on *)
Definition mix {A} (j : nat) (new old : list A) : list A := (firstn j new ++ skipn j old)%list.

Lemma mix_0 {A} (new old : list A) : mix 0 new old = old.
Proof. reflexivity. Qed.

Lemma mix_all {A} (new old : list A) : length new = length old -> mix (length old) new old = new.
Proof. intros H. unfold mix. rewrite skipn_all, app_nil_r. rewrite <- H. apply firstn_all. Qed.

Lemma mix_length {A} j (new old : list A) : length new = length old -> length (mix j new old) = length old.
Proof.
  intros H. unfold mix. rewrite app_length, firstn_length, skipn_length. lia.
Qed.

Lemma mix_nth_old {A} j (new old : list A) :
  length new = length old -> (j <= length old)%nat -> nth_error (mix j new old) j = nth_error old j.
Proof.
  intros H Hj. unfold mix. rewrite nth_error_app2; rewrite firstn_length; [|lia].
  replace (j - Nat.min j (length new))%nat with O by lia.
  destruct (skipn j old) eqn:E.
  - simpl. symmetry. apply nth_error_None. 
    assert (length (skipn j old) = 0%nat) by now rewrite E. rewrite skipn_length in H0. lia.
  - simpl. rewrite <- (firstn_skipn j old) at 1. rewrite nth_error_app2; rewrite firstn_length; [|lia].
    replace (j - Nat.min j (length old))%nat with O by lia. now rewrite E.
Qed.

Lemma upd_mid {A} (l1 : list A) x l2 j v : length l1 = j -> upd (l1 ++ x :: l2) j v = (l1 ++ v :: l2)%list.
Proof. revert j. induction l1; intros j H; simpl in *; subst; simpl; auto. f_equal. auto. Qed.

Lemma mix_upd {A} j (new old : list A) v :
  length new = length old -> nth_error new j = Some v -> upd (mix j new old) j v = mix (S j) new old.
Proof.
  intros H Hn. assert (Hj : (j < length new)%nat) by (apply nth_error_Some; congruence).
  unfold mix.
  assert (L : length (firstn j new) = j) by (rewrite firstn_length; lia).
  destruct (skipn j old) eqn:E.
  - assert (L0 : length (skipn j old) = 0%nat) by now rewrite E. rewrite skipn_length in L0. lia.
  - rewrite (upd_mid _ _ _ _ _ L).
    assert (S1 : skipn (S j) old = l).
    { clear - E. revert old E. induction j; intros [|o old] E; simpl in *; try discriminate.
      - now inversion E.
      - auto. }
    rewrite S1.
    assert (F1 : firstn (S j) new = (firstn j new ++ [v])%list).
    { clear - Hn. revert j Hn. induction new; intros [|j] Hn; simpl in *; try discriminate.
      - now inversion Hn.
      - f_equal. auto. }
    rewrite F1, <- app_assoc. reflexivity.
Qed.

Lemma nth_error_map2 {A B C} (f : A -> B -> C) la lb j x y :
  nth_error la j = Some x -> nth_error lb j = Some y -> nth_error (map2 f la lb) j = Some (f x y).
Proof.
  revert lb j. induction la as [|a la IH]; intros [|b lb] [|j] Hx Hy; simpl in *; try discriminate.
  - now inversion Hx; inversion Hy.
  - unfold map2 in IH. apply IH; auto.
Qed.

Fixpoint mapi {A B} (g : nat -> A -> B) (j : nat) (l : list A) : list B :=
  match l with [] => [] | x :: r => g j x :: mapi g (S j) r end.

Lemma mapi_length {A B} (g : nat -> A -> B) j l : length (mapi g j l) = length l.
Proof. revert j. induction l; simpl; auto. Qed.

Lemma mapi_nth {A B} (g : nat -> A -> B) j0 l j x :
  nth_error l j = Some x -> nth_error (mapi g j0 l) j = Some (g (j0 + j)%nat x).
Proof.
  revert j0 j. induction l as [|a l IH]; intros j0 [|j] H; simpl in *; try discriminate.
  - inversion H. now rewrite Nat.add_0_r.
  - rewrite (IH (S j0) j H). f_equal. f_equal. lia.
Qed.

Lemma mapi_ext {A B} (g h : nat -> A -> B) j l :
  (forall k x, nth_error l k = Some x -> g (j + k)%nat x = h (j + k)%nat x) -> mapi g j l = mapi h j l.
Proof.
  revert j. induction l as [|a l IH]; intros j H; simpl; auto. f_equal.
  - specialize (H O a eq_refl). now rewrite Nat.add_0_r in H.
  - apply IH. intros k x Hk. specialize (H (S k) x Hk). now replace (S j + k)%nat with (j + S k)%nat by lia.
Qed.

Lemma mapi_map {A B} (g : A -> B) j l : mapi (fun _ x => g x) j l = map g l.
Proof. revert j. induction l; simpl; intros; f_equal; auto. Qed.

Lemma mapi_map2 {A B C} (f : A -> B -> C) (dflt : A -> C) la lb j0 :
  (length la <= length lb)%nat ->
  mapi (fun j x => match nth_error lb (j - j0) with Some y => f x y | None => dflt x end) j0 la = map2 f la lb.
Proof.
  revert lb j0. induction la as [|a la IH]; intros [|b lb] j0 H; simpl in *; auto; try lia.
  rewrite Nat.sub_diag. simpl.
  change (map2 f (a :: la) (b :: lb)) with (f a b :: map2 f la lb). f_equal.
  rewrite <- (IH lb (S j0)) by lia.
  apply mapi_ext. intros k x _. replace (S j0 + k - j0)%nat with (S k) by lia.
  replace (S j0 + k - S j0)%nat with k by lia. reflexivity.
Qed.

(* ------------------------------------------------------------------------------------------- *)
(** * The flat in-place loop, generically

   `for i := range d { core }` where one round at index j replaces d[j] by G j d[j] and changes
   nothing else ([Keep] is whatever the round needs to know about the other variables). *)
Section Pointwise.
  Context {X : Type}.
  Variable inj : list X -> val.
  Variable d : string.
  Variable run : env -> option outcome.
  Variable G : nat -> X -> X.
  Variable Keep : env -> Prop.
  Variable n : nat.
  Hypothesis d_not_i : d <> "i".
  Hypothesis keep_d : forall v e, Keep e -> Keep (bind d v e).
  Hypothesis keep_i : forall v e, Keep e -> Keep (bind "i" v e).
  Hypothesis round : forall j e l x,
    (j < n)%nat -> get e "i" = Some (VI (Z.of_nat j)) -> get e d = Some (inj l) -> nth_error l j = Some x -> Keep e ->
    run e = Some (ONormal (bind d (inj (upd l j (G j x))) e)) \/
    run e = Some (OContinue (bind d (inj (upd l j (G j x))) e)).

  Lemma range_pointwise (old : list X) (e : env) :
    length old = n -> get e d = Some (inj old) -> Keep e ->
    exists e', range_iter run "i" n 0 e = Some (ONormal e') /\ get e' d = Some (inj (mapi G 0 old)) /\ Keep e'.
  Proof.
    intros Hn Hd Hk.
    set (new := mapi G 0 old).
    assert (Ln : length new = length old) by apply mapi_length.
    destruct (range_iter_inv run "i" (fun j e => get e d = Some (inj (mix j new old)) /\ Keep e) n) with (e := e)
      as [e' [R [I1 I2]]].
    - intros j e0 Hj [Hd0 Hk0].
      assert (exists x, nth_error old j = Some x) as [x Hx].
      { destruct (nth_error old j) eqn:E; eauto. apply nth_error_None in E. lia. }
      assert (Hm : nth_error (mix j new old) j = Some x) by (rewrite mix_nth_old; auto; lia).
      assert (Hnew : nth_error new j = Some (G j x)) by (unfold new; rewrite (mapi_nth _ _ _ _ _ Hx); reflexivity).
      pose proof (round j (bind "i" (VI (Z.of_nat j)) e0) (mix j new old) x Hj (get_bind_eq _ _ _)) as Rd.
      rewrite get_bind_neq in Rd by congruence.
      specialize (Rd Hd0 Hm (keep_i _ _ Hk0)).
      rewrite (mix_upd _ _ _ _ Ln Hnew) in Rd.
      eexists. split; [exact Rd|]. split; [apply get_bind_eq|]. apply keep_d, keep_i, Hk0.
    - split; auto.
    - exists e'. split; [exact R|]. split; auto. rewrite <- Hn in I1. now rewrite mix_all in I1.
  Qed.
End Pointwise.

(* ------------------------------------------------------------------------------------------- *)
(** * Stepping rules *)

Lemma exec_nil fuel e : exec fuel [] e = Some (ONormal e).
Proof. reflexivity. Qed.

Lemma exec_cons fuel s r e : exec fuel (s :: r) e = bindO (exec_stmt fuel s e) (exec fuel r).
Proof. reflexivity. Qed.

Lemma bindO_normal e k : bindO (Some (ONormal e)) k = k e.
Proof. reflexivity. Qed.

Lemma bindO_ret o : bindO o (fun e => Some (ONormal e)) = o.
Proof. destruct o as [[]|]; reflexivity. Qed.

Lemma exec_single fuel s e : exec fuel [s] e = exec_stmt fuel s e.
Proof. rewrite exec_cons. apply bindO_ret. Qed.

Lemma exec_range_VS fuel k x body e l :
  eval e x = Some (VS l) ->
  exec_stmt fuel (Range k "" x body) e = range_iter (exec fuel body) k (length l) 0 e.
Proof. intros H. simpl. now rewrite H. Qed.

Lemma exec_range_VBs fuel k x body e l :
  eval e x = Some (VBs l) ->
  exec_stmt fuel (Range k "" x body) e = range_iter (exec fuel body) k (length l) 0 e.
Proof. intros H. simpl. now rewrite H. Qed.

Global Opaque bindO.

(* ------------------------------------------------------------------------------------------- *)
(** * Scalar operations *)

(* f is a syntactic scalar operation whose meaning on elements is F *)
Definition sop_sem (f : kexpr -> kexpr -> kexpr) (F : V -> V -> V) : Prop :=
  forall e x y vx vy, eval e x = Some (VE vx) -> eval e y = Some (VE vy) -> eval e (f x y) = Some (VE (F vx vy)).

Lemma sop_sem_bin o : is_arith o = true -> sop_sem (Bin o) (bop o).
Proof. intros H e x y vx vy Hx Hy. simpl. rewrite Hx, Hy. simpl. unfold binV. now rewrite H. Qed.

Lemma eval_ix e a i l j x :
  get e a = Some (VS l) -> get e i = Some (VI (Z.of_nat j)) -> nth_error l j = Some x ->
  a <> "nil" -> a <> "true" -> a <> "false" -> i <> "nil" -> i <> "true" -> i <> "false" ->
  eval e (ix a i) = Some (VE x).
Proof.
  intros Ha Hi Hx N1 N2 N3 N4 N5 N6. unfold ix. simpl.
  repeat match goal with
         | H : ?s <> ?t |- context [String.eqb ?s ?t] =>
             let E := fresh in destruct (String.eqb s t) eqn:E; [apply String.eqb_eq in E; contradiction|]
         end.
  rewrite Ha, Hi, zget_nat, Hx. reflexivity.
Qed.

Lemma reslice_ok {A B} (la : list A) (lb : list B) :
  (length la <= length lb)%nat -> (0 <=? zlen la) && (zlen la <=? zlen lb) = true.
Proof.
  intros H. unfold zlen. apply andb_true_iff. split; [apply Z.leb_le|apply Z.leb_le]; lia.
Qed.

Lemma to_nat_zlen {A} (l : list A) : Z.to_nat (zlen l) = length l.
Proof. unfold zlen. apply Nat2Z.id. Qed.

Arguments exec : simpl never.
Arguments seq_exec : simpl never.
Arguments range_iter : simpl never.
Arguments range_iter_v : simpl never.
Arguments loop_iter : simpl never.
Arguments forc_iter : simpl never.

Ltac fold_exec := repeat match goal with |- context [seq_exec (exec_stmt ?fu) ?b] => change (seq_exec (exec_stmt fu) b) with (exec fu b) end.

Lemma map2_firstn {A B C} (f : A -> B -> C) la lb :
  map2 f la (firstn (length la) lb) = map2 f la lb.
Proof.
  unfold map2. f_equal. revert lb. induction la; intros [|b lb]; simpl; auto. f_equal. auto.
Qed.

Lemma neq_str (a b : string) : String.eqb a b = false -> a <> b.
Proof. intros H E. apply String.eqb_eq in E. congruence. Qed.

Ltac str_neq := apply neq_str; reflexivity.

Theorem tmpl_vv_sem fuel f F la lb :
  sop_sem f F -> (length la <= length lb)%nat ->
  exists e', exec fuel (build (sh_loop sh_vv) false (arith_core false false f sh_vv (sh_dst sh_vv)))
                  [("a", VS la); ("b", VS lb)] = Some (ONormal e')
    /\ get e' "a" = Some (VS (map2 F la lb)) /\ get e' "b" = Some (VS (firstn (length la) lb)).
Proof.
  intros Hf Hl.
  unfold build, sh_vv, sh_loop, arith_core, sh_dst, sh_x, sh_y. cbn [List.app].
  rewrite exec_cons. cbn. rewrite bindO_normal.
  rewrite exec_cons. cbn. rewrite (reslice_ok la lb Hl), to_nat_zlen. cbn. rewrite bindO_normal.
  rewrite exec_single. cbn. fold_exec.
  set (lb' := firstn (length la) lb).
  assert (Lb : length lb' = length la) by (unfold lb'; rewrite firstn_length; lia).
  destruct (range_pointwise VS "a" (exec fuel [Assign (ix "a" "i") (f (ix "a" "i") (ix "b" "i"))])
              (fun j x => match nth_error lb' (j - 0) with Some y => F x y | None => x end)
              (fun e => get e "b" = Some (VS lb')) (length la)) with (old := la) (e := [("a", VS la); ("b", VS lb')])
    as [e' [R [Ha Hb]]]; try reflexivity.
  - str_neq.
  - intros v e H. rewrite get_bind_neq by str_neq. exact H.
  - intros v e H. rewrite get_bind_neq by str_neq. exact H.
  - intros j e l x Hj Hi Hd Hx Hk. left.
    assert (exists y, nth_error lb' j = Some y) as [y Hy].
    { destruct (nth_error lb' j) eqn:E; eauto. apply nth_error_None in E. lia. }
    rewrite exec_single. cbn [exec_stmt].
    rewrite (Hf e _ _ x y); [| eapply eval_ix; eauto; str_neq | eapply eval_ix; eauto; str_neq].
    cbn. rewrite Hi. unfold assign_idx. rewrite Hd.
    rewrite zset_nat by (apply nth_error_Some; congruence).
    rewrite Nat.sub_0_r, Hy. reflexivity.
  - exists e'. split; [exact R|]. split; [|exact Hb].
    rewrite Ha. f_equal. f_equal. rewrite mapi_map2 by lia. apply map2_firstn.
Qed.

Ltac keep_tac := intros ? ? ?; repeat split; repeat match goal with H : _ /\ _ |- _ => destruct H end;
                  rewrite get_bind_neq by str_neq; assumption.

Lemma nth_some {A} (l : list A) j : (j < length l)%nat -> exists x, nth_error l j = Some x.
Proof. intros H. destruct (nth_error l j) eqn:E; eauto. apply nth_error_None in E. lia. Qed.

(* vector-scalar: a[i] = a[i] op b   — the scalar is the RIGHT operand *)
Theorem tmpl_vs_sem fuel f F la s :
  sop_sem f F ->
  exists e', exec fuel (build (sh_loop sh_vs) false (arith_core false false f sh_vs (sh_dst sh_vs)))
                  [("a", VS la); ("b", VE s)] = Some (ONormal e')
    /\ get e' "a" = Some (VS (map (fun x => F x s) la)) /\ get e' "b" = Some (VE s).
Proof.
  intros Hf.
  unfold build, sh_vs, sh_loop, arith_core, sh_dst, sh_x, sh_y. cbn [List.app].
  rewrite exec_single. cbn. fold_exec.
  destruct (range_pointwise VS "a" (exec fuel [Assign (ix "a" "i") (f (ix "a" "i") (Var "b"))])
              (fun _ x => F x s) (fun e => get e "b" = Some (VE s)) (length la))
    with (old := la) (e := [("a", VS la); ("b", VE s)]) as [e' [R [Ha Hb]]]; try reflexivity.
  - str_neq.
  - keep_tac.
  - keep_tac.
  - intros j e l x Hj Hi Hd Hx Hk. left.
    rewrite exec_single. cbn [exec_stmt].
    rewrite (Hf e _ _ x s); [| eapply eval_ix; eauto; str_neq | cbn; exact Hk].
    cbn. rewrite Hi. unfold assign_idx. rewrite Hd.
    rewrite zset_nat by (apply nth_error_Some; congruence). reflexivity.
  - exists e'. split; [exact R|]. split; [|exact Hb]. rewrite Ha, mapi_map. reflexivity.
Qed.

(* scalar-vector: b[i] = a op b[i]   — the scalar is the LEFT operand *)
Theorem tmpl_sv_sem fuel f F s lb :
  sop_sem f F ->
  exists e', exec fuel (build (sh_loop sh_sv) false (arith_core false false f sh_sv (sh_dst sh_sv)))
                  [("a", VE s); ("b", VS lb)] = Some (ONormal e')
    /\ get e' "b" = Some (VS (map (fun y => F s y) lb)) /\ get e' "a" = Some (VE s).
Proof.
  intros Hf.
  unfold build, sh_sv, sh_loop, arith_core, sh_dst, sh_x, sh_y. cbn [List.app].
  rewrite exec_single. cbn. fold_exec.
  destruct (range_pointwise VS "b" (exec fuel [Assign (ix "b" "i") (f (Var "a") (ix "b" "i"))])
              (fun _ y => F s y) (fun e => get e "a" = Some (VE s)) (length lb))
    with (old := lb) (e := [("a", VE s); ("b", VS lb)]) as [e' [R [Ha Hb]]]; try reflexivity.
  - str_neq.
  - keep_tac.
  - keep_tac.
  - intros j e l x Hj Hi Hd Hx Hk. left.
    rewrite exec_single. cbn [exec_stmt].
    rewrite (Hf e _ _ s x); [| cbn; exact Hk | eapply eval_ix; eauto; str_neq].
    cbn. rewrite Hi. unfold assign_idx. rewrite Hd.
    rewrite zset_nat by (apply nth_error_Some; congruence). reflexivity.
  - exists e'. split; [exact R|]. split; [|exact Hb]. rewrite Ha, mapi_map. reflexivity.
Qed.

(* incr[i] += a[i] op b[i] *)
Theorem tmpl_incr_vv_sem fuel f F la lb lc :
  sop_sem f F -> (length la <= length lb)%nat -> (length la <= length lc)%nat ->
  exists e', exec fuel (build (sh_loop sh_incr) false (arith_core true false f sh_incr (sh_dst sh_incr)))
                  [("a", VS la); ("b", VS lb); ("incr", VS lc)] = Some (ONormal e')
    /\ get e' "incr" = Some (VS (map2 (bop OAdd) (firstn (length la) lc) (map2 F la lb)))
    /\ get e' "a" = Some (VS la).
Proof.
  intros Hf Hl Hc.
  unfold build, sh_incr, sh_loop, arith_core, sh_dst, sh_x, sh_y. cbn [List.app].
  rewrite exec_cons. cbn. rewrite bindO_normal.
  rewrite exec_cons. cbn. rewrite (reslice_ok la lb Hl), to_nat_zlen. cbn. rewrite bindO_normal.
  rewrite exec_cons. cbn. rewrite (reslice_ok la lc Hc), to_nat_zlen. cbn. rewrite bindO_normal.
  rewrite exec_single. cbn. fold_exec.
  set (lb' := firstn (length la) lb). set (lc' := firstn (length la) lc).
  assert (Lb : length lb' = length la) by (unfold lb'; rewrite firstn_length; lia).
  assert (Lc : length lc' = length la) by (unfold lc'; rewrite firstn_length; lia).
  set (ab := map2 F la lb').
  assert (Lab : length ab = length la) by (unfold ab; rewrite map2_length; lia).
  destruct (range_pointwise VS "incr"
              (exec fuel [OpAssign OAdd (ix "incr" "i") (f (ix "a" "i") (ix "b" "i"))])
              (fun j z => match nth_error ab (j - 0) with Some w => bop OAdd z w | None => z end)
              (fun e => get e "a" = Some (VS la) /\ get e "b" = Some (VS lb')) (length lc'))
    with (old := lc') (e := [("a", VS la); ("b", VS lb'); ("incr", VS lc')]) as [e' [R [Ha Hb]]]; try reflexivity.
  - str_neq.
  - keep_tac.
  - keep_tac.
  - intros j e l z Hj Hi Hd Hz [Hka Hkb]. left.
    destruct (nth_some la j) as [x Hx]; [lia|]. destruct (nth_some lb' j) as [y Hy]; [lia|].
    rewrite exec_single. cbn [exec_stmt].
    rewrite (eval_ix e "incr" "i" l j z) by (auto; str_neq).
    rewrite (Hf e _ _ x y); [| eapply eval_ix; eauto; str_neq | eapply eval_ix; eauto; str_neq].
    cbn. rewrite Hi. unfold assign_idx. rewrite Hd.
    rewrite zset_nat by (apply nth_error_Some; congruence).
    rewrite Nat.sub_0_r. unfold ab. rewrite (nth_error_map2 F la lb' j x y Hx Hy). reflexivity.
  - split; reflexivity.
  - exists e'. split; [exact R|]. split; [|apply Hb].
    rewrite Ha. f_equal. f_equal. rewrite mapi_map2 by lia. unfold ab, lb'. now rewrite map2_firstn.
Qed.

Lemma mapi_overwrite {A B} (cs : list B) (dflt : A -> B) (l : list A) j0 :
  length l = length cs ->
  mapi (fun j z => match nth_error cs (j - j0) with Some c => c | None => dflt z end) j0 l = cs.
Proof.
  revert cs j0. induction l as [|a l IH]; intros [|c cs] j0 H; simpl in *; try discriminate; auto.
  rewrite Nat.sub_diag. simpl. f_equal.
  transitivity (mapi (fun j z => match nth_error cs (j - S j0) with Some c0 => c0 | None => dflt z end) (S j0) l);
    [|apply IH; lia].
  apply mapi_ext. intros k x _. replace (S j0 + k - j0)%nat with (S k) by lia.
  replace (S j0 + k - S j0)%nat with k by lia. reflexivity.
Qed.

(* comparison into a []bool: retVal[i] = a[i] op b[i] *)
Theorem tmpl_cmp_sem fuel o la lb lr :
  is_cmp o = true -> (length la <= length lb)%nat -> (length la <= length lr)%nat ->
  exists e', exec fuel (build (sh_loop sh_cmp) false [Assign (sh_dst sh_cmp) (Bin o (sh_x sh_cmp) (sh_y sh_cmp))])
                  [("a", VS la); ("b", VS lb); ("retVal", VBs lr)] = Some (ONormal e')
    /\ get e' "retVal" = Some (VBs (map2 (cmpop o) la lb)) /\ get e' "a" = Some (VS la).
Proof.
  intros Ho Hl Hr.
  unfold build, sh_cmp, sh_loop, sh_dst, sh_x, sh_y. cbn [List.app].
  rewrite exec_cons. cbn. rewrite bindO_normal.
  rewrite exec_cons. cbn. rewrite (reslice_ok la lb Hl), to_nat_zlen. cbn. rewrite bindO_normal.
  rewrite exec_cons. cbn. rewrite (reslice_ok la lr Hr), to_nat_zlen. cbn. rewrite bindO_normal.
  rewrite exec_single. cbn. fold_exec.
  set (lb' := firstn (length la) lb). set (lr' := firstn (length la) lr).
  assert (Lb : length lb' = length la) by (unfold lb'; rewrite firstn_length; lia).
  assert (Lr : length lr' = length la) by (unfold lr'; rewrite firstn_length; lia).
  set (cs := map2 (cmpop o) la lb').
  assert (Lcs : length cs = length la) by (unfold cs; rewrite map2_length; lia).
  destruct (range_pointwise VBs "retVal"
              (exec fuel [Assign (ix "retVal" "i") (Bin o (ix "a" "i") (ix "b" "i"))])
              (fun j z => match nth_error cs (j - 0) with Some c => c | None => z end)
              (fun e => get e "a" = Some (VS la) /\ get e "b" = Some (VS lb')) (length lr'))
    with (old := lr') (e := [("a", VS la); ("b", VS lb'); ("retVal", VBs lr')]) as [e' [R [Ha Hb]]]; try reflexivity.
  - str_neq.
  - keep_tac.
  - keep_tac.
  - intros j e l z Hj Hi Hd Hz [Hka Hkb]. left.
    destruct (nth_some la j) as [x Hx]; [lia|]. destruct (nth_some lb' j) as [y Hy]; [lia|].
    rewrite exec_single. cbn [exec_stmt].
    assert (Ev : eval e (Bin o (ix "a" "i") (ix "b" "i")) = Some (VB (cmpop o x y))).
    { cbn [eval]. rewrite (eval_ix e "a" "i" la j x), (eval_ix e "b" "i" lb' j y) by (auto; str_neq).
      cbn. unfold binV. rewrite Ho. destruct o; try discriminate; reflexivity. }
    rewrite Ev. cbn. rewrite Hi. unfold assign_idx. rewrite Hd.
    rewrite zset_nat by (apply nth_error_Some; congruence).
    rewrite Nat.sub_0_r. unfold cs. rewrite (nth_error_map2 (cmpop o) la lb' j x y Hx Hy). reflexivity.
  - split; reflexivity.
  - exists e'. split; [exact R|]. split; [|apply Hb].
    rewrite Ha. f_equal. f_equal. rewrite mapi_overwrite by lia. unfold cs, lb'. now rewrite map2_firstn.
Qed.

(* comparison written back into the operand: if a[i] op b[i] { a[i] = 1 } else { a[i] = 0 } *)
Theorem tmpl_same_sem fuel o la lb :
  is_cmp o = true -> (length la <= length lb)%nat ->
  exists e', exec fuel (build (sh_loop sh_vv) false
                    [If Skip (Bin o (sh_x sh_vv) (sh_y sh_vv)) [Assign (sh_dst sh_vv) (Lit "1")] [Assign (sh_dst sh_vv) (Lit "0")]])
                  [("a", VS la); ("b", VS lb)] = Some (ONormal e')
    /\ get e' "a" = Some (VS (map2 (fun x y => if cmpop o x y then lit "1" else lit "0") la lb)).
Proof.
  intros Ho Hl.
  unfold build, sh_vv, sh_loop, sh_dst, sh_x, sh_y. cbn [List.app].
  rewrite exec_cons. cbn. rewrite bindO_normal.
  rewrite exec_cons. cbn. rewrite (reslice_ok la lb Hl), to_nat_zlen. cbn. rewrite bindO_normal.
  rewrite exec_single. cbn. fold_exec.
  set (lb' := firstn (length la) lb).
  assert (Lb : length lb' = length la) by (unfold lb'; rewrite firstn_length; lia).
  set (Fs := fun x y => if cmpop o x y then lit "1" else lit "0").
  destruct (range_pointwise VS "a"
              (exec fuel [If Skip (Bin o (ix "a" "i") (ix "b" "i")) [Assign (ix "a" "i") (Lit "1")] [Assign (ix "a" "i") (Lit "0")]])
              (fun j x => match nth_error lb' (j - 0) with Some y => Fs x y | None => x end)
              (fun e => get e "b" = Some (VS lb')) (length la))
    with (old := la) (e := [("a", VS la); ("b", VS lb')]) as [e' [R [Ha Hb]]]; try reflexivity.
  - str_neq.
  - keep_tac.
  - keep_tac.
  - intros j e l x Hj Hi Hd Hx Hk. left.
    destruct (nth_some lb' j) as [y Hy]; [lia|].
    rewrite exec_single. cbn [exec_stmt]. rewrite bindO_normal.
    assert (Ev : cond_of e (Bin o (ix "a" "i") (ix "b" "i")) = Some (cmpop o x y)).
    { unfold cond_of. cbn [eval]. rewrite (eval_ix e "a" "i" l j x), (eval_ix e "b" "i" lb' j y) by (auto; str_neq).
      cbn. unfold binV. rewrite Ho. destruct o; try discriminate; reflexivity. }
    rewrite Ev. rewrite Nat.sub_0_r, Hy. unfold Fs.
    destruct (cmpop o x y); fold_exec; rewrite exec_single; cbn; rewrite Hi; unfold assign_idx; rewrite Hd;
      rewrite zset_nat by (apply nth_error_Some; congruence); reflexivity.
  - exists e'. split; [exact R|].
    rewrite Ha. f_equal. f_equal. rewrite mapi_map2 by lia. apply map2_firstn.
Qed.

(* unary, in place: a[i] = g(a[i]) *)
Definition uop_sem (g : kexpr -> kexpr) (Gf : V -> V) : Prop :=
  forall e x vx, eval e x = Some (VE vx) -> eval e (g x) = Some (VE (Gf vx)).

Lemma uop_sem_neg : uop_sem (Un UNeg) negV.
Proof. intros e x vx H. simpl. now rewrite H. Qed.

Lemma uop_sem_square : uop_sem (fun x => Bin OMul x x) (fun v => bop OMul v v).
Proof. intros e x vx H. simpl. now rewrite H. Qed.

Lemma uop_sem_call c fn : c = F32 \/ c = F64 \/ c = C128 ->
  uop_sem (fun x => mcall c fn [x])
          (fun v => fcall ((match c with F32 => "math32." | F64 => "math." | _ => "cmplx." end) ++ fn) [v]).
Proof.
  intros Hc e x vx H. destruct Hc as [->|[->| ->]]; simpl; rewrite H; reflexivity.
Qed.

Theorem tmpl_unary_sem fuel g Gf la :
  uop_sem g Gf ->
  exists e', exec fuel (build (sh_loop (sh_un [])) false [Assign (sh_dst (sh_un [])) (g (sh_x (sh_un [])))])
                  [("a", VS la)] = Some (ONormal e')
    /\ get e' "a" = Some (VS (map Gf la)).
Proof.
  intros Hg.
  unfold build, sh_un, sh_loop, sh_dst, sh_x. cbn [List.app].
  rewrite exec_single. cbn. fold_exec.
  destruct (range_pointwise VS "a" (exec fuel [Assign (ix "a" "i") (g (ix "a" "i"))])
              (fun _ x => Gf x) (fun _ => True) (length la))
    with (old := la) (e := [("a", VS la)]) as [e' [R [Ha _]]]; try reflexivity; auto.
  - str_neq.
  - intros j e l x Hj Hi Hd Hx _. left.
    rewrite exec_single. cbn [exec_stmt].
    rewrite (Hg e _ x) by (eapply eval_ix; eauto; str_neq).
    cbn. rewrite Hi. unfold assign_idx. rewrite Hd.
    rewrite zset_nat by (apply nth_error_Some; congruence). reflexivity.
  - exists e'. split; [exact R|]. rewrite Ha, mapi_map. reflexivity.
Qed.

(* ------------------------------------------------------------------------------------------- *)
(** * The iterator schema (two operands, result into the first) *)

(* what the loop must compute: walk the two index sequences in lock step, stop when either ends,
   and in the rounds where both positions are valid replace a[i] by F a[i] b[j] *)
Fixpoint iter_spec (F : V -> V -> V) (la lb : list V) (ia ib : list (Z * bool)) : option (list V) :=
  match ia, ib with
  | (i, vi) :: ia', (j, vj) :: ib' =>
      if vi && vj then
        match zget la i, zget lb j with
        | Some x, Some y => iter_spec F (upd la (Z.to_nat i) (F x y)) lb ia' ib'
        | _, _ => None                      (* index out of range: panic *)
        end
      else iter_spec F la lb ia' ib'
  | _, _ => Some la
  end.

Definition iter_env (la lb : list V) (ia ib : list (Z * bool)) (zi zj : Z) (bi bj : bool) : env :=
  [("a", VS la); ("b", VS lb); ("ait", VIt ia); ("bit", VIt ib); ("err", VErr ENil);
   ("i", VI zi); ("j", VI zj); ("validi", VB bi); ("validj", VB bj)].

Definition iter_loop_body (f : kexpr -> kexpr -> kexpr) : list kstmt :=
  [next_iter ("i", "ait"); next_iter ("j", "bit");
   If Skip (Bin OAnd (Var "validi") (Var "validj")) [Assign (ix "a" "i") (f (ix "a" "i") (ix "b" "j"))] []].

Lemma zget_zset {A} (l : list A) i x v : zget l i = Some x -> zset l i v = Some (upd l (Z.to_nat i) v).
Proof.
  unfold zget, zset, zlen. destruct (Z.ltb_spec i 0) as [|Hi]; [discriminate|]. intros Hn.
  assert (Hlt : (Z.to_nat i < length l)%nat) by (apply nth_error_Some; congruence).
  destruct (Z.leb_spec (Z.of_nat (length l)) i); [lia|]. reflexivity.
Qed.

Transparent bindO.
Arguments seq_exec ex !l e.
Arguments exec fuel !l e.

Lemma loop_iter_S run n e :
  loop_iter run (S n) e =
  match run e with
  | Some (ONormal e') | Some (OContinue e') => loop_iter run n e'
  | Some (OBreak e') => Some (ONormal e')
  | o => o
  end.
Proof. reflexivity. Qed.

Section IterRounds.
  Variables (fuel0 : nat) (f : kexpr -> kexpr -> kexpr) (F : V -> V -> V).
  Hypothesis Hf : sop_sem f F.

  Ltac run_round := unfold iter_loop_body, iter_env, exec, seq_exec; cbn.

  (* a's iterator is exhausted: NoOp error, turned into nil by handleNoOp, break *)
  Lemma round_a_end la lb ib zi zj bi bj :
    exec fuel0 (iter_loop_body f) (iter_env la lb [] ib zi zj bi bj)
    = Some (OBreak (iter_env la lb [] ib (-1) zj false bj)).
  Proof. run_round. reflexivity. Qed.

  Lemma round_b_end la lb zi' bi' ia zi zj bi bj :
    exec fuel0 (iter_loop_body f) (iter_env la lb ((zi', bi') :: ia) [] zi zj bi bj)
    = Some (OBreak (iter_env la lb ia [] zi' (-1) bi' false)).
  Proof. run_round. reflexivity. Qed.

  Lemma round_skip la lb zi' bi' ia zj' bj' ib zi zj bi bj :
    bi' && bj' = false ->
    exec fuel0 (iter_loop_body f) (iter_env la lb ((zi', bi') :: ia) ((zj', bj') :: ib) zi zj bi bj)
    = Some (ONormal (iter_env la lb ia ib zi' zj' bi' bj')).
  Proof. intros H. run_round. rewrite H. reflexivity. Qed.

  Lemma round_do la lb zi' bi' ia zj' bj' ib zi zj bi bj x y :
    bi' && bj' = true -> zget la zi' = Some x -> zget lb zj' = Some y ->
    exec fuel0 (iter_loop_body f) (iter_env la lb ((zi', bi') :: ia) ((zj', bj') :: ib) zi zj bi bj)
    = Some (ONormal (iter_env (upd la (Z.to_nat zi') (F x y)) lb ia ib zi' zj' bi' bj')).
  Proof.
    intros H Hx Hy. run_round. rewrite H.
    erewrite Hf; [| cbn; rewrite Hx; reflexivity | cbn; rewrite Hy; reflexivity].
    cbn. rewrite (zget_zset _ _ _ _ Hx). reflexivity.
  Qed.
End IterRounds.

Lemma iter_loop_sem fuel0 f F lb :
  sop_sem f F ->
  forall ia ib la zi zj bi bj cnt la',
    iter_spec F la lb ia ib = Some la' -> (length ia < cnt)%nat ->
    exists e', loop_iter (exec fuel0 (iter_loop_body f)) cnt (iter_env la lb ia ib zi zj bi bj) = Some (ONormal e')
               /\ get e' "a" = Some (VS la') /\ get e' "err" = Some (VErr ENil).
Proof.
  intros Hf. induction ia as [|[zi' bi'] ia IH]; intros ib la zi zj bi bj cnt la' Hs Hc;
    (destruct cnt as [|cnt]; [simpl in Hc; lia|]); rewrite loop_iter_S.
  - simpl in Hs. inversion Hs; subst la'. rewrite round_a_end. eexists. split; [reflexivity|]. split; reflexivity.
  - destruct ib as [|[zj' bj'] ib].
    + simpl in Hs. inversion Hs; subst la'. rewrite round_b_end. eexists. split; [reflexivity|]. split; reflexivity.
    + simpl in Hs. simpl in Hc. destruct (bi' && bj') eqn:Hv.
      * destruct (zget la zi') as [x|] eqn:Hx; [|discriminate].
        destruct (zget lb zj') as [y|] eqn:Hy; [|discriminate].
        rewrite (round_do fuel0 f F Hf la lb zi' bi' ia zj' bj' ib zi zj bi bj x y Hv Hx Hy).
        apply IH; [exact Hs|lia].
      * rewrite (round_skip fuel0 f la lb zi' bi' ia zj' bj' ib zi zj bi bj Hv).
        apply IH; [exact Hs|lia].
Qed.

Lemma exec_loop fuel body e : exec_stmt fuel (Loop body) e = loop_iter (exec fuel body) fuel e.
Proof. reflexivity. Qed.

(* the whole template: declarations, loop, `return` (the named result err is nil) *)
Theorem tmpl_iter_vv_sem fuel f F la lb ia ib la' :
  sop_sem f F ->
  iter_spec F la lb ia ib = Some la' -> (length ia < fuel)%nat ->
  exists e', exec fuel (build (sh_loop sh_iter) false (arith_core false false f sh_iter (sh_dst sh_iter)))
                  [("a", VS la); ("b", VS lb); ("ait", VIt ia); ("bit", VIt ib); ("err", VErr ENil)]
             = Some (OReturn e' [])
    /\ get e' "a" = Some (VS la') /\ get e' "err" = Some (VErr ENil).
Proof.
  intros Hf Hs Hfu.
  destruct (iter_loop_sem fuel f F lb Hf ia ib la 0 0 false false fuel la' Hs Hfu) as [e' [R [Ha He]]].
  exists e'. split; [|split; assumption].
  change (build (sh_loop sh_iter) false (arith_core false false f sh_iter (sh_dst sh_iter)))
    with [VarDecl ["i"; "j"] TInt []; VarDecl ["validi"; "validj"] TBool []; Loop (iter_loop_body f); Return []].
  rewrite exec_cons.
  change (exec_stmt fuel (VarDecl ["i"; "j"] TInt []) [("a", VS la); ("b", VS lb); ("ait", VIt ia); ("bit", VIt ib); ("err", VErr ENil)])
    with (Some (ONormal [("a", VS la); ("b", VS lb); ("ait", VIt ia); ("bit", VIt ib); ("err", VErr ENil); ("i", VI 0); ("j", VI 0)])).
  rewrite bindO_normal, exec_cons.
  change (exec_stmt fuel (VarDecl ["validi"; "validj"] TBool []) [("a", VS la); ("b", VS lb); ("ait", VIt ia); ("bit", VIt ib); ("err", VErr ENil); ("i", VI 0); ("j", VI 0)])
    with (Some (ONormal (iter_env la lb ia ib 0 0 false false))).
  rewrite bindO_normal, exec_cons, exec_loop, R, bindO_normal, exec_single.
  reflexivity.
Qed.

(* ------------------------------------------------------------------------------------------- *)
(** * The guarded (integer) division schema, flat vector-vector

   if b[i] == 0 { errs = append(errs, i); a[i] = 0; continue };  a[i] = a[i] / b[i]
   followed by  if err != nil { return }; if len(errs) > 0 { return errs }; return nil *)

Definition isz (y : V) : bool := cmpop OEq y (lit "0").

Fixpoint errs_upto (lb : list V) (j : nat) : list Z :=
  match j with
  | O => []
  | S j' => (errs_upto lb j' ++ match nth_error lb j' with
                                | Some y => if isz y then [Z.of_nat j'] else []
                                | None => [] end)%list
  end.

Definition div_core (f : kexpr -> kexpr -> kexpr) : list kstmt :=
  [If Skip (Bin OEq (ix "b" "i") (Lit "0")) [AppendErrs (Var "i"); Assign (ix "a" "i") (Lit "0"); Continue] [];
   Assign (ix "a" "i") (f (ix "a" "i") (ix "b" "i"))].

Opaque bindO.
Arguments seq_exec : simpl never.
Arguments exec : simpl never.

Lemma div_round fuel f F (la lb' : list V) j e l lerr x y :
  sop_sem f F ->
  get e "i" = Some (VI (Z.of_nat j)) -> get e "a" = Some (VS l) -> get e "b" = Some (VS lb') ->
  get e "errs" = Some (VIdxs lerr) ->
  nth_error l j = Some x -> nth_error lb' j = Some y ->
  exists e', (exec fuel (div_core f) e = Some (ONormal e') \/ exec fuel (div_core f) e = Some (OContinue e'))
    /\ get e' "a" = Some (VS (upd l j (if isz y then lit "0" else F x y)))
    /\ get e' "b" = Some (VS lb')
    /\ get e' "errs" = Some (VIdxs (lerr ++ if isz y then [Z.of_nat j] else [])%list)
    /\ get e' "err" = get e "err".
Proof.
  intros Hf Hi Ha Hb He Hx Hy.
  unfold div_core. rewrite exec_cons. cbn [exec_stmt]. rewrite bindO_normal.
  assert (Ev : cond_of e (Bin OEq (ix "b" "i") (Lit "0")) = Some (isz y)).
  { unfold cond_of. cbn [eval]. rewrite (eval_ix e "b" "i" lb' j y) by (auto; str_neq). reflexivity. }
  rewrite Ev. unfold isz at 1. fold (isz y). destruct (isz y) eqn:Z0.
  - (* zero divisor *)
    fold_exec. rewrite exec_cons. cbn [exec_stmt]. cbn [eval]. cbn. rewrite Hi, He.
    rewrite bindO_normal, exec_cons. cbn [exec_stmt eval]. cbn.
    rewrite !get_bind_neq by str_neq. rewrite Hi. unfold assign_idx. rewrite !get_bind_neq by str_neq. rewrite Ha.
    rewrite zset_nat by (apply nth_error_Some; congruence). cbn. rewrite bindO_normal, exec_single. cbn.
    Transparent bindO. cbn. Opaque bindO.
    eexists. split; [right; reflexivity|].
    repeat split; repeat (first [rewrite get_bind_eq | rewrite get_bind_neq by str_neq]); auto.
  - (* regular round *)
    fold_exec. rewrite exec_nil. Transparent bindO. cbn [bindO]. Opaque bindO.
    rewrite exec_single. cbn [exec_stmt].
    rewrite (Hf e _ _ x y); [| eapply eval_ix; eauto; str_neq | eapply eval_ix; eauto; str_neq].
    cbn. rewrite Hi. unfold assign_idx. rewrite Ha.
    rewrite zset_nat by (apply nth_error_Some; congruence). cbn.
    eexists. split; [left; reflexivity|].
    repeat split; repeat (first [rewrite get_bind_eq | rewrite get_bind_neq by str_neq]); rewrite ?app_nil_r; auto.
Qed.

Theorem tmpl_div_vv_sem fuel f F la lb :
  sop_sem f F -> (length la <= length lb)%nat ->
  let errs := errs_upto (firstn (length la) lb) (length la) in
  exists e', exec fuel (build (sh_loop sh_vv) true (arith_core false true f sh_vv (sh_dst sh_vv)))
                  [("a", VS la); ("b", VS lb); ("err", VErr ENil)]
             = Some (OReturn e' [match errs with [] => VNil | _ => VIdxs errs end])
    /\ get e' "a" = Some (VS (map2 (fun x y => if isz y then lit "0" else F x y) la lb)).
Proof.
  intros Hf Hl errs.
  change (build (sh_loop sh_vv) true (arith_core false true f sh_vv (sh_dst sh_vv)))
    with (reslice "a" :: reslice_to "b" "a" :: errs_decl :: Range "i" "" (Var "a") (div_core f) :: errs_tail).
  rewrite exec_cons. cbn. rewrite bindO_normal.
  rewrite exec_cons. cbn. rewrite (reslice_ok la lb Hl), to_nat_zlen. cbn. rewrite bindO_normal.
  rewrite exec_cons. cbn. rewrite bindO_normal.
  set (lb' := firstn (length la) lb) in *.
  assert (Lb : length lb' = length la) by (unfold lb'; rewrite firstn_length; lia).
  set (Fz := fun x y => if isz y then lit "0" else F x y).
  set (new := map2 Fz la lb').
  assert (Ln : length new = length la) by (unfold new; rewrite map2_length; lia).
  rewrite exec_cons.
  rewrite (exec_range_VS fuel "i" (Var "a") (div_core f) _ la) by reflexivity.
  destruct (range_iter_inv (exec fuel (div_core f)) "i"
              (fun j e => get e "a" = Some (VS (mix j new la)) /\ get e "b" = Some (VS lb')
                          /\ get e "errs" = Some (VIdxs (errs_upto lb' j)) /\ get e "err" = Some (VErr ENil))
              (length la))
    with (e := [("a", VS la); ("b", VS lb'); ("err", VErr ENil); ("errs", VIdxs [])])
    as [e' [R [Ia [Ib [Ie Ierr]]]]].
  - intros j e Hj [Ha [Hb [He Herr]]].
    destruct (nth_some la j) as [x Hx]; [lia|]. destruct (nth_some lb' j) as [y Hy]; [lia|].
    assert (Hm : nth_error (mix j new la) j = Some x) by (rewrite mix_nth_old; auto; lia).
    destruct (div_round fuel f F la lb' j (bind "i" (VI (Z.of_nat j)) e) (mix j new la) (errs_upto lb' j) x y Hf)
      as [e1 [R1 [A1 [B1 [E1 Er1]]]]]; auto;
      try (rewrite get_bind_neq by str_neq; assumption); try apply get_bind_eq.
    exists e1. split; [exact R1|].
    assert (Hnew : nth_error new j = Some (Fz x y)) by (unfold new; apply nth_error_map2; auto).
    change (if isz y then lit "0" else F x y) with (Fz x y) in A1.
    rewrite (mix_upd _ _ _ _ Ln Hnew) in A1.
    repeat split; auto.
    + simpl. rewrite Hy. exact E1.
    + rewrite Er1, get_bind_neq by str_neq. exact Herr.
  - repeat split; reflexivity.
  - rewrite R, bindO_normal.
    rewrite mix_all in Ia by exact Ln.
    exists e'. split.
    + unfold errs_tail. rewrite exec_cons. cbn [exec_stmt]. rewrite bindO_normal.
      assert (C1 : cond_of e' (Bin ONe err_ nil_) = Some false) by (unfold cond_of; cbn; rewrite Ierr; reflexivity).
      rewrite C1. fold_exec. rewrite exec_nil, bindO_normal.
      rewrite exec_cons. cbn [exec_stmt]. rewrite bindO_normal.
      assert (C2 : cond_of e' (Bin OGt (Len (Var "errs")) (Lit "0")) = Some (0 <? zlen errs)).
      { unfold cond_of. cbn. rewrite Ie. reflexivity. }
      rewrite C2. fold errs in Ie. destruct errs as [|z0 r0] eqn:Eerrs.
      * cbn. fold_exec. rewrite exec_nil, bindO_normal, exec_single. reflexivity.
      * replace (0 <? zlen (z0 :: r0)) with true by (symmetry; apply Z.ltb_lt; unfold zlen; simpl; lia).
        fold_exec. rewrite exec_single. cbn. rewrite Ie. reflexivity.
    + rewrite Ia. unfold new, lb', Fz. now rewrite map2_firstn.
Qed.

End Sem.

Print Assumptions tmpl_vv_sem.
Print Assumptions tmpl_vs_sem.
Print Assumptions tmpl_sv_sem.
Print Assumptions tmpl_incr_vv_sem.
Print Assumptions tmpl_cmp_sem.
Print Assumptions tmpl_same_sem.
Print Assumptions tmpl_unary_sem.
Print Assumptions tmpl_iter_vv_sem.
Print Assumptions tmpl_div_vv_sem.
