(* IndexProofs.v — lemmas about Base.v / Index.v used by PropC01 and later files. *)
From TV Require Import Base Index.
From Coq Require Import ZifyBool.

(* ---------- generic list facts ---------- *)
Lemma nth_error_skipn_cons {A} (l : list A) : forall i d r,
  skipn i l = d :: r -> nth_error l i = Some d /\ skipn (S i) l = r.
Proof.
  induction l as [|h t IH]; intros i d r H.
  - destruct i; discriminate.
  - destruct i as [|i].
    + cbn in H. injection H as <- <-. split; reflexivity.
    + cbn [skipn] in H. apply IH in H. exact H.
Qed.

Lemma skipn_nil_inv {A} (l : list A) i : skipn i l = [] -> nth_error l i = None.
Proof.
  revert i; induction l as [|h t IH]; intros i H; destruct i; try reflexivity; try discriminate.
  cbn. apply IH. exact H.
Qed.

Lemma nth_error_Some_lt {A} (l : list A) n x : nth_error l n = Some x -> (n < length l)%nat.
Proof. intro H. apply nth_error_Some. congruence. Qed.

Lemma upd_length {A} (l : list A) n v : length (upd l n v) = length l.
Proof. revert n; induction l as [|h t IH]; intros [|n]; cbn; auto. Qed.

Lemma nth_error_upd_same {A} (l : list A) n v :
  (n < length l)%nat -> nth_error (upd l n v) n = Some v.
Proof.
  revert n; induction l as [|h t IH]; intros [|n] H; cbn in *; try lia; auto.
  apply IH; lia.
Qed.

Lemma nth_error_upd_other {A} (l : list A) n m v :
  n <> m -> nth_error (upd l n v) m = nth_error l m.
Proof.
  revert n m; induction l as [|h t IH]; intros [|n] [|m] H; cbn; auto; try congruence.
Qed.

(* ---------- shape arithmetic ---------- *)
Lemma size_pos s : pos_shape s -> 1 <= size s.
Proof.
  induction 1 as [|d r Hd Hr IH]; cbn; nia.
Qed.

Lemma inboxb_spec s c : inboxb s c = true <-> inbox s c.
Proof.
  revert c; induction s as [|d s IH]; intros [|x c]; cbn; try tauto; try (split; [discriminate|tauto]).
  rewrite !andb_true_iff, IH, Z.leb_le, Z.ltb_lt. tauto.
Qed.

Lemma inbox_length s c : inbox s c -> length c = length s.
Proof.
  revert c; induction s as [|d s IH]; intros [|x c]; cbn; try tauto.
  intros [_ H]. f_equal. auto.
Qed.

(* row-major rank in "dot with default strides" form *)
Fixpoint rk (s c : list Z) : Z :=
  match s, c with
  | _ :: s', x :: c' => x * size s' + rk s' c'
  | _, _ => 0
  end.

Lemma rk_dot s c : rk s c = dot (calc_strides s) c.
Proof.
  revert c; induction s as [|d s IH]; intros [|x c]; cbn; auto.
  rewrite IH. lia.
Qed.

Lemma rank_rm_acc_rk s : forall c acc, length c = length s ->
  rank_rm_acc acc s c = acc * size s + rk s c.
Proof.
  induction s as [|d s IH]; intros [|x c] acc H; cbn in *; try discriminate; try lia.
  rewrite IH by lia. lia.
Qed.

Lemma rank_rm_rk s c : length c = length s -> rank_rm s c = rk s c.
Proof. intro H. unfold rank_rm. rewrite rank_rm_acc_rk by exact H. lia. Qed.

Lemma rk_bound s : forall c, pos_shape s -> inbox s c -> 0 <= rk s c < size s.
Proof.
  induction s as [|d s IH]; intros [|x c] Hp Hb; cbn in *; try tauto; try lia.
  inversion Hp as [|? ? Hd Hs]; subst. destruct Hb as [Hx Hb].
  specialize (IH c Hs Hb). pose proof (size_pos s Hs). nia.
Qed.

Lemma rank_rm_bound s c : pos_shape s -> inbox s c -> 0 <= rank_rm s c < size s.
Proof.
  intros Hp Hb. rewrite rank_rm_rk by (apply inbox_length; exact Hb). apply rk_bound; assumption.
Qed.

Lemma unrank_rk s : forall c, pos_shape s -> inbox s c -> unrank s (rk s c) = c.
Proof.
  induction s as [|d s IH]; intros [|x c] Hp Hb; cbn in *; try tauto.
  inversion Hp as [|? ? Hd Hs]; subst. destruct Hb as [Hx Hb].
  pose proof (rk_bound s c Hs Hb) as Hr. pose proof (size_pos s Hs) as Hsz.
  rewrite Z.div_add_l by lia. rewrite (Z.div_small (rk s c)) by lia.
  rewrite (Z.add_comm (x * size s) (rk s c)), Z_mod_plus_full, Z.mod_small by lia.
  rewrite IH by assumption. f_equal. lia.
Qed.

Lemma unrank_rank s c : pos_shape s -> inbox s c -> unrank s (rank_rm s c) = c.
Proof.
  intros Hp Hb. rewrite rank_rm_rk by (apply inbox_length; exact Hb). apply unrank_rk; assumption.
Qed.

Lemma rank_rm_inj s c c' : pos_shape s -> inbox s c -> inbox s c' ->
  rank_rm s c = rank_rm s c' -> c = c'.
Proof.
  intros Hp H1 H2 E. rewrite <- (unrank_rank s c Hp H1), <- (unrank_rank s c' Hp H2), E. reflexivity.
Qed.

Lemma unrank_inbox s : forall k, pos_shape s -> 0 <= k < size s -> inbox s (unrank s k).
Proof.
  induction s as [|d s IH]; intros k Hp Hk; cbn in *; auto.
  inversion Hp as [|? ? Hd Hs]; subst. pose proof (size_pos s Hs) as Hsz.
  split.
  - split. apply Z.div_pos; lia. apply Z.div_lt_upper_bound; lia.
  - apply IH; auto. apply Z.mod_pos_bound. lia.
Qed.

Lemma rk_unrank s : forall k, pos_shape s -> 0 <= k < size s -> rk s (unrank s k) = k.
Proof.
  induction s as [|d s IH]; intros k Hp Hk; cbn in *; try lia.
  inversion Hp as [|? ? Hd Hs]; subst. pose proof (size_pos s Hs) as Hsz.
  rewrite IH; auto. 2: apply Z.mod_pos_bound; lia.
  pose proof (Z.div_mod k (size s)). lia.
Qed.

Lemma rank_unrank s k : pos_shape s -> 0 <= k < size s -> rank_rm s (unrank s k) = k.
Proof.
  intros Hp Hk. rewrite rank_rm_rk. apply rk_unrank; assumption.
  apply inbox_length, unrank_inbox; assumption.
Qed.

(* column-major *)
Lemma dot_cm_aux s : forall c acc, dot (cm_aux acc s) c = acc * rank_cm s c.
Proof.
  induction s as [|d s IH]; intros [|x c] acc; cbn; try lia.
  rewrite IH. lia.
Qed.

Lemma rank_cm_bound s : forall c, pos_shape s -> inbox s c -> 0 <= rank_cm s c < size s.
Proof.
  induction s as [|d s IH]; intros [|x c] Hp Hb; cbn in *; try tauto; try lia.
  inversion Hp as [|? ? Hd Hs]; subst. destruct Hb as [Hx Hb].
  specialize (IH c Hs Hb). nia.
Qed.

Lemma rank_cm_inj s : forall c c', pos_shape s -> inbox s c -> inbox s c' ->
  rank_cm s c = rank_cm s c' -> c = c'.
Proof.
  induction s as [|d s IH]; intros [|x c] [|y c'] Hp H1 H2 E; cbn in *; try tauto.
  inversion Hp as [|? ? Hd Hs]; subst. destruct H1 as [Hx H1], H2 as [Hy H2].
  pose proof (rank_cm_bound s c Hs H1). pose proof (rank_cm_bound s c' Hs H2).
  assert (Hr : rank_cm s c = rank_cm s c').
  { destruct (Z.eq_dec (rank_cm s c) (rank_cm s c')) as [e|n]; [exact e|].
    assert (rank_cm s c + 1 <= rank_cm s c' \/ rank_cm s c' + 1 <= rank_cm s c) as [L|L] by lia; nia. }
  assert (x = y) by nia. subst y. f_equal. apply IH; auto.
Qed.

(* ---------- Ltoi ---------- *)
Arguments Z.mul : simpl never.
Arguments Z.add : simpl never.
Arguments Z.sub : simpl never.
Arguments Z.leb : simpl never.
Arguments Z.ltb : simpl never.
Arguments Z.eqb : simpl never.
Lemma scalar_equiv_inbox_zero s : forall c, is_scalar_equiv s = true -> inbox s c ->
  forallb (fun v => v =? 0) c = true /\ rk s c = 0 /\ rank_cm s c = 0.
Proof.
  induction s as [|d s IH]; intros [|x c] He Hb; cbn in *; try tauto; auto.
  apply andb_true_iff in He as [Hd He]. destruct Hb as [Hx Hb].
  destruct (IH c He Hb) as (A & B & C). rewrite A, B, C.
  assert (x = 0) by lia. subst. split; [reflexivity|]. lia.
Qed.

Lemma ltoi_loop_dot sh st : length st = length sh ->
  forall cs i a, inbox (skipn i sh) cs ->
  ltoi_loop sh st false i cs a = Ok (a + dot (skipn i st) cs).
Proof.
  intros Hl cs; induction cs as [|c cs IH]; intros i a Hb.
  - cbn. destruct (skipn i st); cbn; f_equal; lia.
  - cbn [ltoi_loop].
    destruct (skipn i sh) as [|d r] eqn:Es; cbn in Hb; [tauto|].
    destruct Hb as [Hc Hb].
    apply nth_error_skipn_cons in Es as [Hn Hs]. rewrite Hn.
    destruct ((d <=? c) || (c <? 0)) eqn:E; [lia|].
    destruct (skipn i st) as [|t r'] eqn:Et.
    + apply skipn_nil_inv in Et. apply nth_error_None in Et.
      apply nth_error_Some_lt in Hn. lia.
    + apply nth_error_skipn_cons in Et as [Hn' Hs']. rewrite Hn'.
      rewrite IH by (rewrite Hs; exact Hb). rewrite Hs'. cbn. f_equal. lia.
Qed.

Lemma calc_strides_length s : length (calc_strides s) = length s.
Proof. induction s; cbn; auto. Qed.

Lemma cm_aux_length s : forall a, length (cm_aux a s) = length s.
Proof. induction s; intros; cbn; auto. Qed.

Theorem ltoi_rowmajor s c : pos_shape s -> inbox s c ->
  ltoi s (calc_strides s) c = Ok (rank_rm s c).
Proof.
  intros Hp Hb. rewrite rank_rm_rk by (apply inbox_length; exact Hb).
  unfold ltoi. destruct (is_scalar_equiv s) eqn:He.
  - destruct (scalar_equiv_inbox_zero s c He Hb) as (A & B & _). rewrite A, B. reflexivity.
  - destruct (is_vector s && (length (calc_strides s) =? 1)%nat) eqn:Ev.
    + apply andb_true_iff in Ev as [_ Hl]. rewrite calc_strides_length in Hl.
      destruct s as [|n [|? ?]]; cbn in Hl; try discriminate.
      destruct c as [|x [|? ?]]; cbn in Hb; try tauto.
      cbn. destruct ((n <=? x) || (x <? 0)) eqn:E; [lia|]. f_equal. lia.
    + rewrite ltoi_loop_dot; [|apply calc_strides_length|exact Hb].
      cbn. rewrite rk_dot. reflexivity.
Qed.

Theorem ltoi_colmajor s c : pos_shape s -> inbox s c ->
  ltoi s (calc_strides_cm s) c = Ok (rank_cm s c).
Proof.
  intros Hp Hb. unfold ltoi, calc_strides_cm.
  destruct (is_scalar_equiv s) eqn:He.
  - destruct (scalar_equiv_inbox_zero s c He Hb) as (A & _ & C). rewrite A, C. reflexivity.
  - destruct (is_vector s) eqn:Ev.
    + cbn [length Nat.eqb andb].
      unfold is_vector, is_colvec, is_rowvec in Ev.
      destruct s as [|a [|b [|? ?]]]; cbn in Ev; try discriminate.
      * destruct c as [|x [|? ?]]; cbn in Hb; try tauto.
        cbn. destruct ((a <=? x) || (x <? 0)) eqn:E; [lia|]. f_equal. lia.
      * destruct c as [|x [|y [|? ?]]]; cbn in Hb; try tauto.
        cbn. destruct ((a <=? x) || (x <? 0)) eqn:E1; [lia|]. destruct ((b <=? y) || (y <? 0)) eqn:E2; [lia|].
        f_equal. cbn in He.
        destruct (b =? 1) eqn:Eb; destruct (a =? 1) eqn:Ea; cbn in *; try discriminate; nia.
    + rewrite cm_aux_length.
      replace (_ && _) with false by (destruct s as [|? [|? ?]]; reflexivity).
      rewrite ltoi_loop_dot; [|apply cm_aux_length|exact Hb].
      cbn. rewrite dot_cm_aux. f_equal. lia.
Qed.

(* Acceptance: with strides as long as the shape (or the single-stride vector form), Ltoi
   answers Ok exactly for in-box coordinates. *)
Lemma ltoi_loop_ok_iff sh st vec1 :
  (vec1 = true -> (0 < length st)%nat) -> (vec1 = false -> length st = length sh) ->
  forall cs i a, (length cs <= length (skipn i sh))%nat ->
  is_ok (ltoi_loop sh st vec1 i cs a)
  = forallb (fun p => (0 <=? snd p) && (snd p <? fst p)) (combine (skipn i sh) cs).
Proof.
  intros Hv1 Hv0 cs; induction cs as [|c cs IH]; intros i a Hlen.
  - cbn. destruct (skipn i sh); reflexivity.
  - cbn [ltoi_loop].
    destruct (skipn i sh) as [|d r] eqn:Es; [cbn in Hlen; lia|].
    pose proof Es as Es'. apply nth_error_skipn_cons in Es' as [Hn Hs]. rewrite Hn.
    cbn [combine forallb fst snd].
    destruct ((d <=? c) || (c <? 0)) eqn:E.
    + replace ((0 <=? c) && (c <? d)) with false by lia. reflexivity.
    + replace ((0 <=? c) && (c <? d)) with true by lia. cbn [andb].
      assert (exists t, (if vec1 then nth_error st 0 else nth_error st i) = Some t) as [t Ht].
      { destruct vec1.
        - specialize (Hv1 eq_refl). destruct st; cbn in *; [lia|eauto].
        - specialize (Hv0 eq_refl). apply nth_error_Some_lt in Hn.
          destruct (nth_error st i) eqn:En; eauto. apply nth_error_None in En. lia. }
      rewrite Ht. rewrite IH; auto. rewrite Hs. reflexivity.
      rewrite Hs. cbn in Hlen. lia.
Qed.

Lemma forallb_combine_inboxb s : forall c, length c = length s ->
  forallb (fun p => (0 <=? snd p) && (snd p <? fst p)) (combine s c) = inboxb s c.
Proof.
  induction s as [|d s IH]; intros [|x c] Hl; cbn in *; try discriminate; auto.
  rewrite IH by lia. reflexivity.
Qed.

Lemma scalar_equiv_inboxb s : forall c, is_scalar_equiv s = true -> length c = length s ->
  forallb (fun v => v =? 0) c = inboxb s c.
Proof.
  induction s as [|d s IH]; intros [|x c] He Hl; cbn in *; try discriminate; auto.
  apply andb_true_iff in He as [Hd He].
  rewrite IH by (auto; lia). assert (d = 1) by lia. subst d.
  destruct (x =? 0) eqn:E; destruct (0 <=? x) eqn:E''; destruct (x <? 1) eqn:E'; try lia; reflexivity.
Qed.

(* At/SetAt accept exactly the in-box coordinates. *)
Theorem at_index_ok_iff s st c :
  (length st = length s \/ (is_vector s = true /\ length st = 1%nat)) ->
  is_ok (at_index s st c) = inboxb s c.
Proof.
  intros Hst. unfold at_index.
  destruct (length c =? length s)%nat eqn:El; cbn [negb].
  2:{ cbn. symmetry. apply not_true_is_false. intro H. apply inboxb_spec, inbox_length in H.
      apply Nat.eqb_neq in El. contradiction. }
  apply Nat.eqb_eq in El. unfold ltoi.
  destruct (is_scalar_equiv s) eqn:He.
  - rewrite <- (scalar_equiv_inboxb s c He El).
    destruct (forallb _ c); reflexivity.
  - rewrite ltoi_loop_ok_iff; auto.
    + cbn [skipn]. apply forallb_combine_inboxb; auto.
    + intro H. apply andb_true_iff in H as [_ H]. apply Nat.eqb_eq in H. lia.
    + intro H. destruct Hst as [Hst|[Hv Hst]]; [exact Hst|].
      rewrite Hv, Hst in H. cbn in H. discriminate.
    + cbn [skipn]. lia.
Qed.

(* Reads and writes through the default row-/column-major strides hit exactly the cell of that
   rank, and a write changes nothing else. *)
Theorem window_at_rowmajor {V} (data : list V) s c : pos_shape s -> inbox s c ->
  zlen data = size s ->
  exists v, nth_error data (Z.to_nat (rank_rm s c)) = Some v /\
            window_at data s (calc_strides s) c = Ok v.
Proof.
  intros Hp Hb Hl. pose proof (rank_rm_bound s c Hp Hb) as Hr.
  unfold window_at, at_index. rewrite (inbox_length s c Hb), Nat.eqb_refl. cbn [negb].
  rewrite ltoi_rowmajor by assumption. unfold zget.
  replace (rank_rm s c <? 0) with false by lia.
  destruct (nth_error data (Z.to_nat (rank_rm s c))) eqn:E; eauto.
  apply nth_error_None in E. unfold zlen in Hl. lia.
Qed.

Theorem window_at_colmajor {V} (data : list V) s c : pos_shape s -> inbox s c ->
  zlen data = size s ->
  exists v, nth_error data (Z.to_nat (rank_cm s c)) = Some v /\
            window_at data s (calc_strides_cm s) c = Ok v.
Proof.
  intros Hp Hb Hl. pose proof (rank_cm_bound s c Hp Hb) as Hr.
  unfold window_at, at_index. rewrite (inbox_length s c Hb), Nat.eqb_refl. cbn [negb].
  rewrite ltoi_colmajor by assumption. unfold zget.
  replace (rank_cm s c <? 0) with false by lia.
  destruct (nth_error data (Z.to_nat (rank_cm s c))) eqn:E; eauto.
  apply nth_error_None in E. unfold zlen in Hl. lia.
Qed.

Theorem window_setat_rowmajor {V} (data : list V) s c v : pos_shape s -> inbox s c ->
  zlen data = size s ->
  window_setat data s (calc_strides s) c v = Ok (upd data (Z.to_nat (rank_rm s c)) v).
Proof.
  intros Hp Hb Hl. pose proof (rank_rm_bound s c Hp Hb) as Hr.
  unfold window_setat, at_index. rewrite (inbox_length s c Hb), Nat.eqb_refl. cbn [negb].
  rewrite ltoi_rowmajor by assumption. unfold zset.
  replace ((rank_rm s c <? 0) || (zlen data <=? rank_rm s c)) with false by lia. reflexivity.
Qed.

Theorem window_setat_colmajor {V} (data : list V) s c v : pos_shape s -> inbox s c ->
  zlen data = size s ->
  window_setat data s (calc_strides_cm s) c v = Ok (upd data (Z.to_nat (rank_cm s c)) v).
Proof.
  intros Hp Hb Hl. pose proof (rank_cm_bound s c Hp Hb) as Hr.
  unfold window_setat, at_index. rewrite (inbox_length s c Hb), Nat.eqb_refl. cbn [negb].
  rewrite ltoi_colmajor by assumption. unfold zset.
  replace ((rank_cm s c <? 0) || (zlen data <=? rank_cm s c)) with false by lia. reflexivity.
Qed.

(* the frame of a single-cell update *)
Theorem upd_frame {V} (data : list V) n v : (n < length data)%nat ->
  length (upd data n v) = length data /\
  nth_error (upd data n v) n = Some v /\
  forall m, m <> n -> nth_error (upd data n v) m = nth_error data m.
Proof.
  intro H. split; [apply upd_length|]. split; [apply nth_error_upd_same; exact H|].
  intros m Hm. apply nth_error_upd_other. congruence.
Qed.

(* rejected calls return before touching the store: in the model an Err/Panic result carries no
   new data, i.e. the caller's window is the old one. *)
Theorem window_setat_err_no_write {V} (data : list V) s st c v :
  is_ok (at_index s st c) = false -> is_ok (window_setat data s st c v) = false.
Proof. unfold window_setat. destruct (at_index s st c); cbn; congruence. Qed.
