(* PropC14.v — C14 "Encoding any tensor with gob, NumPy .npy, CSV, protobuf or flatbuffers and
   decoding the bytes yields a tensor with the same shape and logical elements (and mask, where
   the format carries one).  A tensor whose memory layout the format cannot express is either
   written by its logical content or refused - it is never written as different data or as a
   tensor that cannot be read back."

   Statements over the field-level MODEL of Serial.v (ser_gob / ser_pbfb / ser_npy / ser_csv =
   decode (encode t)); proofs in SerialProofs.v.  Element type V arbitrary.
   What the model makes FALSE of the sentence above is stated as ..._refuted / ..._guard_needed
   (computed on the model, V := Z):
     - gob: a view (window <> size) is encoded silently and cannot be decoded      (refused late)
     - protobuf/flatbuffers: a strided view decodes to a tensor that panics on At  (refuted)
     - NumPy: a non-row-major layout (lazy transpose, column-major) of an unmasked
       tensor is written in storage order under the logical shape                   (refuted)
     - NumPy: a dtype without a case in ReadNpy's switch decodes to zeros, no error (refuted)
     - NumPy/CSV: a box with a zero dimension never ends the n-d iterator           (panic)  *)
From Coq Require Import String.
From TV Require Import Base Index AP Iter Serial IndexProofs IterProofs SerialProofs.
Local Open Scope Z_scope.

(* ---------------------------------------------------------------------------------------- *)
(*  gob: everything travels (shape, strides, order bits, window, mask)                       *)
(* ---------------------------------------------------------------------------------------- *)
(* for ANY strides and order bits (column-major, lazily transposed, ...) *)
Theorem C14_gob_roundtrip : forall (V : Type) (t : tval V),
  (zlen (tv_data V t) = size (shp (tv_ap V t)) \/ shp (tv_ap V t) = []) ->
  (tv_mask V t = [] \/ zlen (tv_mask V t) = zlen (tv_data V t)) ->
  exists t', ser_gob V t = SOk V t' /\
    shp (tv_ap V t') = shp (tv_ap V t) /\
    str (tv_ap V t') = str (tv_ap V t) /\
    ord (tv_ap V t') = ord (tv_ap V t) /\
    tv_data V t' = tv_data V t /\
    tv_mask V t' = tv_mask V t /\
    tv_logical V t' = tv_logical V t /\
    tv_logical_mask V t' = tv_logical_mask V t.
Proof. exact gob_roundtrip. Qed.
Print Assumptions C14_gob_roundtrip.

(* the guard is necessary: a view is encoded without complaint into bytes GobDecode rejects *)
Theorem C14_gob_view_refused_late : forall (V : Type) (t : tval V),
  zlen (tv_data V t) <> size (shp (tv_ap V t)) -> shp (tv_ap V t) <> [] ->
  (tv_mask V t = [] \/ zlen (tv_mask V t) = zlen (tv_data V t)) ->
  ser_gob V t = SDecErr V.
Proof. exact gob_view_refused_late. Qed.
Print Assumptions C14_gob_view_refused_late.

Theorem C14_gob_bad_mask_panics : forall (V : Type) (t : tval V),
  tv_mask V t <> [] -> zlen (tv_mask V t) <> zlen (tv_data V t) -> ser_gob V t = SDecPanic V.
Proof. exact gob_bad_mask_panics. Qed.
Print Assumptions C14_gob_bad_mask_panics.

(* ---------------------------------------------------------------------------------------- *)
(*  protobuf / flatbuffers: shape, strides, order code, raw window; no mask                  *)
(* ---------------------------------------------------------------------------------------- *)
(* the decoded strides are the source strides exactly when (flatbuffers) there is one per axis;
   the mask is dropped *)
Theorem C14_pbfb_roundtrip : forall (V : Type) (vzero : V) (fb : bool) (t : tval V),
  zlen (tv_data V t) = size (shp (tv_ap V t)) ->
  (fb = true -> length (str (tv_ap V t)) = length (shp (tv_ap V t))) ->
  exists t', ser_pbfb V vzero fb t = SOk V t' /\
    shp (tv_ap V t') = shp (tv_ap V t) /\
    str (tv_ap V t') = str (tv_ap V t) /\
    tv_data V t' = tv_data V t /\
    tv_logical V t' = tv_logical V t /\
    tv_mask V t' = [] /\
    (tv_data V t <> [] -> tv_masked V t' = false /\ forall c, tv_maskat V t' c = Ok false).
Proof. exact pbfb_roundtrip. Qed.
Print Assumptions C14_pbfb_roundtrip.

(* guard window = size: the column slice of a 3x3 (shape [3], strides [3], window of 7) decodes
   without error into a tensor whose elements 1 and 2 cannot be read *)
Theorem C14_pbfb_view_refuted :
  tv_logical Z col_view = [Ok 0; Ok 3; Ok 6] /\
  (forall fb, exists t', ser_pbfb Z 0 fb col_view = SOk Z t' /\
     shp (tv_ap Z t') = [3] /\ tv_logical Z t' = [Ok 0; Panic; Panic]).
Proof. exact pbfb_view_refuted. Qed.
Print Assumptions C14_pbfb_view_refuted.

(* guard one stride per axis (flatbuffers): fewer panic in FBDecode, more come back as zeros *)
Theorem C14_fb_short_strides_panics : forall (V : Type) (vzero : V) (t : tval V),
  (length (str (tv_ap V t)) < length (shp (tv_ap V t)))%nat -> ser_pbfb V vzero true t = SDecPanic V.
Proof. exact fb_short_strides_panics. Qed.
Print Assumptions C14_fb_short_strides_panics.

Theorem C14_fb_long_strides_guard_needed :
  exists t', ser_pbfb Z 0 true (mkTV Z (mkAP [2] [1; 5] 0 true) [7; 8] []) = SOk Z t' /\
    str (tv_ap Z t') = [1; 0].
Proof. exact fb_long_strides_guard_needed. Qed.
Print Assumptions C14_fb_long_strides_guard_needed.

(* ---------------------------------------------------------------------------------------- *)
(*  NumPy                                                                                    *)
(* ---------------------------------------------------------------------------------------- *)
(* the header's shape text: "" for rank 0, "N," for rank 1, "a, b, c" otherwise — what WriteNpy
   prints, ReadNpy's Split / Trim / Atoi loop parses back *)
Theorem C14_npy_shape_text_roundtrip : forall sh : list Z,
  Forall (fun d => 0 <= d) sh -> parse_shape (print_shape sh) = Some sh.
Proof. exact npy_shape_text_roundtrip. Qed.
Print Assumptions C14_npy_shape_text_roundtrip.

(* (benign guard: Go shapes have no negative dimension) *)
Theorem C14_npy_shape_text_guard_needed : parse_shape (print_shape [2; -3]) = Some [2; 0].
Proof. exact npy_shape_text_guard_needed. Qed.
Print Assumptions C14_npy_shape_text_guard_needed.

(* unmasked, default row-major strides, whole window *)
Theorem C14_npy_roundtrip_plain : forall (V : Type) (vzero fillv : V) (c : caps) (t : tval V),
  npy_w c = true -> npy_r c = true -> npy_case c = true ->
  tv_masked V t = false ->
  str (tv_ap V t) = calc_strides (shp (tv_ap V t)) ->
  zlen (tv_data V t) = size (shp (tv_ap V t)) ->
  Forall (fun d => 0 <= d) (shp (tv_ap V t)) ->
  exists t', ser_npy V vzero fillv c t = SOk V t' /\
    shp (tv_ap V t') = shp (tv_ap V t) /\
    tv_data V t' = tv_data V t /\
    tv_mask V t' = [] /\
    tv_logical V t' = tv_logical V t.
Proof. exact npy_roundtrip_plain. Qed.
Print Assumptions C14_npy_roundtrip_plain.

(* the exact window guard: the window may be LONGER than the size (a leading slice of a
   contiguous tensor); shorter is refused at decode (C14_npy_short_window_refused) *)
Theorem C14_npy_roundtrip_prefix : forall (V : Type) (vzero fillv : V) (c : caps) (t : tval V),
  npy_w c = true -> npy_r c = true -> npy_case c = true ->
  tv_masked V t = false ->
  str (tv_ap V t) = calc_strides (shp (tv_ap V t)) ->
  size (shp (tv_ap V t)) <= zlen (tv_data V t) ->
  Forall (fun d => 0 <= d) (shp (tv_ap V t)) ->
  exists t', ser_npy V vzero fillv c t = SOk V t' /\
    shp (tv_ap V t') = shp (tv_ap V t) /\
    tv_data V t' = firstn (Z.to_nat (size (shp (tv_ap V t)))) (tv_data V t) /\
    tv_mask V t' = [] /\
    tv_logical V t' = tv_logical V t.
Proof. exact npy_roundtrip_prefix. Qed.
Print Assumptions C14_npy_roundtrip_prefix.

(* a MASKED tensor is written through its iterator, i.e. by its logical content, whatever its
   strides: unmasked elements come back, masked ones as the fill value; the mask is not carried *)
Theorem C14_npy_roundtrip_masked : forall (V : Type) (vzero fillv : V) (c : caps) (t : tval V),
  npy_w c = true -> npy_r c = true -> npy_case c = true ->
  tv_masked V t = true ->
  pos_shape (shp (tv_ap V t)) ->
  length (str (tv_ap V t)) = length (shp (tv_ap V t)) ->
  (forall cd, inbox (shp (tv_ap V t)) cd -> 0 <= dot (str (tv_ap V t)) cd < zlen (tv_data V t)) ->
  exists t', ser_npy V vzero fillv c t = SOk V t' /\
    shp (tv_ap V t') = shp (tv_ap V t) /\
    tv_mask V t' = [] /\
    forall cd, inbox (shp (tv_ap V t)) cd ->
      (exists b, tv_maskat V t cd = Ok b) /\
      (tv_maskat V t cd = Ok false -> tv_at V t' cd = tv_at V t cd) /\
      (tv_maskat V t cd = Ok true -> tv_at V t' cd = Ok fillv).
Proof. exact npy_roundtrip_masked. Qed.
Print Assumptions C14_npy_roundtrip_masked.

(* the written stream follows the iterator: the offsets of the trace are those of iter_all *)
Theorem C14_trace_is_logical_order : forall a, pos_shape (shp a) -> length (str a) = length (shp a) ->
  trace_of a = Some (tr_of (new_iter a) (offsets a)) /\
  iter_all a = Some (map fst (tr_of (new_iter a) (offsets a))).
Proof. exact trace_of_spec. Qed.
Print Assumptions C14_trace_is_logical_order.

(* guard str = calc_strides (unmasked): a lazily transposed 2x3 is written in storage order under
   its logical shape and decodes, without error, to different elements *)
Theorem C14_npy_layout_refuted :
  tv_logical Z lazyT = [Ok 0; Ok 3; Ok 1; Ok 4; Ok 2; Ok 5] /\
  exists t', ser_npy Z 0 (-1) caps_all lazyT = SOk Z t' /\
    shp (tv_ap Z t') = [3; 2] /\
    tv_logical Z t' = [Ok 0; Ok 1; Ok 2; Ok 3; Ok 4; Ok 5].
Proof. exact npy_layout_refuted. Qed.
Print Assumptions C14_npy_layout_refuted.

(* guard npy_case: a dtype numpyDtype can write but ReadNpy's switch does not read: zeros *)
Theorem C14_npy_case_guard_needed :
  exists t', ser_npy Z 0 (-1) (mkCaps true true false true)
                     (mkTV Z (mkAP [2] [1] 0 true) [7; 8] []) = SOk Z t' /\
    tv_logical Z t' = [Ok 0; Ok 0].
Proof. exact npy_case_guard_needed. Qed.
Print Assumptions C14_npy_case_guard_needed.

(* refusals: unknown dtype at encode; a window shorter than the size at decode *)
Theorem C14_npy_unknown_dtype_refused : forall (V : Type) (vzero fillv : V) (c : caps) (t : tval V),
  npy_w c = false -> ser_npy V vzero fillv c t = SEncErr V.
Proof. exact npy_unknown_dtype_refused. Qed.
Print Assumptions C14_npy_unknown_dtype_refused.

Theorem C14_npy_short_window_refused :
  ser_npy Z 0 (-1) caps_all (mkTV Z (mkAP [3] [1] 0 true) [7; 8] []) = SDecErr Z.
Proof. exact npy_short_window_refused. Qed.
Print Assumptions C14_npy_short_window_refused.

Theorem C14_npy_unreadable_dtype_refused :
  ser_npy Z 0 (-1) (mkCaps true false true true) (mkTV Z (mkAP [2] [1] 0 true) [7; 8] []) = SDecErr Z.
Proof. exact npy_unreadable_dtype_refused. Qed.
Print Assumptions C14_npy_unreadable_dtype_refused.

(* guard one stride per axis on the masked path *)
Theorem C14_npy_masked_short_strides_guard_needed :
  ser_npy Z 0 (-1) caps_all (mkTV Z (mkAP [2; 2] [2] 0 true) [1;2;3;4] [false;false;false;false])
  = SEncPanic Z.
Proof. exact npy_masked_short_strides_panics. Qed.
Print Assumptions C14_npy_masked_short_strides_guard_needed.

(* ---------------------------------------------------------------------------------------- *)
(*  CSV: written through the iterator, by logical content, for every matrix                  *)
(* ---------------------------------------------------------------------------------------- *)
(* any strides (column-major, lazily transposed, views), the vector fast paths of the iterator
   ((1,n), (n,1) with unit strides) included: no restriction on r, c beyond being positive *)
Theorem C14_csv_roundtrip : forall (V : Type) (fillv : V) (cp : caps) (t : tval V) r c,
  shp (tv_ap V t) = [r; c] -> 0 < r -> 0 < c ->
  tv_masked V t = false ->
  length (str (tv_ap V t)) = 2%nat ->
  (forall cd, inbox [r; c] cd -> 0 <= dot (str (tv_ap V t)) cd < zlen (tv_data V t)) ->
  csv_r cp = true ->
  exists t', ser_csv V fillv cp t = SOk V t' /\
    shp (tv_ap V t') = [r; c] /\
    tv_mask V t' = [] /\
    tv_logical V t' = tv_logical V t.
Proof. exact csv_roundtrip. Qed.
Print Assumptions C14_csv_roundtrip.

(* masked matrices: unmasked elements come back, masked ones as the fill value *)
Theorem C14_csv_roundtrip_masked : forall (V : Type) (fillv : V) (cp : caps) (t : tval V) r c,
  shp (tv_ap V t) = [r; c] -> 0 < r -> 0 < c ->
  tv_masked V t = true ->
  length (str (tv_ap V t)) = 2%nat ->
  (forall cd, inbox [r; c] cd -> 0 <= dot (str (tv_ap V t)) cd < zlen (tv_data V t)) ->
  csv_r cp = true ->
  exists t', ser_csv V fillv cp t = SOk V t' /\
    shp (tv_ap V t') = [r; c] /\
    tv_mask V t' = [] /\
    forall cd, inbox [r; c] cd ->
      (exists b, tv_maskat V t cd = Ok b) /\
      (tv_maskat V t cd = Ok false -> tv_at V t' cd = tv_at V t cd) /\
      (tv_maskat V t cd = Ok true -> tv_at V t' cd = Ok fillv).
Proof. exact csv_roundtrip_masked. Qed.
Print Assumptions C14_csv_roundtrip_masked.

(* the decoded tensor itself *)
Theorem C14_csv_decoded : forall (V : Type) (fillv : V) (cp : caps) (t : tval V) r c,
  shp (tv_ap V t) = [r; c] -> 0 < r -> 0 < c ->
  length (str (tv_ap V t)) = 2%nat ->
  (forall cd, inbox [r; c] cd -> 0 <= dot (str (tv_ap V t)) cd < zlen (tv_data V t)) ->
  csv_r cp = true ->
  ser_csv V fillv cp t
  = SOk V (mkTV V (mkAP [r; c] (calc_strides [r; c]) 0 true)
                (map (csv_cell V fillv t) (offsets (tv_ap V t))) []).
Proof. exact csv_decoded. Qed.
Print Assumptions C14_csv_decoded.

Theorem C14_csv_not_matrix_refused : forall (V : Type) (fillv : V) (cp : caps) (t : tval V),
  length (shp (tv_ap V t)) <> 2%nat -> ser_csv V fillv cp t = SEncErr V.
Proof. exact csv_not_matrix_refused. Qed.
Print Assumptions C14_csv_not_matrix_refused.

Theorem C14_csv_unreadable_dtype_refused :
  ser_csv Z (-1) (mkCaps true true true false) (mkTV Z (mkAP [1; 2] [2; 1] 0 true) [7; 8] []) = SDecErr Z.
Proof. exact csv_unreadable_dtype_refused. Qed.
Print Assumptions C14_csv_unreadable_dtype_refused.

(* the vector fast paths of the iterator, computed *)
Theorem C14_csv_vector_paths :
  (exists t', ser_csv Z (-1) caps_all (mkTV Z (mkAP [1; 3] [1; 1] 0 true) [7; 8; 9] []) = SOk Z t' /\
     shp (tv_ap Z t') = [1; 3] /\ tv_logical Z t' = [Ok 7; Ok 8; Ok 9]) /\
  (exists t', ser_csv Z (-1) caps_all (mkTV Z (mkAP [3; 1] [1; 1] 0 true) [7; 8; 9] []) = SOk Z t' /\
     shp (tv_ap Z t') = [3; 1] /\ tv_logical Z t' = [Ok 7; Ok 8; Ok 9]).
Proof. exact csv_vector_paths. Qed.
Print Assumptions C14_csv_vector_paths.

(* guard 0 < r, 0 < c (and pos_shape for masked NumPy): a zero dimension never ends the n-d
   iterator, so the writers that go through it do not return; gob is unaffected *)
Theorem C14_csv_empty_guard_needed :
  ser_csv Z (-1) caps_all (mkTV Z (mkAP [0; 3] [3; 1] 0 true) [] []) = SEncPanic Z /\
  ser_npy Z 0 (-1) caps_all (mkTV Z (mkAP [0; 3] [3; 1] 0 true) [] []) = SEncPanic Z /\
  exists t', ser_gob Z (mkTV Z (mkAP [0; 3] [3; 1] 0 true) [] []) = SOk Z t'.
Proof. exact csv_empty_guard_needed. Qed.
Print Assumptions C14_csv_empty_guard_needed.

Theorem C14_csv_short_strides_guard_needed :
  ser_csv Z (-1) caps_all (mkTV Z (mkAP [2; 2] [2] 0 true) [1; 2; 3; 4] []) = SEncPanic Z.
Proof. exact csv_short_strides_guard_needed. Qed.
Print Assumptions C14_csv_short_strides_guard_needed.

(* ---------------------------------------------------------------------------------------- *)
(*  all five formats on the common case: unmasked, row-major, whole window                   *)
(* ---------------------------------------------------------------------------------------- *)
Theorem C14_all_formats_plain : forall (V : Type) (vzero fillv : V) (f : sfmt) (cp : caps) (t : tval V),
  npy_w cp = true -> npy_r cp = true -> npy_case cp = true -> csv_r cp = true ->
  tv_mask V t = [] ->
  pos_shape (shp (tv_ap V t)) ->
  str (tv_ap V t) = calc_strides (shp (tv_ap V t)) ->
  zlen (tv_data V t) = size (shp (tv_ap V t)) ->
  (f = FCsv -> length (shp (tv_ap V t)) = 2%nat) ->
  exists t', ser_model vzero fillv f cp t = SOk V t' /\
    shp (tv_ap V t') = shp (tv_ap V t) /\
    tv_logical V t' = tv_logical V t.
Proof. exact @all_formats_plain. Qed.
Print Assumptions C14_all_formats_plain.

(* ---------------------------------------------------------------------------------------- *)
(*  examples                                                                                 *)
(* ---------------------------------------------------------------------------------------- *)
(* a lazily transposed 2x3 WITH a mask through gob: same logical elements and mask;
   the same tensor through CSV: logical content, masked cells as the fill value;
   the shape text of a rank-3 tensor *)
Definition lazyT_masked : tval Z :=
  mkTV Z (mkAP [3; 2] [1; 3] 4 true) [0; 1; 2; 3; 4; 5] [false; true; false; false; false; true].
Example C14_example :
  (exists t', ser_gob Z lazyT_masked = SOk Z t' /\
     shp (tv_ap Z t') = [3; 2] /\
     tv_logical Z t' = tv_logical Z lazyT_masked /\
     tv_logical Z t' = [Ok 0; Ok 3; Ok 1; Ok 4; Ok 2; Ok 5] /\
     tv_logical_mask Z t' = tv_logical_mask Z lazyT_masked /\
     tv_logical_mask Z t' = [Ok false; Ok false; Ok true; Ok false; Ok false; Ok true]) /\
  (exists t', ser_csv Z (-1) caps_all lazyT_masked = SOk Z t' /\
     shp (tv_ap Z t') = [3; 2] /\
     tv_logical Z t' = [Ok 0; Ok 3; Ok (-1); Ok 4; Ok 2; Ok (-1)]) /\
  print_shape [2; 3; 4] = "2, 3, 4"%string /\
  parse_shape (print_shape [2; 3; 4]) = Some [2; 3; 4].
Proof.
  split; [eexists; split; [vm_compute; reflexivity|]; repeat split; vm_compute; reflexivity|].
  split; [eexists; split; [vm_compute; reflexivity|]; split; vm_compute; reflexivity|].
  split; vm_compute; reflexivity.
Qed.
Print Assumptions C14_example.
