(* SerialProofs.v — proofs about the field-level serialisation MODEL of Serial.v (C14).
   Arbitrary element type V. *)
From Coq Require Import String Ascii DecimalString DecimalN DecimalPos DecimalFacts.
From Coq Require Import ZifyBool Lia.
From TV Require Import Base Index AP Iter Serial IndexProofs IterProofs MemProofs.
Local Open Scope Z_scope.

Arguments Z.mul : simpl never.
Arguments Z.add : simpl never.
Arguments Z.sub : simpl never.
Arguments Z.leb : simpl never.
Arguments Z.ltb : simpl never.
Arguments Z.eqb : simpl never.
Arguments Z.div : simpl never.
Arguments Z.modulo : simpl never.
Arguments Z.of_nat : simpl never.
Arguments Z.to_nat : simpl never.

(* ====================================================================================== *)
(*  0. generic facts                                                                      *)
(* ====================================================================================== *)
Lemma firstn_app_exact {A} (l r : list A) n : n = length l -> firstn n (l ++ r) = l.
Proof.
  intros ->. rewrite firstn_app, Nat.sub_diag, firstn_all. cbn [firstn]. apply app_nil_r.
Qed.

Lemma nth_error_firstn_some {A} : forall n (l : list A) i v,
  nth_error (firstn n l) i = Some v -> nth_error l i = Some v.
Proof.
  induction n as [|n IH]; intros [|x l] [|i] v H; cbn [firstn nth_error] in *; try discriminate; auto.
Qed.

Lemma zget_some_nth {A} (d : A) (l : list A) o : 0 <= o < zlen l -> zget l o = Some (nth (Z.to_nat o) l d).
Proof.
  intro H. unfold zget. replace (o <? 0) with false by lia.
  apply nth_error_nth'. unfold zlen in H. lia.
Qed.

Lemma zget_some_bound {A} (l : list A) o v : zget l o = Some v -> 0 <= o < zlen l.
Proof.
  unfold zget. destruct (o <? 0) eqn:E; [discriminate|]. intro H.
  apply nth_error_Some_lt in H. unfold zlen. lia.
Qed.

(* map over an index range against map over a list *)
Lemma map_zseq_list {A B} (g : Z -> B) (h : A -> B) : forall (d : list A) s,
  (forall i v, nth_error d i = Some v -> g (s + Z.of_nat i) = h v) ->
  map g (zseq s (length d)) = map h d.
Proof.
  induction d as [|a d IH]; intros s H; [reflexivity|].
  cbn [length zseq map]. f_equal.
  - specialize (H O a eq_refl). replace (s + Z.of_nat 0) with s in H by lia. exact H.
  - apply IH. intros i v Hi. specialize (H (S i) v Hi).
    replace (s + 1 + Z.of_nat i) with (s + Z.of_nat (S i)) by lia. exact H.
Qed.

Section SP.
Variable V : Type.
Variable vzero : V.
Variable fillv : V.

Local Notation tval := (tval V).
Local Notation rd d o := (match zget d o with Some v => Ok v | None => @Panic V end).

(* ====================================================================================== *)
(*  1. the two observation lemmas: a source of any strides, a decoded row-major tensor    *)
(* ====================================================================================== *)
(* At over the box of a tensor with one stride per axis reads the window at the offsets *)
Lemma src_at (t : tval) c : length (str (tv_ap V t)) = length (shp (tv_ap V t)) ->
  inbox (shp (tv_ap V t)) c ->
  tv_at V t c = rd (tv_data V t) (dot (str (tv_ap V t)) c).
Proof.
  intros Hl Hb. unfold tv_at, window_at. rewrite (at_index_dot _ _ _ Hl Hb). reflexivity.
Qed.

Lemma src_logical (t : tval) : pos_shape (shp (tv_ap V t)) ->
  length (str (tv_ap V t)) = length (shp (tv_ap V t)) ->
  tv_logical V t = map (fun o => rd (tv_data V t) o) (offsets (tv_ap V t)).
Proof.
  intros Hp Hl. unfold tv_logical, offsets. rewrite map_map. apply map_ext_in.
  intros c Hc. apply src_at; [exact Hl|]. apply (coords_In _ _ Hp). exact Hc.
Qed.

(* a row-major tensor whose data is as long as its size shows its data *)
Lemma rm_at s (d : list V) o f m c : pos_shape s -> inbox s c -> zlen d = size s ->
  exists v, nth_error d (Z.to_nat (rank_rm s c)) = Some v /\
            tv_at V (mkTV V (mkAP s (calc_strides s) o f) d m) c = Ok v.
Proof. intros Hp Hb Hl. unfold tv_at. cbn [tv_ap tv_data shp str]. apply window_at_rowmajor; assumption. Qed.

Lemma rm_logical s (d : list V) o f m : pos_shape s -> zlen d = size s ->
  tv_logical V (mkTV V (mkAP s (calc_strides s) o f) d m) = map (fun v => Ok v) d.
Proof.
  intros Hp Hl. unfold tv_logical, coords. cbn [tv_ap shp]. rewrite map_map.
  replace (Z.to_nat (size s)) with (length d) by (unfold zlen in Hl; lia).
  apply map_zseq_list. intros i v Hi.
  assert (Hk : 0 <= 0 + Z.of_nat i < size s).
  { apply nth_error_Some_lt in Hi. unfold zlen in Hl. lia. }
  destruct (rm_at s d o f m (unrank s (0 + Z.of_nat i)) Hp (unrank_inbox s _ Hp Hk) Hl) as (v' & Hn & Ha).
  rewrite Ha. rewrite (rank_unrank s _ Hp Hk) in Hn.
  replace (Z.to_nat (0 + Z.of_nat i)) with i in Hn by lia. congruence.
Qed.

(* a box with a zero dimension has no coordinates *)
Lemma logical_empty (t : tval) : size (shp (tv_ap V t)) = 0 -> tv_logical V t = [].
Proof. intro H. unfold tv_logical, coords. rewrite H. reflexivity. Qed.

Lemma nonneg_shape_cases s : Forall (fun d => 0 <= d) s -> pos_shape s \/ size s = 0.
Proof.
  induction 1 as [|d s Hd Hs IH]; [left; constructor|].
  cbn [size]. destruct IH as [IH|IH]; [|right; rewrite IH; lia].
  assert (d = 0 \/ 1 <= d) as [->|H1] by lia; [right; lia|left; constructor; assumption].
Qed.

(* ====================================================================================== *)
(*  T1. gob                                                                               *)
(* ====================================================================================== *)
Theorem gob_roundtrip (t : tval) :
  (zlen (tv_data V t) = size (shp (tv_ap V t)) \/ shp (tv_ap V t) = []) ->
  (tv_mask V t = [] \/ zlen (tv_mask V t) = zlen (tv_data V t)) ->
  exists t', ser_gob V t = SOk V t' /\
    shp (tv_ap V t') = shp (tv_ap V t) /\
    str (tv_ap V t') = str (tv_ap V t) /\
    ord (tv_ap V t') = ord (tv_ap V t) /\
    tv_data V t' = tv_data V t /\
    tv_mask V t' = tv_mask V t /\
    tv_logical V t' = tv_logical V t /\
    tv_logical_mask V t' = tv_logical_mask V t.
Proof.
  intros Hd Hm. unfold ser_gob.
  destruct ((0 <? zlen (tv_mask V t)) && negb (zlen (tv_mask V t) =? zlen (tv_data V t))) eqn:E1.
  { destruct Hm as [Hm|Hm]; [rewrite Hm in E1; cbn in E1; discriminate|lia]. }
  destruct (negb (zlen (tv_data V t) =? size (shp (tv_ap V t))) && negb (is_scalar (shp (tv_ap V t)))) eqn:E2.
  { destruct Hd as [Hd|Hd]; [lia|]. rewrite Hd in E2. cbn in E2. lia. }
  eexists. split; [reflexivity|]. cbn [tv_ap tv_data tv_mask shp str ord].
  repeat split; reflexivity.
Qed.

(* a view (window longer or shorter than the size) is encoded without complaint and the bytes
   cannot be decoded: the refusal comes too late (known finding) *)
Theorem gob_view_refused_late (t : tval) :
  zlen (tv_data V t) <> size (shp (tv_ap V t)) -> shp (tv_ap V t) <> [] ->
  (tv_mask V t = [] \/ zlen (tv_mask V t) = zlen (tv_data V t)) ->
  ser_gob V t = SDecErr V.
Proof.
  intros Hd Hs Hm. unfold ser_gob.
  destruct ((0 <? zlen (tv_mask V t)) && negb (zlen (tv_mask V t) =? zlen (tv_data V t))) eqn:E1.
  { destruct Hm as [Hm|Hm]; [rewrite Hm in E1; cbn in E1; discriminate|lia]. }
  destruct (negb (zlen (tv_data V t) =? size (shp (tv_ap V t))) && negb (is_scalar (shp (tv_ap V t)))) eqn:E2;
    [reflexivity|].
  destruct (shp (tv_ap V t)); [congruence|]. cbn [is_scalar negb] in E2. lia.
Qed.

(* a mask of another length than the data makes the decoder panic *)
Theorem gob_bad_mask_panics (t : tval) :
  tv_mask V t <> [] -> zlen (tv_mask V t) <> zlen (tv_data V t) -> ser_gob V t = SDecPanic V.
Proof.
  intros Hm Hl. unfold ser_gob.
  destruct ((0 <? zlen (tv_mask V t)) && negb (zlen (tv_mask V t) =? zlen (tv_data V t))) eqn:E1;
    [reflexivity|].
  destruct (tv_mask V t); [congruence|]. unfold zlen in *. cbn [length] in *. lia.
Qed.

(* ====================================================================================== *)
(*  T2. protobuf / flatbuffers                                                            *)
(* ====================================================================================== *)
Theorem pbfb_roundtrip (fb : bool) (t : tval) :
  zlen (tv_data V t) = size (shp (tv_ap V t)) ->
  (fb = true -> length (str (tv_ap V t)) = length (shp (tv_ap V t))) ->
  exists t', ser_pbfb V vzero fb t = SOk V t' /\
    shp (tv_ap V t') = shp (tv_ap V t) /\
    str (tv_ap V t') = str (tv_ap V t) /\
    tv_data V t' = tv_data V t /\
    tv_logical V t' = tv_logical V t /\
    tv_mask V t' = [] /\
    (tv_data V t <> [] -> tv_masked V t' = false /\
                          forall c, tv_maskat V t' c = Ok false).
Proof.
  intros Hd Hfb. unfold ser_pbfb.
  destruct (fb && (length (str (tv_ap V t)) <? length (shp (tv_ap V t)))%nat) eqn:E1.
  { apply andb_true_iff in E1 as [Ef E1]. specialize (Hfb Ef). apply Nat.ltb_lt in E1. lia. }
  destruct (size (shp (tv_ap V t)) <? 0) eqn:E2; [unfold zlen in Hd; lia|].
  assert (Hdata : firstn (Z.to_nat (size (shp (tv_ap V t))))
                    (tv_data V t ++ repeat vzero (Z.to_nat (size (shp (tv_ap V t))))) = tv_data V t).
  { apply firstn_app_exact. unfold zlen in Hd. lia. }
  assert (Hstr : (if fb then firstn (length (shp (tv_ap V t))) (str (tv_ap V t))
                             ++ repeat 0 (length (str (tv_ap V t)) - length (shp (tv_ap V t)))
                  else str (tv_ap V t)) = str (tv_ap V t)).
  { destruct fb; [|reflexivity]. rewrite <- (Hfb eq_refl), Nat.sub_diag, firstn_all. apply app_nil_r. }
  eexists. split; [reflexivity|]. cbn [tv_ap tv_data tv_mask shp str ord].
  rewrite Hdata, Hstr. repeat split.
  - unfold tv_masked. cbn [tv_mask tv_data]. destruct (tv_data V t); [congruence|].
    unfold zlen. cbn [length]. lia.
  - intro c. unfold tv_maskat, tv_masked. cbn [tv_mask tv_data].
    replace (zlen [] =? zlen (tv_data V t)) with false; [reflexivity|].
    destruct (tv_data V t); [congruence|]. unfold zlen. cbn [length]. lia.
Qed.

(* FBDecode reads ShapeLength() strides: a shorter strides vector panics *)
Theorem fb_short_strides_panics (t : tval) :
  (length (str (tv_ap V t)) < length (shp (tv_ap V t)))%nat -> ser_pbfb V vzero true t = SDecPanic V.
Proof.
  intro H. unfold ser_pbfb. apply Nat.ltb_lt in H. rewrite H. reflexivity.
Qed.

End SP.

(* ====================================================================================== *)
(*  T3. the NumPy header: shape text round trip                                           *)
(* ====================================================================================== *)
Section Text.
Local Open Scope string_scope.

Fixpoint all_chars (P : ascii -> bool) (s : string) : bool :=
  match s with EmptyString => true | String c r => P c && all_chars P r end.

(* neither a comma nor a space *)
Definition plain (c : ascii) : bool := negb (Ascii.eqb c ",") && negb (Ascii.eqb c " ").

Lemma all_chars_app P a : forall b, all_chars P (a ++ b) = all_chars P a && all_chars P b.
Proof. induction a as [|c a IH]; intro b; cbn [append all_chars]; [reflexivity|]. rewrite IH, andb_assoc. reflexivity. Qed.

Lemma nilempty_plain u : all_chars plain (NilEmpty.string_of_uint u) = true.
Proof. induction u; cbn [NilEmpty.string_of_uint all_chars]; [reflexivity|..]; rewrite IHu; reflexivity. Qed.

Lemma digits_plain z : all_chars plain (digits_of z) = true.
Proof.
  unfold digits_of, NilZero.string_of_uint.
  destruct (N.to_uint (Z.to_N z)); try apply nilempty_plain. reflexivity.
Qed.

Lemma N_to_uint_nonnil n : N.to_uint n <> Decimal.Nil.
Proof. destruct n; cbn; [discriminate|apply DecimalPos.Unsigned.to_uint_nonnil]. Qed.

Lemma digits_parse z : NilZero.uint_of_string (digits_of z) = Some (N.to_uint (Z.to_N z)).
Proof. unfold digits_of. apply NilZero.usu, N_to_uint_nonnil. Qed.

Lemma digits_nonempty z : digits_of z <> "".
Proof. intro H. pose proof (digits_parse z) as P. rewrite H in P. discriminate. Qed.

Lemma atoi_digits z : 0 <= z -> atoi (digits_of z) = Some z.
Proof.
  intro Hz. unfold atoi. pose proof (digits_nonempty z) as Hne. pose proof (digits_parse z) as P.
  destruct (digits_of z); [congruence|]. rewrite P, DecimalN.Unsigned.of_to, Z2N.id by exact Hz.
  reflexivity.
Qed.

(* ---- split_commas ---- *)
Lemma append_assoc a : forall b c, (a ++ b) ++ c = a ++ (b ++ c).
Proof. induction a as [|x a IH]; intros b c; cbn [append]; [reflexivity|]. rewrite IH. reflexivity. Qed.

Lemma append_nil_r a : a ++ "" = a.
Proof. induction a as [|x a IH]; cbn [append]; [reflexivity|]. rewrite IH. reflexivity. Qed.

Lemma plain_not_comma c : plain c = true -> Ascii.eqb c "," = false.
Proof. unfold plain. destruct (Ascii.eqb c ","); [discriminate|reflexivity]. Qed.

Lemma plain_not_space c : plain c = true -> Ascii.eqb c " " = false.
Proof. unfold plain. destruct (Ascii.eqb c " "); [rewrite andb_false_r; discriminate|reflexivity]. Qed.

Lemma split_plain_prefix d : forall rest cur, all_chars plain d = true ->
  split_commas (d ++ rest) cur = split_commas rest (cur ++ d).
Proof.
  induction d as [|c d IH]; intros rest cur H.
  - cbn [append]. rewrite append_nil_r. reflexivity.
  - cbn [all_chars] in H. apply andb_true_iff in H as [Hc H].
    cbn [append split_commas]. rewrite (plain_not_comma c Hc), IH by exact H.
    rewrite append_assoc. reflexivity.
Qed.

Lemma split_plain d cur : all_chars plain d = true -> split_commas d cur = [cur ++ d].
Proof.
  intro H. rewrite <- (append_nil_r d) at 1. rewrite split_plain_prefix by exact H. reflexivity.
Qed.

(* ---- trim ---- *)
Lemma rev_string_rev s : forall a b, rev_string (rev_string s a) b = rev_string a (s ++ b).
Proof.
  induction s as [|c s IH]; intros a b; cbn [rev_string append]; [reflexivity|].
  rewrite IH. reflexivity.
Qed.

Lemma all_chars_rev P s : forall a, all_chars P (rev_string s a) = all_chars P s && all_chars P a.
Proof.
  induction s as [|c s IH]; intro a; cbn [rev_string all_chars]; [reflexivity|].
  rewrite IH. cbn [all_chars]. destruct (P c), (all_chars P s), (all_chars P a); reflexivity.
Qed.

Lemma ltrim_plain s : all_chars plain s = true -> ltrim s = s.
Proof.
  destruct s as [|c s]; [reflexivity|]. cbn [all_chars]. intro H.
  apply andb_true_iff in H as [Hc _]. cbn [ltrim]. rewrite (plain_not_space c Hc). reflexivity.
Qed.

Lemma trim_plain s : all_chars plain s = true -> trim s = s.
Proof.
  intro H. unfold trim. rewrite (ltrim_plain s H).
  rewrite ltrim_plain by (rewrite all_chars_rev, H; reflexivity).
  rewrite rev_string_rev. cbn [rev_string]. apply append_nil_r.
Qed.

Lemma trim_space s : trim (String " " s) = trim s.
Proof. reflexivity. Qed.

(* one piece of the header: the digits, possibly after the blank that follows a comma *)
Lemma piece_parse (cur : string) z rest : cur = "" \/ cur = " " -> 0 <= z ->
  parse_pieces ((cur ++ digits_of z) :: rest)
  = match parse_pieces rest with Some zs => Some (z :: zs) | None => None end.
Proof.
  intros Hc Hz.
  assert (Ht : trim (cur ++ digits_of z) = digits_of z).
  { destruct Hc as [->| ->]; cbn [append]; [|rewrite trim_space]; apply trim_plain, digits_plain. }
  cbn [parse_pieces]. rewrite Ht. pose proof (digits_nonempty z) as Hne.
  destruct (digits_of z) eqn:E; [congruence|]. rewrite <- E, (atoi_digits z Hz). reflexivity.
Qed.

Lemma join_dims_parse : forall (r : list Z) (x : Z) (cur : string), cur = "" \/ cur = " " ->
  Forall (fun d => 0 <= d) (x :: r) ->
  parse_pieces (split_commas (join_dims (x :: r)) cur) = Some (x :: r).
Proof.
  induction r as [|y r IH]; intros x cur Hc Hp; inversion Hp as [|? ? Hx Hr]; subst.
  - cbn [join_dims]. rewrite split_plain by apply digits_plain.
    rewrite piece_parse by assumption. reflexivity.
  - change (join_dims (x :: y :: r)) with (digits_of x ++ ", " ++ join_dims (y :: r)).
    rewrite split_plain_prefix by apply digits_plain.
    change (", " ++ join_dims (y :: r)) with (String "," (String " " (join_dims (y :: r)))).
    cbn [split_commas Ascii.eqb Bool.eqb]. cbn [append].
    rewrite piece_parse by assumption. rewrite IH; [reflexivity|right; reflexivity|exact Hr].
Qed.

Theorem npy_shape_text_roundtrip (sh : list Z) : Forall (fun d => 0 <= d) sh ->
  parse_shape (print_shape sh) = Some sh.
Proof.
  intro Hp. unfold parse_shape. destruct sh as [|x [|y r]].
  - reflexivity.
  - cbn [print_shape]. inversion Hp as [|? ? Hx _]; subst.
    rewrite split_plain_prefix by apply digits_plain. cbn [split_commas Ascii.eqb Bool.eqb append].
    pose proof (piece_parse "" x [""] (or_introl eq_refl) Hx) as P. cbn [append] in P.
    rewrite P. reflexivity.
  - change (print_shape (x :: y :: r)) with (join_dims (x :: y :: r)).
    apply join_dims_parse; [left; reflexivity|exact Hp].
Qed.

(* the forms of the text *)
Example print_shape_forms :
  print_shape [] = "" /\ print_shape [7] = "7," /\ print_shape [2; 3; 40] = "2, 3, 40".
Proof. vm_compute. repeat split. Qed.

(* guard: a negative dimension (never produced by the library) prints as 0 *)
Example npy_shape_text_guard_needed : parse_shape (print_shape [2; -3]) = Some [2; 0].
Proof. vm_compute. reflexivity. Qed.

End Text.

(* ====================================================================================== *)
(*  the iterator trace                                                                    *)
(* ====================================================================================== *)
(* offsets paired with the coordinate slice shown after the Next that produced them *)
Fixpoint tr_of (it : fiter) (l : list Z) : list (Z * list Z) :=
  match l with
  | [] => []
  | o :: l' => (o, it_track (fst (iter_next it))) :: tr_of (fst (iter_next it)) l'
  end.

Lemma tr_of_fst l : forall it, map fst (tr_of it l) = l.
Proof. induction l as [|o l IH]; intro it; cbn [tr_of map fst]; [reflexivity|]. rewrite IH. reflexivity. Qed.

Lemma tr_of_length l : forall it, length (tr_of it l) = length l.
Proof. intro it. rewrite <- (tr_of_fst l it) at 2. rewrite map_length. reflexivity. Qed.

Lemma tr_of_nth l : forall it k p, nth_error (tr_of it l) k = Some p ->
  nth_error l k = Some (fst p) /\ snd p = it_track (iter_steps (S k) it).
Proof.
  induction l as [|o l IH]; intros it k p H; [destruct k; discriminate|].
  destruct k as [|k]; cbn [tr_of nth_error] in H.
  - injection H as <-. split; reflexivity.
  - apply IH in H. exact H.
Qed.

Lemma iter_trace_yields r it l : yields r it l ->
  forall fuel, (length l < fuel)%nat -> iter_trace fuel it = Some (tr_of it l).
Proof.
  induction 1 as [it Hd Hr|it it' o l Hr Hn Hy IH]; intros fuel Hf.
  - destruct fuel as [|f]; [cbn in Hf; lia|]. cbn [iter_trace tr_of].
    rewrite (iter_next_done it Hd). reflexivity.
  - destruct fuel as [|f]; [cbn in Hf; lia|]. cbn [iter_trace tr_of]. rewrite Hn. cbn [fst].
    rewrite IH by (cbn in Hf; lia). reflexivity.
Qed.

(* the trace of a fresh iterator: its offsets are those of iter_all (logical order) *)
Theorem trace_of_spec a : pos_shape (shp a) -> length (str a) = length (shp a) ->
  trace_of a = Some (tr_of (new_iter a) (offsets a)) /\
  iter_all a = Some (map fst (tr_of (new_iter a) (offsets a))).
Proof.
  intros Hp Hl. split.
  - unfold trace_of. apply (iter_trace_yields false); [apply yields_new; assumption|].
    rewrite offsets_length. lia.
  - rewrite tr_of_fst. apply iter_all_spec; assumption.
Qed.

Lemma nth_error_offsets a k : 0 <= k < size (shp a) ->
  nth_error (offsets a) (Z.to_nat k) = Some (dot (str a) (unrank (shp a) k)).
Proof.
  intro Hk. unfold offsets. rewrite nth_error_map, nth_error_coords by exact Hk. reflexivity.
Qed.

Lemma offsets_in_window {A} a (d : list A) :
  pos_shape (shp a) ->
  (forall c, inbox (shp a) c -> 0 <= dot (str a) c < zlen d) ->
  forall o, In o (offsets a) -> 0 <= o < zlen d.
Proof.
  intros Hp H o Ho. unfold offsets in Ho. apply in_map_iff in Ho as (c & <- & Hc).
  apply H. apply (coords_In _ _ Hp). exact Hc.
Qed.

(* ====================================================================================== *)
(*  T4. NumPy                                                                             *)
(* ====================================================================================== *)
Section Npy.
Variable V : Type.
Variable vzero : V.
Variable fillv : V.
Local Notation tval := (tval V).

Lemma pos_shape_nonneg s : pos_shape s -> Forall (fun d => 0 <= d) s.
Proof. apply Forall_impl. intros; lia. Qed.

Theorem npy_roundtrip_plain (c : caps) (t : tval) :
  npy_w c = true -> npy_r c = true -> npy_case c = true ->
  tv_masked V t = false ->
  str (tv_ap V t) = calc_strides (shp (tv_ap V t)) ->
  zlen (tv_data V t) = size (shp (tv_ap V t)) ->
  Forall (fun d => 0 <= d) (shp (tv_ap V t)) ->
  exists t', ser_npy V vzero fillv c t = SOk V t' /\
    shp (tv_ap V t') = shp (tv_ap V t) /\
    tv_data V t' = tv_data V t /\
    tv_mask V t' = [] /\
    tv_logical V t' = tv_logical V t.
Proof.
  intros Hw Hr Hc Hm Hst Hd Hp. unfold ser_npy.
  rewrite Hw, Hm, (npy_shape_text_roundtrip _ Hp), Hr, Hc. cbn [negb andb].
  destruct (size (shp (tv_ap V t)) <? 0) eqn:E1; [unfold zlen in Hd; lia|].
  destruct (zlen (tv_data V t) <? size (shp (tv_ap V t))) eqn:E2; [lia|].
  eexists. split; [reflexivity|]. cbn [tv_ap tv_data tv_mask shp].
  assert (Hf : firstn (Z.to_nat (size (shp (tv_ap V t)))) (tv_data V t) = tv_data V t).
  { rewrite <- Hd. unfold zlen. rewrite Nat2Z.id. apply firstn_all. }
  rewrite Hf. repeat split.
  unfold tv_logical, tv_at. cbn [tv_ap tv_data shp str]. rewrite Hst. reflexivity.
Qed.

(* the exact window guard: a row-major tensor whose window is AT LEAST as long as its size (a
   leading slice of a contiguous tensor) is written whole and read back by its first size cells *)
Theorem npy_roundtrip_prefix (c : caps) (t : tval) :
  npy_w c = true -> npy_r c = true -> npy_case c = true ->
  tv_masked V t = false ->
  str (tv_ap V t) = calc_strides (shp (tv_ap V t)) ->
  size (shp (tv_ap V t)) <= zlen (tv_data V t) ->
  Forall (fun d => 0 <= d) (shp (tv_ap V t)) ->
  exists t', ser_npy V vzero fillv c t = SOk V t' /\
    shp (tv_ap V t') = shp (tv_ap V t) /\
    tv_data V t' = firstn (Z.to_nat (size (shp (tv_ap V t)))) (tv_data V t) /\
    tv_mask V t' = [] /\
    tv_logical V t' = tv_logical V t.
Proof.
  intros Hw Hr Hc Hm Hst Hd Hp. unfold ser_npy.
  rewrite Hw, Hm, (npy_shape_text_roundtrip _ Hp), Hr, Hc. cbn [negb andb].
  destruct (nonneg_shape_cases _ Hp) as [Hpos|Hz].
  2:{ rewrite Hz. replace (0 <? 0) with false by lia.
      replace (zlen (tv_data V t) <? 0) with false by (unfold zlen; lia).
      eexists. split; [reflexivity|]. cbn [tv_ap tv_data tv_mask shp]. repeat split.
      rewrite !logical_empty by (cbn [tv_ap shp]; exact Hz). reflexivity. }
  pose proof (size_pos _ Hpos) as Hsz.
  destruct (size (shp (tv_ap V t)) <? 0) eqn:E1; [lia|].
  destruct (zlen (tv_data V t) <? size (shp (tv_ap V t))) eqn:E2; [lia|].
  eexists. split; [reflexivity|]. cbn [tv_ap tv_data tv_mask shp]. repeat split.
  set (n := Z.to_nat (size (shp (tv_ap V t)))).
  assert (Hfl : length (firstn n (tv_data V t)) = n).
  { rewrite firstn_length. unfold zlen in Hd. lia. }
  rewrite rm_logical by (try exact Hpos; unfold zlen; rewrite Hfl; lia).
  assert (Hl : length (str (tv_ap V t)) = length (shp (tv_ap V t)))
    by (rewrite Hst; apply calc_strides_length).
  rewrite (src_logical V t Hpos Hl), offsets_zseq, map_map. fold n.
  replace (zseq 0 n) with (zseq 0 (length (firstn n (tv_data V t)))) by (rewrite Hfl; reflexivity).
  symmetry. apply map_zseq_list. intros i v Hi.
  assert (Hin : (i < n)%nat) by (rewrite <- Hfl; eapply nth_error_Some_lt; exact Hi).
  rewrite Hst, <- rk_dot, rk_unrank by (try exact Hpos; lia).
  unfold zget. replace (0 + Z.of_nat i <? 0) with false by lia.
  replace (Z.to_nat (0 + Z.of_nat i)) with i by lia.
  rewrite (nth_error_firstn_some _ _ _ _ Hi). reflexivity.
Qed.

(* what WriteNpy emits for a masked tensor *)
Definition npy_cell (t : tval) (o : Z) : V :=
  if nth (Z.to_nat o) (tv_mask V t) false then fillv else nth (Z.to_nat o) (tv_data V t) fillv.

Lemma npy_written (t : tval) : zlen (tv_mask V t) = zlen (tv_data V t) ->
  forall tr : list (Z * list Z), (forall p, In p tr -> 0 <= fst p < zlen (tv_data V t)) ->
  fold_right (fun (p : Z * list Z) acc =>
                match acc, zget (tv_mask V t) (fst p), zget (tv_data V t) (fst p) with
                | Some l, Some true, _ => Some (fillv :: l)
                | Some l, Some false, Some v => Some (v :: l)
                | _, _, _ => None
                end) (Some []) tr
  = Some (map (npy_cell t) (map fst tr)).
Proof.
  intros Hm tr. induction tr as [|p tr IH]; intro Hin; [reflexivity|].
  cbn [fold_right map]. rewrite IH by (intros q Hq; apply Hin; right; exact Hq).
  assert (Hp : 0 <= fst p < zlen (tv_data V t)) by (apply Hin; left; reflexivity).
  rewrite (zget_some_nth false (tv_mask V t) (fst p)) by lia.
  rewrite (zget_some_nth fillv (tv_data V t) (fst p)) by lia.
  unfold npy_cell. destruct (nth (Z.to_nat (fst p)) (tv_mask V t) false); reflexivity.
Qed.

Theorem npy_roundtrip_masked (c : caps) (t : tval) :
  npy_w c = true -> npy_r c = true -> npy_case c = true ->
  tv_masked V t = true ->
  pos_shape (shp (tv_ap V t)) ->
  length (str (tv_ap V t)) = length (shp (tv_ap V t)) ->
  (forall cd, inbox (shp (tv_ap V t)) cd -> 0 <= dot (str (tv_ap V t)) cd < zlen (tv_data V t)) ->
  exists t', ser_npy V vzero fillv c t = SOk V t' /\
    shp (tv_ap V t') = shp (tv_ap V t) /\
    tv_mask V t' = [] /\
    forall cd, inbox (shp (tv_ap V t)) cd ->
      (exists b, tv_maskat V t cd = Ok b) /\
      (tv_maskat V t cd = Ok false -> tv_at V t' cd = tv_at V t cd) /\
      (tv_maskat V t cd = Ok true -> tv_at V t' cd = Ok fillv).
Proof.
  intros Hw Hr Hc Hm Hp Hl Hwin. unfold ser_npy.
  destruct (trace_of_spec (tv_ap V t) Hp Hl) as [Htr _].
  assert (Hml : zlen (tv_mask V t) = zlen (tv_data V t)) by (unfold tv_masked in Hm; lia).
  rewrite Hw, Hm, Htr. cbn [negb].
  rewrite (npy_written t Hml).
  2:{ intros p Hin. apply (offsets_in_window (tv_ap V t) (tv_data V t) Hp Hwin).
      rewrite <- (tr_of_fst (offsets (tv_ap V t)) (new_iter (tv_ap V t))). apply in_map. exact Hin. }
  rewrite tr_of_fst, (npy_shape_text_roundtrip _ (pos_shape_nonneg _ Hp)), Hr, Hc. cbn [negb andb].
  pose proof (size_pos _ Hp) as Hsz.
  set (ws := map (npy_cell t) (offsets (tv_ap V t))).
  assert (Hws : zlen ws = size (shp (tv_ap V t))).
  { unfold ws, zlen. rewrite map_length, offsets_length. lia. }
  destruct (size (shp (tv_ap V t)) <? 0) eqn:E1; [lia|].
  destruct (zlen ws <? size (shp (tv_ap V t))) eqn:E2; [lia|].
  assert (Hf : firstn (Z.to_nat (size (shp (tv_ap V t)))) ws = ws).
  { rewrite <- Hws. unfold zlen. rewrite Nat2Z.id. apply firstn_all. }
  rewrite Hf. eexists. split; [reflexivity|]. cbn [tv_ap tv_mask shp].
  split; [reflexivity|]. split; [reflexivity|]. intros cd Hb.
  destruct (rm_at V (shp (tv_ap V t)) ws 0 true [] cd Hp Hb Hws) as (v & Hn & Ha).
  pose proof (rank_rm_bound _ _ Hp Hb) as Hrk.
  unfold ws in Hn. rewrite nth_error_map, (nth_error_offsets _ _ Hrk), (unrank_rank _ _ Hp Hb) in Hn.
  cbn [option_map] in Hn. injection Hn as Hv.
  specialize (Hwin cd Hb).
  assert (Hmk : tv_maskat V t cd
                = Ok (nth (Z.to_nat (dot (str (tv_ap V t)) cd)) (tv_mask V t) false)).
  { unfold tv_maskat. rewrite Hm, (at_index_dot _ _ _ Hl Hb). cbn [negb].
    rewrite (zget_some_nth false) by lia. reflexivity. }
  rewrite Ha, (src_at V t cd Hl Hb), (zget_some_nth fillv) by lia. rewrite Hmk.
  split; [eauto|]. unfold npy_cell in Hv.
  split; intro Hbit; injection Hbit as Hbit; rewrite Hbit in Hv; rewrite <- Hv; reflexivity.
Qed.

(* refusals *)
Theorem npy_unknown_dtype_refused (c : caps) (t : tval) :
  npy_w c = false -> ser_npy V vzero fillv c t = SEncErr V.
Proof. intro H. unfold ser_npy. rewrite H. reflexivity. Qed.

End Npy.

Definition caps_all : caps := mkCaps true true true true.

(* an unmasked lazily transposed 2x3 (shape [3;2], strides [1;3]) is written in storage order
   under its logical shape: it decodes without error to DIFFERENT elements (known finding) *)
Definition lazyT : tval Z := mkTV Z (mkAP [3; 2] [1; 3] 4 true) [0;1;2;3;4;5] [].
Example npy_layout_refuted :
  tv_logical Z lazyT = [Ok 0; Ok 3; Ok 1; Ok 4; Ok 2; Ok 5] /\
  exists t', ser_npy Z 0 (-1) caps_all lazyT = SOk Z t' /\
    shp (tv_ap Z t') = [3; 2] /\
    tv_logical Z t' = [Ok 0; Ok 1; Ok 2; Ok 3; Ok 4; Ok 5].
Proof.
  split; [vm_compute; reflexivity|]. eexists. split; [vm_compute; reflexivity|].
  split; vm_compute; reflexivity.
Qed.

(* a dtype ReadNpy's switch has no case for: nothing is read, the result is all zeros, no error *)
Example npy_case_guard_needed :
  exists t', ser_npy Z 0 (-1) (mkCaps true true false true)
                     (mkTV Z (mkAP [2] [1] 0 true) [7; 8] []) = SOk Z t' /\
    tv_logical Z t' = [Ok 0; Ok 0].
Proof. eexists. split; vm_compute; reflexivity. Qed.

(* a window shorter than the size: refused at decode (unexpected EOF) *)
Example npy_short_window_refused :
  ser_npy Z 0 (-1) caps_all (mkTV Z (mkAP [3] [1] 0 true) [7; 8] []) = SDecErr Z.
Proof. vm_compute. reflexivity. Qed.

(* ReadNpy's binary.Read does not accept the element type: refused at decode *)
Example npy_unreadable_dtype_refused :
  ser_npy Z 0 (-1) (mkCaps true false true true) (mkTV Z (mkAP [2] [1] 0 true) [7; 8] []) = SDecErr Z.
Proof. vm_compute. reflexivity. Qed.

(* the masked path with a stride vector shorter than the shape: the iterator panics *)
Example npy_masked_short_strides_panics :
  ser_npy Z 0 (-1) caps_all (mkTV Z (mkAP [2; 2] [2] 0 true) [1;2;3;4] [false;false;false;false])
  = SEncPanic Z.
Proof. vm_compute. reflexivity. Qed.

(* ====================================================================================== *)
(*  T5. CSV                                                                               *)
(* ====================================================================================== *)
Lemma succ_div_mod c j : 0 < c ->
  (j + 1) mod c = (if j mod c =? c - 1 then 0 else j mod c + 1) /\
  (j + 1) / c = (if j mod c =? c - 1 then j / c + 1 else j / c).
Proof.
  intro Hc. pose proof (Z.div_mod j c ltac:(lia)) as Hj.
  pose proof (Z.mod_pos_bound j c Hc) as Hb.
  destruct (j mod c =? c - 1) eqn:E.
  - split; symmetry.
    + apply Z.mod_unique with (q := j / c + 1); lia.
    + apply Z.div_unique with (r := 0); lia.
  - split; symmetry.
    + apply Z.mod_unique with (q := j / c); lia.
    + apply Z.div_unique with (r := j mod c + 1); lia.
Qed.

Lemma Forall_last {A} (P : A -> Prop) d : forall l, Forall P l -> l <> [] -> P (last l d).
Proof.
  induction l as [|x l IH]; intros H Hne; [congruence|]. inversion H as [|? ? Hx Hl]; subst.
  destruct l as [|y l]; [exact Hx|]. apply IH; [exact Hl|discriminate].
Qed.

(* k >= 1 steps of the vector fast path move only the tracked axis *)
Lemma vec_track sh st sz vd : forall k tr nxt last t,
  nth_error tr vd = Some t -> t + Z.of_nat (S k) <= sz ->
  it_track (iter_steps (S k) (mkIter sh st tr nxt last sz false vd false false true))
  = upd tr vd (t + Z.of_nat (S k)).
Proof.
  induction k as [|k IH]; intros tr nxt last t Ht Hk.
  - cbn [iter_steps]. rewrite (vec_next_fwd sh st tr nxt last sz vd t Ht). cbn [fst it_track].
    f_equal.
  - change (iter_steps (S (S k)) ?it) with (iter_steps (S k) (fst (iter_next it))).
    rewrite (vec_next_fwd sh st tr nxt last sz vd t Ht). cbn [fst].
    replace (sz <=? t + 1) with false by lia.
    rewrite (IH (upd tr vd (t + 1)) (nxt + 1) nxt (t + 1)).
    + replace (t + 1 + Z.of_nat (S k)) with (t + Z.of_nat (S (S k))) by lia.
      clear. revert vd. induction tr as [|x tr IHt]; intros [|vd]; cbn [upd]; try reflexivity.
      rewrite IHt. reflexivity.
    + apply nth_error_upd_same. eapply nth_error_Some_lt; exact Ht.
    + lia.
Qed.

(* the coordinate slice after k Next calls on a matrix shows column k mod cols — on the n-d path
   and on the vector fast path ((1,n) and (n,1) with unit strides) alike *)
Lemma csv_column a r c : shp a = [r; c] -> 0 < r -> 0 < c -> length (str a) = 2%nat ->
  forall k : nat, (1 <= k)%nat -> Z.of_nat k < r * c ->
  znth 0 (it_track (iter_steps k (new_iter a))) 1 = Z.of_nat k mod c.
Proof.
  intros Hs Hr Hc Hl k Hk1 Hk.
  assert (Hp : pos_shape (shp a)) by (rewrite Hs; repeat constructor; lia).
  assert (Hl' : length (str a) = length (shp a)) by (rewrite Hs; exact Hl).
  assert (Hne : shp a <> []) by (rewrite Hs; discriminate).
  assert (Hsz : size (shp a) = r * c) by (rewrite Hs; cbn [size]; lia).
  assert (Hz : forall x y : Z, znth 0 [x; y] 1 = y).
  { intros x y. unfold znth, zget. replace (1 <? 0) with false by lia.
    replace (Z.to_nat 1) with 1%nat by lia. reflexivity. }
  destruct (ap_is_vectorlike a) eqn:Hv.
  - destruct k as [|k]; [lia|].
    unfold new_iter. rewrite Hv. unfold ap_is_scalar. rewrite Hs. cbn [is_scalar map].
    unfold ap_is_vectorlike in Hv. apply andb_true_iff in Hv as [Hv _].
    unfold is_vectorlike_shape in Hv. rewrite Hs in Hv. cbn [filter] in Hv.
    cbn [first_non_one].
    destruct (r =? 1) eqn:Er; destruct (c =? 1) eqn:Ec; cbn [negb length] in Hv; try discriminate.
    + lia.
    + rewrite (vec_track _ _ _ 1%nat k [0; 0] 0 0 0 eq_refl) by (cbn [size]; lia).
      cbn [upd]. rewrite Hz. rewrite Z.mod_small by lia. lia.
    + rewrite (vec_track _ _ _ 0%nat k [0; 0] 0 0 0 eq_refl) by (cbn [size]; lia).
      cbn [upd]. rewrite Hz. assert (c = 1) as -> by lia. rewrite Z.mod_1_r. reflexivity.
  - destruct (coord_tracks a Hp Hl' Hv Hne k ltac:(lia)) as (_ & _ & Ht & _).
    rewrite Ht by lia. rewrite Hs. cbn [unrank size]. rewrite Hz.
    rewrite Z.mul_1_r, Z.div_1_r. reflexivity.
Qed.

Section Csv.
Variable V : Type.
Variable fillv : V.
Local Notation tval := (tval V).

(* the records WriteCSV flushes, as a function of the element values alone *)
Fixpoint rows_of (c j : Z) (record vs : list V) : list (list V) :=
  match vs with
  | [] => []
  | v :: vs' => if j mod c =? c - 1 then (record ++ [v]) :: rows_of c (j + 1) [] vs'
                else rows_of c (j + 1) (record ++ [v]) vs'
  end.

Lemma rows_of_spec c : 0 < c -> forall vs j record r,
  0 <= j -> zlen record = j mod c -> j + zlen vs = r * c ->
  concat (rows_of c j record vs) = record ++ vs /\
  zlen (rows_of c j record vs) = r - j / c /\
  Forall (fun row => zlen row = c) (rows_of c j record vs).
Proof.
  intro Hc. induction vs as [|v vs IH]; intros j record r Hj Hrec Hlen.
  - cbn [rows_of concat]. unfold zlen in Hlen. cbn [length] in Hlen.
    assert (j = r * c) as -> by lia. rewrite Z.mod_mul in Hrec by lia. rewrite Z.div_mul by lia.
    destruct record; [|unfold zlen in Hrec; cbn [length] in Hrec; lia].
    repeat split; [unfold zlen; cbn [length]; lia|constructor].
  - destruct (succ_div_mod c j Hc) as [Hm Hd]. cbn [rows_of].
    assert (Hlen' : j + 1 + zlen vs = r * c) by (unfold zlen in *; cbn [length] in Hlen; lia).
    destruct (j mod c =? c - 1) eqn:E.
    + destruct (IH (j + 1) [] r ltac:(lia) ltac:(rewrite Hm; reflexivity) Hlen') as (A & B & C).
      cbn [concat]. rewrite A. split; [rewrite <- app_assoc; reflexivity|].
      split.
      * unfold zlen in *. cbn [length]. lia.
      * constructor; [|exact C]. unfold zlen in *. rewrite app_length. cbn [length]. lia.
    + destruct (IH (j + 1) (record ++ [v]) r ltac:(lia)) as (A & B & C).
      * unfold zlen in *. rewrite app_length. cbn [length]. lia.
      * exact Hlen'.
      * rewrite A. split; [rewrite <- app_assoc; reflexivity|]. split; [lia|exact C].
Qed.

(* the field WriteCSV emits for the element at offset o *)
Definition csv_cell (t : tval) (o : Z) : V :=
  if tv_masked V t && nth (Z.to_nat o) (tv_mask V t) false then fillv
  else nth (Z.to_nat o) (tv_data V t) fillv.

Lemma set_nth_last {A} (x v : A) : forall r, set_nth (length r) x (r ++ [v]) = Some (r ++ [x]).
Proof. induction r as [|y r IH]; cbn [length app set_nth]; [reflexivity|]. rewrite IH. reflexivity. Qed.

(* csv_rows for a trace whose coordinate slices show consecutive columns; on a masked tensor the
   field index k is the length of the record under construction *)
Lemma csv_rows_spec (t : tval) c colsel : 0 < c ->
  forall (tr : list (Z * list Z)) j lc record k rows, lc = j mod c ->
  (tv_masked V t = true -> k = length record) ->
  (forall p, In p tr -> 0 <= fst p < zlen (tv_data V t)) ->
  (forall m p, nth_error tr m = Some p -> (S m < length tr)%nat ->
               colsel (snd p) = (j + Z.of_nat m + 1) mod c) ->
  csv_rows V fillv tr t c colsel record k lc rows
  = Some (rev rows ++ rows_of c j record (map (fun p => csv_cell t (fst p)) tr)).
Proof.
  intros Hc. induction tr as [|[i coord] tr IH]; intros j lc record k rows Hlc Hk Hin Hcol.
  - cbn [csv_rows map rows_of]. rewrite app_nil_r. reflexivity.
  - cbn [csv_rows map rows_of fst].
    assert (Hi : 0 <= i < zlen (tv_data V t)) by (apply (Hin (i, coord)); left; reflexivity).
    rewrite (zget_some_nth fillv) by exact Hi.
    match goal with |- context [if tv_masked V t then ?A else ?B] =>
      assert (Hstep : exists k2, (if tv_masked V t then A else B) = Some (record ++ [csv_cell t i], k2) /\
                                 (tv_masked V t = true -> k2 = length (record ++ [csv_cell t i])))
    end.
    { unfold csv_cell. destruct (tv_masked V t) eqn:Hm; cbn [andb].
      - assert (Hml : zlen (tv_mask V t) = zlen (tv_data V t)) by (unfold tv_masked in Hm; lia).
        rewrite (zget_some_nth false) by lia. rewrite (Hk eq_refl).
        destruct (nth (Z.to_nat i) (tv_mask V t) false).
        + rewrite set_nth_last. eexists. split; [reflexivity|].
          intros _. rewrite app_length. cbn [length]. lia.
        + eexists. split; [reflexivity|]. intros _. rewrite app_length. cbn [length]. lia.
      - eexists. split; [reflexivity|]. discriminate. }
    destruct Hstep as (k2 & Hstep & Hk2). rewrite Hstep, Hlc. clear Hstep.
    assert (Hnext : tr <> [] -> colsel coord = (j + 1) mod c).
    { intro Hne.
      assert (Hlt : (1 < length ((i, coord) :: tr))%nat) by (destruct tr; [congruence|cbn [length]; lia]).
      pose proof (Hcol O (i, coord) eq_refl Hlt) as H0. cbn [snd] in H0. rewrite H0. f_equal. lia. }
    assert (Hin' : forall p, In p tr -> 0 <= fst p < zlen (tv_data V t))
      by (intros p Hp; apply Hin; right; exact Hp).
    assert (Hcol' : forall m p, nth_error tr m = Some p -> (S m < length tr)%nat ->
                      colsel (snd p) = (j + 1 + Z.of_nat m + 1) mod c).
    { intros m p Hn Hlt. rewrite (Hcol (S m) p Hn) by (cbn [length]; lia). f_equal. lia. }
    destruct (j mod c =? c - 1) eqn:E.
    + destruct tr as [|q tr'].
      * cbn [csv_rows map rows_of rev]. reflexivity.
      * rewrite (IH (j + 1) (colsel coord) [] O (_ :: rows)
                    (Hnext ltac:(discriminate)) ltac:(reflexivity) Hin' Hcol').
        cbn [rev]. rewrite <- app_assoc. reflexivity.
    + destruct tr as [|q tr'].
      * cbn [csv_rows map rows_of rev]. rewrite app_nil_r. reflexivity.
      * rewrite (IH (j + 1) (colsel coord) _ k2 rows (Hnext ltac:(discriminate)) Hk2 Hin' Hcol').
        reflexivity.
Qed.

(* what ReadCSV builds from what WriteCSV wrote: the cells in LOGICAL order under the source's
   shape, row-major — for every matrix shape, strides and mask *)
Theorem csv_decoded (cp : caps) (t : tval) r c :
  shp (tv_ap V t) = [r; c] -> 0 < r -> 0 < c ->
  length (str (tv_ap V t)) = 2%nat ->
  (forall cd, inbox [r; c] cd -> 0 <= dot (str (tv_ap V t)) cd < zlen (tv_data V t)) ->
  csv_r cp = true ->
  ser_csv V fillv cp t
  = SOk V (mkTV V (mkAP [r; c] (calc_strides [r; c]) 0 true)
                (map (csv_cell t) (offsets (tv_ap V t))) []).
Proof.
  intros Hs Hr Hc Hl Hwin Hcap.
  set (a := tv_ap V t) in *.
  assert (Hp : pos_shape (shp a)) by (rewrite Hs; repeat constructor; lia).
  assert (Hl' : length (str a) = length (shp a)) by (rewrite Hs; exact Hl).
  assert (Hsz : size (shp a) = r * c) by (rewrite Hs; cbn [size]; lia).
  rewrite <- Hs in Hwin.
  destruct (trace_of_spec a Hp Hl') as [Htr _].
  unfold ser_csv. fold a. rewrite Hs, Htr.
  set (tr := tr_of (new_iter a) (offsets a)).
  assert (Hin : forall p, In p tr -> 0 <= fst p < zlen (tv_data V t)).
  { intros p Hin. apply (offsets_in_window a (tv_data V t) Hp Hwin).
    rewrite <- (tr_of_fst (offsets a) (new_iter a)). apply in_map. exact Hin. }
  assert (Hlen : length tr = Z.to_nat (r * c)).
  { unfold tr. rewrite tr_of_length, offsets_length, Hsz. reflexivity. }
  rewrite (csv_rows_spec t c (fun coord => znth 0 coord 1) Hc tr 0 0 [] O []
             ltac:(rewrite Z.mod_0_l by lia; reflexivity) ltac:(reflexivity) Hin).
  2:{ intros m p Hn Hlt. apply tr_of_nth in Hn as [_ Hsnd]. rewrite Hsnd.
      rewrite (csv_column a r c Hs Hr Hc Hl (S m)) by lia. f_equal. lia. }
  cbn [rev app].
  assert (Hoff : offsets a = map fst tr) by (symmetry; apply tr_of_fst).
  rewrite Hoff, map_map.
  set (vs := map (fun p : Z * list Z => csv_cell t (fst p)) tr).
  assert (Hvs : zlen vs = r * c). { unfold vs, zlen. rewrite map_length, Hlen. nia. }
  destruct (rows_of_spec c Hc vs 0 [] r ltac:(lia)
              ltac:(rewrite Z.mod_0_l by lia; reflexivity) ltac:(lia)) as (Hcat & Hrows & Hall).
  rewrite Z.div_0_l, Z.sub_0_r in Hrows by lia. cbn [app] in Hcat.
  destruct (rows_of c 0 [] vs) as [|row0 rows'] eqn:Erows.
  { unfold zlen in Hrows. cbn [length] in Hrows. lia. }
  rewrite <- Erows in *. rewrite Hcap. cbn [negb].
  assert (Hlast : zlen (last (rows_of c 0 [] vs) []) = c).
  { apply (Forall_last (fun row => zlen row = c)); [exact Hall|rewrite Erows; discriminate]. }
  rewrite Hrows, Hlast, Hcat. reflexivity.
Qed.

Lemma csv_decoded_at (t : tval) r c cd :
  shp (tv_ap V t) = [r; c] -> 0 < r -> 0 < c -> inbox [r; c] cd ->
  tv_at V (mkTV V (mkAP [r; c] (calc_strides [r; c]) 0 true)
                (map (csv_cell t) (offsets (tv_ap V t))) []) cd
  = Ok (csv_cell t (dot (str (tv_ap V t)) cd)).
Proof.
  intros Hs Hr Hc Hb.
  assert (Hp : pos_shape [r; c]) by (repeat constructor; lia).
  assert (Hsz : size (shp (tv_ap V t)) = size [r; c]) by (rewrite Hs; reflexivity).
  destruct (rm_at V [r; c] (map (csv_cell t) (offsets (tv_ap V t))) 0 true [] cd Hp Hb) as (v & Hn & Ha).
  { unfold zlen. rewrite map_length, offsets_length, Hsz. pose proof (size_pos _ Hp). lia. }
  rewrite Ha. pose proof (rank_rm_bound _ _ Hp Hb) as Hrk. rewrite <- Hsz in Hrk.
  rewrite nth_error_map, (nth_error_offsets _ _ Hrk), Hs, (unrank_rank _ _ Hp Hb) in Hn.
  cbn [option_map] in Hn. congruence.
Qed.

Theorem csv_roundtrip (cp : caps) (t : tval) r c :
  shp (tv_ap V t) = [r; c] -> 0 < r -> 0 < c ->
  tv_masked V t = false ->
  length (str (tv_ap V t)) = 2%nat ->
  (forall cd, inbox [r; c] cd -> 0 <= dot (str (tv_ap V t)) cd < zlen (tv_data V t)) ->
  csv_r cp = true ->
  exists t', ser_csv V fillv cp t = SOk V t' /\
    shp (tv_ap V t') = [r; c] /\
    tv_mask V t' = [] /\
    tv_logical V t' = tv_logical V t.
Proof.
  intros Hs Hr Hc Hm Hl Hwin Hcap.
  rewrite (csv_decoded cp t r c Hs Hr Hc Hl Hwin Hcap). eexists. split; [reflexivity|].
  cbn [tv_ap tv_mask shp]. split; [reflexivity|]. split; [reflexivity|].
  assert (Hp : pos_shape [r; c]) by (repeat constructor; lia).
  unfold tv_logical at 1 2. cbn [tv_ap shp]. rewrite Hs. apply map_ext_in. intros cd Hcd.
  apply (coords_In _ _ Hp) in Hcd.
  rewrite (csv_decoded_at t r c cd Hs Hr Hc Hcd).
  rewrite (src_at V t cd) by (rewrite Hs; assumption).
  rewrite (zget_some_nth fillv) by (apply Hwin; exact Hcd).
  unfold csv_cell. rewrite Hm. reflexivity.
Qed.

(* CSV carries no mask: the unmasked elements come back, the masked ones as the fill value *)
Theorem csv_roundtrip_masked (cp : caps) (t : tval) r c :
  shp (tv_ap V t) = [r; c] -> 0 < r -> 0 < c ->
  tv_masked V t = true ->
  length (str (tv_ap V t)) = 2%nat ->
  (forall cd, inbox [r; c] cd -> 0 <= dot (str (tv_ap V t)) cd < zlen (tv_data V t)) ->
  csv_r cp = true ->
  exists t', ser_csv V fillv cp t = SOk V t' /\
    shp (tv_ap V t') = [r; c] /\
    tv_mask V t' = [] /\
    forall cd, inbox [r; c] cd ->
      (exists b, tv_maskat V t cd = Ok b) /\
      (tv_maskat V t cd = Ok false -> tv_at V t' cd = tv_at V t cd) /\
      (tv_maskat V t cd = Ok true -> tv_at V t' cd = Ok fillv).
Proof.
  intros Hs Hr Hc Hm Hl Hwin Hcap.
  rewrite (csv_decoded cp t r c Hs Hr Hc Hl Hwin Hcap). eexists. split; [reflexivity|].
  cbn [tv_ap tv_mask shp]. split; [reflexivity|]. split; [reflexivity|]. intros cd Hcd.
  rewrite (csv_decoded_at t r c cd Hs Hr Hc Hcd).
  assert (Hl' : length (str (tv_ap V t)) = length (shp (tv_ap V t))) by (rewrite Hs; exact Hl).
  assert (Hb : inbox (shp (tv_ap V t)) cd) by (rewrite Hs; exact Hcd).
  specialize (Hwin cd Hcd).
  assert (Hml : zlen (tv_mask V t) = zlen (tv_data V t)) by (unfold tv_masked in Hm; lia).
  assert (Hmk : tv_maskat V t cd
                = Ok (nth (Z.to_nat (dot (str (tv_ap V t)) cd)) (tv_mask V t) false)).
  { unfold tv_maskat. rewrite Hm, (at_index_dot _ _ _ Hl' Hb). cbn [negb].
    rewrite (zget_some_nth false) by lia. reflexivity. }
  rewrite (src_at V t cd Hl' Hb), (zget_some_nth fillv) by lia. rewrite Hmk.
  split; [eauto|]. unfold csv_cell. rewrite Hm. cbn [andb].
  split; intro Hbit; injection Hbit as Hbit; rewrite Hbit; reflexivity.
Qed.

(* refusals *)
Theorem csv_not_matrix_refused (cp : caps) (t : tval) :
  length (shp (tv_ap V t)) <> 2%nat -> ser_csv V fillv cp t = SEncErr V.
Proof.
  intro H. unfold ser_csv. destruct (shp (tv_ap V t)) as [|x [|y [|z s]]]; cbn [length] in H; try reflexivity.
  congruence.
Qed.

End Csv.

(* every matrix shape goes through the same theorem: the vector fast paths of the iterator
   ((1,n) and (n,1) with unit strides) included *)
Example csv_vector_paths :
  (exists t', ser_csv Z (-1) caps_all (mkTV Z (mkAP [1; 3] [1; 1] 0 true) [7; 8; 9] []) = SOk Z t' /\
     shp (tv_ap Z t') = [1; 3] /\ tv_logical Z t' = [Ok 7; Ok 8; Ok 9]) /\
  (exists t', ser_csv Z (-1) caps_all (mkTV Z (mkAP [3; 1] [1; 1] 0 true) [7; 8; 9] []) = SOk Z t' /\
     shp (tv_ap Z t') = [3; 1] /\ tv_logical Z t' = [Ok 7; Ok 8; Ok 9]).
Proof. split; eexists; (split; [vm_compute; reflexivity|]); split; vm_compute; reflexivity. Qed.

(* guard 0 < r, 0 < c (and pos_shape in the masked NumPy theorem): over a box with a zero
   dimension the n-d iterator never reports exhaustion (the odometer never carries out of an
   axis of extent 0), so the writers that go through it do not come back; gob is unaffected.
   (An empty tensor counts as masked: len(mask) = len(data) = 0.) *)
Example csv_empty_guard_needed :
  ser_csv Z (-1) caps_all (mkTV Z (mkAP [0; 3] [3; 1] 0 true) [] []) = SEncPanic Z /\
  ser_npy Z 0 (-1) caps_all (mkTV Z (mkAP [0; 3] [3; 1] 0 true) [] []) = SEncPanic Z /\
  exists t', ser_gob Z (mkTV Z (mkAP [0; 3] [3; 1] 0 true) [] []) = SOk Z t'.
Proof. split; [vm_compute; reflexivity|]. split; [vm_compute; reflexivity|]. eexists. vm_compute. reflexivity. Qed.

(* guard length str = 2: a stride vector shorter than the shape makes the iterator panic *)
Example csv_short_strides_guard_needed :
  ser_csv Z (-1) caps_all (mkTV Z (mkAP [2; 2] [2] 0 true) [1; 2; 3; 4] []) = SEncPanic Z.
Proof. vm_compute. reflexivity. Qed.

(* convFromStrs has no case for the kind: refused at decode *)
Example csv_unreadable_dtype_refused :
  ser_csv Z (-1) (mkCaps true true true false) (mkTV Z (mkAP [1; 2] [2; 1] 0 true) [7; 8] []) = SDecErr Z.
Proof. vm_compute. reflexivity. Qed.

(* guard unmasked: CSV carries no mask; masked elements are written as the fill value *)
Example csv_masked_fill :
  exists t', ser_csv Z (-1) caps_all
               (mkTV Z (mkAP [2; 2] [2; 1] 0 true) [1; 2; 3; 4] [false; true; false; false]) = SOk Z t' /\
    shp (tv_ap Z t') = [2; 2] /\ tv_logical Z t' = [Ok 1; Ok (-1); Ok 3; Ok 4].
Proof. eexists. split; [vm_compute; reflexivity|]. split; vm_compute; reflexivity. Qed.

(* a lazily transposed matrix is written by its logical content *)
Example csv_lazy_transpose :
  exists t', ser_csv Z (-1) caps_all lazyT = SOk Z t' /\
    shp (tv_ap Z t') = [3; 2] /\ tv_logical Z t' = tv_logical Z lazyT.
Proof. eexists. split; [vm_compute; reflexivity|]. split; vm_compute; reflexivity. Qed.

(* the column slice of a 3x3: shape [3], strides [3], window of 7 — decoded without error into
   a tensor whose second and third element cannot be read (known finding) *)
Definition col_view : tval Z := mkTV Z (mkAP [3] [3] 0 true) [0;1;2;3;4;5;6] [].
Example pbfb_view_refuted :
  tv_logical Z col_view = [Ok 0; Ok 3; Ok 6] /\
  (forall fb, exists t', ser_pbfb Z 0 fb col_view = SOk Z t' /\
     shp (tv_ap Z t') = [3] /\ tv_logical Z t' = [Ok 0; Panic; Panic]).
Proof.
  split; [vm_compute; reflexivity|]. intros [|]; eexists; (split; [vm_compute; reflexivity|]);
  split; vm_compute; reflexivity.
Qed.

(* flatbuffers with MORE strides than dimensions: the extra entries come back as zeros *)
Example fb_long_strides_guard_needed :
  exists t', ser_pbfb Z 0 true (mkTV Z (mkAP [2] [1; 5] 0 true) [7; 8] []) = SOk Z t' /\
    str (tv_ap Z t') = [1; 0].
Proof. eexists. split; vm_compute; reflexivity. Qed.

(* ====================================================================================== *)
(*  the common case, all five formats                                                     *)
(* ====================================================================================== *)
Theorem all_formats_plain {V} (vzero fillv : V) (f : sfmt) (cp : caps) (t : tval V) :
  npy_w cp = true -> npy_r cp = true -> npy_case cp = true -> csv_r cp = true ->
  tv_mask V t = [] ->
  pos_shape (shp (tv_ap V t)) ->
  str (tv_ap V t) = calc_strides (shp (tv_ap V t)) ->
  zlen (tv_data V t) = size (shp (tv_ap V t)) ->
  (f = FCsv -> length (shp (tv_ap V t)) = 2%nat) ->
  exists t', ser_model vzero fillv f cp t = SOk V t' /\
    shp (tv_ap V t') = shp (tv_ap V t) /\
    tv_logical V t' = tv_logical V t.
Proof.
  intros Hw Hr Hc Hcsv Hm Hp Hst Hd H2.
  pose proof (size_pos _ Hp) as Hsz.
  assert (Hmk : tv_masked V t = false).
  { unfold tv_masked. rewrite Hm. unfold zlen at 1. cbn [length]. lia. }
  assert (Hl : length (str (tv_ap V t)) = length (shp (tv_ap V t)))
    by (rewrite Hst; apply calc_strides_length).
  destruct f; cbn [ser_model].
  - destruct (gob_roundtrip V t (or_introl Hd) (or_introl Hm)) as (t' & E & A & _ & _ & _ & _ & B & _).
    eauto.
  - destruct (npy_roundtrip_plain V vzero fillv cp t Hw Hr Hc Hmk Hst Hd (pos_shape_nonneg _ Hp))
      as (t' & E & A & _ & _ & B). eauto.
  - specialize (H2 eq_refl). destruct (shp (tv_ap V t)) as [|r [|c [|? ?]]] eqn:Es; try discriminate.
    inversion Hp as [|? ? Hr1 Hp']; subst. inversion Hp' as [|? ? Hc1 _]; subst.
    destruct (csv_roundtrip V fillv cp t r c Es ltac:(lia) ltac:(lia) Hmk) as (t' & E & A & _ & B); auto.
    + intros cd Hb. rewrite Hst, <- rk_dot, Hd. apply rk_bound; assumption.
    + eauto.
  - destruct (pbfb_roundtrip V vzero false t Hd ltac:(discriminate)) as (t' & E & A & _ & _ & B & _).
    eauto.
  - destruct (pbfb_roundtrip V vzero true t Hd (fun _ => Hl)) as (t' & E & A & _ & _ & B & _).
    eauto.
Qed.
