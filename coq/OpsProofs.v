(* OpsProofs.v — proofs about the engine-glue MODEL of Ops.v (C06 / C07 / C11 / C12).
   The element type V and the scalar operation f : V -> V -> V are arbitrary.
   Layers:
     1. store primitives (peek / poke), Q1 frame lemmas for run_asgs (any cellf);
     2. the "parallel semantics" theorem run_asgs_par and the single-destination schema;
     3. kernel meaning lemmas (Q2);
     4. wf_dense / cell and the engine-level theorems (Q3 - Q6). *)
From TV Require Import Base Index AP Iter Mem Spec Ops IndexProofs IterProofs APProofs.
From Coq Require Import ZifyBool.

Arguments Z.mul : simpl never.
Arguments Z.add : simpl never.
Arguments Z.sub : simpl never.
Arguments Z.leb : simpl never.
Arguments Z.ltb : simpl never.
Arguments Z.eqb : simpl never.
Arguments Z.div : simpl never.
Arguments Z.modulo : simpl never.
Arguments Z.min : simpl never.
Arguments Z.of_nat : simpl never.
Arguments Z.to_nat : simpl never.
Arguments Z.testbit : simpl never.

(* ====================================================================================== *)
(*  0. generic list facts                                                                 *)
(* ====================================================================================== *)
Lemma nth_upd_same {A} (l : list A) n v d : (n < length l)%nat -> nth n (upd l n v) d = v.
Proof. revert n; induction l as [|h t IH]; intros [|n] H; cbn in *; try lia; auto. apply IH; lia. Qed.

Lemma nth_upd_other {A} (l : list A) n m v d : n <> m -> nth m (upd l n v) d = nth m l d.
Proof. revert n m; induction l as [|h t IH]; intros [|n] [|m] H; cbn; auto; congruence. Qed.

Lemma zget_upd_same {A} (l : list A) p v : 0 <= p < zlen l -> zget (upd l (Z.to_nat p) v) p = Some v.
Proof.
  intro H. rewrite zget_nth_error by lia. apply nth_error_upd_same. unfold zlen in H. lia.
Qed.

Lemma zget_upd_other {A} (l : list A) p q v : 0 <= p -> p <> q -> zget (upd l (Z.to_nat p) v) q = zget l q.
Proof.
  intros Hp Hne. unfold zget. destruct (q <? 0) eqn:E; [reflexivity|].
  apply nth_error_upd_other. lia.
Qed.

Lemma zset_inv {A} (l l' : list A) p v : zset l p v = Some l' -> 0 <= p < zlen l /\ l' = upd l (Z.to_nat p) v.
Proof.
  unfold zset. destruct ((p <? 0) || (zlen l <=? p)) eqn:E; [discriminate|].
  intro H. injection H as <-. split; [lia|reflexivity].
Qed.

Lemma zget_none {A} (l : list A) p : ~ (0 <= p < zlen l) -> zget l p = None.
Proof.
  intro H. destruct (zget l p) eqn:E; [|reflexivity]. apply zget_range in E. contradiction.
Qed.

Lemma ForallOrdPairs_NoDup_map {A B} (R : A -> A -> Prop) (P : A -> Prop) (key : A -> B) (l : list A) :
  Forall P l -> NoDup (map key l) ->
  (forall a a', P a -> P a' -> key a <> key a' -> R a a') ->
  ForallOrdPairs R l.
Proof.
  intros HP Hnd HR. induction l as [|a l IH]; [constructor|].
  inversion HP as [|? ? Pa Pl]; subst. cbn [map] in Hnd. inversion Hnd as [|? ? Hni Hnd']; subst.
  constructor; [|apply IH; assumption].
  rewrite Forall_forall in Pl |- *. intros a' Hin. apply HR; auto.
  intro Heq. apply Hni. rewrite Heq. apply in_map. exact Hin.
Qed.

Fixpoint zip2_map_l {A} (fa fb : A -> Z) (l : list A) :
  zip2 (map fa l) (map fb l) = map (fun c => (fa c, fb c)) l.
Proof. destruct l as [|x l]; cbn [map zip2]; [reflexivity|]. f_equal. apply zip2_map_l. Qed.

Fixpoint zip3_map_l {A} (fa fb fc : A -> Z) (l : list A) :
  zip3 (map fa l) (map fb l) (map fc l) = map (fun c => (fa c, fb c, fc c)) l.
Proof. destruct l as [|x l]; cbn [map zip3]; [reflexivity|]. f_equal. apply zip3_map_l. Qed.

Lemma zip2_fst_In : forall (a b : list Z) i j, In (i, j) (zip2 a b) -> In i a /\ In j b.
Proof.
  induction a as [|x a IH]; intros [|y b] i j H; cbn [zip2] in H; try contradiction.
  destruct H as [H|H]; [injection H as <- <-; split; left; reflexivity|].
  apply IH in H. destruct H; split; right; assumption.
Qed.

Lemma zip2_NoDup_fst : forall (a b : list Z), NoDup a -> NoDup (map fst (zip2 a b)).
Proof.
  induction a as [|x a IH]; intros [|y b] H; cbn [zip2 map]; try constructor.
  - inversion H as [|? ? Hni Hnd]; subst. intro Hin. apply in_map_iff in Hin.
    destruct Hin as [[i j] [Heq Hin]]. cbn in Heq. subst i. apply zip2_fst_In in Hin. tauto.
  - inversion H; subst. apply IH. assumption.
Qed.

Lemma zip2_NoDup_snd : forall (a b : list Z), NoDup b -> NoDup (map snd (zip2 a b)).
Proof.
  induction a as [|x a IH]; intros [|y b] H; cbn [zip2 map]; try constructor.
  - inversion H as [|? ? Hni Hnd]; subst. intro Hin. apply in_map_iff in Hin.
    destruct Hin as [[i j] [Heq Hin]]. cbn in Heq. subst j. apply zip2_fst_In in Hin. tauto.
  - inversion H; subst. apply IH. assumption.
Qed.

Lemma zip3_In : forall (a b c : list Z) i j k, In (i, j, k) (zip3 a b c) -> In i a /\ In j b /\ In k c.
Proof.
  induction a as [|x a IH]; intros [|y b] [|z c] i j k H; cbn [zip3] in H; try contradiction.
  destruct H as [H|H]; [injection H as <- <- <-; repeat split; left; reflexivity|].
  apply IH in H. destruct H as (?&?&?); repeat split; right; assumption.
Qed.

Lemma zip3_NoDup_3 : forall (a b c : list Z), NoDup c -> NoDup (map snd (zip3 a b c)).
Proof.
  induction a as [|x a IH]; intros [|y b] [|z c] H; cbn [zip3 map]; try constructor.
  - inversion H as [|? ? Hni Hnd]; subst. intro Hin. apply in_map_iff in Hin.
    destruct Hin as [[[i j] k] [Heq Hin]]. cbn in Heq. subst k. apply zip3_In in Hin. tauto.
  - inversion H; subst. apply IH. assumption.
Qed.

(* ====================================================================================== *)
(*  1. store primitives                                                                   *)
(* ====================================================================================== *)
Section Store.
Variable V : Type.
Variable vzero : V.
Variable vadd : V -> V -> V.

Notation store := (store V).
Notation get_buf := (get_buf V).
Notation set_buf := (set_buf V).
Notation win_get := (win_get V).
Notation win_set := (win_set V).
Notation cap_get := (cap_get V).
Notation cap_set := (cap_set V).
Notation tens := (tens V).
Notation bufs := (bufs V).
Notation asg := (asg V).
Notation src := (src V).
Notation a_dst := (a_dst V).
Notation a_cap := (a_cap V).
Notation a_k := (a_k V).
Notation a_kz := (a_kz V).
Notation a_x := (a_x V).
Notation a_y := (a_y V).
Notation a_acc := (a_acc V).
Notation rd := (rd V).
Notation wr := (wr V).
Notation rdd := (rdd V).
Notation run_asgs := (run_asgs V vzero vadd).

(* absolute addressing: cell p of allocation b *)
Definition peek (σ : store) (b : nat) (p : Z) : option V := zget (get_buf σ b) p.
Definition poke (σ : store) (b : nat) (p : Z) (v : V) : option store :=
  match zset (get_buf σ b) p v with Some l => Some (set_buf σ b l) | None => None end.

(* index guard of a slice access: within the length, or (after a reslice) only non-negative *)
Definition inr_ (d : dense) (cap : bool) (k : Z) : bool :=
  if cap then negb (k <? 0) else negb ((k <? 0) || (d_len d <=? k)).

Lemma rdd_eq σ d cap k :
  rdd σ d cap k = if inr_ d cap k then peek σ (d_buf d) (d_off d + k) else None.
Proof.
  unfold rdd, inr_, Mem.cap_get, Mem.win_get, peek. destruct cap.
  - destruct (k <? 0); reflexivity.
  - destruct ((k <? 0) || (d_len d <=? k)); reflexivity.
Qed.

Lemma wr_eq σ d cap k v :
  wr σ d cap k v = if inr_ d cap k then poke σ (d_buf d) (d_off d + k) v else None.
Proof.
  unfold wr, inr_, Mem.cap_set, Mem.win_set, poke. destruct cap.
  - destruct (k <? 0); reflexivity.
  - destruct ((k <? 0) || (d_len d <=? k)); reflexivity.
Qed.

Lemma win_get_eq σ d i : win_get σ d i = rdd σ d false i.
Proof. reflexivity. Qed.
Lemma cap_get_eq σ d i : cap_get σ d i = rdd σ d true i.
Proof. reflexivity. Qed.

Lemma win_get_peek σ d i : 0 <= i < d_len d -> win_get σ d i = peek σ (d_buf d) (d_off d + i).
Proof. intro H. rewrite win_get_eq, rdd_eq. unfold inr_. replace ((i <? 0) || (d_len d <=? i)) with false by lia. reflexivity. Qed.

Lemma win_get_out σ d i : ~ (0 <= i < d_len d) -> win_get σ d i = None.
Proof. intro H. rewrite win_get_eq, rdd_eq. unfold inr_. replace ((i <? 0) || (d_len d <=? i)) with true by lia. reflexivity. Qed.

Lemma get_buf_lt σ b : get_buf σ b <> [] -> (b < length (bufs σ))%nat.
Proof.
  intro H. destruct (Nat.lt_ge_cases b (length (bufs σ))) as [Hlt|Hge]; [exact Hlt|].
  exfalso. apply H. unfold Mem.get_buf. apply nth_overflow. exact Hge.
Qed.

Lemma poke_inv σ b p v σ' : poke σ b p v = Some σ' ->
  0 <= p < zlen (get_buf σ b) /\
  tens σ' = tens σ /\ length (bufs σ') = length (bufs σ) /\
  (forall b', b' <> b -> get_buf σ' b' = get_buf σ b') /\
  (forall b', length (get_buf σ' b') = length (get_buf σ b')) /\
  peek σ' b p = Some v /\
  (forall b' p', (b', p') <> (b, p) -> peek σ' b' p' = peek σ b' p').
Proof.
  unfold poke. destruct (zset (get_buf σ b) p v) as [l|] eqn:E; [|discriminate].
  intro H. injection H as <-. apply zset_inv in E. destruct E as [Hr ->].
  assert (Hb : (b < length (bufs σ))%nat).
  { apply get_buf_lt. intro Hn. rewrite Hn in Hr. unfold zlen in Hr. cbn in Hr. lia. }
  assert (Hsame : get_buf (set_buf σ b (upd (get_buf σ b) (Z.to_nat p) v)) b = upd (get_buf σ b) (Z.to_nat p) v).
  { unfold Mem.get_buf at 1, Mem.set_buf. cbn [Mem.bufs]. apply nth_upd_same. exact Hb. }
  assert (Hoth : forall b', b' <> b -> get_buf (set_buf σ b (upd (get_buf σ b) (Z.to_nat p) v)) b' = get_buf σ b').
  { intros b' Hne. unfold Mem.get_buf at 1, Mem.set_buf. cbn [Mem.bufs]. rewrite nth_upd_other by congruence. reflexivity. }
  split; [exact Hr|]. split; [reflexivity|].
  split; [unfold Mem.set_buf; cbn [Mem.bufs]; apply upd_length|].
  split; [exact Hoth|].
  split.
  { intro b'. destruct (Nat.eq_dec b' b) as [->|Hne].
    - rewrite Hsame. apply upd_length.
    - rewrite Hoth by exact Hne. reflexivity. }
  split.
  { unfold peek. rewrite Hsame. apply zget_upd_same. exact Hr. }
  intros b' p' Hne. unfold peek. destruct (Nat.eq_dec b' b) as [->|Hnb].
  - rewrite Hsame. apply zget_upd_other; [lia|]. intro Hq. apply Hne. congruence.
  - rewrite Hoth by exact Hnb. reflexivity.
Qed.

Lemma poke_ok σ b p v : 0 <= p < zlen (get_buf σ b) -> exists σ', poke σ b p v = Some σ'.
Proof. intro H. unfold poke. rewrite zset_spec by exact H. eauto. Qed.

Lemma peek_some_range σ b p v : peek σ b p = Some v -> 0 <= p < zlen (get_buf σ b).
Proof. apply zget_range. Qed.

Lemma peek_range_some σ b p : 0 <= p < zlen (get_buf σ b) -> exists v, peek σ b p = Some v.
Proof. apply zget_some. Qed.

(* a buffer is determined by its cells *)
Lemma buf_ext σ σ' b :
  (forall p, peek σ' b p = peek σ b p) -> get_buf σ' b = get_buf σ b.
Proof.
  intro H. apply nth_error_ext_eq. intro k. specialize (H (Z.of_nat k)).
  unfold peek in H. rewrite !zget_nth_error in H by lia. rewrite Nat2Z.id in H. exact H.
Qed.

(* ====================================================================================== *)
(*  Q1. frame lemmas for run_asgs — any scalar operation g                                *)
(* ====================================================================================== *)
Definition src_loc (s : src) : option (nat * Z) :=
  match s with
  | SLen _ d i => Some (d_buf d, d_off d + i)
  | SCap _ d i => Some (d_buf d, d_off d + i)
  | SConst _ _ => None
  end.
Definition dloc (a : asg) : nat * Z := (d_buf (a_dst a), d_off (a_dst a) + a_k a).
Definition dlocz (a : asg) : nat * Z := (d_buf (a_dst a), d_off (a_dst a) + a_kz a).

Lemma rd_eq σ s :
  rd σ s = match s with
           | SLen _ d i => rdd σ d false i
           | SCap _ d i => rdd σ d true i
           | SConst _ v => Some v
           end.
Proof. destruct s; reflexivity. Qed.

(* one step of the loop, whatever the branch taken *)
Lemma run_asgs_cons_inv g σ a r e σ' e' :
  run_asgs g σ (a :: r) e = Some (σ', e') ->
  exists σ1 kk w e1,
    wr σ (a_dst a) (a_cap a) kk w = Some σ1 /\ (kk = a_k a \/ kk = a_kz a) /\
    run_asgs g σ1 r e1 = Some (σ', e') /\
    ((forall x y, exists v, g x y = CV V v) -> e1 = e /\ kk = a_k a).
Proof.
  cbn [Ops.run_asgs].
  destruct (rd σ (a_x a)) as [x|]; [|discriminate].
  destruct (rd σ (a_y a)) as [y|]; [|discriminate].
  destruct (g x y) as [v| |] eqn:Eg; [| |discriminate].
  - destruct (if a_acc a then match rdd σ (a_dst a) (a_cap a) (a_k a) with Some o => Some (vadd o v) | None => None end else Some v)
      as [w|]; [|discriminate].
    destruct (wr σ (a_dst a) (a_cap a) (a_k a) w) as [σ1|] eqn:Ew; [|discriminate].
    intro H. exists σ1, (a_k a), w, e. auto.
  - destruct (wr σ (a_dst a) (a_cap a) (a_kz a) vzero) as [σ1|] eqn:Ew; [|discriminate].
    intro H. exists σ1, (a_kz a), vzero, true.
    split; [exact Ew|]. split; [right; reflexivity|]. split; [exact H|].
    intro Ht. destruct (Ht x y) as [v Hv]. congruence.
Qed.

Lemma wr_inv σ d cap k v σ' : wr σ d cap k v = Some σ' ->
  inr_ d cap k = true /\ poke σ (d_buf d) (d_off d + k) v = Some σ'.
Proof. rewrite wr_eq. destruct (inr_ d cap k); [auto|discriminate]. Qed.

(* (a) tensors never change, (b) buffers that are not a destination are unchanged,
   (c) inside a destination buffer only the listed positions can change; allocation sizes are
   kept *)
Theorem run_asgs_frame g : forall l σ e σ' e',
  run_asgs g σ l e = Some (σ', e') ->
  tens σ' = tens σ /\ length (bufs σ') = length (bufs σ) /\
  (forall b, length (get_buf σ' b) = length (get_buf σ b)) /\
  (forall b, (forall a, In a l -> d_buf (a_dst a) <> b) -> get_buf σ' b = get_buf σ b) /\
  (forall b p, (forall a, In a l -> dloc a <> (b, p) /\ dlocz a <> (b, p)) -> peek σ' b p = peek σ b p).
Proof.
  induction l as [|a r IH]; intros σ e σ' e' H.
  - cbn in H. injection H as <- <-. repeat split; reflexivity.
  - apply run_asgs_cons_inv in H. destruct H as (σ1 & kk & w & e1 & Hw & Hkk & Hr & _).
    apply wr_inv in Hw. destruct Hw as [_ Hp]. apply poke_inv in Hp.
    destruct Hp as (_ & Ht & Hl & Hoth & Hlen & _ & Hpk).
    apply IH in Hr. destruct Hr as (Ht' & Hl' & Hlen' & Hoth' & Hpk').
    split; [congruence|]. split; [congruence|].
    split; [intro b; rewrite Hlen', Hlen; reflexivity|].
    split.
    + intros b Hb. rewrite Hoth'; [apply Hoth|].
      * intro Hq. apply (Hb a); [left; reflexivity|auto].
      * intros a' Hin. apply Hb. right. exact Hin.
    + intros b p Hb. rewrite Hpk'; [apply Hpk|].
      * destruct (Hb a (or_introl eq_refl)) as [H1 H2]. unfold dloc, dlocz in H1, H2.
        destruct Hkk as [-> | ->]; congruence.
      * intros a' Hin. apply Hb. right. exact Hin.
Qed.

(* (d) a total scalar operation never raises the kernel error *)
Theorem run_asgs_err_total g : (forall x y, exists v, g x y = CV V v) ->
  forall l σ e σ' e', run_asgs g σ l e = Some (σ', e') -> e' = e.
Proof.
  intros Ht. induction l as [|a r IH]; intros σ e σ' e' H.
  - cbn in H. injection H as <- <-. reflexivity.
  - apply run_asgs_cons_inv in H. destruct H as (σ1 & kk & w & e1 & _ & _ & Hr & He).
    destruct (He Ht) as [-> _]. eapply IH. exact Hr.
Qed.

(* with a total operation only the a_k positions are written *)
Theorem run_asgs_frame_total g : (forall x y, exists v, g x y = CV V v) ->
  forall l σ e σ' e', run_asgs g σ l e = Some (σ', e') ->
  forall b p, (forall a, In a l -> dloc a <> (b, p)) -> peek σ' b p = peek σ b p.
Proof.
  intros Ht. induction l as [|a r IH]; intros σ e σ' e' H b p Hb.
  - cbn in H. injection H as <- <-. reflexivity.
  - apply run_asgs_cons_inv in H. destruct H as (σ1 & kk & w & e1 & Hw & _ & Hr & He).
    destruct (He Ht) as [-> ->].
    apply wr_inv in Hw. destruct Hw as [_ Hp]. apply poke_inv in Hp.
    destruct Hp as (_ & _ & _ & _ & _ & _ & Hpk).
    rewrite (IH _ _ _ _ Hr b p); [apply Hpk|].
    + intro Hq. apply (Hb a (or_introl eq_refl)). unfold dloc. congruence.
    + intros a' Hin. apply Hb. right. exact Hin.
Qed.

(* ====================================================================================== *)
(*  2. the parallel-semantics theorem for a total operation f                             *)
(* ====================================================================================== *)
Section Par.
Variable f : V -> V -> V.
Definition gf : cellf V := fun x y => CV V (f x y).

Lemma gf_total : forall x y, exists v, gf x y = CV V v.
Proof. intros x y. exists (f x y). reflexivity. Qed.

(* the value an assignment computes when all its reads are taken in σ *)
Definition asg_val (σ : store) (a : asg) : option V :=
  match rd σ (a_x a), rd σ (a_y a) with
  | Some x, Some y =>
    if a_acc a then match rdd σ (a_dst a) (a_cap a) (a_k a) with
                    | Some o => Some (vadd o (f x y))
                    | None => None
                    end
    else Some (f x y)
  | _, _ => None
  end.

(* a executed BEFORE a': a's write is not seen by a' and not overwritten by a' *)
Definition indep (a a' : asg) : Prop :=
  dloc a <> dloc a' /\ src_loc (a_x a') <> Some (dloc a) /\ src_loc (a_y a') <> Some (dloc a).

Definition asg_ok (σ : store) (a : asg) : Prop :=
  asg_val σ a <> None /\ rdd σ (a_dst a) (a_cap a) (a_k a) <> None.

Lemma rdd_poke_other σ b p v σ1 d cap k :
  poke σ b p v = Some σ1 -> (d_buf d, d_off d + k) <> (b, p) -> rdd σ1 d cap k = rdd σ d cap k.
Proof.
  intros Hp Hne. apply poke_inv in Hp. destruct Hp as (_ & _ & _ & _ & _ & _ & Hpk).
  rewrite !rdd_eq. destruct (inr_ d cap k); [|reflexivity]. apply Hpk. exact Hne.
Qed.

Lemma rd_poke_other σ b p v σ1 s :
  poke σ b p v = Some σ1 -> src_loc s <> Some (b, p) -> rd σ1 s = rd σ s.
Proof.
  intros Hp Hne. rewrite !rd_eq. destruct s as [d i|d i|c]; cbn [src_loc] in Hne; try reflexivity;
  eapply rdd_poke_other; eauto; congruence.
Qed.

Lemma asg_val_poke_other σ a v σ1 a' :
  poke σ (d_buf (a_dst a)) (d_off (a_dst a) + a_k a) v = Some σ1 -> indep a a' -> asg_val σ1 a' = asg_val σ a'.
Proof.
  intros Hp (H1 & H2 & H3). unfold dloc in H1, H2, H3. unfold asg_val.
  rewrite (rd_poke_other _ _ _ _ _ _ Hp H2), (rd_poke_other _ _ _ _ _ _ Hp H3).
  rewrite (rdd_poke_other _ _ _ _ _ (a_dst a') (a_cap a') (a_k a') Hp); [reflexivity|].
  congruence.
Qed.

Theorem run_asgs_par : forall l σ e,
  ForallOrdPairs indep l -> Forall (asg_ok σ) l ->
  exists σ', run_asgs gf σ l e = Some (σ', e) /\
    (forall a, In a l -> peek σ' (d_buf (a_dst a)) (d_off (a_dst a) + a_k a) = asg_val σ a).
Proof.
  induction l as [|a r IH]; intros σ e Hind Hok.
  - exists σ. split; [reflexivity|]. intros a [].
  - inversion Hind as [|? ? Hia Hir]; subst. inversion Hok as [|? ? Hoa Hor]; subst.
    destruct Hoa as [Hva Hwa].
    destruct (asg_val σ a) as [w|] eqn:Ev; [|congruence].
    (* the write succeeds *)
    assert (Hwr : exists σ1, wr σ (a_dst a) (a_cap a) (a_k a) w = Some σ1 /\ poke σ (d_buf (a_dst a)) (d_off (a_dst a) + a_k a) w = Some σ1).
    { rewrite wr_eq. rewrite rdd_eq in Hwa. destruct (inr_ (a_dst a) (a_cap a) (a_k a)); [|congruence].
      destruct (peek σ (d_buf (a_dst a)) (d_off (a_dst a) + a_k a)) eqn:Epk; [|congruence].
      apply peek_some_range in Epk. destruct (poke_ok σ _ _ w Epk) as [σ1 H1]. exists σ1. split; exact H1. }
    destruct Hwr as (σ1 & Hwr & Hpk).
    (* later assignments compute the same values in σ1 *)
    assert (Hsame : forall a', In a' r -> asg_val σ1 a' = asg_val σ a').
    { intros a' Hin. eapply asg_val_poke_other; [exact Hpk|]. rewrite Forall_forall in Hia. auto. }
    assert (Hok1 : Forall (asg_ok σ1) r).
    { rewrite Forall_forall in Hor |- *. intros a' Hin. destruct (Hor a' Hin) as [Hv Hw]. split.
      - rewrite Hsame by exact Hin. exact Hv.
      - rewrite Forall_forall in Hia. destruct (Hia a' Hin) as (Hd & _ & _).
        rewrite (rdd_poke_other _ _ _ _ _ _ _ _ Hpk); [exact Hw|].
        unfold dloc in Hd. congruence. }
    destruct (IH σ1 e Hir Hok1) as (σ' & Hrun & Hvals).
    exists σ'. split.
    + cbn [Ops.run_asgs]. unfold asg_val in Ev.
      destruct (rd σ (a_x a)) as [x|]; [|discriminate].
      destruct (rd σ (a_y a)) as [y|]; [|discriminate].
      unfold gf at 1. cbv beta.
      destruct (a_acc a).
      * destruct (rdd σ (a_dst a) (a_cap a) (a_k a)) as [o|]; [|discriminate].
        injection Ev as <-. rewrite Hwr. exact Hrun.
      * injection Ev as <-. rewrite Hwr. exact Hrun.
    + intros a' [<-|Hin].
      * rewrite (run_asgs_frame_total gf gf_total _ _ _ _ _ Hrun).
        -- apply poke_inv in Hpk. destruct Hpk as (_ & _ & _ & _ & _ & Hs & _). rewrite Hs. symmetry. exact Ev.
        -- intros a' Hin. rewrite Forall_forall in Hia. destruct (Hia a' Hin) as (Hd & _).
           unfold dloc in *. congruence.
      * rewrite Hvals by exact Hin. apply Hsame. exact Hin.
Qed.

(* ---------- the single-destination schema ---------- *)
(* the window lies inside its allocation *)
Definition in_buf (σ : store) (d : dense) : Prop :=
  0 <= d_off d /\ d_off d + d_len d <= zlen (get_buf σ (d_buf d)).
(* NO ALIASING: different allocations or disjoint windows *)
Definition sep (D E : dense) : Prop :=
  d_buf D <> d_buf E \/ d_off D + d_len D <= d_off E \/ d_off E + d_len E <= d_off D.

Lemma sep_sym D E : sep D E -> sep E D.
Proof. unfold sep. intros [H|[H|H]]; [left; congruence|right; right; exact H|right; left; exact H]. Qed.

(* a source of an assignment writing D[k]: a constant, D[k] itself (read-then-write at the
   same index), or an in-window cell of a tensor that does not alias D *)
Definition src_good (σ : store) (D : dense) (k : Z) (s : src) : Prop :=
  match s with
  | SConst _ _ => True
  | SLen _ E i | SCap _ E i =>
    (E = D /\ i = k) \/ (sep D E /\ in_buf σ E /\ 0 <= i < d_len E)
  end.

Definition asg_good (σ : store) (D : dense) (cap : bool) (a : asg) : Prop :=
  a_dst a = D /\ a_cap a = cap /\ 0 <= a_k a < d_len D /\
  src_good σ D (a_k a) (a_x a) /\ src_good σ D (a_k a) (a_y a).

Lemma in_buf_rdd σ d cap i : in_buf σ d -> 0 <= i < d_len d -> rdd σ d cap i <> None.
Proof.
  intros [H0 H1] Hi. rewrite rdd_eq. unfold inr_.
  replace (negb (i <? 0)) with true by lia.
  replace (negb ((i <? 0) || (d_len d <=? i))) with true by lia.
  destruct (peek_range_some σ (d_buf d) (d_off d + i)) as [v Hv]; [lia|].
  destruct cap; congruence.
Qed.

Lemma cap_get_win σ d i : 0 <= i < d_len d -> cap_get σ d i = win_get σ d i.
Proof.
  intro H. rewrite cap_get_eq, win_get_eq, !rdd_eq. unfold inr_.
  replace (negb (i <? 0)) with true by lia.
  replace (negb ((i <? 0) || (d_len d <=? i))) with true by lia. reflexivity.
Qed.

Lemma src_good_rd σ D k s : in_buf σ D -> 0 <= k < d_len D -> src_good σ D k s -> rd σ s <> None.
Proof.
  intros HD Hk Hs. rewrite rd_eq. destruct s as [E i|E i|c]; cbn [src_good] in Hs; [| |congruence].
  - destruct Hs as [[-> ->]|(_ & HE & Hi)]; apply in_buf_rdd; assumption.
  - destruct Hs as [[-> ->]|(_ & HE & Hi)]; apply in_buf_rdd; assumption.
Qed.

Lemma src_good_loc σ D k s : src_good σ D k s -> 0 <= k < d_len D ->
  forall k', 0 <= k' < d_len D -> k' <> k -> src_loc s <> Some (d_buf D, d_off D + k').
Proof.
  intros Hs Hk k' Hk' Hne. destruct s as [E i|E i|c]; cbn [src_good src_loc] in *; [| |congruence].
  - intro Hq. assert (Hb : d_buf E = d_buf D) by congruence. assert (Hp : d_off E + i = d_off D + k') by congruence.
    destruct Hs as [[-> ->]|(Hsep & _ & Hi)]; [lia|].
    unfold sep in Hsep. destruct Hsep as [H|[H|H]]; [congruence|lia|lia].
  - intro Hq. assert (Hb : d_buf E = d_buf D) by congruence. assert (Hp : d_off E + i = d_off D + k') by congruence.
    destruct Hs as [[-> ->]|(Hsep & _ & Hi)]; [lia|].
    unfold sep in Hsep. destruct Hsep as [H|[H|H]]; [congruence|lia|lia].
Qed.

Definition frame_ok (σ σ' : store) (D : dense) : Prop :=
  tens σ' = tens σ /\ length (bufs σ') = length (bufs σ) /\
  (forall b, length (get_buf σ' b) = length (get_buf σ b)) /\
  (forall b, b <> d_buf D -> get_buf σ' b = get_buf σ b) /\
  (forall E i, sep D E -> win_get σ' E i = win_get σ E i) /\
  (* nothing outside D's window is written *)
  (forall p, ~ (d_off D <= p < d_off D + d_len D) -> peek σ' (d_buf D) p = peek σ (d_buf D) p).

Theorem schema σ D cap l e :
  in_buf σ D -> Forall (asg_good σ D cap) l -> NoDup (map a_k l) ->
  exists σ', run_asgs gf σ l e = Some (σ', e) /\ frame_ok σ σ' D /\
    (forall a, In a l -> win_get σ' D (a_k a) = asg_val σ a) /\
    (forall b p, (b = d_buf D -> forall a, In a l -> p <> d_off D + a_k a) -> peek σ' b p = peek σ b p).
Proof.
  intros HD Hgood Hnd.
  assert (Hind : ForallOrdPairs indep l).
  { apply (ForallOrdPairs_NoDup_map indep (asg_good σ D cap) a_k l Hgood Hnd).
    intros a a' (Hd & _ & Hk & _ & _) (Hd' & _ & Hk' & Hx' & Hy') Hne.
    unfold indep, dloc. rewrite Hd, Hd'. split; [intro Hq; injection Hq as Hq; lia|].
    split; eapply src_good_loc; eauto. }
  assert (Hok : Forall (asg_ok σ) l).
  { rewrite Forall_forall in Hgood |- *. intros a Hin.
    destruct (Hgood a Hin) as (Hd & Hc & Hk & Hx & Hy).
    assert (Hw : rdd σ (a_dst a) (a_cap a) (a_k a) <> None) by (rewrite Hd; apply in_buf_rdd; assumption).
    split; [|exact Hw]. unfold asg_val.
    pose proof (src_good_rd σ D _ _ HD Hk Hx) as H1. pose proof (src_good_rd σ D _ _ HD Hk Hy) as H2.
    destruct (rd σ (a_x a)); [|congruence]. destruct (rd σ (a_y a)); [|congruence].
    destruct (a_acc a); [|congruence].
    destruct (rdd σ (a_dst a) (a_cap a) (a_k a)); congruence. }
  destruct (run_asgs_par l σ e Hind Hok) as (σ' & Hrun & Hvals).
  pose proof (run_asgs_frame gf l σ e σ' e Hrun) as (Ht & Hl & Hlen & Hoth & _).
  pose proof (run_asgs_frame_total gf gf_total l σ e σ' e Hrun) as Hfr.
  assert (Hpk : forall b p, (b = d_buf D -> forall a, In a l -> p <> d_off D + a_k a) -> peek σ' b p = peek σ b p).
  { intros b p Hb. apply Hfr. intros a Hin. rewrite Forall_forall in Hgood.
    destruct (Hgood a Hin) as (Hd & _). unfold dloc. rewrite Hd. intro Hq. injection Hq as Hq1 Hq2.
    symmetry in Hq1. apply (Hb Hq1 a Hin). lia. }
  exists σ'. split; [exact Hrun|]. split; [|split; [|exact Hpk]].
  - split; [exact Ht|]. split; [exact Hl|]. split; [exact Hlen|]. split; [|split].
    + intros b Hb. apply Hoth. intros a Hin. rewrite Forall_forall in Hgood.
      destruct (Hgood a Hin) as (Hd & _). rewrite Hd. congruence.
    + intros E i Hsep. destruct (Z_lt_dec i 0) as [Hneg|Hnn]; [rewrite !win_get_out by lia; reflexivity|].
      destruct (Z_lt_dec i (d_len E)) as [Hlt|Hge]; [|rewrite !win_get_out by lia; reflexivity].
      rewrite !win_get_peek by lia. apply Hpk. intros Hb a Hin. rewrite Forall_forall in Hgood.
      destruct (Hgood a Hin) as (_ & _ & Hk & _). unfold sep in Hsep.
      destruct Hsep as [H|[H|H]]; [congruence|lia|lia].
    + intros p Hp. apply Hpk. intros _ a Hin. rewrite Forall_forall in Hgood.
      destruct (Hgood a Hin) as (_ & _ & Hk & _). lia.
  - intros a Hin. rewrite Forall_forall in Hgood. destruct (Hgood a Hin) as (Hd & _ & Hk & _).
    rewrite win_get_peek by exact Hk. rewrite <- (Hvals a Hin), Hd. reflexivity.
Qed.

(* the same for a kernel given as a map over an index list *)
Theorem schema_map {I} σ D cap (h : I -> asg) (key : I -> Z) (L : list I) e :
  in_buf σ D ->
  (forall p, In p L -> asg_good σ D cap (h p) /\ a_k (h p) = key p) ->
  NoDup (map key L) ->
  exists σ', run_asgs gf σ (map h L) e = Some (σ', e) /\ frame_ok σ σ' D /\
    (forall p, In p L -> win_get σ' D (key p) = asg_val σ (h p)) /\
    (forall i, ~ In i (map key L) -> win_get σ' D i = win_get σ D i) /\
    (forall b p, (b = d_buf D -> forall q, In q L -> p <> d_off D + key q) -> peek σ' b p = peek σ b p).
Proof.
  intros HD Hg Hnd.
  assert (Hkeys : map a_k (map h L) = map key L).
  { rewrite map_map. apply map_ext_in. intros p Hp. apply Hg. exact Hp. }
  destruct (schema σ D cap (map h L) e HD) as (σ' & Hrun & Hfr & Hv & Hpk).
  - rewrite Forall_forall. intros a Hin. apply in_map_iff in Hin. destruct Hin as (p & <- & Hp). apply Hg. exact Hp.
  - rewrite Hkeys. exact Hnd.
  - assert (Hpk' : forall b p, (b = d_buf D -> forall q, In q L -> p <> d_off D + key q) -> peek σ' b p = peek σ b p).
    { intros b p Hb. apply Hpk. intros Hbd a Hin. apply in_map_iff in Hin. destruct Hin as (q & <- & Hq).
      destruct (Hg q Hq) as [_ ->]. apply Hb; assumption. }
    exists σ'. split; [exact Hrun|]. split; [exact Hfr|]. split; [|split; [|exact Hpk']].
    + intros p Hp. destruct (Hg p Hp) as [_ <-]. apply Hv. apply in_map. exact Hp.
    + intros i Hni. destruct (Z_lt_dec i 0) as [Hneg|Hnn]; [rewrite !win_get_out by lia; reflexivity|].
      destruct (Z_lt_dec i (d_len D)) as [Hlt|Hge]; [|rewrite !win_get_out by lia; reflexivity].
      rewrite !win_get_peek by lia. apply Hpk'. intros _ q Hq Heq. apply Hni.
      apply in_map_iff. exists q. split; [lia|exact Hq].
Qed.

Lemma asg_val_plain σ a x y :
  rd σ (a_x a) = Some x -> rd σ (a_y a) = Some y -> a_acc a = false -> asg_val σ a = Some (f x y).
Proof. intros Hx Hy Ha. unfold asg_val. rewrite Hx, Hy, Ha. reflexivity. Qed.

Lemma asg_val_acc σ a x y o :
  rd σ (a_x a) = Some x -> rd σ (a_y a) = Some y -> a_acc a = true ->
  rdd σ (a_dst a) (a_cap a) (a_k a) = Some o -> asg_val σ a = Some (vadd o (f x y)).
Proof. intros Hx Hy Ha Ho. unfold asg_val. rewrite Hx, Hy, Ha, Ho. reflexivity. Qed.

End Par.

(* ====================================================================================== *)
(*  Q2. kernel meaning lemmas                                                             *)
(* ====================================================================================== *)
Lemma idxs_In n i : In i (idxs n) <-> 0 <= i < n.
Proof. unfold idxs. rewrite zseq_In. lia. Qed.
Lemma idxs_NoDup n : NoDup (idxs n).
Proof. apply zseq_NoDup. Qed.

Lemma win_get_some_range σ d i v : win_get σ d i = Some v -> 0 <= i < d_len d.
Proof.
  intro H. destruct (Z_lt_dec i 0) as [Hn|Hn]; [rewrite win_get_out in H by lia; discriminate|].
  destruct (Z_lt_dec i (d_len d)) as [Hl|Hl]; [lia|rewrite win_get_out in H by lia; discriminate].
Qed.

Lemma in_buf_win_get σ d i : in_buf σ d -> 0 <= i < d_len d -> exists v, win_get σ d i = Some v.
Proof.
  intros Hd Hi. pose proof (in_buf_rdd σ d false i Hd Hi) as H. rewrite <- win_get_eq in H.
  destruct (win_get σ d i) as [v|]; [eauto|congruence].
Qed.

Lemma in_buf_frame σ σ' d : (forall b, length (get_buf σ' b) = length (get_buf σ b)) -> in_buf σ d -> in_buf σ' d.
Proof. intros H [H0 H1]. split; [exact H0|]. unfold zlen in *. rewrite H. exact H1. Qed.

Lemma zip2_length : forall (a b : list Z), length (zip2 a b) = Nat.min (length a) (length b).
Proof. induction a as [|x a IH]; intros [|y b]; cbn [zip2 length Nat.min]; auto. Qed.

Ltac proj := cbn [Ops.a_dst Ops.a_cap Ops.a_k Ops.a_kz Ops.a_x Ops.a_y Ops.a_acc src_good fst snd Ops.rd].

Section Kern.
Variable f : V -> V -> V.
Notation gf := (gf f).

(* Vec<Op>(a, b): a[i] = f a[i] b[i] for every cell of a's window; b unchanged *)
Theorem k_vec_spec σ a b e :
  in_buf σ a -> in_buf σ b -> sep a b -> d_len a <= d_len b ->
  exists l σ', k_vec V σ a b = Some l /\ run_asgs gf σ l e = Some (σ', e) /\ frame_ok σ σ' a /\
    (forall i x y, win_get σ a i = Some x -> win_get σ b i = Some y -> win_get σ' a i = Some (f x y)) /\
    (forall i, win_get σ' b i = win_get σ b i).
Proof.
  intros Ha Hb Hs Hl. unfold k_vec, wcap, wlen.
  destruct (zlen (get_buf σ (d_buf b)) - d_off b <? d_len a) eqn:E; [exfalso; unfold in_buf in Hb; lia|].
  destruct (schema_map f σ a false (fun i => mkAsg V a false i i (SLen V a i) (SCap V b i) false)
              (fun i => i) (idxs (d_len a)) e Ha) as (σ' & Hrun & Hfr & Hv & _).
  - intros i Hi. apply idxs_In in Hi. split; [|reflexivity]. unfold asg_good. proj.
    refine (conj eq_refl (conj eq_refl (conj Hi (conj _ _)))); [left; auto|right].
    split; [exact Hs|]. split; [exact Hb|lia].
  - rewrite map_id. apply idxs_NoDup.
  - eexists _, σ'. split; [reflexivity|]. split; [exact Hrun|]. split; [exact Hfr|]. split.
    + intros i x y Hx Hy. pose proof (win_get_some_range _ _ _ _ Hx) as Hi.
      rewrite (Hv i) by (apply idxs_In; exact Hi). apply asg_val_plain; proj; [exact Hx| |reflexivity].
      rewrite cap_get_win by lia. exact Hy.
    + intro i. apply Hfr. exact Hs.
Qed.

(* <Op>SV(s, b): b[i] = f s b[i] — the scalar is the LEFT operand *)
Theorem k_sv_spec σ s b e :
  in_buf σ b ->
  exists σ', run_asgs gf σ (k_sv V s b) e = Some (σ', e) /\ frame_ok σ σ' b /\
    (forall i y, win_get σ b i = Some y -> win_get σ' b i = Some (f s y)).
Proof.
  intros Hb. unfold k_sv, wlen.
  destruct (schema_map f σ b false (fun i => mkAsg V b false i i (SConst V s) (SLen V b i) false)
              (fun i => i) (idxs (d_len b)) e Hb) as (σ' & Hrun & Hfr & Hv & _).
  - intros i Hi. apply idxs_In in Hi. split; [|reflexivity]. unfold asg_good. proj.
    refine (conj eq_refl (conj eq_refl (conj Hi (conj I _)))). left; auto.
  - rewrite map_id. apply idxs_NoDup.
  - exists σ'. split; [exact Hrun|]. split; [exact Hfr|].
    intros i y Hy. pose proof (win_get_some_range _ _ _ _ Hy) as Hi.
    rewrite (Hv i) by (apply idxs_In; exact Hi). apply asg_val_plain; proj; [reflexivity|exact Hy|reflexivity].
Qed.

(* <Op>VS(a, s): a[i] = f a[i] s *)
Theorem k_vs_spec σ a s e :
  in_buf σ a ->
  exists σ', run_asgs gf σ (k_vs V a s) e = Some (σ', e) /\ frame_ok σ σ' a /\
    (forall i x, win_get σ a i = Some x -> win_get σ' a i = Some (f x s)).
Proof.
  intros Ha. unfold k_vs, wlen.
  destruct (schema_map f σ a false (fun i => mkAsg V a false i i (SLen V a i) (SConst V s) false)
              (fun i => i) (idxs (d_len a)) e Ha) as (σ' & Hrun & Hfr & Hv & _).
  - intros i Hi. apply idxs_In in Hi. split; [|reflexivity]. unfold asg_good. proj.
    refine (conj eq_refl (conj eq_refl (conj Hi (conj _ I)))). left; auto.
  - rewrite map_id. apply idxs_NoDup.
  - exists σ'. split; [exact Hrun|]. split; [exact Hfr|].
    intros i x Hx. pose proof (win_get_some_range _ _ _ _ Hx) as Hi.
    rewrite (Hv i) by (apply idxs_In; exact Hi). apply asg_val_plain; proj; [exact Hx|reflexivity|reflexivity].
Qed.

(* <Op>Recv(a, b, recv): recv[i] = f a[i] b[i]; a, b unchanged *)
Theorem k_recv_spec σ a b r e :
  in_buf σ a -> in_buf σ b -> in_buf σ r -> sep r a -> sep r b ->
  d_len r <= d_len a -> d_len r <= d_len b ->
  exists l σ', k_recv V σ a b r = Some l /\ run_asgs gf σ l e = Some (σ', e) /\ frame_ok σ σ' r /\
    (forall i x y, 0 <= i < d_len r -> win_get σ a i = Some x -> win_get σ b i = Some y ->
                   win_get σ' r i = Some (f x y)).
Proof.
  intros Ha Hb Hr Hsa Hsb Hla Hlb. unfold k_recv, wcap, wlen.
  destruct ((zlen (get_buf σ (d_buf a)) - d_off a <? d_len r) || (zlen (get_buf σ (d_buf b)) - d_off b <? d_len r)) eqn:E;
    [exfalso; unfold in_buf in Ha, Hb; lia|].
  destruct (schema_map f σ r false (fun i => mkAsg V r false i i (SCap V a i) (SCap V b i) false)
              (fun i => i) (idxs (d_len r)) e Hr) as (σ' & Hrun & Hfr & Hv & _).
  - intros i Hi. apply idxs_In in Hi. split; [|reflexivity]. unfold asg_good. proj.
    refine (conj eq_refl (conj eq_refl (conj Hi (conj _ _)))); right.
    + split; [exact Hsa|]. split; [exact Ha|lia].
    + split; [exact Hsb|]. split; [exact Hb|lia].
  - rewrite map_id. apply idxs_NoDup.
  - eexists _, σ'. split; [reflexivity|]. split; [exact Hrun|]. split; [exact Hfr|].
    intros i x y Hi Hx Hy.
    rewrite (Hv i) by (apply idxs_In; exact Hi). apply asg_val_plain; proj; [| |reflexivity].
    + rewrite cap_get_win by lia. exact Hx.
    + rewrite cap_get_win by lia. exact Hy.
Qed.

(* <Op>Incr(a, b, incr): incr[i] = vadd incr[i] (f a[i] b[i]) for i < len a *)
Theorem k_incr_spec σ a b inc e :
  in_buf σ a -> in_buf σ b -> in_buf σ inc -> sep inc a -> sep inc b ->
  d_len a <= d_len b -> d_len a <= d_len inc ->
  exists l σ', k_incr V σ a b inc = Some l /\ run_asgs gf σ l e = Some (σ', e) /\ frame_ok σ σ' inc /\
    (forall i x y o, win_get σ a i = Some x -> win_get σ b i = Some y -> win_get σ inc i = Some o ->
                     win_get σ' inc i = Some (vadd o (f x y))) /\
    (forall i, d_len a <= i -> win_get σ' inc i = win_get σ inc i).
Proof.
  intros Ha Hb Hr Hsa Hsb Hlb Hli. unfold k_incr, wcap, wlen.
  destruct ((zlen (get_buf σ (d_buf b)) - d_off b <? d_len a) || (zlen (get_buf σ (d_buf inc)) - d_off inc <? d_len a)) eqn:E;
    [exfalso; unfold in_buf in Hr, Hb; lia|].
  destruct (schema_map f σ inc true (fun i => mkAsg V inc true i i (SLen V a i) (SCap V b i) true)
              (fun i => i) (idxs (d_len a)) e Hr) as (σ' & Hrun & Hfr & Hv & Hoth & _).
  - intros i Hi. apply idxs_In in Hi. split; [|reflexivity]. unfold asg_good. proj.
    refine (conj eq_refl (conj eq_refl (conj _ (conj _ _)))); [lia|right|right].
    + split; [exact Hsa|]. split; [exact Ha|lia].
    + split; [exact Hsb|]. split; [exact Hb|lia].
  - rewrite map_id. apply idxs_NoDup.
  - eexists _, σ'. split; [reflexivity|]. split; [exact Hrun|]. split; [exact Hfr|]. split.
    + intros i x y o Hx Hy Ho. pose proof (win_get_some_range _ _ _ _ Hx) as Hi.
      rewrite (Hv i) by (apply idxs_In; exact Hi). apply asg_val_acc; proj; [exact Hx| |reflexivity|].
      * rewrite cap_get_win by lia. exact Hy.
      * unfold Ops.rdd. rewrite cap_get_win by lia. exact Ho.
    + intros i Hi. apply Hoth. rewrite map_id, idxs_In. lia.
Qed.

(* <Op>Iter(a, b, ait, bit): for the r-th pair, a[ai_r] = f a[ai_r] b[bi_r]; the loop runs
   min (length ai) (length bi) times; every other cell of a is unchanged *)
Lemma k_iter_length a b ai bi : length (k_iter V a b ai bi) = Nat.min (length ai) (length bi).
Proof. unfold k_iter. rewrite map_length. apply zip2_length. Qed.

Theorem k_iter_spec σ a b ai bi e :
  in_buf σ a -> in_buf σ b -> sep a b -> NoDup ai ->
  (forall i, In i ai -> 0 <= i < d_len a) -> (forall j, In j bi -> 0 <= j < d_len b) ->
  exists σ', run_asgs gf σ (k_iter V a b ai bi) e = Some (σ', e) /\ frame_ok σ σ' a /\
    (forall i j x y, In (i, j) (zip2 ai bi) -> win_get σ a i = Some x -> win_get σ b j = Some y ->
                     win_get σ' a i = Some (f x y)) /\
    (forall i, ~ In i (map fst (zip2 ai bi)) -> win_get σ' a i = win_get σ a i).
Proof.
  intros Ha Hb Hs Hnd Hai Hbi. unfold k_iter.
  destruct (schema_map f σ a false
              (fun p => mkAsg V a false (fst p) (fst p) (SLen V a (fst p)) (SLen V b (snd p)) false)
              fst (zip2 ai bi) e Ha) as (σ' & Hrun & Hfr & Hv & Hoth & _).
  - intros [i j] Hin. apply zip2_fst_In in Hin. destruct Hin as [Hi Hj]. split; [|reflexivity].
    unfold asg_good. proj. refine (conj eq_refl (conj eq_refl (conj (Hai i Hi) (conj _ _)))); [left; auto|right].
    split; [exact Hs|]. split; [exact Hb|apply Hbi; exact Hj].
  - apply zip2_NoDup_fst. exact Hnd.
  - exists σ'. split; [exact Hrun|]. split; [exact Hfr|]. split; [|exact Hoth].
    intros i j x y Hin Hx Hy. pose proof (Hv (i, j) Hin) as Hq. cbn [fst] in Hq. rewrite Hq. apply asg_val_plain; proj; [exact Hx|exact Hy|reflexivity].
Qed.

Theorem k_iter_sv_spec σ s b bi e :
  in_buf σ b -> NoDup bi -> (forall j, In j bi -> 0 <= j < d_len b) ->
  exists σ', run_asgs gf σ (k_iter_sv V s b bi) e = Some (σ', e) /\ frame_ok σ σ' b /\
    (forall j y, In j bi -> win_get σ b j = Some y -> win_get σ' b j = Some (f s y)) /\
    (forall j, ~ In j bi -> win_get σ' b j = win_get σ b j).
Proof.
  intros Hb Hnd Hbi. unfold k_iter_sv.
  destruct (schema_map f σ b false (fun i => mkAsg V b false i i (SConst V s) (SLen V b i) false)
              (fun i => i) bi e Hb) as (σ' & Hrun & Hfr & Hv & Hoth & _).
  - intros i Hi. split; [|reflexivity]. unfold asg_good. proj.
    refine (conj eq_refl (conj eq_refl (conj (Hbi i Hi) (conj I _)))). left; auto.
  - rewrite map_id. exact Hnd.
  - exists σ'. split; [exact Hrun|]. split; [exact Hfr|]. split.
    + intros j y Hj Hy. rewrite (Hv j Hj). apply asg_val_plain; proj; [reflexivity|exact Hy|reflexivity].
    + intros j Hj. apply Hoth. rewrite map_id. exact Hj.
Qed.

Theorem k_iter_vs_spec σ a s ai e :
  in_buf σ a -> NoDup ai -> (forall i, In i ai -> 0 <= i < d_len a) ->
  exists σ', run_asgs gf σ (k_iter_vs V a s ai) e = Some (σ', e) /\ frame_ok σ σ' a /\
    (forall i x, In i ai -> win_get σ a i = Some x -> win_get σ' a i = Some (f x s)) /\
    (forall i, ~ In i ai -> win_get σ' a i = win_get σ a i).
Proof.
  intros Ha Hnd Hai. unfold k_iter_vs.
  destruct (schema_map f σ a false (fun i => mkAsg V a false i i (SLen V a i) (SConst V s) false)
              (fun i => i) ai e Ha) as (σ' & Hrun & Hfr & Hv & Hoth & _).
  - intros i Hi. split; [|reflexivity]. unfold asg_good. proj.
    refine (conj eq_refl (conj eq_refl (conj (Hai i Hi) (conj _ I)))). left; auto.
  - rewrite map_id. exact Hnd.
  - exists σ'. split; [exact Hrun|]. split; [exact Hfr|]. split.
    + intros i x Hi Hx. rewrite (Hv i Hi). apply asg_val_plain; proj; [exact Hx|reflexivity|reflexivity].
    + intros i Hi. apply Hoth. rewrite map_id. exact Hi.
Qed.

(* <Op>IterIncr(a, b, incr, ait, bit, iit): incr[k] = vadd incr[k] (f a[i] b[j]) *)
Theorem k_iter_incr_spec σ a b inc ai bi ii e :
  in_buf σ a -> in_buf σ b -> in_buf σ inc -> sep inc a -> sep inc b -> NoDup ii ->
  (forall i, In i ai -> 0 <= i < d_len a) -> (forall j, In j bi -> 0 <= j < d_len b) ->
  (forall k, In k ii -> 0 <= k < d_len inc) ->
  exists σ', run_asgs gf σ (k_iter_incr V a b inc ai bi ii) e = Some (σ', e) /\ frame_ok σ σ' inc /\
    (forall i j k x y o, In (i, j, k) (zip3 ai bi ii) ->
       win_get σ a i = Some x -> win_get σ b j = Some y -> win_get σ inc k = Some o ->
       win_get σ' inc k = Some (vadd o (f x y))) /\
    (forall k, ~ In k (map snd (zip3 ai bi ii)) -> win_get σ' inc k = win_get σ inc k).
Proof.
  intros Ha Hb Hr Hsa Hsb Hnd Hai Hbi Hii. unfold k_iter_incr.
  destruct (schema_map f σ inc false
              (fun p : Z * Z * Z => let '(i, j, k) := p in mkAsg V inc false k i (SLen V a i) (SLen V b j) true)
              snd (zip3 ai bi ii) e Hr) as (σ' & Hrun & Hfr & Hv & Hoth & _).
  - intros [[i j] k] Hin. apply zip3_In in Hin. destruct Hin as (Hi & Hj & Hk). split; [|reflexivity].
    unfold asg_good. proj. refine (conj eq_refl (conj eq_refl (conj (Hii k Hk) (conj _ _)))); right.
    + split; [exact Hsa|]. split; [exact Ha|apply Hai; exact Hi].
    + split; [exact Hsb|]. split; [exact Hb|apply Hbi; exact Hj].
  - apply zip3_NoDup_3. exact Hnd.
  - exists σ'. split; [exact Hrun|]. split; [exact Hfr|]. split; [|exact Hoth].
    intros i j k x y o Hin Hx Hy Ho. pose proof (Hv (i, j, k) Hin) as Hq. cbn [snd] in Hq. rewrite Hq.
    apply asg_val_acc; proj; [exact Hx|exact Hy|reflexivity|exact Ho].
Qed.

(* comparison kernels writing a separate result: ret[i] = f a[i] b[i] *)
Theorem k_ret_spec σ a b r e :
  in_buf σ a -> in_buf σ b -> in_buf σ r -> sep r a -> sep r b ->
  d_len a <= d_len b -> d_len a <= d_len r ->
  exists l σ', k_ret V σ a b r = Some l /\ run_asgs gf σ l e = Some (σ', e) /\ frame_ok σ σ' r /\
    (forall i x y, win_get σ a i = Some x -> win_get σ b i = Some y -> win_get σ' r i = Some (f x y)).
Proof.
  intros Ha Hb Hr Hsa Hsb Hlb Hlr. unfold k_ret, wcap, wlen.
  destruct ((zlen (get_buf σ (d_buf b)) - d_off b <? d_len a) || (zlen (get_buf σ (d_buf r)) - d_off r <? d_len a)) eqn:E;
    [exfalso; unfold in_buf in Hr, Hb; lia|].
  destruct (schema_map f σ r true (fun i => mkAsg V r true i i (SLen V a i) (SCap V b i) false)
              (fun i => i) (idxs (d_len a)) e Hr) as (σ' & Hrun & Hfr & Hv & _).
  - intros i Hi. apply idxs_In in Hi. split; [|reflexivity]. unfold asg_good. proj.
    refine (conj eq_refl (conj eq_refl (conj _ (conj _ _)))); [lia|right|right].
    + split; [exact Hsa|]. split; [exact Ha|lia].
    + split; [exact Hsb|]. split; [exact Hb|lia].
  - rewrite map_id. apply idxs_NoDup.
  - eexists _, σ'. split; [reflexivity|]. split; [exact Hrun|]. split; [exact Hfr|].
    intros i x y Hx Hy. pose proof (win_get_some_range _ _ _ _ Hx) as Hi.
    rewrite (Hv i) by (apply idxs_In; exact Hi). apply asg_val_plain; proj; [exact Hx| |reflexivity].
    rewrite cap_get_win by lia. exact Hy.
Qed.

Theorem k_ret_iter_spec σ a b r ai bi ri e :
  in_buf σ a -> in_buf σ b -> in_buf σ r -> sep r a -> sep r b -> NoDup ri ->
  (forall i, In i ai -> 0 <= i < d_len a) -> (forall j, In j bi -> 0 <= j < d_len b) ->
  (forall k, In k ri -> 0 <= k < d_len r) ->
  exists σ', run_asgs gf σ (k_ret_iter V a b r ai bi ri) e = Some (σ', e) /\ frame_ok σ σ' r /\
    (forall i j k x y, In (i, j, k) (zip3 ai bi ri) ->
       win_get σ a i = Some x -> win_get σ b j = Some y -> win_get σ' r k = Some (f x y)) /\
    (forall k, ~ In k (map snd (zip3 ai bi ri)) -> win_get σ' r k = win_get σ r k).
Proof.
  intros Ha Hb Hr Hsa Hsb Hnd Hai Hbi Hri. unfold k_ret_iter.
  destruct (schema_map f σ r false
              (fun p : Z * Z * Z => let '(i, j, k) := p in mkAsg V r false k k (SLen V a i) (SLen V b j) false)
              snd (zip3 ai bi ri) e Hr) as (σ' & Hrun & Hfr & Hv & Hoth & _).
  - intros [[i j] k] Hin. apply zip3_In in Hin. destruct Hin as (Hi & Hj & Hk). split; [|reflexivity].
    unfold asg_good. proj. refine (conj eq_refl (conj eq_refl (conj (Hri k Hk) (conj _ _)))); right.
    + split; [exact Hsa|]. split; [exact Ha|apply Hai; exact Hi].
    + split; [exact Hsb|]. split; [exact Hb|apply Hbi; exact Hj].
  - apply zip3_NoDup_3. exact Hnd.
  - exists σ'. split; [exact Hrun|]. split; [exact Hfr|]. split; [|exact Hoth].
    intros i j k x y Hin Hx Hy. pose proof (Hv (i, j, k) Hin) as Hq. cbn [snd] in Hq. rewrite Hq.
    apply asg_val_plain; proj; [exact Hx|exact Hy|reflexivity].
Qed.

End Kern.

(* ====================================================================================== *)
(*  3. logical content, well-formed operands, clones                                      *)
(* ====================================================================================== *)
Definition cell (σ : store) (d : dense) (c : list Z) : option V :=
  win_get σ d (dot (str (d_ap d)) c).

Record wf_dense (σ : store) (d : dense) : Prop := mk_wf {
  wf_pos : pos_shape (shp (d_ap d));
  wf_len : length (str (d_ap d)) = length (shp (d_ap d));
  wf_nodup : NoDup (offsets (d_ap d));                      (* offsets of the box pairwise distinct *)
  wf_range : forall o, In o (offsets (d_ap d)) -> 0 <= o < d_len d;   (* ... and inside the window *)
  wf_win : in_buf σ d;
  wf_big : 1 < d_len d;
  wf_rm : is_cm (ord (d_ap d)) = false;
  wf_flag : requires_iterator d = false ->                  (* FLAG SOUNDNESS *)
            str (d_ap d) = calc_strides (shp (d_ap d)) /\ d_len d = size (shp (d_ap d))
}.

Lemma coords_In s c : pos_shape s -> inbox s c -> In c (coords s).
Proof.
  intros Hp Hc. unfold coords. apply in_map_iff. exists (rk s c). split.
  - apply unrank_rk; assumption.
  - apply zseq_In. pose proof (rk_bound s c Hp Hc). lia.
Qed.

Lemma coords_inbox s c : pos_shape s -> In c (coords s) -> inbox s c.
Proof.
  intros Hp Hin. unfold coords in Hin. apply in_map_iff in Hin. destruct Hin as (k & <- & Hk).
  apply zseq_In in Hk. apply unrank_inbox; [exact Hp|]. pose proof (size_pos s Hp). lia.
Qed.

Lemma offsets_In a c : pos_shape (shp a) -> inbox (shp a) c -> In (dot (str a) c) (offsets a).
Proof. intros Hp Hc. unfold offsets. apply in_map. apply coords_In; assumption. Qed.

Lemma wf_all_iter σ d : wf_dense σ d -> all_iter d = Some (offsets (d_ap d)).
Proof. intros W. unfold all_iter, offsets. apply iter_all_spec; [apply (wf_pos _ _ W)|apply (wf_len _ _ W)]. Qed.

Lemma wf_isS σ d : wf_dense σ d -> isS d = false.
Proof. intros W. unfold isS. pose proof (wf_big _ _ W). lia. Qed.

Lemma wf_buf_lt σ d : wf_dense σ d -> (d_buf d < length (bufs σ))%nat.
Proof.
  intros W. apply get_buf_lt. intro Hn. pose proof (wf_win _ _ W) as [H0 H1]. pose proof (wf_big _ _ W).
  rewrite Hn in H1. unfold zlen in H1. cbn [length] in H1. lia.
Qed.

Lemma wf_cell_some σ d c : wf_dense σ d -> inbox (shp (d_ap d)) c -> exists v, cell σ d c = Some v.
Proof.
  intros W Hc. unfold cell. apply in_buf_win_get; [apply (wf_win _ _ W)|].
  apply (wf_range _ _ W). apply offsets_In; [apply (wf_pos _ _ W)|exact Hc].
Qed.

(* a contiguous well-formed tensor: logical cell c is window cell rk c, and every window cell
   is a logical cell *)
Lemma wf_contig_dot σ d c : wf_dense σ d -> requires_iterator d = false ->
  dot (str (d_ap d)) c = rk (shp (d_ap d)) c.
Proof. intros W Hr. destruct (wf_flag _ _ W Hr) as [-> _]. symmetry. apply rk_dot. Qed.

Lemma wf_contig_cover σ d i : wf_dense σ d -> requires_iterator d = false -> 0 <= i < d_len d ->
  inbox (shp (d_ap d)) (unrank (shp (d_ap d)) i) /\ dot (str (d_ap d)) (unrank (shp (d_ap d)) i) = i.
Proof.
  intros W Hr Hi. destruct (wf_flag _ _ W Hr) as [Hs Hl]. rewrite Hl in Hi. split.
  - apply unrank_inbox; [apply (wf_pos _ _ W)|exact Hi].
  - rewrite Hs, <- rk_dot. apply rk_unrank; [apply (wf_pos _ _ W)|exact Hi].
Qed.

(* ---------- windows as lists ---------- *)
Lemma nth_error_firstn_lt {A} : forall (l : list A) n k, (k < n)%nat -> nth_error (firstn n l) k = nth_error l k.
Proof.
  induction l as [|h t IH]; intros [|n] [|k] H; cbn; try reflexivity; try lia. apply IH. lia.
Qed.

Lemma nth_error_skipn_add {A} : forall (l : list A) o k, nth_error (skipn o l) k = nth_error l (o + k).
Proof.
  induction l as [|h t IH]; intros [|o] k; cbn [skipn Nat.add]; try reflexivity.
  - destruct k; reflexivity.
  - cbn [nth_error]. apply IH.
Qed.

Lemma zget_window σ d i : 0 <= d_off d -> 0 <= i < d_len d ->
  zget (window V σ d) i = zget (get_buf σ (d_buf d)) (d_off d + i).
Proof.
  intros H0 Hi. unfold window. rewrite !zget_nth_error by lia.
  rewrite nth_error_firstn_lt by lia. rewrite nth_error_skipn_add. f_equal. lia.
Qed.

Lemma window_length σ d : in_buf σ d -> 0 <= d_len d -> zlen (window V σ d) = d_len d.
Proof.
  intros [H0 H1] Hl. unfold window, zlen in *. rewrite firstn_length, skipn_length. lia.
Qed.

(* ---------- engine-internal clones ---------- *)
Lemma get_buf_app_l (σ : store) l tl k : (k < length (bufs σ))%nat ->
  get_buf (mkStore V (bufs σ ++ l) tl) k = get_buf σ k.
Proof. intro H. unfold Mem.get_buf. cbn [Mem.bufs]. apply app_nth1. exact H. Qed.

Lemma get_buf_app_new (σ : store) x tl :
  get_buf (mkStore V (bufs σ ++ [x]) tl) (length (bufs σ)) = x.
Proof. unfold Mem.get_buf. cbn [Mem.bufs]. rewrite app_nth2 by lia. rewrite Nat.sub_diag. reflexivity. Qed.

Lemma win_get_buf_eq σ σ' d i : get_buf σ' (d_buf d) = get_buf σ (d_buf d) -> win_get σ' d i = win_get σ d i.
Proof. intro H. unfold Mem.win_get. rewrite H. reflexivity. Qed.

Lemma in_buf_buf_eq σ σ' d : get_buf σ' (d_buf d) = get_buf σ (d_buf d) -> in_buf σ d -> in_buf σ' d.
Proof. intros H [H0 H1]. split; [exact H0|]. rewrite H. exact H1. Qed.

Lemma clone_tmp_spec σ a σ2 rt : clone_tmp V σ a = (σ2, rt) -> in_buf σ a -> 0 <= d_len a ->
  rt = mkDense (length (bufs σ)) 0 (d_len a) (d_ap a) (d_old a) false /\
  tens σ2 = tens σ /\ length (bufs σ2) = S (length (bufs σ)) /\
  (forall k, (k < length (bufs σ))%nat -> get_buf σ2 k = get_buf σ k) /\
  in_buf σ2 rt /\ (forall i, win_get σ2 rt i = win_get σ a i).
Proof.
  unfold clone_tmp, add_buf. intros H Ha Hl. injection H as <- <-.
  split; [reflexivity|]. split; [reflexivity|].
  split; [cbn [Mem.bufs]; rewrite app_length; cbn [length]; lia|].
  split; [intros k Hk; apply get_buf_app_l; exact Hk|].
  split.
  - unfold in_buf. cbn [d_off d_len d_buf]. rewrite get_buf_app_new, window_length by assumption. lia.
  - intro i. destruct (Z_lt_dec i 0) as [Hn|Hn]; [rewrite !win_get_out by (cbn [d_len]; lia); reflexivity|].
    destruct (Z_lt_dec i (d_len a)) as [Hlt|Hge]; [|rewrite !win_get_out by (cbn [d_len]; lia); reflexivity].
    rewrite !win_get_peek by (cbn [d_len]; lia). unfold peek. cbn [d_buf d_off].
    rewrite get_buf_app_new. replace (0 + i) with i by lia. apply zget_window; [apply Ha|lia].
Qed.

Lemma finish_new_clone σ σ2 σ3 rt :
  tens σ2 = tens σ -> (forall k, (k < length (bufs σ))%nat -> get_buf σ2 k = get_buf σ k) ->
  d_buf rt = length (bufs σ) ->
  frame_ok σ2 σ3 rt ->
  exists σ', finish_new V (Some (σ3, false)) σ2 rt = (σ', OOk (length (tens σ))) /\
    tens σ' = tens σ ++ [rt] /\ get_t V σ' (length (tens σ)) = Some rt /\
    (forall k, (k < length (bufs σ))%nat -> get_buf σ' k = get_buf σ k) /\
    firstn (length (tens σ)) (tens σ') = tens σ /\
    length (bufs σ') = length (bufs σ2) /\
    (forall d i, win_get σ' d i = win_get σ3 d i).
Proof.
  intros Ht Hb Hrt (Ht3 & Hl3 & _ & Hoth & _).
  exists (mkStore V (bufs σ3) (tens σ3 ++ [rt])). unfold finish_new, add_t.
  split; [rewrite Ht3, Ht; reflexivity|]. cbn [Mem.tens Mem.bufs].
  split; [rewrite Ht3, Ht; reflexivity|].
  split; [unfold get_t; cbn [Mem.tens]; rewrite Ht3, Ht, nth_error_app2 by lia; rewrite Nat.sub_diag; reflexivity|].
  split; [intros k Hk; change (get_buf σ3 k = get_buf σ k); rewrite Hoth by lia; apply Hb; exact Hk|].
  split; [rewrite Ht3, Ht, firstn_app, Nat.sub_diag, firstn_all; cbn [firstn]; apply app_nil_r|].
  split; [exact Hl3|]. intros d i. reflexivity.
Qed.

(* ---------- the E dispatch on non-scalar windows ---------- *)
Lemma e_plain_vv g σ a b : isS a = false -> isS b = false ->
  e_plain V vzero vadd g σ a b = run_opt V vzero vadd g σ (k_vec V σ a b).
Proof. intros Ha Hb. unfold e_plain. rewrite Ha, Hb. reflexivity. Qed.

Lemma e_plain_vs g σ a b s : isS a = false -> isS b = true -> hd0 V σ b = Some s ->
  e_plain V vzero vadd g σ a b = run_asgs g σ (k_vs V a s) false.
Proof. intros Ha Hb Hs. unfold e_plain. rewrite Ha, Hb, Hs. reflexivity. Qed.

Lemma e_plain_sv g σ a b s : isS a = true -> isS b = false -> hd0 V σ a = Some s ->
  e_plain V vzero vadd g σ a b = run_asgs g σ (k_sv V s b) false.
Proof. intros Ha Hb Hs. unfold e_plain. rewrite Ha, Hb, Hs. reflexivity. Qed.

Lemma e_iter_vv g σ a b ai bi : isS a = false -> isS b = false ->
  e_iter V vzero vadd g σ a b ai bi = drop_err V (run_asgs g σ (k_iter V a b ai bi) false).
Proof. intros Ha Hb. unfold e_iter. rewrite Ha, Hb. reflexivity. Qed.

Lemma e_iter_vs g σ a b ai bi s : isS a = false -> isS b = true -> hd0 V σ b = Some s ->
  e_iter V vzero vadd g σ a b ai bi = drop_err V (run_asgs g σ (k_iter_vs V a s ai) false).
Proof. intros Ha Hb Hs. unfold e_iter. rewrite Ha, Hb, Hs. reflexivity. Qed.

Lemma e_iter_sv g σ a b ai bi s : isS a = true -> isS b = false -> hd0 V σ a = Some s ->
  e_iter V vzero vadd g σ a b ai bi = drop_err V (run_asgs g σ (k_iter_sv V s b bi) false).
Proof. intros Ha Hb Hs. unfold e_iter. rewrite Ha, Hb, Hs. reflexivity. Qed.

Lemma shape_eq_refl s : shape_eq s s = true.
Proof.
  unfold shape_eq. destruct (is_scalar s && is_scalar s); [reflexivity|].
  replace (((length s =? 2)%nat && (length s =? 1)%nat || (length s =? 1)%nat && (length s =? 2)%nat)) with false by lia.
  rewrite andb_false_r. induction s as [|x s IH]; cbn [list_eqb]; [reflexivity|]. rewrite IH. lia.
Qed.

(* ====================================================================================== *)
(*  Q3. engine level, safe mode, tensor-tensor                                            *)
(* ====================================================================================== *)
Section Eng.
Variable f : V -> V -> V.
Notation gf := (gf f).

Definition lift2 (x y : option V) : option V :=
  match x, y with Some a, Some b => Some (f a b) | _, _ => None end.

(* a FRESH result: new tensor index, new allocation, the AP of a; every old buffer and tensor
   untouched; logical content given by val *)
Definition fresh_post (σ : store) (a : dense) (res : store * oresult) (val : list Z -> option V) : Prop :=
  exists σ' d', res = (σ', OOk (length (tens σ))) /\
    get_t V σ' (length (tens σ)) = Some d' /\ tens σ' = tens σ ++ [d'] /\
    d_ap d' = d_ap a /\ d_buf d' = length (bufs σ) /\
    (forall c, inbox (shp (d_ap a)) c -> cell σ' d' c = val c) /\
    (forall k, (k < length (bufs σ))%nat -> get_buf σ' k = get_buf σ k) /\
    firstn (length (tens σ)) (tens σ') = tens σ.

Lemma safe_clone_run σ a σ2 rt R val :
  clone_tmp V σ a = (σ2, rt) -> in_buf σ a -> 0 <= d_len a ->
  (exists σ3, R = Some (σ3, false) /\ frame_ok σ2 σ3 rt /\
     forall c, inbox (shp (d_ap a)) c -> win_get σ3 rt (dot (str (d_ap a)) c) = val c) ->
  fresh_post σ a (finish_new V R σ2 rt) val.
Proof.
  intros Ec Ha Hl (σ3 & -> & Hfr & Hv).
  destruct (clone_tmp_spec _ _ _ _ Ec Ha Hl) as (Hrt & Ht2 & Hl2 & Hb2 & Hin2 & Hw2).
  assert (Hbr : d_buf rt = length (bufs σ)) by (rewrite Hrt; reflexivity).
  destruct (finish_new_clone σ σ2 σ3 rt Ht2 Hb2 Hbr Hfr) as (σ' & Hfin & Ht' & Hg' & Hb' & Hf' & _ & Hw').
  exists σ', rt. split; [exact Hfin|]. split; [exact Hg'|]. split; [exact Ht'|].
  split; [rewrite Hrt; reflexivity|]. split; [exact Hbr|].
  split; [|split; [exact Hb'|exact Hf']].
  intros c Hc. unfold cell. rewrite Hw'. replace (d_ap rt) with (d_ap a) by (rewrite Hrt; reflexivity).
  apply Hv. exact Hc.
Qed.

Lemma wf_clone_facts σ a b σ2 rt :
  wf_dense σ a -> wf_dense σ b -> clone_tmp V σ a = (σ2, rt) ->
  d_ap rt = d_ap a /\ d_len rt = d_len a /\ isS rt = false /\ in_buf σ2 rt /\ in_buf σ2 b /\ sep rt b /\
  (forall i, win_get σ2 rt i = win_get σ a i) /\ (forall i, win_get σ2 b i = win_get σ b i).
Proof.
  intros Wa Wb Ec. pose proof (wf_big _ _ Wa) as Hbig.
  destruct (clone_tmp_spec _ _ _ _ Ec (wf_win _ _ Wa)) as (Hrt & Ht2 & Hl2 & Hb2 & Hin2 & Hw2); [lia|].
  pose proof (wf_buf_lt _ _ Wb) as Hbl.
  split; [rewrite Hrt; reflexivity|]. split; [rewrite Hrt; reflexivity|].
  split; [rewrite Hrt; unfold isS; cbn [d_len]; lia|]. split; [exact Hin2|].
  split; [apply (in_buf_buf_eq σ); [apply Hb2; exact Hbl|apply (wf_win _ _ Wb)]|].
  split; [left; rewrite Hrt; cbn [d_buf]; lia|]. split; [exact Hw2|].
  intro i. apply win_get_buf_eq. apply Hb2. exact Hbl.
Qed.

Lemma vv_safe_raw σ a b σ2 rt :
  wf_dense σ a -> wf_dense σ b -> shp (d_ap a) = shp (d_ap b) ->
  requires_iterator a = false -> requires_iterator b = false ->
  clone_tmp V σ a = (σ2, rt) ->
  fresh_post σ a (finish_new V (e_plain V vzero vadd gf σ2 rt b) σ2 rt)
             (fun c => lift2 (cell σ a c) (cell σ b c)).
Proof.
  intros Wa Wb Hsh Hra Hrb Ec. pose proof (wf_big _ _ Wa) as Hbig.
  destruct (wf_clone_facts _ _ _ _ _ Wa Wb Ec) as (Hap & Hlen & HSrt & Hin2 & Hinb & Hsep & Hw2 & Hwb).
  apply (safe_clone_run σ a σ2 rt _ _ Ec (wf_win _ _ Wa)); [lia|].
  rewrite e_plain_vv by (exact HSrt || (eapply wf_isS; eassumption)).
  destruct (wf_flag _ _ Wa Hra) as [Hsa Hla]. destruct (wf_flag _ _ Wb Hrb) as [Hsb Hlb].
  destruct (k_vec_spec f σ2 rt b false Hin2 Hinb Hsep) as (l & σ3 & Hk & Hrun & Hfr & Hv & _).
  { rewrite Hlen, Hla, Hlb, Hsh. lia. }
  exists σ3. rewrite Hk. cbn [run_opt]. split; [exact Hrun|]. split; [exact Hfr|].
  intros c Hc. destruct (wf_cell_some _ _ _ Wa Hc) as [xa Hxa].
  destruct (wf_cell_some σ b c Wb) as [xb Hxb]; [rewrite <- Hsh; exact Hc|].
  rewrite Hxa, Hxb. cbn [lift2]. apply Hv.
  - rewrite Hw2. exact Hxa.
  - rewrite Hwb. unfold cell in Hxb. rewrite Hsb, <- Hsh, <- Hsa in Hxb. exact Hxb.
Qed.

Lemma zip2_offsets_In a b c : shp a = shp b -> pos_shape (shp a) -> inbox (shp a) c ->
  In (dot (str a) c, dot (str b) c) (zip2 (offsets a) (offsets b)).
Proof.
  intros Hsh Hp Hc. unfold offsets. rewrite <- Hsh, zip2_map_l. apply in_map_iff. exists c.
  split; [reflexivity|]. apply coords_In; assumption.
Qed.

Lemma zip3_offsets_In a b r c : shp a = shp b -> shp r = shp a -> pos_shape (shp a) -> inbox (shp a) c ->
  In (dot (str a) c, dot (str b) c, dot (str r) c) (zip3 (offsets a) (offsets b) (offsets r)).
Proof.
  intros Hsh Hr Hp Hc. unfold offsets. rewrite Hr, <- Hsh, zip3_map_l. apply in_map_iff. exists c.
  split; [reflexivity|]. apply coords_In; assumption.
Qed.

Lemma vv_safe_iter σ a b σ2 rt :
  wf_dense σ a -> wf_dense σ b -> shp (d_ap a) = shp (d_ap b) ->
  clone_tmp V σ a = (σ2, rt) ->
  fresh_post σ a (finish_new V (e_iter V vzero vadd gf σ2 rt b (offsets (d_ap a)) (offsets (d_ap b))) σ2 rt)
             (fun c => lift2 (cell σ a c) (cell σ b c)).
Proof.
  intros Wa Wb Hsh Ec. pose proof (wf_big _ _ Wa) as Hbig.
  destruct (wf_clone_facts _ _ _ _ _ Wa Wb Ec) as (Hap & Hlen & HSrt & Hin2 & Hinb & Hsep & Hw2 & Hwb).
  apply (safe_clone_run σ a σ2 rt _ _ Ec (wf_win _ _ Wa)); [lia|].
  rewrite e_iter_vv by (exact HSrt || (eapply wf_isS; eassumption)).
  destruct (k_iter_spec f σ2 rt b (offsets (d_ap a)) (offsets (d_ap b)) false Hin2 Hinb Hsep (wf_nodup _ _ Wa))
    as (σ3 & Hrun & Hfr & Hv & _).
  { intros i Hi. rewrite Hlen. apply (wf_range _ _ Wa). exact Hi. }
  { intros j Hj. apply (wf_range _ _ Wb). exact Hj. }
  exists σ3. rewrite Hrun. cbn [drop_err]. split; [reflexivity|]. split; [exact Hfr|].
  intros c Hc. destruct (wf_cell_some _ _ _ Wa Hc) as [xa Hxa].
  destruct (wf_cell_some σ b c Wb) as [xb Hxb]; [rewrite <- Hsh; exact Hc|].
  rewrite Hxa, Hxb. cbn [lift2].
  apply (Hv _ (dot (str (d_ap b)) c)).
  - apply zip2_offsets_In; [exact Hsh|apply (wf_pos _ _ Wa)|exact Hc].
  - rewrite Hw2. exact Hxa.
  - rewrite Hwb. exact Hxb.
Qed.

Lemma eng_arith_vv_safe_unfold g σ ta tb a b :
  get_t V σ ta = Some a -> get_t V σ tb = Some b ->
  shp (d_ap a) = shp (d_ap b) ->
  is_cm (ord (d_ap a)) = false -> is_cm (ord (d_ap b)) = false ->
  eng_arith_vv V vzero vadd g σ ta tb MSafe =
    if requires_iterator a || requires_iterator b then
      match all_iter a, all_iter b with
      | Some ai, Some bi =>
        let '(σ2, rt) := clone_tmp V σ a in finish_new V (e_iter V vzero vadd g σ2 rt b ai bi) σ2 rt
      | _, _ => (σ, OPanicR)
      end
    else let '(σ2, rt) := clone_tmp V σ a in finish_new V (e_plain V vzero vadd g σ2 rt b) σ2 rt.
Proof.
  intros Ha Hb Hsh Hca Hcb. unfold eng_arith_vv. rewrite Ha, Hb, Hsh, shape_eq_refl.
  cbn [negb opt_reuse]. rewrite Ha, Hb. unfold has_same_order. rewrite Hca, Hcb.
  cbn [Bool.eqb negb]. rewrite !orb_false_r. reflexivity.
Qed.

Theorem arith_vv_safe_fresh σ ta tb a b :
  get_t V σ ta = Some a -> get_t V σ tb = Some b -> wf_dense σ a -> wf_dense σ b ->
  shp (d_ap a) = shp (d_ap b) ->
  fresh_post σ a (eng_arith_vv V vzero vadd gf σ ta tb MSafe) (fun c => lift2 (cell σ a c) (cell σ b c)).
Proof.
  intros Ha Hb Wa Wb Hsh.
  rewrite (eng_arith_vv_safe_unfold gf σ ta tb a b Ha Hb Hsh (wf_rm _ _ Wa) (wf_rm _ _ Wb)).
  destruct (requires_iterator a || requires_iterator b) eqn:Eu.
  - rewrite (wf_all_iter _ _ Wa), (wf_all_iter _ _ Wb).
    destruct (clone_tmp V σ a) as [σ2 rt] eqn:Ec. apply vv_safe_iter; assumption.
  - apply orb_false_elim in Eu. destruct Eu as [Hra Hrb].
    destruct (clone_tmp V σ a) as [σ2 rt] eqn:Ec. apply vv_safe_raw; assumption.
Qed.

(* the statement in the form of the property *)
Theorem arith_vv_safe_pointwise σ ta tb a b :
  get_t V σ ta = Some a -> get_t V σ tb = Some b -> wf_dense σ a -> wf_dense σ b ->
  shp (d_ap a) = shp (d_ap b) ->
  exists σ' d',
    eng_arith_vv V vzero vadd gf σ ta tb MSafe = (σ', OOk (length (tens σ))) /\
    get_t V σ' (length (tens σ)) = Some d' /\
    shp (d_ap d') = shp (d_ap a) /\
    (forall c xa xb, inbox (shp (d_ap a)) c -> cell σ a c = Some xa -> cell σ b c = Some xb ->
                     cell σ' d' c = Some (f xa xb)) /\
    (forall k, (k < length (bufs σ))%nat -> get_buf σ' k = get_buf σ k) /\
    firstn (length (tens σ)) (tens σ') = tens σ.
Proof.
  intros Ha Hb Wa Wb Hsh.
  destruct (arith_vv_safe_fresh σ ta tb a b Ha Hb Wa Wb Hsh) as (σ' & d' & Hr & Hg & _ & Hap & _ & Hv & Hbuf & Hten).
  exists σ', d'. split; [exact Hr|]. split; [exact Hg|]. split; [rewrite Hap; reflexivity|].
  split; [|split; [exact Hbuf|exact Hten]].
  intros c xa xb Hc Hxa Hxb. rewrite (Hv c Hc), Hxa, Hxb. reflexivity.
Qed.

End Eng.

(* ====================================================================================== *)
(*  storage.Fill / CopyIter / Copy as assignment lists (operation = first projection)     *)
(* ====================================================================================== *)
Definition pr1 : V -> V -> V := fun x _ => x.

Lemma win_fill_as_asgs d v : forall idx σ,
  win_fill V σ d idx v =
  option_map fst (run_asgs (gf pr1) σ (map (fun i => mkAsg V d false i i (SConst V v) (SConst V v) false) idx) false).
Proof.
  induction idx as [|i idx IH]; intro σ; [reflexivity|].
  cbn [win_fill map Ops.run_asgs Ops.rd Ops.a_x Ops.a_y Ops.a_acc Ops.a_dst Ops.a_cap Ops.a_k]. unfold gf at 1, pr1 at 1. cbv beta.
  unfold Ops.wr. destruct (win_set σ d i v) as [σ1|]; [apply IH|reflexivity].
Qed.

Lemma copy_seq_as_asgs dst sr : forall di si σ,
  copy_seq V σ dst sr di si =
  option_map fst (run_asgs (gf pr1) σ
     (map (fun p => mkAsg V dst true (fst p) (fst p) (SCap V sr (snd p)) (SConst V vzero) false) (zip2 di si)) false).
Proof.
  induction di as [|i di IH]; intros [|j si] σ; try reflexivity.
  cbn [copy_seq zip2 map Ops.run_asgs Ops.rd Ops.a_x Ops.a_y Ops.a_acc Ops.a_dst Ops.a_cap Ops.a_k fst snd].
  destruct (cap_get σ sr j) as [v|]; [|reflexivity].
  unfold gf at 1, pr1 at 1. cbv beta. unfold Ops.wr.
  destruct (cap_set σ dst i v) as [σ1|]; [apply IH|reflexivity].
Qed.

Lemma win_scatter_as_asgs d : forall idx vs σ,
  win_scatter V σ d idx vs =
  option_map fst (run_asgs (gf pr1) σ
     (map (fun p => mkAsg V d false (fst p) (fst p) (SConst V (snd p)) (SConst V (snd p)) false) (combine idx vs)) false).
Proof.
  induction idx as [|i idx IH]; intros [|v vs] σ; try reflexivity.
  cbn [win_scatter combine map Ops.run_asgs Ops.rd Ops.a_x Ops.a_y Ops.a_acc Ops.a_dst Ops.a_cap Ops.a_k fst snd].
  unfold gf at 1, pr1 at 1. cbv beta. unfold Ops.wr.
  destruct (win_set σ d i v) as [σ1|]; [apply IH|reflexivity].
Qed.

Theorem win_fill_spec σ d idx v :
  in_buf σ d -> NoDup idx -> (forall i, In i idx -> 0 <= i < d_len d) ->
  exists σ', win_fill V σ d idx v = Some σ' /\ frame_ok σ σ' d /\
    (forall i, In i idx -> win_get σ' d i = Some v) /\
    (forall i, ~ In i idx -> win_get σ' d i = win_get σ d i).
Proof.
  intros Hd Hnd Hr. rewrite win_fill_as_asgs.
  destruct (schema_map pr1 σ d false (fun i => mkAsg V d false i i (SConst V v) (SConst V v) false)
              (fun i => i) idx false Hd) as (σ' & Hrun & Hfr & Hv & Hoth & _).
  - intros i Hi. split; [|reflexivity]. unfold asg_good. proj.
    exact (conj eq_refl (conj eq_refl (conj (Hr i Hi) (conj I I)))).
  - rewrite map_id. exact Hnd.
  - exists σ'. rewrite Hrun. split; [reflexivity|]. split; [exact Hfr|]. split.
    + intros i Hi. rewrite (Hv i Hi). reflexivity.
    + intros i Hi. apply Hoth. rewrite map_id. exact Hi.
Qed.

(* CopyIter(dst, src, di, si): dst[di_r] = src[si_r] *)
Theorem copy_seq_spec σ dst sr di si :
  in_buf σ dst -> in_buf σ sr -> sep dst sr -> NoDup di ->
  (forall i, In i di -> 0 <= i < d_len dst) -> (forall j, In j si -> 0 <= j < d_len sr) ->
  exists σ', copy_seq V σ dst sr di si = Some σ' /\ frame_ok σ σ' dst /\
    (forall i j, In (i, j) (zip2 di si) -> win_get σ' dst i = win_get σ sr j) /\
    (forall i, ~ In i (map fst (zip2 di si)) -> win_get σ' dst i = win_get σ dst i).
Proof.
  intros Hd Hs Hsep Hnd Hdi Hsi. rewrite copy_seq_as_asgs.
  destruct (schema_map pr1 σ dst true
              (fun p => mkAsg V dst true (fst p) (fst p) (SCap V sr (snd p)) (SConst V vzero) false)
              fst (zip2 di si) false Hd) as (σ' & Hrun & Hfr & Hv & Hoth & _).
  - intros [i j] Hin. apply zip2_fst_In in Hin. destruct Hin as [Hi Hj]. split; [|reflexivity].
    unfold asg_good. proj. refine (conj eq_refl (conj eq_refl (conj (Hdi i Hi) (conj _ I)))). right.
    split; [exact Hsep|]. split; [exact Hs|apply Hsi; exact Hj].
  - apply zip2_NoDup_fst. exact Hnd.
  - exists σ'. rewrite Hrun. split; [reflexivity|]. split; [exact Hfr|]. split; [|exact Hoth].
    intros i j Hin. pose proof (Hv (i, j) Hin) as Hq. cbn [fst] in Hq. rewrite Hq.
    apply zip2_fst_In in Hin. destruct Hin as [_ Hj]. pose proof (Hsi j Hj) as Hjr.
    destruct (in_buf_win_get σ sr j Hs Hjr) as [v Hvj]. rewrite Hvj.
    rewrite (asg_val_plain pr1 σ _ v vzero); proj; [reflexivity| |reflexivity|reflexivity].
    rewrite cap_get_win by exact Hjr. exact Hvj.
Qed.

Lemma frame_ok_trans σ1 σ2 σ3 D : frame_ok σ1 σ2 D -> frame_ok σ2 σ3 D -> frame_ok σ1 σ3 D.
Proof.
  intros (Ht & Hl & Hn & Ho & Hs & Hw) (Ht' & Hl' & Hn' & Ho' & Hs' & Hw').
  split; [congruence|]. split; [congruence|]. split; [intro b; rewrite Hn', Hn; reflexivity|].
  split; [intros b Hb; rewrite Ho', Ho by exact Hb; reflexivity|].
  split; [intros E i HE; rewrite Hs', Hs by exact HE; reflexivity|].
  intros p Hp. rewrite Hw', Hw by exact Hp. reflexivity.
Qed.

Lemma frame_ok_refl σ D : frame_ok σ σ D.
Proof. unfold frame_ok. auto 10. Qed.

(* ====================================================================================== *)
(*  Q4. scalar forms, safe mode                                                           *)
(* ====================================================================================== *)
Section Eng2.
Variable f : V -> V -> V.
Notation gf := (gf f).

(* scalarToHeader: the Go scalar lives in a fresh one-element allocation *)
Definition sc_store (σ : store) (s : V) : store := mkStore V (bufs σ ++ [[s]]) (tens σ).
Definition sc_hdr (σ : store) : dense := mkDense (length (bufs σ)) 0 1 scalar_ap None false.

Lemma eng_arith_scalar_safe_unfold g σ tt t s lt seq :
  get_t V σ tt = Some t -> all_iter t = Some seq ->
  eng_arith_scalar V vzero vadd g σ tt s lt MSafe =
    if (if is_scalar (shp (d_ap t)) then false else requires_iterator t) then
      let '(σ3, rt) := clone_tmp V (sc_store σ s) t in
      if lt then finish_new V (e_iter V vzero vadd g σ3 rt (sc_hdr σ) seq []) σ3 rt
      else finish_new V (e_iter V vzero vadd g σ3 (sc_hdr σ) rt [] seq) σ3 rt
    else
      let '(σ3, rt) := clone_tmp V (sc_store σ s) t in
      if lt then finish_new V (e_plain V vzero vadd g σ3 rt (sc_hdr σ)) σ3 rt
      else match hd0 V σ3 (sc_hdr σ) with
           | Some sv => match win_fill V σ3 rt (idxs (d_len rt)) sv with
                        | Some σ4 => finish_new V (e_plain V vzero vadd g σ4 rt t) σ4 rt
                        | None => (sc_store σ s, OPanicR) end
           | None => (sc_store σ s, OPanicR) end.
Proof.
  intros Ht Hseq. unfold eng_arith_scalar, eng_arith_scalar_h. rewrite Ht. cbn [opt_reuse]. rewrite Ht.
  cbn [scalar_hdr add_buf].
  change (get_t V (mkStore V (bufs σ ++ [[s]]) (tens σ)) tt) with (get_t V σ tt).
  rewrite Ht, Hseq. rewrite !orb_false_r.
  destruct lt; destruct (if is_scalar (shp (d_ap t)) then false else requires_iterator t); reflexivity.
Qed.

Lemma wf_dense_ext σ σ2 d :
  (forall k, (k < length (bufs σ))%nat -> get_buf σ2 k = get_buf σ k) -> wf_dense σ d -> wf_dense σ2 d.
Proof.
  intros H W. pose proof (wf_buf_lt _ _ W) as Hlt. destruct W as [H1 H2 H3 H4 H5 H6 H7 H8].
  constructor; auto. apply (in_buf_buf_eq σ); auto.
Qed.

Lemma sc_store_buf σ s k : (k < length (bufs σ))%nat -> get_buf (sc_store σ s) k = get_buf σ k.
Proof. apply get_buf_app_l. Qed.

Lemma sc_hd0 σ s t σ3 rt : in_buf (sc_store σ s) t -> 0 <= d_len t ->
  clone_tmp V (sc_store σ s) t = (σ3, rt) -> hd0 V σ3 (sc_hdr σ) = Some s.
Proof.
  intros Hin Hl Ec. destruct (clone_tmp_spec _ _ _ _ Ec Hin Hl) as (_ & _ & _ & Hb & _).
  unfold hd0. rewrite (win_get_buf_eq (sc_store σ s) σ3).
  - unfold Mem.win_get, sc_hdr. cbn [d_len d_off d_buf]. unfold sc_store. rewrite get_buf_app_new. reflexivity.
  - apply Hb. unfold sc_hdr, sc_store. cbn [d_buf Mem.bufs]. rewrite app_length. cbn [length]. lia.
Qed.

Lemma finish_new_irrel (R : option (store * bool)) σx σ0 σ0' d :
  R = Some (σx, false) -> finish_new V R σ0 d = finish_new V R σ0' d.
Proof. intros ->. reflexivity. Qed.

(* the result of a scalar form, stated over the caller's store *)
Definition fresh_post1 (σ : store) (t : dense) (res : store * oresult) (val : list Z -> option V) : Prop :=
  exists σ' d', res = (σ', OOk (length (tens σ))) /\
    get_t V σ' (length (tens σ)) = Some d' /\ shp (d_ap d') = shp (d_ap t) /\
    (forall c, inbox (shp (d_ap t)) c -> cell σ' d' c = val c) /\
    (forall k, (k < length (bufs σ))%nat -> get_buf σ' k = get_buf σ k) /\
    firstn (length (tens σ)) (tens σ') = tens σ /\
    (length (bufs σ) <= d_buf d')%nat.

Lemma fresh_post_sc σ s t res val :
  fresh_post (sc_store σ s) t res val -> fresh_post1 σ t res val.
Proof.
  intros (σ' & d' & Hr & Hg & Ht & Hap & Hbuf & Hv & Hb & Hf). cbn [sc_store Mem.tens Mem.bufs] in *.
  exists σ', d'. split; [exact Hr|]. split; [exact Hg|]. split; [rewrite Hap; reflexivity|].
  split; [exact Hv|]. split.
  - intros k Hk. rewrite Hb by (rewrite app_length; cbn [length]; lia). apply sc_store_buf. exact Hk.
  - split; [exact Hf|]. rewrite Hbuf, app_length. lia.
Qed.

Definition lift_l (s : V) (x : option V) : option V := match x with Some a => Some (f a s) | None => None end.
Definition lift_r (s : V) (x : option V) : option V := match x with Some a => Some (f s a) | None => None end.

Lemma cell_sc σ s t c : wf_dense σ t -> cell (sc_store σ s) t c = cell σ t c.
Proof. intro W. unfold cell. apply win_get_buf_eq. apply sc_store_buf. eapply wf_buf_lt; eassumption. Qed.

Theorem arith_scalar_safe_left_fresh σ tt t s :
  get_t V σ tt = Some t -> wf_dense σ t ->
  fresh_post1 σ t (eng_arith_scalar V vzero vadd gf σ tt s true MSafe) (fun c => lift_l s (cell σ t c)).
Proof.
  intros Ht W. pose proof (wf_big _ _ W) as Hbig.
  rewrite (eng_arith_scalar_safe_unfold gf σ tt t s true _ Ht (wf_all_iter _ _ W)).
  assert (W2 : wf_dense (sc_store σ s) t) by (apply (wf_dense_ext σ); [apply sc_store_buf|exact W]).
  apply (fresh_post_sc σ s).
  destruct (clone_tmp V (sc_store σ s) t) as [σ3 rt] eqn:Ec.
  destruct (wf_clone_facts _ _ _ _ _ W2 W2 Ec) as (Hap & Hlen & HSrt & Hin3 & Hint & Hsep & Hw3 & Hwt).
  pose proof (sc_hd0 σ s t σ3 rt (wf_win _ _ W2) ltac:(lia) Ec) as Hhd.
  destruct (if is_scalar (shp (d_ap t)) then false else requires_iterator t) eqn:Eu.
  - (* iterator path: VS kernel over the tensor's offsets *)
    apply (safe_clone_run _ t σ3 rt _ _ Ec (wf_win _ _ W2)); [lia|].
    rewrite (e_iter_vs gf σ3 rt (sc_hdr σ) _ _ s HSrt eq_refl Hhd).
    destruct (k_iter_vs_spec f σ3 rt s (offsets (d_ap t)) false Hin3 (wf_nodup _ _ W)) as (σ4 & Hrun & Hfr & Hv & _).
    { intros i Hi. rewrite Hlen. apply (wf_range _ _ W). exact Hi. }
    exists σ4. rewrite Hrun. split; [reflexivity|]. split; [exact Hfr|].
    intros c Hc. cbv beta. destruct (wf_cell_some _ _ _ W Hc) as [x Hx]. rewrite Hx. cbn [lift_l].
    apply Hv; [apply offsets_In; [apply (wf_pos _ _ W)|exact Hc]|].
    rewrite Hw3. rewrite <- (cell_sc σ s) in Hx by exact W. exact Hx.
  - (* raw path: VS kernel over the whole window *)
    apply (safe_clone_run _ t σ3 rt _ _ Ec (wf_win _ _ W2)); [lia|].
    rewrite (e_plain_vs gf σ3 rt (sc_hdr σ) s HSrt eq_refl Hhd).
    destruct (k_vs_spec f σ3 rt s false Hin3) as (σ4 & Hrun & Hfr & Hv).
    exists σ4. split; [exact Hrun|]. split; [exact Hfr|].
    intros c Hc. cbv beta. destruct (wf_cell_some _ _ _ W Hc) as [x Hx]. rewrite Hx. cbn [lift_l].
    apply Hv. rewrite Hw3. rewrite <- (cell_sc σ s) in Hx by exact W. exact Hx.
Qed.

Theorem arith_scalar_safe_right_fresh σ tt t s :
  get_t V σ tt = Some t -> wf_dense σ t ->
  fresh_post1 σ t (eng_arith_scalar V vzero vadd gf σ tt s false MSafe) (fun c => lift_r s (cell σ t c)).
Proof.
  intros Ht W. pose proof (wf_big _ _ W) as Hbig.
  rewrite (eng_arith_scalar_safe_unfold gf σ tt t s false _ Ht (wf_all_iter _ _ W)).
  assert (W2 : wf_dense (sc_store σ s) t) by (apply (wf_dense_ext σ); [apply sc_store_buf|exact W]).
  apply (fresh_post_sc σ s).
  destruct (clone_tmp V (sc_store σ s) t) as [σ3 rt] eqn:Ec.
  destruct (wf_clone_facts _ _ _ _ _ W2 W2 Ec) as (Hap & Hlen & HSrt & Hin3 & Hint & Hsep & Hw3 & Hwt).
  pose proof (sc_hd0 σ s t σ3 rt (wf_win _ _ W2) ltac:(lia) Ec) as Hhd.
  destruct (if is_scalar (shp (d_ap t)) then false else requires_iterator t) eqn:Eu.
  - (* iterator path: SV kernel over the clone, walked with the tensor's offsets *)
    apply (safe_clone_run _ t σ3 rt _ _ Ec (wf_win _ _ W2)); [lia|].
    rewrite (e_iter_sv gf σ3 (sc_hdr σ) rt _ _ s eq_refl HSrt Hhd).
    destruct (k_iter_sv_spec f σ3 s rt (offsets (d_ap t)) false Hin3 (wf_nodup _ _ W)) as (σ4 & Hrun & Hfr & Hv & _).
    { intros i Hi. rewrite Hlen. apply (wf_range _ _ W). exact Hi. }
    exists σ4. rewrite Hrun. split; [reflexivity|]. split; [exact Hfr|].
    intros c Hc. cbv beta. destruct (wf_cell_some _ _ _ W Hc) as [x Hx]. rewrite Hx. cbn [lift_r].
    apply Hv; [apply offsets_In; [apply (wf_pos _ _ W)|exact Hc]|].
    rewrite Hw3. rewrite <- (cell_sc σ s) in Hx by exact W. exact Hx.
  - (* raw path: the clone is FILLED with the scalar, then Vec(clone, tensor) *)
    rewrite Hhd.
    destruct (win_fill_spec σ3 rt (idxs (d_len rt)) s Hin3 (idxs_NoDup _)) as (σ4 & Hfill & Hfr4 & Hv4 & _).
    { intros i Hi. apply idxs_In in Hi. exact Hi. }
    rewrite Hfill.
    assert (Hin4 : in_buf σ4 rt) by (apply (in_buf_frame σ3); [apply Hfr4|exact Hin3]).
    assert (Hint4 : in_buf σ4 t) by (apply (in_buf_frame σ3); [apply Hfr4|exact Hint]).
    destruct (k_vec_spec f σ4 rt t false Hin4 Hint4 Hsep) as (l & σ5 & Hk & Hrun & Hfr5 & Hv5 & _); [lia|].
    assert (HR : e_plain V vzero vadd gf σ4 rt t = Some (σ5, false)).
    { rewrite e_plain_vv by (exact HSrt || (eapply wf_isS; eassumption)). rewrite Hk. exact Hrun. }
    rewrite (finish_new_irrel _ σ5 σ4 σ3 rt HR).
    apply (safe_clone_run _ t σ3 rt _ _ Ec (wf_win _ _ W2)); [lia|].
    exists σ5. split; [exact HR|]. split; [eapply frame_ok_trans; eassumption|].
    intros c Hc. cbv beta. destruct (wf_cell_some _ _ _ W Hc) as [x Hx]. rewrite Hx. cbn [lift_r].
    assert (Hi : 0 <= dot (str (d_ap t)) c < d_len t).
    { apply (wf_range _ _ W). apply offsets_In; [apply (wf_pos _ _ W)|exact Hc]. }
    apply Hv5.
    + apply Hv4. apply idxs_In. lia.
    + destruct Hfr4 as (_ & _ & _ & _ & Hs4 & _). rewrite (Hs4 t _ Hsep), Hwt.
      rewrite <- (cell_sc σ s) in Hx by exact W. exact Hx.
Qed.

(* operand ORDER: tensor-scalar = f x s, scalar-tensor = f s x *)
Theorem arith_scalar_safe_left σ tt t s :
  get_t V σ tt = Some t -> wf_dense σ t ->
  exists σ' d',
    eng_arith_scalar V vzero vadd gf σ tt s true MSafe = (σ', OOk (length (tens σ))) /\
    get_t V σ' (length (tens σ)) = Some d' /\ shp (d_ap d') = shp (d_ap t) /\
    (forall c x, inbox (shp (d_ap t)) c -> cell σ t c = Some x -> cell σ' d' c = Some (f x s)) /\
    (forall k, (k < length (bufs σ))%nat -> get_buf σ' k = get_buf σ k) /\
    firstn (length (tens σ)) (tens σ') = tens σ /\ (length (bufs σ) <= d_buf d')%nat.
Proof.
  intros Ht W. destruct (arith_scalar_safe_left_fresh σ tt t s Ht W) as (σ' & d' & Hr & Hg & Hs & Hv & Hb & Hf & Hn).
  exists σ', d'. split; [exact Hr|]. split; [exact Hg|]. split; [exact Hs|].
  split; [|auto]. intros c x Hc Hx. rewrite (Hv c Hc), Hx. reflexivity.
Qed.

Theorem arith_scalar_safe_right σ tt t s :
  get_t V σ tt = Some t -> wf_dense σ t ->
  exists σ' d',
    eng_arith_scalar V vzero vadd gf σ tt s false MSafe = (σ', OOk (length (tens σ))) /\
    get_t V σ' (length (tens σ)) = Some d' /\ shp (d_ap d') = shp (d_ap t) /\
    (forall c x, inbox (shp (d_ap t)) c -> cell σ t c = Some x -> cell σ' d' c = Some (f s x)) /\
    (forall k, (k < length (bufs σ))%nat -> get_buf σ' k = get_buf σ k) /\
    firstn (length (tens σ)) (tens σ') = tens σ /\ (length (bufs σ) <= d_buf d')%nat.
Proof.
  intros Ht W. destruct (arith_scalar_safe_right_fresh σ tt t s Ht W) as (σ' & d' & Hr & Hg & Hs & Hv & Hb & Hf & Hn).
  exists σ', d'. split; [exact Hr|]. split; [exact Hg|]. split; [exact Hs|].
  split; [|auto]. intros c x Hc Hx. rewrite (Hv c Hc), Hx. reflexivity.
Qed.

End Eng2.

(* ====================================================================================== *)
(*  Q5. option modes: unsafe / reuse / incr write only their destination                  *)
(* ====================================================================================== *)
Section Eng3.
Variable f : V -> V -> V.
Notation gf := (gf f).

Lemma eng_arith_vv_unsafe_unfold g σ ta tb a b :
  get_t V σ ta = Some a -> get_t V σ tb = Some b ->
  shp (d_ap a) = shp (d_ap b) ->
  is_cm (ord (d_ap a)) = false -> is_cm (ord (d_ap b)) = false ->
  eng_arith_vv V vzero vadd g σ ta tb MUnsafe =
    if requires_iterator a || requires_iterator b then
      match all_iter a, all_iter b with
      | Some ai, Some bi => finish V (e_iter V vzero vadd g σ a b ai bi) σ ta
      | _, _ => (σ, OPanicR)
      end
    else finish V (e_plain V vzero vadd g σ a b) σ ta.
Proof.
  intros Ha Hb Hsh Hca Hcb. unfold eng_arith_vv. rewrite Ha, Hb, Hsh, shape_eq_refl.
  cbn [negb opt_reuse]. rewrite Ha, Hb. unfold has_same_order. rewrite Hca, Hcb.
  cbn [Bool.eqb negb]. rewrite !orb_false_r. reflexivity.
Qed.

Lemma handle_reuse_ok σ r rdn sh o incr :
  get_t V σ r = Some rdn -> d_len rdn = size sh -> shp (d_ap rdn) = sh ->
  has_same_order o (ord (d_ap rdn)) = true ->
  handle_reuse V σ r sh o incr = Ok σ.
Proof.
  intros Hr Hl Hs Ho. unfold handle_reuse. rewrite Hr, Hl, Z.eqb_refl. cbn [negb andb].
  rewrite Hs, shape_eq_refl. destruct incr; [reflexivity|]. rewrite Hr, Ho. reflexivity.
Qed.

Lemma eng_arith_vv_reuse_unfold g σ ta tb r a b rdn :
  get_t V σ ta = Some a -> get_t V σ tb = Some b -> get_t V σ r = Some rdn ->
  shp (d_ap a) = shp (d_ap b) -> shp (d_ap rdn) = shp (d_ap a) -> d_len rdn = size (shp (d_ap a)) ->
  is_cm (ord (d_ap a)) = false -> is_cm (ord (d_ap b)) = false -> is_cm (ord (d_ap rdn)) = false ->
  requires_iterator rdn = false ->
  eng_arith_vv V vzero vadd g σ ta tb (MReuse r) =
    if requires_iterator a || requires_iterator b then
      match all_iter a, all_iter b with
      | Some ai, Some bi =>
        match all_iter rdn with
        | Some ii =>
          match copy_iter_idx V σ rdn a ii ai with
          | Some σ2 => finish V (e_iter V vzero vadd g σ2 rdn b ii bi) σ2 r
          | None => (σ, OPanicR)
          end
        | None => (σ, OPanicR)
        end
      | _, _ => (σ, OPanicR)
      end
    else finish2 V (e_recv V vzero vadd g σ a b rdn) σ r.
Proof.
  intros Ha Hb Hr Hsh Hsr Hl Hca Hcb Hcr Hrr. unfold eng_arith_vv. rewrite Ha, Hb, Hsh, shape_eq_refl.
  cbn [negb opt_reuse]. rewrite <- Hsh.
  rewrite (handle_reuse_ok σ r rdn _ _ false Hr Hl Hsr) by (unfold has_same_order; rewrite Hca, Hcr; reflexivity).
  rewrite Ha, Hb, Hr, Hrr. unfold has_same_order. rewrite Hca, Hcb, Hcr.
  cbn [Bool.eqb negb orb]. rewrite !orb_false_r. reflexivity.
Qed.

Lemma eng_arith_vv_incr_unfold g σ ta tb r a b rdn :
  get_t V σ ta = Some a -> get_t V σ tb = Some b -> get_t V σ r = Some rdn ->
  shp (d_ap a) = shp (d_ap b) -> shp (d_ap rdn) = shp (d_ap a) -> d_len rdn = size (shp (d_ap a)) ->
  is_cm (ord (d_ap a)) = false -> is_cm (ord (d_ap b)) = false -> is_cm (ord (d_ap rdn)) = false ->
  requires_iterator rdn = false ->
  eng_arith_vv V vzero vadd g σ ta tb (MIncr r) =
    if requires_iterator a || requires_iterator b then
      match all_iter a, all_iter b with
      | Some ai, Some bi =>
        match all_iter rdn with
        | Some ii => finish2 V (e_iter_incr V vzero vadd g σ a b rdn ai bi ii) σ r
        | None => (σ, OPanicR)
        end
      | _, _ => (σ, OPanicR)
      end
    else finish2 V (e_incr V vzero vadd g σ a b rdn) σ r.
Proof.
  intros Ha Hb Hr Hsh Hsr Hl Hca Hcb Hcr Hrr. unfold eng_arith_vv. rewrite Ha, Hb, Hsh, shape_eq_refl.
  cbn [negb opt_reuse]. rewrite <- Hsh.
  rewrite (handle_reuse_ok σ r rdn _ _ true Hr Hl Hsr) by (unfold has_same_order; rewrite Hca, Hcr; reflexivity).
  rewrite Ha, Hb, Hr, Hrr. unfold has_same_order. rewrite Hca, Hcb, Hcr.
  cbn [Bool.eqb negb orb]. rewrite !orb_false_r. reflexivity.
Qed.

Lemma e_recv_vv g σ a b r : isS a = false -> isS b = false ->
  e_recv V vzero vadd g σ a b r = (drop_err V (run_opt V vzero vadd g σ (k_recv V σ a b r)), false).
Proof. intros Ha Hb. unfold e_recv. rewrite Ha, Hb. reflexivity. Qed.

Lemma e_incr_vv g σ a b r : isS a = false -> isS b = false ->
  e_incr V vzero vadd g σ a b r = (drop_err V (run_opt V vzero vadd g σ (k_incr V σ a b r)), false).
Proof. intros Ha Hb. unfold e_incr. rewrite Ha, Hb. reflexivity. Qed.

Lemma e_iter_incr_vv g σ a b r ai bi ii : isS a = false -> isS b = false ->
  e_iter_incr V vzero vadd g σ a b r ai bi ii = (run_asgs g σ (k_iter_incr V a b r ai bi ii) false, false).
Proof. intros Ha Hb. unfold e_iter_incr. rewrite Ha, Hb. reflexivity. Qed.

(* the operation returned tensor index tD, whose dense is D; only logical cells of D changed *)
Definition dest_post (σ : store) (D : dense) (tD : nat) (res : store * oresult) (val : list Z -> option V) : Prop :=
  exists σ', res = (σ', OOk tD) /\ tens σ' = tens σ /\ length (bufs σ') = length (bufs σ) /\
    (forall c, inbox (shp (d_ap D)) c -> cell σ' D c = val c) /\
    (forall k, k <> d_buf D -> get_buf σ' k = get_buf σ k) /\
    (forall E i, sep D E -> win_get σ' E i = win_get σ E i) /\
    (forall i, (forall c, inbox (shp (d_ap D)) c -> i <> dot (str (d_ap D)) c) -> win_get σ' D i = win_get σ D i) /\
    (forall p, ~ (d_off D <= p < d_off D + d_len D) -> peek σ' (d_buf D) p = peek σ (d_buf D) p).

Lemma dest_run σ σ' D tD val :
  frame_ok σ σ' D ->
  (forall c, inbox (shp (d_ap D)) c -> win_get σ' D (dot (str (d_ap D)) c) = val c) ->
  (forall i, (forall c, inbox (shp (d_ap D)) c -> i <> dot (str (d_ap D)) c) -> win_get σ' D i = win_get σ D i) ->
  dest_post σ D tD (σ', OOk tD) val.
Proof.
  intros (Ht & Hl & _ & Ho & Hs & Hw) Hv Hn. exists σ'. unfold cell. auto 10.
Qed.

Lemma contig_nonlogical σ0 σ σ' D : wf_dense σ0 D -> requires_iterator D = false ->
  forall i, (forall c, inbox (shp (d_ap D)) c -> i <> dot (str (d_ap D)) c) -> win_get σ' D i = win_get σ D i.
Proof.
  intros W Hr i Hi. destruct (Z_lt_dec i 0) as [Hn|Hn]; [rewrite !win_get_out by lia; reflexivity|].
  destruct (Z_lt_dec i (d_len D)) as [Hlt|Hge]; [|rewrite !win_get_out by lia; reflexivity].
  exfalso. destruct (wf_contig_cover _ _ i W Hr) as [Hc Hd]; [lia|]. apply (Hi _ Hc). symmetry. exact Hd.
Qed.

Lemma offs_nonlogical a i : pos_shape (shp a) ->
  (forall c, inbox (shp a) c -> i <> dot (str a) c) -> ~ In i (offsets a).
Proof.
  intros Hp Hi Hin. unfold offsets in Hin. apply in_map_iff in Hin. destruct Hin as (c & Hc & Hin).
  apply (Hi c); [apply coords_inbox; assumption|congruence].
Qed.

Lemma zip2_map_fst_In (a b : list Z) i : In i (map fst (zip2 a b)) -> In i a.
Proof. intro H. apply in_map_iff in H. destruct H as ([x y] & Hq & Hin). cbn in Hq. subst x. apply zip2_fst_In in Hin. tauto. Qed.

Lemma zip3_map_snd_In (a b c : list Z) k : In k (map snd (zip3 a b c)) -> In k c.
Proof. intro H. apply in_map_iff in H. destruct H as ([[x y] z] & Hq & Hin). cbn in Hq. subst z. apply zip3_In in Hin. tauto. Qed.

(* ---- unsafe: the first operand is overwritten ---- *)
Theorem arith_vv_unsafe_post σ ta tb a b :
  get_t V σ ta = Some a -> get_t V σ tb = Some b -> wf_dense σ a -> wf_dense σ b ->
  shp (d_ap a) = shp (d_ap b) -> sep a b ->
  dest_post σ a ta (eng_arith_vv V vzero vadd gf σ ta tb MUnsafe) (fun c => lift2 f (cell σ a c) (cell σ b c)).
Proof.
  intros Ha Hb Wa Wb Hsh Hsep.
  rewrite (eng_arith_vv_unsafe_unfold gf σ ta tb a b Ha Hb Hsh (wf_rm _ _ Wa) (wf_rm _ _ Wb)).
  pose proof (wf_isS _ _ Wa) as HSa. pose proof (wf_isS _ _ Wb) as HSb.
  destruct (requires_iterator a || requires_iterator b) eqn:Eu.
  - rewrite (wf_all_iter _ _ Wa), (wf_all_iter _ _ Wb), (e_iter_vv gf σ a b _ _ HSa HSb).
    destruct (k_iter_spec f σ a b (offsets (d_ap a)) (offsets (d_ap b)) false (wf_win _ _ Wa) (wf_win _ _ Wb) Hsep
                (wf_nodup _ _ Wa) (wf_range _ _ Wa) (wf_range _ _ Wb)) as (σ' & Hrun & Hfr & Hv & Hoth).
    rewrite Hrun. cbn [drop_err finish]. apply dest_run; [exact Hfr| |].
    + intros c Hc. destruct (wf_cell_some _ _ _ Wa Hc) as [xa Hxa].
      destruct (wf_cell_some σ b c Wb) as [xb Hxb]; [rewrite <- Hsh; exact Hc|].
      rewrite Hxa, Hxb. cbn [lift2]. apply (Hv _ (dot (str (d_ap b)) c)); [|exact Hxa|exact Hxb].
      apply zip2_offsets_In; [exact Hsh|apply (wf_pos _ _ Wa)|exact Hc].
    + intros i Hi. apply Hoth. intro Hin. apply zip2_map_fst_In in Hin.
      revert Hin. apply offs_nonlogical; [apply (wf_pos _ _ Wa)|exact Hi].
  - apply orb_false_elim in Eu. destruct Eu as [Hra Hrb].
    destruct (wf_flag _ _ Wa Hra) as [Hsa Hla]. destruct (wf_flag _ _ Wb Hrb) as [Hsb Hlb].
    rewrite (e_plain_vv gf σ a b HSa HSb).
    destruct (k_vec_spec f σ a b false (wf_win _ _ Wa) (wf_win _ _ Wb) Hsep) as (l & σ' & Hk & Hrun & Hfr & Hv & _).
    { rewrite Hla, Hlb, Hsh. lia. }
    rewrite Hk. cbn [run_opt]. rewrite Hrun. cbn [finish]. apply dest_run; [exact Hfr| |].
    + intros c Hc. destruct (wf_cell_some _ _ _ Wa Hc) as [xa Hxa].
      destruct (wf_cell_some σ b c Wb) as [xb Hxb]; [rewrite <- Hsh; exact Hc|].
      rewrite Hxa, Hxb. cbn [lift2]. apply Hv; [exact Hxa|].
      unfold cell in Hxb. rewrite Hsb, <- Hsh, <- Hsa in Hxb. exact Hxb.
    + apply (contig_nonlogical σ); assumption.
Qed.

(* ---- reuse: the result goes to a contiguous destination of the same shape ---- *)
Theorem arith_vv_reuse_post σ ta tb r a b rdn :
  get_t V σ ta = Some a -> get_t V σ tb = Some b -> get_t V σ r = Some rdn ->
  wf_dense σ a -> wf_dense σ b -> wf_dense σ rdn -> requires_iterator rdn = false ->
  shp (d_ap a) = shp (d_ap b) -> shp (d_ap rdn) = shp (d_ap a) ->
  d_buf rdn <> d_buf a -> d_buf rdn <> d_buf b ->
  dest_post σ rdn r (eng_arith_vv V vzero vadd gf σ ta tb (MReuse r)) (fun c => lift2 f (cell σ a c) (cell σ b c)).
Proof.
  intros Ha Hb Hr Wa Wb Wr Hrr Hsh Hsr Hba Hbb.
  destruct (wf_flag _ _ Wr Hrr) as [Hstr Hlr].
  rewrite (eng_arith_vv_reuse_unfold gf σ ta tb r a b rdn Ha Hb Hr Hsh Hsr) by
    (first [rewrite Hlr, Hsr; reflexivity | apply (wf_rm _ _ Wa) | apply (wf_rm _ _ Wb) | apply (wf_rm _ _ Wr) | exact Hrr]).
  pose proof (wf_isS _ _ Wa) as HSa. pose proof (wf_isS _ _ Wb) as HSb. pose proof (wf_isS _ _ Wr) as HSr.
  assert (Hsa : sep rdn a) by (left; exact Hba). assert (Hsb : sep rdn b) by (left; exact Hbb).
  destruct (requires_iterator a || requires_iterator b) eqn:Eu.
  - rewrite (wf_all_iter _ _ Wa), (wf_all_iter _ _ Wb), (wf_all_iter _ _ Wr). unfold copy_iter_idx.
    destruct (copy_seq_spec σ rdn a (offsets (d_ap rdn)) (offsets (d_ap a)) (wf_win _ _ Wr) (wf_win _ _ Wa) Hsa
                (wf_nodup _ _ Wr) (wf_range _ _ Wr) (wf_range _ _ Wa)) as (σ2 & Hcp & Hfr2 & Hv2 & _).
    rewrite Hcp. rewrite (e_iter_vv gf σ2 rdn b _ _ HSr HSb).
    assert (Hin2r : in_buf σ2 rdn) by (apply (in_buf_frame σ); [apply Hfr2|apply (wf_win _ _ Wr)]).
    assert (Hin2b : in_buf σ2 b) by (apply (in_buf_frame σ); [apply Hfr2|apply (wf_win _ _ Wb)]).
    destruct (k_iter_spec f σ2 rdn b (offsets (d_ap rdn)) (offsets (d_ap b)) false Hin2r Hin2b Hsb
                (wf_nodup _ _ Wr) (wf_range _ _ Wr) (wf_range _ _ Wb)) as (σ3 & Hrun & Hfr3 & Hv3 & _).
    rewrite Hrun. cbn [drop_err finish]. apply dest_run; [eapply frame_ok_trans; eassumption| |].
    + intros c Hc. assert (Hca : inbox (shp (d_ap a)) c) by (rewrite <- Hsr; exact Hc).
      destruct (wf_cell_some _ _ _ Wa Hca) as [xa Hxa].
      destruct (wf_cell_some σ b c Wb) as [xb Hxb]; [rewrite <- Hsh; exact Hca|].
      rewrite Hxa, Hxb. cbn [lift2]. apply (Hv3 _ (dot (str (d_ap b)) c)).
      * apply zip2_offsets_In; [congruence|apply (wf_pos _ _ Wr)|exact Hc].
      * rewrite (Hv2 _ (dot (str (d_ap a)) c)); [exact Hxa|].
        apply zip2_offsets_In; [exact Hsr|apply (wf_pos _ _ Wr)|exact Hc].
      * destruct Hfr2 as (_ & _ & _ & _ & Hs2 & _). rewrite (Hs2 b _ Hsb). exact Hxb.
    + apply (contig_nonlogical σ); assumption.
  - apply orb_false_elim in Eu. destruct Eu as [Hra Hrb].
    destruct (wf_flag _ _ Wa Hra) as [Hstra Hla]. destruct (wf_flag _ _ Wb Hrb) as [Hstrb Hlb].
    rewrite (e_recv_vv gf σ a b rdn HSa HSb).
    destruct (k_recv_spec f σ a b rdn false (wf_win _ _ Wa) (wf_win _ _ Wb) (wf_win _ _ Wr) Hsa Hsb)
      as (l & σ' & Hk & Hrun & Hfr & Hv).
    { rewrite Hlr, Hla, Hsr. lia. }
    { rewrite Hlr, Hlb, Hsr, Hsh. lia. }
    rewrite Hk. cbn [run_opt]. rewrite Hrun. cbn [drop_err finish2 finish fst snd]. apply dest_run; [exact Hfr| |].
    + intros c Hc. assert (Hca : inbox (shp (d_ap a)) c) by (rewrite <- Hsr; exact Hc).
      destruct (wf_cell_some _ _ _ Wa Hca) as [xa Hxa].
      destruct (wf_cell_some σ b c Wb) as [xb Hxb]; [rewrite <- Hsh; exact Hca|].
      rewrite Hxa, Hxb. cbn [lift2].
      assert (Hi : 0 <= dot (str (d_ap rdn)) c < d_len rdn).
      { apply (wf_range _ _ Wr). apply offsets_In; [apply (wf_pos _ _ Wr)|exact Hc]. }
      apply Hv; [exact Hi| |].
      * unfold cell in Hxa. rewrite Hstr, Hsr, <- Hstra. exact Hxa.
      * unfold cell in Hxb. rewrite Hstr, Hsr, Hsh, <- Hstrb. exact Hxb.
    + apply (contig_nonlogical σ); assumption.
Qed.

Definition lift3 (o x y : option V) : option V :=
  match o, x, y with Some o, Some x, Some y => Some (vadd o (f x y)) | _, _, _ => None end.

(* ---- incr: the result is ADDED into a contiguous destination of the same shape ---- *)
Theorem arith_vv_incr_post σ ta tb r a b rdn :
  get_t V σ ta = Some a -> get_t V σ tb = Some b -> get_t V σ r = Some rdn ->
  wf_dense σ a -> wf_dense σ b -> wf_dense σ rdn -> requires_iterator rdn = false ->
  shp (d_ap a) = shp (d_ap b) -> shp (d_ap rdn) = shp (d_ap a) ->
  d_buf rdn <> d_buf a -> d_buf rdn <> d_buf b ->
  dest_post σ rdn r (eng_arith_vv V vzero vadd gf σ ta tb (MIncr r))
            (fun c => lift3 (cell σ rdn c) (cell σ a c) (cell σ b c)).
Proof.
  intros Ha Hb Hr Wa Wb Wr Hrr Hsh Hsr Hba Hbb.
  destruct (wf_flag _ _ Wr Hrr) as [Hstr Hlr].
  rewrite (eng_arith_vv_incr_unfold gf σ ta tb r a b rdn Ha Hb Hr Hsh Hsr) by
    (first [rewrite Hlr, Hsr; reflexivity | apply (wf_rm _ _ Wa) | apply (wf_rm _ _ Wb) | apply (wf_rm _ _ Wr) | exact Hrr]).
  pose proof (wf_isS _ _ Wa) as HSa. pose proof (wf_isS _ _ Wb) as HSb. pose proof (wf_isS _ _ Wr) as HSr.
  assert (Hsa : sep rdn a) by (left; exact Hba). assert (Hsb : sep rdn b) by (left; exact Hbb).
  destruct (requires_iterator a || requires_iterator b) eqn:Eu.
  - rewrite (wf_all_iter _ _ Wa), (wf_all_iter _ _ Wb), (wf_all_iter _ _ Wr).
    rewrite (e_iter_incr_vv gf σ a b rdn _ _ _ HSa HSb).
    destruct (k_iter_incr_spec f σ a b rdn (offsets (d_ap a)) (offsets (d_ap b)) (offsets (d_ap rdn)) false
                (wf_win _ _ Wa) (wf_win _ _ Wb) (wf_win _ _ Wr) Hsa Hsb (wf_nodup _ _ Wr)
                (wf_range _ _ Wa) (wf_range _ _ Wb) (wf_range _ _ Wr)) as (σ' & Hrun & Hfr & Hv & _).
    rewrite Hrun. cbn [finish2 finish fst snd]. apply dest_run; [exact Hfr| |].
    + intros c Hc. assert (Hca : inbox (shp (d_ap a)) c) by (rewrite <- Hsr; exact Hc).
      destruct (wf_cell_some _ _ _ Wa Hca) as [xa Hxa].
      destruct (wf_cell_some σ b c Wb) as [xb Hxb]; [rewrite <- Hsh; exact Hca|].
      destruct (wf_cell_some σ rdn c Wr Hc) as [o Ho].
      rewrite Hxa, Hxb, Ho. cbn [lift3].
      apply (Hv (dot (str (d_ap a)) c) (dot (str (d_ap b)) c)); [|exact Hxa|exact Hxb|exact Ho].
      apply zip3_offsets_In; [exact Hsh|exact Hsr|apply (wf_pos _ _ Wa)|exact Hca].
    + apply (contig_nonlogical σ); assumption.
  - apply orb_false_elim in Eu. destruct Eu as [Hra Hrb].
    destruct (wf_flag _ _ Wa Hra) as [Hstra Hla]. destruct (wf_flag _ _ Wb Hrb) as [Hstrb Hlb].
    rewrite (e_incr_vv gf σ a b rdn HSa HSb).
    destruct (k_incr_spec f σ a b rdn false (wf_win _ _ Wa) (wf_win _ _ Wb) (wf_win _ _ Wr) Hsa Hsb)
      as (l & σ' & Hk & Hrun & Hfr & Hv & _).
    { rewrite Hla, Hlb, Hsh. lia. }
    { rewrite Hlr, Hla, Hsr. lia. }
    rewrite Hk. cbn [run_opt]. rewrite Hrun. cbn [drop_err finish2 finish fst snd]. apply dest_run; [exact Hfr| |].
    + intros c Hc. assert (Hca : inbox (shp (d_ap a)) c) by (rewrite <- Hsr; exact Hc).
      destruct (wf_cell_some _ _ _ Wa Hca) as [xa Hxa].
      destruct (wf_cell_some σ b c Wb) as [xb Hxb]; [rewrite <- Hsh; exact Hca|].
      destruct (wf_cell_some σ rdn c Wr Hc) as [o Ho].
      rewrite Hxa, Hxb, Ho. cbn [lift3]. apply Hv; [| |exact Ho].
      * unfold cell in Hxa. rewrite Hstr, Hsr, <- Hstra. exact Hxa.
      * unfold cell in Hxb. rewrite Hstr, Hsr, Hsh, <- Hstrb. exact Hxb.
    + apply (contig_nonlogical σ); assumption.
Qed.

(* ---- the statements in the form of the property ---- *)
Theorem arith_vv_unsafe_dest σ ta tb a b :
  get_t V σ ta = Some a -> get_t V σ tb = Some b -> wf_dense σ a -> wf_dense σ b ->
  shp (d_ap a) = shp (d_ap b) -> sep a b ->
  exists σ',
    eng_arith_vv V vzero vadd gf σ ta tb MUnsafe = (σ', OOk ta) /\
    tens σ' = tens σ /\ length (bufs σ') = length (bufs σ) /\
    (forall c xa xb, inbox (shp (d_ap a)) c -> cell σ a c = Some xa -> cell σ b c = Some xb ->
                     cell σ' a c = Some (f xa xb)) /\
    (* b and every other tensor window that does not overlap a *)
    (forall E i, sep a E -> win_get σ' E i = win_get σ E i) /\
    (forall k, k <> d_buf a -> get_buf σ' k = get_buf σ k) /\
    (* inside a's allocation only a's logical cells are written *)
    (forall i, (forall c, inbox (shp (d_ap a)) c -> i <> dot (str (d_ap a)) c) -> win_get σ' a i = win_get σ a i) /\
    (forall p, ~ (d_off a <= p < d_off a + d_len a) -> peek σ' (d_buf a) p = peek σ (d_buf a) p).
Proof.
  intros Ha Hb Wa Wb Hsh Hsep.
  destruct (arith_vv_unsafe_post σ ta tb a b Ha Hb Wa Wb Hsh Hsep) as (σ' & Hr & Ht & Hl & Hv & Ho & Hs & Hn & Hp).
  exists σ'. split; [exact Hr|]. split; [exact Ht|]. split; [exact Hl|]. split; [|auto].
  intros c xa xb Hc Hxa Hxb. rewrite (Hv c Hc), Hxa, Hxb. reflexivity.
Qed.

Theorem arith_vv_reuse_dest σ ta tb r a b rdn :
  get_t V σ ta = Some a -> get_t V σ tb = Some b -> get_t V σ r = Some rdn ->
  wf_dense σ a -> wf_dense σ b -> wf_dense σ rdn -> requires_iterator rdn = false ->
  shp (d_ap a) = shp (d_ap b) -> shp (d_ap rdn) = shp (d_ap a) ->
  d_buf rdn <> d_buf a -> d_buf rdn <> d_buf b ->
  exists σ',
    eng_arith_vv V vzero vadd gf σ ta tb (MReuse r) = (σ', OOk r) /\
    tens σ' = tens σ /\ length (bufs σ') = length (bufs σ) /\
    (forall c xa xb, inbox (shp (d_ap a)) c -> cell σ a c = Some xa -> cell σ b c = Some xb ->
                     cell σ' rdn c = Some (f xa xb)) /\
    (forall k, k <> d_buf rdn -> get_buf σ' k = get_buf σ k) /\
    (forall E i, sep rdn E -> win_get σ' E i = win_get σ E i) /\
    (forall p, ~ (d_off rdn <= p < d_off rdn + d_len rdn) -> peek σ' (d_buf rdn) p = peek σ (d_buf rdn) p).
Proof.
  intros Ha Hb Hr Wa Wb Wr Hrr Hsh Hsr Hba Hbb.
  destruct (arith_vv_reuse_post σ ta tb r a b rdn Ha Hb Hr Wa Wb Wr Hrr Hsh Hsr Hba Hbb)
    as (σ' & Hres & Ht & Hl & Hv & Ho & Hs & Hn & Hp).
  exists σ'. split; [exact Hres|]. split; [exact Ht|]. split; [exact Hl|]. split; [|auto].
  intros c xa xb Hc Hxa Hxb. rewrite (Hv c) by (rewrite Hsr; exact Hc). rewrite Hxa, Hxb. reflexivity.
Qed.

Theorem arith_vv_incr_dest σ ta tb r a b rdn :
  get_t V σ ta = Some a -> get_t V σ tb = Some b -> get_t V σ r = Some rdn ->
  wf_dense σ a -> wf_dense σ b -> wf_dense σ rdn -> requires_iterator rdn = false ->
  shp (d_ap a) = shp (d_ap b) -> shp (d_ap rdn) = shp (d_ap a) ->
  d_buf rdn <> d_buf a -> d_buf rdn <> d_buf b ->
  exists σ',
    eng_arith_vv V vzero vadd gf σ ta tb (MIncr r) = (σ', OOk r) /\
    tens σ' = tens σ /\ length (bufs σ') = length (bufs σ) /\
    (forall c o xa xb, inbox (shp (d_ap a)) c -> cell σ rdn c = Some o -> cell σ a c = Some xa -> cell σ b c = Some xb ->
                       cell σ' rdn c = Some (vadd o (f xa xb))) /\
    (forall k, k <> d_buf rdn -> get_buf σ' k = get_buf σ k) /\
    (forall E i, sep rdn E -> win_get σ' E i = win_get σ E i) /\
    (forall p, ~ (d_off rdn <= p < d_off rdn + d_len rdn) -> peek σ' (d_buf rdn) p = peek σ (d_buf rdn) p).
Proof.
  intros Ha Hb Hr Wa Wb Wr Hrr Hsh Hsr Hba Hbb.
  destruct (arith_vv_incr_post σ ta tb r a b rdn Ha Hb Hr Wa Wb Wr Hrr Hsh Hsr Hba Hbb)
    as (σ' & Hres & Ht & Hl & Hv & Ho & Hs & Hn & Hp).
  exists σ'. split; [exact Hres|]. split; [exact Ht|]. split; [exact Hl|]. split; [|auto].
  intros c o xa xb Hc Hxo Hxa Hxb. rewrite (Hv c) by (rewrite Hsr; exact Hc). rewrite Hxo, Hxa, Hxb. reflexivity.
Qed.

(* the values delivered by every mode are the safe-mode values (incr: added to the old content) *)
Corollary modes_agree σ ta tb r a b rdn :
  get_t V σ ta = Some a -> get_t V σ tb = Some b -> get_t V σ r = Some rdn ->
  wf_dense σ a -> wf_dense σ b -> wf_dense σ rdn -> requires_iterator rdn = false ->
  shp (d_ap a) = shp (d_ap b) -> shp (d_ap rdn) = shp (d_ap a) ->
  d_buf rdn <> d_buf a -> d_buf rdn <> d_buf b -> sep a b ->
  exists σs ds σu σr σi,
    eng_arith_vv V vzero vadd gf σ ta tb MSafe = (σs, OOk (length (tens σ))) /\
    get_t V σs (length (tens σ)) = Some ds /\
    eng_arith_vv V vzero vadd gf σ ta tb MUnsafe = (σu, OOk ta) /\
    eng_arith_vv V vzero vadd gf σ ta tb (MReuse r) = (σr, OOk r) /\
    eng_arith_vv V vzero vadd gf σ ta tb (MIncr r) = (σi, OOk r) /\
    forall c, inbox (shp (d_ap a)) c ->
      exists v, cell σs ds c = Some v /\ cell σu a c = Some v /\ cell σr rdn c = Some v /\
        forall o, cell σ rdn c = Some o -> cell σi rdn c = Some (vadd o v).
Proof.
  intros Ha Hb Hr Wa Wb Wr Hrr Hsh Hsr Hba Hbb Hsep.
  destruct (arith_vv_safe_pointwise f σ ta tb a b Ha Hb Wa Wb Hsh) as (σs & ds & Hs & Hgs & _ & Hvs & _).
  destruct (arith_vv_unsafe_dest σ ta tb a b Ha Hb Wa Wb Hsh Hsep) as (σu & Hu & _ & _ & Hvu & _).
  destruct (arith_vv_reuse_dest σ ta tb r a b rdn Ha Hb Hr Wa Wb Wr Hrr Hsh Hsr Hba Hbb) as (σr & Hre & _ & _ & Hvr & _).
  destruct (arith_vv_incr_dest σ ta tb r a b rdn Ha Hb Hr Wa Wb Wr Hrr Hsh Hsr Hba Hbb) as (σi & Hi & _ & _ & Hvi & _).
  exists σs, ds, σu, σr, σi. repeat (split; [assumption|]).
  intros c Hc. destruct (wf_cell_some _ _ _ Wa Hc) as [xa Hxa].
  destruct (wf_cell_some σ b c Wb) as [xb Hxb]; [rewrite <- Hsh; exact Hc|].
  exists (f xa xb). split; [eapply Hvs; eassumption|]. split; [eapply Hvu; eassumption|].
  split; [eapply Hvr; eassumption|]. intros o Ho. eapply Hvi; eassumption.
Qed.

End Eng3.

(* ====================================================================================== *)
(*  Q6. comparisons (safe, bool and same-type results) and unary operations               *)
(* ====================================================================================== *)
Lemma combine_NoDup_fst {A B} : forall (l1 : list A) (l2 : list B), NoDup l1 -> NoDup (map fst (combine l1 l2)).
Proof.
  induction l1 as [|x l1 IH]; intros [|y l2] H; cbn [combine map]; try constructor.
  - inversion H as [|? ? Hni Hnd]; subst. intro Hin. apply in_map_iff in Hin.
    destruct Hin as [[i j] [Heq Hin]]. cbn in Heq. subst i. apply in_combine_l in Hin. contradiction.
  - inversion H; subst. apply IH. assumption.
Qed.

Lemma combine_nth_In {A B} : forall (l1 : list A) (l2 : list B) k a b,
  nth_error l1 k = Some a -> nth_error l2 k = Some b -> In (a, b) (combine l1 l2).
Proof.
  induction l1 as [|x l1 IH]; intros [|y l2] [|k] a b H1 H2; cbn in *; try discriminate.
  - injection H1 as <-. injection H2 as <-. left. reflexivity.
  - right. eapply IH; eassumption.
Qed.

(* storage.Copy(dst, src): the common prefix of the two windows; the source is read first *)
Theorem copy_hdr_spec σ dst sr :
  in_buf σ dst -> in_buf σ sr -> 0 <= d_len dst -> 0 <= d_len sr ->
  exists σ', copy_hdr V σ dst sr = Some σ' /\ frame_ok σ σ' dst /\
    (forall i, 0 <= i < Z.min (d_len dst) (d_len sr) -> win_get σ' dst i = win_get σ sr i).
Proof.
  intros Hd Hs Hld Hls. unfold copy_hdr, copy_raw. rewrite win_scatter_as_asgs.
  set (n := Z.min (d_len dst) (d_len sr)).
  destruct (schema_map pr1 σ dst false
              (fun p => mkAsg V dst false (fst p) (fst p) (SConst V (snd p)) (SConst V (snd p)) false)
              fst (combine (zseq 0 (Z.to_nat n)) (window V σ sr)) false Hd) as (σ' & Hrun & Hfr & Hv & _).
  - intros [i v] Hin. apply in_combine_l in Hin. apply zseq_In in Hin. split; [|reflexivity].
    unfold asg_good. proj. refine (conj eq_refl (conj eq_refl (conj _ (conj I I)))). lia.
  - apply combine_NoDup_fst. apply zseq_NoDup.
  - exists σ'. rewrite Hrun. cbn [option_map fst]. split; [reflexivity|]. split; [exact Hfr|].
    intros i Hi. destruct (in_buf_win_get σ sr i Hs) as [x Hx]; [lia|].
    assert (Hin : In (i, x) (combine (zseq 0 (Z.to_nat n)) (window V σ sr))).
    { apply (combine_nth_In _ _ (Z.to_nat i)).
      - rewrite zseq_nth_error by lia. f_equal. lia.
      - rewrite <- zget_nth_error by lia. rewrite zget_window by (try apply Hs; lia).
        rewrite win_get_peek in Hx by lia. exact Hx. }
    pose proof (Hv (i, x) Hin) as Hq. cbn [fst] in Hq. rewrite Hq, Hx.
    rewrite (asg_val_plain pr1 σ _ x x); proj; reflexivity.
Qed.

Lemma e_ret_vv g σ a b r : isS a = false -> isS b = false ->
  e_ret V vzero vadd g σ a b r = (run_opt V vzero vadd g σ (k_ret V σ a b r), false).
Proof. intros Ha Hb. unfold e_ret. rewrite Ha, Hb. reflexivity. Qed.

Lemma e_ret_iter_vv g σ a b r ai bi ri : isS a = false -> isS b = false ->
  e_ret_iter V vzero vadd g σ a b r ai bi ri = (run_asgs g σ (k_ret_iter V a b r ai bi ri) false, false).
Proof. intros Ha Hb. unfold e_ret_iter. rewrite Ha, Hb. reflexivity. Qed.

(* NewDense(dt, shape): a fresh zero-filled ROW-MAJOR tensor, registered before the kernel runs *)
Definition nd_dense (σ : store) (sh : list Z) : dense :=
  mkDense (length (bufs σ)) 0 (size sh) (mkAP sh (calc_strides sh) 0 true) None false.
Definition nd_store (σ : store) (sh : list Z) : store :=
  mkStore V (bufs σ ++ [repeat vzero (Z.to_nat (size sh))]) (tens σ ++ [nd_dense σ sh]).

Lemma new_dense_eq σ sh : is_scalar sh = false ->
  new_dense V vzero σ sh = (nd_store σ sh, length (tens σ), nd_dense σ sh).
Proof. intro H. unfold new_dense. rewrite H. reflexivity. Qed.

Lemma offsets_contig sh o fl : pos_shape sh ->
  offsets (mkAP sh (calc_strides sh) o fl) = zseq 0 (Z.to_nat (size sh)).
Proof.
  intro Hp. rewrite offsets_zseq. cbn [shp str]. rewrite <- (map_id (zseq 0 (Z.to_nat (size sh)))) at 2.
  apply map_ext_in. intros j Hj. apply zseq_In in Hj. rewrite <- rk_dot. apply rk_unrank; [exact Hp|].
  pose proof (size_pos sh Hp). lia.
Qed.

Lemma nd_requires_iterator σ sh : 1 < size sh -> requires_iterator (nd_dense σ sh) = false.
Proof.
  intro H. unfold requires_iterator, nd_dense. cbn [d_len d_ap d_old ord is_some].
  replace (size sh =? 1) with false by lia. replace (size sh =? 0) with false by lia. reflexivity.
Qed.

Lemma nd_wf σ sh : pos_shape sh -> 1 < size sh -> wf_dense (nd_store σ sh) (nd_dense σ sh).
Proof.
  intros Hp Hs. constructor; cbn [nd_dense d_ap d_len d_off d_buf shp str ord].
  - exact Hp.
  - apply calc_strides_length.
  - rewrite offsets_contig by exact Hp. apply zseq_NoDup.
  - intros o Ho. rewrite offsets_contig in Ho by exact Hp. apply zseq_In in Ho. lia.
  - unfold in_buf, nd_store, nd_dense. cbn [d_off d_len d_buf]. rewrite get_buf_app_new.
    unfold zlen. rewrite repeat_length. lia.
  - exact Hs.
  - reflexivity.
  - intros _. split; reflexivity.
Qed.

Lemma nd_is_scalar sh : 1 < size sh -> is_scalar sh = false.
Proof. destruct sh; [cbn [size]; lia|reflexivity]. Qed.

Lemma nd_operand σ sh d : wf_dense σ d ->
  wf_dense (nd_store σ sh) d /\ sep (nd_dense σ sh) d /\ (forall i, win_get (nd_store σ sh) d i = win_get σ d i).
Proof.
  intro W. pose proof (wf_buf_lt _ _ W) as Hlt. split; [|split].
  - apply (wf_dense_ext σ); [|exact W]. intros k Hk. apply get_buf_app_l. exact Hk.
  - left. cbn [nd_dense d_buf]. lia.
  - intro i. apply win_get_buf_eq. apply get_buf_app_l. exact Hlt.
Qed.

(* the fresh ROW-MAJOR result of a comparison *)
Definition cmp_post (σ : store) (a : dense) (res : store * oresult) (val : list Z -> option V) : Prop :=
  exists σ' d', res = (σ', OOk (length (tens σ))) /\
    get_t V σ' (length (tens σ)) = Some d' /\ tens σ' = tens σ ++ [d'] /\
    shp (d_ap d') = shp (d_ap a) /\ str (d_ap d') = calc_strides (shp (d_ap a)) /\
    is_cm (ord (d_ap d')) = false /\ requires_iterator d' = false /\
    d_buf d' = length (bufs σ) /\
    (forall c, inbox (shp (d_ap a)) c -> cell σ' d' c = val c) /\
    (forall k, (k < length (bufs σ))%nat -> get_buf σ' k = get_buf σ k) /\
    firstn (length (tens σ)) (tens σ') = tens σ.

Lemma cmp_run σ a σ' val :
  1 < size (shp (d_ap a)) ->
  frame_ok (nd_store σ (shp (d_ap a))) σ' (nd_dense σ (shp (d_ap a))) ->
  (forall c, inbox (shp (d_ap a)) c ->
     win_get σ' (nd_dense σ (shp (d_ap a))) (dot (calc_strides (shp (d_ap a))) c) = val c) ->
  cmp_post σ a (σ', OOk (length (tens σ))) val.
Proof.
  intros Hs (Ht & Hl & _ & Ho & _) Hv. exists σ', (nd_dense σ (shp (d_ap a))).
  split; [reflexivity|].
  split; [unfold get_t; rewrite Ht; cbn [nd_store Mem.tens]; rewrite nth_error_app2 by lia; rewrite Nat.sub_diag; reflexivity|].
  split; [rewrite Ht; reflexivity|]. split; [reflexivity|]. split; [reflexivity|]. split; [reflexivity|].
  split; [apply nd_requires_iterator; exact Hs|]. split; [reflexivity|].
  split; [exact Hv|]. split.
  - intros k Hk. rewrite Ho by (cbn [nd_dense d_buf]; lia). apply get_buf_app_l. exact Hk.
  - rewrite Ht. cbn [nd_store Mem.tens]. rewrite firstn_app, Nat.sub_diag, firstn_all. cbn [firstn]. apply app_nil_r.
Qed.

Section Eng4.
Variable f : V -> V -> V.
Notation gf := (gf f).

Lemma eng_cmp_vv_safe_unfold g σ ta tb a b same0 :
  get_t V σ ta = Some a -> get_t V σ tb = Some b ->
  shp (d_ap a) = shp (d_ap b) -> is_scalar (shp (d_ap a)) = false ->
  is_cm (ord (d_ap a)) = false -> is_cm (ord (d_ap b)) = false ->
  eng_cmp_vv V vzero vadd g σ ta tb same0 CSafe =
    let σ2 := nd_store σ (shp (d_ap a)) in let d := nd_dense σ (shp (d_ap a)) in let t' := length (tens σ) in
    if requires_iterator a || requires_iterator b then
      match all_iter a, all_iter b with
      | Some ai, Some bi =>
        match all_iter d with
        | Some ri =>
          if same0 then
            match copy_iter_idx V σ2 d a ri ai with
            | Some σ3 => finish V (e_iter V vzero vadd g σ3 d b ri bi) σ3 t'
            | None => (σ2, OPanicR)
            end
          else finish2 V (e_ret_iter V vzero vadd g σ2 a b d ai bi ri) σ2 t'
        | None => (σ2, OPanicR)
        end
      | _, _ => (σ2, OPanicR)
      end
    else
      if same0 then
        match copy_hdr V σ2 d a with
        | Some σ3 => finish V (e_plain V vzero vadd g σ3 d b) σ3 t'
        | None => (σ2, OPanicR)
        end
      else finish2 V (e_ret V vzero vadd g σ2 a b d) σ2 t'.
Proof.
  intros Ha Hb Hsh Hsc Hca Hcb. unfold eng_cmp_vv. rewrite Ha, Hb.
  replace (shape_eq (shp (d_ap a)) (shp (d_ap b))) with true by (rewrite Hsh; symmetry; apply shape_eq_refl).
  cbn [negb]. rewrite (new_dense_eq σ _ Hsc).
  unfold has_same_order. rewrite Hca, Hcb.
  cbn [Bool.eqb negb]. rewrite !orb_false_r.
  destruct same0; destruct (requires_iterator a || requires_iterator b); reflexivity.
Qed.

(* both result types: same0 = false is the bool-result kernel family (<Cmp>, <Cmp>Iter),
   same0 = true the same-type family (copy the first operand, then <Cmp>Same in place) *)
Theorem cmp_vv_safe_post σ ta tb a b same0 :
  get_t V σ ta = Some a -> get_t V σ tb = Some b -> wf_dense σ a -> wf_dense σ b ->
  shp (d_ap a) = shp (d_ap b) -> 1 < size (shp (d_ap a)) ->
  cmp_post σ a (eng_cmp_vv V vzero vadd gf σ ta tb same0 CSafe) (fun c => lift2 f (cell σ a c) (cell σ b c)).
Proof.
  intros Ha Hb Wa Wb Hsh Hsz.
  rewrite (eng_cmp_vv_safe_unfold gf σ ta tb a b same0 Ha Hb Hsh (nd_is_scalar _ Hsz) (wf_rm _ _ Wa) (wf_rm _ _ Wb)).
  cbv zeta. set (sh := shp (d_ap a)) in *. set (σ2 := nd_store σ sh). set (D := nd_dense σ sh).
  pose proof (nd_wf σ sh (wf_pos _ _ Wa) Hsz) as WD. fold σ2 D in WD.
  destruct (nd_operand σ sh a Wa) as (Wa2 & Hsa & Hwa). destruct (nd_operand σ sh b Wb) as (Wb2 & Hsb & Hwb).
  fold σ2 D in Wa2, Wb2, Hsa, Hsb, Hwa, Hwb.
  pose proof (wf_isS _ _ Wa) as HSa. pose proof (wf_isS _ _ Wb) as HSb. pose proof (wf_isS _ _ WD) as HSD.
  assert (HrD : requires_iterator D = false) by (apply nd_requires_iterator; exact Hsz).
  assert (HDlen : d_len D = size sh) by reflexivity.
  assert (HDstr : str (d_ap D) = calc_strides sh) by reflexivity.
  assert (HDshp : shp (d_ap D) = sh) by reflexivity.
  assert (Hval : forall σ' c, inbox sh c ->
            (forall xa xb, cell σ a c = Some xa -> cell σ b c = Some xb ->
                           win_get σ' D (dot (calc_strides sh) c) = Some (f xa xb)) ->
            win_get σ' D (dot (calc_strides sh) c) = lift2 f (cell σ a c) (cell σ b c)).
  { intros σ' c Hc H. destruct (wf_cell_some _ _ _ Wa Hc) as [xa Hxa].
    destruct (wf_cell_some σ b c Wb) as [xb Hxb]; [rewrite <- Hsh; exact Hc|].
    rewrite Hxa, Hxb. cbn [lift2]. apply H; assumption. }
  destruct (requires_iterator a || requires_iterator b) eqn:Eu.
  - rewrite (wf_all_iter _ _ Wa), (wf_all_iter _ _ Wb), (wf_all_iter _ _ WD).
    destruct same0.
    + (* same-type, iterator path: CopyIter then <Cmp>SameIter on the result *)
      unfold copy_iter_idx.
      destruct (copy_seq_spec σ2 D a (offsets (d_ap D)) (offsets (d_ap a)) (wf_win _ _ WD) (wf_win _ _ Wa2) Hsa
                  (wf_nodup _ _ WD) (wf_range _ _ WD) (wf_range _ _ Wa2)) as (σ3 & Hcp & Hfr3 & Hv3 & _).
      rewrite Hcp. rewrite (e_iter_vv gf σ3 D b _ _ HSD HSb).
      assert (Hin3D : in_buf σ3 D) by (apply (in_buf_frame σ2); [apply Hfr3|apply (wf_win _ _ WD)]).
      assert (Hin3b : in_buf σ3 b) by (apply (in_buf_frame σ2); [apply Hfr3|apply (wf_win _ _ Wb2)]).
      destruct (k_iter_spec f σ3 D b (offsets (d_ap D)) (offsets (d_ap b)) false Hin3D Hin3b Hsb
                  (wf_nodup _ _ WD) (wf_range _ _ WD) (wf_range _ _ Wb2)) as (σ4 & Hrun & Hfr4 & Hv4 & _).
      rewrite Hrun. cbn [drop_err finish]. apply cmp_run; [exact Hsz|eapply frame_ok_trans; eassumption|].
      intros c Hc. apply Hval; [exact Hc|]. intros xa xb Hxa Hxb.
      change (dot (calc_strides sh) c) with (dot (str (d_ap D)) c).
      apply (Hv4 _ (dot (str (d_ap b)) c)).
      * apply zip2_offsets_In; [rewrite HDshp; exact Hsh|rewrite HDshp; apply (wf_pos _ _ Wa)|rewrite HDshp; exact Hc].
      * rewrite (Hv3 _ (dot (str (d_ap a)) c)); [rewrite Hwa; exact Hxa|].
        apply zip2_offsets_In; [reflexivity|rewrite HDshp; apply (wf_pos _ _ Wa)|rewrite HDshp; exact Hc].
      * destruct Hfr3 as (_ & _ & _ & _ & Hs3 & _). rewrite (Hs3 b _ Hsb), Hwb. exact Hxb.
    + (* bool result, iterator path: <Cmp>Iter with three iterators *)
      rewrite (e_ret_iter_vv gf σ2 a b D _ _ _ HSa HSb).
      destruct (k_ret_iter_spec f σ2 a b D (offsets (d_ap a)) (offsets (d_ap b)) (offsets (d_ap D)) false
                  (wf_win _ _ Wa2) (wf_win _ _ Wb2) (wf_win _ _ WD) Hsa Hsb (wf_nodup _ _ WD)
                  (wf_range _ _ Wa2) (wf_range _ _ Wb2) (wf_range _ _ WD)) as (σ3 & Hrun & Hfr3 & Hv3 & _).
      rewrite Hrun. cbn [finish2 finish fst snd]. apply cmp_run; [exact Hsz|exact Hfr3|].
      intros c Hc. apply Hval; [exact Hc|]. intros xa xb Hxa Hxb.
      change (dot (calc_strides sh) c) with (dot (str (d_ap D)) c).
      apply (Hv3 (dot (str (d_ap a)) c) (dot (str (d_ap b)) c)).
      * apply zip3_offsets_In; [exact Hsh|reflexivity|apply (wf_pos _ _ Wa)|exact Hc].
      * rewrite Hwa. exact Hxa.
      * rewrite Hwb. exact Hxb.
  - apply orb_false_elim in Eu. destruct Eu as [Hra Hrb].
    destruct (wf_flag _ _ Wa Hra) as [Hstra Hla]. destruct (wf_flag _ _ Wb Hrb) as [Hstrb Hlb].
    destruct same0.
    + (* same-type, raw path: Copy then <Cmp>Same in place *)
      destruct (copy_hdr_spec σ2 D a (wf_win _ _ WD) (wf_win _ _ Wa2)) as (σ3 & Hcp & Hfr3 & Hv3); [rewrite HDlen; lia|pose proof (wf_big _ _ Wa); lia|].
      rewrite Hcp. rewrite (e_plain_vv gf σ3 D b HSD HSb).
      assert (Hin3D : in_buf σ3 D) by (apply (in_buf_frame σ2); [apply Hfr3|apply (wf_win _ _ WD)]).
      assert (Hin3b : in_buf σ3 b) by (apply (in_buf_frame σ2); [apply Hfr3|apply (wf_win _ _ Wb2)]).
      destruct (k_vec_spec f σ3 D b false Hin3D Hin3b Hsb) as (l & σ4 & Hk & Hrun & Hfr4 & Hv4 & _).
      { rewrite HDlen, Hlb, <- Hsh. fold sh. lia. }
      rewrite Hk. cbn [run_opt]. rewrite Hrun. cbn [finish]. apply cmp_run; [exact Hsz|eapply frame_ok_trans; eassumption|].
      intros c Hc. apply Hval; [exact Hc|]. intros xa xb Hxa Hxb.
      assert (Hi : 0 <= dot (calc_strides sh) c < size sh).
      { rewrite <- rk_dot. apply rk_bound; [apply (wf_pos _ _ Wa)|exact Hc]. }
      apply Hv4.
      * rewrite Hv3 by (rewrite HDlen, Hla; fold sh; lia). rewrite Hwa.
        unfold cell in Hxa. rewrite Hstra in Hxa. exact Hxa.
      * destruct Hfr3 as (_ & _ & _ & _ & Hs3 & _). rewrite (Hs3 b _ Hsb), Hwb.
        unfold cell in Hxb. rewrite Hstrb, <- Hsh in Hxb. exact Hxb.
    + (* bool result, raw path *)
      rewrite (e_ret_vv gf σ2 a b D HSa HSb).
      destruct (k_ret_spec f σ2 a b D false (wf_win _ _ Wa2) (wf_win _ _ Wb2) (wf_win _ _ WD) Hsa Hsb)
        as (l & σ3 & Hk & Hrun & Hfr3 & Hv3).
      { rewrite Hla, Hlb, <- Hsh. unfold sh. lia. }
      { rewrite HDlen, Hla. fold sh. lia. }
      rewrite Hk. cbn [run_opt]. rewrite Hrun. cbn [finish2 finish fst snd]. apply cmp_run; [exact Hsz|exact Hfr3|].
      intros c Hc. apply Hval; [exact Hc|]. intros xa xb Hxa Hxb. apply Hv3.
      * rewrite Hwa. unfold cell in Hxa. rewrite Hstra in Hxa. exact Hxa.
      * rewrite Hwb. unfold cell in Hxb. rewrite Hstrb, <- Hsh in Hxb. exact Hxb.
Qed.

End Eng4.

(* ---------- unary operations ---------- *)
Section Unary.
Variable u : V -> V.
Definition fu : V -> V -> V := fun x _ => u x.

Lemma k_un_as_vs a idx : k_un V vzero u a idx = k_iter_vs V a vzero idx.
Proof. reflexivity. Qed.

Lemma gun_as_gf : gun V u = gf fu.
Proof. reflexivity. Qed.

Lemma eng_unary_safe_unfold σ ta a :
  get_t V σ ta = Some a ->
  eng_unary V vzero vadd u σ ta MSafe =
    if requires_iterator a then
      match all_iter a with
      | None => (σ, OPanicR)
      | Some ai => let '(σ2, c) := clone_tmp V σ a in
                   finish_new V (run_asgs (gun V u) σ2 (k_un V vzero u c ai) false) σ2 c
      end
    else let '(σ2, c) := clone_tmp V σ a in
         finish_new V (run_asgs (gun V u) σ2 (k_un V vzero u c (idxs (d_len c))) false) σ2 c.
Proof.
  intros Ha. unfold eng_unary. rewrite Ha. cbn [opt_reuse]. rewrite Ha. rewrite orb_false_r. reflexivity.
Qed.

Lemma eng_unary_unsafe_unfold σ ta a :
  get_t V σ ta = Some a ->
  eng_unary V vzero vadd u σ ta MUnsafe =
    if requires_iterator a then
      match all_iter a with
      | None => (σ, OPanicR)
      | Some ai => finish V (run_asgs (gun V u) σ (k_un V vzero u a ai) false) σ ta
      end
    else finish V (run_asgs (gun V u) σ (k_un V vzero u a (idxs (d_len a))) false) σ ta.
Proof.
  intros Ha. unfold eng_unary. rewrite Ha. cbn [opt_reuse]. rewrite Ha. rewrite orb_false_r. reflexivity.
Qed.

Definition lift1 (x : option V) : option V := match x with Some a => Some (u a) | None => None end.

Theorem unary_safe_fresh σ ta a :
  get_t V σ ta = Some a -> wf_dense σ a ->
  fresh_post σ a (eng_unary V vzero vadd u σ ta MSafe) (fun c => lift1 (cell σ a c)).
Proof.
  intros Ha W. pose proof (wf_big _ _ W) as Hbig.
  rewrite (eng_unary_safe_unfold σ ta a Ha).
  destruct (requires_iterator a) eqn:Er.
  - rewrite (wf_all_iter _ _ W). destruct (clone_tmp V σ a) as [σ2 c] eqn:Ec.
    destruct (wf_clone_facts _ _ _ _ _ W W Ec) as (Hap & Hlen & HSc & Hin2 & _ & _ & Hw2 & _).
    apply (safe_clone_run σ a σ2 c _ _ Ec (wf_win _ _ W)); [lia|].
    rewrite k_un_as_vs, gun_as_gf.
    destruct (k_iter_vs_spec fu σ2 c vzero (offsets (d_ap a)) false Hin2 (wf_nodup _ _ W)) as (σ3 & Hrun & Hfr & Hv & _).
    { intros i Hi. rewrite Hlen. apply (wf_range _ _ W). exact Hi. }
    exists σ3. split; [exact Hrun|]. split; [exact Hfr|].
    intros x Hx. destruct (wf_cell_some _ _ _ W Hx) as [v Hv0]. rewrite Hv0. cbn [lift1].
    apply (Hv _ v); [apply offsets_In; [apply (wf_pos _ _ W)|exact Hx]|]. rewrite Hw2. exact Hv0.
  - destruct (clone_tmp V σ a) as [σ2 c] eqn:Ec.
    destruct (wf_clone_facts _ _ _ _ _ W W Ec) as (Hap & Hlen & HSc & Hin2 & _ & _ & Hw2 & _).
    apply (safe_clone_run σ a σ2 c _ _ Ec (wf_win _ _ W)); [lia|].
    rewrite k_un_as_vs, gun_as_gf.
    destruct (k_iter_vs_spec fu σ2 c vzero (idxs (d_len c)) false Hin2 (idxs_NoDup _)) as (σ3 & Hrun & Hfr & Hv & _).
    { intros i Hi. apply idxs_In in Hi. exact Hi. }
    exists σ3. split; [exact Hrun|]. split; [exact Hfr|].
    intros x Hx. destruct (wf_cell_some _ _ _ W Hx) as [v Hv0]. rewrite Hv0. cbn [lift1].
    apply (Hv _ v); [|rewrite Hw2; exact Hv0].
    apply idxs_In. rewrite Hlen. apply (wf_range _ _ W). apply offsets_In; [apply (wf_pos _ _ W)|exact Hx].
Qed.

Theorem unary_safe_pointwise σ ta a :
  get_t V σ ta = Some a -> wf_dense σ a ->
  exists σ' d',
    eng_unary V vzero vadd u σ ta MSafe = (σ', OOk (length (tens σ))) /\
    get_t V σ' (length (tens σ)) = Some d' /\ d_ap d' = d_ap a /\
    (forall c x, inbox (shp (d_ap a)) c -> cell σ a c = Some x -> cell σ' d' c = Some (u x)) /\
    (forall k, (k < length (bufs σ))%nat -> get_buf σ' k = get_buf σ k) /\
    firstn (length (tens σ)) (tens σ') = tens σ.
Proof.
  intros Ha W. destruct (unary_safe_fresh σ ta a Ha W) as (σ' & d' & Hr & Hg & _ & Hap & _ & Hv & Hb & Hf).
  exists σ', d'. split; [exact Hr|]. split; [exact Hg|]. split; [exact Hap|]. split; [|auto].
  intros c x Hc Hx. rewrite (Hv c Hc), Hx. reflexivity.
Qed.

(* unsafe: in place; only the logical cells of a are written *)
Theorem unary_unsafe_post σ ta a :
  get_t V σ ta = Some a -> wf_dense σ a ->
  dest_post σ a ta (eng_unary V vzero vadd u σ ta MUnsafe) (fun c => lift1 (cell σ a c)).
Proof.
  intros Ha W. rewrite (eng_unary_unsafe_unfold σ ta a Ha).
  destruct (requires_iterator a) eqn:Er.
  - rewrite (wf_all_iter _ _ W). rewrite k_un_as_vs, gun_as_gf.
    destruct (k_iter_vs_spec fu σ a vzero (offsets (d_ap a)) false (wf_win _ _ W) (wf_nodup _ _ W) (wf_range _ _ W))
      as (σ' & Hrun & Hfr & Hv & Hoth).
    rewrite Hrun. cbn [finish]. apply dest_run; [exact Hfr| |].
    + intros c Hc. destruct (wf_cell_some _ _ _ W Hc) as [v Hv0]. rewrite Hv0. cbn [lift1].
      apply (Hv _ v); [apply offsets_In; [apply (wf_pos _ _ W)|exact Hc]|exact Hv0].
    + intros i Hi. apply Hoth. apply offs_nonlogical; [apply (wf_pos _ _ W)|exact Hi].
  - rewrite k_un_as_vs, gun_as_gf.
    destruct (k_iter_vs_spec fu σ a vzero (idxs (d_len a)) false (wf_win _ _ W) (idxs_NoDup _))
      as (σ' & Hrun & Hfr & Hv & Hoth).
    { intros i Hi. apply idxs_In in Hi. exact Hi. }
    rewrite Hrun. cbn [finish]. apply dest_run; [exact Hfr| |].
    + intros c Hc. destruct (wf_cell_some _ _ _ W Hc) as [v Hv0]. rewrite Hv0. cbn [lift1].
      apply (Hv _ v); [|exact Hv0]. apply idxs_In. apply (wf_range _ _ W).
      apply offsets_In; [apply (wf_pos _ _ W)|exact Hc].
    + apply (contig_nonlogical σ); assumption.
Qed.

End Unary.

(* ---------- Q2 addendum: the Vec kernel on windows as lists ---------- *)
Lemma nth_error_map2 {A B C} (g : A -> B -> C) : forall l1 l2 k,
  nth_error (map2 g l1 l2) k =
  match nth_error l1 k, nth_error l2 k with Some x, Some y => Some (g x y) | _, _ => None end.
Proof.
  induction l1 as [|x l1 IH]; intros [|y l2] [|k]; cbn [map2 nth_error]; try reflexivity.
  - destruct (nth_error l1 k); reflexivity.
  - apply IH.
Qed.

Lemma window_nth σ d k : in_buf σ d -> (k < Z.to_nat (d_len d))%nat ->
  nth_error (window V σ d) k = win_get σ d (Z.of_nat k).
Proof.
  intros Hd Hk. rewrite win_get_peek by lia. unfold peek.
  rewrite <- zget_window by (try apply Hd; lia). rewrite zget_nth_error by lia. rewrite Nat2Z.id. reflexivity.
Qed.

Lemma window_nth_none σ d k : in_buf σ d -> 0 <= d_len d -> (Z.to_nat (d_len d) <= k)%nat ->
  nth_error (window V σ d) k = None.
Proof.
  intros Hd Hl Hk. apply nth_error_None. pose proof (window_length σ d Hd Hl) as H. unfold zlen in H. lia.
Qed.

Theorem k_vec_window (f : V -> V -> V) σ a b e :
  in_buf σ a -> in_buf σ b -> sep a b -> 0 <= d_len a <= d_len b ->
  exists l σ', k_vec V σ a b = Some l /\ run_asgs (gf f) σ l e = Some (σ', e) /\
    window V σ' a = map2 f (window V σ a) (firstn (Z.to_nat (d_len a)) (window V σ b)) /\
    window V σ' b = window V σ b.
Proof.
  intros Ha Hb Hs Hl. destruct (k_vec_spec f σ a b e Ha Hb Hs) as (l & σ' & Hk & Hrun & Hfr & Hv & Hvb); [lia|].
  exists l, σ'. split; [exact Hk|]. split; [exact Hrun|].
  assert (Ha' : in_buf σ' a) by (apply (in_buf_frame σ); [apply Hfr|exact Ha]).
  assert (Hb' : in_buf σ' b) by (apply (in_buf_frame σ); [apply Hfr|exact Hb]).
  split; apply nth_error_ext_eq; intro k.
  - rewrite nth_error_map2. destruct (Nat.lt_ge_cases k (Z.to_nat (d_len a))) as [Hlt|Hge].
    + rewrite nth_error_firstn_lt by exact Hlt. rewrite !window_nth by (assumption || lia).
      destruct (in_buf_win_get σ a (Z.of_nat k) Ha) as [x Hx]; [lia|].
      destruct (in_buf_win_get σ b (Z.of_nat k) Hb) as [y Hy]; [lia|].
      rewrite Hx, Hy. apply Hv; assumption.
    + rewrite !window_nth_none by (assumption || lia). reflexivity.
  - destruct (Nat.lt_ge_cases k (Z.to_nat (d_len b))) as [Hlt|Hge].
    + rewrite !window_nth by assumption. apply Hvb.
    + rewrite !window_nth_none by (assumption || lia). reflexivity.
Qed.

(* ---------- a boolean checker for wf_dense (used by the examples) ---------- *)
Definition wf_denseb (σ : store) (d : dense) : bool :=
  let a := d_ap d in
  pos_shapeb (shp a) && (length (str a) =? length (shp a))%nat &&
  all_distinct (offsets a) && forallb (fun o => (0 <=? o) && (o <? d_len d)) (offsets a) &&
  (0 <=? d_off d) && (d_off d + d_len d <=? zlen (get_buf σ (d_buf d))) &&
  (1 <? d_len d) && negb (is_cm (ord a)) &&
  (requires_iterator d || (list_eqb (str a) (calc_strides (shp a)) && (d_len d =? size (shp a)))).

Lemma all_distinct_NoDup l : all_distinct l = true -> NoDup l.
Proof.
  induction l as [|x l IH]; cbn [all_distinct]; intro H; constructor.
  - apply andb_prop in H. destruct H as [H _]. intro Hin.
    assert (He : existsb (Z.eqb x) l = true) by (apply existsb_exists; exists x; split; [exact Hin|lia]).
    rewrite He in H. discriminate.
  - apply IH. apply andb_prop in H. apply H.
Qed.

Lemma list_eqb_eq : forall a b, list_eqb a b = true -> a = b.
Proof.
  induction a as [|x a IH]; intros [|y b] H; cbn [list_eqb] in H; try discriminate; [reflexivity|].
  apply andb_prop in H. destruct H as [H1 H2]. f_equal; [lia|apply IH; exact H2].
Qed.

Lemma wf_denseb_sound σ d : wf_denseb σ d = true -> wf_dense σ d.
Proof.
  unfold wf_denseb. intro H.
  repeat (apply andb_prop in H; destruct H as [H ?]).
  constructor.
  - unfold pos_shapeb in H. rewrite forallb_forall in H. apply Forall_forall. intros x Hx. specialize (H x Hx). lia.
  - apply Nat.eqb_eq. assumption.
  - apply all_distinct_NoDup. assumption.
  - intros o Ho. match goal with Hf : forallb _ _ = true |- _ => rewrite forallb_forall in Hf; specialize (Hf o Ho) end. lia.
  - split; lia.
  - lia.
  - match goal with Hn : negb _ = true |- _ => apply negb_true_iff in Hn; exact Hn end.
  - intro Hr. match goal with Hq : requires_iterator d || _ = true |- _ => rewrite Hr in Hq; cbn [orb] in Hq;
      apply andb_prop in Hq; destruct Hq as [Hq1 Hq2] end.
    split; [apply list_eqb_eq; assumption|lia].
Qed.


(* ====================================================================================== *)
(*  more families: unary reuse / incr, scalar forms unsafe                                *)
(* ====================================================================================== *)
(* engine temporaries (the scalar header, the clone of the incr path) are appended allocations *)
Definition ext_of (σ σ1 : store) : Prop :=
  tens σ1 = tens σ /\ (length (bufs σ) <= length (bufs σ1))%nat /\
  (forall k, (k < length (bufs σ))%nat -> get_buf σ1 k = get_buf σ k).

Lemma ext_of_frame σ σ1 σ2 D : ext_of σ σ1 -> (length (bufs σ) <= d_buf D)%nat -> frame_ok σ1 σ2 D -> ext_of σ σ2.
Proof.
  intros (Ht & Hl & Hb) HD (Ht' & Hl' & _ & Ho & _). split; [congruence|]. split; [lia|].
  intros k Hk. rewrite Ho by lia. apply Hb. exact Hk.
Qed.

Lemma ext_of_wf σ σ1 d : ext_of σ σ1 -> wf_dense σ d -> wf_dense σ1 d.
Proof. intros (_ & _ & Hb) W. apply (wf_dense_ext σ); assumption. Qed.

Lemma ext_of_win σ σ1 d i : ext_of σ σ1 -> (d_buf d < length (bufs σ))%nat -> win_get σ1 d i = win_get σ d i.
Proof. intros (_ & _ & Hb) Hd. apply win_get_buf_eq. apply Hb. exact Hd. Qed.

Lemma ext_of_clone σ a σ2 c : clone_tmp V σ a = (σ2, c) -> in_buf σ a -> 0 <= d_len a -> ext_of σ σ2.
Proof.
  intros Ec Ha Hl. destruct (clone_tmp_spec _ _ _ _ Ec Ha Hl) as (_ & Ht & Hl2 & Hb & _).
  split; [exact Ht|]. split; [lia|exact Hb].
Qed.

(* like dest_post, but the operation may leave engine temporaries behind in NEW allocations *)
Definition dest_post_x (σ : store) (D : dense) (tD : nat) (res : store * oresult) (val : list Z -> option V) : Prop :=
  exists σ', res = (σ', OOk tD) /\ tens σ' = tens σ /\ (length (bufs σ) <= length (bufs σ'))%nat /\
    (forall c, inbox (shp (d_ap D)) c -> cell σ' D c = val c) /\
    (forall k, (k < length (bufs σ))%nat -> k <> d_buf D -> get_buf σ' k = get_buf σ k) /\
    (forall i, (forall c, inbox (shp (d_ap D)) c -> i <> dot (str (d_ap D)) c) -> win_get σ' D i = win_get σ D i) /\
    (forall p, ~ (d_off D <= p < d_off D + d_len D) -> peek σ' (d_buf D) p = peek σ (d_buf D) p).

Lemma dest_run_x σ σ1 σ' D tD val :
  ext_of σ σ1 -> (d_buf D < length (bufs σ))%nat -> frame_ok σ1 σ' D ->
  (forall c, inbox (shp (d_ap D)) c -> win_get σ' D (dot (str (d_ap D)) c) = val c) ->
  (forall i, (forall c, inbox (shp (d_ap D)) c -> i <> dot (str (d_ap D)) c) -> win_get σ' D i = win_get σ1 D i) ->
  dest_post_x σ D tD (σ', OOk tD) val.
Proof.
  intros (Ht & Hl & Hb) HD (Ht' & Hl' & _ & Ho & _ & Hw) Hv Hn. exists σ'.
  split; [reflexivity|]. split; [congruence|]. split; [lia|]. split; [exact Hv|]. split; [|split].
  - intros k Hk Hne. rewrite Ho by exact Hne. apply Hb. exact Hk.
  - intros i Hi. rewrite (Hn i Hi). apply win_get_buf_eq. apply Hb. exact HD.
  - intros p Hp. rewrite (Hw p Hp). unfold peek. rewrite (Hb _ HD). reflexivity.
Qed.

Lemma dest_post_to_x σ D tD res val : dest_post σ D tD res val -> dest_post_x σ D tD res val.
Proof.
  intros (σ' & Hr & Ht & Hl & Hv & Ho & _ & Hn & Hp). exists σ'.
  split; [exact Hr|]. split; [exact Ht|]. split; [lia|]. split; [exact Hv|].
  split; [intros k _ Hne; apply Ho; exact Hne|]. split; assumption.
Qed.

Section Ext.
Variable u : V -> V.

Lemma eng_unary_reuse_unfold σ ta r a rdn :
  get_t V σ ta = Some a -> get_t V σ r = Some rdn ->
  shp (d_ap rdn) = shp (d_ap a) -> d_len rdn = size (shp (d_ap a)) ->
  is_cm (ord (d_ap a)) = false -> is_cm (ord (d_ap rdn)) = false -> requires_iterator rdn = false ->
  eng_unary V vzero vadd u σ ta (MReuse r) =
    if requires_iterator a then
      match all_iter a with
      | None => (σ, OPanicR)
      | Some ai =>
        match all_iter rdn with
        | Some ri =>
          match copy_iter_idx V σ rdn a ri ai with
          | Some σ2 => finish V (run_asgs (gun V u) σ2 (k_un V vzero u rdn ri) false) σ2 r
          | None => (σ, OPanicR)
          end
        | None => (σ, OPanicR)
        end
      end
    else
      match copy_hdr V σ rdn a with
      | Some σ2 => finish V (run_asgs (gun V u) σ2 (k_un V vzero u rdn (idxs (d_len rdn))) false) σ2 r
      | None => (σ, OPanicR)
      end.
Proof.
  intros Ha Hr Hsr Hl Hca Hcr Hrr. unfold eng_unary. rewrite Ha. cbn [opt_reuse].
  rewrite (handle_reuse_ok σ r rdn _ _ false Hr Hl Hsr) by (unfold has_same_order; rewrite Hca, Hcr; reflexivity).
  rewrite Ha, Hr, Hrr, orb_false_r. reflexivity.
Qed.

Lemma eng_unary_incr_unfold σ ta r a rdn :
  get_t V σ ta = Some a -> get_t V σ r = Some rdn ->
  shp (d_ap rdn) = shp (d_ap a) -> d_len rdn = size (shp (d_ap a)) ->
  is_cm (ord (d_ap a)) = false -> is_cm (ord (d_ap rdn)) = false -> requires_iterator rdn = false ->
  eng_unary V vzero vadd u σ ta (MIncr r) =
    if requires_iterator a then
      match all_iter a with
      | None => (σ, OPanicR)
      | Some ai =>
        match all_iter rdn with
        | Some ri =>
          let '(σ2, c) := clone_tmp V σ a in
          match run_asgs (gun V u) σ2 (k_un V vzero u c ai) false with
          | Some (σ3, _) => finish V (e_iter V vzero vadd (gadd V vadd) σ3 rdn c ri ai) σ3 r
          | None => (σ, OPanicR)
          end
        | None => (σ, OPanicR)
        end
      end
    else
      let '(σ2, c) := clone_tmp V σ a in
      match run_asgs (gun V u) σ2 (k_un V vzero u c (idxs (d_len c))) false with
      | Some (σ3, _) => finish V (e_plain V vzero vadd (gadd V vadd) σ3 rdn c) σ3 r
      | None => (σ, OPanicR)
      end.
Proof.
  intros Ha Hr Hsr Hl Hca Hcr Hrr. unfold eng_unary. rewrite Ha. cbn [opt_reuse].
  rewrite (handle_reuse_ok σ r rdn _ _ true Hr Hl Hsr) by (unfold has_same_order; rewrite Hca, Hcr; reflexivity).
  rewrite Ha, Hr, Hrr, orb_false_r. reflexivity.
Qed.

Lemma eng_arith_scalar_unsafe_unfold g σ tt t s lt seq :
  get_t V σ tt = Some t -> all_iter t = Some seq ->
  eng_arith_scalar V vzero vadd g σ tt s lt MUnsafe =
    let σ2 := sc_store σ s in let sh := sc_hdr σ in
    if (if is_scalar (shp (d_ap t)) then false else requires_iterator t) then
      if lt then finish V (e_iter V vzero vadd g σ2 t sh seq []) σ2 tt
      else finish V (e_iter V vzero vadd g σ2 sh t [] seq) σ2 tt
    else
      if lt then
        match e_plain V vzero vadd g σ2 t sh with
        | Some (σ3, e) => finish V (Some (σ3, e)) σ3 tt
        | None => (σ2, OPanicR)
        end
      else
        match e_plain V vzero vadd g σ2 sh t with
        | Some (σ3, e) =>
          if is_scalar_equiv (shp (d_ap t)) then
            match copy_hdr V σ3 t sh with
            | Some σ4 => finish V (Some (σ4, e)) σ4 tt
            | None => (σ2, OPanicR)
            end
          else finish V (Some (σ3, e)) σ3 tt
        | None => (σ2, OPanicR)
        end.
Proof.
  intros Ht Hseq. unfold eng_arith_scalar, eng_arith_scalar_h. rewrite Ht. cbn [opt_reuse]. rewrite Ht.
  cbn [scalar_hdr add_buf]. rewrite Hseq. rewrite !orb_false_r.
  destruct lt; destruct (if is_scalar (shp (d_ap t)) then false else requires_iterator t); cbn [is_some negb andb];
    try reflexivity.
  - rewrite andb_false_r. reflexivity.
  - rewrite andb_true_r. reflexivity.
Qed.

Lemma run_un σ d idx :
  run_asgs (gun V u) σ (k_un V vzero u d idx) false = run_asgs (gf (fu u)) σ (k_iter_vs V d vzero idx) false.
Proof. reflexivity. Qed.

(* ---- unary, reuse: Copy / CopyIter into the reuse tensor, then the map in place ---- *)
Theorem unary_reuse_post σ ta r a rdn :
  get_t V σ ta = Some a -> get_t V σ r = Some rdn ->
  wf_dense σ a -> wf_dense σ rdn -> requires_iterator rdn = false ->
  shp (d_ap rdn) = shp (d_ap a) -> d_buf rdn <> d_buf a ->
  dest_post σ rdn r (eng_unary V vzero vadd u σ ta (MReuse r)) (fun c => lift1 u (cell σ a c)).
Proof.
  intros Ha Hr Wa Wr Hrr Hsr Hba.
  destruct (wf_flag _ _ Wr Hrr) as [Hstr Hlr].
  rewrite (eng_unary_reuse_unfold σ ta r a rdn Ha Hr Hsr) by
    (first [rewrite Hlr, Hsr; reflexivity | apply (wf_rm _ _ Wa) | apply (wf_rm _ _ Wr) | exact Hrr]).
  assert (Hsa : sep rdn a) by (left; exact Hba).
  pose proof (wf_big _ _ Wa) as Hbiga. pose proof (wf_big _ _ Wr) as Hbigr.
  destruct (requires_iterator a) eqn:Era.
  - rewrite (wf_all_iter _ _ Wa), (wf_all_iter _ _ Wr). unfold copy_iter_idx.
    destruct (copy_seq_spec σ rdn a (offsets (d_ap rdn)) (offsets (d_ap a)) (wf_win _ _ Wr) (wf_win _ _ Wa) Hsa
                (wf_nodup _ _ Wr) (wf_range _ _ Wr) (wf_range _ _ Wa)) as (σ2 & Hcp & Hfr2 & Hv2 & _).
    rewrite Hcp.
    assert (Hin2r : in_buf σ2 rdn) by (apply (in_buf_frame σ); [apply Hfr2|apply (wf_win _ _ Wr)]).
    destruct (k_iter_vs_spec (fu u) σ2 rdn vzero (offsets (d_ap rdn)) false Hin2r (wf_nodup _ _ Wr) (wf_range _ _ Wr))
      as (σ3 & Hrun & Hfr3 & Hv3 & _).
    rewrite run_un, Hrun. cbn [finish]. apply dest_run; [eapply frame_ok_trans; eassumption| |].
    + intros c Hc. assert (Hca : inbox (shp (d_ap a)) c) by (rewrite <- Hsr; exact Hc).
      destruct (wf_cell_some _ _ _ Wa Hca) as [x Hx]. rewrite Hx. cbn [lift1].
      apply (Hv3 _ x); [apply offsets_In; [apply (wf_pos _ _ Wr)|exact Hc]|].
      rewrite (Hv2 _ (dot (str (d_ap a)) c)); [exact Hx|].
      apply zip2_offsets_In; [exact Hsr|apply (wf_pos _ _ Wr)|exact Hc].
    + apply (contig_nonlogical σ); assumption.
  - destruct (wf_flag _ _ Wa Era) as [Hstra Hla].
    destruct (copy_hdr_spec σ rdn a (wf_win _ _ Wr) (wf_win _ _ Wa)) as (σ2 & Hcp & Hfr2 & Hv2); [lia|lia|].
    rewrite Hcp.
    assert (Hin2r : in_buf σ2 rdn) by (apply (in_buf_frame σ); [apply Hfr2|apply (wf_win _ _ Wr)]).
    destruct (k_iter_vs_spec (fu u) σ2 rdn vzero (idxs (d_len rdn)) false Hin2r (idxs_NoDup _))
      as (σ3 & Hrun & Hfr3 & Hv3 & _).
    { intros i Hi. apply idxs_In in Hi. exact Hi. }
    rewrite run_un, Hrun. cbn [finish]. apply dest_run; [eapply frame_ok_trans; eassumption| |].
    + intros c Hc. assert (Hca : inbox (shp (d_ap a)) c) by (rewrite <- Hsr; exact Hc).
      destruct (wf_cell_some _ _ _ Wa Hca) as [x Hx]. rewrite Hx. cbn [lift1].
      assert (Hi : 0 <= dot (str (d_ap rdn)) c < d_len rdn).
      { apply (wf_range _ _ Wr). apply offsets_In; [apply (wf_pos _ _ Wr)|exact Hc]. }
      apply (Hv3 _ x); [apply idxs_In; exact Hi|].
      rewrite Hv2 by (rewrite Hla, Hlr, Hsr in *; lia).
      unfold cell in Hx. rewrite Hstr, Hsr, <- Hstra. exact Hx.
    + apply (contig_nonlogical σ); assumption.
Qed.

(* ---- unary, incr: the image of a clone is ADDED into the incr tensor; the clone stays behind
        as an engine temporary ---- *)
Definition lift_acc (o x : option V) : option V :=
  match o, x with Some o, Some x => Some (vadd o (u x)) | _, _ => None end.

Theorem unary_incr_post σ ta r a rdn :
  get_t V σ ta = Some a -> get_t V σ r = Some rdn ->
  wf_dense σ a -> wf_dense σ rdn -> requires_iterator rdn = false ->
  shp (d_ap rdn) = shp (d_ap a) -> d_buf rdn <> d_buf a ->
  dest_post_x σ rdn r (eng_unary V vzero vadd u σ ta (MIncr r))
              (fun c => lift_acc (cell σ rdn c) (cell σ a c)).
Proof.
  intros Ha Hr Wa Wr Hrr Hsr Hba.
  destruct (wf_flag _ _ Wr Hrr) as [Hstr Hlr].
  rewrite (eng_unary_incr_unfold σ ta r a rdn Ha Hr Hsr) by
    (first [rewrite Hlr, Hsr; reflexivity | apply (wf_rm _ _ Wa) | apply (wf_rm _ _ Wr) | exact Hrr]).
  pose proof (wf_big _ _ Wa) as Hbiga. pose proof (wf_big _ _ Wr) as Hbigr.
  pose proof (wf_buf_lt _ _ Wr) as Hrlt.
  change (gadd V vadd) with (gf vadd).
  assert (Hcommon : forall σ2 c, clone_tmp V σ a = (σ2, c) ->
            ext_of σ σ2 /\ d_ap c = d_ap a /\ d_len c = d_len a /\ isS c = false /\ in_buf σ2 c /\
            in_buf σ2 rdn /\ sep c rdn /\ (length (bufs σ) <= d_buf c)%nat /\
            (forall i, win_get σ2 c i = win_get σ a i) /\ (forall i, win_get σ2 rdn i = win_get σ rdn i)).
  { intros σ2 c Ec. destruct (wf_clone_facts _ _ _ _ _ Wa Wr Ec) as (H1 & H2 & H3 & H4 & H5 & H6 & H7 & H8).
    destruct (clone_tmp_spec _ _ _ _ Ec (wf_win _ _ Wa)) as (Hc & _); [lia|].
    split; [eapply ext_of_clone; [exact Ec|apply (wf_win _ _ Wa)|lia]|].
    repeat (split; [assumption|]). split; [rewrite Hc; cbn [d_buf]; lia|]. split; assumption. }
  destruct (requires_iterator a) eqn:Era.
  - rewrite (wf_all_iter _ _ Wa), (wf_all_iter _ _ Wr).
    destruct (clone_tmp V σ a) as [σ2 c] eqn:Ec.
    destruct (Hcommon σ2 c eq_refl) as (Hext & Hapc & Hlenc & HSc & Hin2c & Hin2r & Hsepc & Hcb & Hwc & Hwr).
    destruct (k_iter_vs_spec (fu u) σ2 c vzero (offsets (d_ap a)) false Hin2c (wf_nodup _ _ Wa))
      as (σ3 & Hrun & Hfr3 & Hv3 & _).
    { intros i Hi. rewrite Hlenc. apply (wf_range _ _ Wa). exact Hi. }
    rewrite run_un, Hrun.
    assert (Hext3 : ext_of σ σ3) by (eapply ext_of_frame; eassumption).
    assert (Hin3c : in_buf σ3 c) by (apply (in_buf_frame σ2); [apply Hfr3|exact Hin2c]).
    assert (Hin3r : in_buf σ3 rdn) by (apply (in_buf_frame σ2); [apply Hfr3|exact Hin2r]).
    rewrite (e_iter_vv (gf vadd) σ3 rdn c _ _ (wf_isS _ _ Wr) HSc).
    destruct (k_iter_spec vadd σ3 rdn c (offsets (d_ap rdn)) (offsets (d_ap a)) false Hin3r Hin3c (sep_sym _ _ Hsepc)
                (wf_nodup _ _ Wr) (wf_range _ _ Wr)) as (σ4 & Hrun4 & Hfr4 & Hv4 & _).
    { intros j Hj. rewrite Hlenc. apply (wf_range _ _ Wa). exact Hj. }
    rewrite Hrun4. cbn [drop_err finish]. apply (dest_run_x σ σ3); [exact Hext3|exact Hrlt|exact Hfr4| |].
    + intros cc Hc. assert (Hca : inbox (shp (d_ap a)) cc) by (rewrite <- Hsr; exact Hc).
      destruct (wf_cell_some _ _ _ Wa Hca) as [x Hx]. destruct (wf_cell_some _ _ _ Wr Hc) as [o Ho].
      rewrite Hx, Ho. cbn [lift_acc].
      apply (Hv4 _ (dot (str (d_ap a)) cc)).
      * apply zip2_offsets_In; [exact Hsr|apply (wf_pos _ _ Wr)|exact Hc].
      * destruct Hfr3 as (_ & _ & _ & _ & Hs3 & _). rewrite (Hs3 rdn _ Hsepc), Hwr. exact Ho.
      * apply (Hv3 _ x); [apply offsets_In; [apply (wf_pos _ _ Wa)|exact Hca]|]. rewrite Hwc. exact Hx.
    + apply (contig_nonlogical σ); assumption.
  - destruct (wf_flag _ _ Wa Era) as [Hstra Hla].
    destruct (clone_tmp V σ a) as [σ2 c] eqn:Ec.
    destruct (Hcommon σ2 c eq_refl) as (Hext & Hapc & Hlenc & HSc & Hin2c & Hin2r & Hsepc & Hcb & Hwc & Hwr).
    destruct (k_iter_vs_spec (fu u) σ2 c vzero (idxs (d_len c)) false Hin2c (idxs_NoDup _))
      as (σ3 & Hrun & Hfr3 & Hv3 & _).
    { intros i Hi. apply idxs_In in Hi. exact Hi. }
    rewrite run_un, Hrun.
    assert (Hext3 : ext_of σ σ3) by (eapply ext_of_frame; eassumption).
    assert (Hin3c : in_buf σ3 c) by (apply (in_buf_frame σ2); [apply Hfr3|exact Hin2c]).
    assert (Hin3r : in_buf σ3 rdn) by (apply (in_buf_frame σ2); [apply Hfr3|exact Hin2r]).
    rewrite (e_plain_vv (gf vadd) σ3 rdn c (wf_isS _ _ Wr) HSc).
    destruct (k_vec_spec vadd σ3 rdn c false Hin3r Hin3c (sep_sym _ _ Hsepc)) as (l & σ4 & Hk & Hrun4 & Hfr4 & Hv4 & _).
    { rewrite Hlenc, Hla, Hlr, Hsr. lia. }
    rewrite Hk. cbn [run_opt]. rewrite Hrun4. cbn [finish].
    apply (dest_run_x σ σ3); [exact Hext3|exact Hrlt|exact Hfr4| |].
    + intros cc Hc. assert (Hca : inbox (shp (d_ap a)) cc) by (rewrite <- Hsr; exact Hc).
      destruct (wf_cell_some _ _ _ Wa Hca) as [x Hx]. destruct (wf_cell_some _ _ _ Wr Hc) as [o Ho].
      rewrite Hx, Ho. cbn [lift_acc].
      assert (Hi : 0 <= dot (str (d_ap rdn)) cc < d_len rdn).
      { apply (wf_range _ _ Wr). apply offsets_In; [apply (wf_pos _ _ Wr)|exact Hc]. }
      apply Hv4.
      * destruct Hfr3 as (_ & _ & _ & _ & Hs3 & _). rewrite (Hs3 rdn _ Hsepc), Hwr. exact Ho.
      * apply (Hv3 _ x); [apply idxs_In; rewrite Hlenc, Hla, <- Hsr, <- Hlr; exact Hi|].
        rewrite Hwc. unfold cell in Hx. rewrite Hstr, Hsr, <- Hstra. exact Hx.
    + apply (contig_nonlogical σ); assumption.
Qed.

End Ext.

(* ---- scalar forms, unsafe: the tensor operand is overwritten; the scalar header is an engine
        temporary ---- *)
Section ScalarUnsafe.
Variable f : V -> V -> V.

Lemma sc_ext σ s : ext_of σ (sc_store σ s).
Proof.
  split; [reflexivity|]. split; [unfold sc_store; cbn [Mem.bufs]; rewrite app_length; lia|].
  intros k Hk. apply sc_store_buf. exact Hk.
Qed.

Lemma sc_hd0' σ s : hd0 V (sc_store σ s) (sc_hdr σ) = Some s.
Proof. unfold hd0, Mem.win_get, sc_hdr, sc_store. cbn [d_len d_off d_buf]. rewrite get_buf_app_new. reflexivity. Qed.

Lemma is_scalar_ne s : s <> [] -> is_scalar s = false.
Proof. destruct s; [congruence|reflexivity]. Qed.

Theorem arith_scalar_unsafe_left_post σ tt t s :
  get_t V σ tt = Some t -> wf_dense σ t -> shp (d_ap t) <> [] ->
  dest_post_x σ t tt (eng_arith_scalar V vzero vadd (gf f) σ tt s true MUnsafe) (fun c => lift_l f s (cell σ t c)).
Proof.
  intros Ht W Hne. rewrite (eng_arith_scalar_unsafe_unfold (gf f) σ tt t s true _ Ht (wf_all_iter _ _ W)). cbv zeta.
  rewrite (is_scalar_ne _ Hne).
  pose proof (sc_ext σ s) as Hext. pose proof (ext_of_wf _ _ _ Hext W) as W2. pose proof (wf_buf_lt _ _ W) as Hlt.
  pose proof (wf_isS _ _ W) as HSt. pose proof (sc_hd0' σ s) as Hhd.
  assert (Hcell : forall c, cell (sc_store σ s) t c = cell σ t c) by (intro c; apply cell_sc; exact W).
  destruct (requires_iterator t) eqn:Er.
  - rewrite (e_iter_vs (gf f) _ t (sc_hdr σ) _ _ s HSt eq_refl Hhd).
    destruct (k_iter_vs_spec f (sc_store σ s) t s (offsets (d_ap t)) false (wf_win _ _ W2) (wf_nodup _ _ W) (wf_range _ _ W))
      as (σ3 & Hrun & Hfr & Hv & Hoth).
    rewrite Hrun. cbn [drop_err finish]. apply (dest_run_x σ (sc_store σ s)); [exact Hext|exact Hlt|exact Hfr| |].
    + intros c Hc. destruct (wf_cell_some _ _ _ W Hc) as [x Hx]. rewrite Hx. cbn [lift_l].
      apply Hv; [apply offsets_In; [apply (wf_pos _ _ W)|exact Hc]|]. rewrite <- Hcell in Hx. exact Hx.
    + intros i Hi. apply Hoth. apply offs_nonlogical; [apply (wf_pos _ _ W)|exact Hi].
  - rewrite (e_plain_vs (gf f) _ t (sc_hdr σ) s HSt eq_refl Hhd).
    destruct (k_vs_spec f (sc_store σ s) t s false (wf_win _ _ W2)) as (σ3 & Hrun & Hfr & Hv).
    rewrite Hrun. cbn [finish]. apply (dest_run_x σ (sc_store σ s)); [exact Hext|exact Hlt|exact Hfr| |].
    + intros c Hc. destruct (wf_cell_some _ _ _ W Hc) as [x Hx]. rewrite Hx. cbn [lift_l].
      apply Hv. rewrite <- Hcell in Hx. exact Hx.
    + apply (contig_nonlogical σ); assumption.
Qed.

Theorem arith_scalar_unsafe_right_post σ tt t s :
  get_t V σ tt = Some t -> wf_dense σ t -> shp (d_ap t) <> [] ->
  dest_post_x σ t tt (eng_arith_scalar V vzero vadd (gf f) σ tt s false MUnsafe) (fun c => lift_r f s (cell σ t c)).
Proof.
  intros Ht W Hne. rewrite (eng_arith_scalar_unsafe_unfold (gf f) σ tt t s false _ Ht (wf_all_iter _ _ W)). cbv zeta.
  rewrite (is_scalar_ne _ Hne).
  pose proof (sc_ext σ s) as Hext. pose proof (ext_of_wf _ _ _ Hext W) as W2. pose proof (wf_buf_lt _ _ W) as Hlt.
  pose proof (wf_isS _ _ W) as HSt. pose proof (sc_hd0' σ s) as Hhd.
  assert (Hcell : forall c, cell (sc_store σ s) t c = cell σ t c) by (intro c; apply cell_sc; exact W).
  destruct (requires_iterator t) eqn:Er.
  - rewrite (e_iter_sv (gf f) _ (sc_hdr σ) t _ _ s eq_refl HSt Hhd).
    destruct (k_iter_sv_spec f (sc_store σ s) s t (offsets (d_ap t)) false (wf_win _ _ W2) (wf_nodup _ _ W) (wf_range _ _ W))
      as (σ3 & Hrun & Hfr & Hv & Hoth).
    rewrite Hrun. cbn [drop_err finish]. apply (dest_run_x σ (sc_store σ s)); [exact Hext|exact Hlt|exact Hfr| |].
    + intros c Hc. destruct (wf_cell_some _ _ _ W Hc) as [x Hx]. rewrite Hx. cbn [lift_r].
      apply Hv; [apply offsets_In; [apply (wf_pos _ _ W)|exact Hc]|]. rewrite <- Hcell in Hx. exact Hx.
    + intros i Hi. apply Hoth. apply offs_nonlogical; [apply (wf_pos _ _ W)|exact Hi].
  - rewrite (e_plain_sv (gf f) _ (sc_hdr σ) t s eq_refl HSt Hhd).
    destruct (k_sv_spec f (sc_store σ s) s t false (wf_win _ _ W2)) as (σ3 & Hrun & Hfr & Hv).
    rewrite Hrun.
    assert (Hse : is_scalar_equiv (shp (d_ap t)) = false).
    { destruct (is_scalar_equiv (shp (d_ap t))) eqn:Ese; [|reflexivity].
      apply allones_size in Ese. destruct (wf_flag _ _ W Er) as [_ Hl]. pose proof (wf_big _ _ W). lia. }
    rewrite Hse. cbn [finish]. apply (dest_run_x σ (sc_store σ s)); [exact Hext|exact Hlt|exact Hfr| |].
    + intros c Hc. destruct (wf_cell_some _ _ _ W Hc) as [x Hx]. rewrite Hx. cbn [lift_r].
      apply Hv. rewrite <- Hcell in Hx. exact Hx.
    + apply (contig_nonlogical σ); assumption.
Qed.
End ScalarUnsafe.

End Store.

(* ====================================================================================== *)
(*  comparisons: the statement with an explicit boolean comparison                        *)
(* ====================================================================================== *)
Theorem cmp_vv_safe_pointwise (V : Type) (vzero vone : V) (vadd : V -> V -> V) (cmp : V -> V -> bool)
        (σ : store V) (ta tb : nat) (a b : dense) (same0 : bool) :
  get_t V σ ta = Some a -> get_t V σ tb = Some b -> wf_dense V σ a -> wf_dense V σ b ->
  shp (d_ap a) = shp (d_ap b) -> 1 < size (shp (d_ap a)) ->
  exists σ' d',
    eng_cmp_vv V vzero vadd (fun x y => CV V (if cmp x y then vone else vzero)) σ ta tb same0 CSafe
      = (σ', OOk (length (tens V σ))) /\
    get_t V σ' (length (tens V σ)) = Some d' /\
    (* the result is a fresh ROW-MAJOR contiguous tensor of the operands' shape *)
    shp (d_ap d') = shp (d_ap a) /\ str (d_ap d') = calc_strides (shp (d_ap a)) /\
    is_cm (ord (d_ap d')) = false /\ requires_iterator d' = false /\ d_buf d' = length (bufs V σ) /\
    (forall c xa xb, inbox (shp (d_ap a)) c -> cell V σ a c = Some xa -> cell V σ b c = Some xb ->
                     cell V σ' d' c = Some (if cmp xa xb then vone else vzero)) /\
    (forall k, (k < length (bufs V σ))%nat -> get_buf V σ' k = get_buf V σ k) /\
    firstn (length (tens V σ)) (tens V σ') = tens V σ.
Proof.
  intros Ha Hb Wa Wb Hsh Hsz.
  destruct (cmp_vv_safe_post V vzero vadd (fun x y => if cmp x y then vone else vzero) σ ta tb a b same0
              Ha Hb Wa Wb Hsh Hsz) as (σ' & d' & Hr & Hg & _ & H1 & H2 & H3 & H4 & H5 & Hv & Hbuf & Hf).
  exists σ', d'. split; [exact Hr|]. repeat (split; [assumption|]). split; [|split; assumption].
  intros c xa xb Hc Hxa Hxb. rewrite (Hv c Hc), Hxa, Hxb. reflexivity.
Qed.
