(* PropC10.v — C10 "Concatenating tensors along an axis, stacking them along a new axis and
   repeating elements along an axis produce the array that places each operand's LOGICAL elements
   at the positions NumPy's concatenate, stack and repeat define, with the corresponding result
   shape.  Operands of any layout are read by logical content and left unchanged; operands whose
   shapes do not fit are refused with an error."
   Only statements; every proof is `exact <lemma of ShapeopsProofs>`.
   MODEL (Shapeops.v): shape_concat / shape_repeat (Shape.Concat, Shape.Repeat), m_stack (StackDense:
   axis-0 shortcut, denseSimpleStack, denseViewStack/doViewStack), assign_array (dense_assign.go),
   m_concat (denseConcat), m_repeat (denseRepeat / fastCopyDenseRepeat).  Element type V arbitrary.
   Vocabulary:
     cell σ d c    = win_get σ d (dot (str (d_ap d)) c)     the logical content at coordinate c
     wf_dense σ d  = OpsProofs.wf_dense: pos_shape, |strides| = |shape|, offsets of the box pairwise
                     distinct and inside [0, d_len), window inside its allocation, 1 < d_len,
                     row-major order bit, FLAG SOUNDNESS (requires_iterator d = false -> default
                     strides /\ d_len = size)
     wfv σ d       = the same without 1 < d_len and with the weaker flag soundness "a tensor that
                     does not ask for an iterator holds its elements in row-major order over its
                     window" (slices of row/column vectors keep the parent's strides)
     fresh_result σ σ' ret sh' = ret lives in a NEW allocation appended to the store (d_buf ret =
                     length (bufs σ), offset 0, length size sh'), has shape sh' and the row-major
                     strides calc_strides sh', no pending transpose, not a view; ext_of σ σ': the
                     tensor table is unchanged and every old allocation is unchanged (operands
                     untouched) — see C10_operands_untouched
     agree_off ax s x = x has the rank of s and agrees with s on every axis except ax
     bcast_reps reps n = a single repeat count broadcast to n counts
     rep_src reps k 0 = (Spec.v) the input index that output position k along the axis repeats
     remove_nth_s a c = (Spec.v) c with position a removed;  insert_at a k sh = sh with k inserted
     concat_src σ all ax c x = NumPy's concatenate: the cell of the first operand whose extent
                     exceeds what is left of x, at c with the axis coordinate replaced
   GUARDS (each shown necessary by a ..._guard_needed / _refuted example below):
     - Repeat: contiguous row-major non-view source (GView, GOrderMix), and the vector guard
       repeat_vec_guard (GVectorAxes, finding F40);
     - assignArray / Concat: row and column vectors (vector shapes of rank 2) must not need an
       iterator (finding F32).
   C10_concat covers every positive extent along the axis, i.e. all of denseConcat's keep-dims
   fix-ups (scalar view + raw copy, (1,n) -> (n,1) reshape, outer / inner / middle unsqueeze). *)
From TV Require Import Base Index AP Iter Mem Spec Ops Shapeops IndexProofs IterProofs APProofs OpsProofs
                       ShapeopsProofs.

(* ---- S1: the shape calculators ---- *)
(* Shape.Concat succeeds iff the (normalised: -1 means 0) axis is in range and every shape has the
   receiver's rank and agrees with it off the axis; the result replaces the axis extent by the sum *)
Theorem C10_shape_concat : forall (s : list Z) (axis : Z) (ss : list (list Z)) (r : list Z),
  shape_concat s axis ss = Some r <->
  let ax := if axis =? -1 then 0 else axis in
  0 <= ax < zlen s /\
  Forall (agree_off (Z.to_nat ax) s) ss /\
  r = upd s (Z.to_nat ax) (nth (Z.to_nat ax) s 0 + sumz (map (fun x => nth (Z.to_nat ax) x 0) ss)).
Proof. exact shape_concat_spec. Qed.
Print Assumptions C10_shape_concat.

(* Shape.Repeat, 0 <= axis < rank: (new shape, counts after broadcasting, extent, axis), or Err
   when the number of counts differs from the extent *)
Theorem C10_shape_repeat : forall (s : list Z) (axis : Z) (repeats : list Z), 0 <= axis < zlen s ->
  let sz := nth (Z.to_nat axis) s 0 in
  let reps := bcast_reps repeats sz in
  shape_repeat s axis repeats =
  if zlen reps =? sz then Ok (upd s (Z.to_nat axis) (sumz reps), reps, sz, axis) else Err.
Proof. exact shape_repeat_spec. Qed.
Print Assumptions C10_shape_repeat.

Theorem C10_shape_repeat_flat : forall (s : list Z) (repeats : list Z),
  let reps := bcast_reps repeats (size s) in
  shape_repeat s (-1) repeats =
  if zlen reps =? size s then Ok ([sumz reps], reps, size s, 0) else Err.
Proof. exact shape_repeat_flat. Qed.
Print Assumptions C10_shape_repeat_flat.

(* what fresh_result says about the operands *)
Theorem C10_operands_untouched : forall (V : Type) (σ σ' : store V) (ret : dense) (sh' : list Z),
  fresh_result V σ σ' ret sh' ->
  tens V σ' = tens V σ /\ length (bufs V σ') = S (length (bufs V σ)) /\
  (forall b, (b < length (bufs V σ))%nat -> get_buf V σ' b = get_buf V σ b) /\
  d_buf ret = length (bufs V σ) /\ d_off ret = 0 /\ d_len ret = size sh' /\
  shp (d_ap ret) = sh' /\ str (d_ap ret) = calc_strides sh' /\ d_old ret = None /\ d_view ret = false.
Proof.
  intros V σ σ' ret sh' F. destruct (fr_ext _ _ _ _ _ F) as (Ht & _ & Hb).
  repeat split; try apply F; assumption.
Qed.
Print Assumptions C10_operands_untouched.

(* ---- S2: Stack ---- *)
(* k >= 1 well-formed row-major operands (dt = the receiver) of one shape sh, ANY layout (contiguous,
   views, lazily transposed), 0 <= axis <= rank: the result is a fresh row-major tensor of shape
   insert_at axis k sh whose cell c is cell (c with the axis removed) of operand number c[axis].
   Holds on all three code paths (axis-0 shortcut, denseSimpleStack, denseViewStack). *)
Theorem C10_stack : forall (V : Type) (vzero : V) (σ : store V) (t : nat) (axis : Z) (others : list nat)
    (dt : dense) (ods : list dense) (sh : list Z),
  get_t V σ t = Some dt -> Forall2 (fun o d => get_t V σ o = Some d) others ods ->
  (forall x, In x (dt :: ods) -> wf_dense V σ x /\ shp (d_ap x) = sh) ->
  0 <= axis <= zlen sh ->
  exists σ' ret, m_stack V vzero σ t axis others = Ok (σ', ret) /\
    fresh_result V σ σ' ret (insert_at (Z.to_nat axis) (zlen (dt :: ods)) sh) /\
    forall c, inbox (insert_at (Z.to_nat axis) (zlen (dt :: ods)) sh) c ->
      exists j d, nth_error c (Z.to_nat axis) = Some j /\ nth_error (dt :: ods) (Z.to_nat j) = Some d /\
                  cell V σ' ret c = cell V σ d (remove_nth_s (Z.to_nat axis) c).
Proof. exact stack_spec. Qed.
Print Assumptions C10_stack.

(* the two families of paths separately *)
Theorem C10_stack_contiguous : forall (V : Type) (vzero : V) (σ : store V) (t : nat) (axis : Z) (others : list nat)
    (dt : dense) (ods : list dense) (sh : list Z),
  get_t V σ t = Some dt -> Forall2 (fun o d => get_t V σ o = Some d) others ods ->
  (forall x, In x (dt :: ods) -> wf_dense V σ x /\ shp (d_ap x) = sh /\ requires_iterator x = false) ->
  0 <= axis <= zlen sh ->
  exists σ' ret, m_stack V vzero σ t axis others = Ok (σ', ret) /\
                 stack_post V σ σ' ret (dt :: ods) (Z.to_nat axis) sh.
Proof. exact stack_simple_spec. Qed.
Print Assumptions C10_stack_contiguous.

Theorem C10_stack_views : forall (V : Type) (vzero : V) (σ : store V) (t : nat) (axis : Z) (others : list nat)
    (dt : dense) (ods : list dense) (sh : list Z),
  get_t V σ t = Some dt -> Forall2 (fun o d => get_t V σ o = Some d) others ods ->
  (forall x, In x (dt :: ods) -> wf_dense V σ x /\ shp (d_ap x) = sh) ->
  forallb (fun d => negb (requires_iterator d)) (dt :: ods) = false ->
  0 <= axis <= zlen sh ->
  exists σ' ret, m_stack V vzero σ t axis others = Ok (σ', ret) /\
                 stack_post V σ σ' ret (dt :: ods) (Z.to_nat axis) sh.
Proof. exact stack_view_spec. Qed.
Print Assumptions C10_stack_views.

(* ---- S3: assignArray and Concat ---- *)
(* dest and src of the same (non-scalar) logical shape, no aliasing: afterwards dest's logical cells
   are src's, and no window cell of dest other than its logical cells changed (frame_ok: nothing
   outside dest's window changed either).  GUARD: vector shapes of rank 2 on the raw-copy path. *)
Theorem C10_assign_array : forall (V : Type) (vzero : V) (σ : store V) (dest sr : dense),
  wfv V σ dest -> wfv V σ sr -> sep dest sr ->
  shp (d_ap dest) = shp (d_ap sr) -> shp (d_ap sr) <> [] ->
  (is_vector (shp (d_ap sr)) = true -> length (shp (d_ap sr)) = 2%nat ->
   requires_iterator dest = false /\ requires_iterator sr = false) ->
  exists σ', assign_array V σ dest sr = Ok σ' /\ frame_ok V σ σ' dest /\
    (forall c, inbox (shp (d_ap sr)) c -> cell V σ' dest c = cell V σ sr c) /\
    (forall i, ~ In i (offsets (d_ap dest)) -> win_get V σ' dest i = win_get V σ dest i).
Proof. exact assign_array_spec. Qed.
Print Assumptions C10_assign_array.

(* the one vector case that works through the iterators: a contiguous (n,1) column vector assigned
   into a NON-contiguous (n,1) view (a column of the result) — the source is walked by a vector
   iterator, which never looks at BroadcastStrides' single stride.
   slab_assigned σ σ' dest T = frame_ok σ σ' dest /\ dest's cells become T's /\ no other window cell
   of dest changes. *)
Theorem C10_assign_array_colvec : forall (V : Type) (vzero : V) (σ : store V) (dest T : dense) (n : Z),
  wfv V σ dest -> wf_dense V σ T -> sep dest T ->
  shp (d_ap dest) = [n; 1] -> shp (d_ap T) = [n; 1] -> 2 <= n ->
  requires_iterator T = false -> requires_iterator dest = true ->
  exists σ', assign_array V σ dest T = Ok σ' /\ slab_assigned V σ σ' dest T.
Proof. exact assign_array_colvec. Qed.
Print Assumptions C10_assign_array_colvec.

(* operands (a = the receiver) of equal rank that agree off the axis, ANY layout except the guarded
   rank-2 vector shapes, 0 <= axis < rank: the result is a fresh row-major tensor of the shape
   Shape.Concat computes and its cell c is the cell of the operand that covers c[axis], at c with the
   axis coordinate made relative to that operand (concat_src; explicit form: C10_concat_placement) *)
Theorem C10_concat : forall (V : Type) (vzero : V) (σ : store V) (t : nat) (axis : Z) (others : list nat)
    (a : dense) (ods : list dense),
  get_t V σ t = Some a -> Forall2 (fun o d => get_t V σ o = Some d) others ods ->
  0 <= axis < zlen (shp (d_ap a)) ->
  let ax := Z.to_nat axis in
  let all := a :: ods in
  let sh := upd (shp (d_ap a)) ax (sumz (map (ext_d ax) all)) in
  (forall d, In d all -> wf_dense V σ d /\ agree_off ax (shp (d_ap a)) (shp (d_ap d)) /\
     (is_vector (shp (d_ap d)) = true -> length (shp (d_ap d)) = 2%nat -> requires_iterator d = false)) ->
  exists σ' ret, m_concat V vzero σ t axis others = Ok (σ', ret) /\
    fresh_result V σ σ' ret sh /\
    forall c, inbox sh c -> cell V σ' ret c = concat_src V σ all ax c (nth ax c 0).
Proof. exact concat_spec. Qed.
Print Assumptions C10_concat.

(* the explicit form of concat_src: operand number j covers [start_j, start_j + extent_j) *)
Theorem C10_concat_placement : forall (V : Type) (σ σ' : store V) (ret : dense) (all : list dense) (ax : nat) (sh : list Z),
  concat_post V σ σ' ret all ax sh ->
  Forall (fun d => 0 <= ext_d ax d) all ->
  forall j d c, nth_error all j = Some d -> inbox sh c ->
    let start := sumz (map (ext_d ax) (firstn j all)) in
    start <= nth ax c 0 < start + ext_d ax d ->
    cell V σ' ret c = cell V σ d (upd c ax (nth ax c 0 - start)).
Proof. exact concat_post_nth. Qed.
Print Assumptions C10_concat_placement.

(* ---- S4: Repeat ---- *)
(* a well-formed CONTIGUOUS row-major source, 0 <= axis < rank, counts (after broadcasting) all >= 0
   and as many as the axis extent.  GUARD repeat_vec_guard: if the source or the result is
   vector-shaped the stride of the repeated axis must be 1. *)
Theorem C10_repeat : forall (V : Type) (vzero : V) (σ : store V) (t : nat) (axis : Z) (repeats : list Z) (d : dense),
  get_t V σ t = Some d -> wf_dense V σ d -> requires_iterator d = false ->
  let sh := shp (d_ap d) in
  let ax := Z.to_nat axis in
  let reps := bcast_reps repeats (nth ax sh 0) in
  0 <= axis < zlen sh ->
  zlen reps = nth ax sh 0 -> Forall (fun r => 0 <= r) reps ->
  (is_vector (upd sh ax (sumz reps)) || is_vector sh = true -> size (skipn (S ax) sh) = 1) ->
  exists σ' ret, m_repeat V vzero σ t axis repeats = Ok (σ', ret) /\
    fresh_result V σ σ' ret (upd sh ax (sumz reps)) /\
    forall c, inbox (upd sh ax (sumz reps)) c ->
      cell V σ' ret c = cell V σ d (upd c ax (rep_src reps (nth ax c 0) 0)).
Proof. exact repeat_spec. Qed.
Print Assumptions C10_repeat.

(* the flattening form, axis = -1: the row-major sequence of logical elements is repeated *)
Theorem C10_repeat_flat : forall (V : Type) (vzero : V) (σ : store V) (t : nat) (repeats : list Z) (d : dense),
  get_t V σ t = Some d -> wf_dense V σ d -> requires_iterator d = false ->
  let sh := shp (d_ap d) in
  let reps := bcast_reps repeats (size sh) in
  zlen reps = size sh -> Forall (fun r => 0 <= r) reps ->
  exists σ' ret, m_repeat V vzero σ t (-1) repeats = Ok (σ', ret) /\
    fresh_result V σ σ' ret [sumz reps] /\
    forall x, 0 <= x < sumz reps -> cell V σ' ret [x] = cell V σ d (unrank sh (rep_src reps x 0)).
Proof. exact repeat_flat_spec. Qed.
Print Assumptions C10_repeat_flat.

(* ---- S5: refusals (an Err result carries no store: the caller's state is unchanged) ---- *)
Theorem C10_concat_refuses : forall (V : Type) (vzero : V) (σ : store V) (t : nat) (axis : Z) (others : list nat)
    (a : dense) (ods : list dense),
  get_t V σ t = Some a -> Forall2 (fun o d => get_t V σ o = Some d) others ods ->
  let ax := if axis =? -1 then 0 else axis in
  ~ (0 <= ax < zlen (shp (d_ap a)) /\
     Forall (agree_off (Z.to_nat ax) (shp (d_ap a))) (map (fun d => shp (d_ap d)) ods)) ->
  m_concat V vzero σ t axis others = Err.
Proof. exact concat_refuses. Qed.
Print Assumptions C10_concat_refuses.

(* Stack refuses an axis beyond rank + 1 and NOTHING ELSE: the operands' shapes are never compared
   (C10_stack_shape_unchecked) *)
Theorem C10_stack_refuses_axis : forall (V : Type) (vzero : V) (σ : store V) (t : nat) (axis : Z) (others : list nat)
    (dt : dense) (ods : list dense),
  get_t V σ t = Some dt -> Forall2 (fun o d => get_t V σ o = Some d) others ods ->
  zlen (shp (d_ap dt)) + 1 <= axis ->
  m_stack V vzero σ t axis others = Err.
Proof. exact stack_refuses_axis. Qed.
Print Assumptions C10_stack_refuses_axis.

Theorem C10_repeat_refuses : forall (V : Type) (vzero : V) (σ : store V) (t : nat) (axis : Z) (repeats : list Z) (d : dense),
  get_t V σ t = Some d -> 0 <= axis < zlen (shp (d_ap d)) ->
  zlen (bcast_reps repeats (nth (Z.to_nat axis) (shp (d_ap d)) 0)) <> nth (Z.to_nat axis) (shp (d_ap d)) 0 ->
  m_repeat V vzero σ t axis repeats = Err.
Proof. exact repeat_refuses. Qed.
Print Assumptions C10_repeat_refuses.

Theorem C10_repeat_flat_refuses : forall (V : Type) (vzero : V) (σ : store V) (t : nat) (repeats : list Z) (d : dense),
  get_t V σ t = Some d ->
  zlen (bcast_reps repeats (size (shp (d_ap d)))) <> size (shp (d_ap d)) ->
  m_repeat V vzero σ t (-1) repeats = Err.
Proof. exact repeat_flat_refuses. Qed.
Print Assumptions C10_repeat_flat_refuses.

(* ---- the statements the model makes FALSE, and the necessity of the guards (V := Z) ---- *)
(* exσ10: 0 = contiguous 2x2 [[1,2],[3,4]]; 1 = lazily transposed 2x2, logical [[10,30],[20,40]];
   2 = contiguous 2x3 [[1,2,3],[4,5,6]]; 3 = contiguous 3x2 [[7,8],[9,10],[11,12]]; 4 = contiguous 2x1
   [[5],[6]]; 5 = contiguous 1x3 [[1,2,3]]; 6 = step-2 view 1x3 [[1,3,5]] *)

(* "operands whose shapes do not fit are refused" is FALSE for Stack: 2x2 and 3x2 -> a 2x2x2 *)
Example C10_stack_shape_unchecked_refuted :
  show_res (m_stack Z 0 exσ10 0 0 [3%nat]) = Ok ([2; 2; 2], map Some [1; 2; 3; 4; 7; 8; 9; 10]).
Proof. exact stack_shape_unchecked. Qed.
Print Assumptions C10_stack_shape_unchecked_refuted.

(* Repeat of a lazily transposed source repeats storage blocks, not logical rows *)
Example C10_repeat_view_refuted :
  cells_of exσ10 (mkDense 1 0 4 (mkAP [2;2] [1;2] 4 true) (Some (mkAP [2;2] [2;1] 0 true)) false)
    = map Some [10; 30; 20; 40] /\
  show_res (m_repeat Z 0 exσ10 1 0 [2]) = Ok ([4; 2], map Some [10; 20; 10; 20; 30; 40; 30; 40]).
Proof. exact repeat_view_refuted. Qed.
Print Assumptions C10_repeat_view_refuted.

(* Repeat with a vector-shaped source (1,3) or result (2,3) -> (1,3): elements lost (F40) *)
Example C10_repeat_vec_guard_needed :
  show_res (m_repeat Z 0 exσ10 5 0 [1]) = Ok ([1; 3], map Some [1; 0; 0]) /\
  show_res (m_repeat Z 0 exσ10 2 0 [1; 0]) = Ok ([1; 3], map Some [1; 0; 0]).
Proof. exact repeat_vec_guard_needed. Qed.
Print Assumptions C10_repeat_vec_guard_needed.

(* assignArray on row vectors with a stepped source, resp. a stepped destination: Go panic *)
Example C10_assign_vec_guard_needed :
  let σ := mkStore Z [[0;0;0;0;0;0]; [1;2;3;4;5;6]; [1;2;3]] [] in
  let slab := mkDense 0 0 3 (mkAP [1;3] [6;1] 0 true) None true in
  let stepped := mkDense 1 0 5 (mkAP [1;3] [6;2] 2 true) None true in
  let stepdst := mkDense 0 0 5 (mkAP [1;3] [6;2] 2 true) None true in
  let plain := mkDense 2 0 3 (mkAP [1;3] [3;1] 0 true) None false in
  assign_array Z σ slab stepped = Panic /\ assign_array Z σ stepdst plain = Panic.
Proof. exact assign_vec_guard_needed. Qed.
Print Assumptions C10_assign_vec_guard_needed.

(* Concat of (1,3) row vectors along axis 1 when one operand is a step-2 view: Go panic (F32) *)
Example C10_concat_vec_guard_needed :
  m_concat Z 0 exσ10 5 1 [6%nat] = Panic /\ m_concat Z 0 exσ10 6 1 [5%nat] = Panic.
Proof. exact concat_vec_guard_needed. Qed.
Print Assumptions C10_concat_vec_guard_needed.

(* instances of C10_concat with extent 1 along the axis (keep-dims fix-ups) *)
Example C10_concat_extent_one_instances :
  show_res (m_concat Z 0 exσ10 0 1 [4%nat]) = Ok ([2; 3], map Some [1; 2; 5; 3; 4; 6]) /\
  show_res (m_concat Z 0 exσ10 5 0 [5%nat]) = Ok ([2; 3], map Some [1; 2; 3; 1; 2; 3]).
Proof. exact concat_extent_one_instances. Qed.
Print Assumptions C10_concat_extent_one_instances.

(* the result of Stack carries the receiver's data-order bits (here Transposed) on row-major strides *)
Example C10_stack_order_flag_inherited :
  match m_stack Z 0 exσ10 1 1 [0%nat] with
  | Ok (_, ret) => (ord (d_ap ret), str (d_ap ret))
  | _ => (0, [])
  end = (4, [4; 2; 1]).
Proof. exact stack_order_flag_inherited. Qed.
Print Assumptions C10_stack_order_flag_inherited.

(* ---- non-vacuity: the hypotheses are satisfiable on a non-trivial store, with the results ---- *)
Example C10_example :
  exists a b c3,
    get_t Z exσ10 0 = Some a /\ get_t Z exσ10 1 = Some b /\ get_t Z exσ10 2 = Some c3 /\
    wf_dense Z exσ10 a /\ wf_dense Z exσ10 b /\ wf_dense Z exσ10 c3 /\
    requires_iterator a = false /\ requires_iterator b = true /\ shp (d_ap a) = shp (d_ap b) /\
    (* Stack of the contiguous 2x2 and the transposed 2x2 along axis 1 (view path) and 0 *)
    show_res (m_stack Z 0 exσ10 0 1 [1%nat]) = Ok ([2; 2; 2], map Some [1; 2; 10; 30; 3; 4; 20; 40]) /\
    show_res (m_stack Z 0 exσ10 0 0 [1%nat]) = Ok ([2; 2; 2], map Some [1; 2; 3; 4; 10; 30; 20; 40]) /\
    (* Stack of the contiguous 2x2 with itself along axis 2 (denseSimpleStack) *)
    show_res (m_stack Z 0 exσ10 0 2 [0%nat]) = Ok ([2; 2; 2], map Some [1; 1; 2; 2; 3; 3; 4; 4]) /\
    (* Concat 2x2 ++ transposed 2x2 ++ 2x3 along axis 1: the hypotheses of C10_concat *)
    (forall d, In d [a; b; c3] ->
       agree_off 1 (shp (d_ap a)) (shp (d_ap d)) /\ is_vector (shp (d_ap d)) = false) /\
    show_res (m_concat Z 0 exσ10 0 1 [1%nat; 2%nat]) =
      Ok ([2; 7], map Some [1; 2; 10; 30; 1; 2; 3; 3; 4; 20; 40; 4; 5; 6]) /\
    (* Concat 2x2 ++ 2x1 along axis 1: the column vector satisfies the vector guard (contiguous) *)
    (exists e, get_t Z exσ10 4 = Some e /\ wf_dense Z exσ10 e /\ agree_off 1 (shp (d_ap a)) (shp (d_ap e)) /\
               is_vector (shp (d_ap e)) = true /\ requires_iterator e = false) /\
    show_res (m_concat Z 0 exσ10 0 1 [4%nat]) = Ok ([2; 3], map Some [1; 2; 5; 3; 4; 6]) /\
    (* Repeat of the contiguous 2x2 with counts [2;0] along axis 0, [2;1] along axis 1, 2 flattened *)
    repeat_vec_guard (shp (d_ap a)) 0 2 /\ repeat_vec_guard (shp (d_ap a)) 1 3 /\
    show_res (m_repeat Z 0 exσ10 0 0 [2; 0]) = Ok ([2; 2], map Some [1; 2; 1; 2]) /\
    show_res (m_repeat Z 0 exσ10 0 1 [2; 1]) = Ok ([2; 3], map Some [1; 1; 2; 3; 3; 4]) /\
    show_res (m_repeat Z 0 exσ10 0 (-1) [2]) = Ok ([8], map Some [1; 1; 2; 2; 3; 3; 4; 4]) /\
    (* refusals *)
    m_concat Z 0 exσ10 0 0 [2%nat] = Err /\ m_stack Z 0 exσ10 0 3 [0%nat] = Err /\
    m_repeat Z 0 exσ10 0 0 [2; 0; 1] = Err.
Proof.
  do 3 eexists. do 3 (split; [reflexivity|]).
  do 3 (split; [apply wf_denseb_sound; vm_compute; reflexivity|]).
  do 3 (split; [vm_compute; reflexivity|]).
  do 3 (split; [vm_compute; reflexivity|]).
  split.
  { intros d [<-|[<-|[<-|[]]]]; (split; [split; [reflexivity|intros [|[|[|i]]] Hi; try reflexivity; congruence]|]);
      vm_compute; reflexivity. }
  split; [vm_compute; reflexivity|].
  split.
  { eexists. split; [reflexivity|]. split; [apply wf_denseb_sound; vm_compute; reflexivity|].
    split; [split; [reflexivity|intros [|[|[|i]]] Hi; try reflexivity; congruence]|]. split; vm_compute; reflexivity. }
  split; [vm_compute; reflexivity|].
  split; [intro H; vm_compute in H; discriminate|]. split; [intro H; vm_compute in H; discriminate|].
  repeat split; vm_compute; reflexivity.
Qed.
Print Assumptions C10_example.
