(* PropC12.v — C12 "Unary maths and mapped functions".  Only statements; every proof is
   `exact <lemma of OpsProofs>`.
   MODEL: Ops.eng_unary (StdEng.<Unary>, defaultengine_unary.go) with the kernel k_un (a[i] = u a[i]
   over the whole window on the raw path, over the iterator's offsets otherwise).
   The function u : V -> V is ARBITRARY (total): Neg, Square, Abs ... and any mapped user function.
   Guards: operand wf_dense (1 < d_len, row-major, flag soundness). *)
From TV Require Import Base Index AP Iter Mem Spec Ops IndexProofs IterProofs APProofs OpsProofs.

(* unary_pointwise / map_pointwise, safe mode: a fresh tensor with the operand's AP holding
   u of every logical cell; nothing that existed before is touched *)
Theorem C12_unary_safe_pointwise : forall (V : Type) (vzero : V) (vadd : V -> V -> V) (u : V -> V)
    (σ : store V) (ta : nat) (a : dense),
  get_t V σ ta = Some a -> wf_dense V σ a ->
  exists σ' d',
    eng_unary V vzero vadd u σ ta MSafe = (σ', OOk (length (tens V σ))) /\
    get_t V σ' (length (tens V σ)) = Some d' /\ d_ap d' = d_ap a /\
    (forall c x, inbox (shp (d_ap a)) c -> cell V σ a c = Some x -> cell V σ' d' c = Some (u x)) /\
    (forall k, (k < length (bufs V σ))%nat -> get_buf V σ' k = get_buf V σ k) /\
    firstn (length (tens V σ)) (tens V σ') = tens V σ.
Proof. exact unary_safe_pointwise. Qed.
Print Assumptions C12_unary_safe_pointwise.

(* unsafe mode: in place; exactly the logical cells of the operand are replaced by their image *)
Theorem C12_unary_unsafe_pointwise : forall (V : Type) (vzero : V) (vadd : V -> V -> V) (u : V -> V)
    (σ : store V) (ta : nat) (a : dense),
  get_t V σ ta = Some a -> wf_dense V σ a ->
  exists σ',
    eng_unary V vzero vadd u σ ta MUnsafe = (σ', OOk ta) /\
    tens V σ' = tens V σ /\ length (bufs V σ') = length (bufs V σ) /\
    (forall c, inbox (shp (d_ap a)) c -> cell V σ' a c = lift1 V u (cell V σ a c)) /\
    (forall k, k <> d_buf a -> get_buf V σ' k = get_buf V σ k) /\
    (forall E i, sep a E -> win_get V σ' E i = win_get V σ E i) /\
    (forall i, (forall c, inbox (shp (d_ap a)) c -> i <> dot (str (d_ap a)) c) ->
               win_get V σ' a i = win_get V σ a i) /\
    (forall p, ~ (d_off a <= p < d_off a + d_len a) -> peek V σ' (d_buf a) p = peek V σ (d_buf a) p).
Proof. exact unary_unsafe_post. Qed.
Print Assumptions C12_unary_unsafe_pointwise.

(* reuse mode: the reuse tensor (contiguous, same shape, an allocation of its own) receives u of
   every logical cell of the operand; the operand is unchanged *)
Theorem C12_unary_reuse_pointwise : forall (V : Type) (vzero : V) (vadd : V -> V -> V) (u : V -> V)
    (σ : store V) (ta r : nat) (a rdn : dense),
  get_t V σ ta = Some a -> get_t V σ r = Some rdn ->
  wf_dense V σ a -> wf_dense V σ rdn -> requires_iterator rdn = false ->
  shp (d_ap rdn) = shp (d_ap a) -> d_buf rdn <> d_buf a ->
  exists σ',
    eng_unary V vzero vadd u σ ta (MReuse r) = (σ', OOk r) /\ tens V σ' = tens V σ /\
    (forall c x, inbox (shp (d_ap a)) c -> cell V σ a c = Some x -> cell V σ' rdn c = Some (u x)) /\
    (forall k, k <> d_buf rdn -> get_buf V σ' k = get_buf V σ k).
Proof.
  intros V vzero vadd u σ ta r a rdn Ha Hr Wa Wr Hrr Hsr Hb.
  destruct (unary_reuse_post V vzero vadd u σ ta r a rdn Ha Hr Wa Wr Hrr Hsr Hb) as (σ' & H1 & H2 & _ & Hv & Ho & _).
  exists σ'. repeat (split; [assumption|]). split; [|exact Ho].
  intros c x Hc Hx. rewrite (Hv c) by (rewrite Hsr; exact Hc). rewrite Hx. reflexivity.
Qed.
Print Assumptions C12_unary_reuse_pointwise.

(* incr mode: u of every logical cell of the operand is added (the element type's +) to the incr
   tensor *)
Theorem C12_unary_incr_pointwise : forall (V : Type) (vzero : V) (vadd : V -> V -> V) (u : V -> V)
    (σ : store V) (ta r : nat) (a rdn : dense),
  get_t V σ ta = Some a -> get_t V σ r = Some rdn ->
  wf_dense V σ a -> wf_dense V σ rdn -> requires_iterator rdn = false ->
  shp (d_ap rdn) = shp (d_ap a) -> d_buf rdn <> d_buf a ->
  exists σ',
    eng_unary V vzero vadd u σ ta (MIncr r) = (σ', OOk r) /\ tens V σ' = tens V σ /\
    (forall c o x, inbox (shp (d_ap a)) c -> cell V σ rdn c = Some o -> cell V σ a c = Some x ->
                   cell V σ' rdn c = Some (vadd o (u x))) /\
    (forall k, (k < length (bufs V σ))%nat -> k <> d_buf rdn -> get_buf V σ' k = get_buf V σ k).
Proof.
  intros V vzero vadd u σ ta r a rdn Ha Hr Wa Wr Hrr Hsr Hb.
  destruct (unary_incr_post V vzero vadd u σ ta r a rdn Ha Hr Wa Wr Hrr Hsr Hb) as (σ' & H1 & H2 & _ & Hv & Ho & _).
  exists σ'. repeat (split; [assumption|]). split; [|exact Ho].
  intros c o x Hc Hxo Hx. rewrite (Hv c) by (rewrite Hsr; exact Hc). rewrite Hxo, Hx. reflexivity.
Qed.
Print Assumptions C12_unary_incr_pointwise.

(* C12_unary_refuses_partial.  FULL INTENDED STATEMENT (DESIGN §C12): besides unary_pointwise in all
   C07 modes (proved above: safe, unsafe, reuse, incr; raw and iterator paths; arbitrary u, hence
   map_pointwise), Clamp with two scalars and unary_refuses (type-class gating) — these are not
   part of the Ops.v model (element-type classes are the subject of the kernel reflection). *)

(* ---- non-vacuity: V := Z, u := fun x => x * x - 1 on a lazily transposed 3x2 and a 2x3 ---- *)
Definition exσ : store Z :=
  mkStore Z [[1; 2; 3; 4; 5; 6]; [10; 20; 30; 40; 50; 60]]
            [mkDense 0 0 6 (mkAP [2; 3] [3; 1] 0 true) None false;
             mkDense 1 0 6 (mkAP [2; 3] [1; 2] 4 true) (Some (mkAP [3; 2] [2; 1] 0 true)) false].

Example C12_example :
  exists a b,
    get_t Z exσ 0 = Some a /\ get_t Z exσ 1 = Some b /\
    wf_dense Z exσ a /\ wf_dense Z exσ b /\
    requires_iterator a = false /\ requires_iterator b = true /\
    (let res := eng_unary Z 0 Z.add (fun x => x * x - 1) exσ 0 MSafe in
     snd res = OOk 2 /\ logical Z (fst res) 2 = map Ok [0; 3; 8; 15; 24; 35] /\
     get_buf Z (fst res) 0 = get_buf Z exσ 0) /\
    (let res := eng_unary Z 0 Z.add (fun x => x * x - 1) exσ 1 MSafe in
     snd res = OOk 2 /\ logical Z (fst res) 2 = map Ok [99; 899; 2499; 399; 1599; 3599] /\
     get_buf Z (fst res) 1 = get_buf Z exσ 1) /\
    (let res := eng_unary Z 0 Z.add (fun x => x * x - 1) exσ 1 MUnsafe in
     snd res = OOk 1%nat /\ logical Z (fst res) 1 = map Ok [99; 899; 2499; 399; 1599; 3599] /\
     get_buf Z (fst res) 0 = get_buf Z exσ 0).
Proof.
  do 2 eexists. do 2 (split; [reflexivity|]).
  do 2 (split; [apply wf_denseb_sound; vm_compute; reflexivity|]).
  repeat split; vm_compute; reflexivity.
Qed.
