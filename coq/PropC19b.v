(* PropC19b.v — C19 "No operation history corrupts another live tensor": the FRAME of one step of the
   structural operation language (construction, slicing, lazy / physical transposition, At/SetAt,
   Memset/Zero, Clone/Materialize/Copy, SafeT/RollAxis/tensor.Transpose, Reshape), for every
   constructor of Run.op: a step changes no entry of the tensor table other than the one it names as
   destination, and no allocation other than that tensor's; everything it allocates is fresh.
   Instances of the frame theorem of Conc.v (proved there for all 16 constructors). *)
From Coq Require Import List ZArith Lia Bool.
From TV Require Import Base Index AP Iter Mem Run Conc.
Import ListNotations.

Definition other_tensor {V} (σ : store V) (o : op V) (t : nat) : bool :=
  Nat.ltb t (length (tens V σ)) && match written V o with Some w => negb (Nat.eqb w t) | None => true end.
Definition other_alloc {V} (σ : store V) (o : op V) (b : nat) : bool :=
  Nat.ltb b (length (bufs V σ)) &&
  match written V o with
  | Some w => match get_t V σ w with Some d => negb (Nat.eqb (d_buf d) b) | None => true end
  | None => true
  end.

Theorem C19_step_changes_only_its_destination :
  forall (V : Type) (vzero : V) (σ : store V) (o : op V) (σ' : store V) (r : outcome V),
  step_model V vzero σ o = (σ', r) ->
  (* every other tensor keeps its entry: shape, strides, order, window, pending transpose *)
  (forall t, other_tensor σ o t = true -> nth_error (tens V σ') t = nth_error (tens V σ) t) /\
  (* every allocation other than the destination's keeps its contents *)
  (forall b, other_alloc σ o b = true -> get_buf V σ' b = get_buf V σ b).
Proof.
  intros V vzero σ o σ' r H.
  apply (step_model_shared_frame_explicit V vzero (other_tensor σ o) (other_alloc σ o) σ o σ' r); [| | |exact H].
  - intros t Ht. unfold other_tensor. destruct (Nat.ltb_spec t (length (tens V σ))); [lia|reflexivity].
  - intros b Hb. unfold other_alloc. destruct (Nat.ltb_spec b (length (bufs V σ))); [lia|reflexivity].
  - intros t Hw. split.
    + unfold other_tensor. rewrite Hw, Nat.eqb_refl. cbn [negb]. apply andb_false_r.
    + intros d Hd. unfold other_alloc. rewrite Hw, Hd, Nat.eqb_refl. cbn [negb]. apply andb_false_r.
Qed.
Print Assumptions C19_step_changes_only_its_destination.

(* read-only operations (At, Slice, Clone, Materialize, SafeT, tensor.Transpose, safe RollAxis, New)
   change NO existing tensor entry and NO existing allocation *)
Theorem C19_readonly_step_changes_nothing :
  forall (V : Type) (vzero : V) (σ : store V) (o : op V) (σ' : store V) (r : outcome V),
  written V o = None -> step_model V vzero σ o = (σ', r) ->
  (forall t, (t < length (tens V σ))%nat -> nth_error (tens V σ') t = nth_error (tens V σ) t) /\
  (forall b, (b < length (bufs V σ))%nat -> get_buf V σ' b = get_buf V σ b).
Proof.
  intros V vzero σ o σ' r Hw H.
  destruct (C19_step_changes_only_its_destination V vzero σ o σ' r H) as [Ht Hb].
  split.
  - intros t Hlt. apply Ht. unfold other_tensor. rewrite Hw.
    destruct (Nat.ltb_spec t (length (tens V σ))); [reflexivity|lia].
  - intros b Hlt. apply Hb. unfold other_alloc. rewrite Hw.
    destruct (Nat.ltb_spec b (length (bufs V σ))); [reflexivity|lia].
Qed.
Print Assumptions C19_readonly_step_changes_nothing.

(* non-vacuity: SetAt through a view changes the parent's allocation (the documented sharing) and
   nothing else; the sibling tensor in another allocation is untouched *)
Example C19_frame_example :
  let σ0 := mkStore Z [[1; 2; 3; 4; 5; 6]; [7; 8; 9]]
                      [mkDense 0 0 6 (mkAP [2; 3] [3; 1] 0 true) None false;
                       mkDense 1 0 3 (mkAP [3] [1] 0 true) None false;
                       mkDense 0 3 3 (mkAP [3] [1] 0 true) None true] in
  let o := OSetAt Z 2%nat [1] 77 in
  written Z o = Some 2%nat /\
  other_tensor σ0 o 0%nat = true /\ other_tensor σ0 o 1%nat = true /\ other_tensor σ0 o 2%nat = false /\
  other_alloc σ0 o 1%nat = true /\ other_alloc σ0 o 0%nat = false /\
  bufs Z (fst (step_model Z 0 σ0 o)) = [[1; 2; 3; 4; 77; 6]; [7; 8; 9]].
Proof. vm_compute. repeat split; reflexivity. Qed.
