(* PropC02.v — C02 "Slicing names exactly the selected elements of its parent".
   Only statements; every proof is `exact <lemma of APProofs>`.
   MODEL functions: AP.ap_S / apS_loop / drop_axes (ap.go: AP.S), Index.slice_details,
   check_slice (utils.go).  SPEC functions: Spec.spec_axes / spec_axis, Spec.drop_all.
   Guards: Guards.slice_count_zero, slice_neg_step, lead_floor, any_axis.
   Helper definitions (APProofs.v): src_coord (parent coordinate of a view coordinate),
   extents (the per-axis extents AP.S computes, all axes kept), expand (re-insert 0 at dropped
   axes), drop_flags (which axes AP.S drops), spec_src (the SPEC's source coordinate).
   Parent strides are ARBITRARY integers except in C02_window (non-negative), rank is arbitrary:
   the theorems apply to slices of slices of transposes (see C02_closure). *)
From TV Require Import Base Index AP Spec Guards IndexProofs APProofs.

(* A1 — the per-axis loop: view element c is parent element start + c * step' on every axis,
   where step' = step when positive, else 1. *)
Theorem C02_loop_element_map :
  forall shape strides i slices isvec outer ndStart ndEnd order nsh nst s e o,
  length strides = length shape ->
  apS_loop i shape strides slices isvec outer ndStart ndEnd order = Ok (nsh, nst, s, e, o) ->
  length nsh = length shape /\ length nst = length shape /\
  forall c, length c = length shape ->
    s - ndStart + dot nst c = dot strides (src_coord shape slices c).
Proof. exact apS_loop_spec. Qed.
Print Assumptions C02_loop_element_map.

(* A2 — AP.S as a whole, window of more than one cell: the result's shape is the extents with
   the droppable axes removed, and element c of the view is the parent element
   src_coord (expand c), found at offset s + <view strides, c>. *)
Theorem C02_offset : forall a len sl a' s e,
  length (str a) = length (shp a) ->
  ap_S a len sl = Ok (a', s, e) -> e - s <> 1 ->
  shp a' = drop_all (extents 0 (shp a) sl) (drop_flags (extents 0 (shp a) sl) sl) /\
  forall c, inbox (shp a') c ->
    inbox (extents 0 (shp a) sl) (expand (extents 0 (shp a) sl) sl c) /\
    s + dot (str a') c
    = dot (str a) (src_coord (shp a) sl (expand (extents 0 (shp a) sl) sl c)).
Proof. exact ap_S_offset. Qed.
Print Assumptions C02_offset.

(* A2, scalar-collapse branch (window of exactly one cell): the scalar AP; its one element is the
   parent element at the range starts, which is offset s. *)
Theorem C02_offset_scalar : forall a len sl a' s e,
  length (str a) = length (shp a) ->
  ap_S a len sl = Ok (a', s, e) -> e - s = 1 ->
  a' = scalar_ap /\
  s + dot (str a') [] = dot (str a) (src_coord (shp a) sl (map (fun _ => 0) (shp a))).
Proof. exact ap_S_offset_scalar. Qed.
Print Assumptions C02_offset_scalar.

(* A3 — under the guards the extents are the SPEC counts ceil((min end dim - start)/step)
   (1 for a single index), start/step agree with the SPEC's element map, and the dropped axes
   are the SPEC's canonical choice. *)
Theorem C02_counts : forall a len sl a' s e,
  length (str a) = length (shp a) -> pos_shape (shp a) ->
  ap_S a len sl = Ok (a', s, e) ->
  any_axis slice_count_zero (shp a) sl = false ->
  any_axis slice_neg_step (shp a) sl = false ->
  lead_floor (shp a) sl = false ->
  exists axs, spec_axes (shp a) sl = Some axs /\
    extents 0 (shp a) sl = map (fun x => snd (fst (fst x))) axs /\
    (forall c, spec_src axs c = src_coord (shp a) sl c) /\
    (e - s <> 1 ->
     shp a' = drop_all (map (fun x => snd (fst (fst x))) axs) (map (fun x => snd x) axs)).
Proof. exact ap_S_counts. Qed.
Print Assumptions C02_counts.

(* the lead_floor guard is necessary: a stepped range on axis 0 is floored, not rounded up —
   shape [5;2], slice [0:5:2] gives extent 2 where the SPEC count is 3 *)
Theorem C02_lead_floor_refuted :
  let a := mkAP [5; 2] [2; 1] 0 true in
  let sl := [Some (0, 5, 2)] in
  any_axis slice_count_zero (shp a) sl = false /\ any_axis slice_neg_step (shp a) sl = false /\
  lead_floor (shp a) sl = true /\
  ap_S a 10 sl = Ok (mkAP [2; 2] [4; 1] 2 true, 0, 10) /\
  spec_axes (shp a) sl = Some [(0, 3, 2, false); (0, 2, 1, false)].
Proof. exact ap_S_lead_floor_refuted. Qed.
Print Assumptions C02_lead_floor_refuted.

(* A4 — every cell of the view lies inside the view's window [s, e) of the parent's window.
   (No hypothesis on negative steps is needed: AP.S treats them like step 1.) *)
Theorem C02_window : forall a len sl a' s e,
  length (str a) = length (shp a) -> Forall (fun k => 0 <= k) (str a) -> pos_shape (shp a) ->
  (forall c, inbox (shp a) c -> 0 <= dot (str a) c < len) ->
  any_axis slice_count_zero (shp a) sl = false ->
  ap_S a len sl = Ok (a', s, e) ->
  0 <= s /\ s < e /\ e <= len /\
  forall c, inbox (shp a') c -> 0 <= dot (str a') c < e - s.
Proof. exact ap_S_window. Qed.
Print Assumptions C02_window.

(* the slice_count_zero guard is necessary: shape [4;3], slice [1:1:1] is accepted with an empty
   window [3,3) and a reported element outside it *)
Theorem C02_empty_range_refuted :
  let a := mkAP [4; 3] [3; 1] 0 true in
  let sl := [Some (1, 1, 1)] in
  (forall c, inbox (shp a) c -> 0 <= dot (str a) c < 12) /\
  any_axis slice_count_zero (shp a) sl = true /\
  ap_S a 12 sl = Ok (mkAP [3] [1] 0 true, 3, 3) /\
  inbox [3] [0] /\ ~ (0 <= dot [1] [0] < 3 - 3).
Proof. exact ap_S_empty_range_refuted. Qed.
Print Assumptions C02_empty_range_refuted.

(* A5 — rejection: exactly when there are more slices than axes or some non-nil slice fails
   CheckSlice against its axis. *)
Theorem C02_rejects : forall a len sl,
  length (str a) = length (shp a) ->
  (ap_S a len sl = Err <->
   (length (shp a) < length sl)%nat \/
   exists j sz st en sp,
     nth_error (shp a) j = Some sz /\ nth_error sl j = Some (Some (st, en, sp)) /\
     (en < st \/ st < 0 \/ sz <= st \/ (sp = 0 /\ 1 < en - st) \/ sp < 0)).
Proof. exact ap_S_rejects. Qed.
Print Assumptions C02_rejects.

(* A6 — distinct view coordinates name distinct cells whenever the parent's do. *)
Theorem C02_injective : forall a len sl a' s e,
  length (str a) = length (shp a) -> pos_shape (shp a) ->
  (forall c1 c2, inbox (shp a) c1 -> inbox (shp a) c2 ->
                 dot (str a) c1 = dot (str a) c2 -> c1 = c2) ->
  ap_S a len sl = Ok (a', s, e) ->
  forall c1 c2, inbox (shp a') c1 -> inbox (shp a') c2 ->
                dot (str a') c1 = dot (str a') c2 -> c1 = c2.
Proof. exact ap_S_injective. Qed.
Print Assumptions C02_injective.

(* the source coordinate of an in-box view coordinate is in the parent's box *)
Theorem C02_source_in_box :
  forall shape strides i slices isvec outer ndStart ndEnd order nsh nst s e o,
  pos_shape shape ->
  apS_loop i shape strides slices isvec outer ndStart ndEnd order = Ok (nsh, nst, s, e, o) ->
  forall c, inbox nsh c -> inbox shape (src_coord shape slices c).
Proof. exact apS_loop_src_inbox. Qed.
Print Assumptions C02_source_in_box.

(* composition: the result again satisfies the hypotheses the theorems above ask of a parent *)
Theorem C02_closure : forall a len sl a' s e,
  length (str a) = length (shp a) -> ap_S a len sl = Ok (a', s, e) ->
  length (str a') = length (shp a') /\
  (Forall (fun k => 0 <= k) (str a) -> Forall (fun k => 0 <= k) (str a')) /\
  (pos_shape (shp a) -> any_axis slice_count_zero (shp a) sl = false -> pos_shape (shp a')).
Proof. exact ap_S_closure. Qed.
Print Assumptions C02_closure.

(* Non-vacuity: a stepped 2-D slice of a row-major matrix, and a slice (with a dropped axis) of a
   transposed rank-3 view, meet all hypotheses; view offsets equal the source offsets. *)
Example C02_example :
  let a := mkAP [4; 6] [6; 1] 0 true in
  let sl := [Some (0, 4, 2); Some (1, 6, 2)] in
  let b := mkAP [3; 4; 2] [2; 6; 1] 4 true in
  let sl' := [None; Some (2, 3, 1); Some (0, 2, 1)] in
  (length (str a) = length (shp a) /\ pos_shape (shp a) /\ Forall (fun k => 0 <= k) (str a)) /\
  any_axis slice_count_zero (shp a) sl = false /\ any_axis slice_neg_step (shp a) sl = false /\
  lead_floor (shp a) sl = false /\
  ap_S a 24 sl = Ok (mkAP [2; 3] [12; 2] 2 true, 1, 24) /\
  spec_axes (shp a) sl = Some [(0, 2, 2, false); (1, 3, 2, false)] /\
  map (fun c => 1 + dot [12; 2] c) (coords [2; 3])
  = map (fun c => dot (str a) (src_coord (shp a) sl c)) (coords [2; 3]) /\
  ap_S b 24 sl' = Ok (mkAP [3; 2] [2; 1] 6 true, 12, 18) /\
  extents 0 (shp b) sl' = [3; 1; 2] /\ expand [3; 1; 2] sl' [2; 1] = [2; 0; 1] /\
  map (fun c => 12 + dot [2; 1] c) (coords [3; 2])
  = map (fun c => dot (str b) (src_coord (shp b) sl' (expand [3; 1; 2] sl' c))) (coords [3; 2]).
Proof.
  cbv zeta. split; [split; [reflexivity|split; repeat constructor; lia]|].
  vm_compute. repeat split.
Qed.

(* a negative step on any axis is refused (utils.go SliceDetails since the repair ee30907) *)
Theorem C02_negative_step_refused : forall a len sl j sz st en sp,
  length (str a) = length (shp a) ->
  nth_error (shp a) j = Some sz -> nth_error sl j = Some (Some (st, en, sp)) -> sp < 0 ->
  ap_S a len sl = Err.
Proof. exact ap_S_negative_step_refused. Qed.
Print Assumptions C02_negative_step_refused.
