(* Extract.v — extraction of the executable MODEL and SPEC to OCaml for the correspondence
   driver.  ExtrOcamlBasic only (bool, option, list, prod, unit, sumbool -> OCaml's own);
   nat, positive, N, Z stay Coq datatypes.  No Extract Constant directives. *)
From Coq Require Import Extraction ExtrOcamlBasic.
From TV Require Import Base Index.
Extraction Language OCaml.
Extraction "model.ml"
  size dot rank_rm rank_cm unrank coords inboxb
  calc_strides calc_strides_cm ltoi itol unsafe_permute is_monotonic shape_eq
  slice_details at_index window_at window_setat.
