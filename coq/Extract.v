(* Extract.v — extraction of the executable MODEL and SPEC to OCaml for the correspondence
   driver.  ExtrOcamlBasic only (bool, option, list, prod, unit, sumbool -> OCaml's own);
   nat, positive, N, Z stay Coq datatypes.  No Extract Constant directives.
   Run coqc with the ocaml/ directory as working directory (files land in the cwd). *)
From Coq Require Import Extraction ExtrOcamlBasic.
From TV Require Import Base Index AP Iter Mult Mem Spec Guards Run Ops Reduce Shapeops Linalg Pool RunZ Serial Masked Native DotN.
Extraction Language OCaml.
Extraction "model.ml"
  size dot rank_rm rank_cm unrank coords inboxb
  is_rowvec is_colvec is_vector calc_strides calc_strides_cm ltoi itol unsafe_permute is_monotonic shape_eq
  slice_details at_index window_at window_setat
  ap_S shape_S ap_T broadcast_strides
  new_iter iter_next iter_reset iter_set_dir iter_all miter_next_validity miter_seek flat_next_valid flat_next_invalid
  new_mult mult_next mult_reset mult_set_dir mult_done hash_ints
  get_t is_materializable requires_iterator is_cm is_nc is_tr
  guard_op flag_soundb meta_inv_obs guard_slice
  zdot_nd zdot_nd_full zdot_nd_spec zdot_nd_spec_incr zdot_nd_spec_both dot_nd_dispatch dot_nd_reuse_plain
  step_model step_spec zstep_model zstep_spec zguard zreduce_axes_after
  empty_pstate pstep_T pstep_UT pstep_transpose p_slices obs_model inv_model obs_spec ntens_model ntens_spec empty_store empty_sstate
  shape_concat shape_repeat set_window logical
  window ser_model tv_logical tv_logical_mask tv_masked carries_mask print_shape parse_shape
  k_is_masked k_setmask k_reset k_mask_from_slice k_mask_from_dense with_soft k_masked pred_fn k_reduce k_runs k_edges k_clone k_filled k_filled_inplace
  k_transpose k_T k_slice k_materialize k_logical k_logical_mask k_validity k_binop k_binop_unsafe k_binop_reuse k_binop_incr z_within mt_len mt_size
  overlaps native_conv native_select to_mat64 spec_native spec_select spec_to_mat64
  ks_pred ks_count ks_noncount ks_any ks_all ks_reduce_axis ks_runs ks_edges ks_fill ks_validity ks_T_shape ks_T ks_slice.
