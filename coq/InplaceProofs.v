(* InplaceProofs.v — proofs about Inplace.v (build tag `inplacetranspose`): the cycle-following
   in-place transposition computes the same storage as the copying one (property C20).
     P1  cycle_loop / inplace_transpose correct for an abstract destination bijection
     P2  scatter_transpose has the same characterisation; the two functions agree
     P3  transpose_index is the bijection i |-> rank_rm newshape (permute axes (unrank oshape i))
     P4  the gather of the default build (Mem.m_transpose_d) writes the same list *)
From TV Require Import Base Index AP Iter Mem Spec Inplace IndexProofs IterProofs APProofs MemProofs.
From Coq Require Import ZifyBool Lia Permutation.

Arguments Z.mul : simpl never.
Arguments Z.add : simpl never.
Arguments Z.sub : simpl never.
Arguments Z.leb : simpl never.
Arguments Z.ltb : simpl never.
Arguments Z.eqb : simpl never.
Arguments Z.div : simpl never.
Arguments Z.modulo : simpl never.
Arguments Z.quot : simpl never.
Arguments Z.rem : simpl never.
Arguments Z.min : simpl never.
Arguments Z.of_nat : simpl never.
Arguments Z.to_nat : simpl never.

(* ====================================================================================== *)
(*  0. generic facts on Go slices                                                          *)
(* ====================================================================================== *)
Lemma zlen_upd {A} (l : list A) k v : zlen (upd l k v) = zlen l.
Proof. unfold zlen. rewrite upd_length. reflexivity. Qed.

Lemma zget_neg {A} (l : list A) j : j < 0 -> zget l j = None.
Proof. intro H. unfold zget. replace (j <? 0) with true by lia. reflexivity. Qed.

Lemma zset_some {A} (l : list A) i v : 0 <= i < zlen l ->
  exists l', zset l i v = Some l' /\ zlen l' = zlen l /\ zget l' i = Some v /\
             forall j, j <> i -> zget l' j = zget l j.
Proof.
  intro Hi. rewrite zset_spec by exact Hi. eexists. split; [reflexivity|].
  split; [apply zlen_upd|]. split.
  - rewrite zget_nth_error by lia. apply nth_error_upd_same. unfold zlen in Hi. lia.
  - intros j Hj. destruct (Z.ltb_spec j 0) as [Hneg|Hpos].
    + rewrite !zget_neg by exact Hneg. reflexivity.
    + rewrite !zget_nth_error by lia. apply nth_error_upd_other. lia.
Qed.

Lemma zget_bool_some (t : list bool) j : 0 <= j < zlen t -> zget t j = Some (znth false t j).
Proof. apply znth_zget. Qed.

Lemma list_ext_zget {A} (l l' : list A) n : zlen l = n -> zlen l' = n ->
  (forall j, 0 <= j < n -> zget l j = zget l' j) -> l = l'.
Proof.
  intros Hl Hl' H. apply nth_error_ext_eq. intro k. unfold zlen in *.
  destruct (Nat.lt_ge_cases k (length l)) as [Hk|Hk].
  - specialize (H (Z.of_nat k) ltac:(lia)). rewrite !zget_nth_error, Nat2Z.id in H by lia. exact H.
  - transitivity (@None A); [|symmetry]; apply nth_error_None; lia.
Qed.

(* number of unset bits of the bitmap *)
Fixpoint nfalse (t : list bool) : Z :=
  match t with [] => 0 | b :: r => (if b then 0 else 1) + nfalse r end.

Lemma nfalse_bounds t : 0 <= nfalse t <= zlen t.
Proof.
  induction t as [|b r IH]; unfold zlen in *; cbn [nfalse length]; [lia|].
  destruct b; lia.
Qed.

Lemma nfalse_upd : forall t k, nth_error t k = Some false -> nfalse (upd t k true) = nfalse t - 1.
Proof.
  induction t as [|b r IH]; intros [|k] H; cbn [nth_error] in H; try discriminate.
  - injection H as ->. cbn [upd nfalse]. lia.
  - cbn [upd nfalse]. rewrite (IH k H). lia.
Qed.

(* ====================================================================================== *)
(*  P1 / P2 — the cycle-following loop, for an abstract destination bijection             *)
(* ====================================================================================== *)
Section Cycle.
Variable V : Type.
Variable vzero : V.
Variable n : Z.
Variable f : Z -> Z.
Variable dest : Z -> option Z.
Variable orig : list V.
Hypothesis Hn : zlen orig = n.
Hypothesis Hdest : forall i, 0 <= i < n -> dest i = Some (f i).
Hypothesis Hrange : forall i, 0 <= i < n -> 0 <= f i < n.
Hypothesis Hinj : forall i j, 0 <= i < n -> 0 <= j < n -> f i = f j -> i = j.

Fixpoint fpow (k : nat) (x : Z) : Z :=
  match k with O => x | S k' => f (fpow k' x) end.

Lemma fpow_range k s : 0 <= s < n -> 0 <= fpow k s < n.
Proof. intro Hs. induction k as [|k IH]; cbn [fpow]; [exact Hs|apply Hrange, IH]. Qed.

Lemma fpow_back m d s : 0 <= s < n -> fpow (m + d) s = fpow m s -> fpow d s = s.
Proof.
  intro Hs. induction m as [|m IH]; cbn [plus fpow]; intro E; [exact E|].
  apply IH. apply Hinj; [apply fpow_range; exact Hs|apply fpow_range; exact Hs|exact E].
Qed.

Lemma T0_back (T0 : Z -> Prop) s :
  (forall j, 0 <= j < n -> T0 (f j) -> T0 j) -> 0 <= s < n -> ~ T0 s -> forall m, ~ T0 (fpow m s).
Proof.
  intros Hpre Hs Hns. induction m as [|m IH]; cbn [fpow]; [exact Hns|].
  intro H. apply IH. apply Hpre; [apply fpow_range; exact Hs|exact H].
Qed.

(* an injection of [0,n) into itself is onto (pigeonhole) *)
Lemma f_surj j : 0 <= j < n -> exists i, 0 <= i < n /\ f i = j.
Proof.
  intro Hj. set (N := Z.to_nat n).
  assert (Hnd : NoDup (map f (zseq 0 N))).
  { apply NoDup_map_on; [apply zseq_NoDup|]. intros x y Hx Hy E.
    apply zseq_In in Hx, Hy. apply Hinj; [lia|lia|exact E]. }
  assert (Hincl : incl (map f (zseq 0 N)) (zseq 0 N)).
  { intros y Hy. apply in_map_iff in Hy as (x & <- & Hx). apply zseq_In in Hx. apply zseq_In.
    pose proof (Hrange x ltac:(lia)). lia. }
  assert (Hle : (length (zseq 0 N) <= length (map f (zseq 0 N)))%nat) by (rewrite map_length; lia).
  pose proof (NoDup_length_incl Hnd Hle Hincl) as Hback.
  assert (Hin : In j (zseq 0 N)) by (apply zseq_In; lia).
  apply Hback in Hin. apply in_map_iff in Hin as (i & E & Hi). apply zseq_In in Hi.
  exists i. split; [lia|exact E].
Qed.

(* ---- the loop invariant ----
   T0 : the positions settled when the current cycle was opened (a union of whole cycles);
   s  : the start of the open cycle, k : the number of positions walked so far;
   the walked positions s, f s, .., f^(k-1) s are distinct and hold their final value, except s
   itself (it holds vzero until the cycle is closed); saved is the original value of f^(k-1) s. *)
Record Inv (T0 : Z -> Prop) (s : Z) (k : nat)
       (data : list V) (track : list bool) (saved : V) (i : Z) : Prop := {
  I_ld : zlen data = n;
  I_lt : zlen track = n;
  I_s : 0 <= s < n;
  I_i : i = fpow k s;
  I_below : forall j, 0 <= j < s -> zget track j = Some true;
  I_track : forall j, 0 <= j < n ->
      (zget track j = Some true <-> T0 j \/ exists m, (m < k)%nat /\ j = fpow m s);
  I_T0pre : forall j, 0 <= j < n -> T0 (f j) -> T0 j;
  I_T0s : ~ T0 s;
  I_nodup : forall m, (0 < m < k)%nat -> fpow m s <> s;
  I_final : forall j, 0 <= j < n -> zget track (f j) = Some true -> f j <> s ->
      zget data (f j) = zget orig j;
  I_unset : forall j, 0 <= j < n -> zget track j = Some false -> zget data j = zget orig j;
  I_saved : forall k', k = S k' -> Some saved = zget orig (fpow k' s)
}.

(* between two cycles: the settled set is closed under predecessors and holds final values *)
Record Closed (data : list V) (track : list bool) : Prop := {
  C_ld : zlen data = n;
  C_lt : zlen track = n;
  C_pre : forall j, 0 <= j < n -> zget track (f j) = Some true -> zget track j = Some true;
  C_final : forall j, 0 <= j < n -> zget track (f j) = Some true -> zget data (f j) = zget orig j;
  C_unset : forall j, 0 <= j < n -> zget track j = Some false -> zget data j = zget orig j
}.

(* branch "else": the walk moves one position along the cycle *)
Lemma step_walk T0 s k data track saved i :
  Inv T0 s k data track saved i -> zget track i = Some false ->
  exists tmp data' track',
    zget data i = Some tmp /\ zset data i saved = Some data' /\ zset track i true = Some track' /\
    Inv T0 s (S k) data' track' tmp (f i) /\ nfalse track' = nfalse track - 1.
Proof.
  intros HI Hti. destruct HI as [Hld Hlt Hs Hi Hbelow Htrack Hpre HT0s Hnodup Hfinal Hunset Hsaved].
  assert (Hir : 0 <= i < n) by (rewrite Hi; apply fpow_range; exact Hs).
  destruct (zget_some data i ltac:(lia)) as [tmp Htmp].
  destruct (zset_some data i saved ltac:(lia)) as (data' & Hset & Hld' & Hsame & Hother).
  destruct (zset_some track i true ltac:(lia)) as (track' & Hsett & Hlt' & Hsamet & Hothert).
  exists tmp, data', track'. split; [exact Htmp|]. split; [exact Hset|]. split; [exact Hsett|].
  split.
  - constructor.
    + lia.
    + lia.
    + exact Hs.
    + cbn [fpow]. rewrite <- Hi. reflexivity.
    + intros j Hj. destruct (Z.eq_dec j i) as [->|Hne]; [exact Hsamet|].
      rewrite Hothert by exact Hne. apply Hbelow. exact Hj.
    + intros j Hj. destruct (Z.eq_dec j i) as [->|Hne].
      * split; [|intros _; exact Hsamet]. intros _. right. exists k. split; [lia|exact Hi].
      * rewrite Hothert by exact Hne. rewrite (Htrack j Hj). split.
        -- intros [H|(m & Hm & E)]; [left; exact H|]. right. exists m. split; [lia|exact E].
        -- intros [H|(m & Hm & E)]; [left; exact H|]. right. exists m. split; [|exact E].
           assert (m <> k) by (intro; subst m; congruence). lia.
    + exact Hpre.
    + exact HT0s.
    + intros m Hm. destruct (Nat.eq_dec m k) as [->|Hne]; [|apply Hnodup; lia].
      intro E. rewrite <- Hi in E. subst i.
      assert (Hts : zget track s = Some true).
      { apply (Htrack s Hs). right. exists 0%nat. split; [lia|reflexivity]. }
      congruence.
    + intros j Hj Htj Hne. destruct (Z.eq_dec (f j) i) as [E|Hne'].
      * rewrite E, Hsame. destruct k as [|k'].
        -- cbn [fpow] in Hi. congruence.
        -- rewrite (Hsaved k' eq_refl). f_equal.
           apply Hinj; [apply fpow_range; exact Hs|exact Hj|].
           cbn [fpow] in Hi. congruence.
      * rewrite Hother by exact Hne'. rewrite Hothert in Htj by exact Hne'.
        apply Hfinal; assumption.
    + intros j Hj Htj. destruct (Z.eq_dec j i) as [->|Hne]; [congruence|].
      rewrite Hother by exact Hne. rewrite Hothert in Htj by exact Hne. apply Hunset; assumption.
    + intros k' Hk'. injection Hk' as <-. rewrite <- Hi, <- Htmp. apply Hunset; assumption.
  - rewrite zset_spec in Hsett by lia. injection Hsett as <-.
    apply nfalse_upd. rewrite zget_nth_error in Hti by lia. exact Hti.
Qed.

(* branch "if track.IsSet(i) && track.IsSet(dest)": the walk is back at the start *)
Lemma step_close T0 s k data track saved i :
  Inv T0 s k data track saved i -> zget track i = Some true ->
  i = s /\ k <> 0%nat /\ zget track (f i) = Some true /\
  exists data', zset data i saved = Some data' /\ Closed data' track /\
                forall j, 0 <= j <= s -> zget track j = Some true.
Proof.
  intros HI Hti. destruct HI as [Hld Hlt Hs Hi Hbelow Htrack Hpre HT0s Hnodup Hfinal Hunset Hsaved].
  assert (Hir : 0 <= i < n) by (rewrite Hi; apply fpow_range; exact Hs).
  assert (Hback : fpow k s = s /\ k <> 0%nat).
  { apply (Htrack i Hir) in Hti. destruct Hti as [H|(m & Hm & E)].
    - exfalso. rewrite Hi in H. exact (T0_back T0 s Hpre Hs HT0s k H).
    - rewrite Hi in E. replace k with (m + (k - m))%nat in E at 1 by lia.
      apply fpow_back in E; [|exact Hs].
      destruct (Nat.eq_dec m 0) as [->|Hm0].
      + rewrite Nat.sub_0_r in E. split; [exact E|lia].
      + exfalso. apply (Hnodup (k - m)%nat); [lia|exact E]. }
  destruct Hback as [Hks Hk0]. rewrite Hks in Hi. subst i.
  split; [reflexivity|]. split; [exact Hk0|].
  destruct k as [|k']; [congruence|]. clear Hk0.
  assert (Hpred : forall j, 0 <= j < n -> f j = s -> j = fpow k' s).
  { intros j Hj E. apply Hinj; [exact Hj|apply fpow_range; exact Hs|].
    cbn [fpow] in Hks. congruence. }
  split.
  { destruct k' as [|k''].
    - cbn [fpow] in Hks. rewrite Hks. exact Hti.
    - apply (Htrack (f s) (Hrange s Hs)). right. exists 1%nat. split; [lia|reflexivity]. }
  destruct (zset_some data s saved ltac:(lia)) as (data' & Hset & Hld' & Hsame & Hother).
  exists data'. split; [exact Hset|]. split.
  - constructor.
    + lia.
    + exact Hlt.
    + intros j Hj Htj. apply (Htrack j Hj).
      apply (Htrack (f j) (Hrange j Hj)) in Htj. destruct Htj as [H|(m & Hm & E)].
      * left. apply Hpre; assumption.
      * right. destruct m as [|m'].
        -- cbn [fpow] in E. exists k'. split; [lia|apply Hpred; assumption].
        -- cbn [fpow] in E. exists m'. split; [lia|].
           apply Hinj; [exact Hj|apply fpow_range; exact Hs|exact E].
    + intros j Hj Htj. destruct (Z.eq_dec (f j) s) as [E|Hne].
      * rewrite E, Hsame, (Hsaved k' eq_refl). f_equal. symmetry. apply Hpred; assumption.
      * rewrite Hother by exact Hne. apply Hfinal; assumption.
    + intros j Hj Htj. assert (j <> s) by congruence.
      rewrite Hother by assumption. apply Hunset; assumption.
  - intros j Hj. destruct (Z.eq_dec j s) as [->|Hne]; [exact Hti|]. apply Hbelow. lia.
Qed.

Lemma closed_open data track i' :
  Closed data track -> 0 <= i' < n -> (forall j, 0 <= j < i' -> zget track j = Some true) ->
  zget track i' = Some false ->
  Inv (fun j => zget track j = Some true) i' 0 data track vzero i'.
Proof.
  intros [Hld Hlt Hpre Hfinal Hunset] Hi' Hbelow Hti'. constructor; try assumption.
  - reflexivity.
  - intros j Hj. split; [intro H; left; exact H|]. intros [H|(m & Hm & _)]; [exact H|lia].
  - congruence.
  - intros m Hm. lia.
  - intros j Hj Htj _. apply Hfinal; assumption.
  - intros k' Hk'. discriminate.
Qed.

(* the inner "for i < size && track.IsSet(i) { i++ }" stops at the first unset position *)
Lemma skip_set_spec track : zlen track = n -> forall fuel i, 0 <= i -> n <= i + Z.of_nat fuel ->
  i <= skip_set fuel track n i /\
  (forall j, i <= j < skip_set fuel track n i -> zget track j = Some true) /\
  (skip_set fuel track n i < n -> zget track (skip_set fuel track n i) = Some false).
Proof.
  intro Hlt. induction fuel as [|fuel IH]; intros i Hi Hfuel; cbn [skip_set].
  - split; [lia|]. split; [intros j Hj; lia|intro H; lia].
  - destruct ((i <? n) && znth false track i) eqn:E.
    + apply andb_true_iff in E as [E1 E2].
      destruct (IH (i + 1) ltac:(lia) ltac:(lia)) as (H1 & H2 & H3).
      split; [lia|]. split; [|exact H3].
      intros j Hj. destruct (Z.eq_dec j i) as [->|Hne]; [|apply H2; lia].
      rewrite zget_bool_some by lia. rewrite E2. reflexivity.
    + split; [lia|]. split; [intros j Hj; lia|]. intro Hlt'.
      rewrite zget_bool_some by lia. f_equal.
      apply andb_false_iff in E as [E|E]; [lia|exact E].
Qed.

(* correctness and termination of the main loop: one unit of fuel per pass; the measure is
   twice the number of unset bits, plus one while a cycle with at least one walked position is
   open *)
Lemma cycle_loop_correct : forall fuel T0 s k data track saved i,
  Inv T0 s k data track saved i ->
  2 * nfalse track + (match k with O => 0 | S _ => 1 end) + 1 <= Z.of_nat fuel ->
  exists out, cycle_loop V vzero fuel dest n data track saved i = Some out /\ zlen out = n /\
              forall j, 0 <= j < n -> zget out (f j) = zget orig j.
Proof.
  induction fuel as [|fuel IH]; intros T0 s k data track saved i HI Hfuel.
  - pose proof (nfalse_bounds track). destruct k; lia.
  - pose proof HI as [Hld Hlt Hs Hi _ _ _ _ _ _ _ _].
    assert (Hir : 0 <= i < n) by (rewrite Hi; apply fpow_range; exact Hs).
    cbn [cycle_loop]. rewrite (Hdest i Hir).
    rewrite (zget_bool_some track i) by lia.
    rewrite (zget_bool_some track (f i)) by (pose proof (Hrange i Hir); lia).
    destruct (znth false track i) eqn:Eti.
    + (* back at the start of the cycle *)
      assert (Hti : zget track i = Some true) by (rewrite zget_bool_some by lia; congruence).
      destruct (step_close T0 s k data track saved i HI Hti)
        as (His & Hk0 & Htd & data' & Hset & HC & Hle).
      rewrite zget_bool_some in Htd by (pose proof (Hrange i Hir); lia).
      injection Htd as ->. cbn [andb]. rewrite Hset.
      destruct (skip_set_spec track Hlt (Z.to_nat n) i ltac:(lia) ltac:(lia)) as (S1 & S2 & S3).
      set (i' := skip_set (Z.to_nat n) track n i) in *.
      assert (Hall : forall j, 0 <= j < i' -> zget track j = Some true).
      { intros j Hj. destruct (Z.le_gt_cases j s); [apply Hle; lia|apply S2; lia]. }
      destruct (n <=? i') eqn:Ee.
      * exists data'. split; [reflexivity|]. destruct HC as [Cld Clt Cpre Cfinal Cunset].
        split; [exact Cld|]. intros j Hj. apply Cfinal; [exact Hj|].
        apply Hall. pose proof (Hrange j Hj). lia.
      * assert (Hi' : 0 <= i' < n) by lia.
        apply (IH (fun j => zget track j = Some true) i' 0%nat).
        -- apply closed_open; [exact HC|exact Hi'|exact Hall|apply S3; lia].
        -- destruct k; [congruence|]. lia.
    + (* walking *)
      assert (Hti : zget track i = Some false) by (rewrite zget_bool_some by lia; congruence).
      destruct (step_walk T0 s k data track saved i HI Hti)
        as (tmp & data' & track' & Htmp & Hset & Hsett & HI' & Hnf).
      cbn [andb]. rewrite Htmp, Hset, Hsett.
      apply (IH T0 s (S k)); [exact HI'|]. rewrite Hnf. destruct k; lia.
Qed.

Hypothesis Hn4 : 4 <= n.
Hypothesis Hf0 : f 0 = 0.
Hypothesis Hfl : f (n - 1) = n - 1.

Definition track0 : list bool := map (fun k => (k =? 0) || (k =? n - 1)) (zseq 0 (length orig)).

Lemma track0_len : zlen track0 = n.
Proof. unfold track0, zlen. rewrite map_length, zseq_length. exact Hn. Qed.

Lemma track0_get j : 0 <= j < n -> zget track0 j = Some ((j =? 0) || (j =? n - 1)).
Proof.
  intro Hj. unfold track0. rewrite zget_nth_error by lia. unfold zlen in Hn.
  rewrite nth_error_map, zseq_nth_error by lia. cbn [option_map]. do 3 f_equal; lia.
Qed.

Lemma inv_init : Inv (fun j => j = 0 \/ j = n - 1) 1 0 orig track0 vzero 1.
Proof.
  constructor.
  - exact Hn.
  - exact track0_len.
  - lia.
  - reflexivity.
  - intros j Hj. rewrite track0_get by lia. f_equal. lia.
  - intros j Hj. rewrite track0_get by lia. split.
    + intro H. injection H as H. left. lia.
    + intros [H|(m & Hm & _)]; [f_equal; lia|lia].
  - intros j Hj [H|H].
    + left. apply Hinj; [exact Hj|lia|congruence].
    + right. apply Hinj; [exact Hj|lia|congruence].
  - lia.
  - intros m Hm. lia.
  - intros j Hj Htj _. rewrite track0_get in Htj by (apply Hrange; exact Hj).
    injection Htj as Htj. f_equal.
    destruct (Z.eq_dec (f j) 0) as [E|E].
    + rewrite E. symmetry. apply Hinj; [exact Hj|lia|congruence].
    + assert (E' : f j = n - 1) by lia. rewrite E'. symmetry.
      apply Hinj; [exact Hj|lia|congruence].
  - intros j Hj _. reflexivity.
  - intros k' Hk'. discriminate.
Qed.

Theorem inplace_transpose_correct_f :
  exists out, inplace_transpose V vzero dest orig = Some out /\ zlen out = n /\
              forall i, 0 <= i < n -> zget out (f i) = zget orig i.
Proof.
  unfold inplace_transpose. rewrite Hn. replace (n <? 4) with false by lia.
  apply (cycle_loop_correct _ (fun j => j = 0 \/ j = n - 1) 1 0%nat); [exact inv_init|].
  pose proof (nfalse_bounds track0) as Hb. rewrite track0_len in Hb. unfold zlen in Hn.
  unfold track0 in Hb. cbv beta iota. lia.
Qed.

(* ---- P2: the copying reference ---- *)
Lemma scatter_fold : forall k a acc, 0 <= a -> a + Z.of_nat k = n -> zlen acc = n ->
  (forall i, 0 <= i < a -> zget acc (f i) = zget orig i) ->
  exists out,
    fold_left (fun acc i =>
                 match acc, dest i, zget orig i with
                 | Some out, Some d, Some v => zset out d v
                 | _, _, _ => None
                 end) (zseq a k) (Some acc) = Some out /\
    zlen out = n /\ forall i, 0 <= i < n -> zget out (f i) = zget orig i.
Proof.
  induction k as [|k IH]; intros a acc Ha Hak Hlen Hacc; cbn [zseq fold_left].
  - exists acc. split; [reflexivity|]. split; [exact Hlen|]. intros i Hi. apply Hacc. lia.
  - assert (Har : 0 <= a < n) by lia.
    rewrite (Hdest a Har). destruct (zget_some orig a ltac:(lia)) as [v Hv]. rewrite Hv.
    pose proof (Hrange a Har) as Hfa.
    destruct (zset_some acc (f a) v ltac:(lia)) as (acc' & Hset & Hlen' & Hsame & Hother).
    rewrite Hset. apply IH; [lia|lia|lia|].
    intros i Hi. destruct (Z.eq_dec i a) as [->|Hne]; [congruence|].
    rewrite Hother; [apply Hacc; lia|]. intro E. apply Hne. apply Hinj; [lia|lia|exact E].
Qed.

Theorem scatter_transpose_correct_f :
  exists out, scatter_transpose V dest orig = Some out /\ zlen out = n /\
              forall i, 0 <= i < n -> zget out (f i) = zget orig i.
Proof.
  unfold scatter_transpose. apply scatter_fold; [lia|unfold zlen in Hn; lia|exact Hn|].
  intros i Hi. lia.
Qed.

(* a list of length n is determined by its values at the positions f i *)
Lemma determined_by_f (l l' : list V) : zlen l = n -> zlen l' = n ->
  (forall i, 0 <= i < n -> zget l (f i) = zget l' (f i)) -> l = l'.
Proof.
  intros Hl Hl' H. apply (list_ext_zget l l' n Hl Hl'). intros j Hj.
  destruct (f_surj j Hj) as (i & Hi & <-). apply H. exact Hi.
Qed.

Theorem inplace_eq_scatter_f :
  inplace_transpose V vzero dest orig = scatter_transpose V dest orig.
Proof.
  destruct inplace_transpose_correct_f as (o1 & E1 & L1 & G1).
  destruct scatter_transpose_correct_f as (o2 & E2 & L2 & G2).
  rewrite E1, E2. f_equal. apply determined_by_f; [exact L1|exact L2|].
  intros i Hi. rewrite G1, G2 by exact Hi. reflexivity.
Qed.

End Cycle.

(* ---- P1 / P2 in closed form ---- *)
(* dest is, on [0, zlen data), an injection f of the interval into itself that fixes both ends *)
Definition perm_dest {V} (data : list V) (dest : Z -> option Z) (f : Z -> Z) : Prop :=
  (forall i, 0 <= i < zlen data -> dest i = Some (f i)) /\
  (forall i, 0 <= i < zlen data -> 0 <= f i < zlen data) /\
  (forall i j, 0 <= i < zlen data -> 0 <= j < zlen data -> f i = f j -> i = j).

Theorem inplace_transpose_correct (V : Type) (vzero : V) dest (data : list V) f :
  4 <= zlen data -> perm_dest data dest f -> f 0 = 0 -> f (zlen data - 1) = zlen data - 1 ->
  exists out, inplace_transpose V vzero dest data = Some out /\ zlen out = zlen data /\
              forall i, 0 <= i < zlen data -> zget out (f i) = zget data i.
Proof.
  intros H4 (Hd & Hr & Hi) H0 Hl.
  exact (inplace_transpose_correct_f V vzero (zlen data) f dest data eq_refl Hd Hr Hi H4 H0 Hl).
Qed.

Theorem scatter_transpose_spec (V : Type) dest (data : list V) f :
  perm_dest data dest f ->
  exists out, scatter_transpose V dest data = Some out /\ zlen out = zlen data /\
              forall i, 0 <= i < zlen data -> zget out (f i) = zget data i.
Proof.
  intros (Hd & Hr & Hi).
  exact (scatter_transpose_correct_f V (zlen data) f dest data eq_refl Hd Hr Hi).
Qed.

Theorem inplace_eq_scatter (V : Type) (vzero : V) dest (data : list V) f :
  4 <= zlen data -> perm_dest data dest f -> f 0 = 0 -> f (zlen data - 1) = zlen data - 1 ->
  inplace_transpose V vzero dest data = scatter_transpose V dest data.
Proof.
  intros H4 (Hd & Hr & Hi) H0 Hl.
  exact (inplace_eq_scatter_f V vzero (zlen data) f dest data eq_refl Hd Hr Hi H4 H0 Hl).
Qed.

(* fewer than 4 elements: the in-place build does nothing; this agrees with the copying build
   exactly when the destination map is the identity *)
Lemma inplace_small (V : Type) (vzero : V) dest (data : list V) :
  zlen data < 4 -> inplace_transpose V vzero dest data = Some data.
Proof. intro H. unfold inplace_transpose. replace (zlen data <? 4) with true by lia. reflexivity. Qed.

Lemma scatter_identity (V : Type) dest (data : list V) :
  (forall i, 0 <= i < zlen data -> dest i = Some i) -> scatter_transpose V dest data = Some data.
Proof.
  intro Hd.
  destruct (scatter_transpose_spec V dest data (fun i => i)) as (out & E & L & G).
  { split; [exact Hd|]. split; intros; lia. }
  rewrite E. f_equal. apply (list_ext_zget out data (zlen data) L eq_refl). exact G.
Qed.

(* ====================================================================================== *)
(*  P3 — Dense.transposeIndex                                                              *)
(* ====================================================================================== *)
(* Itol over the default strides is unrank (Go's truncated division agrees with the floor
   division on the non-negative operands that occur) *)
Lemma itol_loop_unrank : forall s i bad, pos_shape s -> 0 <= i < size s ->
  itol_loop i s (calc_strides s) bad = Ok (unrank s i, bad).
Proof.
  induction s as [|d s IH]; intros i bad Hp Hi; cbn [calc_strides itol_loop unrank]; [reflexivity|].
  inversion Hp as [|? ? Hd Hs]; subst. pose proof (size_pos s Hs) as Hsz.
  cbn [size] in Hi.
  replace (size s =? 0) with false by lia. unfold divmod.
  rewrite Z.quot_div_nonneg, Z.rem_mod_nonneg by lia.
  assert (Hq : 0 <= i / size s < d).
  { split; [apply Z.div_pos; lia|apply Z.div_lt_upper_bound; lia]. }
  pose proof (Z.mod_pos_bound i (size s) ltac:(lia)) as Hm.
  rewrite (IH (i mod size s) (bad || (d <=? i / size s)) Hs Hm).
  replace (d <=? i / size s) with false by lia. rewrite orb_false_r. reflexivity.
Qed.

Lemma itol_unrank s i : pos_shape s -> 0 <= i < size s ->
  itol i s (calc_strides s) = Ok (unrank s i, false).
Proof. intros Hp Hi. unfold itol. apply itol_loop_unrank; assumption. Qed.

(* the inner loop of transposeIndex, named *)
Fixpoint tgo (oc axes strides : list Z) (acc : Z) : option Z :=
  match axes, strides with
  | [], _ => Some acc
  | ax :: axes', st :: strides' =>
    match zget oc ax with Some c => tgo oc axes' strides' (acc + c * st) | None => None end
  | _ :: _, [] => None
  end.

Lemma transpose_index_go oshape ostrides axes expStrides i oc :
  itol i oshape ostrides = Ok (oc, false) ->
  transpose_index oshape ostrides axes expStrides i = tgo oc axes expStrides 0.
Proof.
  intro H. unfold transpose_index. rewrite H. cbv beta iota zeta.
  generalize 0 as acc. revert expStrides.
  induction axes as [|ax axes IH]; intros [|st strides] acc; cbn [tgo]; try reflexivity.
  destruct (zget oc ax) as [c|]; [apply IH|reflexivity].
Qed.

Lemma tgo_spec oc : forall axes strides acc, length strides = length axes ->
  (forall a, In a axes -> 0 <= a < zlen oc) ->
  tgo oc axes strides acc = Some (acc + dot strides (permute 0 axes oc)).
Proof.
  induction axes as [|ax axes IH]; intros [|st strides] acc Hl Hin; cbn [length] in Hl;
    try discriminate; cbn [tgo permute map dot].
  - f_equal. lia.
  - rewrite (znth_zget 0 oc ax) by (apply Hin; left; reflexivity).
    fold (permute 0 axes oc).
    rewrite IH; [|lia|intros a Ha; apply Hin; right; exact Ha]. f_equal. lia.
Qed.

Lemma size_perm l l' : Permutation l l' -> size l = size l'.
Proof. induction 1; cbn [size]; try congruence. ring. Qed.

Lemma map_eq_In {A B} (g h : A -> B) : forall l, map g l = map h l -> forall a, In a l -> g a = h a.
Proof.
  induction l as [|x l IH]; intros E a Ha; cbn in *; [tauto|]. injection E as E1 E2.
  destruct Ha as [<-|Ha]; [exact E1|apply IH; assumption].
Qed.

Lemma znth_map {A B} (dA : A) (dB : B) (g : A -> B) l a : 0 <= a < zlen l ->
  znth dB (map g l) a = g (znth dA l a).
Proof.
  intro Ha. apply zget_znth. rewrite zget_nth_error by lia. rewrite nth_error_map.
  pose proof (znth_zget dA l a Ha) as G. rewrite zget_nth_error in G by lia. rewrite G. reflexivity.
Qed.

Lemma unrank_zero s : pos_shape s -> unrank s 0 = map (fun _ => 0) s.
Proof.
  induction 1 as [|d s Hd Hs IH]; cbn [unrank map]; [reflexivity|].
  pose proof (size_pos s Hs). rewrite Z.div_0_l, Z.mod_0_l by lia. rewrite IH. reflexivity.
Qed.

Lemma unrank_last s : pos_shape s -> unrank s (size s - 1) = map (fun d => d - 1) s.
Proof.
  induction 1 as [|d s Hd Hs IH]; cbn [unrank map size]; [reflexivity|].
  pose proof (size_pos s Hs) as Hsz.
  assert (Hq : (d * size s - 1) / size s = d - 1).
  { symmetry. apply Z.div_unique with (r := size s - 1); lia. }
  assert (Hm : (d * size s - 1) mod size s = size s - 1).
  { symmetry. apply Z.mod_unique with (q := d - 1); lia. }
  rewrite Hq, Hm, IH. reflexivity.
Qed.

Section TransposeIndex.
Variable oshape axes : list Z.
Hypothesis Hpos : pos_shape oshape.
Hypothesis Hperm : is_permb axes (length oshape) = true.

Let newshape := permute 0 axes oshape.

(* where element i of the old layout goes *)
Definition tdest (i : Z) : Z := rank_rm newshape (permute 0 axes (unrank oshape i)).

Lemma axes_len : length axes = length oshape.
Proof. destruct (is_permb_spec _ _ Hperm) as (Hl & _). exact Hl. Qed.

Lemma axes_range a : In a axes -> 0 <= a < Z.of_nat (length oshape).
Proof. destruct (is_permb_spec _ _ Hperm) as (_ & _ & Hin). apply Hin. Qed.

Lemma newshape_len : length newshape = length oshape.
Proof. unfold newshape. rewrite permute_length. exact axes_len. Qed.

Lemma newshape_pos : pos_shape newshape.
Proof. apply (Forall_permute _ axes (length oshape)); [exact Hperm|reflexivity|exact Hpos]. Qed.

Lemma permute_Permutation (l : list Z) : length l = length oshape -> Permutation (permute 0 axes l) l.
Proof.
  intro Hl. unfold permute.
  eapply Permutation_trans; [apply Permutation_map, (perm_permutation axes (length oshape) Hperm)|].
  rewrite (list_as_map' 0 l (length oshape) Hl). apply Permutation_refl.
Qed.

Lemma newshape_size : size newshape = size oshape.
Proof. apply size_perm, permute_Permutation. reflexivity. Qed.

Lemma permute_inj c1 c2 : length c1 = length oshape -> length c2 = length oshape ->
  permute 0 axes c1 = permute 0 axes c2 -> c1 = c2.
Proof.
  intros H1 H2 E. rewrite <- (list_as_map' 0 c1 _ H1), <- (list_as_map' 0 c2 _ H2).
  apply map_ext_in. intros a Ha. apply zseq_In in Ha.
  apply (map_eq_In _ _ axes E).
  destruct (is_permb_spec _ _ Hperm) as (_ & _ & Hin). apply Hin. lia.
Qed.

Lemma permuted_inbox c : inbox oshape c -> inbox newshape (permute 0 axes c).
Proof.
  intro Hc. apply (inbox_permute axes (length oshape) Hperm); [reflexivity| |exact Hc].
  apply inbox_length. exact Hc.
Qed.

Lemma tdest_range i : 0 <= i < size oshape -> 0 <= tdest i < size oshape.
Proof.
  intro Hi. rewrite <- newshape_size. apply rank_rm_bound; [exact newshape_pos|].
  apply permuted_inbox, unrank_inbox; assumption.
Qed.

Lemma tdest_inj i j : 0 <= i < size oshape -> 0 <= j < size oshape -> tdest i = tdest j -> i = j.
Proof.
  intros Hi Hj E. unfold tdest in E.
  pose proof (unrank_inbox oshape i Hpos Hi) as Bi. pose proof (unrank_inbox oshape j Hpos Hj) as Bj.
  apply rank_rm_inj in E; [|exact newshape_pos|apply permuted_inbox; exact Bi|apply permuted_inbox; exact Bj].
  apply permute_inj in E; [|apply inbox_length; exact Bi|apply inbox_length; exact Bj].
  rewrite <- (rank_unrank oshape i Hpos Hi), <- (rank_unrank oshape j Hpos Hj), E. reflexivity.
Qed.

Lemma tdest_coord c : inbox oshape c -> tdest (rank_rm oshape c) = rank_rm newshape (permute 0 axes c).
Proof. intro Hc. unfold tdest. rewrite unrank_rank by assumption. reflexivity. Qed.

Lemma tdest_first : tdest 0 = 0.
Proof.
  unfold tdest. rewrite unrank_zero by exact Hpos.
  assert (E : permute 0 axes (map (fun _ => 0) oshape) = map (fun _ => 0) axes).
  { unfold permute. apply map_ext. intro a. unfold znth.
    destruct (zget (map (fun _ : Z => 0) oshape) a) as [z|] eqn:G; [|reflexivity].
    apply zget_In, in_map_iff in G as (x & <- & _). reflexivity. }
  rewrite E. rewrite <- dot_calc_strides_rank by (rewrite map_length, newshape_len; exact axes_len).
  apply dot_zeros.
Qed.

Lemma tdest_last : tdest (size oshape - 1) = size oshape - 1.
Proof.
  unfold tdest. rewrite unrank_last by exact Hpos.
  assert (E : permute 0 axes (map (fun d => d - 1) oshape) = map (fun d => d - 1) newshape).
  { unfold newshape, permute. rewrite map_map. apply map_ext_in. intros a Ha.
    apply (znth_map 0 0). unfold zlen. apply axes_range. exact Ha. }
  rewrite E, <- (unrank_last newshape newshape_pos).
  pose proof (size_pos _ newshape_pos).
  rewrite rank_unrank by (try exact newshape_pos; lia). rewrite newshape_size. reflexivity.
Qed.

Theorem transpose_index_spec i : 0 <= i < size oshape ->
  transpose_index oshape (calc_strides oshape) axes (calc_strides newshape) i = Some (tdest i).
Proof.
  intro Hi. rewrite (transpose_index_go _ _ _ _ _ _ (itol_unrank oshape i Hpos Hi)).
  pose proof (unrank_inbox oshape i Hpos Hi) as Bi. pose proof (inbox_length _ _ Bi) as Li.
  rewrite tgo_spec.
  - f_equal. unfold tdest. rewrite <- dot_calc_strides_rank; [lia|].
    rewrite permute_length, newshape_len. exact axes_len.
  - rewrite calc_strides_length, newshape_len. symmetry. exact axes_len.
  - intros a Ha. unfold zlen. rewrite Li. apply axes_range. exact Ha.
Qed.

Lemma tdest_perm_dest {V} (data : list V) : zlen data = size oshape ->
  perm_dest data (transpose_index oshape (calc_strides oshape) axes (calc_strides newshape)) tdest.
Proof.
  intro Hl. unfold perm_dest. rewrite Hl. split; [exact transpose_index_spec|].
  split; [exact tdest_range|exact tdest_inj].
Qed.

(* fewer than 4 elements: at most one axis is longer than 1, every transposition is the identity *)
Lemma small_rk_sum : forall s c, pos_shape s -> size s < 4 -> inbox s c -> rk s c = sumz c.
Proof.
  induction s as [|d s IH]; intros [|x c] Hp Hs Hb; cbn [inbox] in Hb; try tauto; cbn [rk sumz];
    try reflexivity.
  inversion Hp as [|? ? Hd Hps]; subst. cbn [size] in Hs. destruct Hb as [Hx Hb].
  pose proof (size_pos s Hps) as Hsz.
  rewrite (IH c Hps ltac:(nia) Hb).
  assert (Hc : d = 1 \/ size s = 1) by nia.
  destruct Hc as [Hc|Hc]; rewrite Hc in *; [assert (x = 0) by lia; subst x|]; lia.
Qed.

Theorem small_transpose_identity i : size oshape < 4 -> 0 <= i < size oshape -> tdest i = i.
Proof.
  intros Hs Hi. unfold tdest.
  pose proof (unrank_inbox oshape i Hpos Hi) as Bi. pose proof (inbox_length _ _ Bi) as Li.
  pose proof (permuted_inbox _ Bi) as Bp.
  rewrite rank_rm_rk by (apply inbox_length; exact Bp).
  rewrite small_rk_sum; [|exact newshape_pos|rewrite newshape_size; exact Hs|exact Bp].
  rewrite (sumz_perm _ _ (permute_Permutation _ Li)).
  rewrite <- (small_rk_sum oshape); [|exact Hpos|exact Hs|exact Bi].
  apply rk_unrank; assumption.
Qed.

Section WithData.
Variable V : Type.
Variable vzero : V.
Variable data : list V.
Hypothesis Hlen : zlen data = size oshape.

Let tix := transpose_index oshape (calc_strides oshape) axes (calc_strides newshape).

(* both builds, for every size (the `< 4 elements` early return included) *)
Theorem inplace_transpose_tdest :
  exists out, inplace_transpose V vzero tix data = Some out /\ zlen out = size oshape /\
              forall i, 0 <= i < size oshape -> zget out (tdest i) = zget data i.
Proof.
  destruct (Z.lt_ge_cases (zlen data) 4) as [Hs|Hs].
  - exists data. split; [apply inplace_small; exact Hs|]. split; [exact Hlen|].
    intros i Hi. rewrite small_transpose_identity; [reflexivity|lia|exact Hi].
  - rewrite <- Hlen.
    apply inplace_transpose_correct; [exact Hs|apply tdest_perm_dest; exact Hlen|exact tdest_first|].
    rewrite Hlen. exact tdest_last.
Qed.

Theorem inplace_eq_scatter_transpose :
  inplace_transpose V vzero tix data = scatter_transpose V tix data.
Proof.
  destruct (Z.lt_ge_cases (zlen data) 4) as [Hs|Hs].
  - rewrite inplace_small by exact Hs. symmetry. apply scatter_identity.
    intros i Hi. unfold tix. rewrite transpose_index_spec by lia. f_equal.
    apply small_transpose_identity; lia.
  - apply (inplace_eq_scatter V vzero tix data tdest Hs (tdest_perm_dest data Hlen) tdest_first).
    rewrite Hlen. exact tdest_last.
Qed.

(* the element of coordinate c ends up at the row-major rank of the permuted coordinate in the
   new shape *)
Theorem inplace_transpose_is_permuted :
  exists out, inplace_transpose V vzero tix data = Some out /\ zlen out = size oshape /\
    forall c, inbox oshape c ->
      zget out (rank_rm newshape (permute 0 axes c)) = zget data (rank_rm oshape c).
Proof.
  destruct inplace_transpose_tdest as (out & E & L & G). exists out. split; [exact E|].
  split; [exact L|]. intros c Hc. rewrite <- tdest_coord by exact Hc.
  apply G. apply rank_rm_bound; assumption.
Qed.

End WithData.
End TransposeIndex.

(* ====================================================================================== *)
(*  P4 — the default (copying) build gathers the same list                                 *)
(* ====================================================================================== *)
(* tmp[j] = data[idx[j]]: the gather of defaultengine_matop_transpose.go on a plain list *)
Fixpoint gather {V} (data : list V) (idx : list Z) : option (list V) :=
  match idx with
  | [] => Some []
  | i :: r => match zget data i, gather data r with
              | Some v, Some l => Some (v :: l)
              | _, _ => None
              end
  end.

Lemma gather_eq {V} (data : list V) : forall idx out, length out = length idx ->
  (forall k j, nth_error idx k = Some j -> zget data j = nth_error out k) ->
  gather data idx = Some out.
Proof.
  induction idx as [|j idx IH]; intros [|v out] Hl H; cbn [length] in Hl; try discriminate;
    cbn [gather]; [reflexivity|].
  rewrite (H 0%nat j eq_refl). cbn [nth_error].
  rewrite (IH out); [reflexivity|lia|]. intros k j' Hk. exact (H (S k) j' Hk).
Qed.

Section Copying.
Variable oshape axes : list Z.
Hypothesis Hpos : pos_shape oshape.
Hypothesis Hperm : is_permb axes (length oshape) = true.
Variable V : Type.
Variable vzero : V.

Let newshape := permute 0 axes oshape.
Let newstrides := permute 0 axes (calc_strides oshape).
Let tix := transpose_index oshape (calc_strides oshape) axes (calc_strides newshape).

(* position k of the in-place result holds the element that the transposed access pattern
   (shape newshape, strides newstrides) addresses at its k-th coordinate *)
Lemma inplace_out_gather (data out : list V) : zlen data = size oshape ->
  inplace_transpose V vzero tix data = Some out ->
  zlen out = size oshape /\
  forall k, 0 <= k < size oshape -> zget out k = zget data (dot newstrides (unrank newshape k)).
Proof.
  intros Hlen E.
  destruct (inplace_transpose_tdest oshape axes Hpos Hperm V vzero data Hlen) as (out' & E' & L & G).
  fold newshape in E'. fold tix in E'. rewrite E in E'. injection E' as <-.
  split; [exact L|]. intros k Hk.
  pose proof (newshape_pos oshape axes Hpos Hperm) as Np. fold newshape in Np.
  pose proof (newshape_size oshape axes Hperm) as Ns. fold newshape in Ns.
  pose proof (newshape_len oshape axes Hperm) as Nl. fold newshape in Nl.
  assert (Bk : inbox newshape (unrank newshape k)) by (apply unrank_inbox; [exact Np|lia]).
  pose proof (inbox_length _ _ Bk) as Lk. rewrite Nl in Lk.
  set (c' := unrank newshape k) in *.
  assert (Bc : inbox oshape (unpermute axes c')).
  { apply (inbox_permute_unpermute axes (length oshape) Hperm); [reflexivity|exact Lk|exact Bk]. }
  unfold newstrides.
  rewrite (dot_permute_unpermute axes (length oshape) Hperm) by (try apply calc_strides_length; exact Lk).
  rewrite dot_calc_strides_rank by (apply inbox_length; exact Bc).
  rewrite <- (G (rank_rm oshape (unpermute axes c'))) by (apply rank_rm_bound; assumption).
  f_equal. rewrite (tdest_coord oshape axes Hpos) by exact Bc. fold newshape.
  rewrite (permute_unpermute axes (length oshape) Hperm c' Lk).
  unfold c'. symmetry. apply rank_unrank; [exact Np|lia].
Qed.

(* list level: gathering through the flat iterator of the transposed access pattern *)
Theorem inplace_eq_copying (data : list V) o fn idx : zlen data = size oshape ->
  iter_all (mkAP newshape newstrides o fn) = Some idx ->
  gather data idx = inplace_transpose V vzero tix data.
Proof.
  intros Hlen Hit.
  pose proof (newshape_pos oshape axes Hpos Hperm) as Np. fold newshape in Np.
  pose proof (newshape_size oshape axes Hperm) as Ns. fold newshape in Ns.
  rewrite iter_all_spec in Hit; cbn [shp str] in *;
    [|exact Np|unfold newstrides, newshape; rewrite !permute_length; reflexivity].
  injection Hit as <-.
  destruct (inplace_transpose_tdest oshape axes Hpos Hperm V vzero data Hlen) as (out & E & _).
  fold newshape in E. fold tix in E. rewrite E.
  destruct (inplace_out_gather data out Hlen E) as (L & G).
  pose proof (size_pos _ Hpos) as Hsz.
  apply gather_eq.
  - rewrite map_length, coords_length, Ns. unfold zlen in L. lia.
  - intros k j Hk.
    assert (Hkr : (k < Z.to_nat (size oshape))%nat).
    { apply nth_error_Some_lt in Hk. rewrite map_length, coords_length, Ns in Hk. exact Hk. }
    rewrite nth_error_map in Hk.
    rewrite <- (Nat2Z.id k), nth_error_coords in Hk by lia. cbn [option_map] in Hk.
    injection Hk as <-. rewrite <- G by lia. rewrite zget_nth_error, Nat2Z.id by lia. reflexivity.
Qed.

(* store level: Dense.Transpose of the default build (Mem.m_transpose_d) on a lazily transposed
   contiguous row-major tensor leaves in the window exactly what the in-place build computes *)
Theorem inplace_eq_copying_store (σ : store V) (d : dense) old o fn :
  wf_dense V σ d -> d_old d = Some old -> d_ap d = mkAP newshape newstrides o fn ->
  is_cm o = false -> oshape <> [] -> d_len d = size oshape ->
  exists σ' d', m_transpose_d V σ d = Ok (σ', d') /\
    d_buf d' = d_buf d /\ d_off d' = d_off d /\ d_len d' = d_len d /\
    inplace_transpose V vzero tix (window V σ d) = Some (window V σ' d').
Proof.
  intros Hwf Hold Hap Hcm Hne Hlen.
  pose proof (newshape_pos oshape axes Hpos Hperm) as Np. fold newshape in Np.
  pose proof (newshape_size oshape axes Hperm) as Ns. fold newshape in Ns.
  pose proof (newshape_len oshape axes Hperm) as Nl. fold newshape in Nl.
  assert (Hsh : shp (d_ap d) = newshape) by (rewrite Hap; reflexivity).
  assert (Hst : str (d_ap d) = newstrides) by (rewrite Hap; reflexivity).
  assert (Hord : ord (d_ap d) = o) by (rewrite Hap; reflexivity).
  assert (Hsc : is_scalar (shp (d_ap d)) = false).
  { rewrite Hsh. destruct newshape; [|reflexivity]. destruct oshape; [congruence|discriminate]. }
  destruct (m_transpose_d_logical_id V σ d old Hwf Hold ltac:(rewrite Hord; exact Hcm) Hsc
              ltac:(rewrite Hsh, Ns; exact Hlen))
    as (σ' & d' & E & Hd' & Hwf' & _ & _ & _ & Hcell).
  exists σ', d'. split; [exact E|]. rewrite Hd'. cbn [d_buf d_off d_len].
  split; [reflexivity|]. split; [reflexivity|]. split; [reflexivity|]. rewrite <- Hd'.
  destruct Hwf as (Hw & Ha & _). destruct Hwf' as (Hw' & Ha' & _).
  assert (Hwl : zlen (window V σ d) = size oshape) by (rewrite window_length by exact Hw; exact Hlen).
  assert (Hlen' : d_len d' = size oshape) by (rewrite Hd'; exact Hlen).
  destruct (inplace_transpose_tdest oshape axes Hpos Hperm V vzero _ Hwl) as (out & Eo & _).
  fold newshape in Eo. fold tix in Eo. rewrite Eo. f_equal.
  destruct (inplace_out_gather _ out Hwl Eo) as (L & G).
  apply (list_ext_zget out (window V σ' d') (size oshape) L).
  { rewrite window_length by exact Hw'. exact Hlen'. }
  intros k Hk. rewrite (G k Hk).
  assert (Bk : inbox newshape (unrank newshape k)) by (apply unrank_inbox; [exact Np|lia]).
  rewrite Hsh in Hcell. specialize (Hcell _ Bk). unfold cell in Hcell.
  rewrite Hst in Hcell.
  destruct Ha as (_ & _ & _ & Hb & _). rewrite Hsh, Hst in Hb. specialize (Hb _ Bk).
  assert (Hdot' : dot (str (d_ap d')) (unrank newshape k) = k).
  { rewrite Hd'. cbn [d_ap str]. rewrite Hsh. rewrite <- rk_dot. apply rk_unrank; [exact Np|lia]. }
  rewrite Hdot' in Hcell.
  rewrite !win_get_bget in Hcell by lia.
  rewrite !zget_nth_error by lia.
  rewrite (window_nth V σ d _ Hw) by lia. rewrite (window_nth V σ' d' _ Hw') by lia.
  symmetry. exact Hcell.
Qed.

End Copying.
