(* Reduce.v — MODEL of the reductions: defaultengine_mapreduce.go (Sum/Min/Max, reduce,
   OptimizedReduce, prepReduce), the First/Last/Default kernels of
   internal/execution/generic_reduce.go, and defaultengine_argmethods.go (argmax/argmin along
   an axis through a transposed access pattern, flat arg-reduction over the raw window).
   The combining operation is a parameter.  No proofs here. *)
From TV Require Import Base Index AP Iter Mem.

Section Reduce.
Variable V : Type.
Variable vzero : V.
Variable op : V -> V -> V.              (* +, min or max of the element type *)
Variable from_zero : bool.              (* Sum folds from 0; Min/Max fold from the first element *)

Notation store := (store V).
Notation get_t := (get_t V).

Definition fold_slice (l : list V) : option V :=
  if from_zero then Some (fold_left op l vzero)
  else match l with [] => None (* SliceMin/SliceMax panic on an empty slice *) | x :: r => Some (fold_left op r x) end.

Fixpoint chunks {A} (fuel : nat) (n : nat) (l : list A) : list (list A) :=
  match fuel with
  | O => []
  | S f => if (length l <? n)%nat then [] else firstn n l :: chunks f n (skipn n l)
  end.

(* reduceFirst: retVal[0:split] = data[0:split]; then size-1 times VecOp(retVal, data[start:start+split]) *)
Fixpoint reduce_first_loop (n : nat) (ret : list V) (data : list V) (split : nat) (start : nat)
  : option (list V) :=
  match n with
  | O => Some ret
  | S n' =>
    let chunk := firstn split (skipn start data) in
    if (length chunk <? split)%nat then None               (* data[start:start+split] out of range *)
    else if (length chunk <? length ret)%nat then None     (* b = b[:len(a)] *)
    else reduce_first_loop n' (map (fun p => op (fst p) (snd p)) (combine ret chunk)
                               ) data split (start + split)
  end.

Definition reduce_first (data ret : list V) (split size : Z) : option (list V) :=
  if (split <? 0) || (zlen ret <? split) || (zlen data <? split) then None else
  let ret1 := firstn (Z.to_nat split) data ++ skipn (Z.to_nat split) ret in
  (* the vectorised combine works on the whole retVal slice *)
  if size <=? 1 then Some ret1
  else reduce_first_loop (Z.to_nat (size - 1)) ret1 data (Z.to_nat split) (Z.to_nat split).

(* reduceLast: for start := 0; start <= len(a)-dimSize; start += dimSize { retVal[at] = fn(a[start:start+dimSize]) } *)
Definition reduce_last (data ret : list V) (dimSize : Z) : option (list V) :=
  if dimSize <=? 0 then None else
  let cs := chunks (S (length data)) (Z.to_nat dimSize) data in
  if (length ret <? length cs)%nat then None else
  match fold_right (fun c acc => match fold_slice c, acc with Some v, Some r => Some (v :: r) | _, _ => None end)
                   (Some []) cs with
  | Some vs => Some (vs ++ skipn (length vs) ret)
  | None => None
  end.

(* reduceDefault, transcribed with its innerStart / strideTrack bookkeeping *)
Fixpoint rd_k (k : nat) (dimSize : nat) (acc : V) (sliced : list V) (innerStart stride : Z) : option V :=
  match k with
  | O => Some acc
  | S k' =>
    let kk := Z.of_nat (dimSize - k) in
    match zget sliced (innerStart + kk * stride) with
    | Some x => rd_k k' dimSize (op acc x) sliced innerStart stride
    | None => None
    end
  end.

Fixpoint rd_j (j : nat) (expected : nat) (i : Z) (sliced : list V) (dimSize : nat) (stride : Z)
         (innerStart strideTrack : Z) (ret : list V) : option (list V) :=
  match j with
  | O => Some ret
  | S j' =>
    let jj := Z.of_nat (expected - j) in
    let writeTo := i * Z.of_nat expected + jj in
    match zget sliced innerStart with
    | None => None
    | Some first =>
      match rd_k (dimSize - 1) dimSize first sliced innerStart stride with
      | None => None
      | Some v =>
        match zset ret writeTo v with
        | None => None
        | Some ret' =>
          let st := strideTrack + 1 in
          let '(st', is') := if stride <=? st then (0, innerStart + stride) else (st, innerStart) in
          rd_j j' expected i sliced dimSize stride (is' + 1) st' ret'
        end
      end
    end
  end.

Fixpoint rd_i (n : nat) (dim0 : nat) (data : list V) (dimSize : nat) (outerStride stride : Z)
         (expected : nat) (ret : list V) : option (list V) :=
  match n with
  | O => Some ret
  | S n' =>
    let i := Z.of_nat (dim0 - n) in
    let start := i * outerStride in
    if (start <? 0) || (zlen data <? start + outerStride) || (outerStride <? 0) then None else
    let sliced := firstn (Z.to_nat outerStride) (skipn (Z.to_nat start) data) in
    match rd_j expected expected i sliced dimSize stride 0 0 ret with
    | Some ret' => rd_i n' dim0 data dimSize outerStride stride expected ret'
    | None => None
    end
  end.

Definition reduce_default (data ret : list V) (dim0 dimSize outerStride stride expected : Z)
  : option (list V) :=
  rd_i (Z.to_nat dim0) (Z.to_nat dim0) data (Z.to_nat dimSize) outerStride stride (Z.to_nat expected) ret.

Fixpoint remove_nth {A} (n : nat) (l : list A) : list A :=
  match l, n with
  | [], _ => []
  | _ :: r, O => r
  | x :: r, S n' => x :: remove_nth n' r
  end.

(* OptimizedReduce on a tensor value [d] (window contents [w]): the reduced tensor as
   (shape, data) — a fresh row-major tensor — or an error/panic *)
Definition optimized_reduce (w : list V) (d : dense) (axis : Z) : res (list Z * list V) :=
  let sh := shp (d_ap d) in
  let dims := zlen sh in
  if dims <=? axis then Err else
  let newShape := if axis <? 0 then sh else remove_nth (Z.to_nat axis) sh in
  let rlen := if is_scalar newShape then 1 else size newShape in
  if rlen <? 0 then Panic else
  let ret0 := repeat vzero (Z.to_nat rlen) in
  (* prepDataUnary: iterable operands are refused; a one-element result never needs one *)
  if requires_iterator d then Err else
  let cm := is_cm (ord (d_ap d)) in
  let lastAxis := dims - 1 in
  if ((axis =? 0) && negb cm) || ((axis =? lastAxis) && cm) then
    if cm then Err else
    match sh with
    | [] => Panic
    | s0 :: _ =>
      if s0 =? 0 then Panic else
      let split := Z.quot (if is_scalar sh then 0 else d_len d) s0 in
      if (zlen ret0 <? split) || (zlen w <? split) then Panic else   (* CopySliced bounds *)
      match reduce_first w ret0 split s0 with
      | Some r => Ok (newShape, r)
      | None => Panic
      end
    end
  else if ((axis =? lastAxis) && negb cm) || ((axis =? 0) && cm) then
    if cm then Err else
    match reduce_last w ret0 (znth 0 sh axis) with
    | Some r => Ok (newShape, r)
    | None => Panic
    end
  else
    match sh, str (d_ap d) with
    | s0 :: _, st0 :: _ =>
      let rstr := calc_strides newShape in
      match zget (str (d_ap d)) axis, rstr, zget sh axis with
      | Some stride, e0 :: _, Some dimSize =>
        match reduce_default w ret0 s0 dimSize st0 stride e0 with
        | Some r => Ok (newShape, r)
        | None => Panic
        end
      | _, _, _ => Panic
      end
    | _, _ => Panic
    end.

(* insertion sort: sort.Slice(along) *)
Fixpoint insert_z (x : Z) (l : list Z) : list Z :=
  match l with [] => [x] | y :: r => if x <=? y then x :: l else y :: insert_z x r end.
Definition sort_z (l : list Z) : list Z := fold_right insert_z [] l.

(* the axis loop of reduce(): each step consumes a (shape, data) tensor value *)
Fixpoint reduce_axes (axes : list Z) (reduced : Z) (w : list V) (d : dense) : res (list Z * list V) :=
  match axes with
  | [] => Ok (shp (d_ap d), w)
  | ax :: rest =>
    let axis := ax - reduced in
    if zlen (shp (d_ap d)) <=? axis then Err else
    match optimized_reduce w d axis with
    | Ok (sh', w') =>
      let n := if is_scalar sh' then 1 else size sh' in
      let d' := mkDense 0 0 n (mkAP sh' (calc_strides sh') 0 true) None false in
      reduce_axes rest (reduced + 1) w' d'
    | Err => Err
    | Panic => Panic
    end
  end.

(* StdEng.Sum/Min/Max(a, along...): result (shape, data) of a NEW tensor, plus the caller's axes
   slice as it is left behind (untouched since the fix of finding F9) *)
Definition m_reduce (σ : store) (t : nat) (along : list Z) : res (list Z * list V) * list Z :=
  match get_t σ t with
  | None => (Panic, along)
  | Some d0 =>
    (* views / lazily transposed tensors are materialised first (into a temporary) *)
    let src : res (store * dense) :=
      if is_materializable d0 then
        let sh := shp (d_ap d0) in
        let n := if is_scalar sh then 1 else size sh in
        let '(σ1, b) := add_buf V σ (repeat vzero (Z.to_nat n)) in
        let nd := mkDense b 0 n (mkAP sh (calc_strides sh) 0 true) None false in
        match copy_dense_iter V σ1 nd d0 with
        | Ok σ2 => Ok (σ2, nd)
        | Err => Err
        | Panic => Panic
        end
      else Ok (σ, d0) in
    match src with
    | Err => (Err, along)
    | Panic => (Panic, along)
    | Ok (σ1, d) =>
      let w := window V σ1 d in
      let '(mono, incr1) := is_monotonic along in
      if (mono && incr1 && (zlen along =? zlen (shp (d_ap d)))) || (zlen along =? 0) then
        (* the all-axes shortcut folds the RAW window *)
        match fold_slice w with
        | Some v => (Ok ([], [v]), along)
        | None => (Panic, along)
        end
      else
        (* the axes are sorted in a private copy *)
        (reduce_axes (sort_z along) 0 w d, along)
    end
  end.

End Reduce.

(* ---- arg-reductions ---- *)
Section Arg.
Variable V : Type.
Variable better : V -> V -> bool.       (* v > f for argmax, v < f for argmin *)

(* Argmax<T>(a): first index of the extreme value; 0 for an empty slice *)
Fixpoint argbest_loop (l : list V) (i : Z) (f : V) (best : Z) : Z :=
  match l with
  | [] => best
  | v :: r => if better v f then argbest_loop r (i + 1) v i else argbest_loop r (i + 1) f best
  end.
Definition argbest (l : list V) : Z :=
  match l with [] => 0 | v :: r => argbest_loop r 1 v 0 end.

(* axes list built by argmaxDenseTensor: the reduced axis moved last *)
Definition arg_axes (dims axis : Z) : list Z :=
  filter (fun i => negb (i =? axis)) (zseq 0 (Z.to_nat dims)) ++ [axis].

Definition m_argbest (σ : store V) (t : nat) (axis : Z) : res (list Z * list Z) :=
  match get_t V σ t with
  | None => Panic
  | Some d =>
    let sh := shp (d_ap d) in
    let dims := zlen sh in
    if dims <=? axis then Err else
    if axis =? -1 then Ok ([], [argbest (window V σ d)])      (* flat: over the raw window *)
    else if axis <? 0 then Panic
    else
      (* axes[] is filled by position; for a valid axis it is arg_axes *)
      let axes := arg_axes dims axis in
      let newAP : res ap :=
        match ap_T (d_ap d) axes with
        | TOk a' _ => Ok a'
        | TNoop => Ok (d_ap d)
        | TErr => Err
        | TPanic => Panic
        end in
      match newAP with
      | Err => Err
      | Panic => Panic
      | Ok a' =>
        (* the iterator is created over the tensor's own AP (flags, track, size) and then loaded
           with the transposed pattern *)
        let it0 := new_iter (d_ap d) in
        let it := mkIter (shp a') (str a') (it_track it0) (it_next it0) (it_last it0) (it_size it0)
                         (it_done it0) (it_vdim it0) (it_rev it0) (it_scalar it0) (it_vec it0) in
        match shp a' with
        | [] => Panic                                            (* it.Shape()[len-1] *)
        | _ =>
          let lastSize := last (shp a') 0 in
          let newShape := removelast (shp a') in
          let '(_, idx, ok) := iter_run (S (S (Z.to_nat (it_size it0)))) it in
          if negb ok then Panic else
          match win_gather V σ d idx with
          | None => Panic
          | Some vals =>
            if lastSize <=? 0 then Panic else
            let cs := chunks (S (length vals)) (Z.to_nat lastSize) vals in
            let indices := map argbest cs in
            (* New(WithShape(newShape...), WithBacking(indices)): sanity() panics on a size mismatch *)
            if negb (zlen indices =? size newShape) && negb (is_scalar newShape) then Panic
            else if is_scalar newShape && negb (zlen indices =? 1) then Panic
            else Ok (newShape, indices)
          end
        end
      end
  end.
End Arg.
