(* Kernel.v — deep embedding of the generated Go kernels (package internal/execution),
   decidable equality on it, and the reflective checks of property C17:
   every element-type specialisation of a kernel family is the same canonical function.

   The table itself (KernelTable.v) is produced by the translator kx; nothing here depends on it. *)
From Coq Require Import String Ascii.
From TV Require Import Base.
Open Scope string_scope.

(* ------------------------------------------------------------------------------------------- *)
(** * 1. Syntax *)

Inductive eclass := Signed | Unsigned | F32 | F64 | C64 | C128 | CBool | CStr | COther.

(* Go types as they occur in signatures, declarations and conversions.  TT is the erased element
   type.  int, bool, float64, complex128 and string get constructors of their own because a kernel
   whose element type IS one of them cannot distinguish "the element type" from "that type"
   (see [amb] below). *)
Inductive kty :=
| TT | TInt | TBool | TFloat64 | TComplex128 | TString
| TNamed (s : string)
| TSlice (t : kty)
| TVariadic (t : kty)
| TFunc (args rets : list kty).

Inductive binop := OAdd | OSub | OMul | ODiv | OMod | OEq | ONe | OLt | OLe | OGt | OGe | OAnd | OOr.
Inductive unop := UNeg | UNot.

Inductive kexpr :=
| Var (x : string)
| Lit (s : string)                      (* integer / float literal, text kept *)
| StrLit (s : string)
| Idx (a i : kexpr)
| Un (o : unop) (e : kexpr)
| Bin (o : binop) (a b : kexpr)
| Call (f : string) (args : list kexpr) (* f is the (qualified) callee: "math32.Abs", "ait.NextValidity", "ReduceT", "fn" *)
| Conv (t : kty) (e : kexpr)
| Len (e : kexpr)
| Slice (a lo hi : kexpr)               (* a[lo:hi]; ENone for an absent bound *)
| Spread (e : kexpr)                    (* e... in a variadic call *)
| ENone
| OpaqueE (s : string).

Inductive kstmt :=
| Skip
| Range (k v : string) (x : kexpr) (body : list kstmt)   (* for k, v := range x; "" = absent *)
| Loop (body : list kstmt)                               (* for { } *)
| ForC (init : kstmt) (cond : kexpr) (post : kstmt) (body : list kstmt)
| If (init : kstmt) (c : kexpr) (th el : list kstmt)
| Assign (l r : kexpr)
| AssignN (ls : list kexpr) (r : kexpr)                  (* i, validi, err = ait.NextValidity() *)
| Define (xs : list string) (r : kexpr)                  (* x := e *)
| OpAssign (o : binop) (l r : kexpr)                     (* l o= r *)
| IncDec (inc : bool) (e : kexpr)
| Continue
| Break
| Return (es : list kexpr)
| VarDecl (xs : list string) (t : kty) (init : list kexpr)
| ExprS (e : kexpr)
| AppendErrs (e : kexpr)                                 (* errs = append(errs, e) *)
| Opaque (s : string).

Record kernel := mkK {
  k_name : string;
  k_family : string;                    (* name without the type suffix *)
  k_suffix : string;
  k_class : eclass;
  k_elem : string;                      (* Go spelling of the element type *)
  k_params : list (string * kty);
  k_rets : list (string * kty);
  k_body : list kstmt }.

Record dispatch_row := mkD {
  d_method : string;                    (* engine method, e.g. "AddIter" *)
  d_tcase : string;                     (* case of `switch t`, e.g. "Int8" *)
  d_sel : string;                       (* case of the inner switch: "as&&!bs", "default", "none", "type:func(T)T" *)
  d_kernel : string;                    (* called kernel *)
  d_args : list string;                 (* argument expressions; locals bound to accessors are resolved: "a.Int8s()[0]" *)
  d_use : string }.                     (* what happens to the result: "expr", "err=", "return", "retVal=", "am:=", "returnN", "value" *)

(* ------------------------------------------------------------------------------------------- *)
(** * 2. Decidable equality (by hand) *)

Definition leqb {A} (f : A -> A -> bool) : list A -> list A -> bool :=
  fix go l1 l2 :=
    match l1, l2 with
    | [], [] => true
    | x :: r1, y :: r2 => f x y && go r1 r2
    | _, _ => false
    end.

Definition eclass_eqb (a b : eclass) : bool :=
  match a, b with
  | Signed, Signed | Unsigned, Unsigned | F32, F32 | F64, F64 | C64, C64 | C128, C128
  | CBool, CBool | CStr, CStr | COther, COther => true
  | _, _ => false
  end.

Definition binop_eqb (a b : binop) : bool :=
  match a, b with
  | OAdd, OAdd | OSub, OSub | OMul, OMul | ODiv, ODiv | OMod, OMod | OEq, OEq | ONe, ONe
  | OLt, OLt | OLe, OLe | OGt, OGt | OGe, OGe | OAnd, OAnd | OOr, OOr => true
  | _, _ => false
  end.

Definition unop_eqb (a b : unop) : bool :=
  match a, b with UNeg, UNeg | UNot, UNot => true | _, _ => false end.

Fixpoint kty_eqb (a b : kty) : bool :=
  match a, b with
  | TT, TT | TInt, TInt | TBool, TBool | TFloat64, TFloat64 | TComplex128, TComplex128 | TString, TString => true
  | TNamed s, TNamed s' => String.eqb s s'
  | TSlice t, TSlice t' => kty_eqb t t'
  | TVariadic t, TVariadic t' => kty_eqb t t'
  | TFunc a1 r1, TFunc a2 r2 => leqb kty_eqb a1 a2 && leqb kty_eqb r1 r2
  | _, _ => false
  end.

Fixpoint kexpr_eqb (a b : kexpr) : bool :=
  match a, b with
  | Var x, Var y => String.eqb x y
  | Lit x, Lit y => String.eqb x y
  | StrLit x, StrLit y => String.eqb x y
  | Idx a1 i1, Idx a2 i2 => kexpr_eqb a1 a2 && kexpr_eqb i1 i2
  | Un o1 e1, Un o2 e2 => unop_eqb o1 o2 && kexpr_eqb e1 e2
  | Bin o1 a1 b1, Bin o2 a2 b2 => binop_eqb o1 o2 && kexpr_eqb a1 a2 && kexpr_eqb b1 b2
  | Call f1 l1, Call f2 l2 => String.eqb f1 f2 && leqb kexpr_eqb l1 l2
  | Conv t1 e1, Conv t2 e2 => kty_eqb t1 t2 && kexpr_eqb e1 e2
  | Len e1, Len e2 => kexpr_eqb e1 e2
  | Slice a1 l1 h1, Slice a2 l2 h2 => kexpr_eqb a1 a2 && kexpr_eqb l1 l2 && kexpr_eqb h1 h2
  | Spread e1, Spread e2 => kexpr_eqb e1 e2
  | ENone, ENone => true
  | OpaqueE x, OpaqueE y => String.eqb x y
  | _, _ => false
  end.

Fixpoint kstmt_eqb (a b : kstmt) : bool :=
  match a, b with
  | Skip, Skip => true
  | Range k1 v1 x1 b1, Range k2 v2 x2 b2 =>
      String.eqb k1 k2 && String.eqb v1 v2 && kexpr_eqb x1 x2 && leqb kstmt_eqb b1 b2
  | Loop b1, Loop b2 => leqb kstmt_eqb b1 b2
  | ForC i1 c1 p1 b1, ForC i2 c2 p2 b2 =>
      kstmt_eqb i1 i2 && kexpr_eqb c1 c2 && kstmt_eqb p1 p2 && leqb kstmt_eqb b1 b2
  | If i1 c1 t1 e1, If i2 c2 t2 e2 =>
      kstmt_eqb i1 i2 && kexpr_eqb c1 c2 && leqb kstmt_eqb t1 t2 && leqb kstmt_eqb e1 e2
  | Assign l1 r1, Assign l2 r2 => kexpr_eqb l1 l2 && kexpr_eqb r1 r2
  | AssignN l1 r1, AssignN l2 r2 => leqb kexpr_eqb l1 l2 && kexpr_eqb r1 r2
  | Define x1 r1, Define x2 r2 => leqb String.eqb x1 x2 && kexpr_eqb r1 r2
  | OpAssign o1 l1 r1, OpAssign o2 l2 r2 => binop_eqb o1 o2 && kexpr_eqb l1 l2 && kexpr_eqb r1 r2
  | IncDec i1 e1, IncDec i2 e2 => Bool.eqb i1 i2 && kexpr_eqb e1 e2
  | Continue, Continue => true
  | Break, Break => true
  | Return e1, Return e2 => leqb kexpr_eqb e1 e2
  | VarDecl x1 t1 i1, VarDecl x2 t2 i2 => leqb String.eqb x1 x2 && kty_eqb t1 t2 && leqb kexpr_eqb i1 i2
  | ExprS e1, ExprS e2 => kexpr_eqb e1 e2
  | AppendErrs e1, AppendErrs e2 => kexpr_eqb e1 e2
  | Opaque x, Opaque y => String.eqb x y
  | _, _ => false
  end.

Definition body_eqb : list kstmt -> list kstmt -> bool := leqb kstmt_eqb.
Definition param_eqb (p q : string * kty) : bool := String.eqb (fst p) (fst q) && kty_eqb (snd p) (snd q).
Definition params_eqb : list (string * kty) -> list (string * kty) -> bool := leqb param_eqb.

(** ** Soundness of the equality tests *)

Lemma leqb_eq {A} (f : A -> A -> bool) (l1 : list A) :
  Forall (fun a => forall b, f a b = true -> a = b) l1 ->
  forall l2, leqb f l1 l2 = true -> l1 = l2.
Proof.
  induction 1 as [|x r Hx _ IH]; intros [|y r2] H; simpl in H; try discriminate; auto.
  apply andb_true_iff in H as [H1 H2]. f_equal; auto.
Qed.

Lemma leqb_eq_all {A} (f : A -> A -> bool) :
  (forall a b, f a b = true -> a = b) -> forall l1 l2, leqb f l1 l2 = true -> l1 = l2.
Proof.
  intros Hf l1. apply leqb_eq. apply Forall_forall. intros a _ b. apply Hf.
Qed.

Lemma str_eqb_eq a b : String.eqb a b = true -> a = b.
Proof. apply String.eqb_eq. Qed.

Lemma eclass_eqb_eq a b : eclass_eqb a b = true -> a = b.
Proof. destruct a, b; simpl; intros; congruence. Qed.
Lemma binop_eqb_eq a b : binop_eqb a b = true -> a = b.
Proof. destruct a, b; simpl; intros; congruence. Qed.
Lemma unop_eqb_eq a b : unop_eqb a b = true -> a = b.
Proof. destruct a, b; simpl; intros; congruence. Qed.

(* induction principles that see through the nested lists *)
Section kty_ind2.
  Variable P : kty -> Prop.
  Hypotheses (H0 : P TT) (H1 : P TInt) (H2 : P TBool) (H3 : P TFloat64) (H4 : P TComplex128) (H5 : P TString)
             (H6 : forall s, P (TNamed s)) (H7 : forall t, P t -> P (TSlice t)) (H8 : forall t, P t -> P (TVariadic t))
             (H9 : forall a r, Forall P a -> Forall P r -> P (TFunc a r)).
  Fixpoint kty_ind2 (t : kty) : P t :=
    let all := fix all (l : list kty) : Forall P l :=
      match l with [] => Forall_nil P | x :: r => Forall_cons x (kty_ind2 x) (all r) end in
    match t with
    | TT => H0 | TInt => H1 | TBool => H2 | TFloat64 => H3 | TComplex128 => H4 | TString => H5
    | TNamed s => H6 s
    | TSlice t' => H7 t' (kty_ind2 t')
    | TVariadic t' => H8 t' (kty_ind2 t')
    | TFunc a r => H9 a r (all a) (all r)
    end.
End kty_ind2.

Lemma kty_eqb_eq : forall a b, kty_eqb a b = true -> a = b.
Proof.
  induction a using kty_ind2; intros b E; destruct b; simpl in E; try discriminate; try reflexivity.
  - f_equal. now apply str_eqb_eq.
  - f_equal. auto.
  - f_equal. auto.
  - apply andb_true_iff in E as [E1 E2].
    f_equal; eapply leqb_eq; eauto.
Qed.

Section kexpr_ind2.
  Variable P : kexpr -> Prop.
  Hypotheses (HVar : forall x, P (Var x)) (HLit : forall x, P (Lit x)) (HStr : forall x, P (StrLit x))
             (HIdx : forall a i, P a -> P i -> P (Idx a i))
             (HUn : forall o e, P e -> P (Un o e))
             (HBin : forall o a b, P a -> P b -> P (Bin o a b))
             (HCall : forall f l, Forall P l -> P (Call f l))
             (HConv : forall t e, P e -> P (Conv t e))
             (HLen : forall e, P e -> P (Len e))
             (HSlice : forall a l h, P a -> P l -> P h -> P (Slice a l h))
             (HSpread : forall e, P e -> P (Spread e))
             (HNone : P ENone) (HOp : forall s, P (OpaqueE s)).
  Fixpoint kexpr_ind2 (e : kexpr) : P e :=
    match e with
    | Var x => HVar x | Lit x => HLit x | StrLit x => HStr x
    | Idx a i => HIdx a i (kexpr_ind2 a) (kexpr_ind2 i)
    | Un o e' => HUn o e' (kexpr_ind2 e')
    | Bin o a b => HBin o a b (kexpr_ind2 a) (kexpr_ind2 b)
    | Call f l => HCall f l ((fix all (l : list kexpr) : Forall P l :=
                     match l with [] => Forall_nil P | x :: r => Forall_cons x (kexpr_ind2 x) (all r) end) l)
    | Conv t e' => HConv t e' (kexpr_ind2 e')
    | Len e' => HLen e' (kexpr_ind2 e')
    | Slice a l h => HSlice a l h (kexpr_ind2 a) (kexpr_ind2 l) (kexpr_ind2 h)
    | Spread e' => HSpread e' (kexpr_ind2 e')
    | ENone => HNone
    | OpaqueE s => HOp s
    end.
End kexpr_ind2.

Ltac split_andb :=
  repeat match goal with
         | H : (_ && _)%bool = true |- _ => apply andb_true_iff in H; destruct H
         end.

Lemma kexpr_eqb_eq : forall a b, kexpr_eqb a b = true -> a = b.
Proof.
  induction a using kexpr_ind2; intros b0 E; destruct b0; simpl in E; try discriminate; try reflexivity;
    split_andb;
    repeat match goal with
           | H : String.eqb _ _ = true |- _ => apply str_eqb_eq in H; subst
           | H : unop_eqb _ _ = true |- _ => apply unop_eqb_eq in H; subst
           | H : binop_eqb _ _ = true |- _ => apply binop_eqb_eq in H; subst
           | H : kty_eqb _ _ = true |- _ => apply kty_eqb_eq in H; subst
           | IH : forall b, kexpr_eqb ?a b = true -> ?a = b, H : kexpr_eqb ?a _ = true |- _ => apply IH in H; subst
           end; try reflexivity.
  f_equal. eapply leqb_eq; eauto.
Qed.

Section kstmt_ind2.
  Variable P : kstmt -> Prop.
  Hypotheses (HSkip : P Skip)
             (HRange : forall k v x b, Forall P b -> P (Range k v x b))
             (HLoop : forall b, Forall P b -> P (Loop b))
             (HFor : forall i c p b, P i -> P p -> Forall P b -> P (ForC i c p b))
             (HIf : forall i c t e, P i -> Forall P t -> Forall P e -> P (If i c t e))
             (HAssign : forall l r, P (Assign l r))
             (HAssignN : forall l r, P (AssignN l r))
             (HDefine : forall l r, P (Define l r))
             (HOpAssign : forall o l r, P (OpAssign o l r))
             (HIncDec : forall i e, P (IncDec i e))
             (HContinue : P Continue) (HBreak : P Break)
             (HReturn : forall e, P (Return e))
             (HVarDecl : forall x t i, P (VarDecl x t i))
             (HExprS : forall e, P (ExprS e))
             (HAppend : forall e, P (AppendErrs e))
             (HOpaque : forall s, P (Opaque s)).
  Fixpoint kstmt_ind2 (s : kstmt) : P s :=
    let all := fix all (l : list kstmt) : Forall P l :=
      match l with [] => Forall_nil P | x :: r => Forall_cons x (kstmt_ind2 x) (all r) end in
    match s with
    | Skip => HSkip
    | Range k v x b => HRange k v x b (all b)
    | Loop b => HLoop b (all b)
    | ForC i c p b => HFor i c p b (kstmt_ind2 i) (kstmt_ind2 p) (all b)
    | If i c t e => HIf i c t e (kstmt_ind2 i) (all t) (all e)
    | Assign l r => HAssign l r
    | AssignN l r => HAssignN l r
    | Define l r => HDefine l r
    | OpAssign o l r => HOpAssign o l r
    | IncDec i e => HIncDec i e
    | Continue => HContinue
    | Break => HBreak
    | Return e => HReturn e
    | VarDecl x t i => HVarDecl x t i
    | ExprS e => HExprS e
    | AppendErrs e => HAppend e
    | Opaque s => HOpaque s
    end.
End kstmt_ind2.

Lemma bool_eqb_eq a b : Bool.eqb a b = true -> a = b.
Proof. destruct a, b; simpl; congruence. Qed.

Theorem kstmt_eqb_eq : forall a b, kstmt_eqb a b = true -> a = b.
Proof.
  induction a using kstmt_ind2; intros b0 E; destruct b0; simpl in E; try discriminate; try reflexivity;
    split_andb;
    repeat match goal with
           | H : String.eqb _ _ = true |- _ => apply str_eqb_eq in H; subst
           | H : Bool.eqb _ _ = true |- _ => apply bool_eqb_eq in H; subst
           | H : binop_eqb _ _ = true |- _ => apply binop_eqb_eq in H; subst
           | H : kty_eqb _ _ = true |- _ => apply kty_eqb_eq in H; subst
           | H : kexpr_eqb _ _ = true |- _ => apply kexpr_eqb_eq in H; subst
           | H : leqb kexpr_eqb _ _ = true |- _ => apply (leqb_eq_all _ kexpr_eqb_eq) in H; subst
           | H : leqb String.eqb _ _ = true |- _ => apply (leqb_eq_all _ str_eqb_eq) in H; subst
           | IH : forall b, kstmt_eqb ?a b = true -> ?a = b, H : kstmt_eqb ?a _ = true |- _ => apply IH in H; subst
           | IH : Forall _ ?l, H : leqb kstmt_eqb ?l _ = true |- _ => apply (leqb_eq _ _ IH) in H; subst
           end; reflexivity.
Qed.

Corollary body_eqb_eq a b : body_eqb a b = true -> a = b.
Proof. apply leqb_eq_all, kstmt_eqb_eq. Qed.

Lemma params_eqb_eq a b : params_eqb a b = true -> a = b.
Proof.
  apply leqb_eq_all. intros [x t] [y u]; unfold param_eqb; simpl; intros E.
  apply andb_true_iff in E as [E1 E2]. apply str_eqb_eq in E1. apply kty_eqb_eq in E2. congruence.
Qed.

(* ------------------------------------------------------------------------------------------- *)
(** * 3. Instantiation ambiguity

   kx erases EVERY occurrence of the element type to TT.  For the kernels whose element type is int
   (suffix I) this also erases the type of index variables (`var i, j int`), for bool (suffix B) the
   type of the validity flags and of retVal, and so on: in those kernels "T" and "int" are the same
   Go type and cannot be told apart.  Comparisons involving such a kernel are therefore made after
   identifying that type with TT on BOTH sides ([amb] of both suffixes); between two unambiguous
   kernels the comparison is plain equality. *)

Definition amb (suffix : string) : list kty :=
  if String.eqb suffix "I" then [TInt]
  else if String.eqb suffix "B" then [TBool]
  else if String.eqb suffix "F64" then [TFloat64]
  else if String.eqb suffix "C128" then [TComplex128]
  else if String.eqb suffix "Str" then [TString]
  else [].

Fixpoint subst_ty (w : list kty) (t : kty) : kty :=
  if existsb (kty_eqb t) w then TT else
  match t with
  | TSlice t' => TSlice (subst_ty w t')
  | TVariadic t' => TVariadic (subst_ty w t')
  | TFunc a r => TFunc (map (subst_ty w) a) (map (subst_ty w) r)
  | _ => t
  end.

Fixpoint subst_expr (w : list kty) (e : kexpr) : kexpr :=
  match e with
  | Idx a i => Idx (subst_expr w a) (subst_expr w i)
  | Un o e' => Un o (subst_expr w e')
  | Bin o a b => Bin o (subst_expr w a) (subst_expr w b)
  | Call f l => Call f (map (subst_expr w) l)
  | Conv t e' => Conv (subst_ty w t) (subst_expr w e')
  | Len e' => Len (subst_expr w e')
  | Slice a l h => Slice (subst_expr w a) (subst_expr w l) (subst_expr w h)
  | Spread e' => Spread (subst_expr w e')
  | _ => e
  end.

Fixpoint subst_stmt (w : list kty) (s : kstmt) : kstmt :=
  match s with
  | Range k v x b => Range k v (subst_expr w x) (map (subst_stmt w) b)
  | Loop b => Loop (map (subst_stmt w) b)
  | ForC i c p b => ForC (subst_stmt w i) (subst_expr w c) (subst_stmt w p) (map (subst_stmt w) b)
  | If i c t e => If (subst_stmt w i) (subst_expr w c) (map (subst_stmt w) t) (map (subst_stmt w) e)
  | Assign l r => Assign (subst_expr w l) (subst_expr w r)
  | AssignN l r => AssignN (map (subst_expr w) l) (subst_expr w r)
  | Define x r => Define x (subst_expr w r)
  | OpAssign o l r => OpAssign o (subst_expr w l) (subst_expr w r)
  | IncDec i e => IncDec i (subst_expr w e)
  | Return e => Return (map (subst_expr w) e)
  | VarDecl x t i => VarDecl x (subst_ty w t) (map (subst_expr w) i)
  | ExprS e => ExprS (subst_expr w e)
  | AppendErrs e => AppendErrs (subst_expr w e)
  | _ => s
  end.

Definition subst_body (w : list kty) (b : list kstmt) : list kstmt :=
  match w with [] => b | _ => map (subst_stmt w) b end.
Definition subst_params (w : list kty) (p : list (string * kty)) : list (string * kty) :=
  match w with [] => p | _ => map (fun '(x, t) => (x, subst_ty w t)) p end.

(* ------------------------------------------------------------------------------------------- *)
(** * 4. Class normalisation

   Differences that are allowed between the numeric classes of one family:
   - float32 uses package math32 where float64 uses math;  vecf32 / vecf64 likewise;
   - complex64 goes through complex128: complex64(cmplx.F(complex128(x), ...)) against cmplx.F(x, ...). *)

Definition drop (n : nat) (s : string) : string := substring n (String.length s - n) s.

Definition norm_name (f : string) : string :=
  if prefix "math32." f then "math." ++ drop 7 f
  else if prefix "vecf32." f then "vecf." ++ drop 7 f
  else if prefix "vecf64." f then "vecf." ++ drop 7 f
  else f.

Definition strip_c128 (e : kexpr) : kexpr :=
  match e with Conv TComplex128 x => x | _ => e end.

Fixpoint norm_expr (e : kexpr) : kexpr :=
  match e with
  | Idx a i => Idx (norm_expr a) (norm_expr i)
  | Un o e' => Un o (norm_expr e')
  | Bin o a b => Bin o (norm_expr a) (norm_expr b)
  | Call f l => Call (norm_name f) (map norm_expr l)
  | Conv t e' =>
      let e'' := norm_expr e' in
      match t, e'' with
      | TT, Call f l => if prefix "cmplx." f then Call f (map strip_c128 l) else Conv t e''
      | _, _ => Conv t e''
      end
  | Len e' => Len (norm_expr e')
  | Slice a l h => Slice (norm_expr a) (norm_expr l) (norm_expr h)
  | Spread e' => Spread (norm_expr e')
  | _ => e
  end.

Fixpoint norm_stmt (s : kstmt) : kstmt :=
  match s with
  | Range k v x b => Range k v (norm_expr x) (map norm_stmt b)
  | Loop b => Loop (map norm_stmt b)
  | ForC i c p b => ForC (norm_stmt i) (norm_expr c) (norm_stmt p) (map norm_stmt b)
  | If i c t e => If (norm_stmt i) (norm_expr c) (map norm_stmt t) (map norm_stmt e)
  | Assign l r => Assign (norm_expr l) (norm_expr r)
  | AssignN l r => AssignN (map norm_expr l) (norm_expr r)
  | Define x r => Define x (norm_expr r)
  | OpAssign o l r => OpAssign o (norm_expr l) (norm_expr r)
  | IncDec i e => IncDec i (norm_expr e)
  | Return e => Return (map norm_expr e)
  | VarDecl x t i => VarDecl x t (map norm_expr i)
  | ExprS e => ExprS (norm_expr e)
  | AppendErrs e => AppendErrs (norm_expr e)
  | _ => s
  end.

Definition norm_class (b : list kstmt) : list kstmt := map norm_stmt b.

(* ------------------------------------------------------------------------------------------- *)
(** * 5. Uniformity inside a class, consistency across classes *)

Definition same_family (k k' : kernel) : bool := String.eqb (k_family k) (k_family k').

(* equality of two specialisations modulo the instantiation ambiguity of either *)
Definition kernel_eq_mod (nrm : list kstmt -> list kstmt) (k k' : kernel) : bool :=
  let w := (amb (k_suffix k) ++ amb (k_suffix k'))%list in
  params_eqb (subst_params w (k_params k)) (subst_params w (k_params k'))
  && params_eqb (subst_params w (k_rets k)) (subst_params w (k_rets k'))
  (* normalise first: the complex64 detour through complex128 must be removed before complex128
     is identified with T for the sake of a C128 partner *)
  && body_eqb (subst_body w (nrm (k_body k))) (subst_body w (nrm (k_body k'))).

(* any two kernels of the same family and the same element class are equal *)
Definition uniformb (ks : list kernel) : bool :=
  forallb (fun k =>
    forallb (fun k' =>
      (* if-then-else, not orb: vm_compute is call-by-value *)
      if same_family k k' then
        if eclass_eqb (k_class k) (k_class k') then kernel_eq_mod (fun b => b) k k' else true
      else true) ks) ks.

(* EXCEPTION TABLE for the comparison across classes.
   An entry (family, class, tag) takes the kernels of that family and class out of the main group
   of the family and puts them in the group named by the tag; only kernels of the same group are
   compared (under norm_class).  Built below from the operator lists so that every line of the
   table carries its reason. *)
Definition class_group (tbl : list (string * eclass * string)) (k : kernel) : string :=
  match find (fun '(f, c, _) => String.eqb f (k_family k) && eclass_eqb c (k_class k)) tbl with
  | Some (_, _, g) => g
  | None => ""
  end.

Definition classes_consistentb_with (tbl : list (string * eclass * string)) (ks : list kernel) : bool :=
  forallb (fun k =>
    let g := class_group tbl k in
    forallb (fun k' =>
      if same_family k k' then
        if String.eqb g (class_group tbl k') then kernel_eq_mod norm_class k k' else true
      else true) ks) ks.

(* ------------------------------------------------------------------------------------------- *)
(** * 6. Operator tables *)

Notation "x +++ y" := (@List.app _ x y) (at level 60, right associativity).

Definition is_int (c : eclass) := match c with Signed | Unsigned => true | _ => false end.
Definition is_float (c : eclass) := match c with F32 | F64 => true | _ => false end.
Definition is_cplx (c : eclass) := match c with C64 | C128 => true | _ => false end.
Definition is_real (c : eclass) := is_int c || is_float c.
Definition is_num (c : eclass) := is_int c || is_float c || is_cplx c.

Definition arith_ops : list string := ["Add"; "Sub"; "Mul"; "Div"; "Pow"; "Mod"].
(* loop variants of a binary arithmetic operator: (prefix, suffix) around the operator name *)
Definition arith_variants : list (string * string) :=
  [("Vec", ""); ("", "Incr"); ("", "Iter"); ("", "IterIncr"); ("", "Recv");
   ("", "SV"); ("", "VS"); ("", "IncrSV"); ("", "IncrVS"); ("", "IterSV"); ("", "IterVS");
   ("", "IterIncrSV"); ("", "IterIncrVS")].
Definition fam_of (op : string) (v : string * string) : string := fst v ++ op ++ snd v.

Definition cmp_ops : list string := ["Gt"; "Gte"; "Lt"; "Lte"; "Eq"; "Ne"].
Definition same_variants : list string := ["Same"; "SameIter"; "SameSV"; "SameVS"; "SameIterSV"; "SameIterVS"].
Definition cplx_unary : list string := ["Exp"; "Tanh"; "Log"; "Log10"; "Sqrt"].

(** ** The exception table of the cross-class comparison *)
Definition class_specific : list (string * eclass * string) :=
  (* 1. float32/float64 Vec<Op> and <Op>Incr are one-line calls into the assembly packages
        vecf32 / vecf64 (opaque primitives); every other class has the Go loop. *)
  flat_map (fun op => [("Vec" ++ op, F32, "vecf"); ("Vec" ++ op, F64, "vecf");
                       (op ++ "Incr", F32, "vecf"); (op ++ "Incr", F64, "vecf")]) arith_ops
  (* 2. integer division: only the integer classes test the divisor,
        `if b[i] == 0 { errs = append(errs, i); a[i] = 0; continue }`, and return the error indices;
        float and complex division follows IEEE and has no test. *)
  +++ flat_map (fun v => [(fam_of "Div" v, Signed, "int-div-guard"); (fam_of "Div" v, Unsigned, "int-div-guard")]) arith_variants
  (* 3. Mod: Go has no % on floats, the float classes call math32.Mod / math.Mod
        (Vec/Incr float variants are already in group vecf above: first match wins). *)
  +++ flat_map (fun v => [(fam_of "Mod" v, F32, "float-mod"); (fam_of "Mod" v, F64, "float-mod")]) arith_variants
  +++ [("Mod", F32, "float-mod"); ("Mod", F64, "float-mod")]
  (* 4. Pow and the transcendental unary functions: the complex classes call package cmplx
        (complex64 through complex128), the float classes call math32 / math. *)
  +++ flat_map (fun v => [(fam_of "Pow" v, C64, "cmplx"); (fam_of "Pow" v, C128, "cmplx")]) arith_variants
  +++ [("Pow", C64, "cmplx"); ("Pow", C128, "cmplx")]
  +++ flat_map (fun u => [(u, C64, "cmplx"); (u, C128, "cmplx"); (u ++ "Iter", C64, "cmplx"); (u ++ "Iter", C128, "cmplx")]) cplx_unary
  (* 5. Abs: signed integers negate when negative, floats call math32.Abs / math.Abs
        (there is no Abs for the unsigned classes at all). *)
  +++ [("Abs", F32, "math-abs"); ("Abs", F64, "math-abs"); ("AbsIter", F32, "math-abs"); ("AbsIter", F64, "math-abs")]
  (* 6. Clamp: the float classes additionally test for +-Inf. *)
  +++ [("Clamp", F32, "float-inf"); ("Clamp", F64, "float-inf"); ("ClampIter", F32, "float-inf"); ("ClampIter", F64, "float-inf")]
  (* 7. Argmax/Argmin: the float classes stop at the first NaN or +-Inf. *)
  +++ flat_map (fun f => [(f, F32, "float-nan"); (f, F64, "float-nan")]) ["Argmax"; "ArgmaxMasked"; "Argmin"; "ArgminMasked"]
  (* 8. <Cmp>Same...: the result is written back into the operand, so its spelling depends on the class:
        1 / 0 for the numeric classes, true / false for bool, "true" / "false" for string. *)
  +++ flat_map (fun op => map (fun v => (op ++ v, CStr, "string-literals")) same_variants) cmp_ops
  +++ flat_map (fun op => map (fun v => (op ++ v, CBool, "bool-literals")) same_variants) ["Eq"; "Ne"].

(* the table is tight: every entry names an existing (family, class), and without the entry the
   check would fail (some kernel of another group of the family differs under norm_class) *)
Definition class_entry_tightb (ks : list kernel) (e : string * eclass * string) : bool :=
  let '(f, c, g) := e in
  existsb (fun k =>
    if eclass_eqb (k_class k) c then
      if String.eqb (k_family k) f then
        existsb (fun k' =>
          if String.eqb (k_family k') f then
            if String.eqb (class_group class_specific k') g then false else negb (kernel_eq_mod norm_class k k')
          else false) ks
      else false
    else false) ks.

Definition classes_consistentb := classes_consistentb_with class_specific.

(* ------------------------------------------------------------------------------------------- *)
(** * 7. Templates: loop schemas parameterised by the scalar operation *)

Definition ix (a i : string) : kexpr := Idx (Var a) (Var i).
Definition nil_ := Var "nil".
Definition err_ := Var "err".
Definition tIter := TNamed "Iterator".
Definition tErr := TNamed "error".
Definition sT := TSlice TT.
Definition reslice (x : string) := Assign (Var x) (Slice (Var x) ENone ENone).
Definition reslice_to (x y : string) := Assign (Var x) (Slice (Var x) ENone (Len (Var y))).

Inductive looph :=
| LRange (pre : list kstmt) (over : string)      (* prelude (re-slicing); `for i := range over` *)
| LIter (its : list (string * string)).          (* (index variable, iterator) for every operand that is walked *)

Definition valid_of (i : string) : string := "valid" ++ i.

(* if i, validi, err = it.NextValidity(); err != nil { err = handleNoOp(err); break } *)
Definition next_iter (p : string * string) : kstmt :=
  If (AssignN [Var (fst p); Var (valid_of (fst p)); err_] (Call (snd p ++ ".NextValidity") []))
     (Bin ONe err_ nil_) [Assign err_ (Call "handleNoOp" [err_]); Break] [].

Definition conj_valid (is_ : list string) : kexpr :=
  match is_ with
  | [] => ENone
  | i :: r => fold_left (fun acc j => Bin OAnd acc (Var (valid_of j))) r (Var (valid_of i))
  end.

Definition errs_decl := VarDecl ["errs"] (TNamed "errorIndices") [].
Definition errs_tail :=
  [If Skip (Bin ONe err_ nil_) [Return []] [];
   If Skip (Bin OGt (Len (Var "errs")) (Lit "0")) [Return [Var "errs"]] [];
   Return [nil_]].

(* SCHEMA 0: the two loop headers, with or without the error-index bookkeeping *)
Definition build (l : looph) (guarded : bool) (core : list kstmt) : list kstmt :=
  match l with
  | LRange pre over =>
      pre +++ (if guarded then [errs_decl] else []) +++ [Range "i" "" (Var over) core]
          +++ (if guarded then errs_tail else [])
  | LIter its =>
      (if guarded then [errs_decl] else [])
      +++ [VarDecl (map fst its) TInt []; VarDecl (map (fun p => valid_of (fst p)) its) TBool [];
           Loop (map next_iter its +++ [If Skip (conj_valid (map fst its)) core []])]
      +++ (if guarded then errs_tail else [Return []])
  end.

Definition rets_of (l : looph) (guarded : bool) : list (string * kty) :=
  match l with
  | LRange _ _ => if guarded then [("err", tErr)] else []
  | LIter _ => [("err", tErr)]
  end.

Record shape := mkShape {
  sh_params : list (string * kty);
  sh_loop : looph;
  sh_x : kexpr;        (* left operand  *)
  sh_y : kexpr;        (* right operand *)
  sh_dst : kexpr }.    (* destination   *)

Definition pa := ("a", sT).  Definition pb := ("b", sT).
Definition pas := ("a", TT). Definition pbs := ("b", TT).
Definition pincr := ("incr", sT). Definition precv := ("recv", sT).
Definition pret := ("retVal", TSlice TBool).
Definition pit (n : string) := (n, tIter).

(* SCHEMAS 1-13: the loop variants of a binary operator writing into an operand / incr / recv *)
Definition sh_vv := mkShape [pa; pb] (LRange [reslice "a"; reslice_to "b" "a"] "a") (ix "a" "i") (ix "b" "i") (ix "a" "i").
Definition sh_incr := mkShape [pa; pb; pincr] (LRange [reslice "a"; reslice_to "b" "a"; reslice_to "incr" "a"] "incr")
                              (ix "a" "i") (ix "b" "i") (ix "incr" "i").
Definition sh_recv := mkShape [pa; pb; precv] (LRange [reslice_to "a" "recv"; reslice_to "b" "recv"] "recv")
                              (ix "a" "i") (ix "b" "i") (ix "recv" "i").
Definition sh_sv := mkShape [pas; pb] (LRange [] "b") (Var "a") (ix "b" "i") (ix "b" "i").
Definition sh_vs := mkShape [pa; pbs] (LRange [] "a") (ix "a" "i") (Var "b") (ix "a" "i").
Definition sh_incr_sv := mkShape [pas; pb; pincr] (LRange [] "incr") (Var "a") (ix "b" "i") (ix "incr" "i").
Definition sh_incr_vs := mkShape [pa; pbs; pincr] (LRange [] "incr") (ix "a" "i") (Var "b") (ix "incr" "i").
Definition sh_iter := mkShape [pa; pb; pit "ait"; pit "bit"] (LIter [("i", "ait"); ("j", "bit")])
                              (ix "a" "i") (ix "b" "j") (ix "a" "i").
Definition sh_iter_incr := mkShape [pa; pb; pincr; pit "ait"; pit "bit"; pit "iit"]
                              (LIter [("i", "ait"); ("j", "bit"); ("k", "iit")]) (ix "a" "i") (ix "b" "j") (ix "incr" "k").
Definition sh_iter_sv := mkShape [pas; pb; pit "bit"] (LIter [("i", "bit")]) (Var "a") (ix "b" "i") (ix "b" "i").
Definition sh_iter_vs := mkShape [pa; pbs; pit "ait"] (LIter [("i", "ait")]) (ix "a" "i") (Var "b") (ix "a" "i").
Definition sh_iter_incr_sv := mkShape [pas; pb; pincr; pit "bit"; pit "iit"] (LIter [("i", "bit"); ("k", "iit")])
                              (Var "a") (ix "b" "i") (ix "incr" "k").
Definition sh_iter_incr_vs := mkShape [pa; pbs; pincr; pit "ait"; pit "iit"] (LIter [("i", "ait"); ("k", "iit")])
                              (ix "a" "i") (Var "b") (ix "incr" "k").

(* SCHEMAS 14-19: comparison into retVal []bool *)
Definition sh_cmp := mkShape [pa; pb; pret] (LRange [reslice "a"; reslice_to "b" "a"; reslice_to "retVal" "a"] "retVal")
                             (ix "a" "i") (ix "b" "i") (ix "retVal" "i").
Definition sh_cmp_sv := mkShape [pas; pb; pret] (LRange [] "retVal") (Var "a") (ix "b" "i") (ix "retVal" "i").
Definition sh_cmp_vs := mkShape [pa; pbs; pret] (LRange [] "retVal") (ix "a" "i") (Var "b") (ix "retVal" "i").
Definition sh_cmp_iter := mkShape [pa; pb; pret; pit "ait"; pit "bit"; pit "rit"]
                             (LIter [("i", "ait"); ("j", "bit"); ("k", "rit")]) (ix "a" "i") (ix "b" "j") (ix "retVal" "k").
Definition sh_cmp_iter_sv := mkShape [pas; pb; pret; pit "bit"; pit "rit"] (LIter [("i", "bit"); ("k", "rit")])
                             (Var "a") (ix "b" "i") (ix "retVal" "k").
Definition sh_cmp_iter_vs := mkShape [pa; pbs; pret; pit "ait"; pit "rit"] (LIter [("i", "ait"); ("k", "rit")])
                             (ix "a" "i") (Var "b") (ix "retVal" "k").

(* SCHEMAS 20-21: unary, in place *)
Definition sh_un (extra : list (string * kty)) :=
  mkShape (pa :: extra) (LRange [] "a") (ix "a" "i") ENone (ix "a" "i").
Definition sh_un_iter (extra : list (string * kty)) :=
  mkShape (pa :: pit "ait" :: extra) (LIter [("i", "ait")]) (ix "a" "i") ENone (ix "a" "i").

Record tmpl := mkT { t_params : list (string * kty); t_rets : list (string * kty); t_body : list kstmt }.

(* a scalar function of package math32 / math / cmplx at class c *)
Definition mcall (c : eclass) (fn : string) (args : list kexpr) : kexpr :=
  match c with
  | F32 => Call ("math32." ++ fn) args
  | F64 => Call ("math." ++ fn) args
  | C64 => Conv TT (Call ("cmplx." ++ fn) (map (Conv TComplex128) args))
  | _ => Call ("cmplx." ++ fn) args
  end.

(* the scalar operation of an arithmetic operator at a class (None: the class has no such kernel) *)
Definition arith_sop (op : string) (c : eclass) : option (kexpr -> kexpr -> kexpr) :=
  if String.eqb op "Add" then (if is_num c || eclass_eqb c CStr then Some (Bin OAdd) else None)
  else if String.eqb op "Sub" then (if is_num c then Some (Bin OSub) else None)
  else if String.eqb op "Mul" then (if is_num c then Some (Bin OMul) else None)
  else if String.eqb op "Div" then (if is_num c then Some (Bin ODiv) else None)
  else if String.eqb op "Pow" then (if is_float c || is_cplx c then Some (fun x y => mcall c "Pow" [x; y]) else None)
  else if String.eqb op "Mod" then (if is_int c then Some (Bin OMod) else if is_float c then Some (fun x y => mcall c "Mod" [x; y]) else None)
  else None.

Definition arith_guarded (op : string) (c : eclass) : bool := String.eqb op "Div" && is_int c.

(* SCHEMA A: dst = x op y  /  dst += x op y, with the integer-division guard.
   [zero] is the element reset by the guard; canonically the destination itself. *)
Definition arith_core (acc guarded : bool) (f : kexpr -> kexpr -> kexpr) (s : shape) (zero : kexpr) : list kstmt :=
  (if guarded then [If Skip (Bin OEq (sh_y s) (Lit "0")) [AppendErrs (Var "i"); Assign zero (Lit "0"); Continue] []] else [])
  +++ [if acc then OpAssign OAdd (sh_dst s) (f (sh_x s) (sh_y s)) else Assign (sh_dst s) (f (sh_x s) (sh_y s))].

Definition tmpl_loop (s : shape) (guarded : bool) (core : list kstmt) : tmpl :=
  mkT (sh_params s) (rets_of (sh_loop s) guarded) (build (sh_loop s) guarded core).

(* SCHEMA V: the vecf32 / vecf64 one-liners *)
Definition tmpl_vecf (c : eclass) (s : shape) (fn : string) : tmpl :=
  mkT (sh_params s) [] [ExprS (Call ((if eclass_eqb c F32 then "vecf32." else "vecf64.") ++ fn) (map (fun p => Var (fst p)) (sh_params s)))].

(* (prefix, suffix, shape, accumulate?, vecf name prefix for the float classes) *)
Definition arith_shapes : list (string * string * shape * bool * option string) :=
  [("Vec", "", sh_vv, false, Some ""); ("", "Incr", sh_incr, true, Some "Incr");
   ("", "Iter", sh_iter, false, None); ("", "IterIncr", sh_iter_incr, true, None);
   ("", "Recv", sh_recv, false, None);
   ("", "SV", sh_sv, false, None); ("", "VS", sh_vs, false, None);
   ("", "IncrSV", sh_incr_sv, true, None); ("", "IncrVS", sh_incr_vs, true, None);
   ("", "IterSV", sh_iter_sv, false, None); ("", "IterVS", sh_iter_vs, false, None);
   ("", "IterIncrSV", sh_iter_incr_sv, true, None); ("", "IterIncrVS", sh_iter_incr_vs, true, None)].

Definition arith_tmpl (zero_of : shape -> kexpr) (op : string) (v : string * string * shape * bool * option string)
  (c : eclass) : option tmpl :=
  let '(_, _, s, acc, vf) := v in
  match arith_sop op c with
  | None => None
  | Some f =>
      match vf, is_float c with
      | Some pre, true => Some (tmpl_vecf c s (pre ++ op))
      | _, _ => let g := arith_guarded op c in Some (tmpl_loop s g (arith_core acc g f s (zero_of s)))
      end
  end.

Definition arith_families (zero_of : shape -> kexpr) : list (string * (eclass -> option tmpl)) :=
  flat_map (fun op => map (fun v => let '(pre, suf, _, _, _) := v in (pre ++ op ++ suf, arith_tmpl zero_of op v)) arith_shapes) arith_ops
  (* SCHEMA S: the scalar functions `func AddT(a, b T) T { return a op b }` *)
  +++ map (fun op => (op, fun c => match arith_sop op c with
                                   | Some f => Some (mkT [pas; pbs] [("", TT)] [Return [f (Var "a") (Var "b")]])
                                   | None => None end)) arith_ops.

(** ** Comparisons *)
Definition cmp_binop (op : string) : binop :=
  if String.eqb op "Gt" then OGt else if String.eqb op "Gte" then OGe
  else if String.eqb op "Lt" then OLt else if String.eqb op "Lte" then OLe
  else if String.eqb op "Eq" then OEq else ONe.
Definition cmp_has (op : string) (c : eclass) : bool :=
  if String.eqb op "Eq" || String.eqb op "Ne" then true else is_real c || eclass_eqb c CStr.
(* for the Same variants the unsafe.Pointer specialisation does not exist, uintptr does (class COther) *)

(* SCHEMA C1: retVal[k] = x op y *)
Definition cmp_tmpl (op : string) (s : shape) (c : eclass) : option tmpl :=
  if cmp_has op c then Some (tmpl_loop s false [Assign (sh_dst s) (Bin (cmp_binop op) (sh_x s) (sh_y s))]) else None.

Definition same_lits (c : eclass) : kexpr * kexpr :=
  match c with
  | CBool => (Var "true", Var "false")
  | CStr => (StrLit "true", StrLit "false")
  | _ => (Lit "1", Lit "0")
  end.

(* SCHEMA C2: if x op y { dst = 1 } else { dst = 0 } *)
Definition same_tmpl (op : string) (s : shape) (c : eclass) : option tmpl :=
  if cmp_has op c then
    let '(one, zero) := same_lits c in
    Some (tmpl_loop s false [If Skip (Bin (cmp_binop op) (sh_x s) (sh_y s)) [Assign (sh_dst s) one] [Assign (sh_dst s) zero]])
  else None.

Definition cmp_families : list (string * (eclass -> option tmpl)) :=
  flat_map (fun op =>
    [(op, cmp_tmpl op sh_cmp); (op ++ "SV", cmp_tmpl op sh_cmp_sv); (op ++ "VS", cmp_tmpl op sh_cmp_vs);
     (op ++ "Iter", cmp_tmpl op sh_cmp_iter); (op ++ "IterSV", cmp_tmpl op sh_cmp_iter_sv); (op ++ "IterVS", cmp_tmpl op sh_cmp_iter_vs);
     (op ++ "Same", same_tmpl op sh_vv); (op ++ "SameSV", same_tmpl op sh_sv); (op ++ "SameVS", same_tmpl op sh_vs);
     (op ++ "SameIter", same_tmpl op sh_iter); (op ++ "SameIterSV", same_tmpl op sh_iter_sv); (op ++ "SameIterVS", same_tmpl op sh_iter_vs)]) cmp_ops.

(** ** Unary *)
Definition set_x (s : shape) (e : kexpr) : list kstmt := [Assign (sh_dst s) e].

(* the loop body of a unary kernel at a class *)
Definition unary_core (u : string) (c : eclass) (s : shape) : option (list kstmt) :=
  let x := sh_x s in
  if String.eqb u "Neg" then (if is_num c then Some (set_x s (Un UNeg x)) else None)
  else if String.eqb u "Inv" then (if is_num c then Some (set_x s (Bin ODiv (Lit "1") x)) else None)
  else if String.eqb u "Square" then (if is_num c then Some (set_x s (Bin OMul x x)) else None)
  else if String.eqb u "Cube" then (if is_num c then Some (set_x s (Bin OMul (Bin OMul x x) x)) else None)
  else if existsb (String.eqb u) cplx_unary then (if is_float c || is_cplx c then Some (set_x s (mcall c u [x])) else None)
  else if String.eqb u "Log2" || String.eqb u "Cbrt" then (if is_float c then Some (set_x s (mcall c u [x])) else None)
  else if String.eqb u "InvSqrt" then (if is_float c then Some (set_x s (Bin ODiv (Conv TT (Lit "1")) (mcall c "Sqrt" [x]))) else None)
  else if String.eqb u "Abs" then
    (if eclass_eqb c Signed then Some [If Skip (Bin OLt x (Lit "0")) (set_x s (Un UNeg x)) []]
     else if is_float c then Some (set_x s (mcall c "Abs" [x])) else None)
  else if String.eqb u "Sign" then
    (if eclass_eqb c Signed || is_float c then
       Some [If Skip (Bin OLt x (Lit "0")) (set_x s (Un UNeg (Lit "1"))) [If Skip (Bin OGt x (Lit "0")) (set_x s (Lit "1")) []]]
     else None)
  else if String.eqb u "Clamp" then
    (let lo := if is_float c then Bin OOr (Bin OLt x (Var "min")) (mcall c "IsInf" [x; Un UNeg (Lit "1")]) else Bin OLt x (Var "min") in
     let hi := if is_float c then Bin OOr (Bin OGt x (Var "max")) (mcall c "IsInf" [x; Lit "1"]) else Bin OGt x (Var "max") in
     if is_real c then Some [If Skip lo (set_x s (Var "min") +++ [Continue]) []; If Skip hi (set_x s (Var "max")) []] else None)
  else None.

Definition unary_ops : list string :=
  ["Neg"; "Inv"; "Square"; "Cube"; "Exp"; "Tanh"; "Log"; "Log2"; "Log10"; "Sqrt"; "Cbrt"; "InvSqrt"; "Abs"; "Sign"; "Clamp"].

Definition unary_tmpl (u : string) (s : shape) (c : eclass) : option tmpl :=
  match unary_core u c s with Some core => Some (tmpl_loop s false core) | None => None end.

Definition unary_families : list (string * (eclass -> option tmpl)) :=
  flat_map (fun u =>
    let extra := if String.eqb u "Clamp" then [("min", TT); ("max", TT)] else [] in
    [(u, unary_tmpl u (sh_un extra)); (u ++ "Iter", unary_tmpl u (sh_un_iter extra))]) unary_ops.

(** ** Min / Max between *)
Definition mm_has (c : eclass) := is_real c || eclass_eqb c CStr.
(* the operand that is not the destination *)
Definition sh_other (s : shape) : kexpr := if kexpr_eqb (sh_dst s) (sh_y s) then sh_x s else sh_y s.

(* SCHEMA M: if other op dst { dst = other } *)
Definition mm_tmpl (o : binop) (s : shape) (c : eclass) : option tmpl :=
  if mm_has c then Some (tmpl_loop s false [If Skip (Bin o (sh_other s) (sh_dst s)) [Assign (sh_dst s) (sh_other s)] []]) else None.

(* SCHEMA M': the vector-vector flat loop is written with range values:  for i, v := range a { bv := b[i]; if bv op v { a[i] = bv } } *)
Definition mm_vec_tmpl (o : binop) (c : eclass) : option tmpl :=
  if mm_has c then
    Some (mkT [pa; pb] [] [reslice "a"; reslice_to "b" "a";
          Range "i" "v" (Var "a") [Define ["bv"] (ix "b" "i"); If Skip (Bin o (Var "bv") (Var "v")) [Assign (ix "a" "i") (Var "bv")] []]])
  else None.

Definition mm_families : list (string * (eclass -> option tmpl)) :=
  flat_map (fun p : string * binop => let (n, o) := p in
    [("Vec" ++ n, mm_vec_tmpl o); (n ++ "SV", mm_tmpl o sh_sv); (n ++ "VS", mm_tmpl o sh_vs);
     (n ++ "IterSV", mm_tmpl o sh_iter_sv); (n ++ "IterVS", mm_tmpl o sh_iter_vs); ("Vec" ++ n ++ "Iter", mm_tmpl o sh_iter);
     (n, fun c => if mm_has c then Some (mkT [pas; pbs] [("c", TT)]
                     [If Skip (Bin o (Var "a") (Var "b")) [Return [Var "a"]] []; Return [Var "b"]]) else None)])
    [("Min", OLt); ("Max", OGt)].

(** ** Map *)
Definition fn_plain := ("fn", TFunc [TT] [TT]).
Definition fn_err := ("fn", TFunc [TT] [TT; tErr]).
Definition fn_a := Call "fn" [ix "a" "i"].

(* SCHEMA P: a[i] = fn(a[i])  /  a[i] += fn(a[i]);  the Err variants stop at the first real error.
   [store] says how the value returned by the error-returning fn reaches a[i] in the Incr variant;
   canonically `a[i] += x`. *)
Definition map_core (incr errv : bool) (store : kexpr -> kexpr -> kstmt) : list kstmt :=
  match incr, errv with
  | false, false => [Assign (ix "a" "i") fn_a]
  | true, false => [OpAssign OAdd (ix "a" "i") fn_a]
  | false, true => [If (AssignN [ix "a" "i"; err_] fn_a) (Bin ONe (Call "handleNoOp" [err_]) nil_) [Return []] []]
  | true, true =>
      [VarDecl ["x"] TT [];
       If (AssignN [Var "x"; err_] fn_a) (Bin ONe err_ nil_)
          [If (Assign err_ (Call "handleNoOp" [err_])) (Bin ONe err_ nil_) [Return []] []] [];
       store (ix "a" "i") (Var "x")]
  end.

Definition map_tmpl (iter incr errv : bool) (store : kexpr -> kexpr -> kstmt) (c : eclass) : option tmpl :=
  (* no increment for bool, uintptr, unsafe.Pointer *)
  if incr && (eclass_eqb c CBool || eclass_eqb c COther) then None else
  let fnp := if errv then fn_err else fn_plain in
  let core := map_core incr errv store in
  Some (if iter
        then mkT [fnp; pa; pit "ait"] [("err", tErr)] (build (LIter [("i", "ait")]) false core)
        else mkT [fnp; pa] (if errv then [("err", tErr)] else []) (build (LRange [] "a") false core +++ [Return []])).

Definition map_families (store : kexpr -> kexpr -> kstmt) : list (string * (eclass -> option tmpl)) :=
  [("Map", map_tmpl false false false store); ("MapErr", map_tmpl false false true store);
   ("MapIter", map_tmpl true false false store); ("MapIterErr", map_tmpl true false true store);
   ("MapIncr", map_tmpl false true false store); ("MapIncrErr", map_tmpl false true true store);
   ("MapIterIncr", map_tmpl true true false store); ("MapIterIncrErr", map_tmpl true true true store)].

(** ** Folds and arg-methods (written out; they have no variants to share a schema with) *)
Definition sum_tmpl (prod : bool) (c : eclass) : option tmpl :=
  if is_num c then
    Some (mkT [pa] [("", TT)]
      ((if prod then [If Skip (Bin OEq (Len (Var "a")) (Lit "0")) [Return [Lit "0"]] []] else [])
       +++ [VarDecl ["retVal"] TT (if prod then [Lit "1"] else []); reslice "a";
            Range "_" "v" (Var "a") [OpAssign (if prod then OMul else OAdd) (Var "retVal") (Var "v")];
            Return [Var "retVal"]]))
  else None.

(* SCHEMA G: first unmasked element wins, then strictly better elements; floats stop at NaN / the infinity of that side *)
Definition arg_tmpl (mx masked : bool) (c : eclass) : option tmpl :=
  if mm_has c then
    let best := if mx then "max" else "min" in
    let cmp := if mx then OGt else OLt in
    let inf := if mx then Lit "1" else Un UNeg (Lit "1") in
    Some (mkT (pa :: if masked then [("mask", TSlice TBool)] else []) [("", TInt)]
      [VarDecl ["set"] TBool []; VarDecl ["f"] TT []; VarDecl [best] TInt [];
       Range "i" "" (Var "a")
         ((if masked then [If Skip (ix "mask" "i") [Continue] []] else [])
          +++ [Define ["v"] (ix "a" "i");
               If Skip (Un UNot (Var "set")) [Assign (Var "f") (Var "v"); Assign (Var best) (Var "i"); Assign (Var "set") (Var "true"); Continue] []]
          +++ (if is_float c then [If Skip (Bin OOr (mcall c "IsNaN" [Var "v"]) (mcall c "IsInf" [Var "v"; inf]))
                                      [Assign (Var best) (Var "i"); Return [Var best]] []] else [])
          +++ [If Skip (Bin cmp (Var "v") (Var "f")) [Assign (Var best) (Var "i"); Assign (Var "f") (Var "v")] []]);
       Return [Var best]])
  else None.

Definition fold_families : list (string * (eclass -> option tmpl)) :=
  [("Sum", sum_tmpl false); ("Prod", sum_tmpl true);
   ("Argmax", arg_tmpl true false); ("ArgmaxMasked", arg_tmpl true true);
   ("Argmin", arg_tmpl false false); ("ArgminMasked", arg_tmpl false true)].

(** ** The template table *)
Definition templates_with (zero_of : shape -> kexpr) (store : kexpr -> kexpr -> kstmt) : list (string * (eclass -> option tmpl)) :=
  arith_families zero_of +++ cmp_families +++ unary_families +++ mm_families +++ map_families store +++ fold_families.

(* CANONICAL: the division guard resets the destination it is about to skip; IncrErr accumulates *)
Definition templates := templates_with sh_dst (OpAssign OAdd).

(* families without a template: the reduction plumbing of generic_reduce.go (C-style loops over
   strides, copy(), variadic calls).  They are checked for uniformity and class consistency only. *)
Definition untemplated : list string :=
  ["Reduce"; "SliceMin"; "SliceMax"; "reduceFirst"; "genericReduceFirst"; "reduceLast"; "genericReduceLast"; "reduceDefault"].

(* KNOWN DEVIATIONS from the canonical templates (uniform inside their class, but not canonical):
   1. Div{IterIncr,IterIncrSV,IterIncrVS} for the integer classes: the zero-divisor guard of the
      iterator+incr loop does `incr[i] = 0` although the index into incr is k (i indexes a, resp. b):
      it resets the wrong element (or panics when i >= len(incr)) and leaves incr[k] untouched.
      The flat loops (DivIncr, DivIncrSV, DivIncrVS) use one index and are correct.
   2. Map{IncrErr,IterIncrErr} (all classes): the value returned by fn is stored with `a[i] = x`,
      not `a[i] += x`; the "Incr" of the name is lost whenever the mapped function can return an error. *)
Definition known_noncanonical : list (string * eclass) :=
  flat_map (fun f => [(f, Signed); (f, Unsigned)]) ["DivIterIncr"; "DivIterIncrSV"; "DivIterIncrVS"]
  +++ flat_map (fun f => map (fun c => (f, c)) [Signed; Unsigned; F32; F64; C64; C128; CStr]) ["MapIncrErr"; "MapIterIncrErr"].

(* the deviant templates, so that the deviation is pinned down exactly and not just excused *)
Definition zero_deviant (s : shape) : kexpr :=
  match sh_dst s with Idx (Var "incr") (Var "k") => ix "incr" "i" | d => d end.
Definition templates_deviant := templates_with zero_deviant Assign.

Definition lookup {B} (key : string) (l : list (string * B)) : option B :=
  match find (fun p => String.eqb (fst p) key) l with Some p => Some (snd p) | None => None end.

Definition matches_tmpl (k : kernel) (t : tmpl) : bool :=
  let w := amb (k_suffix k) in
  params_eqb (subst_params w (t_params t)) (k_params k)
  && params_eqb (subst_params w (t_rets t)) (k_rets k)
  && body_eqb (subst_body w (t_body t)) (k_body k).

Definition canonical_in (tbl : list (string * (eclass -> option tmpl))) (k : kernel) : bool :=
  match lookup (k_family k) tbl with
  | Some f => match f (k_class k) with Some t => matches_tmpl k t | None => false end
  | None => false
  end.

Definition canonicalb : kernel -> bool := canonical_in templates.
Definition deviantb : kernel -> bool := canonical_in templates_deviant.
Definition in_untemplated (k : kernel) : bool := existsb (String.eqb (k_family k)) untemplated.
Definition in_exceptions (k : kernel) : bool :=
  existsb (fun p => String.eqb (fst p) (k_family k) && eclass_eqb (snd p) (k_class k)) known_noncanonical.

(* every (family, class) the template table provides is inhabited by some kernel *)
Definition all_classes := [Signed; Unsigned; F32; F64; C64; C128; CBool; CStr; COther].
Definition templates_usedb (ks : list kernel) : bool :=
  forallb (fun p : string * (eclass -> option tmpl) =>
    forallb (fun c => match snd p c with
                      | None => true
                      | Some _ => existsb (fun k => if eclass_eqb (k_class k) c then String.eqb (k_family k) (fst p) else false) ks
                      end) all_classes) templates.

(* the name suffix is the one belonging to the element type, and T occurs in the signature *)
Definition suffix_table : list (string * (string * eclass)) :=
  [("I", ("int", Signed)); ("I8", ("int8", Signed)); ("I16", ("int16", Signed)); ("I32", ("int32", Signed)); ("I64", ("int64", Signed));
   ("U", ("uint", Unsigned)); ("U8", ("uint8", Unsigned)); ("U16", ("uint16", Unsigned)); ("U32", ("uint32", Unsigned)); ("U64", ("uint64", Unsigned));
   ("F32", ("float32", F32)); ("F64", ("float64", F64)); ("C64", ("complex64", C64)); ("C128", ("complex128", C128));
   ("B", ("bool", CBool)); ("Str", ("string", CStr)); ("Uintptr", ("uintptr", COther)); ("UnsafePointer", ("unsafe.Pointer", COther))].

Fixpoint mentions_T (t : kty) : bool :=
  match t with
  | TT => true
  | TSlice t' | TVariadic t' => mentions_T t'
  | TFunc a r => existsb mentions_T a || existsb mentions_T r
  | _ => false
  end.

Definition well_namedb (k : kernel) : bool :=
  match lookup (k_suffix k) suffix_table with
  | Some (e, c) => String.eqb e (k_elem k) && eclass_eqb c (k_class k)
                   && String.eqb (k_family k ++ k_suffix k) (k_name k)
                   && existsb (fun p => mentions_T (snd p)) (k_params k)
  | None => false
  end.

(* untranslated fragments *)
Fixpoint expr_has_opaque (e : kexpr) : bool :=
  match e with
  | OpaqueE _ => true
  | Idx a i => expr_has_opaque a || expr_has_opaque i
  | Un _ e' | Conv _ e' | Len e' | Spread e' => expr_has_opaque e'
  | Bin _ a b => expr_has_opaque a || expr_has_opaque b
  | Call _ l => existsb expr_has_opaque l
  | Slice a l h => expr_has_opaque a || expr_has_opaque l || expr_has_opaque h
  | _ => false
  end.

Fixpoint stmt_has_opaque (s : kstmt) : bool :=
  match s with
  | Opaque _ => true
  | Range _ _ x b => expr_has_opaque x || existsb stmt_has_opaque b
  | Loop b => existsb stmt_has_opaque b
  | ForC i c p b => stmt_has_opaque i || expr_has_opaque c || stmt_has_opaque p || existsb stmt_has_opaque b
  | If i c t e => stmt_has_opaque i || expr_has_opaque c || existsb stmt_has_opaque t || existsb stmt_has_opaque e
  | Assign l r | OpAssign _ l r => expr_has_opaque l || expr_has_opaque r
  | AssignN l r => existsb expr_has_opaque l || expr_has_opaque r
  | Define _ r => expr_has_opaque r
  | IncDec _ e | ExprS e | AppendErrs e => expr_has_opaque e
  | Return l => existsb expr_has_opaque l
  | VarDecl _ _ l => existsb expr_has_opaque l
  | _ => false
  end.

(* ------------------------------------------------------------------------------------------- *)
(** * 8. Dispatch *)

Inductive apat :=
| PAcc (v : string)        (* v.<Accessor>()      — the whole typed slice of header v *)
| PAcc0 (v : string)       (* v.<Accessor>()[0]   — header v is a scalar *)
| PSpread (v : string)     (* v.<Accessor>()...   *)
| PBools (v : string)      (* v.Bools() *)
| PRaw (s : string).       (* a parameter or local passed through *)

Definition render (acc : string) (p : apat) : string :=
  match p with
  | PAcc v => v ++ "." ++ acc ++ "()"
  | PAcc0 v => v ++ "." ++ acc ++ "()[0]"
  | PSpread v => v ++ "." ++ acc ++ "()..."
  | PBools v => v ++ ".Bools()"
  | PRaw s => s
  end.

(* case of `switch t`  ->  (kernel suffix, accessor of storage.Header) *)
Definition tcases : list (string * (string * string)) :=
  [("Bool", ("B", "Bools")); ("Int", ("I", "Ints")); ("Int8", ("I8", "Int8s")); ("Int16", ("I16", "Int16s"));
   ("Int32", ("I32", "Int32s")); ("Int64", ("I64", "Int64s")); ("Uint", ("U", "Uints")); ("Uint8", ("U8", "Uint8s"));
   ("Uint16", ("U16", "Uint16s")); ("Uint32", ("U32", "Uint32s")); ("Uint64", ("U64", "Uint64s"));
   ("Uintptr", ("Uintptr", "Uintptrs")); ("Float32", ("F32", "Float32s")); ("Float64", ("F64", "Float64s"));
   ("Complex64", ("C64", "Complex64s")); ("Complex128", ("C128", "Complex128s")); ("String", ("Str", "Strings"));
   ("UnsafePointer", ("UnsafePointer", "UnsafePointers"))].

Definition A := PAcc "a".  Definition A0 := PAcc0 "a".
Definition B := PAcc "b".  Definition B0 := PAcc0 "b".
Definition I_ := PAcc "incr". Definition R_ := PBools "retVal".
Definition sBoth := "as&&bs". Definition sSV := "as&&!bs". Definition sVS := "!as&&bs". Definition sDef := "default".
Definition raws := map PRaw.

(* (selector, kernel family, argument patterns) *)
Definition erow := (string * string * list apat)%type.

(* SCHEMA D: the four scalar cases of a binary engine method.
   both scalars / default use the vector kernel [vv0]/[vv]; a scalar left operand the SV kernel with
   a[0]; a scalar right operand the VS kernel with b[0]; operands always in the order a, b, then
   [mid] (incr / retVal), then the iterators of the operands that are walked, in the order a, b, third. *)
Definition bin4 (vv0 : string) (vv0_mid : list apat) (sv vs vv : string) (mid : list apat) (ia ib ic : list string) : list erow :=
  [(sBoth, vv0, [A; B] +++ vv0_mid);
   (sSV, sv, [A0; B] +++ mid +++ raws (ib +++ ic));
   (sVS, vs, [A; B0] +++ mid +++ raws (ia +++ ic));
   (sDef, vv, [A; B] +++ mid +++ raws (ia +++ ib +++ ic))].

Definition expect : list (string * list erow) :=
  flat_map (fun op =>
    [(op, bin4 ("Vec" ++ op) [] (op ++ "SV") (op ++ "VS") ("Vec" ++ op) [] [] [] []);
     (op ++ "Incr", bin4 ("Vec" ++ op) [] (op ++ "IncrSV") (op ++ "IncrVS") (op ++ "Incr") [I_] [] [] []);
     (op ++ "Iter", bin4 ("Vec" ++ op) [] (op ++ "IterSV") (op ++ "IterVS") (op ++ "Iter") [] ["ait"] ["bit"] []);
     (op ++ "IterIncr", bin4 ("Vec" ++ op) [] (op ++ "IterIncrSV") (op ++ "IterIncrVS") (op ++ "IterIncr") [I_] ["ait"] ["bit"] ["iit"]);
     (op ++ "Recv", [("none", op ++ "Recv", [A; B; PAcc "recv"])])]) arith_ops
  +++ [("AddSliced", bin4 "VecAdd" [] "AddSV" "AddVS" "VecAdd" [] [] [] [])]
  +++ flat_map (fun op =>
    [(op, bin4 op [R_] (op ++ "SV") (op ++ "VS") op [R_] [] [] []);
     (op ++ "Same", bin4 (op ++ "Same") [] (op ++ "SameSV") (op ++ "SameVS") (op ++ "Same") [] [] [] []);
     (op ++ "Iter", bin4 op [R_] (op ++ "IterSV") (op ++ "IterVS") (op ++ "Iter") [R_] ["ait"] ["bit"] ["rit"]);
     (op ++ "SameIter", bin4 (op ++ "Same") [] (op ++ "SameIterSV") (op ++ "SameIterVS") (op ++ "SameIter") [] ["ait"] ["bit"] [])]) cmp_ops
  +++ flat_map (fun n =>
    [(n ++ "Between", bin4 ("Vec" ++ n) [] (n ++ "SV") (n ++ "VS") ("Vec" ++ n) [] [] [] []);
     (n ++ "BetweenIter", bin4 ("Vec" ++ n) [] (n ++ "IterSV") (n ++ "IterVS") ("Vec" ++ n ++ "Iter") [] ["ait"] ["bit"] [])]) ["Max"; "Min"]
  +++ flat_map (fun u =>
    let extra := if String.eqb u "Clamp" then raws ["min"; "max"] else [] in
    [(u, [("none", u, A :: extra)]); (u ++ "Iter", [("none", u ++ "Iter", A :: PRaw "ait" :: extra)])]) unary_ops
  +++ [("Map", [(sDef, "Map", [PRaw "f0"; A]);
                ("!as&&f0==nil", "MapErr", [PRaw "f1"; A]);            (* types without increment *)
                ("!as&&!incr&&f0==nil", "MapErr", [PRaw "f1"; A]);
                ("!as&&incr&&f0!=nil", "MapIncr", [PRaw "f0"; A]);
                ("!as&&incr&&f0==nil", "MapIncrErr", [PRaw "f1"; A])]);
       ("MapIter", [(sDef, "MapIter", [PRaw "f0"; A; PRaw "ait"]);
                    ("f0==nil", "MapIterErr", [PRaw "f1"; A; PRaw "ait"]);
                    ("!incr&&f0==nil", "MapIterErr", [PRaw "f1"; A; PRaw "ait"]);
                    ("incr&&f0!=nil", "MapIterIncr", [PRaw "f0"; A; PRaw "ait"]);
                    ("incr&&f0==nil", "MapIterIncrErr", [PRaw "f1"; A; PRaw "ait"])]);
       ("ReduceFirst", [("type:func([]T,[]T)", "reduceFirst", [PAcc "data"; PAcc "retVal"] +++ raws ["split"; "size"; "f"]);
                        ("type:func(T,T)T", "genericReduceFirst", [PAcc "data"; PAcc "retVal"] +++ raws ["split"; "size"; "f"])]);
       ("ReduceLast", [("type:func([]T)T", "reduceLast", [PAcc "data"; PAcc "retVal"] +++ raws ["dimSize"; "def"; "f"]);
                       ("type:func(T,T)T", "genericReduceLast", [PAcc "data"; PAcc "retVal"] +++ raws ["dimSize"; "def"; "f"])]);
       ("ReduceDefault", [("none", "reduceDefault", [PAcc "data"; PAcc "retVal"] +++ raws ["dim0"; "dimSize"; "outerStride"; "stride"; "expected"; "f"])]);
       ("Reduce", [("none", "Reduce", [PRaw "f"; PRaw "def"; PSpread "a"])]);
       ("ArgmaxFlat", [("none", "Argmax", [A])]); ("ArgminFlat", [("none", "Argmin", [A])]);
       ("ArgmaxFlatMasked", [("none", "ArgmaxMasked", [A; PRaw "mask"])]); ("ArgminFlatMasked", [("none", "ArgminMasked", [A; PRaw "mask"])]);
       ("ArgmaxIter", [("none", "Argmax", [PRaw "tmp"])]); ("ArgminIter", [("none", "Argmin", [PRaw "tmp"])]);
       (* the window of the mask that belongs to the window tmp of the data *)
       ("ArgmaxIterMasked", [("none", "ArgmaxMasked", raws ["tmp"; "newMask"])]);
       ("ArgminIterMasked", [("none", "ArgminMasked", raws ["tmp"; "newMask"])]);
       ("MonotonicSum", [("none", "Sum", [A])]); ("MonotonicMax", [("none", "SliceMax", [A])]); ("MonotonicMin", [("none", "SliceMin", [A])]);
       ("SumMethods", [("none", "VecAdd", []); ("none", "Sum", []); ("none", "Add", [])]);
       ("MaxMethods", [("none", "VecMax", []); ("none", "SliceMax", []); ("none", "Max", [])]);
       ("MinMethods", [("none", "VecMin", []); ("none", "SliceMin", []); ("none", "Min", [])])].

(* KNOWN DISPATCH DEVIATION: Arg{max,min}IterMasked collect the mask entries of the current window
   in newMask, but then call Arg..Masked(tmp, mask) with the WHOLE mask: the kernel reads
   mask[0..lastSize) for every window; newMask is never used. *)
Definition known_dispatch_deviations : list string := ["ArgmaxIterMasked"; "ArgminIterMasked"].

Definition dispatch_matchb (d : dispatch_row) : bool :=
  match lookup (d_tcase d) tcases, lookup (d_method d) expect with
  | Some (suf, acc), Some es =>
      existsb (fun e : erow => let '(sel, fam, pats) := e in
        if String.eqb sel (d_sel d) then
          String.eqb (fam ++ suf) (d_kernel d) && leqb String.eqb (map (render acc) pats) (d_args d)
        else false) es
  | _, _ => false
  end.

Definition dispatch_okb (d : dispatch_row) : bool :=
  dispatch_matchb d || existsb (String.eqb (d_method d)) known_dispatch_deviations.

(* what the known deviation is, exactly *)
Definition dispatch_deviantb (d : dispatch_row) : bool :=
  match lookup (d_tcase d) tcases with
  | Some (suf, _) =>
      (String.eqb (d_kernel d) ("ArgmaxMasked" ++ suf) || String.eqb (d_kernel d) ("ArgminMasked" ++ suf))
      && leqb String.eqb ["tmp"; "mask"] (d_args d)
  | None => false
  end.

(** ** Error results that the dispatcher throws away *)
Definition returns_err (k : kernel) : bool := existsb (fun p => kty_eqb (snd p) tErr) (k_rets k).

(* the row calls a kernel that returns an error as a bare expression statement *)
Definition drops_errb (ks : list kernel) (d : dispatch_row) : bool :=
  if String.eqb (d_use d) "expr" then
    match find (fun k => String.eqb (k_name k) (d_kernel d)) ks with
    | Some k => returns_err k
    | None => false
    end
  else false.

(* KNOWN: engine methods whose type switch calls error-returning kernels as statements.
   - <Op>Iter, <Cmp>SameIter, {Max,Min}BetweenIter: every iterator kernel returns the iterator's
     error; these methods call it as a statement and `return` the still-nil err.
   - MapIter: Map{Iter,IterIncr}T return the iterator's error, called as statements
     (the ...Err kernels are assigned to err).
   - Div, DivIncr, DivRecv, DivIter and the as&&bs case of DivIterIncr: the integer kernels return
     the indices of the zero divisors; Div keeps them except in the case `as && bs` (both scalar),
     DivIncr / DivRecv / DivIter never do, so integer division by zero is silently turned into 0. *)
Definition known_err_dropped : list string :=
  map (fun op => op ++ "Iter") arith_ops +++ map (fun op => op ++ "SameIter") cmp_ops
  +++ ["MaxBetweenIter"; "MinBetweenIter"; "MapIter"; "Div"; "DivIncr"; "DivRecv"; "DivIterIncr"].

Definition dispatch_err_okb (ks : list kernel) (d : dispatch_row) : bool :=
  negb (drops_errb ks d) || existsb (String.eqb (d_method d)) known_err_dropped.

(* ------------------------------------------------------------------------------------------- *)
(** * 9. What the boolean checks mean (for any table) *)

Lemma eclass_eqb_refl c : eclass_eqb c c = true.
Proof. destruct c; reflexivity. Qed.

(* two unambiguous specialisations of one family and class are literally the same function *)
Lemma uniformb_sound (ks : list kernel) :
  uniformb ks = true ->
  forall k k', In k ks -> In k' ks ->
  k_family k = k_family k' -> k_class k = k_class k' ->
  amb (k_suffix k) = [] -> amb (k_suffix k') = [] ->
  k_params k = k_params k' /\ k_rets k = k_rets k' /\ k_body k = k_body k'.
Proof.
  intros U k k' Hk Hk' Hf Hc Ha Ha'.
  unfold uniformb in U.
  rewrite forallb_forall in U. specialize (U k Hk). rewrite forallb_forall in U. specialize (U k' Hk').
  unfold same_family in U. rewrite Hf, String.eqb_refl, Hc, eclass_eqb_refl in U.
  unfold kernel_eq_mod in U. rewrite Ha, Ha' in U. cbn [List.app subst_body subst_params] in U.
  apply andb_true_iff in U as [U U3]. apply andb_true_iff in U as [U1 U2].
  split; [|split]; [apply params_eqb_eq | apply params_eqb_eq | apply body_eqb_eq]; assumption.
Qed.

(* a kernel outside the two named lists is its template, instantiated *)
Lemma canonical_sound (ks : list kernel) :
  forallb (fun k => canonicalb k || in_untemplated k || in_exceptions k) ks = true ->
  forall k, In k ks -> in_untemplated k = false -> in_exceptions k = false ->
  exists f t, lookup (k_family k) templates = Some f /\ f (k_class k) = Some t /\
              k_params k = subst_params (amb (k_suffix k)) (t_params t) /\
              k_rets k = subst_params (amb (k_suffix k)) (t_rets t) /\
              k_body k = subst_body (amb (k_suffix k)) (t_body t).
Proof.
  intros C k Hk Hu He.
  rewrite forallb_forall in C. specialize (C k Hk).
  rewrite Hu, He, !orb_false_r in C.
  unfold canonicalb, canonical_in in C.
  destruct (lookup (k_family k) templates) as [f|]; [|discriminate].
  destruct (f (k_class k)) as [t|] eqn:Ef; [|discriminate].
  exists f, t. split; [reflexivity|]. split; [exact Ef|].
  unfold matches_tmpl in C. apply andb_true_iff in C as [C C3]. apply andb_true_iff in C as [C1 C2].
  split; [|split]; symmetry; [apply params_eqb_eq | apply params_eqb_eq | apply body_eqb_eq]; assumption.
Qed.
