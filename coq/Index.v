(* Index.v — MODEL of the pure integer core: shape.go (predicates, CalcStrides,
   CalcStridesColMajor) and utils.go (Ltoi, Itol, IsMonotonicInts, UnsafePermute, CheckSlice,
   SliceDetails).  Transcribed from the Go source as it is.  No proofs here. *)
From TV Require Import Base.

(* ---- shape.go predicates ---- *)
Definition is_scalar (s : list Z) : bool := match s with [] => true | _ => false end.
Definition is_scalar_equiv (s : list Z) : bool := forallb (fun d => d =? 1) s.
Definition is_colvec (s : list Z) : bool :=
  match s with [a; b] => (b =? 1) && (1 <? a) | _ => false end.
Definition is_rowvec (s : list Z) : bool :=
  match s with [a; b] => (a =? 1) && (1 <? b) | _ => false end.
Definition is_vector (s : list Z) : bool :=
  is_colvec s || is_rowvec s || (length s =? 1)%nat.
Definition is_vectorlike_shape (s : list Z) : bool :=
  Nat.leb (length (filter (fun d => negb (d =? 1)) s)) 1.
Definition allones (s : list Z) : bool := forallb (fun d => d =? 1) s.

(* Shape.CalcStrides: nil for a scalar, otherwise suffix products. *)
Fixpoint calc_strides (s : list Z) : list Z :=
  match s with [] => [] | _ :: r => size r :: calc_strides r end.

(* Shape.CalcStridesColMajor: nil for scalar-equivalents, a single 1 for vectors,
   otherwise prefix products. *)
Fixpoint cm_aux (acc : Z) (s : list Z) : list Z :=
  match s with [] => [] | d :: r => acc :: cm_aux (acc * d) r end.
Definition calc_strides_cm (s : list Z) : list Z :=
  if is_scalar_equiv s then []
  else if is_vector s then [1]
  else cm_aux 1 s.

(* Shape.Eq — soft equality on vectors *)
Definition shape_eq (s o : list Z) : bool :=
  if is_scalar s && is_scalar o then true
  else if is_vector s && is_vector o
          && (((length s =? 2) && (length o =? 1)) || ((length s =? 1) && (length o =? 2)))%nat
  then
    match s, o with
    | [a; b], [c] => (is_colvec s && (a =? c)) || (is_rowvec s && (b =? c))
    | [c], [a; b] => (is_colvec o && (a =? c)) || (is_rowvec o && (b =? c))
    | _, _ => false
    end
  else list_eqb s o.

(* ---- utils.go ---- *)

(* Ltoi: the loop over the coordinates.  [vec1] is the loop-invariant condition
   shape.IsVector() && len(strides) == 1. *)
Fixpoint ltoi_loop (shape strides : list Z) (vec1 : bool) (i : nat) (cs : list Z) (at_ : Z)
  : res Z :=
  match cs with
  | [] => Ok at_
  | c :: cs' =>
    match nth_error shape i with
    | None => Err                                   (* i >= len(shape) *)
    | Some sz =>
      if (sz <=? c) || (c <? 0) then Err            (* coord >= size || coord < 0 *)
      else
        match (if vec1 then nth_error strides 0 else nth_error strides i) with
        | None => Err                               (* i >= len(strides) *)
        | Some st => ltoi_loop shape strides vec1 (S i) cs' (at_ + st * c)
        end
    end
  end.

Definition ltoi (shape strides coords : list Z) : res Z :=
  if is_scalar_equiv shape then
    if forallb (fun v => v =? 0) coords then Ok 0 else Err
  else
    ltoi_loop shape strides (is_vector shape && (length strides =? 1)%nat) 0 coords 0.

(* divmod of mathutils: Go's truncated / and % (both the asm and the pure-Go version) *)
Definition divmod (a b : Z) : Z * Z := (Z.quot a b, Z.rem a b).

(* Itol: for d < len(strides): coord, i = divmod(i, strides[d]); the error is recorded but the
   loop goes on (the early return is commented out), so the coordinates are always produced.
   A zero stride makes Go panic (integer divide by zero). *)
Fixpoint itol_loop (i : Z) (shape strides : list Z) (bad : bool) : res (list Z * bool) :=
  match strides with
  | [] => Ok ([], bad)
  | st :: strides' =>
    if st =? 0 then Panic else
    let (c, i') := divmod i st in
    match shape with
    | [] => Panic                                     (* shape[d] out of range *)
    | sd :: shape' =>
      match itol_loop i' shape' strides' (bad || (sd <=? c)) with
      | Ok (cs, b) => Ok (c :: cs, b)
      | Err => Err
      | Panic => Panic
      end
    end
  end.
Definition itol (i : Z) (shape strides : list Z) : res (list Z * bool) :=
  itol_loop i shape strides false.

(* IsMonotonicInts *)
Fixpoint mono_loop (prev : Z) (a : list Z) (incr1 : bool) : bool * bool :=
  match a with
  | [] => (true, incr1)
  | v :: a' =>
    if v <? prev then (false, false)
    else mono_loop v a' (incr1 && (v =? prev + 1))
  end.
Definition is_monotonic (a : list Z) : bool * bool :=
  match a with
  | [] => (true, true)
  | v :: a' => mono_loop v a' true
  end.

(* UnsafePermute on one or several int slices.
   Validation: every axis < dims (there is NO lower-bound test in the Go code), no repeats;
   monotone-by-one patterns are reported as no-ops; dims = 2 swaps; otherwise the cycle walk
     for i: to := pattern[i]; for to < i { to = pattern[to] }; swap x[i], x[to].
   A negative axis reaches pattern[to] / x[to] with a negative index: Go panics. *)
Inductive perm_res (A : Type) := POk (x : A) | PNoop | PErr | PPanic.
Arguments POk {A} x. Arguments PNoop {A}. Arguments PErr {A}. Arguments PPanic {A}.

Fixpoint has_dup (seen a : list Z) : bool :=
  match a with
  | [] => false
  | x :: r => existsb (Z.eqb x) seen || has_dup (x :: seen) r
  end.

Fixpoint chase (fuel : nat) (pattern : list Z) (i to : Z) : option Z :=
  if i <=? to then Some to else
  match fuel with
  | O => None
  | S f => match zget pattern to with
           | None => None
           | Some t' => chase f pattern i t'
           end
  end.

Definition swapz {A} (x : list A) (i j : Z) : option (list A) :=
  match zget x i, zget x j with
  | Some xi, Some xj =>
    match zset x i xj with
    | Some x1 => zset x1 j xi
    | None => None
    end
  | _, _ => None
  end.

Fixpoint permute_loop {A} (n : nat) (i : Z) (pattern : list Z) (x : list A) : option (list A) :=
  match n with
  | O => Some x
  | S n' =>
    match zget pattern i with
    | None => None
    | Some to0 =>
      match chase (length pattern) pattern i to0 with
      | None => None
      | Some to =>
        match swapz x i to with
        | None => None
        | Some x' => permute_loop n' (i + 1) pattern x'
        end
      end
    end
  end.

Definition unsafe_permute {A} (pattern : list Z) (x : list A) : perm_res (list A) :=
  if negb (length pattern =? length x)%nat then PErr
  else if existsb (fun a => zlen x <=? a) pattern then PErr
  else if has_dup [] pattern then PErr
  else if (let (m, i1) := is_monotonic pattern in m && i1) then PNoop
  else
    match length x with
    | O | S O => POk x
    | S (S O) => match x with [a; b] => POk [b; a] | _ => PPanic end
    | _ => match permute_loop (length x) 0 pattern x with
           | Some x' => POk x'
           | None => PPanic
           end
    end.

(* Slices: None = nil Slice (whole axis); Some (start, end, step). *)
Definition slice := option (Z * Z * Z).

(* CheckSlice *)
Definition check_slice (start end_ step sz : Z) : bool :=
  negb (end_ <? start) && negb (start <? 0)
  && negb ((step =? 0) && (1 <? end_ - start))
  && negb (sz <=? start)
  && negb (step <? 0).            (* SliceDetails' own test since the repair c.f. utils.go: a negative step is refused *)

(* SliceDetails: (start, end clamped, step) or an error *)
Definition slice_details (s : slice) (sz : Z) : option (Z * Z * Z) :=
  match s with
  | None => Some (0, sz, 1)
  | Some (st, en, sp) =>
    if check_slice st en sp sz then Some (st, Z.min en sz, sp) else None
  end.

(* ---- dense_matop.go: At / SetAt reduced to their index arithmetic ---- *)
(* arity check of At/SetAt, then Dense.at = Ltoi(shape, strides, coords) *)
Definition at_index (shape strides coords : list Z) : res Z :=
  if negb (length coords =? length shape)%nat then Err else ltoi shape strides coords.

(* At over a data window: the typed Get panics (slice bounds) outside the window *)
Definition window_at {V} (data : list V) (shape strides coords : list Z) : res V :=
  match at_index shape strides coords with
  | Ok i => match zget data i with Some v => Ok v | None => Panic end
  | Err => Err
  | Panic => Panic
  end.

Definition window_setat {V} (data : list V) (shape strides coords : list Z) (v : V)
  : res (list V) :=
  match at_index shape strides coords with
  | Ok i => match zset data i v with Some d => Ok d | None => Panic end
  | Err => Err
  | Panic => Panic
  end.
