(* PropC04.v — C04 "Views alias their source; copies do not; whole-tensor writes touch exactly the
   tensor's own elements" (with the C01 access theorems At/SetAt over a store).
   Only statements; every proof is `exact <lemma of MemProofs>`.
   MODEL functions (Mem.v): m_at, m_setat, m_slice, m_T, m_memset, m_zero, m_clone,
   m_materialize, copy_dense_iter, m_copy, requires_iterator, is_materializable.
   Vocabulary (MemProofs.v), for an arbitrary element type V:
     bget V σ b p      value at ABSOLUTE position p of allocation b   (= zget (get_buf V σ b) p)
     pos d c           absolute position of coordinate c of tensor d  (= d_off d + <strides, c>)
     cell V σ d c      logical element c of d                          (= win_get V σ d <strides, c>)
     wf_ap len a       the access pattern a has dims >= 1, one non-negative stride per axis, and maps
                       the box injectively into [0, len)
     wf_dense V σ d    window inside its allocation, wf_ap (d_len d) for the current AP and for the
                       backed-up AP of a pending lazy transpose            (the invariant of C13)
     contig d          strides = CalcStrides(shape) and d_len d = size of the shape
   Helper definitions of APProofs.v: src_coord / expand / extents / drop_flags (element map of a
   slice), axes_or_rev; of Spec.v: unpermute, is_permb, drop_all. *)
From TV Require Import Base Index AP Iter Mem Spec Guards IndexProofs IterProofs APProofs MemProofs.
Local Arguments bufs {V}.
Local Arguments tens {V}.

(* ---------- At / SetAt ---------- *)
(* At on an in-box coordinate returns the element stored at position pos d c of the allocation *)
Theorem C04_at_reads_cell : forall (V : Type) (σ : store V) t d c,
  get_t V σ t = Some d -> wf_dense V σ d -> inbox (shp (d_ap d)) c ->
  exists v, m_at V σ t c = Ok v /\ cell V σ d c = Some v /\ bget V σ (d_buf d) (pos d c) = Some v.
Proof. exact m_at_cell. Qed.
Print Assumptions C04_at_reads_cell.

(* wrong arity or an out-of-box coordinate is an error, never a panic *)
Theorem C04_at_rejects_outside : forall (V : Type) (σ : store V) t d c,
  get_t V σ t = Some d -> length (str (d_ap d)) = length (shp (d_ap d)) ->
  ~ inbox (shp (d_ap d)) c -> m_at V σ t c = Err.
Proof. exact m_at_outside. Qed.
Print Assumptions C04_at_rejects_outside.

(* SetAt writes exactly one position of one allocation; every other position of every allocation,
   all lengths and all tensor records are unchanged *)
Theorem C04_setat_writes_one_cell : forall (V : Type) (σ : store V) t d c v,
  get_t V σ t = Some d -> wf_dense V σ d -> inbox (shp (d_ap d)) c ->
  exists σ', m_setat V σ t c v = Ok σ' /\
    (tens σ' = tens σ /\ length (bufs σ') = length (bufs σ) /\
     forall b, zlen (get_buf V σ' b) = zlen (get_buf V σ b)) /\
    bget V σ' (d_buf d) (pos d c) = Some v /\
    forall b p, (b <> d_buf d \/ p <> pos d c) -> bget V σ' b p = bget V σ b p.
Proof. exact m_setat_frame. Qed.
Print Assumptions C04_setat_writes_one_cell.

Theorem C04_setat_rejects_outside : forall (V : Type) (σ : store V) t d c v,
  get_t V σ t = Some d -> length (str (d_ap d)) = length (shp (d_ap d)) ->
  ~ inbox (shp (d_ap d)) c -> m_setat V σ t c v = Err.
Proof. exact m_setat_outside. Qed.
Print Assumptions C04_setat_rejects_outside.

(* ---------- views alias ---------- *)
(* Slice: the view is a new tensor record over the SAME allocation, inside the parent's window,
   well-formed; buffers untouched; element c of the view IS (same absolute position) the parent
   element src_coord (expand c).  So by C04_setat_writes_one_cell / C04_at_reads_cell a write
   through either is read through the other.  A one-cell window collapses to the scalar AP. *)
Theorem C04_slice_aliases : forall (V : Type) (σ : store V) t d sl σ' t',
  get_t V σ t = Some d -> wf_dense V σ d ->
  any_axis slice_count_zero (shp (d_ap d)) sl = false ->
  m_slice V σ t sl = Ok (σ', t') ->
  let sh := shp (d_ap d) in
  exists d', t' = length (tens σ) /\ σ' = mkStore V (bufs σ) (tens σ ++ [d']) /\
    d_buf d' = d_buf d /\ d_view d' = true /\ d_old d' = None /\
    d_off d <= d_off d' /\ d_off d' + d_len d' <= d_off d + d_len d /\
    wf_dense V σ' d' /\
    (d_len d' <> 1 ->
       shp (d_ap d') = drop_all (extents 0 sh sl) (drop_flags (extents 0 sh sl) sl) /\
       forall c, inbox (shp (d_ap d')) c ->
         inbox sh (src_coord sh sl (expand (extents 0 sh sl) sl c)) /\
         pos d' c = pos d (src_coord sh sl (expand (extents 0 sh sl) sl c))) /\
    (d_len d' = 1 ->
       d_ap d' = scalar_ap /\ inbox sh (src_coord sh sl (map (fun _ => 0) sh)) /\
       pos d' [] = pos d (src_coord sh sl (map (fun _ => 0) sh))).
Proof. exact m_slice_aliases. Qed.
Print Assumptions C04_slice_aliases.

(* lazy T with nothing pending (rank >= 2, non-vector, axes a non-identity permutation; no axes =
   reversal): same allocation and window, old AP backed up, element c = source element
   unpermute p c at the same absolute position *)
Theorem C04_T_aliases : forall (V : Type) (σ : store V) t d axes,
  get_t V σ t = Some d -> wf_dense V σ d -> d_old d = None ->
  let a := d_ap d in let n := length (shp a) in let p := axes_or_rev n axes in
  is_scalar_equiv (shp a) = false -> is_vector (shp a) = false ->
  is_permb p n = true -> p <> zseq 0 n ->
  exists d', m_T V σ t axes = Ok (set_t V σ t d') /\
    d' = mkDense (d_buf d) (d_off d) (d_len d)
                 (mkAP (permute 0 p (shp a)) (permute 0 p (str a)) (Z.lor (ord a) TR) true)
                 (Some a) (d_view d) /\
    wf_dense V (set_t V σ t d') d' /\
    forall c, inbox (shp (d_ap d')) c ->
      inbox (shp a) (unpermute p c) /\ pos d' c = pos d (unpermute p c).
Proof. exact m_T_aliases. Qed.
Print Assumptions C04_T_aliases.

(* aliasing made observable through the API: a SetAt through one tensor is read by At through
   another exactly when the two coordinates name the same absolute position *)
Theorem C04_setat_at_alias : forall (V : Type) (σ : store V) t1 d1 c1 t2 d2 c2 v,
  get_t V σ t1 = Some d1 -> get_t V σ t2 = Some d2 -> wf_dense V σ d1 -> wf_dense V σ d2 ->
  inbox (shp (d_ap d1)) c1 -> inbox (shp (d_ap d2)) c2 ->
  exists σ', m_setat V σ t1 c1 v = Ok σ' /\
    ((d_buf d1 = d_buf d2 /\ pos d1 c1 = pos d2 c2) -> m_at V σ' t2 c2 = Ok v) /\
    (~ (d_buf d1 = d_buf d2 /\ pos d1 c1 = pos d2 c2) -> m_at V σ' t2 c2 = m_at V σ t2 c2).
Proof. exact setat_at_alias. Qed.
Print Assumptions C04_setat_at_alias.

(* hence: a write through a slice is read through the parent at the source coordinate, and a
   write through the parent is read through the slice *)
Theorem C04_slice_write_through : forall (V : Type) (σ : store V) t d sl σ' t',
  get_t V σ t = Some d -> wf_dense V σ d ->
  any_axis slice_count_zero (shp (d_ap d)) sl = false ->
  m_slice V σ t sl = Ok (σ', t') ->
  let sh := shp (d_ap d) in
  exists d', get_t V σ' t' = Some d' /\ get_t V σ' t = Some d /\
    (d_len d' <> 1 -> forall c v, inbox (shp (d_ap d')) c ->
       let src := src_coord sh sl (expand (extents 0 sh sl) sl c) in
       (exists σ2, m_setat V σ' t' c v = Ok σ2 /\ m_at V σ2 t src = Ok v) /\
       (exists σ2, m_setat V σ' t src v = Ok σ2 /\ m_at V σ2 t' c = Ok v)).
Proof. exact slice_write_through. Qed.
Print Assumptions C04_slice_write_through.

(* ---------- whole-tensor writes ---------- *)
(* Memset: value v at every cell of the tensor, every other position of every allocation
   unchanged, tensor records unchanged.  Iterator path (views, pending transposes) always;
   whole-window path when the window has exactly size-many cells. *)
Theorem C04_memset_frame : forall (V : Type) (σ : store V) t d v,
  get_t V σ t = Some d -> wf_dense V σ d ->
  (is_materializable d = true \/ d_len d = size (shp (d_ap d))) ->
  exists σ', m_memset V σ t v = Ok σ' /\
    (tens σ' = tens σ /\ length (bufs σ') = length (bufs σ) /\
     forall b, zlen (get_buf V σ' b) = zlen (get_buf V σ b)) /\
    (forall b p, b <> d_buf d -> bget V σ' b p = bget V σ b p) /\
    (forall c, inbox (shp (d_ap d)) c -> bget V σ' (d_buf d) (pos d c) = Some v) /\
    (forall p, (forall c, inbox (shp (d_ap d)) c -> p <> pos d c) ->
               bget V σ' (d_buf d) p = bget V σ (d_buf d) p).
Proof. exact m_memset_frame. Qed.
Print Assumptions C04_memset_frame.

Theorem C04_zero_frame : forall (V : Type) (vzero : V) (σ : store V) t d,
  get_t V σ t = Some d -> wf_dense V σ d ->
  (is_materializable d = true \/ d_len d = size (shp (d_ap d))) ->
  exists σ', m_zero V vzero σ t = Ok σ' /\
    (tens σ' = tens σ /\ length (bufs σ') = length (bufs σ) /\
     forall b, zlen (get_buf V σ' b) = zlen (get_buf V σ b)) /\
    (forall b p, b <> d_buf d -> bget V σ' b p = bget V σ b p) /\
    (forall c, inbox (shp (d_ap d)) c -> bget V σ' (d_buf d) (pos d c) = Some vzero) /\
    (forall p, (forall c, inbox (shp (d_ap d)) c -> p <> pos d c) ->
               bget V σ' (d_buf d) p = bget V σ (d_buf d) p).
Proof. exact m_zero_frame. Qed.
Print Assumptions C04_zero_frame.

(* ---------- copies ---------- *)
(* Clone: fresh allocation (id = number of allocations before), same AP, well-formed, equal
   logical content; old allocations and tensors are still there unchanged *)
Theorem C04_clone_fresh_equal : forall (V : Type) (σ : store V) t d,
  get_t V σ t = Some d -> wf_dense V σ d ->
  exists σ' d', m_clone V σ t = Ok (σ', length (tens σ)) /\
    get_t V σ' (length (tens σ)) = Some d' /\
    d' = mkDense (length (bufs σ)) 0 (d_len d) (d_ap d) (d_old d) false /\
    wf_dense V σ' d' /\
    ((forall b, (b < length (bufs σ))%nat -> get_buf V σ' b = get_buf V σ b) /\
     (forall t0 d0, get_t V σ t0 = Some d0 -> get_t V σ' t0 = Some d0)) /\
    length (bufs σ') = S (length (bufs σ)) /\ length (tens σ') = S (length (tens σ)) /\
    forall c, inbox (shp (d_ap d)) c -> cell V σ' d' c = cell V σ d c.
Proof. exact m_clone_fresh_equal. Qed.
Print Assumptions C04_clone_fresh_equal.

(* Materialize of a view / lazily transposed tensor whose contiguity flag is sound (it needs an
   iterator, or it really is contiguous): a fresh row-major contiguous tensor with the same
   logical content.  Covers the iterator path AND the raw-copy path of copyDenseIter. *)
Theorem C04_materialize_fresh_equal : forall (V : Type) (vzero : V) (σ : store V) t d,
  get_t V σ t = Some d -> wf_dense V σ d ->
  is_materializable d = true -> (requires_iterator d = false -> contig d) ->
  let sh := shp (d_ap d) in
  exists σ' d', m_materialize V vzero σ t = Ok (σ', length (tens σ)) /\
    get_t V σ' (length (tens σ)) = Some d' /\
    d' = mkDense (length (bufs σ)) 0 (size sh) (mkAP sh (calc_strides sh) 0 true) None false /\
    wf_dense V σ' d' /\ contig d' /\ zlen (get_buf V σ' (length (bufs σ))) = size sh /\
    ((forall b, (b < length (bufs σ))%nat -> get_buf V σ' b = get_buf V σ b) /\
     (forall t0 d0, get_t V σ t0 = Some d0 -> get_t V σ' t0 = Some d0)) /\
    length (bufs σ') = S (length (bufs σ)) /\ length (tens σ') = S (length (tens σ)) /\
    forall c, inbox sh c -> cell V σ' d' c = cell V σ d c.
Proof. exact m_materialize_fresh_equal. Qed.
Print Assumptions C04_materialize_fresh_equal.

Theorem C04_materialize_noop : forall (V : Type) (vzero : V) (σ : store V) t d,
  get_t V σ t = Some d -> is_materializable d = false -> m_materialize V vzero σ t = Ok (σ, t).
Proof. exact m_materialize_noop. Qed.
Print Assumptions C04_materialize_noop.

(* copyDenseIter / tensor.Copy between tensors of equal shape in DIFFERENT allocations with sound
   contiguity flags: dst's cells receive src's elements coordinate by coordinate, nothing else
   changes (both the iterator path and the raw path) *)
Theorem C04_copy_dense_iter : forall (V : Type) (σ : store V) dst src,
  wf_dense V σ dst -> wf_dense V σ src ->
  d_buf dst <> d_buf src -> shp (d_ap dst) = shp (d_ap src) ->
  (requires_iterator dst = false -> contig dst) -> (requires_iterator src = false -> contig src) ->
  exists σ', copy_dense_iter V σ dst src = Ok σ' /\
    (tens σ' = tens σ /\ length (bufs σ') = length (bufs σ) /\
     forall b, zlen (get_buf V σ' b) = zlen (get_buf V σ b)) /\
    (forall b p, b <> d_buf dst -> bget V σ' b p = bget V σ b p) /\
    (forall c, inbox (shp (d_ap dst)) c ->
               bget V σ' (d_buf dst) (pos dst c) = bget V σ (d_buf src) (pos src c)) /\
    (forall p, (forall c, inbox (shp (d_ap dst)) c -> p <> pos dst c) ->
               bget V σ' (d_buf dst) p = bget V σ (d_buf dst) p).
Proof. exact copy_dense_iter_spec. Qed.
Print Assumptions C04_copy_dense_iter.

Theorem C04_copy : forall (V : Type) (σ : store V) dt st dst src,
  get_t V σ dt = Some dst -> get_t V σ st = Some src ->
  wf_dense V σ dst -> wf_dense V σ src ->
  d_buf dst <> d_buf src -> shp (d_ap dst) = shp (d_ap src) ->
  (requires_iterator dst = false -> contig dst) -> (requires_iterator src = false -> contig src) ->
  exists σ', m_copy V σ dt st = Ok σ' /\
    (tens σ' = tens σ /\ length (bufs σ') = length (bufs σ) /\
     forall b, zlen (get_buf V σ' b) = zlen (get_buf V σ b)) /\
    (forall b p, b <> d_buf dst -> bget V σ' b p = bget V σ b p) /\
    (forall c, inbox (shp (d_ap dst)) c ->
               bget V σ' (d_buf dst) (pos dst c) = bget V σ (d_buf src) (pos src c)) /\
    (forall p, (forall c, inbox (shp (d_ap dst)) c -> p <> pos dst c) ->
               bget V σ' (d_buf dst) p = bget V σ (d_buf dst) p).
Proof. exact m_copy_spec. Qed.
Print Assumptions C04_copy.

(* ---------- necessity of the hypotheses ---------- *)
(* `requires_iterator d = false -> contig d` in C04_materialize_fresh_equal: the row slice [1:3] of
   a lazily transposed 4x6 matrix is flagged contiguous although its strides are [1;6];
   Materialize returns the head of the window, not the view's elements *)
Theorem C04_materialize_flag_unsound_refuted :
  let σ0 := mkStore Z [] [] in
  exists σ1 σT σ2 dv σ3,
    new_raw Z σ0 false [4; 6] (zseq 0 24) = Ok (σ1, 0%nat) /\ m_T Z σ1 0 [] = Ok σT /\
    m_slice Z σT 0 [Some (1, 3, 1)] = Ok (σ2, 1%nat) /\ get_t Z σ2 1 = Some dv /\
    wf_dense Z σ2 dv /\ is_materializable dv = true /\ requires_iterator dv = false /\
    str (d_ap dv) = [1; 6] /\ calc_strides (shp (d_ap dv)) = [4; 1] /\ flag_soundb dv = false /\
    m_materialize Z 0 σ2 1 = Ok (σ3, 2%nat) /\
    logical Z σ2 1 = map Ok [1; 7; 13; 19; 2; 8; 14; 20] /\
    logical Z σ3 2 = map Ok [1; 2; 3; 4; 5; 6; 7; 8].
Proof. exact materialize_flag_unsound_refuted. Qed.
Print Assumptions C04_materialize_flag_unsound_refuted.

(* `d_len d = size shape` on the whole-window path of C04_memset_frame: a rank-0 tensor over a
   3-element backing owns position 0 only, Memset overwrites positions 1 and 2 as well *)
Theorem C04_memset_window_refuted :
  let σ0 := mkStore Z [] [] in
  exists σ1 d σ2,
    new_raw Z σ0 false [] [1; 2; 3] = Ok (σ1, 0%nat) /\ get_t Z σ1 0 = Some d /\
    wf_dense Z σ1 d /\ is_materializable d = false /\ d_len d = 3 /\ size (shp (d_ap d)) = 1 /\
    (forall c, inbox (shp (d_ap d)) c -> pos d c = 0) /\
    m_memset Z σ1 0 9 = Ok σ2 /\ bget Z σ1 0 1 = Some 2 /\ bget Z σ2 0 1 = Some 9.
Proof. exact memset_window_refuted. Qed.
Print Assumptions C04_memset_window_refuted.

(* Non-vacuity (V = Z): a 4x6 row-major matrix and its stepped slice [0:4:2, 1:6:2].  All
   hypotheses above hold for both tensors; a Memset through the view changes exactly the six
   selected elements of the parent; Materialize / Clone of the view live in a fresh allocation. *)
Example C04_example :
  let σ0 := mkStore Z [] [] in
  let sl := [Some (0, 4, 2); Some (1, 6, 2)] in
  exists σ1 σ2 d dv σ3,
    new_raw Z σ0 false [4; 6] (zseq 0 24) = Ok (σ1, 0%nat) /\
    m_slice Z σ1 0 sl = Ok (σ2, 1%nat) /\
    get_t Z σ2 0 = Some d /\ get_t Z σ2 1 = Some dv /\
    wf_dense Z σ2 d /\ wf_dense Z σ2 dv /\
    any_axis slice_count_zero (shp (d_ap d)) sl = false /\
    d_len d = size (shp (d_ap d)) /\ is_materializable d = false /\
    d_buf dv = d_buf d /\ is_materializable dv = true /\ requires_iterator dv = true /\
    shp (d_ap dv) = [2; 3] /\
    map (pos dv) (coords [2; 3]) = map (fun c => pos d (src_coord [4; 6] sl c)) (coords [2; 3]) /\
    m_memset Z σ2 1 (-1) = Ok σ3 /\
    logical Z σ3 0 = map Ok [0; -1; 2; -1; 4; -1; 6; 7; 8; 9; 10; 11;
                             12; -1; 14; -1; 16; -1; 18; 19; 20; 21; 22; 23] /\
    (exists σ4, m_materialize Z 0 σ2 1 = Ok (σ4, 2%nat) /\
                get_buf Z σ4 1 = [1; 3; 5; 13; 15; 17] /\ get_buf Z σ4 0 = get_buf Z σ2 0).
Proof.
  cbv zeta. do 5 eexists.
  split; [vm_compute; reflexivity|]. split; [vm_compute; reflexivity|].
  split; [vm_compute; reflexivity|]. split; [vm_compute; reflexivity|].
  split; [apply wf_denseb_sound; vm_compute; reflexivity|].
  split; [apply wf_denseb_sound; vm_compute; reflexivity|].
  split; [vm_compute; reflexivity|]. split; [vm_compute; reflexivity|].
  split; [vm_compute; reflexivity|]. split; [vm_compute; reflexivity|].
  split; [vm_compute; reflexivity|]. split; [vm_compute; reflexivity|].
  split; [vm_compute; reflexivity|]. split; [vm_compute; reflexivity|].
  split; [vm_compute; reflexivity|]. split; [vm_compute; reflexivity|].
  eexists. split; [vm_compute; reflexivity|]. split; vm_compute; reflexivity.
Qed.
Print Assumptions C04_example.
