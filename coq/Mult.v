(* Mult.v — MODEL of iterator_mult.go (MultIterator) and iterator_utils.go (hashIntArray, the
   FNV-1a 64-bit hash written out).  No proofs here. *)
From TV Require Import Base Index AP Iter.

Definition two64 : Z := 18446744073709551616.
Definition fnv_prime : Z := 1099511628211.
Definition fnv_offset : Z := 14695981039346656037.

(* binary.LittleEndian.PutUint64(uint64(x)) *)
Definition le_bytes (x : Z) : list Z :=
  let u := x mod two64 in
  map (fun k => (u / 2 ^ (8 * k)) mod 256) [0; 1; 2; 3; 4; 5; 6; 7].

Definition fnv1a (bytes : list Z) : Z :=
  fold_left (fun h b => (Z.lxor h b * fnv_prime) mod two64) bytes fnv_offset.

(* hashIntArray after the fix: the 64-bit FNV-1a sum of the little-endian bytes *)
Definition hash_ints (l : list Z) : Z := fnv1a (flat_map le_bytes l).

Record miter := mkMI {
  mi_fits : list fiter;      (* one flat iterator per stride block *)
  mi_which : list nat;       (* operand -> block *)
  mi_last : list Z;          (* lastIndexArr *)
  mi_fit0 : nat;             (* the block whose lastIndex Next() returns *)
  mi_done : bool
}.

(* maxDims / maxShape selection of NewMultIterator *)
Fixpoint max_shape (aps : list ap) (maxDims : nat) (maxShape : list Z) : nat * list Z :=
  match aps with
  | [] => (maxDims, maxShape)
  | a :: r =>
    if (maxDims <=? length (shp a))%nat then
      max_shape r (length (shp a)) (if size maxShape <? size (shp a) then shp a else maxShape)
    else max_shape r maxDims maxShape
  end.

Fixpoint find_key (m : list (Z * nat)) (k : Z) : option nat :=
  match m with
  | [] => None
  | (k', v) :: r => if k =? k' then Some v else find_key r k
  end.

Fixpoint cpz (dst src : list Z) : list Z :=
  match dst, src with
  | _ :: d', s :: s' => s :: cpz d' s'
  | _, _ => dst
  end.

(* the stride block of an operand: BroadcastStrides copied over maxDims zeros *)
Definition block_strides (maxDims : nat) (shape : list Z) (a : ap) : option (list Z) :=
  match broadcast_strides shape (shp a) (repeat 0 maxDims) (str a) with
  | Ok bs => Some (cpz (repeat 0 maxDims) bs)
  | _ => None
  end.

(* the block loop: returns (key map, blocks in creation order, whichBlock) *)
Fixpoint mult_blocks (maxDims : nat) (shape : list Z) (aps : list ap)
         (m : list (Z * nat)) (blocks : list (list Z)) (which : list nat)
  : option (list (list Z) * list nat) :=
  match aps with
  | [] => Some (blocks, which)
  | a :: r =>
    let key := hash_ints (str a) in
    match find_key m key with
    | Some f => mult_blocks maxDims shape r m blocks (which ++ [f])
    | None =>
      match block_strides maxDims shape a with
      | None => None
      | Some bs =>
        let idx := length blocks in
        mult_blocks maxDims shape r ((key, idx) :: m) (blocks ++ [bs]) (which ++ [idx])
      end
    end
  end.

(* the flat iterator of a block: flags computed from the strides as broadcast (zeros still in
   place), then the zero strides are overwritten by ones under the iterator's feet *)
Definition block_iter (shape : list Z) (bs : list Z) : fiter :=
  let it := new_iter (mkAP shape bs 0 true) in
  mkIter (it_shape it) (map (fun k => if k =? 0 then 1 else k) bs) (it_track it) (it_next it)
         (it_last it) (it_size it) (it_done it) (it_vdim it) (it_rev it) (it_scalar it) (it_vec it).

Fixpoint pick_fit0 (fits : list fiter) (i : nat) (best : nat) (bestsize : Z) : nat :=
  match fits with
  | [] => best
  | f :: r => if bestsize <? it_size f then pick_fit0 r (S i) i (it_size f)
              else pick_fit0 r (S i) best bestsize
  end.

Definition new_mult (aps : list ap) : res miter :=
  match aps with
  | [] => Err
  | a0 :: _ =>
    let '(maxDims, maxShape) := max_shape aps 0 (shp a0) in
    (* it.shape[:maxDims] on a slice borrowed with len(maxShape) *)
    if (length maxShape <? maxDims)%nat then Panic else
    let shape := firstn maxDims maxShape in
    if negb (forallb (fun a => match broadcast_strides maxShape (shp a) (repeat 0 maxDims) (str a) with
                               | Ok _ => true | _ => false end) aps) then Panic else
    match mult_blocks maxDims maxShape aps [] [] [] with
    | None => Panic
    | Some (blocks, which) =>
      let fits := map (block_iter shape) blocks in
      match fits with
      | [] => Panic
      | f0 :: _ =>
        Ok (mkMI fits which (map (fun _ => 0) aps) (pick_fit0 fits 0 0 (it_size f0)) false)
      end
    end
  end.

(* step every block iterator; None = one of them reported an error / panicked *)
Fixpoint step_all (fits : list fiter) : option (list fiter * bool) :=
  match fits with
  | [] => Some ([], false)
  | f :: r =>
    match iter_next f with
    | (f', Ok _) =>
      match step_all r with
      | Some (r', dn) => Some (f' :: r', it_done f' || dn)
      | None => None
      end
    | _ => None
    end
  end.

Definition last_of (fits : list fiter) (b : nat) : Z :=
  match nth_error fits b with Some f => it_last f | None => 0 end.

Definition mult_next (mi : miter) : miter * res Z :=
  if mi_done mi then (mi, Err) else
  match step_all (mi_fits mi) with
  | None => (mi, Err)
  | Some (fits', dn) =>
    let last := map (last_of fits') (mi_which mi) in
    (mkMI fits' (mi_which mi) last (mi_fit0 mi) dn, Ok (last_of fits' (mi_fit0 mi)))
  end.

Definition mult_reset (mi : miter) : res miter :=
  let rs := map iter_reset (mi_fits mi) in
  if forallb (fun r => match r with Ok _ => true | _ => false end) rs then
    let fits' := flat_map (fun r => match r with Ok f => [f] | _ => [] end) rs in
    Ok (mkMI fits' (mi_which mi) (map (last_of fits') (mi_which mi)) (mi_fit0 mi) false)
  else Panic.

(* MultIterator.SetReverse / SetForward: every block iterator is switched (FlatIterator.SetReverse /
   SetForward set the direction and Reset); the multi-iterator's own done flag and lastIndexArr
   are left as they are *)
Definition mult_set_dir (mi : miter) (rev : bool) : res miter :=
  let rs := map (fun f => iter_set_dir f rev) (mi_fits mi) in
  if forallb (fun r => match r with Ok _ => true | _ => false end) rs then
    let fits' := flat_map (fun r => match r with Ok f => [f] | _ => [] end) rs in
    Ok (mkMI fits' (mi_which mi) (mi_last mi) (mi_fit0 mi) (mi_done mi))
  else Panic.

(* MultIterator.Done: true iff every block iterator is done - and the answer is STORED in the
   multi-iterator's own done flag, which Next consults *)
Definition mult_done (mi : miter) : miter * bool :=
  let d := forallb (fun f => it_done f) (mi_fits mi) in
  (mkMI (mi_fits mi) (mi_which mi) (mi_last mi) (mi_fit0 mi) d, d).
