(* DotN.v — MODEL of the last branch of StdEng.Dot (defaultengine_linalg.go): operands that are
   neither scalars nor a vector/matrix pair reach the general contraction

       axesA = [rank(a)-1];  axesB = [rank(b)-2]  (0 for rank(b) < 2)
       as[lastA] != bs[secondLastB]  -> error
       rd, err = a.TensorMul(b, axesA, axesB);  err -> panic(err)
       reuse != nil: copyDense(reuse, rd); reuse.setAP(rd.Info().Clone()); ReturnTensor(rd); return reuse
       otherwise retVal = rd
       incr != nil: return Add(incr, retVal, UseUnsafe())         (since the repair; it was ignored)

   and its SPEC: the contraction of a's last axis with b's second-to-last axis, delivered into a
   fresh tensor or into the reuse tensor.  Transcribed from the Go source as it is.  No proofs here. *)
From TV Require Import Base Index AP Iter Mem Spec Guards Run Ops Reduce Shapeops Linalg RunZ.

(* does tensor.Dot reach the contraction branch for these two shapes? (the switch above it) *)
Definition dot_nd_dispatch (sa sb : list Z) : bool :=
  if is_scalar sa || is_scalar sb then false
  else if is_vector sa then negb (is_vector sb || (length sb =? 2)%nat)
  else if (length sa =? 2)%nat then negb (is_vector sb || (length sb =? 2)%nat)
  else true.

Definition dot_nd_axes (sa sb : list Z) : Z * Z :=
  (zlen sa - 1, if 2 <=? zlen sb then zlen sb - 2 else 0).

Definition zdot_nd (σ : store Z) (ta tb : nat) (reuse : option nat) : store Z * outcome Z :=
  match get_t Z σ ta, get_t Z σ tb with
  | Some a, Some b =>
    let sa := shp (d_ap a) in let sb := shp (d_ap b) in
    let '(lastA, slB) := dot_nd_axes sa sb in
    if negb (znth 0 sa lastA =? znth 0 sb slB) then (σ, RErr Z) else
    match ztensormul σ ta tb [lastA] [slB] with
    | (σ1, RNew _ p) =>
      match reuse with
      | None => (σ1, RNew Z p)
      | Some r =>
        match get_t Z σ1 r, get_t Z σ1 p with
        | Some dr, Some dp =>
          (* copyDense: raw memcpy of min(len) cells into the reuse tensor's window *)
          match copy_raw Z σ1 dr dp with
          | Ok σ2 =>
            (* setAP: the reuse tensor takes the product's access pattern, whatever its own was;
               the product's struct goes back to the pool *)
            (mkStore Z (bufs Z σ2) (upd (firstn p (tens Z σ2)) r (with_ap dr (d_ap dp))), RNew Z r)
          | _ => (σ, RPanic Z)
          end
        | _, _ => (σ, RPanic Z)
        end
      end
    | (_, RErr _) => (σ, RPanic Z)            (* panic(err) *)
    | (_, r) => (σ, r)
    end
  | _, _ => (σ, RPanic Z)
  end.

(* with WithIncr: the product (fresh, or already delivered into the reuse tensor) is added into the
   increment tensor by the package-level Add in unsafe mode; a fresh product is garbage afterwards *)
Definition zdot_nd_full (σ : store Z) (ta tb : nat) (reuse incr : option nat) : store Z * outcome Z :=
  match zdot_nd σ ta tb reuse with
  | (σ1, RNew _ p) =>
    match incr with
    | None => (σ1, RNew Z p)
    | Some i =>
      let '(σ2, r) := zstep_model σ1 (ZBin 0 i p MUnsafe true) in
      (match reuse with
       | None => mkStore Z (bufs Z σ2) (firstn p (tens Z σ2))
       | Some _ => σ2
       end, r)
    end
  | r => r
  end.

(* SPEC: sum over k of a[..., k] * b[..., k, .] in a tensor of shape a.shape[:-1] ++ b.shape
   without its second-to-last axis; with a reuse tensor the values land there *)
Definition zdot_nd_spec_gen (ς : sstate Z) (ta tb : nat) (mc : Z * nat) : option (sstate Z * outcome Z) :=
  match sget Z ς ta, sget Z ς tb with
  | Some x, Some y =>
    let '(lastA, slB) := dot_nd_axes (s_shape x) (s_shape y) in
    match spec_tensormul_vals Z 0 Z.add Z.mul ς x y [lastA] [slB] with
    | None => Some (ς, RErr Z)
    | Some (sh, vs) =>
      spec_vals_deliver ς ta sh (map (fun v => Some v) vs) mc false
    end
  | _, _ => None
  end.

Definition zdot_nd_spec (ς : sstate Z) (ta tb : nat) (reuse : option nat) : option (sstate Z * outcome Z) :=
  zdot_nd_spec_gen ς ta tb (match reuse with None => (0, O) | Some r => (2, r) end).
(* WithIncr: the product is added into the increment tensor, which is returned *)
Definition zdot_nd_spec_incr (ς : sstate Z) (ta tb : nat) (r : nat) : option (sstate Z * outcome Z) :=
  zdot_nd_spec_gen ς ta tb (3, r).

(* WithReuse and WithIncr together: the product lands in the reuse tensor, which is then added into
   the increment tensor *)
Definition zdot_nd_spec_both (ς : sstate Z) (ta tb : nat) (r i : nat) : option (sstate Z * outcome Z) :=
  match zdot_nd_spec_gen ς ta tb (2, r) with
  | Some (ς1, RNew _ _) => zstep_spec ς1 (ZBin 0 i r MUnsafe true)
  | x => x
  end.

(* the named condition under which the reuse path is right: the reuse tensor is a plain tensor
   (no view, no pending transpose, row-major) whose window holds exactly the product *)
Definition dot_nd_reuse_plain (σ : store Z) (r : nat) (n : Z) : bool :=
  match get_t Z σ r with
  | Some dr => negb (d_view dr) && negb (is_some (d_old dr)) && negb (is_cm (ord (d_ap dr)))
               && (d_len dr =? n) && (size (shp (d_ap dr)) =? n)
  | None => false
  end.
