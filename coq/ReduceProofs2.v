(* ReduceProofs2.v — property C08, several axes: the NESTED lane folds of the axis loop
   (ReduceProofs.red_fun) equal the SPEC's SINGLE fold over the row-major enumeration of the
   reduced sub-box (Spec.spec_reduce_vals), for an associative and commutative operation.
   Part A: list algebra (regrouping a fold; interchange of two folds; permutation invariance).
   Part B: the row-major enumeration of a box, one axis at a time, in any order of the axes.
   Part C: red_fun = the SPEC fold (T2).   Part D: MODEL = SPEC for a set of axes (T3).
   Part E: non-vacuity, and the necessity of commutativity. *)
From TV Require Import Base Index AP Iter Mem Spec Reduce IndexProofs IterProofs APProofs MemProofs ReduceProofs.
From Coq Require Import ZifyBool Lia Permutation Sorted.

Arguments Z.mul : simpl never.
Arguments Z.add : simpl never.
Arguments Z.sub : simpl never.
Arguments Z.leb : simpl never.
Arguments Z.ltb : simpl never.
Arguments Z.eqb : simpl never.
Arguments Z.div : simpl never.
Arguments Z.modulo : simpl never.
Arguments Z.quot : simpl never.
Arguments Z.min : simpl never.
Arguments Z.of_nat : simpl never.
Arguments Z.to_nat : simpl never.
Arguments Z.testbit : simpl never.

(* ====================================================================================== *)
(*  PART A — list algebra                                                                  *)
(* ====================================================================================== *)
Section FoldAlgebra.
Variable V : Type.
Variable vzero : V.
Variable op : V -> V -> V.

Notation fold_hd := (fold_hd vzero op).

(* ---------- associativity only: regrouping without reordering ---------- *)
Section Assoc.
Hypothesis op_assoc : forall a b c, op a (op b c) = op (op a b) c.

Lemma fold_left_op_assoc : forall l a b, fold_left op l (op a b) = op a (fold_left op l b).
Proof.
  induction l as [|x l IH]; intros a b; cbn [fold_left]; [reflexivity|].
  rewrite <- op_assoc. apply IH.
Qed.

Lemma fold_hd_cons x l : l <> [] -> fold_hd (x :: l) = op x (fold_hd l).
Proof.
  destruct l as [|y r]; intro Hl; [congruence|]. unfold ReduceProofs.fold_hd. cbn [fold_left].
  apply fold_left_op_assoc.
Qed.

Lemma fold_hd_app l1 l2 : l1 <> [] -> l2 <> [] -> fold_hd (l1 ++ l2) = op (fold_hd l1) (fold_hd l2).
Proof.
  destruct l1 as [|x r1]; intro H1; [congruence|]. destruct l2 as [|y r2]; intro H2; [congruence|].
  unfold ReduceProofs.fold_hd. cbn [app]. rewrite fold_left_app. cbn [fold_left].
  apply fold_left_op_assoc.
Qed.

(* the fold of a concatenation is the fold of the folds of the pieces *)
Lemma fold_hd_concat : forall ls : list (list V), Forall (fun l => l <> []) ls ->
  fold_hd (concat ls) = fold_hd (map fold_hd ls).
Proof.
  induction ls as [|l ls IH]; intro Hne; [reflexivity|].
  inversion Hne as [|? ? Hl Hls]; subst. cbn [concat map].
  destruct ls as [|l' ls'].
  - cbn [concat map]. rewrite app_nil_r. reflexivity.
  - assert (Hc : concat (l' :: ls') <> []).
    { inversion Hls as [|? ? Hl' _]; subst. cbn [concat]. destruct l'; [congruence|discriminate]. }
    rewrite fold_hd_app by assumption. rewrite IH by exact Hls.
    rewrite fold_hd_cons by discriminate. reflexivity.
Qed.

Lemma map_flat_map {A B C} (f : B -> C) (h : A -> list B) : forall xs,
  map f (flat_map h xs) = flat_map (fun x => map f (h x)) xs.
Proof. induction xs as [|x xs IH]; [reflexivity|]. cbn [flat_map]. rewrite map_app, IH. reflexivity. Qed.

Lemma fold_hd_flat_map {A B} (F : B -> V) (h : A -> list B) (xs : list A) :
  (forall x, In x xs -> h x <> []) ->
  fold_hd (map F (flat_map h xs)) = fold_hd (map (fun x => fold_hd (map F (h x))) xs).
Proof.
  intro Hne. rewrite map_flat_map, flat_map_concat_map, fold_hd_concat.
  - rewrite map_map. reflexivity.
  - apply Forall_forall. intros l Hl. apply in_map_iff in Hl. destruct Hl as (x & <- & Hx).
    intro E. apply map_eq_nil in E. exact (Hne x Hx E).
Qed.

End Assoc.

(* the fold from zero is the fold from the first element as soon as zero is a left unit *)
Lemma fold_left_zero_hd : (forall x, op vzero x = x) -> forall l, fold_left op l vzero = fold_hd l.
Proof. intros Hz [|x r]; [reflexivity|]. unfold ReduceProofs.fold_hd. cbn [fold_left]. rewrite Hz. reflexivity. Qed.

Lemma fold_left_zero_concat :
  (forall a b c, op a (op b c) = op (op a b) c) -> (forall x, op vzero x = x) ->
  forall ls : list (list V), Forall (fun l => l <> []) ls ->
  fold_left op (concat ls) vzero = fold_left op (map (fun l => fold_left op l vzero) ls) vzero.
Proof.
  intros Ha Hz ls Hne. rewrite !(fold_left_zero_hd Hz), (fold_hd_concat Ha ls Hne).
  f_equal. apply map_ext. intro l. symmetry. apply fold_left_zero_hd. exact Hz.
Qed.

(* ---------- associativity and commutativity: reordering ---------- *)
Section AssocComm.
Hypothesis op_assoc : forall a b c, op a (op b c) = op (op a b) c.
Hypothesis op_comm : forall a b, op a b = op b a.

Lemma op_medial a b c d : op (op a b) (op c d) = op (op a c) (op b d).
Proof.
  rewrite <- (op_assoc a b (op c d)), (op_assoc b c d), (op_comm b c), <- (op_assoc c b d), (op_assoc a c (op b d)).
  reflexivity.
Qed.

(* the fold of a list is the same in any order of its elements *)
Lemma fold_hd_perm : forall l l' : list V, Permutation l l' -> fold_hd l = fold_hd l'.
Proof.
  induction 1 as [|x l l' Hp IH|x y l|l l' l'' H1 IH1 H2 IH2].
  - reflexivity.
  - destruct l as [|z r].
    + apply Permutation_nil in Hp. subst l'. reflexivity.
    + assert (Hl' : l' <> []) by (intro E; subst l'; apply Permutation_sym, Permutation_nil in Hp; discriminate).
      rewrite (fold_hd_cons op_assoc x (z :: r)) by discriminate.
      rewrite (fold_hd_cons op_assoc x l') by exact Hl'. rewrite IH. reflexivity.
  - unfold ReduceProofs.fold_hd. cbn [fold_left]. rewrite (op_comm y x). reflexivity.
  - rewrite IH1. exact IH2.
Qed.

Lemma fold_hd_map_op {A} (P Q : A -> V) : forall ys : list A, ys <> [] ->
  fold_hd (map (fun y => op (P y) (Q y)) ys) = op (fold_hd (map P ys)) (fold_hd (map Q ys)).
Proof.
  induction ys as [|y r IH]; intro Hne; [congruence|]. cbn [map].
  destruct r as [|y' r']; [reflexivity|].
  rewrite (fold_hd_cons op_assoc (op (P y) (Q y))) by (cbn [map]; discriminate).
  rewrite (fold_hd_cons op_assoc (P y)) by (cbn [map]; discriminate).
  rewrite (fold_hd_cons op_assoc (Q y)) by (cbn [map]; discriminate).
  rewrite IH by discriminate. apply op_medial.
Qed.

(* two nested folds can be exchanged *)
Lemma fold_hd_interchange {A B} (F : A -> B -> V) : forall (xs : list A) (ys : list B),
  xs <> [] -> ys <> [] ->
  fold_hd (map (fun x => fold_hd (map (F x) ys)) xs)
  = fold_hd (map (fun y => fold_hd (map (fun x => F x y) xs)) ys).
Proof.
  induction xs as [|x r IH]; intros ys Hx Hy; [congruence|]. cbn [map].
  destruct r as [|x' r'].
  - cbn [map]. unfold ReduceProofs.fold_hd at 1. cbn [fold_left]. reflexivity.
  - rewrite (fold_hd_cons op_assoc) by (cbn [map]; discriminate).
    rewrite (IH ys) by (assumption || discriminate).
    rewrite <- fold_hd_map_op by exact Hy. f_equal. apply map_ext. intro y.
    rewrite (fold_hd_cons op_assoc) by (cbn [map]; discriminate). reflexivity.
Qed.

End AssocComm.
End FoldAlgebra.

(* ====================================================================================== *)
(*  PART B — the row-major enumeration of a box                                            *)
(* ====================================================================================== *)
Lemma zseq_shift : forall n a, zseq a n = map (fun r => a + r) (zseq 0 n).
Proof.
  induction n as [|n IH]; intro a; [reflexivity|]. cbn [zseq map]. f_equal; [lia|].
  rewrite (IH (a + 1)), (IH (0 + 1)), map_map. apply map_ext. intro r. lia.
Qed.

Lemma zseq_blocks (N : nat) : forall D a q0,
  flat_map (fun q => zseq (a + q * Z.of_nat N) N) (zseq q0 D) = zseq (a + q0 * Z.of_nat N) (D * N).
Proof.
  induction D as [|D IH]; intros a q0; [reflexivity|]. cbn [zseq flat_map Nat.mul].
  rewrite IH, zseq_app. do 2 f_equal. lia.
Qed.

(* the enumeration of d :: s: for k ascending, the enumeration of s with k in front *)
Lemma coords_cons d s : 0 <= d -> pos_shape s ->
  coords (d :: s) = flat_map (fun k => map (cons k) (coords s)) (zseq 0 (Z.to_nat d)).
Proof.
  intros Hd Hp. pose proof (size_pos s Hp) as Hs. unfold coords. cbn [size].
  replace (Z.to_nat (d * size s)) with (Z.to_nat d * Z.to_nat (size s))%nat by nia.
  pose proof (zseq_blocks (Z.to_nat (size s)) (Z.to_nat d) 0 0) as Hb.
  replace (0 + 0 * Z.of_nat (Z.to_nat (size s))) with 0 in Hb by lia. rewrite <- Hb.
  rewrite map_flat_map. apply flat_map_ext. intro q.
  rewrite zseq_shift, !map_map. apply map_ext_in. intros r Hr. apply zseq_In in Hr.
  cbn [unrank]. replace (0 + q * Z.of_nat (Z.to_nat (size s)) + r) with (q * size s + r) by lia.
  f_equal.
  - symmetry. apply (Z.div_unique _ _ q r); lia.
  - f_equal. symmetry. apply (Z.mod_unique _ _ q r); lia.
Qed.

Lemma coords_nil : coords [] = [[]].
Proof. reflexivity. Qed.

Lemma coords_ne s : pos_shape s -> coords s <> [].
Proof.
  intros Hp E. apply (f_equal (@length (list Z))) in E. rewrite coords_length in E.
  pose proof (size_pos s Hp). cbn [length] in E. lia.
Qed.

Lemma zseq_ne d : 1 <= d -> zseq 0 (Z.to_nat d) <> [].
Proof. intros Hd E. apply (f_equal (@length Z)) in E. rewrite APProofs.zseq_length in E. cbn [length] in E. lia. Qed.

Lemma flat_map_flat_map {A B C} (f : A -> list B) (h : B -> list C) : forall l,
  flat_map h (flat_map f l) = flat_map (fun x => flat_map h (f x)) l.
Proof. induction l as [|x l IH]; [reflexivity|]. cbn [flat_map]. rewrite flat_map_app, IH. reflexivity. Qed.

Lemma flat_map_map {A B C} (f : A -> B) (h : B -> list C) : forall l,
  flat_map h (map f l) = flat_map (fun x => h (f x)) l.
Proof. induction l as [|x l IH]; [reflexivity|]. cbn [map flat_map]. rewrite IH. reflexivity. Qed.

(* the enumeration of s1 ++ s2: for c1 in the order of s1, the enumeration of s2 behind c1 *)
Lemma coords_app : forall s1 s2, pos_shape s1 -> pos_shape s2 ->
  coords (s1 ++ s2) = flat_map (fun c1 => map (app c1) (coords s2)) (coords s1).
Proof.
  induction s1 as [|d s1 IH]; intros s2 H1 H2.
  - cbn [app]. rewrite coords_nil. cbn [flat_map]. rewrite app_nil_r.
    rewrite <- (map_id (coords s2)) at 1. apply map_ext. reflexivity.
  - inversion H1 as [|? ? Hd H1']; subst. cbn [app].
    rewrite coords_cons by (try lia; apply pos_shape_app; split; assumption).
    rewrite (coords_cons d s1) by (try lia; assumption).
    rewrite IH by assumption. rewrite flat_map_flat_map. apply flat_map_ext. intro k.
    rewrite map_flat_map, flat_map_map. apply flat_map_ext. intro c1.
    rewrite map_map. reflexivity.
Qed.

Section BoxFold.
Variable V : Type.
Variable vzero : V.
Variable op : V -> V -> V.
Hypothesis op_assoc : forall a b c, op a (op b c) = op (op a b) c.

Notation fold_hd := (fold_hd vzero op).

(* T1, associativity only: the fold over the box d :: s is the fold, over k < d, of the folds over
   the box s (the enumeration is not reordered, only regrouped) *)
Lemma fold_box_cons (g : list Z -> V) d s : 0 <= d -> pos_shape s ->
  fold_hd (map g (coords (d :: s)))
  = fold_hd (map (fun k => fold_hd (map (fun c => g (k :: c)) (coords s))) (zseq 0 (Z.to_nat d))).
Proof.
  intros Hd Hp. rewrite coords_cons by assumption.
  rewrite (fold_hd_flat_map V vzero op op_assoc).
  - f_equal. apply map_ext. intro k. rewrite map_map. reflexivity.
  - intros k _ E. apply map_eq_nil in E. exact (coords_ne s Hp E).
Qed.

Lemma fold_box_app (g : list Z -> V) s1 s2 : pos_shape s1 -> pos_shape s2 ->
  fold_hd (map g (coords (s1 ++ s2)))
  = fold_hd (map (fun c1 => fold_hd (map (fun c2 => g (c1 ++ c2)) (coords s2))) (coords s1)).
Proof.
  intros H1 H2. rewrite coords_app by assumption.
  rewrite (fold_hd_flat_map V vzero op op_assoc).
  - f_equal. apply map_ext. intro c1. rewrite map_map. reflexivity.
  - intros c1 _ E. apply map_eq_nil in E. exact (coords_ne s2 H2 E).
Qed.

(* the same from zero, when zero is a left unit *)
Lemma fold_zero_box_cons (g : list Z -> V) d s : (forall x, op vzero x = x) -> 0 <= d -> pos_shape s ->
  fold_left op (map g (coords (d :: s))) vzero
  = fold_left op (map (fun k => fold_left op (map (fun c => g (k :: c)) (coords s)) vzero) (zseq 0 (Z.to_nat d))) vzero.
Proof.
  intros Hz Hd Hp. rewrite !(fold_left_zero_hd V vzero op Hz), fold_box_cons by assumption.
  f_equal. apply map_ext. intro k. symmetry. apply fold_left_zero_hd. exact Hz.
Qed.

(* ... and for the fold the reduceLast kernel uses (from zero for Sum, from the first element for
   Min/Max) *)
Lemma fold1_box_cons from_zero (g : list Z -> V) d s :
  (from_zero = true -> forall x, op vzero x = x) -> 0 <= d -> pos_shape s ->
  fold1 vzero op from_zero (map g (coords (d :: s)))
  = fold1 vzero op from_zero
      (map (fun k => fold1 vzero op from_zero (map (fun c => g (k :: c)) (coords s))) (zseq 0 (Z.to_nat d))).
Proof.
  intros Hz Hd Hp. unfold fold1. destruct from_zero eqn:E.
  - apply fold_zero_box_cons; [apply Hz; reflexivity|exact Hd|exact Hp].
  - apply fold_box_cons; assumption.
Qed.

Hypothesis op_comm : forall a b, op a b = op b a.

(* T1, with commutativity: ANY axis a of the box can be folded first — the fold of the whole box
   is the fold, over the box without axis a, of the lane folds along a *)
Theorem fold_box_axis (g : list Z -> V) sh a : pos_shape sh -> (a < length sh)%nat ->
  fold_hd (map g (coords sh))
  = fold_hd (map (fun c' => fold_hd (lane_of g sh a c')) (coords (remove_nth a sh))).
Proof.
  intros Hp Ha. pose proof (split_at 0 a sh Ha) as Hsplit.
  set (s1 := firstn a sh) in *. set (D := nth a sh 0) in *. set (s2 := skipn (S a) sh) in *.
  assert (Hl1 : length s1 = a) by (unfold s1; rewrite firstn_length; lia).
  assert (Hrm : remove_nth a sh = s1 ++ s2) by (rewrite Hsplit at 1; rewrite <- Hl1; apply remove_nth_app).
  rewrite Hrm. rewrite Hsplit in Hp. apply pos_shape_app in Hp as [Hp1 HpD].
  pose proof (Forall_inv HpD) as HD. pose proof (Forall_inv_tail HpD) as Hp2. cbn beta in HD.
  rewrite Hsplit at 1. rewrite !fold_box_app by assumption.
  f_equal. apply map_ext_in. intros c1 Hc1. apply (coords_In _ _ Hp1), inbox_length in Hc1.
  rewrite fold_box_cons by (try lia; assumption).
  rewrite (fold_hd_interchange V vzero op op_assoc op_comm) by (try apply zseq_ne; try apply coords_ne; assumption).
  f_equal. apply map_ext. intro c2. unfold lane_of. fold D. f_equal. apply map_ext. intro k.
  rewrite <- Hl1, <- Hc1, insert_at_app. reflexivity.
Qed.

(* folding the axes one at a time, each named by its position in what is left *)
Fixpoint fold_axes_seq (axs : list nat) (sh : list Z) (g : list Z -> V) : list Z * (list Z -> V) :=
  match axs with
  | [] => (sh, g)
  | a :: r => fold_axes_seq r (remove_nth a sh) (fun c' => fold_hd (lane_of g sh a c'))
  end.

Fixpoint axes_seq_ok (axs : list nat) (n : nat) : Prop :=
  match axs with [] => True | a :: r => (a < n)%nat /\ axes_seq_ok r (n - 1) end.

(* ... in ANY order, leaves the fold of the whole box unchanged *)
Theorem fold_box_any_order : forall axs sh (g : list Z -> V), pos_shape sh -> axes_seq_ok axs (length sh) ->
  fold_hd (map (snd (fold_axes_seq axs sh g)) (coords (fst (fold_axes_seq axs sh g))))
  = fold_hd (map g (coords sh)).
Proof.
  induction axs as [|a r IH]; intros sh g Hp Hok; [reflexivity|].
  cbn [axes_seq_ok] in Hok. destruct Hok as [Ha Hok]. cbn [fold_axes_seq].
  rewrite IH; [|apply pos_shape_remove_nth; exact Hp|rewrite remove_nth_length by exact Ha; exact Hok].
  symmetry. apply fold_box_axis; assumption.
Qed.

Lemma fold_axes_seq_rank : forall axs sh (g : list Z -> V), axes_seq_ok axs (length sh) ->
  length (fst (fold_axes_seq axs sh g)) = (length sh - length axs)%nat.
Proof.
  induction axs as [|a r IH]; intros sh g Hok; cbn [fold_axes_seq length fst]; [lia|].
  cbn [axes_seq_ok] in Hok. destruct Hok as [Ha Hok].
  rewrite IH by (rewrite remove_nth_length by exact Ha; exact Hok). rewrite remove_nth_length by exact Ha. lia.
Qed.

(* all the axes, one at a time in any order: the single value left is the fold of the row-major
   enumeration of the box *)
Corollary fold_box_all_axes_any_order axs sh (g : list Z -> V) :
  pos_shape sh -> axes_seq_ok axs (length sh) -> length axs = length sh ->
  snd (fold_axes_seq axs sh g) [] = fold_hd (map g (coords sh)).
Proof.
  intros Hp Hok Hl. rewrite <- (fold_box_any_order axs sh g Hp Hok).
  pose proof (fold_axes_seq_rank axs sh g Hok) as Hr.
  destruct (fst (fold_axes_seq axs sh g)) as [|? ?]; [reflexivity|cbn [length] in Hr; lia].
Qed.

End BoxFold.

Arguments fold_axes_seq {V}.

(* ====================================================================================== *)
(*  PART C — the nested lane folds of the axis loop are the SPEC's single fold (T2)         *)
(* ====================================================================================== *)
(* the SPEC's outer / inner shapes and insert_coord, as recursions on the shape from position i
   (the SPEC writes them with filters over zseq 0 rank; ic_go is ReduceProofs' top-level copy of
   insert_coord's local loop) *)
Fixpoint osh (axes : list Z) (i : Z) (sh : list Z) : list Z :=
  match sh with
  | [] => []
  | d :: r => if existsb (Z.eqb i) axes then osh axes (i + 1) r else d :: osh axes (i + 1) r
  end.
Fixpoint ish (axes : list Z) (i : Z) (sh : list Z) : list Z :=
  match sh with
  | [] => []
  | d :: r => if existsb (Z.eqb i) axes then d :: ish axes (i + 1) r else ish axes (i + 1) r
  end.

Lemma znth_app_mid {A} (d : A) pre x suf : znth d (pre ++ x :: suf) (zlen pre) = x.
Proof. rewrite znth_nth by (unfold zlen; lia). unfold zlen. rewrite Nat2Z.id. apply nth_middle. Qed.

Lemma filter_shape_gen (p : Z -> bool) (P : list Z -> Z -> list Z) :
  (forall i d r, P (d :: r) i = if p i then d :: P r (i + 1) else P r (i + 1)) -> (forall i, P [] i = []) ->
  forall suf pre, map (fun i => znth 0 (pre ++ suf) i) (filter p (zseq (zlen pre) (length suf))) = P suf (zlen pre).
Proof.
  intros Hc Hn. induction suf as [|d r IH]; intro pre; [rewrite Hn; reflexivity|].
  cbn [length zseq filter]. rewrite Hc.
  assert (E : pre ++ d :: r = (pre ++ [d]) ++ r) by (rewrite <- app_assoc; reflexivity).
  assert (El : zlen pre + 1 = zlen (pre ++ [d])) by (rewrite zlen_app; unfold zlen; cbn [length]; lia).
  specialize (IH (pre ++ [d])). rewrite <- E, <- El in IH.
  destruct (p (zlen pre)); [cbn [map]; rewrite znth_app_mid; f_equal; exact IH|exact IH].
Qed.

Lemma spec_outer_osh axes sh :
  map (fun i => znth 0 sh i) (filter (fun i => negb (existsb (Z.eqb i) axes)) (zseq 0 (length sh))) = osh axes 0 sh.
Proof.
  apply (filter_shape_gen (fun i => negb (existsb (Z.eqb i) axes)) (fun s i => osh axes i s)) with (pre := []).
  - intros i d r. cbn [osh]. destruct (existsb (Z.eqb i) axes); reflexivity.
  - reflexivity.
Qed.

Lemma spec_inner_ish axes sh :
  map (fun i => znth 0 sh i) (filter (fun i => existsb (Z.eqb i) axes) (zseq 0 (length sh))) = ish axes 0 sh.
Proof.
  apply (filter_shape_gen (fun i => existsb (Z.eqb i) axes) (fun s i => ish axes i s)) with (pre := []).
  - intros i d r. reflexivity.
  - reflexivity.
Qed.

Lemma osh_ish_length axes : forall sh i, (length (osh axes i sh) + length (ish axes i sh) = length sh)%nat.
Proof.
  induction sh as [|d r IH]; intro i; [reflexivity|]. cbn [osh ish].
  destruct (existsb (Z.eqb i) axes); cbn [length]; specialize (IH (i + 1)); lia.
Qed.

Lemma osh_pos axes : forall sh i, pos_shape sh -> pos_shape (osh axes i sh).
Proof.
  induction sh as [|d r IH]; intros i Hp; [exact Hp|]. inversion Hp as [|? ? Hd Hr]; subst. cbn [osh].
  destruct (existsb (Z.eqb i) axes); [apply IH; exact Hr|constructor; [exact Hd|apply IH; exact Hr]].
Qed.

Lemma ish_pos axes : forall sh i, pos_shape sh -> pos_shape (ish axes i sh).
Proof.
  induction sh as [|d r IH]; intros i Hp; [exact Hp|]. inversion Hp as [|? ? Hd Hr]; subst. cbn [ish].
  destruct (existsb (Z.eqb i) axes); [constructor; [exact Hd|apply IH; exact Hr]|apply IH; exact Hr].
Qed.

(* only membership from position i on matters *)
Lemma osh_ext axes axes' : forall sh i, (forall j, i <= j -> existsb (Z.eqb j) axes = existsb (Z.eqb j) axes') ->
  osh axes i sh = osh axes' i sh.
Proof.
  induction sh as [|d r IH]; intros i H; [reflexivity|]. cbn [osh]. rewrite (H i) by lia.
  rewrite (IH (i + 1)) by (intros j Hj; apply H; lia). reflexivity.
Qed.

Lemma ish_ext axes axes' : forall sh i, (forall j, i <= j -> existsb (Z.eqb j) axes = existsb (Z.eqb j) axes') ->
  ish axes i sh = ish axes' i sh.
Proof.
  induction sh as [|d r IH]; intros i H; [reflexivity|]. cbn [ish]. rewrite (H i) by lia.
  rewrite (IH (i + 1)) by (intros j Hj; apply H; lia). reflexivity.
Qed.

Lemma ic_go_ext axes axes' : forall n i o inn, (forall j, i <= j -> existsb (Z.eqb j) axes = existsb (Z.eqb j) axes') ->
  ic_go axes i n o inn = ic_go axes' i n o inn.
Proof.
  induction n as [|n IH]; intros i o inn H; [reflexivity|]. cbn [ic_go]. rewrite (H i) by lia.
  destruct (existsb (Z.eqb i) axes'); [destruct inn|destruct o]; f_equal; apply IH; intros j Hj; apply H; lia.
Qed.

Lemma existsb_drop_head a rest j : a < j -> existsb (Z.eqb j) (a :: rest) = existsb (Z.eqb j) rest.
Proof. intro H. cbn [existsb]. replace (j =? a) with false by lia. reflexivity. Qed.

(* the rebuilt coordinate lies in the box *)
Lemma ic_go_inbox axes : forall sh i oc ic, inbox (osh axes i sh) oc -> inbox (ish axes i sh) ic ->
  inbox sh (ic_go axes i (length sh) oc ic).
Proof.
  induction sh as [|d r IH]; intros i oc ic Ho Hi; [exact I|]. cbn [osh ish length ic_go] in *.
  destruct (existsb (Z.eqb i) axes).
  - destruct ic as [|k ic]; cbn [inbox] in Hi; [tauto|]. cbn [inbox]. split; [tauto|]. apply IH; tauto.
  - destruct oc as [|y oc]; cbn [inbox] in Ho; [tauto|]. cbn [inbox]. split; [tauto|]. apply IH; tauto.
Qed.

Lemma insert_coord_ic_go axes sh oc ic : inbox (osh axes 0 sh) oc -> inbox (ish axes 0 sh) ic ->
  insert_coord axes oc ic = ic_go axes 0 (length sh) oc ic.
Proof.
  intros Ho Hi. rewrite insert_coord_go. apply inbox_length in Ho. apply inbox_length in Hi.
  rewrite Ho, Hi, osh_ish_length. reflexivity.
Qed.

Section NestedFolds.
Variable V : Type.
Variable vzero : V.
Variable op : V -> V -> V.
Variable from_zero : bool.

Notation fold_hd := (fold_hd vzero op).
Notation fold1 := (fold1 vzero op from_zero).
Notation kfold := (kfold vzero op from_zero).
Notation red_fun := (red_fun vzero op from_zero).

(* red_fun with every lane folded from its first element *)
Fixpoint red_hd (axes : list Z) (reduced : Z) (sh : list Z) (g : list Z -> V) : list Z * (list Z -> V) :=
  match axes with
  | [] => (sh, g)
  | ax :: rest =>
    let a := Z.to_nat (ax - reduced) in
    red_hd rest (reduced + 1) (remove_nth a sh) (fun c' => fold_hd (lane_of g sh a c'))
  end.

Lemma lane_of_ext (g g' : list Z -> V) sh a c' : (forall c, g c = g' c) -> lane_of g sh a c' = lane_of g' sh a c'.
Proof. intro H. unfold lane_of. apply map_ext. intro k. apply H. Qed.

Lemma red_hd_ext : forall axes reduced sh g g', (forall c, g c = g' c) ->
  fst (red_hd axes reduced sh g) = fst (red_hd axes reduced sh g') /\
  forall c, snd (red_hd axes reduced sh g) c = snd (red_hd axes reduced sh g') c.
Proof.
  induction axes as [|ax rest IH]; intros reduced sh g g' H; cbn [red_hd fst snd].
  - split; [reflexivity|exact H].
  - apply IH. intro c. f_equal. apply lane_of_ext. exact H.
Qed.

Section Unit.
Hypothesis op_unit : from_zero = true -> forall x, op vzero x = x.

(* under the left-unit law (Sum; vacuous for Min/Max) every kernel's fold is the fold from the
   first element, on every list *)
Lemma kfold_hd sh a l : kfold sh a l = fold_hd l.
Proof.
  unfold ReduceProofs.kfold. destruct (negb (a =? 0)%nat && (S a =? length sh)%nat); [|reflexivity].
  destruct l as [|x r].
  - unfold ReduceProofs.fold1. destruct from_zero; reflexivity.
  - apply fold1_hd; [exact op_unit|discriminate].
Qed.

Lemma red_fun_red_hd : forall axes reduced sh g g', (forall c, g c = g' c) ->
  fst (red_fun axes reduced sh g) = fst (red_hd axes reduced sh g') /\
  forall c, snd (red_fun axes reduced sh g) c = snd (red_hd axes reduced sh g') c.
Proof.
  induction axes as [|ax rest IH]; intros reduced sh g g' H; cbn [ReduceProofs.red_fun red_hd fst snd].
  - split; [reflexivity|exact H].
  - apply IH. intro c. rewrite kfold_hd. f_equal. apply lane_of_ext. exact H.
Qed.
End Unit.

(* position i of the shape is not reduced: the loop works behind it *)
Lemma red_hd_skip : forall axes i d sh g x, StronglySorted Z.lt axes -> Forall (fun ax => i + 1 <= ax) axes ->
  fst (red_hd axes i (d :: sh) g) = d :: fst (red_hd axes (i + 1) sh (fun c => g (x :: c))) /\
  forall c, snd (red_hd axes i (d :: sh) g) (x :: c) = snd (red_hd axes (i + 1) sh (fun c => g (x :: c))) c.
Proof.
  induction axes as [|ax rest IH]; intros i d sh g x Hs Hge; cbn [red_hd fst snd].
  - split; reflexivity.
  - inversion Hs as [|? ? Hs' Hlt]; subst. inversion Hge as [|? ? Hax Hge']; subst.
    assert (Ea : Z.to_nat (ax - i) = S (Z.to_nat (ax - (i + 1)))) by lia.
    rewrite Ea. cbn [remove_nth]. set (a' := Z.to_nat (ax - (i + 1))).
    assert (Hge2 : Forall (fun ax' => i + 1 + 1 <= ax') rest).
    { rewrite Forall_forall in *. intros z Hz. specialize (Hlt z Hz). lia. }
    destruct (IH (i + 1) d (remove_nth a' sh) (fun c' => fold_hd (lane_of g (d :: sh) (S a') c')) x Hs' Hge2)
      as [Hf Hv].
    destruct (red_hd_ext rest (i + 1 + 1) (remove_nth a' sh)
                (fun c => fold_hd (lane_of g (d :: sh) (S a') (x :: c)))
                (fun c' => fold_hd (lane_of (fun c => g (x :: c)) sh a' c'))) as [Hf' Hv'].
    { intro c. reflexivity. }
    split.
    + rewrite Hf, Hf'. reflexivity.
    + intro c. rewrite Hv, Hv'. reflexivity.
Qed.

Lemma sorted_head_min i a rest : StronglySorted Z.lt (a :: rest) -> Forall (fun ax => i <= ax) (a :: rest) ->
  existsb (Z.eqb i) (a :: rest) = true -> a = i.
Proof.
  intros Hs Hge E. inversion Hs as [|? ? _ Hlt]; subst. inversion Hge as [|? ? Ha _]; subst.
  cbn [existsb] in E. destruct (i =? a) eqn:Ei; [lia|]. cbn [orb] in E.
  apply existsb_exists in E. destruct E as (z & Hz & Ez). rewrite Forall_forall in Hlt. specialize (Hlt z Hz). lia.
Qed.

Hypothesis op_assoc : forall a b c, op a (op b c) = op (op a b) c.
Hypothesis op_comm : forall a b, op a b = op b a.

(* the nested folds, smallest axis first (= innermost), against the single row-major fold *)
Lemma red_hd_spec : forall sh i axes g, StronglySorted Z.lt axes ->
  Forall (fun ax => i <= ax < i + zlen sh) axes -> pos_shape sh ->
  fst (red_hd axes i sh g) = osh axes i sh /\
  forall c', inbox (osh axes i sh) c' ->
    snd (red_hd axes i sh g) c'
    = fold_hd (map (fun ic => g (ic_go axes i (length sh) c' ic)) (coords (ish axes i sh))).
Proof.
  induction sh as [|d sh IH]; intros i axes g Hs Hr Hp.
  - destruct axes as [|ax rest]; [|apply Forall_inv in Hr; unfold zlen in Hr; cbn [length] in Hr; lia].
    cbn [red_hd osh ish fst snd]. split; [reflexivity|]. intros c' Hc. destruct c' as [|? ?]; [reflexivity|cbn [inbox] in Hc; tauto].
  - inversion Hp as [|? ? Hd Hp']; subst. rewrite zlen_cons in Hr.
    destruct (existsb (Z.eqb i) axes) eqn:E.
    + (* position i is reduced: it is the head of the sorted axes *)
      destruct axes as [|ax rest]; [discriminate E|].
      assert (ax = i).
      { apply (sorted_head_min i ax rest Hs); [|exact E]. eapply Forall_impl; [|exact Hr]. cbn beta. intros z Hz. lia. }
      subst ax. inversion Hs as [|? ? Hs' Hlt]; subst. inversion Hr as [|? ? _ Hr']; subst.
      assert (Hmem : forall j, i + 1 <= j -> existsb (Z.eqb j) (i :: rest) = existsb (Z.eqb j) rest)
        by (intros j Hj; apply existsb_drop_head; lia).
      cbn [red_hd osh ish length]. rewrite E. replace (i - i) with 0 by lia. change (Z.to_nat 0) with 0%nat.
      cbn [remove_nth]. rewrite (osh_ext _ _ sh (i + 1) Hmem), (ish_ext _ _ sh (i + 1) Hmem).
      set (g1 := fun c' => fold_hd (lane_of g (d :: sh) 0 c')).
      destruct (IH (i + 1) rest g1 Hs') as [Hf Hv]; [|exact Hp'|].
      { rewrite Forall_forall in *. intros z Hz. specialize (Hlt z Hz). specialize (Hr' z Hz). lia. }
      split; [exact Hf|]. intros c' Hc. rewrite (Hv c' Hc).
      pose proof (ish_pos rest sh (i + 1) Hp') as HpR. set (R := ish rest (i + 1) sh) in *.
      rewrite (fold_box_cons V vzero op op_assoc) by (try lia; exact HpR).
      rewrite (fold_hd_interchange V vzero op op_assoc op_comm)
        by (try apply zseq_ne; try apply coords_ne; assumption).
      f_equal. apply map_ext. intro ic. unfold g1, lane_of. cbn [nth insert_at]. f_equal. apply map_ext. intro k.
      cbn [ic_go]. rewrite E. f_equal. f_equal. symmetry. apply ic_go_ext. exact Hmem.
    + (* position i is kept *)
      assert (Hge : Forall (fun ax => i + 1 <= ax) axes).
      { rewrite Forall_forall in *. intros z Hz. specialize (Hr z Hz).
        destruct (Z.eq_dec z i) as [->|Hne]; [|lia].
        assert (Et : existsb (Z.eqb i) axes = true) by (apply existsb_exists; exists i; split; [exact Hz|lia]).
        congruence. }
      assert (Hr1 : Forall (fun ax => i + 1 <= ax < i + 1 + zlen sh) axes).
      { rewrite Forall_forall in *. intros z Hz. specialize (Hr z Hz). specialize (Hge z Hz). lia. }
      cbn [osh ish length]. rewrite E. split.
      * destruct (red_hd_skip axes i d sh g 0 Hs Hge) as [Hf _]. rewrite Hf. f_equal.
        apply (IH (i + 1) axes (fun c => g (0 :: c)) Hs Hr1 Hp').
      * intros c' Hc. destruct c' as [|x c'']; cbn [inbox] in Hc; [tauto|]. destruct Hc as [Hx Hc].
        destruct (red_hd_skip axes i d sh g x Hs Hge) as [_ Hv]. rewrite Hv.
        destruct (IH (i + 1) axes (fun c => g (x :: c)) Hs Hr1 Hp') as [_ Hv']. rewrite (Hv' c'' Hc).
        f_equal. apply map_ext. intro ic. cbn [ic_go]. rewrite E. reflexivity.
Qed.

End NestedFolds.

Arguments red_hd {V}.

(* ====================================================================================== *)
(*  T2 — red_fun against the SPEC's expressions                                            *)
(* ====================================================================================== *)
Section SpecBridge2.
Variable V : Type.
Variable vzero : V.
Variable op : V -> V -> V.
Variable from_zero : bool.
Hypothesis op_assoc : forall a b c, op a (op b c) = op (op a b) c.
Hypothesis op_comm : forall a b, op a b = op b a.
Hypothesis op_unit : from_zero = true -> forall v, op vzero v = v.

(* for strictly increasing in-range axes of a box with positive extents: the shape left by the
   axis loop is the SPEC's outer shape, and the value at c' — nested lane folds, smallest axis
   innermost — is the SPEC's single fold over the row-major enumeration of the inner box.
   (Also valid when ALL axes are listed: the outer shape is then [] and c' = [].) *)
Theorem red_fun_eq_spec_fold axes sh (g : list Z -> V) :
  StronglySorted Z.lt axes -> Forall (fun ax => 0 <= ax < zlen sh) axes -> pos_shape sh ->
  let dims := zseq 0 (length sh) in
  let outer_sh := map (fun i => znth 0 sh i) (filter (fun i => negb (existsb (Z.eqb i) axes)) dims) in
  let inner_sh := map (fun i => znth 0 sh i) (filter (fun i => existsb (Z.eqb i) axes) dims) in
  fst (red_fun vzero op from_zero axes 0 sh g) = outer_sh /\
  forall c', inbox outer_sh c' ->
    let vs := map (fun ic => g (insert_coord axes c' ic)) (coords inner_sh) in
    (if from_zero then Some (fold_left op vs vzero)
     else match vs with [] => None | v :: r => Some (fold_left op r v) end)
    = Some (snd (red_fun vzero op from_zero axes 0 sh g) c').
Proof.
  intros Hs Hr Hp dims outer_sh inner_sh. subst dims outer_sh inner_sh.
  rewrite spec_outer_osh, spec_inner_ish.
  destruct (red_fun_red_hd V vzero op from_zero op_unit axes 0 sh g g (fun c => eq_refl)) as [Hf Hv].
  destruct (red_hd_spec V vzero op op_assoc op_comm sh 0 axes g Hs) as [Hf' Hv']; [|exact Hp|].
  { eapply Forall_impl; [|exact Hr]. cbn beta. intros z Hz. lia. }
  split; [rewrite Hf; exact Hf'|]. intros c' Hc vs.
  pose proof (ish_pos axes sh 0 Hp) as HpI.
  assert (Evs : vs = map (fun ic => g (ic_go axes 0 (length sh) c' ic)) (coords (ish axes 0 sh))).
  { unfold vs. apply map_ext_in. intros ic Hic. apply (coords_In _ _ HpI) in Hic.
    rewrite (insert_coord_ic_go axes sh c' ic Hc Hic). reflexivity. }
  assert (Hne : vs <> []).
  { rewrite Evs. intro E. apply map_eq_nil in E. exact (coords_ne _ HpI E). }
  change (sfold V vzero op from_zero vs = Some (snd (red_fun vzero op from_zero axes 0 sh g) c')).
  rewrite (sfold_fold1 V vzero op from_zero vs Hne), (fold1_hd V vzero op from_zero op_unit vs Hne).
  rewrite Hv, (Hv' c' Hc), Evs. reflexivity.
Qed.

End SpecBridge2.

(* ====================================================================================== *)
(*  the SPEC depends on the SET of axes only                                               *)
(* ====================================================================================== *)
Lemma existsb_perm {A} (f : A -> bool) : forall l l', Permutation l l' -> existsb f l = existsb f l'.
Proof.
  induction 1 as [|x l l' _ IH|x y l|l l' l'' _ IH1 _ IH2]; cbn [existsb].
  - reflexivity.
  - rewrite IH. reflexivity.
  - destruct (f x), (f y); reflexivity.
  - rewrite IH1. exact IH2.
Qed.

Lemma insert_coord_ext axes axes' oc ic : (forall j, existsb (Z.eqb j) axes = existsb (Z.eqb j) axes') ->
  insert_coord axes oc ic = insert_coord axes' oc ic.
Proof. intro H. rewrite !insert_coord_go. apply ic_go_ext. intros j _. apply H. Qed.

Lemma spec_reduce_vals_ext {V} (vzero : V) f from_zero ς x axes axes' :
  (forall j, existsb (Z.eqb j) axes = existsb (Z.eqb j) axes') ->
  spec_reduce_vals V vzero f from_zero ς x axes = spec_reduce_vals V vzero f from_zero ς x axes'.
Proof.
  intro H. unfold spec_reduce_vals. cbv zeta.
  rewrite (filter_ext (fun i => negb (existsb (Z.eqb i) axes)) (fun i => negb (existsb (Z.eqb i) axes')))
    by (intro i; rewrite H; reflexivity).
  rewrite (filter_ext (fun i => existsb (Z.eqb i) axes) (fun i => existsb (Z.eqb i) axes')) by exact H.
  f_equal. apply map_ext. intro oc.
  match goal with |- context [map ?F (coords ?s)] =>
    match F with context [insert_coord axes] =>
      rewrite (map_ext F (fun ic => nth (nth (Z.to_nat (rank_rm (s_shape x) (insert_coord axes' oc ic))) (s_cells x) O)
                                        (s_vals V ς) vzero))
        by (intro ic; rewrite (insert_coord_ext axes axes' oc ic H); reflexivity)
    end
  end.
  reflexivity.
Qed.

(* a permutation of the axes gives the same result *)
Lemma spec_reduce_vals_perm {V} (vzero : V) f from_zero ς x axes axes' : Permutation axes axes' ->
  spec_reduce_vals V vzero f from_zero ς x axes = spec_reduce_vals V vzero f from_zero ς x axes'.
Proof. intro Hp. apply spec_reduce_vals_ext. intro j. apply existsb_perm. exact Hp. Qed.

(* ====================================================================================== *)
(*  T3 — MODEL = SPEC for a set of axes                                                    *)
(* ====================================================================================== *)
Lemma axes_ok_range : forall axes reduced sh, axes_ok axes reduced sh ->
  Forall (fun ax => reduced <= ax < reduced + zlen sh) axes.
Proof.
  induction axes as [|ax rest IH]; intros reduced sh Hok; [constructor|].
  cbn [axes_ok] in Hok. destruct Hok as (Hr & _ & Hok). constructor; [lia|].
  specialize (IH _ _ Hok).
  assert (Hl : zlen (remove_nth (Z.to_nat (ax - reduced)) sh) = zlen sh - 1).
  { unfold zlen in *. rewrite remove_nth_length by lia. lia. }
  rewrite Hl in IH. eapply Forall_impl; [|exact IH]. cbn beta. intros z Hz. lia.
Qed.

Section ModelSpec.
Variable V : Type.
Variable vzero : V.
Variable op : V -> V -> V.
Variable from_zero : bool.

(* MODEL = SPEC for several axes: distinct axes, in any order, accepted by the axis loop (in range,
   reduceDefault guard) and not taken by the all-axes shortcut.  For an associative and commutative
   operation with zero a left unit (Sum; vacuous for Min/Max), the values m_reduce returns are the
   SPEC's, entry by entry, with the reduced axes removed from the shape, for any abstract tensor x
   whose cells hold the operand's logical content. *)
Theorem m_reduce_multi_axis_spec σ t d0 along g ς x :
  let sh := shp (d_ap d0) in
  (forall a b c, op a (op b c) = op (op a b) c) -> (forall a b, op a b = op b a) ->
  (from_zero = true -> forall v, op vzero v = v) ->
  get_t V σ t = Some d0 -> rwf σ d0 -> content σ d0 g ->
  (is_materializable d0 = false -> requires_iterator d0 = false /\ is_cm (ord (d_ap d0)) = false) ->
  shortcut along sh = false -> axes_ok (sort_z along) 0 sh -> NoDup along ->
  s_shape x = sh ->
  (forall c, inbox sh c -> nth (nth (Z.to_nat (rank_rm sh c)) (s_cells x) O) (s_vals V ς) vzero = g c) ->
  let sh' := map (fun i => znth 0 sh i)
                 (filter (fun i => negb (existsb (Z.eqb i) along)) (zseq 0 (length sh))) in
  exists r, m_reduce V vzero op from_zero σ t along = (Ok (sh', r), along) /\
    spec_reduce_vals V vzero op from_zero ς x along = (sh', map Some r).
Proof.
  intros sh Ha Hc Hz Ht Hr Hg Hnm Hsc Hok Hnd Hx Hval sh'.
  pose proof Hr as ((_ & (Hp & _) & _) & _). fold sh in Hp.
  pose proof (sort_z_strict along Hnd) as Hs.
  pose proof (axes_ok_range _ _ _ Hok) as Hrng.
  assert (Hrng' : Forall (fun ax => 0 <= ax < zlen sh) (sort_z along)).
  { eapply Forall_impl; [|exact Hrng]. cbn beta. intros z Hz'. lia. }
  assert (Hmem : forall j, existsb (Z.eqb j) along = existsb (Z.eqb j) (sort_z along)).
  { intro j. apply existsb_perm. apply Permutation_sym, sort_z_perm. }
  assert (Esh' : sh' = osh (sort_z along) 0 sh).
  { unfold sh'. rewrite <- spec_outer_osh. f_equal. apply filter_ext. intro i. rewrite Hmem. reflexivity. }
  destruct (m_reduce_axes_spec V vzero op from_zero σ t d0 along g Ht Hr Hg Hnm Hsc Hok) as (w' & E & L & P).
  fold sh in E, L, P.
  destruct (red_fun_eq_spec_fold V vzero op from_zero Ha Hc Hz (sort_z along) sh g Hs Hrng' Hp) as [Hf Hv].
  rewrite spec_outer_osh, spec_inner_ish in Hv. rewrite spec_outer_osh in Hf.
  rewrite Hf in E, L, P. rewrite <- Esh' in E, L, P.
  assert (Hp' : pos_shape sh') by (rewrite Esh'; apply osh_pos; exact Hp).
  exists w'. split; [exact E|].
  rewrite (pointwise_to_map V vzero sh' w' _ Hp' L P).
  rewrite (spec_reduce_vals_ext vzero op from_zero ς x along (sort_z along) Hmem).
  unfold spec_reduce_vals. cbv zeta. rewrite Hx. rewrite spec_outer_osh, spec_inner_ish, <- Esh'.
  f_equal. rewrite map_map. apply map_ext_in. intros oc Hoc. apply (coords_In _ _ Hp') in Hoc.
  rewrite Esh' in Hoc. rewrite <- (Hv oc Hoc). cbv zeta.
  pose proof (ish_pos (sort_z along) sh 0 Hp) as HpI.
  match goal with |- context [map ?F (coords ?s)] =>
    match F with context [rank_rm] =>
      rewrite (map_ext_in F (fun ic => g (insert_coord (sort_z along) oc ic)))
    end
  end; [reflexivity|].
  intros ic Hic. apply (coords_In _ _ HpI) in Hic. apply Hval.
  rewrite (insert_coord_ic_go _ sh oc ic Hoc Hic). apply ic_go_inbox; assumption.
Qed.

(* user-level form: distinct in-range axes, fewer than the rank *)
Corollary m_reduce_axes_set_spec σ t d0 along g ς x :
  let sh := shp (d_ap d0) in
  (forall a b c, op a (op b c) = op (op a b) c) -> (forall a b, op a b = op b a) ->
  (from_zero = true -> forall v, op vzero v = v) ->
  get_t V σ t = Some d0 -> rwf σ d0 -> content σ d0 g ->
  (is_materializable d0 = false -> requires_iterator d0 = false /\ is_cm (ord (d_ap d0)) = false) ->
  along <> [] -> NoDup along -> Forall (fun ax => 0 <= ax < zlen sh) along ->
  (length along < length sh)%nat -> axes_guard (sort_z along) 0 sh ->
  s_shape x = sh ->
  (forall c, inbox sh c -> nth (nth (Z.to_nat (rank_rm sh c)) (s_cells x) O) (s_vals V ς) vzero = g c) ->
  let sh' := map (fun i => znth 0 sh i)
                 (filter (fun i => negb (existsb (Z.eqb i) along)) (zseq 0 (length sh))) in
  exists r, m_reduce V vzero op from_zero σ t along = (Ok (sh', r), along) /\
    spec_reduce_vals V vzero op from_zero ς x along = (sh', map Some r).
Proof.
  intros sh Ha Hc Hz Ht Hr Hg Hnm Hne Hnd Hrng Hlen Hgd Hx Hval.
  apply (m_reduce_multi_axis_spec σ t d0 along g ς x); try assumption.
  - unfold shortcut. destruct (is_monotonic along) as [mono incr1].
    replace (zlen along =? zlen (shp (d_ap d0))) with false by (unfold zlen; fold sh; lia).
    replace (zlen along =? 0) with false by (destruct along; [congruence|unfold zlen; cbn [length]; lia]).
    rewrite andb_false_r. reflexivity.
  - apply axes_ok_sorted; [apply sort_z_strict; exact Hnd| |exact Hgd].
    apply (Permutation_Forall (Permutation_sym (sort_z_perm along))).
    eapply Forall_impl; [|exact Hrng]. cbn beta. intros ax Hax. fold sh. lia.
Qed.

End ModelSpec.

(* ====================================================================================== *)
(*  PART E — non-vacuity; commutativity is needed                                          *)
(* ====================================================================================== *)
(* Sum of the contiguous 2x3x2 tensor 0..11 along the (unsorted) axes [2;0]: every hypothesis of
   m_reduce_multi_axis_spec holds, and both sides are ([3], [14;22;30]) *)
Example multi_axis_spec_example :
  let d0 := rm_dense [2; 3; 2] in
  let σ := mkStore Z [zseq 0 12] [d0] in
  let g := fun c => match cell Z σ d0 c with Some v => v | None => 0 end in
  let x := mkSten [2; 3; 2] (seq 0 12) None 0 false false in
  let ς := mkSS Z (zseq 0 12) [x] in
  let along := [2; 0] in
  let sh := shp (d_ap d0) in
  ((forall a b c : Z, a + (b + c) = a + b + c) /\ (forall a b : Z, a + b = b + a) /\
   (true = true -> forall v : Z, 0 + v = v) /\
   get_t Z σ 0 = Some d0 /\ rwf σ d0 /\ content σ d0 g /\
   (is_materializable d0 = false -> requires_iterator d0 = false /\ is_cm (ord (d_ap d0)) = false) /\
   shortcut along sh = false /\ axes_ok (sort_z along) 0 sh /\ NoDup along /\
   s_shape x = sh /\
   (forall c, inbox sh c -> nth (nth (Z.to_nat (rank_rm sh c)) (s_cells x) O) (s_vals Z ς) 0 = g c)) /\
  m_reduce Z 0 Z.add true σ 0 along = (Ok ([3], [14; 22; 30]), along) /\
  spec_reduce_vals Z 0 Z.add true ς x along = ([3], map Some [14; 22; 30]).
Proof.
  cbv zeta.
  assert (W : wf_dense Z (mkStore Z [zseq 0 12] [rm_dense [2; 3; 2]]) (rm_dense [2; 3; 2]))
    by (apply wf_denseb_sound; vm_compute; reflexivity).
  split; [|split; vm_compute; reflexivity].
  split; [intros; lia|]. split; [intros; lia|]. split; [intros; lia|].
  split; [reflexivity|].
  split; [split; [exact W|intros _; split; vm_compute; reflexivity]|].
  split; [apply content_default; exact W|].
  split; [intros _; split; vm_compute; reflexivity|].
  split; [vm_compute; reflexivity|].
  split.
  { change (sort_z [2; 0]) with [0; 2]. cbn [axes_ok]. change (shp (d_ap (rm_dense [2; 3; 2]))) with [2; 3; 2].
    split; [unfold zlen; cbn [length]; lia|]. split; [left; reflexivity|].
    change (Z.to_nat (0 - 0)) with 0%nat. cbn [remove_nth].
    split; [unfold zlen; cbn [length]; lia|]. split; [right; left; reflexivity|exact I]. }
  split; [constructor; [cbn [In]; intros [H|[]]; lia|constructor; [intros []|constructor]]|].
  split; [reflexivity|].
  intros c Hc. change (shp (d_ap (rm_dense [2; 3; 2]))) with [2; 3; 2] in *.
  assert (Hp : pos_shape [2; 3; 2]) by (repeat constructor; lia).
  apply (proj2 (MemProofs.coords_In _ _ Hp)) in Hc. vm_compute in Hc.
  repeat (destruct Hc as [<-|Hc]; [vm_compute; reflexivity|]). destruct Hc.
Qed.

(* associativity and the unit law alone are NOT enough: lists under concatenation.  The axis loop
   folds the smallest axis first, so it lists the reduced sub-box with its FIRST axis running
   fastest, where the SPEC's row-major fold has it running slowest *)
Example commutativity_needed_red_fun :
  let op := @app Z in
  let g := fun c : list Z => [rank_rm [2; 2] c] in
  (forall a b c, op a (op b c) = op (op a b) c) /\ (forall v, op [] v = v) /\
  snd (red_fun [] op true [0; 1] 0 [2; 2] g) [] = [0; 2; 1; 3] /\
  fold_left op (map (fun ic => g (insert_coord [0; 1] [] ic)) (coords [2; 2])) [] = [0; 1; 2; 3].
Proof.
  cbv zeta. split; [intros; apply app_assoc|]. split; [reflexivity|]. split; vm_compute; reflexivity.
Qed.

(* ... and at the level of Sum itself: on the 2x2x2 tensor whose element number k is the list [k],
   "summing" along axes {0,2} with concatenation gives the model [0;4;1;5] where the SPEC has
   [0;1;4;5]; every hypothesis of m_reduce_multi_axis_spec except commutativity holds *)
Example commutativity_needed :
  let op := @app Z in
  let d0 := rm_dense [2; 2; 2] in
  let σ := mkStore (list Z) [map (fun k => [k]) (zseq 0 8)] [d0] in
  let x := mkSten [2; 2; 2] (seq 0 8) None 0 false false in
  let ς := mkSS (list Z) (map (fun k => [k]) (zseq 0 8)) [x] in
  (forall a b c, op a (op b c) = op (op a b) c) /\ (forall v, op [] v = v) /\
  rwf σ d0 /\ shortcut [0; 2] [2; 2; 2] = false /\ axes_ok (sort_z [0; 2]) 0 [2; 2; 2] /\
  m_reduce (list Z) [] op true σ 0 [0; 2] = (Ok ([2], [[0; 4; 1; 5]; [2; 6; 3; 7]]), [0; 2]) /\
  spec_reduce_vals (list Z) [] op true ς x [0; 2] = ([2], map Some [[0; 1; 4; 5]; [2; 3; 6; 7]]) /\
  ~ (forall a b, op a b = op b a).
Proof.
  cbv zeta. split; [intros; apply app_assoc|]. split; [reflexivity|].
  split; [split; [apply wf_denseb_sound; vm_compute; reflexivity|intros _; split; vm_compute; reflexivity]|].
  split; [vm_compute; reflexivity|].
  split.
  { change (sort_z [0; 2]) with [0; 2]. cbn [axes_ok].
    split; [unfold zlen; cbn [length]; lia|]. split; [left; reflexivity|].
    change (Z.to_nat (0 - 0)) with 0%nat. cbn [remove_nth].
    split; [unfold zlen; cbn [length]; lia|]. split; [right; left; reflexivity|exact I]. }
  split; [vm_compute; reflexivity|]. split; [vm_compute; reflexivity|].
  intro H. specialize (H [0] [1]). discriminate H.
Qed.
