(* PropC03b.v — C03 over the store: "UT undoes T" and "physical Transpose changes no logical
   element".  Only statements; every proof is `exact <lemma of MemProofs>`.
   MODEL functions (Mem.v): m_T, m_UT, ut_dense, m_transpose, m_transpose_d (dense_matop.go: T, UT,
   Transpose).  Vocabulary of MemProofs.v: bget (absolute read), pos, cell (logical element),
   wf_dense (the C13 invariant, including the backed-up AP of a pending transpose). *)
From TV Require Import Base Index AP Iter Mem Spec Guards IndexProofs IterProofs APProofs MemProofs.
Local Arguments bufs {V}.
Local Arguments tens {V}.

(* T then UT on a tensor with nothing pending gives back the WHOLE store (so in particular the
   original dense record), whatever the axes are — including the no-op outcomes of T *)
Theorem C03_T_UT_id : forall (V : Type) (σ : store V) t d axes σ1,
  get_t V σ t = Some d -> d_old d = None ->
  m_T V σ t axes = Ok σ1 -> m_UT V σ1 t = Ok σ.
Proof. exact T_UT_id. Qed.
Print Assumptions C03_T_UT_id.

(* Transpose with a lazy transpose pending on a row-major, non-scalar tensor whose window has
   exactly size-many cells (no other assumption; in particular the view flag is irrelevant):
   the pending transpose is gone, strides are the default ones of the (already transposed)
   shape, every logical element is unchanged, and only positions of the tensor's own window
   were written *)
Theorem C03_transpose_logical_id : forall (V : Type) (σ : store V) t d o,
  get_t V σ t = Some d -> wf_dense V σ d -> d_old d = Some o ->
  is_cm (ord (d_ap d)) = false -> is_scalar (shp (d_ap d)) = false ->
  d_len d = size (shp (d_ap d)) ->
  let sh := shp (d_ap d) in
  exists σ' d', m_transpose V σ t = Ok σ' /\ get_t V σ' t = Some d' /\
    d' = mkDense (d_buf d) (d_off d) (d_len d)
                 (mkAP sh (calc_strides sh) (ord (d_ap d)) (fin (d_ap d))) None (d_view d) /\
    wf_dense V σ' d' /\ length (tens σ') = length (tens σ) /\
    (forall t0, t0 <> t -> get_t V σ' t0 = get_t V σ t0) /\
    (forall b, zlen (get_buf V σ' b) = zlen (get_buf V σ b)) /\
    (forall b p, b <> d_buf d -> bget V σ' b p = bget V σ b p) /\
    (forall p, ~ (d_off d <= p < d_off d + d_len d) ->
               bget V σ' (d_buf d) p = bget V σ (d_buf d) p) /\
    (forall c, inbox sh c -> cell V σ' d' c = cell V σ d c).
Proof. exact m_transpose_logical_id. Qed.
Print Assumptions C03_transpose_logical_id.

(* the same on the record level (the form used inside T-on-pending and Reshape) *)
Theorem C03_transpose_d_logical_id : forall (V : Type) (σ : store V) d o,
  wf_dense V σ d -> d_old d = Some o ->
  is_cm (ord (d_ap d)) = false -> is_scalar (shp (d_ap d)) = false ->
  d_len d = size (shp (d_ap d)) ->
  let sh := shp (d_ap d) in
  exists σ' d', m_transpose_d V σ d = Ok (σ', d') /\
    d' = mkDense (d_buf d) (d_off d) (d_len d)
                 (mkAP sh (calc_strides sh) (ord (d_ap d)) (fin (d_ap d))) None (d_view d) /\
    wf_dense V σ' d' /\
    (tens σ' = tens σ /\ length (bufs σ') = length (bufs σ) /\
     forall b, zlen (get_buf V σ' b) = zlen (get_buf V σ b)) /\
    (forall b p, b <> d_buf d -> bget V σ' b p = bget V σ b p) /\
    (forall p, ~ (d_off d <= p < d_off d + d_len d) ->
               bget V σ' (d_buf d) p = bget V σ (d_buf d) p) /\
    (forall c, inbox sh c -> cell V σ' d' c = cell V σ d c).
Proof. exact m_transpose_d_logical_id. Qed.
Print Assumptions C03_transpose_d_logical_id.

(* the non-scalar hypothesis is necessary for "nothing pending afterwards": on a rank-0 tensor
   Transpose returns early and leaves the backed-up AP in place (such a state is not reachable
   through T, which is a no-op on scalar-equivalent shapes) *)
Theorem C03_transpose_scalar_keeps_pending :
  let a := mkAP [] [] 0 true in
  let d := mkDense 0 0 1 a (Some a) false in
  let σ := mkStore Z [[5]] [d] in
  wf_dense Z σ d /\ d_len d = size (shp (d_ap d)) /\ m_transpose Z σ 0 = Ok σ.
Proof. cbv zeta. split; [apply wf_denseb_sound|split]; vm_compute; reflexivity. Qed.
Print Assumptions C03_transpose_scalar_keeps_pending.

(* Non-vacuity (V = Z): a 2x3x4 row-major tensor; T() makes the reversal pending; all hypotheses
   of C03_transpose_logical_id hold; Transpose moves the data (the buffer changes) but every
   At result is the same; UT after T restores the store. *)
Example C03b_example :
  let σ0 := mkStore Z [] [] in
  exists σ1 σT dT o σ',
    new_raw Z σ0 false [2; 3; 4] (zseq 0 24) = Ok (σ1, 0%nat) /\
    m_T Z σ1 0 [] = Ok σT /\ get_t Z σT 0 = Some dT /\
    wf_dense Z σT dT /\ d_old dT = Some o /\ shp (d_ap dT) = [4; 3; 2] /\
    is_cm (ord (d_ap dT)) = false /\ is_scalar (shp (d_ap dT)) = false /\
    d_len dT = size (shp (d_ap dT)) /\
    m_UT Z σT 0 = Ok σ1 /\
    m_transpose Z σT 0 = Ok σ' /\
    get_buf Z σ' 0 <> get_buf Z σT 0 /\ logical Z σ' 0 = logical Z σT 0 /\
    option_map (fun d' => (str (d_ap d'), d_old d')) (get_t Z σ' 0) = Some ([6; 2; 1], None).
Proof.
  cbv zeta. do 5 eexists.
  split; [vm_compute; reflexivity|]. split; [vm_compute; reflexivity|].
  split; [vm_compute; reflexivity|].
  split; [apply wf_denseb_sound; vm_compute; reflexivity|].
  split; [vm_compute; reflexivity|]. split; [vm_compute; reflexivity|].
  split; [vm_compute; reflexivity|]. split; [vm_compute; reflexivity|].
  split; [vm_compute; reflexivity|]. split; [vm_compute; reflexivity|].
  split; [vm_compute; reflexivity|].
  split; [vm_compute; discriminate|]. split; vm_compute; reflexivity.
Qed.
Print Assumptions C03b_example.
