(* PropC09.v — C09 "Inner, matrix-vector, matrix-matrix and outer products and the trace equal the
   defining sums of products over the contracted indices of the operands' LOGICAL contents with the
   documented result shape.  This holds for contiguous, lazily transposed and sliced operands and with
   reuse or increment destinations, leaves the operands unchanged, and any combination that is not
   supported is refused loudly instead of being computed from the wrong storage."
   Only statements; every proof is `exact <lemma of LinalgProofs>`.
   MODEL: Linalg.v (gemm_ref / gemv_ref / ger_ref / dot_ref = gonum's row-major contract with its
   precondition panics; eng_matmul = StdEng.MatMul's argument mapping; prep_dest / reuse_check_shape /
   finish_l = handleReuse / handleIncr; m_matmul, m_matvec, m_outer, m_inner, m_trace).
   The element type V with vzero, vadd, vmul is ARBITRARY: every sum is
       vsum l = fold_left vadd l vzero      (ascending index order, starting from vzero)
   so NO algebraic law is assumed, except commutativity of vmul in C09_colmajor_sum_commutative.
   Vocabulary (OpsProofs): cell, wf_dense, sep (no aliasing), in_buf (window inside its allocation),
   frame_ok σ σ' D (tensor table, allocation sizes, other allocations, windows disjoint from D and the
   cells of D's allocation outside D's window are unchanged), peek.
   WHAT HOLDS AND WHAT DOES NOT (the second half of the property is FALSE in the model):
   * proved: plain contiguous and LAZILY TRANSPOSED row-major operands (all combinations), contiguous
     slices (a view with contiguous strides and d_len = r*c satisfies plain2), all-column-major operands
     with equal transposition flags; safe / reuse / incr destinations; operands and all other
     allocations unchanged; shape / size mismatches refused with an error and an untouched store.
   * refuted (vm_compute counterexamples below, V := Z): a NON-CONTIGUOUS slice as a MatMul operand,
     a stepped vector view in Inner / MatVecMul, mixed row-/column-major operands, all-column-major
     with only one operand lazily transposed — all computed from the wrong storage WITHOUT any error.
     These are the guards mat_ok / vec_shape & d_len = n / equal data order of the theorems. *)
From TV Require Import Base Index AP Iter Mem Spec Ops Linalg
     IndexProofs IterProofs APProofs MemProofs OpsProofs LinalgProofs.

(* ====================================================================================== *)
(* L1  gonum's row-major BLAS contract (reference functions): when the argument checks pass the
   call returns, every result position holds the defining sum in ascending index order, every other
   position of the output slice is untouched and its length is kept.
   Definitions (LinalgProofs):
     gemm_pre tA tB m n k a lda b ldb c ldc =
       0 <= m /\ 0 <= n /\ 0 <= k /\ max 1 (if tA then m else k) <= lda /\ max 1 (if tB then k else n) <= ldb /\
       max 1 n <= ldc /\ (0 < m -> 0 < n -> (if tA then (k-1)*lda+m else (m-1)*lda+k) <= |a| /\
                                              (if tB then (n-1)*ldb+k else (k-1)*ldb+n) <= |b| /\ (m-1)*ldc+n <= |c|)
     opA tA a lda i l = if tA then a[l*lda+i] else a[i*lda+l];  opB tB b ldb l j = if tB then b[j*ldb+l] else b[l*ldb+j]
     gemm_val tA tB k a lda b ldb i j = vsum [vmul (opA i l) (opB l j) | l = 0..k-1]
     gemv_pre tA m n a lda x y = 0 < m /\ 0 < n /\ max 1 n <= lda /\ (if tA then m else n) <= |x| /\
                                 (if tA then n else m) <= |y| /\ lda*(m-1)+n <= |a|
     gemv_val tA m n a lda x r = if tA then vsum [vmul a[i*lda+r] x[i] | i < m] else vsum [vmul a[r*lda+j] x[j] | j < n]
     ger_pre m n x y a lda = 0 <= m /\ 0 <= n /\ max 1 n <= lda /\ (0 < m -> 0 < n -> m <= |x| /\ n <= |y| /\ lda*(m-1)+n <= |a|)
   (l[i] = at_ l i, the element with default vzero; all indices used are in range under the checks) *)
(* ====================================================================================== *)

(* Dgemm(tA,tB,m,n,k,1,a,lda,b,ldb,0,c,ldc): c[i*ldc+j] = sum_l opA(i,l)*opB(l,j).
   gemm_pre = the argument checks of gonum (dimensions >= 0, leading dimensions, slice lengths);
   opA tA a lda i l = if tA then a[l*lda+i] else a[i*lda+l], opB likewise; n <= ldc is part of the checks *)
Theorem C09_gemm_ref :
  forall (V : Type) (vzero : V) (vadd vmul : V -> V -> V) (tA tB : bool) 
      (m n k : Z) (a : list V) (lda : Z) (b : list V) (ldb : Z) (c : list V) 
      (ldc : Z),
    gemm_pre V tA tB m n k a lda b ldb c ldc ->
    exists c' : list V,
      gemm_ref V vzero vadd vmul tA tB m n k a lda b ldb c ldc = Some c' /\
      length c' = length c /\
      (forall i j : Z,
       0 <= i < m ->
       0 <= j < n ->
       zget c' (i * ldc + j) = Some (gemm_val V vzero vadd vmul tA tB k a lda b ldb i j)) /\
      (forall q : Z,
       (forall i j : Z, 0 <= i < m -> 0 <= j < n -> q <> i * ldc + j) -> zget c' q = zget c q).
Proof. exact gemm_ref_spec. Qed.
Print Assumptions C09_gemm_ref.

(* a leading dimension below max(1, cols) is a panic *)
Theorem C09_gemm_ref_bad_ld :
  forall (V : Type) (vzero : V) (vadd vmul : V -> V -> V) (tA tB : bool) 
      (m n k : Z) (a : list V) (lda : Z) (b : list V) (ldb : Z) (c : list V) 
      (ldc : Z),
    lda < Z.max 1 (if tA then m else k) ->
    gemm_ref V vzero vadd vmul tA tB m n k a lda b ldb c ldc = None.
Proof. exact gemm_ref_bad_ld. Qed.
Print Assumptions C09_gemm_ref_bad_ld.

(* Dgemv(tA,m,n,1,a,lda,x,1,0,y,1); gemv_pre requires 0 < m, 0 < n (see the quick return below) *)
Theorem C09_gemv_ref :
  forall (V : Type) (vzero : V) (vadd vmul : V -> V -> V) (tA : bool) 
      (m n : Z) (a : list V) (lda : Z) (x y : list V),
    gemv_pre V tA m n a lda x y ->
    exists y' : list V,
      gemv_ref V vzero vadd vmul tA m n a lda x y = Some y' /\
      length y' = length y /\
      (forall r : Z,
       0 <= r < (if tA then n else m) ->
       zget y' r = Some (gemv_val V vzero vadd vmul tA m n a lda x r)) /\
      (forall q : Z, ~ 0 <= q < (if tA then n else m) -> zget y' q = zget y q).
Proof. exact gemv_ref_spec. Qed.
Print Assumptions C09_gemv_ref.

(* m = 0 or n = 0: gonum returns BEFORE scaling y by beta = 0, so y keeps its old content *)
Theorem C09_gemv_ref_quick_return :
  forall (V : Type) (vzero : V) (vadd vmul : V -> V -> V) (tA : bool) 
      (m n : Z) (a : list V) (lda : Z) (x y : list V),
    0 <= m ->
    0 <= n ->
    Z.max 1 n <= lda -> m = 0 \/ n = 0 -> gemv_ref V vzero vadd vmul tA m n a lda x y = Some y.
Proof. exact gemv_ref_quick_return. Qed.
Print Assumptions C09_gemv_ref_quick_return.

(* Dger(m,n,1,x,1,y,1,a,lda): a[i*lda+j] += x[i]*y[j] (accumulating) *)
Theorem C09_ger_ref :
  forall (V : Type) (vzero : V) (vadd vmul : V -> V -> V) (m n : Z) (x y a : list V) (lda : Z),
    ger_pre V m n x y a lda ->
    exists a' : list V,
      ger_ref V vzero vadd vmul m n x y a lda = Some a' /\
      length a' = length a /\
      (forall i j : Z,
       0 <= i < m ->
       0 <= j < n ->
       zget a' (i * lda + j) =
       Some (vadd (at_ V vzero a (i * lda + j)) (vmul (at_ V vzero x i) (at_ V vzero y j)))) /\
      (forall q : Z,
       (forall i j : Z, 0 <= i < m -> 0 <= j < n -> q <> i * lda + j) -> zget a' q = zget a q).
Proof. exact ger_ref_spec. Qed.
Print Assumptions C09_ger_ref.

(* Ddot(n,x,1,y,1) *)
Theorem C09_dot_ref :
  forall (V : Type) (vzero : V) (vadd vmul : V -> V -> V) (n : Z) (x y : list V),
    0 <= n ->
    n <= zlen x ->
    n <= zlen y ->
    dot_ref V vzero vadd vmul n x y =
    Some
      (vsum V vzero vadd
         (map (fun i : Z => vmul (at_ V vzero x i) (at_ V vzero y i)) (zseq 0 (Z.to_nat n)))).
Proof. exact dot_ref_spec. Qed.
Print Assumptions C09_dot_ref.

(* a slice shorter than n is a panic *)
Theorem C09_dot_ref_short :
  forall (V : Type) (vzero : V) (vadd vmul : V -> V -> V) (n : Z) (x y : list V),
    0 < n -> zlen x < n \/ zlen y < n -> dot_ref V vzero vadd vmul n x y = None.
Proof. exact dot_ref_short. Qed.
Print Assumptions C09_dot_ref_short.

(* ====================================================================================== *)
(* L2  THE ARGUMENT MAPPING of StdEng.MatMul.
   mat_ok d r c = plain2 d r c \/ lazyT2 d r c  where
     plain2 d r c : d_old = None, shape [r;c], strides [c;1], row-major bit, d_len = r*c
     lazyT2 d r c : d_old = Some o with o the contiguous row-major c x r pattern (shape [c;r], strides [r;1]);
                    d_ap = o transposed: shape [r;c], strides [1;r]; row-major bit; d_len = r*c (data untouched)
   ent σ d i j = cell σ d [i;j]   (through the tensor's OWN strides: the logical entry)
   entv = ent with default vzero;  mm_sum σ a b k i j = vsum [vmul (entv a i l) (entv b l j) | l = 0..k-1] *)
(* ====================================================================================== *)

(* all four combinations plain/transposed x plain/transposed; destination contiguous row-major,
   not overlapping the operands (sep).  Guards: dimensions >= 1 (C09_matmul_zero_dim_guard_needed),
   layouts (C09_matmul_sliced_operand_refuted, C09_matmul_mixed_order_refuted) *)
Theorem C09_eng_matmul :
  forall (V : Type) (vzero : V) (vadd vmul : V -> V -> V) (σ : store V) 
      (a b p : dense) (m n k : Z),
    1 <= m ->
    1 <= n ->
    1 <= k ->
    mat_ok a m k ->
    mat_ok b k n ->
    plain2 p m n ->
    in_buf V σ a ->
    in_buf V σ b ->
    in_buf V σ p ->
    sep p a ->
    sep p b ->
    exists σ' : store V,
      eng_matmul V vzero vadd vmul σ a b p = Some σ' /\
      (forall i j : Z,
       0 <= i < m -> 0 <= j < n -> ent V σ' p i j = Some (mm_sum V vzero vadd vmul σ a b k i j)) /\
      (forall z : Z, win_get V σ' a z = win_get V σ a z) /\
      (forall z : Z, win_get V σ' b z = win_get V σ b z) /\
      tens V σ' = tens V σ /\ frame_ok V σ σ' p.
Proof. exact eng_matmul_spec. Qed.
Print Assumptions C09_eng_matmul.

(* the entries summed over are defined (inside the window) *)
Theorem C09_operand_entries_defined :
  forall (V : Type) (σ : store V) (d : dense) (r c i j : Z),
    mat_ok d r c ->
    in_buf V σ d -> 0 <= i < r -> 0 <= j < c -> exists v : V, ent V σ d i j = Some v.
Proof. exact ent_defined. Qed.
Print Assumptions C09_operand_entries_defined.

(* the all-column-major branch (operands swapped): both plain or both lazily transposed.
   mat_lay_cm d r c t: is_some d_old = t, shape [r;c], strides (if t then [c;1] else [1;r]), col-major bit,
   d_len = r*c.  The factors of each product come out EXCHANGED (mm_sum_swapped): this is the defining
   sum only for a commutative vmul (next theorem).  Mixed flags: C09_eng_matmul_cm_mixed_refuted *)
Theorem C09_eng_matmul_colmajor :
  forall (V : Type) (vzero : V) (vadd vmul : V -> V -> V) (σ : store V) 
      (a b p : dense) (m n k : Z) (t : bool),
    1 <= m ->
    1 <= n ->
    1 <= k ->
    mat_lay_cm a m k t ->
    mat_lay_cm b k n t ->
    mat_lay_cm p m n false ->
    in_buf V σ a ->
    in_buf V σ b ->
    in_buf V σ p ->
    exists σ' : store V,
      eng_matmul V vzero vadd vmul σ a b p = Some σ' /\
      frame_ok V σ σ' p /\
      (forall i j : Z,
       0 <= i < m ->
       0 <= j < n -> ent V σ' p i j = Some (mm_sum_swapped V vzero vadd vmul σ a b k i j)).
Proof. exact eng_matmul_cm. Qed.
Print Assumptions C09_eng_matmul_colmajor.

(* the only algebraic law used anywhere: commutativity of vmul, for the column-major branch *)
Theorem C09_colmajor_sum_commutative :
  forall (V : Type) (vzero : V) (vadd vmul : V -> V -> V) (σ : store V) 
      (a b : dense) (k i j : Z),
    (forall x y : V, vmul x y = vmul y x) ->
    mm_sum_swapped V vzero vadd vmul σ a b k i j = mm_sum V vzero vadd vmul σ a b k i j.
Proof. exact mm_sum_swapped_comm. Qed.
Print Assumptions C09_colmajor_sum_commutative.

(* the lazily transposed layout is what T() produces from a plain matrix (both dimensions >= 2) *)
Theorem C09_T_gives_lazy :
  forall (V : Type) (σ : store V) (t : nat) (d : dense) (c r : Z),
    get_t V σ t = Some d ->
    plain2 d c r ->
    2 <= r ->
    2 <= c ->
    exists d' : dense,
      m_T V σ t [] = Ok (set_t V σ t d') /\
      lazyT2 d' r c /\
      d_buf d' = d_buf d /\
      d_off d' = d_off d /\
      d_len d' = d_len d /\ (forall i j : Z, ent V (set_t V σ t d') d' i j = ent V σ d j i).
Proof. exact m_T_lazyT2. Qed.
Print Assumptions C09_T_gives_lazy.

(* ====================================================================================== *)
(* L3  Dense.MatMul: safe / reuse / incr destinations, refusals *)
(* ====================================================================================== *)

(* fresh result in a NEW allocation (index = old number of allocations), shape [m;n]; the tensor
   table and every old allocation are unchanged (so the operands are) *)
Theorem C09_matmul_safe :
  forall (V : Type) (vzero : V) (vadd vmul : V -> V -> V) (σ : store V) 
      (ta tb : nat) (a b : dense) (m n k : Z),
    get_t V σ ta = Some a ->
    get_t V σ tb = Some b ->
    1 <= m ->
    1 <= n ->
    1 <= k ->
    mat_ok a m k ->
    mat_ok b k n ->
    in_buf V σ a ->
    in_buf V σ b ->
    exists (σ' : store V) (p : dense),
      m_matmul V vzero vadd vmul σ ta tb LSafe = (σ', LNew p) /\
      d_buf p = length (bufs V σ) /\
      plain2 p m n /\
      in_buf V σ' p /\
      (forall i j : Z,
       0 <= i < m -> 0 <= j < n -> ent V σ' p i j = Some (mm_sum V vzero vadd vmul σ a b k i j)) /\
      tens V σ' = tens V σ /\
      length (bufs V σ') = S (length (bufs V σ)) /\
      (forall q : nat, (q < length (bufs V σ))%nat -> get_buf V σ' q = get_buf V σ q).
Proof. exact m_matmul_safe. Qed.
Print Assumptions C09_matmul_safe.

(* reuse tensor r: any row-major tensor of m*n cells whose window does not overlap the operands; it is
   reshaped to [m;n] (reshaped d sh: same window, shape sh, default strides, old = None, not a view).
   Guard sep: C09_matmul_reuse_alias_guard_needed *)
Theorem C09_matmul_reuse :
  forall (V : Type) (vzero : V) (vadd vmul : V -> V -> V) (σ : store V) 
      (ta tb r : nat) (a b d : dense) (m n k : Z),
    get_t V σ ta = Some a ->
    get_t V σ tb = Some b ->
    get_t V σ r = Some d ->
    1 <= m ->
    1 <= n ->
    1 <= k ->
    mat_ok a m k ->
    mat_ok b k n ->
    in_buf V σ a ->
    in_buf V σ b ->
    is_cm (ord (d_ap d)) = false ->
    d_len d = m * n ->
    in_buf V σ d ->
    sep d a ->
    sep d b ->
    exists σ' : store V,
      m_matmul V vzero vadd vmul σ ta tb (LReuse r) = (σ', LSame r) /\
      get_t V σ' r = Some (reshaped d [m; n]) /\
      plain2 (reshaped d [m; n]) m n /\
      (forall i j : Z,
       0 <= i < m ->
       0 <= j < n ->
       ent V σ' (reshaped d [m; n]) i j = Some (mm_sum V vzero vadd vmul σ a b k i j)) /\
      (forall t : nat, t <> r -> get_t V σ' t = get_t V σ t) /\
      length (tens V σ') = length (tens V σ) /\
      (forall z : Z, win_get V σ' a z = win_get V σ a z) /\
      (forall z : Z, win_get V σ' b z = win_get V σ b z) /\
      length (bufs V σ') = length (bufs V σ) /\
      (forall q : nat, q <> d_buf d -> get_buf V σ' q = get_buf V σ q) /\
      (forall (E : dense) (z : Z), sep d E -> win_get V σ' E z = win_get V σ E z) /\
      (forall q : Z,
       ~ d_off d <= q < d_off d + d_len d -> peek V σ' (d_buf d) q = peek V σ (d_buf d) q).
Proof. exact m_matmul_reuse. Qed.
Print Assumptions C09_matmul_reuse.

(* incr tensor: r[i,j] := vadd r_old[i,j] (sum)  (incr.Add(product, UseUnsafe()): old value on the
   left).  inc may be any well-formed row-major tensor of shape [m;n] (also a non-contiguous view), it
   may even be an operand.  Guard 1 < m*n is technical (wf_dense of OpsProofs): C09_matmul_incr_1x1_example *)
Theorem C09_matmul_incr :
  forall (V : Type) (vzero : V) (vadd vmul : V -> V -> V) (σ : store V) 
      (ta tb r : nat) (a b inc : dense) (m n k : Z),
    get_t V σ ta = Some a ->
    get_t V σ tb = Some b ->
    get_t V σ r = Some inc ->
    1 <= m ->
    1 <= n ->
    1 <= k ->
    1 < m * n ->
    mat_ok a m k ->
    mat_ok b k n ->
    in_buf V σ a ->
    in_buf V σ b ->
    wf_dense V σ inc ->
    shp (d_ap inc) = [m; n] ->
    exists σ' : store V,
      m_matmul V vzero vadd vmul σ ta tb (LIncr r) = (σ', LSame r) /\
      tens V σ' = tens V σ /\
      (forall (i j : Z) (o : V),
       0 <= i < m ->
       0 <= j < n ->
       ent V σ inc i j = Some o ->
       ent V σ' inc i j = Some (vadd o (mm_sum V vzero vadd vmul σ a b k i j))) /\
      (forall q : nat,
       (q < length (bufs V σ))%nat -> q <> d_buf inc -> get_buf V σ' q = get_buf V σ q) /\
      (forall (E : dense) (z : Z),
       sep inc E -> (d_buf E < length (bufs V σ))%nat -> win_get V σ' E z = win_get V σ E z).
Proof. exact m_matmul_incr. Qed.
Print Assumptions C09_matmul_incr.

(* inner dimensions differ: error, store untouched, whatever the mode *)
Theorem C09_matmul_shape_mismatch :
  forall (V : Type) (vzero : V) (vadd vmul : V -> V -> V) (σ : store V) 
      (ta tb : nat) (a b : dense) (m k k' n : Z) (md : lmode),
    get_t V σ ta = Some a ->
    get_t V σ tb = Some b ->
    shp (d_ap a) = [m; k] ->
    shp (d_ap b) = [k'; n] -> k <> k' -> m_matmul V vzero vadd vmul σ ta tb md = (σ, LErr).
Proof. exact m_matmul_shape_mismatch. Qed.
Print Assumptions C09_matmul_shape_mismatch.

(* an operand that is not 2-dimensional: error, store untouched *)
Theorem C09_matmul_not_matrix :
  forall (V : Type) (vzero : V) (vadd vmul : V -> V -> V) (σ : store V) 
      (ta tb : nat) (a b : dense) (md : lmode),
    get_t V σ ta = Some a ->
    get_t V σ tb = Some b ->
    length (shp (d_ap a)) <> 2%nat \/ length (shp (d_ap b)) <> 2%nat ->
    m_matmul V vzero vadd vmul σ ta tb md = (σ, LErr).
Proof. exact m_matmul_not_matrix. Qed.
Print Assumptions C09_matmul_not_matrix.

(* a (non-view) reuse tensor of the wrong size: error, store untouched *)
Theorem C09_matmul_reuse_wrong_size :
  forall (V : Type) (vzero : V) (vadd vmul : V -> V -> V) (σ : store V) 
      (ta tb r : nat) (a b d : dense) (m n k : Z),
    get_t V σ ta = Some a ->
    get_t V σ tb = Some b ->
    get_t V σ r = Some d ->
    shp (d_ap a) = [m; k] ->
    shp (d_ap b) = [k; n] ->
    d_view d = false ->
    d_len d <> m * n -> m_matmul V vzero vadd vmul σ ta tb (LReuse r) = (σ, LErr).
Proof. exact m_matmul_reuse_wrong_size. Qed.
Print Assumptions C09_matmul_reuse_wrong_size.

(* an incr tensor of another shape: error; only a garbage allocation is left behind *)
Theorem C09_matmul_incr_wrong_shape :
  forall (V : Type) (vzero : V) (vadd vmul : V -> V -> V) (σ : store V) 
      (ta tb r : nat) (a b inc : dense) (m n k : Z),
    get_t V σ ta = Some a ->
    get_t V σ tb = Some b ->
    get_t V σ r = Some inc ->
    1 <= m ->
    1 <= n ->
    1 <= k ->
    mat_ok a m k ->
    mat_ok b k n ->
    in_buf V σ a ->
    in_buf V σ b ->
    shape_eq [m; n] (shp (d_ap inc)) = false ->
    exists σ' : store V,
      m_matmul V vzero vadd vmul σ ta tb (LIncr r) = (σ', LErr) /\
      tens V σ' = tens V σ /\
      (forall q : nat, (q < length (bufs V σ))%nat -> get_buf V σ' q = get_buf V σ q).
Proof. exact m_matmul_incr_wrong_shape. Qed.
Print Assumptions C09_matmul_incr_wrong_shape.

(* ====================================================================================== *)
(* L4  MatVecMul, Inner, Outer, Trace.
   velt σ x j = the j-th cell of x's window (default vzero): the logical element of a CONTIGUOUS vector
   vec_shape sh n: sh = [n], or [n;1] / [1;n] with 1 < n;  mv_sum σ a x n i = vsum [vmul (entv a i j) (velt x j) | j < n] *)
(* ====================================================================================== *)

(* velt is the logical element for the default strides of the three vector shapes *)
Theorem C09_velt_is_cell_1 :
  forall (V : Type) (vzero : V) (σ : store V) (d : dense) (j : Z),
    str (d_ap d) = [1] -> velt V vzero σ d j = optv V vzero (cell V σ d [j]).
Proof. exact velt_cell_1. Qed.
Print Assumptions C09_velt_is_cell_1.

Theorem C09_velt_is_cell_col :
  forall (V : Type) (vzero : V) (σ : store V) (d : dense) (j : Z),
    str (d_ap d) = [1; 1] -> velt V vzero σ d j = optv V vzero (cell V σ d [j; 0]).
Proof. exact velt_cell_col. Qed.
Print Assumptions C09_velt_is_cell_col.

Theorem C09_velt_is_cell_row :
  forall (V : Type) (vzero : V) (σ : store V) (d : dense) (n j : Z),
    str (d_ap d) = [n; 1] -> velt V vzero σ d j = optv V vzero (cell V σ d [0; j]).
Proof. exact velt_cell_row. Qed.
Print Assumptions C09_velt_is_cell_row.

(* a plain or lazily transposed, x a contiguous vector (window length n).
   Guard d_len x = n: C09_matvec_stepped_view_refuted *)
Theorem C09_matvec_safe :
  forall (V : Type) (vzero : V) (vadd vmul : V -> V -> V) (σ : store V) 
      (ta tb : nat) (a x : dense) (m n : Z),
    get_t V σ ta = Some a ->
    get_t V σ tb = Some x ->
    1 <= m ->
    1 <= n ->
    mat_ok a m n ->
    in_buf V σ a ->
    vec_shape (shp (d_ap x)) n ->
    d_len x = n ->
    in_buf V σ x ->
    exists (σ' : store V) (p : dense),
      m_matvec V vzero vadd vmul σ ta tb LSafe = (σ', LNew p) /\
      d_buf p = length (bufs V σ) /\
      shp (d_ap p) = [m] /\
      str (d_ap p) = [1] /\
      d_len p = m /\
      is_cm (ord (d_ap p)) = false /\
      d_old p = None /\
      in_buf V σ' p /\
      (forall i : Z, 0 <= i < m -> cell V σ' p [i] = Some (mv_sum V vzero vadd vmul σ a x n i)) /\
      tens V σ' = tens V σ /\
      length (bufs V σ') = S (length (bufs V σ)) /\
      (forall q : nat, (q < length (bufs V σ))%nat -> get_buf V σ' q = get_buf V σ q).
Proof. exact m_matvec_safe. Qed.
Print Assumptions C09_matvec_safe.

Theorem C09_matvec_reuse :
  forall (V : Type) (vzero : V) (vadd vmul : V -> V -> V) (σ : store V) 
      (ta tb r : nat) (a x d : dense) (m n : Z),
    get_t V σ ta = Some a ->
    get_t V σ tb = Some x ->
    get_t V σ r = Some d ->
    1 <= m ->
    1 <= n ->
    mat_ok a m n ->
    in_buf V σ a ->
    vec_shape (shp (d_ap x)) n ->
    d_len x = n ->
    in_buf V σ x ->
    is_cm (ord (d_ap d)) = false ->
    d_len d = m ->
    in_buf V σ d ->
    sep d a ->
    sep d x ->
    exists σ' : store V,
      m_matvec V vzero vadd vmul σ ta tb (LReuse r) = (σ', LSame r) /\
      get_t V σ' r = Some (reshaped d [m]) /\
      (forall i : Z,
       0 <= i < m -> cell V σ' (reshaped d [m]) [i] = Some (mv_sum V vzero vadd vmul σ a x n i)) /\
      (forall u : nat, u <> r -> get_t V σ' u = get_t V σ u) /\
      length (tens V σ') = length (tens V σ) /\
      length (bufs V σ') = length (bufs V σ) /\
      (forall q : nat, q <> d_buf d -> get_buf V σ' q = get_buf V σ q) /\
      (forall (D : dense) (z : Z), sep d D -> win_get V σ' D z = win_get V σ D z) /\
      (forall q : Z,
       ~ d_off d <= q < d_off d + d_len d -> peek V σ' (d_buf d) q = peek V σ (d_buf d) q).
Proof. exact m_matvec_reuse. Qed.
Print Assumptions C09_matvec_reuse.

(* guard 1 < m technical as for MatMul *)
Theorem C09_matvec_incr :
  forall (V : Type) (vzero : V) (vadd vmul : V -> V -> V) (σ : store V) 
      (ta tb r : nat) (a x inc : dense) (m n : Z),
    get_t V σ ta = Some a ->
    get_t V σ tb = Some x ->
    get_t V σ r = Some inc ->
    1 < m ->
    1 <= n ->
    mat_ok a m n ->
    in_buf V σ a ->
    vec_shape (shp (d_ap x)) n ->
    d_len x = n ->
    in_buf V σ x ->
    wf_dense V σ inc ->
    shp (d_ap inc) = [m] ->
    exists σ' : store V,
      m_matvec V vzero vadd vmul σ ta tb (LIncr r) = (σ', LSame r) /\
      tens V σ' = tens V σ /\
      (forall (i : Z) (o : V),
       0 <= i < m ->
       cell V σ inc [i] = Some o ->
       cell V σ' inc [i] = Some (vadd o (mv_sum V vzero vadd vmul σ a x n i))) /\
      (forall q : nat,
       (q < length (bufs V σ))%nat -> q <> d_buf inc -> get_buf V σ' q = get_buf V σ q) /\
      (forall (D : dense) (z : Z),
       sep inc D -> (d_buf D < length (bufs V σ))%nat -> win_get V σ' D z = win_get V σ D z).
Proof. exact m_matvec_incr. Qed.
Print Assumptions C09_matvec_incr.

(* contiguous vectors of equal (window) length.  Guard: C09_inner_stepped_view_refuted *)
Theorem C09_inner :
  forall (V : Type) (vzero : V) (vadd vmul : V -> V -> V) (σ : store V) 
      (ta tb : nat) (x y : dense) (n : Z),
    get_t V σ ta = Some x ->
    get_t V σ tb = Some y ->
    is_vector (shp (d_ap x)) = true ->
    is_vector (shp (d_ap y)) = true ->
    d_len x = n ->
    d_len y = n ->
    0 <= n ->
    in_buf V σ x ->
    in_buf V σ y ->
    m_inner V vzero vadd vmul σ ta tb =
    Ok
      (vsum V vzero vadd
         (map (fun i : Z => vmul (velt V vzero σ x i) (velt V vzero σ y i))
            (zseq 0 (Z.to_nat n)))).
Proof. exact m_inner_spec. Qed.
Print Assumptions C09_inner.

Theorem C09_inner_length_mismatch :
  forall (V : Type) (vzero : V) (vadd vmul : V -> V -> V) (σ : store V) 
      (ta tb : nat) (x y : dense),
    get_t V σ ta = Some x ->
    get_t V σ tb = Some y ->
    is_vector (shp (d_ap y)) = true ->
    d_len x <> d_len y -> m_inner V vzero vadd vmul σ ta tb = Err.
Proof. exact m_inner_length_mismatch. Qed.
Print Assumptions C09_inner_length_mismatch.

Theorem C09_inner_not_vector :
  forall (V : Type) (vzero : V) (vadd vmul : V -> V -> V) (σ : store V) 
      (ta tb : nat) (x y : dense),
    get_t V σ ta = Some x ->
    get_t V σ tb = Some y ->
    is_vector (shp (d_ap x)) = false \/ is_vector (shp (d_ap y)) = false ->
    m_inner V vzero vadd vmul σ ta tb = Err.
Proof. exact m_inner_not_vector. Qed.
Print Assumptions C09_inner_not_vector.

(* row-major path.  Dger ACCUMULATES into the zeroed destination, so each entry is
   vadd vzero (vmul x_i y_j) — exactly what the model gives, no law  vadd vzero v = v  assumed *)
Theorem C09_outer_safe :
  forall (V : Type) (vzero : V) (vadd vmul : V -> V -> V) (σ : store V) 
      (ta tb : nat) (x y : dense) (m n : Z),
    get_t V σ ta = Some x ->
    get_t V σ tb = Some y ->
    is_vector (shp (d_ap x)) = true ->
    is_vector (shp (d_ap y)) = true ->
    is_cm (ord (d_ap x)) = false ->
    size (shp (d_ap x)) = m ->
    size (shp (d_ap y)) = n ->
    d_len x = m ->
    d_len y = n ->
    1 <= m ->
    1 <= n ->
    in_buf V σ x ->
    in_buf V σ y ->
    exists (σ' : store V) (p : dense),
      m_outer V vzero vadd vmul σ ta tb LSafe = (σ', LNew p) /\
      d_buf p = length (bufs V σ) /\
      plain2 p m n /\
      in_buf V σ' p /\
      (forall i j : Z,
       0 <= i < m ->
       0 <= j < n ->
       ent V σ' p i j = Some (vadd vzero (vmul (velt V vzero σ x i) (velt V vzero σ y j)))) /\
      tens V σ' = tens V σ /\
      length (bufs V σ') = S (length (bufs V σ)) /\
      (forall q : nat, (q < length (bufs V σ))%nat -> get_buf V σ' q = get_buf V σ q).
Proof. exact m_outer_safe. Qed.
Print Assumptions C09_outer_safe.

(* outer_val σ x y i j = vadd vzero (vmul (velt x i) (velt y j)); the reuse tensor is zeroed first *)
Theorem C09_outer_reuse :
  forall (V : Type) (vzero : V) (vadd vmul : V -> V -> V) (σ : store V) 
      (ta tb r : nat) (x y d : dense) (m n : Z),
    get_t V σ ta = Some x ->
    get_t V σ tb = Some y ->
    get_t V σ r = Some d ->
    is_vector (shp (d_ap x)) = true ->
    is_vector (shp (d_ap y)) = true ->
    size (shp (d_ap x)) = m ->
    size (shp (d_ap y)) = n ->
    d_len x = m ->
    d_len y = n ->
    1 <= m ->
    1 <= n ->
    in_buf V σ x ->
    in_buf V σ y ->
    is_cm (ord (d_ap d)) = false ->
    d_len d = m * n ->
    in_buf V σ d ->
    sep d x ->
    sep d y ->
    exists σ' : store V,
      m_outer V vzero vadd vmul σ ta tb (LReuse r) = (σ', LSame r) /\
      get_t V σ' r = Some (reshaped d [m; n]) /\
      plain2 (reshaped d [m; n]) m n /\
      (forall i j : Z,
       0 <= i < m ->
       0 <= j < n ->
       ent V σ' (reshaped d [m; n]) i j = Some (outer_val V vzero vadd vmul σ x y i j)) /\
      (forall u : nat, u <> r -> get_t V σ' u = get_t V σ u) /\
      length (tens V σ') = length (tens V σ) /\
      length (bufs V σ') = length (bufs V σ) /\
      (forall q : nat, q <> d_buf d -> get_buf V σ' q = get_buf V σ q) /\
      (forall (D : dense) (z : Z), sep d D -> win_get V σ' D z = win_get V σ D z) /\
      (forall q : Z,
       ~ d_off d <= q < d_off d + d_len d -> peek V σ' (d_buf d) q = peek V σ (d_buf d) q).
Proof. exact m_outer_reuse. Qed.
Print Assumptions C09_outer_reuse.

Theorem C09_outer_incr :
  forall (V : Type) (vzero : V) (vadd vmul : V -> V -> V) (σ : store V) 
      (ta tb r : nat) (x y inc : dense) (m n : Z),
    get_t V σ ta = Some x ->
    get_t V σ tb = Some y ->
    get_t V σ r = Some inc ->
    is_vector (shp (d_ap x)) = true ->
    is_vector (shp (d_ap y)) = true ->
    is_cm (ord (d_ap x)) = false ->
    size (shp (d_ap x)) = m ->
    size (shp (d_ap y)) = n ->
    d_len x = m ->
    d_len y = n ->
    1 <= m ->
    1 <= n ->
    1 < m * n ->
    in_buf V σ x ->
    in_buf V σ y ->
    wf_dense V σ inc ->
    shp (d_ap inc) = [m; n] ->
    exists σ' : store V,
      m_outer V vzero vadd vmul σ ta tb (LIncr r) = (σ', LSame r) /\
      tens V σ' = tens V σ /\
      (forall (i j : Z) (o : V),
       0 <= i < m ->
       0 <= j < n ->
       ent V σ inc i j = Some o ->
       ent V σ' inc i j = Some (vadd o (outer_val V vzero vadd vmul σ x y i j))) /\
      (forall q : nat,
       (q < length (bufs V σ))%nat -> q <> d_buf inc -> get_buf V σ' q = get_buf V σ q) /\
      (forall (D : dense) (z : Z),
       sep inc D -> (d_buf D < length (bufs V σ))%nat -> win_get V σ' D z = win_get V σ D z).
Proof. exact m_outer_incr. Qed.
Print Assumptions C09_outer_incr.

Theorem C09_outer_not_vector :
  forall (V : Type) (vzero : V) (vadd vmul : V -> V -> V) (σ : store V) 
      (ta tb : nat) (x y : dense) (md : lmode),
    get_t V σ ta = Some x ->
    get_t V σ tb = Some y ->
    is_vector (shp (d_ap x)) = false \/ is_vector (shp (d_ap y)) = false ->
    m_outer V vzero vadd vmul σ ta tb md = (σ, LErr).
Proof. exact m_outer_not_vector. Qed.
Print Assumptions C09_outer_not_vector.

(* any 2-d tensor with strides [rs;cs] (views and transposes included) whose diagonal offsets lie in
   the window: the sum of the LOGICAL diagonal *)
Theorem C09_trace :
  forall (V : Type) (vzero : V) (vadd : V -> V -> V) (σ : store V) 
      (t : nat) (d : dense) (r c rs cs : Z),
    get_t V σ t = Some d ->
    shp (d_ap d) = [r; c] ->
    str (d_ap d) = [rs; cs] ->
    in_buf V σ d ->
    0 <= d_len d ->
    (forall i : Z, 0 <= i < Z.min r c -> 0 <= i * (rs + cs) < d_len d) ->
    m_trace V vzero vadd σ t =
    Ok
      (vsum V vzero vadd
         (map (fun i : Z => entv V vzero σ d i i) (zseq 0 (Z.to_nat (Z.min r c))))).
Proof. exact m_trace_spec. Qed.
Print Assumptions C09_trace.

(* a diagonal offset outside the window is a panic, never a wrong value *)
Theorem C09_trace_out_of_window :
  forall (V : Type) (vzero : V) (vadd : V -> V -> V) (σ : store V) 
      (t : nat) (d : dense) (r c rs cs i : Z),
    get_t V σ t = Some d ->
    shp (d_ap d) = [r; c] ->
    str (d_ap d) = [rs; cs] ->
    in_buf V σ d ->
    0 <= d_len d ->
    0 <= i < Z.min r c -> ~ 0 <= i * (rs + cs) < d_len d -> m_trace V vzero vadd σ t = Panic.
Proof. exact m_trace_out_of_window. Qed.
Print Assumptions C09_trace_out_of_window.

Theorem C09_trace_not_matrix :
  forall (V : Type) (vzero : V) (vadd : V -> V -> V) (σ : store V) (t : nat) (d : dense),
    get_t V σ t = Some d -> length (shp (d_ap d)) <> 2%nat -> m_trace V vzero vadd σ t = Err.
Proof. exact m_trace_not_matrix. Qed.
Print Assumptions C09_trace_not_matrix.

(* ====================================================================================== *)
(* L5  NEGATIVE results and necessity of the guards: concrete stores over V := Z, built by the
   library's own constructors.  Neg.st2 / Neg.st1 project the store out of an Ok result;
   Neg.res_logical = the logical content (through At) of the returned tensor; Neg.res_kind =
   0 LNew, 1 LSame, 2 LErr, 3 LPanic; Neg.textbook_mm / _mv / _inner = the defining sums computed
   from the operands' logical contents (through At). *)
(* ====================================================================================== *)
Import Neg.

(* (a) a SLICED operand: tensor 1 = A[:, 0:2] of the 3x3 matrix 1..9 (view, strides [3;1], window of
   8 cells), tensor 2 = the 2x2 identity.  MatMul returns normally with rows [1 2][3 4][5 6]
   instead of [1 2][4 5][7 8].  Guard violated: mat_ok (neither plain2 nor lazyT2). *)
Example C09_matmul_sliced_operand_refuted :
  let σ := st2 (new_raw Z (st2 (m_slice Z (st2 (new_raw Z e0 false [3; 3] [1; 2; 3; 4; 5; 6; 7; 8; 9]))
                                       0 [None; Some (0, 2, 1)])) false [2; 2] [1; 0; 0; 1]) in
  logical Z σ 1 = [Ok 1; Ok 2; Ok 4; Ok 5; Ok 7; Ok 8] /\
  textbook_mm σ 1 2 3 2 2 = [Ok 1; Ok 2; Ok 4; Ok 5; Ok 7; Ok 8] /\
  res_kind (zmatmul σ 1 2 LSafe) = 0%nat /\
  res_logical (zmatmul σ 1 2 LSafe) = [Ok 1; Ok 2; Ok 3; Ok 4; Ok 5; Ok 6].
Proof. exact matmul_sliced_operand_refuted. Qed.
Print Assumptions C09_matmul_sliced_operand_refuted.

(* (b) a STEPPED vector view x[0:6:2] of 1..6 (logical [1;3;5], stride 2, window of 6 cells).
   Inner with a vector of the same logical length is REFUSED (window lengths differ) ... *)
Example C09_inner_stepped_view_refused :
  let σ := st2 (new_raw Z (st2 (m_slice Z (st2 (new_raw Z e0 false [6] [1; 2; 3; 4; 5; 6])) 0 [Some (0, 6, 2)]))
                        false [3] [1; 1; 1]) in
  logical Z σ 1 = [Ok 1; Ok 3; Ok 5] /\ textbook_inner σ 1 2 3 = 9 /\ zinner σ 1 2 = Err.
Proof. exact inner_stepped_view_refused. Qed.
Print Assumptions C09_inner_stepped_view_refused.

(* ... while with a vector of logical length 6 (a length mismatch) the raw windows are multiplied and
   21 is returned without any error.  Guard violated: d_len = logical length (contiguous vector). *)
Example C09_inner_stepped_view_refuted :
  let σ := st2 (new_raw Z (st2 (m_slice Z (st2 (new_raw Z e0 false [6] [1; 2; 3; 4; 5; 6])) 0 [Some (0, 6, 2)]))
                        false [6] [1; 1; 1; 1; 1; 1]) in
  logical Z σ 1 = [Ok 1; Ok 3; Ok 5] /\ length (logical Z σ 2) = 6%nat /\ zinner σ 1 2 = Ok 21.
Proof. exact inner_stepped_view_refuted. Qed.
Print Assumptions C09_inner_stepped_view_refuted.

(* MatVecMul (2x3 of ones) with the stepped view as the vector: [6;6] instead of [9;9], no error.
   Guard violated: d_len x = n of C09_matvec_safe. *)
Example C09_matvec_stepped_view_refuted :
  let σ := st2 (new_raw Z (st2 (m_slice Z (st2 (new_raw Z e0 false [6] [1; 2; 3; 4; 5; 6])) 0 [Some (0, 6, 2)]))
                        false [2; 3] [1; 1; 1; 1; 1; 1]) in
  textbook_mv σ 2 1 2 3 = [Ok 9; Ok 9] /\
  res_kind (zmatvec σ 2 1 LSafe) = 0%nat /\ res_logical (zmatvec σ 2 1 LSafe) = [Ok 6; Ok 6].
Proof. exact matvec_stepped_view_refuted. Qed.
Print Assumptions C09_matvec_stepped_view_refuted.

(* mixed data orders (A column-major, B row-major, and the converse), square so that no BLAS length
   check fires: wrong products, silently.  Guard violated: the row-major bit of mat_ok / the common
   column-major bit of mat_lay_cm. *)
Example C09_matmul_mixed_order_refuted :
  (let σ := st2 (new_raw Z (st2 (new_cmb Z e0 [2; 2] [1; 2; 3; 4])) false [2; 2] [5; 6; 7; 8]) in
   textbook_mm σ 0 1 2 2 2 = [Ok 19; Ok 22; Ok 43; Ok 50] /\
   res_kind (zmatmul σ 0 1 LSafe) = 0%nat /\
   res_logical (zmatmul σ 0 1 LSafe) = [Ok 26; Ok 38; Ok 30; Ok 44]) /\
  (let σ := st2 (new_cmb Z (st2 (new_raw Z e0 false [2; 2] [1; 2; 3; 4])) [2; 2] [5; 6; 7; 8]) in
   textbook_mm σ 0 1 2 2 2 = [Ok 19; Ok 22; Ok 43; Ok 50] /\
   res_kind (zmatmul σ 0 1 LSafe) = 0%nat /\
   res_logical (zmatmul σ 0 1 LSafe) = [Ok 17; Ok 23; Ok 39; Ok 53]).
Proof. exact (conj matmul_mixed_order_refuted matmul_mixed_order_refuted'). Qed.
Print Assumptions C09_matmul_mixed_order_refuted.

(* non-square mixed orders end in a BLAS precondition panic (loud) *)
Example C09_matmul_mixed_order_panics :
  let σ := st2 (new_raw Z (st2 (new_cmb Z e0 [2; 3] [1; 2; 3; 4; 5; 6])) false [3; 2] [1; 2; 3; 4; 5; 6]) in
  res_kind (zmatmul σ 0 1 LSafe) = 3%nat.
Proof. exact matmul_mixed_order_panics. Qed.
Print Assumptions C09_matmul_mixed_order_panics.

(* all column-major, only A lazily transposed: the transpose flags reach gemm in the UNSWAPPED order.
   Guard violated: the common flag t of C09_eng_matmul_colmajor. *)
Example C09_eng_matmul_cm_mixed_refuted :
  let σ := st2 (new_cmb Z (st1 (m_T Z (st2 (new_cmb Z e0 [2; 2] [1; 3; 2; 4])) 0 [])) [2; 2] [5; 6; 7; 8]) in
  logical Z σ 0 = [Ok 1; Ok 2; Ok 3; Ok 4] /\
  textbook_mm σ 0 1 2 2 2 = [Ok 19; Ok 22; Ok 43; Ok 50] /\
  res_kind (zmatmul σ 0 1 LSafe) = 0%nat /\
  res_logical (zmatmul σ 0 1 LSafe) = [Ok 23; Ok 31; Ok 34; Ok 46].
Proof. exact eng_matmul_cm_mixed_refuted. Qed.
Print Assumptions C09_eng_matmul_cm_mixed_refuted.

(* guard 1 <= k: an empty contracted dimension is a "bad leading dimension" panic, not a zero matrix *)
Example C09_matmul_zero_dim_guard_needed :
  let σ := st2 (new_raw Z (st2 (new_raw Z e0 false [2; 0] [])) false [0; 2] []) in
  res_kind (zmatmul σ 0 1 LSafe) = 3%nat.
Proof. exact matmul_zero_dim_guard_needed. Qed.
Print Assumptions C09_matmul_zero_dim_guard_needed.

(* guard sep (reuse window disjoint from the operands): with reuse = A the operand is overwritten.
   (The model reads both windows before writing, so the numbers are still the product; in gonum
   aliasing c with a is undefined.) *)
Example C09_matmul_reuse_alias_guard_needed :
  let σ := st2 (new_raw Z (st2 (new_raw Z e0 false [2; 2] [1; 2; 3; 4])) false [2; 2] [0; 1; 1; 0]) in
  logical Z σ 0 = [Ok 1; Ok 2; Ok 3; Ok 4] /\
  res_kind (zmatmul σ 0 1 (LReuse 0)) = 1%nat /\
  logical Z (fst (zmatmul σ 0 1 (LReuse 0))) 0 = [Ok 2; Ok 1; Ok 4; Ok 3].
Proof. exact matmul_reuse_alias_guard_needed. Qed.
Print Assumptions C09_matmul_reuse_alias_guard_needed.

(* the guard 1 < m*n of the incr theorems is only technical: a 1x1 increment works (100 + 2*4 + 3*5) *)
Example C09_matmul_incr_1x1_example :
  let σ := st2 (new_raw Z (st2 (new_raw Z (st2 (new_raw Z e0 false [1; 2] [2; 3])) false [2; 1] [4; 5]))
                        false [1; 1] [100]) in
  res_kind (zmatmul σ 0 1 (LIncr 2)) = 1%nat /\
  logical Z (fst (zmatmul σ 0 1 (LIncr 2))) 2 = [Ok 123].
Proof. exact matmul_incr_1x1_example. Qed.
Print Assumptions C09_matmul_incr_1x1_example.

(* ====================================================================================== *)
(* the hypotheses of C09_matmul_safe are satisfiable on a non-trivial store: a = 2x3 contiguous
   [[1 2 3][4 5 6]]; b = T() of the 2x3 matrix [[1 2 3][4 5 6]], i.e. the LAZILY TRANSPOSED 3x2
   matrix [[1 4][2 5][3 6]] over untouched data; a x b = [[14 32][32 77]] *)
(* ====================================================================================== *)
Example C09_example :
  let σ := st1 (m_T Z (st2 (new_raw Z (st2 (new_raw Z e0 false [2; 3] [1; 2; 3; 4; 5; 6]))
                                    false [2; 3] [1; 2; 3; 4; 5; 6])) 1 []) in
  exists a b,
    get_t Z σ 0 = Some a /\ get_t Z σ 1 = Some b /\
    plain2 a 2 3 /\ lazyT2 b 3 2 /\ mat_ok a 2 3 /\ mat_ok b 3 2 /\
    in_buf Z σ a /\ in_buf Z σ b /\
    get_buf Z σ 1 = [1; 2; 3; 4; 5; 6] /\                         (* b's data are untouched *)
    logical Z σ 1 = [Ok 1; Ok 4; Ok 2; Ok 5; Ok 3; Ok 6] /\         (* ... but b reads transposed *)
    res_kind (zmatmul σ 0 1 LSafe) = 0%nat /\
    res_logical (zmatmul σ 0 1 LSafe) = [Ok 14; Ok 32; Ok 32; Ok 77] /\
    tens Z (fst (zmatmul σ 0 1 LSafe)) = tens Z σ /\
    bufs Z (fst (zmatmul σ 0 1 LSafe)) = bufs Z σ ++ [[14; 32; 32; 77]].
Proof.
  vm_compute. eexists. eexists. split; [reflexivity|]. split; [reflexivity|].
  assert (P : plain2 (mkDense 0 0 6 (mkAP [2; 3] [3; 1] 0 true) None false) 2 3) by (repeat split).
  assert (L : lazyT2 (mkDense 1 0 6 (mkAP [3; 2] [1; 3] 4 true) (Some (mkAP [2; 3] [3; 1] 0 true)) false) 3 2)
    by (eexists; repeat split).
  split; [exact P|]. split; [exact L|]. split; [left; exact P|]. split; [right; exact L|].
  repeat split; vm_compute; congruence.
Qed.
Print Assumptions C09_example.
