(* MaskedProofs.v — proofs about the MODEL of the mask machinery (Masked.v) against its SPEC. *)
From TV Require Import Base Index AP Iter Mem Spec Serial Masked IndexProofs IterProofs APProofs.
Local Open Scope Z_scope.

#[local] Arguments mt_ap {V}. #[local] Arguments mt_old {V}. #[local] Arguments mt_view {V}.
#[local] Arguments mt_data {V}. #[local] Arguments mt_mask {V}. #[local] Arguments mt_soft {V}.

Section MaskedProofs.
Variable V : Type.

(* ---------- 1. the masking predicates ---------- *)
Lemma pred_loop_spec soft (p : V -> bool) : forall data mask,
  length mask = length data ->
  pred_loop V soft p data mask = Some (ks_pred V soft p data mask).
Proof.
  induction data as [|a data IH]; intros mask Hl.
  - destruct mask; [|discriminate]. destruct soft; reflexivity.
  - destruct mask as [|m mask]; [discriminate|]. cbn [pred_loop].
    rewrite IH by (cbn in Hl; lia).
    unfold ks_pred, kmap2. destruct soft; reflexivity.
Qed.

Lemma repeat_false_orb (l : list bool) :
  kmap2 orb (repeat false (length l)) l = l.
Proof. unfold kmap2. induction l as [|b l IH]; [reflexivity|]. cbn. rewrite IH. reflexivity. Qed.

(* the mask the predicate starts from: the tensor's own, or all-false when it has none *)
Definition prior_mask (t : mten V) : list bool :=
  if k_is_masked V t then mt_mask t else repeat false (length (mt_data t)).

Theorem pred_marks_exactly_thm is_float (p : V -> bool) (t : mten V) :
  mt_len V t = mt_size V t ->                          (* the window holds exactly the elements *)
  exists t', k_pred V false is_float true p t = Ok t' /\
    mt_data t' = mt_data t /\ mt_ap t' = mt_ap t /\
    mt_mask t' = (if mt_soft t then map p (mt_data t)
                  else kmap2 orb (prior_mask t) (map p (mt_data t))) /\
    k_is_masked V t' = true.
Proof.
  intro Hsz. unfold k_pred. cbn [andb negb].
  set (mask := if k_is_masked V t then mt_mask t else k_make_mask V t).
  assert (Hm : mask = prior_mask t).
  { unfold mask, prior_mask, k_make_mask. destruct (k_is_masked V t); [reflexivity|].
    rewrite <- Hsz. unfold mt_len, zlen. rewrite Nat2Z.id. reflexivity. }
  assert (Hl : length mask = length (mt_data t)).
  { rewrite Hm. unfold prior_mask. destruct (k_is_masked V t) eqn:E.
    - unfold k_is_masked, mt_len, zlen in E. apply Z.eqb_eq in E. lia.
    - apply repeat_length. }
  rewrite (pred_loop_spec (mt_soft t) p (mt_data t) mask Hl).
  eexists. split; [reflexivity|]. cbn [with_mask mt_data mt_ap mt_mask].
  split; [reflexivity|]. split; [reflexivity|]. split.
  - unfold ks_pred. rewrite Hm. reflexivity.
  - unfold k_is_masked, mt_len. cbn [with_mask mt_data mt_mask]. apply Z.eqb_eq.
    unfold zlen. f_equal. unfold ks_pred, kmap2.
    destruct (mt_soft t); rewrite !map_length; [reflexivity|].
    rewrite combine_length, map_length, Hl. apply Nat.min_id.
Qed.

(* ---------- 2. counts and any/all ---------- *)
Lemma count_true_occ (m : list bool) : count_true m = ks_count m.
Proof.
  unfold count_true, ks_count, zlen. f_equal.
  induction m as [|b m IH]; [reflexivity|]. destruct b; cbn; rewrite IH; reflexivity.
Qed.

Lemma count_split (m : list bool) : ks_count m + ks_noncount m = zlen m.
Proof.
  unfold ks_count, ks_noncount, zlen.
  induction m as [|b m IH]; [reflexivity|].
  destruct b; simpl count_occ; simpl length; rewrite ?Nat2Z.inj_succ; lia.
Qed.

Theorem count_any_all_agree_thm (t : mten V) :
  k_is_masked V t = true -> zlen (mt_mask t) = mt_size V t ->
  do_mask_ct V t = Ok (ks_count (mt_mask t)) /\
  do_nonmask_ct V t = Ok (ks_noncount (mt_mask t)) /\
  do_mask_any V t = Ok (existsb (fun b => b) (mt_mask t)) /\
  do_mask_all V t = Ok (forallb (fun b => b) (mt_mask t)).
Proof.
  intros Hm Hs. unfold do_nonmask_ct, do_mask_ct, do_mask_any, do_mask_all.
  rewrite Hm. cbn [negb]. rewrite Hs, Z.eqb_refl. cbn [res_map].
  rewrite count_true_occ. repeat split; try reflexivity.
  f_equal. pose proof (count_split (mt_mask t)). lia.
Qed.

(* ---------- 3. the contiguous-run finders ---------- *)
(* what the alternating NextValid/NextInvalid (or the reverse) loop computes, read off the list
   of offsets the iterator yields: a run opens at the first offset whose bit is [want] and closes
   at the next offset whose bit is not, or at [sz] when the iterator is exhausted *)
Definition bit (m : list bool) (o : Z) : bool := nth (Z.to_nat o) m false.

Fixpoint runs_offs (want : bool) (m : list bool) (sz : Z) (offs : list Z) (open : option Z)
  : list (Z * Z) :=
  match offs with
  | [] => match open with Some s => [(s, sz)] | None => [] end
  | o :: r =>
    match open with
    | None => if Bool.eqb (bit m o) want then runs_offs want m sz r (Some o)
              else runs_offs want m sz r None
    | Some s => if Bool.eqb (bit m o) want then runs_offs want m sz r (Some s)
                else (s, o) :: runs_offs want m sz r None
    end
  end.

Definition masked_mit (m : list bool) (it : fiter) : mit := mkMit true m it.

(* one seek: from an iterator that yields l, looking for bit = w *)
Lemma seek_yields w (m : list bool) : forall it l, yields false it l ->
  Forall (fun o => 0 <= o < zlen m) l -> forall fuel c, (length l < fuel)%nat ->
  (exists pre o post it', l = pre ++ o :: post /\
      Forall (fun x => bit m x = negb w) pre /\ bit m o = w /\ yields false it' post /\
      exists cnt, miter_seek fuel w m it c = (it', Ok (o, cnt, true)))
  \/ (Forall (fun x => bit m x = negb w) l /\
      exists it' cnt, miter_seek fuel w m it c = (it', Ok (-1, cnt, false)) /\ yields false it' []).
Proof.
  induction 1 as [it Hd Hr|it it' o l Hr Hn Hy IH]; intros Hv fuel c Hf.
  - right. split; [constructor|]. destruct fuel as [|f]; [cbn in Hf; lia|].
    cbn [miter_seek]. rewrite (iter_next_done it Hd). eexists _, _. split; [reflexivity|].
    constructor; assumption.
  - inversion Hv as [|? ? Ho Hv']; subst. destruct fuel as [|f]; [cbn in Hf; lia|].
    cbn [miter_seek]. rewrite Hn, (zget_nth m o Ho). fold (bit m o).
    destruct (Bool.eqb (bit m o) w) eqn:E.
    + left. exists [], o, l, it'. split; [reflexivity|]. split; [constructor|].
      split; [apply eqb_prop; exact E|]. split; [exact Hy|]. eexists. reflexivity.
    + assert (Hb : bit m o = negb w).
      { destruct (bit m o), w; cbn in E; try discriminate; reflexivity. }
      destruct (IH Hv' f (c + 1)) as [(pre & o' & post & it'' & -> & Hpre & Ho' & Hy' & cnt & Hs)|(Hall & it'' & cnt & Hs & Hy')];
        [cbn in Hf; lia| |].
      * left. exists (o :: pre), o', post, it''. split; [reflexivity|].
        split; [constructor; assumption|]. split; [exact Ho'|]. split; [exact Hy'|].
        exists cnt. exact Hs.
      * right. split; [constructor; assumption|]. exists it'', cnt. split; assumption.
Qed.

Lemma runs_offs_skip want m sz : forall pre r, Forall (fun x => bit m x = negb want) pre ->
  runs_offs want m sz (pre ++ r) None = runs_offs want m sz r None.
Proof.
  induction pre as [|x pre IH]; intros r H; [reflexivity|]. inversion H as [|? ? Hx Hr]; subst.
  cbn [app runs_offs]. replace (Bool.eqb (bit m x) want) with false; [apply IH; assumption|].
  rewrite Hx. destruct want; reflexivity.
Qed.

Lemma runs_offs_keep want m sz s : forall pre r, Forall (fun x => bit m x = want) pre ->
  runs_offs want m sz (pre ++ r) (Some s) = runs_offs want m sz r (Some s).
Proof.
  induction pre as [|x pre IH]; intros r H; [reflexivity|]. inversion H as [|y l Hx Hr].
  cbn [app runs_offs]. rewrite Hx, eqb_reflx. apply IH; assumption.
Qed.

Lemma mit_next_masked w m it : m <> [] ->
  mit_next w (masked_mit m it) =
  match miter_seek (mit_fuel (masked_mit m it)) w m it 0 with
  | (it', Ok (i, _, found)) => (masked_mit m it', Ok (i, found))
  | (it', _) => (masked_mit m it', Panic)
  end.
Proof.
  intro Hne. unfold mit_next, masked_mit. cbn [mi_masked mi_mask mi_it andb].
  replace (zlen m =? 0) with false; [reflexivity|].
  destruct m; [contradiction|]. unfold zlen. cbn [length]. lia.
Qed.

Lemma miter_seek_size w m : forall fuel it c it' r,
  miter_seek fuel w m it c = (it', r) -> it_size it' = it_size it.
Proof.
  induction fuel as [|f IH]; intros it c it' r H; cbn [miter_seek] in H.
  - injection H as <- _. reflexivity.
  - pose proof (iter_next_frame it) as F. destruct (iter_next it) as [it1 [o| |]] eqn:En; cbn [fst] in F.
    + destruct (zget m o) as [b|].
      * destruct (Bool.eqb b w).
        -- injection H as <- _. unfold same_frame in F. tauto.
        -- apply IH in H. unfold same_frame in F. destruct F as (_ & _ & F & _). lia.
      * injection H as <- _. unfold same_frame in F. tauto.
    + injection H as <- _. unfold same_frame in F. tauto.
    + injection H as <- _. unfold same_frame in F. tauto.
Qed.

(* the loop of FlatNotMaskedContiguous / FlatMaskedContiguous over an iterator that yields l *)
Lemma runs_loop_yields want (m : list bool) sz : m <> [] ->
  forall n l, (length l <= n)%nat -> forall it, yields false it l ->
  Forall (fun o => 0 <= o < zlen m) l -> forall fuel, (length l < fuel)%nat ->
  (length l < Z.to_nat (it_size it) + 2)%nat ->
  runs_loop fuel want sz (masked_mit m it) = Ok (runs_offs want m sz l None).
Proof.
  intros Hne. induction n as [|n IHn]; intros l Hln it Hy Hv fuel Hf Hsz.
  - destruct l; [|cbn in Hln; lia]. destruct fuel as [|f]; [cbn in Hf; lia|].
    cbn [runs_loop runs_offs]. rewrite (mit_next_masked want m it Hne).
    inversion Hy; subst. unfold mit_fuel, masked_mit. cbn [mi_it miter_seek].
    rewrite (iter_next_done it H). reflexivity.
  - destruct fuel as [|f]; [cbn in Hf; lia|]. cbn [runs_loop].
    rewrite (mit_next_masked want m it Hne).
    destruct (seek_yields want m it l Hy Hv (mit_fuel (masked_mit m it)) 0)
      as [(pre & o & post & it1 & -> & Hpre & Ho & Hy1 & cnt & Hs)|(Hall & it1 & cnt & Hs & Hy1)].
    { unfold mit_fuel, masked_mit. cbn [mi_it]. lia. }
    + rewrite Hs. rewrite (mit_next_masked (negb want) m it1 Hne).
      assert (Hv1 : Forall (fun o => 0 <= o < zlen m) post).
      { apply Forall_app in Hv as [_ Hv]. inversion Hv; assumption. }
      assert (Hsz1 : it_size it1 = it_size it) by (eapply miter_seek_size; exact Hs).
      rewrite app_length in *. cbn [length] in *.
      destruct (seek_yields (negb want) m it1 post Hy1 Hv1 (mit_fuel (masked_mit m it1)) 0)
        as [(pre2 & o2 & post2 & it2 & -> & Hpre2 & Ho2 & Hy2 & cnt2 & Hs2)|(Hall2 & it2 & cnt2 & Hs2 & Hy2)].
      { unfold mit_fuel, masked_mit. cbn [mi_it]. lia. }
      * rewrite Hs2.
        assert (Hv2 : Forall (fun o => 0 <= o < zlen m) post2).
        { apply Forall_app in Hv1 as [_ Hv1]. inversion Hv1; assumption. }
        assert (Hsz2 : it_size it2 = it_size it1) by (eapply miter_seek_size; exact Hs2).
        rewrite app_length in *. cbn [length] in *.
        rewrite (IHn post2); [| lia | exact Hy2 | exact Hv2 | lia | lia].
        rewrite runs_offs_skip by exact Hpre. cbn [runs_offs]. rewrite Ho, eqb_reflx.
        rewrite runs_offs_keep.
        2:{ eapply Forall_impl; [|exact Hpre2]. cbn. intros x Hx. rewrite Hx. apply negb_involutive. }
        cbn [runs_offs]. rewrite Ho2. replace (Bool.eqb (negb want) want) with false by (destruct want; reflexivity).
        replace (o2 =? -1) with false.
        2:{ apply Forall_app in Hv1 as [_ Hv1]. inversion Hv1; subst. lia. }
        reflexivity.
      * rewrite Hs2. cbn [Z.eqb].
        rewrite (IHn []); [| cbn; lia | exact Hy2 | constructor | cbn; lia | cbn; lia].
        rewrite runs_offs_skip by exact Hpre. cbn [runs_offs]. rewrite Ho, eqb_reflx.
        rewrite <- (app_nil_r post). rewrite runs_offs_keep.
        2:{ eapply Forall_impl; [|exact Hall2]. cbn. intros x Hx. rewrite Hx. apply negb_involutive. }
        reflexivity.
    + rewrite Hs. rewrite <- (app_nil_r l). rewrite runs_offs_skip by exact Hall. reflexivity.
Qed.

(* on the row-major flattening (offsets 0, 1, ..., n-1) the offset reading IS the direct
   definition of the maximal runs *)
Lemma runs_offs_zseq want m sz : forall n i open,
  i + Z.of_nat n = sz -> 0 <= i -> (Z.to_nat sz <= length m)%nat ->
  runs_offs want m sz (zseq i n) open = ks_runs_from want (skipn (Z.to_nat i) (firstn (Z.to_nat sz) m)) i open.
Proof.
  induction n as [|n IH]; intros i open Hi H0 Hm.
  - cbn [zseq runs_offs]. replace i with sz by lia.
    rewrite skipn_all2 by (rewrite firstn_length; lia). reflexivity.
  - cbn [zseq runs_offs].
    assert (Hlt : (Z.to_nat i < length (firstn (Z.to_nat sz) m))%nat) by (rewrite firstn_length; lia).
    destruct (skipn (Z.to_nat i) (firstn (Z.to_nat sz) m)) as [|b r] eqn:Es.
    { apply skipn_nil_inv in Es. apply nth_error_None in Es. lia. }
    apply nth_error_skipn_cons in Es as [Hn Hs].
    assert (Hb : bit m i = b).
    { unfold bit. rewrite <- (firstn_skipn (Z.to_nat sz) m).
      rewrite app_nth1 by exact Hlt. apply nth_error_nth. exact Hn. }
    cbn [ks_runs_from]. rewrite Hb.
    destruct open as [s|]; destruct (Bool.eqb b want);
      rewrite IH by lia; replace (Z.to_nat (i + 1)) with (S (Z.to_nat i)) by lia;
      rewrite <- Hs; reflexivity.
Qed.

Lemma in_zseq n : forall s j, In j (zseq s n) -> s <= j < s + Z.of_nat n.
Proof.
  induction n as [|n IH]; intros s j H; [destruct H|]. cbn [zseq] in H. destruct H as [<-|H]; [lia|].
  apply IH in H. lia.
Qed.

Lemma offsets_rowmajor a : pos_shape (shp a) -> str a = calc_strides (shp a) ->
  offsets a = zseq 0 (Z.to_nat (size (shp a))).
Proof.
  intros Hp Hs. rewrite offsets_zseq, Hs. rewrite <- (map_id (zseq 0 _)) at 2.
  apply map_ext_in. intros j Hj. apply in_zseq in Hj. pose proof (size_pos _ Hp).
  rewrite <- rk_dot. apply rk_unrank; [exact Hp|lia].
Qed.

(* a masked tensor whose window holds exactly its elements in row-major order *)
Definition plain_masked (t : mten V) : Prop :=
  k_is_masked V t = true /\ pos_shape (shp (mt_ap t)) /\ str (mt_ap t) = calc_strides (shp (mt_ap t)) /\ mt_len V t = mt_size V t.

Theorem runs_spec_thm (t : mten V) (want : bool) : plain_masked t ->
  k_runs V want t = Ok (ks_runs want (mt_mask t)).
Proof.
  intros (Hm & Hp & Hs & Hsz).
  assert (Hlen : zlen (mt_mask t) = size (shp (mt_ap t))).
  { unfold k_is_masked in Hm. apply Z.eqb_eq in Hm. unfold mt_size in Hsz. lia. }
  pose proof (size_pos _ Hp) as Hpos.
  assert (Hne : mt_mask t <> []).
  { intro E. rewrite E in Hlen. unfold zlen in Hlen. cbn in Hlen. lia. }
  assert (Hl : length (str (mt_ap t)) = length (shp (mt_ap t))).
  { rewrite Hs. apply calc_strides_length. }
  unfold k_runs, k_miter. rewrite Hm. fold (masked_mit (mt_mask t) (new_iter (mt_ap t))).
  pose proof (yields_new (mt_ap t) Hp Hl) as Hy.
  rewrite (runs_loop_yields want (mt_mask t) (mt_size V t) Hne (length (offsets (mt_ap t)))
             (offsets (mt_ap t)) (le_n _) _ Hy).
  - rewrite (offsets_rowmajor _ Hp Hs). unfold mt_size.
    rewrite runs_offs_zseq; [| lia | lia | unfold zlen in Hlen; lia].
    cbn [Z.to_nat skipn]. unfold ks_runs. rewrite firstn_all2 by (unfold zlen in Hlen; lia).
    reflexivity.
  - rewrite (offsets_rowmajor _ Hp Hs). apply Forall_forall. intros o Ho.
    apply in_zseq in Ho. lia.
  - rewrite offsets_length. unfold mit_fuel, masked_mit, new_iter. cbn [mi_it it_size]. lia.
  - rewrite offsets_length. unfold new_iter. cbn [it_size]. lia.
Qed.

(* ---------- 4. the mask follows lazy transposition ---------- *)
Lemma dot_zero_coords st : forall c, forallb (fun v => v =? 0) c = true -> dot st c = 0.
Proof.
  induction st as [|k st IH]; intros c H; [reflexivity|]. destruct c as [|x c]; [reflexivity|].
  cbn in H. apply andb_true_iff in H as [Hx Hc]. apply Z.eqb_eq in Hx. subst x.
  cbn [dot]. rewrite IH by exact Hc. lia.
Qed.

Lemma ltoi_dot s st c : length st = length s -> length s <> 1%nat -> inbox s c ->
  ltoi s st c = Ok (dot st c).
Proof.
  intros Hl H1 Hb. unfold ltoi. destruct (is_scalar_equiv s) eqn:He.
  - destruct (scalar_equiv_inbox_zero s c He Hb) as (A & _).
    rewrite A, (dot_zero_coords st c A). reflexivity.
  - replace (length st =? 1)%nat with false by (symmetry; apply Nat.eqb_neq; lia).
    rewrite andb_false_r. rewrite (ltoi_loop_dot s st Hl c 0%nat 0 Hb). cbn [skipn]. f_equal; lia.
Qed.

Theorem mask_follows_T_thm (t : mten V) (is_str : bool) (axes : list Z) :
  let a := mt_ap t in
  let n := length (shp a) in
  let p := axes_or_rev n axes in
  mt_old t = None -> length (str a) = n ->
  is_scalar_equiv (shp a) = false -> ap_is_vector a = false ->
  is_permb p n = true -> p <> zseq 0 n ->
  exists t', k_T V is_str t axes = Ok t' /\ shp (mt_ap t') = permute 0 p (shp a) /\ mt_mask t' = mt_mask t /\ mt_data t' = mt_data t /\ forall c, inbox (shp (mt_ap t')) c -> k_maskat V t' c = k_maskat V t (unpermute p c).
Proof.
  intros a n p Hold Hst Hse Hv Hp Hid.
  destruct (ap_T_offset a axes Hst Hse Hv Hp Hid) as [HT Hoff]. fold n p in HT, Hoff.
  unfold k_T. fold a. rewrite HT, Hold.
  eexists. split; [reflexivity|]. cbn [mt_ap mt_mask mt_data shp].
  split; [reflexivity|]. split; [reflexivity|]. split; [reflexivity|].
  intros c Hc.
  pose proof (is_permb_spec p n Hp) as (Hlp & _).
  assert (Hcl : length c = n).
  { apply inbox_length in Hc. rewrite Hc. unfold permute. rewrite map_length. exact Hlp. }
  destruct (Hoff c Hcl) as [Hd Hb]. apply Hb in Hc as Hc'.
  assert (Hn1 : n <> 1%nat).
  { intro E. unfold ap_is_vector, is_vector in Hv. fold a in Hv. fold n in E.
    unfold n in E. rewrite E in Hv. cbn in Hv. rewrite !orb_true_r in Hv. discriminate. }
  unfold k_maskat, k_is_masked, mt_len. cbn [mt_ap mt_mask mt_data shp str]. fold a.
  destruct (zlen (mt_mask t) =? zlen (mt_data t)); cbn [negb]; [|reflexivity].
  unfold permute at 1. rewrite map_length, Hlp, Hcl, Nat.eqb_refl.
  rewrite unpermute_length, Hlp. fold n. rewrite Nat.eqb_refl. cbn [negb].
  rewrite (ltoi_dot (permute 0 p (shp a)) (permute 0 p (str a)) c).
  - rewrite (ltoi_dot (shp a) (str a) (unpermute p c) Hst Hn1 Hc'). rewrite Hd. reflexivity.
  - unfold permute. rewrite !map_length. reflexivity.
  - unfold permute. rewrite map_length, Hlp. exact Hn1.
  - apply Hb. exact Hc'.
Qed.

(* ---------- 5. the mask window of a view is cut exactly like its data window ---------- *)
Lemma nth_error_firstn_lt {A} : forall n (l : list A) i, (i < n)%nat ->
  nth_error (firstn n l) i = nth_error l i.
Proof.
  induction n as [|n IH]; intros l i H; [lia|]. destruct l as [|x l]; [destruct i; reflexivity|].
  destruct i as [|i]; [reflexivity|]. cbn [firstn nth_error]. apply IH. lia.
Qed.

Lemma nth_error_skipn_add {A} : forall n (l : list A) i,
  nth_error (skipn n l) i = nth_error l (n + i).
Proof.
  induction n as [|n IH]; intros l i; [reflexivity|]. destruct l as [|x l]; [destruct i; reflexivity|].
  cbn [skipn Nat.add nth_error]. apply IH.
Qed.

Lemma zget_ksub {A} (l : list A) s e i : 0 <= s -> s <= e -> e <= zlen l -> 0 <= i < e - s ->
  zget (ksub l s e) i = zget l (s + i).
Proof.
  intros Hs He Hl Hi. unfold zget, ksub, zlen in *.
  replace (i <? 0) with false by lia. replace (s + i <? 0) with false by lia.
  rewrite nth_error_firstn_lt by lia. rewrite nth_error_skipn_add. f_equal. lia.
Qed.

Theorem mask_follows_slice_thm (t t' : mten V) (sl : list slice) :
  k_is_masked V t = true -> k_slice V t sl = Ok t' ->
  exists a' s e, ap_S (mt_ap t) (mt_len V t) sl = Ok (a', s, e) /\ mt_ap t' = a' /\ k_is_masked V t' = true /\ forall i, 0 <= i < e - s ->
      zget (mt_mask t') i = zget (mt_mask t) (s + i) /\ zget (mt_data t') i = zget (mt_data t) (s + i).
Proof.
  intros Hm H. unfold k_slice in H.
  destruct (ap_S (mt_ap t) (mt_len V t) sl) as [[[a' s] e]| |] eqn:ES; try discriminate.
  destruct ((s <? 0) || (e <? s) || (mt_len V t <? e)) eqn:Eb; [discriminate|].
  apply orb_false_iff in Eb as [Eb E3]. apply orb_false_iff in Eb as [E1 E2].
  injection H as <-. rewrite Hm. exists a', s, e. split; [reflexivity|]. split; [reflexivity|].
  unfold k_is_masked, mt_len in Hm. apply Z.eqb_eq in Hm. unfold mt_len in E3.
  split.
  - unfold k_is_masked, mt_len. cbn [mt_mask mt_data]. apply Z.eqb_eq. unfold ksub, zlen in *.
    rewrite !firstn_length, !skipn_length. lia.
  - intros i Hi. cbn [mt_mask mt_data]. split; apply zget_ksub; lia.
Qed.

End MaskedProofs.
