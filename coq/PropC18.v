(* PropC18.v — C18 "Goroutines that operate on disjoint tensors, or that only read tensors they
   share, never race on the shared tensors, and each obtains exactly the result it would obtain
   running alone, under every interleaving."
   Only statements; every proof is `exact <lemma of Conc.v>`.

   WHAT IS CARRIED: the LOGIC of the property.  The Go memory model and the scheduler are outside
   the model; an interleaving is a `list nat` of thread ids executed one atomic model step at a
   time (an id whose thread has finished, or an id out of range, does nothing).

   LAYER 1  (abstract)  S = shared read-only state, L = thread-local state, O = observations;
     step S L O = S -> L -> L * O;  thread = (th_loc, th_prog);  running thread (tstate) =
     (ts_loc, ts_prog = remaining program, ts_obs = observations so far);  config = list tstate;
     run_alone s th = fold of the steps;  run_sched s sch cfg;  complete s sch cfg = afterwards
     every remaining program is [].
   LAYER 1b (abstract)  ONE global state G acted on by all threads (what the store model needs);
     thread i has a partial equivalence `view i` on G (g1, g2 agree on everything i may read) and
     a state invariant Inv;  local_step i f =  f keeps Inv,  f's observation and view-i result are
     determined by view i,  f is invisible to every view j, j <> i.
   LAYER 2  (Mem.v / Run.v, unchanged)  the store is split by  sh_t, sh_b : nat -> bool  (shared
     tensor indices / allocation ids).
       written o          = the tensor whose entry / allocation o may write (C18_written_table)
       c18_op σ o         = written o = Some t -> sh_t t = false /\ (t's allocation is not shared)
                            -- ALL 16 constructors of Run.op are in the class under this condition
       shared_frame σ σ'  = shared entries and shared allocations are equal in σ and σ'
       fresh_unshared σ   = indices >= length (tens σ) / >= length (bufs σ) are not shared
       agree_on σ1 σ2 t   = same entry of t, same contents of the allocation t lives in
       alloc_new σ l mk   = σ + one fresh allocation with contents l + one fresh tensor mk(fresh id)
   LAYER 2' (threads over one store; operations that do not allocate)
       own_t i t / own_b i b = thread i owns tensor index t / allocation b;
       ownership_disjoint    = nothing is owned twice, nothing owned is shared;
       vis_t i / vis_b i     = shared or owned by i;   view i = agree (vis_t i) (vis_b i);
       own_inv σ             = shared tensors live in shared allocations, owned tensors in
                               allocations of the same owner;
       thread_op i o         = nonalloc o, written o is owned by i, reads o are visible to i;
       nonalloc              = OT OUT OTranspose OAt OSetAt OMemset OZero OCopy OReshape and the
                               unsafe ORollAxis.
   NOT COVERED (see C18_store_interleaving_deterministic_partial): exact run-alone results for
   threads that ALLOCATE (ONew OSlice OClone OMaterialize OSafeT OApiTranspose, safe ORollAxis)
   while interleaved: the model hands out `length (tens σ)` / `length (bufs σ)` of the ONE store,
   so the index a thread gets back depends on the interleaving; such steps are covered by the
   frame theorem (they never touch anything shared) and by read-determinacy up to the fresh
   indices (theorems C18_read_determined_...), not by the interleaving theorem. *)
From TV Require Import Base Index AP Iter Mem Spec Guards Run Conc.

(* ====================================================================================== *)
(*  LAYER 1                                                                               *)
(* ====================================================================================== *)
(* every complete schedule gives every thread the local state and the observations of its run alone *)
Theorem C18_interleaving_deterministic : forall (S L O : Type) (s : S) (ths : list (thread S L O))
    (sch : list nat),
  complete S L O s sch (init_cfg S L O ths) ->
  forall (i : nat) (th : thread S L O), nth_error ths i = Some th ->
  exists ts : tstate S L O,
    nth_error (run_sched S L O s sch (init_cfg S L O ths)) i = Some ts /\
    ts_prog ts = [] /\ (ts_loc ts, ts_obs ts) = run_alone S L O s th.
Proof. exact interleaving_deterministic. Qed.
Print Assumptions C18_interleaving_deterministic.

(* ANY schedule, complete or not: the observations so far are a prefix of the run-alone
   observations, the local state is the run-alone state after that many steps *)
Theorem C18_prefix_consistent : forall (S L O : Type) (s : S) (ths : list (thread S L O))
    (sch : list nat) (i : nat) (th : thread S L O) (ts : tstate S L O),
  nth_error ths i = Some th ->
  nth_error (run_sched S L O s sch (init_cfg S L O ths)) i = Some ts ->
  let k := length (ts_obs ts) in
  (k <= length (th_prog th))%nat /\
  ts_prog ts = skipn k (th_prog th) /\
  ts_obs ts = firstn k (snd (run_alone S L O s th)) /\
  (ts_loc ts, ts_obs ts) = run_steps S L O s (th_loc th) (firstn k (th_prog th)).
Proof. exact prefix_consistent. Qed.
Print Assumptions C18_prefix_consistent.

(* two complete schedules: identical per-thread results *)
Theorem C18_schedules_agree : forall (S L O : Type) (s : S) (ths : list (thread S L O))
    (sch1 sch2 : list nat),
  complete S L O s sch1 (init_cfg S L O ths) -> complete S L O s sch2 (init_cfg S L O ths) ->
  forall (i : nat) (ts1 ts2 : tstate S L O),
  nth_error (run_sched S L O s sch1 (init_cfg S L O ths)) i = Some ts1 ->
  nth_error (run_sched S L O s sch2 (init_cfg S L O ths)) i = Some ts2 ->
  ts_loc ts1 = ts_loc ts2 /\ ts_obs ts1 = ts_obs ts2.
Proof. exact schedules_agree. Qed.
Print Assumptions C18_schedules_agree.

(* not vacuous: a schedule is complete iff it names every thread at least as often as the thread
   has steps; round-robin with enough rounds is complete *)
Theorem C18_complete_iff : forall (S L O : Type) (s : S) (sch : list nat) (cfg : config S L O),
  complete S L O s sch cfg <->
  (forall i : nat, (remaining S L O cfg i <= count_occ Nat.eq_dec sch i)%nat).
Proof. exact complete_iff. Qed.
Print Assumptions C18_complete_iff.

Theorem C18_complete_schedule_exists : forall (S L O : Type) (s : S) (cfg : config S L O) (rounds : nat),
  (max_prog S L O cfg <= rounds)%nat ->
  complete S L O s (round_robin (length cfg) rounds) cfg.
Proof. exact complete_schedule_exists. Qed.
Print Assumptions C18_complete_schedule_exists.

Theorem C18_round_robin_runs_alone : forall (S L O : Type) (s : S) (ths : list (thread S L O)),
  let sch := round_robin (length ths) (max_prog S L O (init_cfg S L O ths)) in
  complete S L O s sch (init_cfg S L O ths) /\
  (forall (i : nat) (th : thread S L O), nth_error ths i = Some th ->
   exists ts : tstate S L O,
     nth_error (run_sched S L O s sch (init_cfg S L O ths)) i = Some ts /\
     (ts_loc ts, ts_obs ts) = run_alone S L O s th).
Proof. exact round_robin_runs_alone. Qed.
Print Assumptions C18_round_robin_runs_alone.

(* 3 concrete threads over nat (shared value 10), two different complete schedules *)
Theorem C18_example_two_schedules :
  results (run_sched nat nat nat 10%nat ex_sch1 (init_cfg nat nat nat ex_threads)) =
    map (run_alone nat nat nat 10%nat) ex_threads /\
  results (run_sched nat nat nat 10%nat ex_sch2 (init_cfg nat nat nat ex_threads)) =
    map (run_alone nat nat nat 10%nat) ex_threads /\
  complete nat nat nat 10%nat ex_sch1 (init_cfg nat nat nat ex_threads) /\
  complete nat nat nat 10%nat ex_sch2 (init_cfg nat nat nat ex_threads) /\
  ex_sch1 <> ex_sch2.
Proof. exact (conj ex_run1 (conj ex_run2 ex_complete)). Qed.
Print Assumptions C18_example_two_schedules.

(* ====================================================================================== *)
(*  LAYER 1b : one global state, per-thread views                                         *)
(* ====================================================================================== *)
Theorem C18_global_interleaving_deterministic : forall (G O : Type) (view : nat -> G -> G -> Prop)
    (Inv : G -> Prop),
  (forall (i : nat) (g1 g2 : G), view i g1 g2 -> view i g2 g1) ->
  (forall (i : nat) (g1 g2 g3 : G), view i g1 g2 -> view i g2 g3 -> view i g1 g3) ->
  forall (g0 : G) (progs : list (list (gstep G O))) (sch : list nat),
  Inv g0 -> (forall j : nat, view j g0 g0) ->
  local_progs G O view Inv progs ->
  gfinished G O (grun G O sch (ginit G O g0 progs)) ->
  forall (i : nat) (prog0 : list (gstep G O)), nth_error progs i = Some prog0 ->
  exists obs : list O,
    nth_error (snd (grun G O sch (ginit G O g0 progs))) i = Some ([], obs) /\
    obs = snd (run_gsteps G O g0 prog0) /\
    view i (fst (grun G O sch (ginit G O g0 progs))) (fst (run_gsteps G O g0 prog0)).
Proof. exact ginterleaving_deterministic. Qed.
Print Assumptions C18_global_interleaving_deterministic.

Theorem C18_global_prefix_consistent : forall (G O : Type) (view : nat -> G -> G -> Prop)
    (Inv : G -> Prop),
  (forall (i : nat) (g1 g2 : G), view i g1 g2 -> view i g2 g1) ->
  (forall (i : nat) (g1 g2 g3 : G), view i g1 g2 -> view i g2 g3 -> view i g1 g3) ->
  forall (g0 : G) (progs : list (list (gstep G O))) (sch : list nat) (i : nat)
         (prog0 p : list (gstep G O)) (obs : list O),
  Inv g0 -> (forall j : nat, view j g0 g0) ->
  local_progs G O view Inv progs ->
  nth_error progs i = Some prog0 ->
  nth_error (snd (grun G O sch (ginit G O g0 progs))) i = Some (p, obs) ->
  let k := length obs in
  (k <= length prog0)%nat /\ p = skipn k prog0 /\
  obs = firstn k (snd (run_gsteps G O g0 prog0)) /\
  obs = snd (run_gsteps G O g0 (firstn k prog0)) /\
  view i (fst (grun G O sch (ginit G O g0 progs))) (fst (run_gsteps G O g0 (firstn k prog0))).
Proof. exact gprefix_consistent. Qed.
Print Assumptions C18_global_prefix_consistent.

Theorem C18_global_complete_schedule_exists : forall (G O : Type) (c : gconfig G O) (rounds : nat),
  (forall i : nat, (gremaining G O c i <= rounds)%nat) ->
  gfinished G O (grun G O (round_robin (length (snd c)) rounds) c).
Proof. exact gcomplete_schedule_exists. Qed.
Print Assumptions C18_global_complete_schedule_exists.

(* ====================================================================================== *)
(*  LAYER 2 (a)(b) : footprints and the frame of one step                                 *)
(* ====================================================================================== *)
Theorem C18_written_table : forall V : Type,
  (forall order sh data, written V (ONew V order sh data) = None) /\
  (forall t sl hint, written V (OSlice V t sl hint) = None) /\
  (forall t axes, written V (OT V t axes) = Some t) /\
  (forall t, written V (OUT V t) = Some t) /\
  (forall t, written V (OTranspose V t) = Some t) /\
  (forall t c, written V (OAt V t c) = None) /\
  (forall t c v, written V (OSetAt V t c v) = Some t) /\
  (forall t v, written V (OMemset V t v) = Some t) /\
  (forall t, written V (OZero V t) = Some t) /\
  (forall t, written V (OClone V t) = None) /\
  (forall t same, written V (OMaterialize V t same) = None) /\
  (forall d s, written V (OCopy V d s) = Some d) /\
  (forall t axes, written V (OSafeT V t axes) = None) /\
  (forall t axis start, written V (ORollAxis V t axis start true) = None) /\
  (forall t axis start, written V (ORollAxis V t axis start false) = Some t) /\
  (forall t axes, written V (OApiTranspose V t axes) = None) /\
  (forall t dims refused, written V (OReshape V t dims refused) = Some t).
Proof. exact written_table. Qed.
Print Assumptions C18_written_table.

(* EVERY operation of Run.op — reads, slices, clones, ... of ANY tensor, shared ones included;
   in-place writers only on a non-shared tensor living in a non-shared allocation — leaves every
   shared tensor entry and every shared allocation exactly as it was *)
Theorem C18_step_shared_frame : forall (V : Type) (vzero : V) (sh_t sh_b : nat -> bool)
    (σ : store V) (o : op V) (σ' : store V) (r : outcome V),
  (forall t, (length (tens V σ) <= t)%nat -> sh_t t = false) ->
  (forall b, (length (bufs V σ) <= b)%nat -> sh_b b = false) ->
  (forall t, written V o = Some t ->
             sh_t t = false /\ forall d, get_t V σ t = Some d -> sh_b (d_buf d) = false) ->
  step_model V vzero σ o = (σ', r) ->
  (forall t, sh_t t = true -> nth_error (tens V σ') t = nth_error (tens V σ) t) /\
  (forall b, sh_b b = true -> get_buf V σ' b = get_buf V σ b).
Proof. exact step_model_shared_frame_explicit. Qed.
Print Assumptions C18_step_shared_frame.

(* the same with the vocabulary of Conc.v, and the boolean form of the class *)
Theorem C18_step_shared_frame_class : forall (V : Type) (vzero : V) (sh_t sh_b : nat -> bool)
    (σ : store V) (o : op V) (σ' : store V) (r : outcome V),
  fresh_unshared V sh_t sh_b σ -> c18_op V sh_t sh_b σ o ->
  step_model V vzero σ o = (σ', r) -> shared_frame V sh_t sh_b σ σ'.
Proof. exact step_model_shared_frame. Qed.
Print Assumptions C18_step_shared_frame_class.

Theorem C18_class_decidable : forall (V : Type) (sh_t sh_b : nat -> bool) (σ : store V) (o : op V),
  c18_opb V sh_t sh_b σ o = true <-> c18_op V sh_t sh_b σ o.
Proof. exact c18_opb_spec. Qed.
Print Assumptions C18_class_decidable.

(* the side conditions survive the step (fresh indices stay unshared; tensors never change
   allocation, so footprints of later operations on existing tensors stay valid) *)
Theorem C18_step_keeps_conditions : forall (V : Type) (vzero : V) (sh_t sh_b : nat -> bool)
    (σ : store V) (o : op V) (σ' : store V) (r : outcome V),
  fresh_unshared V sh_t sh_b σ -> c18_op V sh_t sh_b σ o ->
  step_model V vzero σ o = (σ', r) ->
  fresh_unshared V sh_t sh_b σ' /\
  (forall o' : op V, c18_op V sh_t sh_b σ o' ->
     (forall t : nat, written V o' = Some t -> (t < length (tens V σ))%nat) ->
     c18_op V sh_t sh_b σ' o').
Proof. exact step_model_keeps_conditions. Qed.
Print Assumptions C18_step_keeps_conditions.

(* a whole program (every operation in the class in the state in which it runs) *)
Theorem C18_program_shared_frame : forall (V : Type) (vzero : V) (sh_t sh_b : nat -> bool)
    (os : list (op V)) (σ : store V),
  fresh_unshared V sh_t sh_b σ -> c18_prog V vzero sh_t sh_b σ os ->
  shared_frame V sh_t sh_b σ (fst (run_ops V vzero σ os)).
Proof. exact run_ops_shared_frame. Qed.
Print Assumptions C18_program_shared_frame.

(* ====================================================================================== *)
(*  LAYER 2 (c) : what a read returns depends only on what it reads                       *)
(* ====================================================================================== *)
Theorem C18_read_determined_at : forall (V : Type) (vzero : V) (σ1 σ2 : store V) (t : nat) (c : list Z),
  agree_on V σ1 σ2 t ->
  snd (step_model V vzero σ1 (OAt V t c)) = snd (step_model V vzero σ2 (OAt V t c)) /\
  fst (step_model V vzero σ1 (OAt V t c)) = σ1 /\
  fst (step_model V vzero σ2 (OAt V t c)) = σ2.
Proof. exact step_model_read_determined. Qed.
Print Assumptions C18_read_determined_at.

Theorem C18_read_determined_logical : forall (V : Type) (σ1 σ2 : store V) (t : nat),
  agree_on V σ1 σ2 t -> logical V σ1 t = logical V σ2 t.
Proof. exact logical_read_determined. Qed.
Print Assumptions C18_read_determined_logical.

Theorem C18_read_determined_slice : forall (V : Type) (σ1 σ2 : store V) (t : nat) (sl : list slice),
  agree_on V σ1 σ2 t ->
  (exists nd : dense,
     m_slice V σ1 t sl = Ok (add_t V σ1 nd) /\ m_slice V σ2 t sl = Ok (add_t V σ2 nd)) \/
  m_slice V σ1 t sl = Err /\ m_slice V σ2 t sl = Err \/
  m_slice V σ1 t sl = Panic /\ m_slice V σ2 t sl = Panic.
Proof. exact slice_read_determined. Qed.
Print Assumptions C18_read_determined_slice.

Theorem C18_read_determined_clone : forall (V : Type) (σ1 σ2 : store V) (t : nat),
  agree_on V σ1 σ2 t ->
  (exists (l : list V) (mk : nat -> dense), (forall b : nat, d_buf (mk b) = b) /\
     m_clone V σ1 t = Ok (alloc_new V σ1 l mk) /\ m_clone V σ2 t = Ok (alloc_new V σ2 l mk)) \/
  m_clone V σ1 t = Panic /\ m_clone V σ2 t = Panic.
Proof. exact clone_read_determined. Qed.
Print Assumptions C18_read_determined_clone.

Theorem C18_read_determined_safeT : forall (V : Type) (σ1 σ2 : store V) (t : nat) (axes : list Z),
  agree_on V σ1 σ2 t ->
  (exists (l : list V) (mk : nat -> dense), (forall b : nat, d_buf (mk b) = b) /\
     m_safeT V σ1 t axes = Ok (alloc_new V σ1 l mk) /\ m_safeT V σ2 t axes = Ok (alloc_new V σ2 l mk)) \/
  m_safeT V σ1 t axes = Err /\ m_safeT V σ2 t axes = Err \/
  m_safeT V σ1 t axes = Panic /\ m_safeT V σ2 t axes = Panic.
Proof. exact safeT_read_determined. Qed.
Print Assumptions C18_read_determined_safeT.

(* Materialize (the source's allocation exists in both stores) *)
Theorem C18_read_determined_materialize : forall (V : Type) (vzero : V) (σ1 σ2 : store V) (t : nat) (d : dense),
  agree_on V σ1 σ2 t -> get_t V σ1 t = Some d ->
  (d_buf d < length (bufs V σ1))%nat -> (d_buf d < length (bufs V σ2))%nat ->
  (is_materializable d = false /\
   m_materialize V vzero σ1 t = Ok (σ1, t) /\ m_materialize V vzero σ2 t = Ok (σ2, t)) \/
  (exists (l : list V) (mk : nat -> dense), (forall b : nat, d_buf (mk b) = b) /\
     m_materialize V vzero σ1 t = Ok (alloc_new V σ1 l mk) /\
     m_materialize V vzero σ2 t = Ok (alloc_new V σ2 l mk)) \/
  (m_materialize V vzero σ1 t = Err /\ m_materialize V vzero σ2 t = Err) \/
  (m_materialize V vzero σ1 t = Panic /\ m_materialize V vzero σ2 t = Panic).
Proof. exact materialize_read_determined. Qed.
Print Assumptions C18_read_determined_materialize.

(* every non-allocating operation: outcome and resulting visible part are determined by the
   tensors it reads (Pt, Pb = any sets containing them and their allocations) *)
Theorem C18_step_determined_by_reads : forall (V : Type) (vzero : V) (Pt Pb : nat -> Prop)
    (σ1 σ2 : store V) (o : op V),
  nonalloc V o = true -> agree V Pt Pb σ1 σ2 ->
  (forall t : nat, In t (reads V o) -> Pt t) ->
  (forall (t : nat) (d : dense), In t (reads V o) -> get_t V σ1 t = Some d -> Pb (d_buf d)) ->
  snd (step_model V vzero σ1 o) = snd (step_model V vzero σ2 o) /\
  agree V Pt Pb (fst (step_model V vzero σ1 o)) (fst (step_model V vzero σ2 o)).
Proof. exact step_model_agree. Qed.
Print Assumptions C18_step_determined_by_reads.

(* ... and writes at most the entry and the allocation of its written tensor *)
Theorem C18_step_writes_only_own : forall (V : Type) (vzero : V) (σ : store V) (o : op V)
    (σ' : store V) (r : outcome V),
  nonalloc V o = true -> step_model V vzero σ o = (σ', r) ->
  σ' = σ \/
  (exists (t : nat) (d : dense),
     written V o = Some t /\ get_t V σ t = Some d /\ wr V t (d_buf d) σ σ').
Proof. exact nonalloc_step_wr. Qed.
Print Assumptions C18_step_writes_only_own.

(* ====================================================================================== *)
(*  LAYER 2 (d) : a read of a shared tensor commutes with any class step of another thread *)
(* ====================================================================================== *)
(* reader first or the other thread first: same final store, same value read, same outcome of
   the other thread's operation o2 (ANY constructor, under the class condition) *)
Theorem C18_readers_commute : forall (V : Type) (vzero : V) (sh_t sh_b : nat -> bool)
    (σ : store V) (o2 : op V) (t : nat) (c : list Z),
  (forall t, (length (tens V σ) <= t)%nat -> sh_t t = false) ->
  (forall b, (length (bufs V σ) <= b)%nat -> sh_b b = false) ->
  (forall t2, written V o2 = Some t2 ->
              sh_t t2 = false /\ forall d, get_t V σ t2 = Some d -> sh_b (d_buf d) = false) ->
  sh_t t = true -> (forall d, get_t V σ t = Some d -> sh_b (d_buf d) = true) ->
  forall σa ra σab rb σb rb' σba ra',
  step_model V vzero σ (OAt V t c) = (σa, ra) -> step_model V vzero σa o2 = (σab, rb) ->
  step_model V vzero σ o2 = (σb, rb') -> step_model V vzero σb (OAt V t c) = (σba, ra') ->
  σab = σba /\ ra = ra' /\ rb = rb'.
Proof. exact readers_commute_explicit. Qed.
Print Assumptions C18_readers_commute.

Theorem C18_read_stable_under_step : forall (V : Type) (vzero : V) (sh_t sh_b : nat -> bool)
    (σ : store V) (o2 : op V) (σ' : store V) (r2 : outcome V) (t : nat) (c : list Z),
  fresh_unshared V sh_t sh_b σ -> c18_op V sh_t sh_b σ o2 -> shared_tensor V sh_t sh_b σ t ->
  step_model V vzero σ o2 = (σ', r2) ->
  m_at V σ' t c = m_at V σ t c /\ logical V σ' t = logical V σ t.
Proof. exact read_stable_under_step. Qed.
Print Assumptions C18_read_stable_under_step.

Theorem C18_read_stable_under_program : forall (V : Type) (vzero : V) (sh_t sh_b : nat -> bool)
    (σ : store V) (os : list (op V)) (t : nat) (c : list Z),
  fresh_unshared V sh_t sh_b σ -> c18_prog V vzero sh_t sh_b σ os -> shared_tensor V sh_t sh_b σ t ->
  m_at V (fst (run_ops V vzero σ os)) t c = m_at V σ t c.
Proof. exact read_stable_under_program. Qed.
Print Assumptions C18_read_stable_under_program.

(* ====================================================================================== *)
(*  LAYER 2' : threads over ONE store                                                     *)
(* ====================================================================================== *)
(* the operations a thread may execute are local steps in the sense of Layer 1b *)
Theorem C18_thread_op_local : forall (V : Type) (vzero : V) (own_t own_b : nat -> nat -> bool)
    (sh_t sh_b : nat -> bool) (i : nat) (o : op V),
  ownership_disjoint own_t own_b sh_t sh_b -> thread_op V own_t sh_t i o ->
  local_step (store V) (outcome V) (view V own_t own_b sh_t sh_b)
    (own_inv V own_t own_b sh_t sh_b) i (op_step V vzero o).
Proof. exact thread_op_local. Qed.
Print Assumptions C18_thread_op_local.

(* FULL INTENDED STATEMENT (C18 on the model): for threads whose programs consist of ANY operations
   of Run.op — each writing only tensors it owns (or has allocated itself) and reading only shared
   or own tensors — every complete interleaving over the one store gives every thread exactly its
   run-alone outcomes and leaves the store, restricted to what the thread may read, as after its run
   alone, the tensor / allocation indices a thread allocates being identified up to renaming.
   PROVED: the statement for programs of non-allocating operations (nonalloc: OT OUT OTranspose OAt
   OSetAt OMemset OZero OCopy OReshape, unsafe ORollAxis), where no renaming is needed: outcomes
   are EQUAL and the final store AGREES with the run-alone store on every tensor index and
   allocation the thread may read. *)
Theorem C18_store_interleaving_deterministic_partial : forall (V : Type) (vzero : V)
    (own_t own_b : nat -> nat -> bool) (sh_t sh_b : nat -> bool) (σ0 : store V)
    (progs : list (list (op V))) (sch : list nat),
  ownership_disjoint own_t own_b sh_t sh_b ->
  own_inv V own_t own_b sh_t sh_b σ0 ->
  thread_progs V own_t sh_t progs ->
  gfinished (store V) (outcome V) (grun (store V) (outcome V) sch (store_cfg V vzero σ0 progs)) ->
  forall (i : nat) (os : list (op V)), nth_error progs i = Some os ->
  exists obs : list (outcome V),
    nth_error (snd (grun (store V) (outcome V) sch (store_cfg V vzero σ0 progs))) i = Some ([], obs) /\
    obs = snd (run_ops V vzero σ0 os) /\
    view V own_t own_b sh_t sh_b i
      (fst (grun (store V) (outcome V) sch (store_cfg V vzero σ0 progs)))
      (fst (run_ops V vzero σ0 os)).
Proof. exact store_interleaving_deterministic. Qed.
Print Assumptions C18_store_interleaving_deterministic_partial.

(* any schedule, complete or not (same restriction to non-allocating operations) *)
Theorem C18_store_prefix_consistent_partial : forall (V : Type) (vzero : V)
    (own_t own_b : nat -> nat -> bool) (sh_t sh_b : nat -> bool) (σ0 : store V)
    (progs : list (list (op V))) (sch : list nat) (i : nat) (os : list (op V))
    (p : list (gstep (store V) (outcome V))) (obs : list (outcome V)),
  ownership_disjoint own_t own_b sh_t sh_b ->
  own_inv V own_t own_b sh_t sh_b σ0 ->
  thread_progs V own_t sh_t progs ->
  nth_error progs i = Some os ->
  nth_error (snd (grun (store V) (outcome V) sch (store_cfg V vzero σ0 progs))) i = Some (p, obs) ->
  let k := length obs in
  (k <= length os)%nat /\
  p = map (op_step V vzero) (skipn k os) /\
  obs = firstn k (snd (run_ops V vzero σ0 os)) /\
  obs = snd (run_ops V vzero σ0 (firstn k os)) /\
  view V own_t own_b sh_t sh_b i
    (fst (grun (store V) (outcome V) sch (store_cfg V vzero σ0 progs)))
    (fst (run_ops V vzero σ0 (firstn k os))).
Proof. exact store_prefix_consistent. Qed.
Print Assumptions C18_store_prefix_consistent_partial.

(* every coordinate of every tensor a thread may read has, at the end, its run-alone value *)
Theorem C18_store_interleaving_reads_partial : forall (V : Type) (vzero : V)
    (own_t own_b : nat -> nat -> bool) (sh_t sh_b : nat -> bool) (σ0 : store V)
    (progs : list (list (op V))) (sch : list nat),
  ownership_disjoint own_t own_b sh_t sh_b ->
  own_inv V own_t own_b sh_t sh_b σ0 ->
  thread_progs V own_t sh_t progs ->
  gfinished (store V) (outcome V) (grun (store V) (outcome V) sch (store_cfg V vzero σ0 progs)) ->
  forall (i : nat) (os : list (op V)) (t : nat) (c : list Z),
  nth_error progs i = Some os -> vis_t own_t sh_t i t ->
  m_at V (fst (grun (store V) (outcome V) sch (store_cfg V vzero σ0 progs))) t c =
  m_at V (fst (run_ops V vzero σ0 os)) t c.
Proof. exact store_interleaving_reads. Qed.
Print Assumptions C18_store_interleaving_reads_partial.

Theorem C18_store_complete_schedule_exists : forall (V : Type) (vzero : V) (σ0 : store V)
    (progs : list (list (op V))) (rounds : nat),
  (forall os : list (op V), In os progs -> (length os <= rounds)%nat) ->
  gfinished (store V) (outcome V)
    (grun (store V) (outcome V) (round_robin (length progs) rounds) (store_cfg V vzero σ0 progs)).
Proof. exact store_complete_schedule_exists. Qed.
Print Assumptions C18_store_complete_schedule_exists.

(* a concrete store over Z: shared 2x2 tensor 0, thread 0 owns tensor 1, thread 1 owns tensor 2;
   the hypotheses of the interleaving theorem hold, and two different schedules give both threads
   their run-alone outcomes *)
Theorem C18_store_example :
  (ownership_disjoint ex_own_t ex_own_b ex_sh ex_sh /\
   own_inv Z ex_own_t ex_own_b ex_sh ex_sh ex_store /\
   thread_progs Z ex_own_t ex_sh ex_progs) /\
  ex2_obs ex2_sch1 = map (fun os => snd (run_ops Z 0 ex_store os)) ex_progs /\
  ex2_obs ex2_sch2 = map (fun os => snd (run_ops Z 0 ex_store os)) ex_progs /\
  map (fun os => snd (run_ops Z 0 ex_store os)) ex_progs =
    [ [RVal Z 3; RUnit Z; RUnit Z; RUnit Z; RVal Z 8; RVal Z 2];
      [RUnit Z; RVal Z 2; RUnit Z; RVal Z 5; RUnit Z; RUnit Z; RVal Z 0] ].
Proof. exact (conj ex2_hyps (conj ex2_run1 (conj ex2_run2 ex2_alone))). Qed.
Print Assumptions C18_store_example.
