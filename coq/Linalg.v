(* Linalg.v — MODEL of the linear-algebra products: dense_linalg.go (Inner, MatVecMul, MatMul,
   Outer, TensorMul, handleReuse, handleIncr), defaultengine_linalg.go (Trace, Dot dispatch, the
   BLAS argument mapping of MatMul / MatVecMul / Outer / Inner), with gonum's row-major BLAS
   contract (including its precondition panics) written out as reference functions.
   Elements form a semiring given by parameters.  No proofs here. *)
From TV Require Import Base Index AP Iter Mem Ops.

Section Linalg.
Variable V : Type.
Variable vzero vone : V.
Variable vadd vmul : V -> V -> V.

Notation store := (store V).
Notation get_t := (get_t V).

Definition vsum (l : list V) : V := fold_left vadd l vzero.
Definition at_ (l : list V) (i : Z) : V := znth vzero l i.

(* ---- reference BLAS (gonum, row-major).  None = precondition panic ---- *)
(* Dgemm(tA, tB, m, n, k, 1, a, lda, b, ldb, 0, c, ldc) *)
Definition gemm_ref (tA tB : bool) (m n k : Z) (a : list V) (lda : Z) (b : list V) (ldb : Z)
           (c : list V) (ldc : Z) : option (list V) :=
  if (m <? 0) || (n <? 0) || (k <? 0) then None else
  if (if tA then lda <? Z.max 1 m else lda <? Z.max 1 k) then None else
  if (if tB then ldb <? Z.max 1 k else ldb <? Z.max 1 n) then None else
  if ldc <? Z.max 1 n then None else
  if (m =? 0) || (n =? 0) then Some c else
  if (if tA then zlen a <? (k - 1) * lda + m else zlen a <? (m - 1) * lda + k) then None else
  if (if tB then zlen b <? (n - 1) * ldb + k else zlen b <? (k - 1) * ldb + n) then None else
  if zlen c <? (m - 1) * ldc + n then None else
  let opA i l := if tA then at_ a (l * lda + i) else at_ a (i * lda + l) in
  let opB l j := if tB then at_ b (j * ldb + l) else at_ b (l * ldb + j) in
  Some (fold_left (fun c' ij =>
                     let i := fst ij in let j := snd ij in
                     upd c' (Z.to_nat (i * ldc + j))
                         (vsum (map (fun l => vmul (opA i l) (opB l j)) (zseq 0 (Z.to_nat k)))))
                  (flat_map (fun i => map (fun j => (i, j)) (zseq 0 (Z.to_nat n))) (zseq 0 (Z.to_nat m)))
                  c).

(* Dgemv(tA, m, n, 1, a, lda, x, 1, 0, y, 1) *)
Definition gemv_ref (tA : bool) (m n : Z) (a : list V) (lda : Z) (x y : list V) : option (list V) :=
  if (m <? 0) || (n <? 0) then None else
  if lda <? Z.max 1 n then None else
  let lenX := if tA then m else n in
  let lenY := if tA then n else m in
  if (m =? 0) || (n =? 0) then Some y else
  if zlen x <=? lenX - 1 then None else
  if zlen y <=? lenY - 1 then None else
  if zlen a <? lda * (m - 1) + n then None else
  Some (fold_left (fun y' r =>
                     upd y' (Z.to_nat r)
                         (if tA then vsum (map (fun i => vmul (at_ a (i * lda + r)) (at_ x i)) (zseq 0 (Z.to_nat m)))
                          else vsum (map (fun j => vmul (at_ a (r * lda + j)) (at_ x j)) (zseq 0 (Z.to_nat n)))))
                  (zseq 0 (Z.to_nat lenY)) y).

(* Dger(m, n, 1, x, 1, y, 1, a, lda) *)
Definition ger_ref (m n : Z) (x y a : list V) (lda : Z) : option (list V) :=
  if (m <? 0) || (n <? 0) then None else
  if lda <? Z.max 1 n then None else
  if (m =? 0) || (n =? 0) then Some a else
  if zlen x <=? m - 1 then None else
  if zlen y <=? n - 1 then None else
  if zlen a <? lda * (m - 1) + n then None else
  Some (fold_left (fun a' ij =>
                     let i := fst ij in let j := snd ij in
                     upd a' (Z.to_nat (i * lda + j)) (vadd (at_ a' (i * lda + j)) (vmul (at_ x i) (at_ y j))))
                  (flat_map (fun i => map (fun j => (i, j)) (zseq 0 (Z.to_nat n))) (zseq 0 (Z.to_nat m)))
                  a).

(* Ddot(n, x, 1, y, 1) *)
Definition dot_ref (n : Z) (x y : list V) : option V :=
  if n <=? 0 then (if n =? 0 then Some vzero else None) else
  if (zlen x <? n) || (zlen y <? n) then None else
  Some (vsum (map (fun i => vmul (at_ x i) (at_ y i)) (zseq 0 (Z.to_nat n)))).

(* write a whole new window *)
Definition set_window (σ : store) (d : dense) (w : list V) : option store :=
  win_scatter V σ d (zseq 0 (length w)) w.

(* ---- StdEng.MatMul(a, b, prealloc): the argument mapping ---- *)
Definition eng_matmul (σ : store) (a b p : dense) : option store :=
  match shp (d_ap a), shp (d_ap b), shp (d_ap p) with
  | [m; k], [b0; n], p0 :: prest =>
    let acm := is_cm (ord (d_ap a)) in
    let bcm := is_cm (ord (d_ap b)) in
    let pcm := is_cm (ord (d_ap p)) in
    let lda0 := if acm then m else k in
    let ldb0 := if bcm then b0 else n in
    match (if pcm then Some p0 else match prest with p1 :: _ => Some p1 | [] => None end) with
    | None => None                                        (* prealloc.Shape()[1] *)
    | Some ldc =>
      let tA := is_some (d_old a) in
      let tB := is_some (d_old b) in
      let lda := if tA then (if negb acm then m else k) else lda0 in
      let ldb := if tB then (if negb bcm then b0 else n) else ldb0 in
      let A := window V σ a in
      let B := window V σ b in
      let C := window V σ p in
      let r := if acm && bcm then gemm_ref tA tB n m k B ldb A lda C ldc
               else gemm_ref tA tB m n k A lda B ldb C ldc in
      match r with
      | Some C' => set_window σ p C'
      | None => None
      end
    end
  | _, _, _ => None
  end.

(* reuseCheckShape(reuse, s): reshape (setShape + sanity); clears a pending transpose and the
   view flag *)
Definition reuse_check_shape (d : dense) (s : list Z) : option dense :=
  let a := d_ap d in
  let a' := match s with [] => mkAP [] [] (ord a) true | _ => mkAP s (default_strides (ord a) s) (ord a) true end in
  if negb (d_view d) && negb (d_len d =? size s) && negb (is_scalar s) then None
  else Some (mkDense (d_buf d) (d_off d) (d_len d) a' None false).

Inductive lmode := LSafe | LReuse (r : nat) | LIncr (r : nat).

(* destination preparation of MatMul / MatVecMul / Outer: (store, index or fresh value) *)
Definition prep_dest (σ : store) (t : dense) (expShape : list Z) (m : lmode)
  : res (store * dense * option nat) :=
  match m with
  | LReuse r =>
    match get_t σ r with
    | None => Panic
    | Some d =>
      match reuse_check_shape d expShape with
      | None => Err
      | Some d' => Ok (set_t V σ r d', d', Some r)
      end
    end
  | _ =>
    let n := if is_scalar expShape then 1 else size expShape in
    let '(σ1, b) := add_buf V σ (repeat vzero (Z.to_nat n)) in
    let o := if is_cm (ord (d_ap t)) then CM else 0 in
    Ok (σ1, mkDense b 0 n (mkAP expShape (default_strides o expShape) o true) None false, None)
  end.

Inductive lres := LNew (d : dense) | LSame (t : nat) | LErr | LPanic.

(* handleIncr: incr.Add(res, UseUnsafe()) *)
Definition finish_l (σ : store) (res : dense) (ro : option nat) (m : lmode) (expShape : list Z)
  : store * lres :=
  match m with
  | LIncr r =>
    match get_t σ r with
    | None => (σ, LPanic)
    | Some inc =>
      if negb (shape_eq expShape (shp (d_ap inc))) then (σ, LErr) else
      (* register the result so that the engine call can name it, then drop it again *)
      let '(σ1, tr) := add_t V σ res in
      match eng_arith_vv V vzero vadd (fun x y => CV V (vadd x y)) σ1 r tr MUnsafe with
      | (σ2, OOk _) => (mkStore V (bufs V σ2) (firstn (length (tens V σ)) (tens V σ2)), LSame r)
      | (σ2, OErrR) => (σ, LErr)
      | (σ2, OPanicR) => (σ, LPanic)
      end
    end
  | _ => match ro with Some r => (σ, LSame r) | None => (σ, LNew res) end
  end.

(* ---- Dense.MatMul ---- *)
Definition m_matmul (σ : store) (ta tb : nat) (m : lmode) : store * lres :=
  match get_t σ ta, get_t σ tb with
  | Some a, Some b =>
    match shp (d_ap a), shp (d_ap b) with
    | [mm; k], [b0; n] =>
      if negb (k =? b0) then (σ, LErr) else
      match prep_dest σ a [mm; n] m with
      | Err => (σ, LErr)
      | Panic => (σ, LPanic)
      | Ok (σ1, p, ro) =>
        match eng_matmul σ1 a b p with
        | None => (σ, LPanic)
        | Some σ2 => finish_l σ2 p ro m [mm; n]
        end
      end
    | _, _ => (σ, LErr)
    end
  | _, _ => (σ, LPanic)
  end.

(* ---- Dense.MatVecMul / StdEng.MatVecMul ---- *)
Definition oshape (d : dense) : list Z := match d_old d with Some o => shp o | None => shp (d_ap d) end.

Definition m_matvec (σ : store) (ta tb : nat) (m : lmode) : store * lres :=
  match get_t σ ta, get_t σ tb with
  | Some a, Some b =>
    match shp (d_ap a) with
    | [mm; n] =>
      if negb (is_vector (shp (d_ap b))) then (σ, LErr) else
      let odim := if is_colvec (shp (d_ap b)) then znth 0 (shp (d_ap b)) 0
                  else if is_rowvec (shp (d_ap b)) then znth 0 (shp (d_ap b)) 1
                  else znth 0 (shp (d_ap b)) 0 in
      if negb (odim =? n) then (σ, LErr) else
      match prep_dest σ a [mm] m with
      | Err => (σ, LErr)
      | Panic => (σ, LPanic)
      | Ok (σ1, p, ro) =>
        match oshape a with
        | [om; on] =>
          let z := negb (is_some (d_old a)) in
          let cm := is_cm (ord (d_ap a)) in
          let '(tA, m', n', lda) :=
            if negb cm && z then (false, om, on, on)
            else if negb cm then (true, om, on, on)
            else if z then (true, on, om, om)
            else (false, on, om, om) in
          match gemv_ref tA m' n' (window V σ1 a) lda (window V σ1 b) (window V σ1 p) with
          | None => (σ, LPanic)
          | Some y => match set_window σ1 p y with
                      | Some σ2 => finish_l σ2 p ro m [mm]
                      | None => (σ, LPanic)
                      end
          end
        | _ => (σ, LPanic)
        end
      end
    | _ => (σ, LErr)
    end
  | _, _ => (σ, LPanic)
  end.

(* ---- Dense.Outer / StdEng.Outer (row-major destination; a column-major destination goes
   through reshaped operands and MatMul — see the guard) ---- *)
Definition m_outer (σ : store) (ta tb : nat) (m : lmode) : store * lres :=
  match get_t σ ta, get_t σ tb with
  | Some a, Some b =>
    if negb (is_vector (shp (d_ap a))) || negb (is_vector (shp (d_ap b))) then (σ, LErr) else
    let mm := size (shp (d_ap a)) in
    let n := size (shp (d_ap b)) in
    match prep_dest σ a [mm; n] m with
    | Err => (σ, LErr)
    | Panic => (σ, LPanic)
    | Ok (σ1, p, ro) =>
      (* retVal.Zero() *)
      let zero_idx := if is_materializable p
                      then match iter_all (d_ap p) with Some l => Some l | None => None end
                      else Some (zseq 0 (Z.to_nat (d_len p))) in
      match zero_idx with
      | None => (σ, LPanic)
      | Some zi =>
        match win_fill V σ1 p zi vzero with
        | None => (σ, LPanic)
        | Some σ2 =>
          if is_cm (ord (d_ap p)) then
            (* a.Reshape(aShape[0], 1); b.Reshape(1, bShape[0]); MatMul(a, b, prealloc);
               b.Reshape(bShape...); a.Reshape(aShape...) — real Reshape calls on the OPERANDS; an
               early error return leaves them reshaped *)
            let aShape := shp (d_ap a) in
            let bShape := shp (d_ap b) in
            match m_reshape V σ2 ta [znth 0 aShape 0; 1] with
            | Ok (σ3, false) =>
              match m_reshape V σ3 tb [1; znth 0 bShape 0] with
              | Ok (σ4, false) =>
                match get_t σ4 ta, get_t σ4 tb with
                | Some a', Some b' =>
                  match eng_matmul σ4 a' b' p with
                  | None => (σ, LPanic)
                  | Some σ5 =>
                    match m_reshape V σ5 tb bShape with
                    | Ok (σ6, false) =>
                      match m_reshape V σ6 ta aShape with
                      | Ok (σ7, false) => finish_l σ7 p ro m [mm; n]
                      | Ok (σ7, true) => (σ7, LErr)
                      | _ => (σ, LPanic)
                      end
                    | Ok (σ6, true) => (σ6, LErr)
                    | _ => (σ, LPanic)
                    end
                  end
                | _, _ => (σ, LPanic)
                end
              | Ok (σ4, true) => (σ4, LErr)
              | _ => (σ, LPanic)
              end
            | Ok (σ3, true) => (σ3, LErr)
            | _ => (σ, LPanic)
            end
          else
            match shp (d_ap p) with
            | [_; lda] =>
              match ger_ref mm n (window V σ2 a) (window V σ2 b) (window V σ2 p) lda with
              | None => (σ, LPanic)
              | Some A => match set_window σ2 p A with
                          | Some σ3 => finish_l σ3 p ro m [mm; n]
                          | None => (σ, LPanic)
                          end
              end
            | _ => (σ, LPanic)
            end
        end
      end
    end
  | _, _ => (σ, LPanic)
  end.

(* ---- Dense.Inner: a bare value ---- *)
Definition m_inner (σ : store) (ta tb : nat) : res V :=
  match get_t σ ta, get_t σ tb with
  | Some a, Some b =>
    if negb (is_vector (shp (d_ap a))) || negb (is_vector (shp (d_ap b))) then Err else
    let bsize := if is_scalar (shp (d_ap b)) then 0 else d_len b in
    if negb (d_len a =? bsize) then Err else
    match dot_ref (d_len a) (window V σ a) (window V σ b) with
    | Some v => Ok v
    | None => Panic
    end
  | _, _ => Panic
  end.

(* ---- Trace: the stride sum over the raw window ---- *)
Definition m_trace (σ : store) (t : nat) : res V :=
  match get_t σ t with
  | None => Panic
  | Some d =>
    match shp (d_ap d), str (d_ap d) with
    | [r; c], [rs; cs] =>
      let w := window V σ d in
      let idx := map (fun i => i * (rs + cs)) (zseq 0 (Z.to_nat (Z.min r c))) in
      if forallb (fun i => (0 <=? i) && (i <? zlen w)) idx
      then Ok (vsum (map (at_ w) idx)) else Panic
    | [_; _], _ => Panic
    | _, _ => Err
    end
  end.

End Linalg.
