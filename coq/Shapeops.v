(* Shapeops.v — MODEL of the data-moving shape operations: shape.go (Shape.Concat, Shape.Repeat),
   defaultengine_matop_stack.go (StackDense, denseSimpleStack, denseViewStack/doViewStack),
   defaultengine_matop_misc.go (Concat/denseConcat, Repeat/denseRepeat/fastCopyDenseRepeat),
   dense_assign.go (assignArray).  No proofs here. *)
From TV Require Import Base Index AP Iter Mem.

Section Shapeops.
Variable V : Type.
Variable vzero : V.

Notation store := (store V).
Notation get_t := (get_t V).

(* ---- Shape.Concat ---- *)
Fixpoint concat_dims (acc : list Z) (shp : list Z) (axis : nat) (d : nat) : option (list Z) :=
  match acc, shp with
  | [], [] => Some []
  | a :: acc', s :: shp' =>
    if Nat.eqb d axis then
      match concat_dims acc' shp' axis (S d) with Some r => Some ((a + s) :: r) | None => None end
    else if negb (a =? s) then None
    else match concat_dims acc' shp' axis (S d) with Some r => Some (a :: r) | None => None end
  | _, _ => None
  end.

Definition shape_concat (s : list Z) (axis : Z) (ss : list (list Z)) : option (list Z) :=
  if negb (forallb (fun x => Nat.eqb (length x) (length s)) ss) then None else
  let axis := if axis =? -1 then 0 else axis in
  if (axis <? 0) || (zlen s <=? axis) then None else
  fold_left (fun acc x => match acc with
                          | Some a => concat_dims a x (Z.to_nat axis) 0
                          | None => None end) ss (Some s).

(* ---- Shape.Repeat: (newShape, finalRepeats, size) ---- *)
Definition shape_repeat (s : list Z) (axis : Z) (repeats : list Z) : res (list Z * list Z * Z * Z) :=
  let r1 : res (list Z * Z * Z) :=            (* (newShape before the sum, size, axis) *)
    if axis =? -1 then Ok ([size s], size s, 0)
    else if is_scalar s then
      (if axis =? 1 then Ok ([1; 0], 1, axis) else Ok ([0], 1, axis))
    else if is_vector s && negb (is_rowvec s) && negb (is_colvec s) && (axis =? 1)
    then Ok (s ++ [1], 1, axis)
    else if zlen s <=? axis then Err
    else match zget s axis with Some sz => Ok (s, sz, axis) | None => Panic end in
  match r1 with
  | Err => Err
  | Panic => Panic
  | Ok (newShape, sz, axis') =>
    let reps := match repeats with [r] => repeat r (Z.to_nat sz) | _ => repeats end in
    if negb (zlen reps =? sz) then Err else
    match zset newShape axis' (sumz reps) with
    | Some ns => Ok (ns, reps, sz, axis')
    | None => Panic                               (* newShape[axis] out of range *)
    end
  end.

(* a fresh row-major tensor value of the given shape (recycledDense) *)
Definition fresh (σ : store) (sh : list Z) : store * dense :=
  let n := if is_scalar sh then 1 else size sh in
  let '(σ1, b) := add_buf V σ (repeat vzero (Z.to_nat n)) in
  (σ1, mkDense b 0 n (mkAP sh (calc_strides sh) 0 true) None false).

(* copyDenseSliced(dst, ds, de, src, ss, se): array.slice panics unless start <= end <= len;
   then copy() of the common length *)
Definition copy_sliced (σ : store) (dst : dense) (ds de : Z) (src : dense) (ss se : Z) : option store :=
  if (d_len dst <? de) || (de <? ds) || (d_len src <? se) || (se <? ss) || (ds <? 0) || (ss <? 0) then None else
  let n := Z.min (de - ds) (se - ss) in
  match win_gather V σ src (map (fun i => ss + i) (zseq 0 (Z.to_nat n))) with
  | Some vs => win_scatter V σ dst (map (fun i => ds + i) (zseq 0 (Z.to_nat n))) vs
  | None => None
  end.

(* ---- StackDense ---- *)
Fixpoint insert_at {A} (n : nat) (x : A) (l : list A) : list A :=
  match n, l with
  | O, _ => x :: l
  | S n', y :: r => y :: insert_at n' x r
  | S _, [] => [x]
  end.

Fixpoint simple_stack_loop (fuel : nat) (σ : store) (ret : dense) (all : list dense)
         (axisStride destStart start : Z) (i batches : Z) : option store :=
  match fuel with
  | O => Some σ
  | S f =>
    if batches <=? i then Some σ else
    (* one outer iteration: t, then every other operand *)
    let step := fix go (σ : store) (l : list dense) (dest : Z) : option (store * Z) :=
      match l with
      | [] => Some (σ, dest)
      | x :: r =>
        match copy_sliced σ ret dest (d_len ret) x start (start + axisStride) with
        | Some σ' => go σ' r (dest + axisStride)
        | None => None
        end
      end in
    match step σ all destStart with
    | Some (σ', dest') =>
      simple_stack_loop f σ' ret all axisStride dest' (start + axisStride) (i + zlen all) batches
    | None => None
    end
  end.

(* doViewStack: batches x (axisStride elements from each operand's iterator, in operand order),
   appended into the result's storage from position 0 *)
Fixpoint take_n {A} (n : nat) (l : list A) : list A * list A := (firstn n l, skipn n l).

Fixpoint view_stack_loop (fuel : nat) (its : list (list V)) (axisStride : nat) : list V :=
  match fuel with
  | O => []
  | S f =>
    let heads := map (firstn axisStride) its in
    let tails := map (skipn axisStride) its in
    concat heads ++ view_stack_loop f tails axisStride
  end.

Definition m_stack (σ : store) (t : nat) (axis : Z) (others : list nat) : res (store * dense) :=
  match get_t σ t with
  | None => Panic
  | Some dt =>
    let ods := flat_map (fun o => match get_t σ o with Some d => [d] | None => [] end) others in
    if negb (Nat.eqb (length ods) (length others)) then Panic else
    let opdims := zlen (shp (d_ap dt)) in
    if opdims + 1 <=? axis then Err else
    if axis <? 0 then Panic else
    let newShape := insert_at (Z.to_nat axis) (zlen others + 1) (shp (d_ap dt)) in
    let o := ord (d_ap dt) in
    let newStrides := default_strides o newShape in
    let allNoMat := negb (requires_iterator dt) && forallb (fun d => negb (requires_iterator d)) ods in
    let '(σ1, r0) := fresh σ newShape in
    let ret := mkDense (d_buf r0) (d_off r0) (d_len r0) (mkAP newShape newStrides o true) None false in
    let all := dt :: ods in
    if allNoMat then
      if axis =? 0 then
        match copy_raw V σ1 ret dt with
        | Ok σ2 =>
          let fix go (σ : store) (l : list dense) (next : Z) : option store :=
            match l with
            | [] => Some σ
            | x :: r => match copy_sliced σ ret next (d_len ret) x 0 (d_len x) with
                        | Some σ' => go σ' r (next + d_len x)
                        | None => None
                        end
            end in
          match go σ2 ods (d_len dt) with Some σ3 => Ok (σ3, ret) | None => Panic end
        | _ => Panic
        end
      else
        match zget newStrides axis with
        | None => Panic
        | Some axisStride =>
          if axisStride =? 0 then Panic else
          let batches := Z.quot (d_len ret) axisStride in
          match simple_stack_loop (S (Z.to_nat batches)) σ1 ret all axisStride 0 0 0 batches with
          | Some σ2 => Ok (σ2, ret)
          | None => Panic
          end
        end
    else
      match zget newStrides axis with
      | None => Panic
      | Some axisStride =>
        if axisStride <=? 0 then Panic else
        let batches := Z.quot (d_len ret) axisStride in
        let seqs := map (fun d => match iter_all (d_ap d) with
                                  | Some idx => win_gather V σ1 d idx
                                  | None => None end) all in
        if negb (forallb (fun s => match s with Some _ => true | None => false end) seqs) then Panic else
        let vals := map (fun s => match s with Some l => l | None => [] end) seqs in
        let data := view_stack_loop (Z.to_nat batches) vals (Z.to_nat axisStride) in
        (* append() beyond the capacity reallocates: only the first len(ret) values land *)
        let data' := firstn (Z.to_nat (d_len ret)) data in
        match win_scatter V σ1 ret (zseq 0 (length data')) data' with
        | Some σ2 => Ok (σ2, ret)
        | None => Panic
        end
      end
  end.

(* ---- assignArray(dest, src) ---- *)
Fixpoint strip_leading_ones (n : nat) (sh st : list Z) : list Z * list Z :=
  match n, sh, st with
  | S n', 1 :: sh', _ :: st' => strip_leading_ones n' sh' st'
  | _, _, _ => (sh, st)
  end.

Definition assign_array (σ : store) (dest src : dense) : res store :=
  if is_scalar (shp (d_ap src)) then Panic else
  match str (d_ap dest), str (d_ap src) with
  | [], _ | _, [] => Panic                         (* dstrides[0] / sstrides[..] *)
  | _, _ =>
    let dd := length (shp (d_ap dest)) in
    let sd := length (shp (d_ap src)) in
    (* leading length-one axes of the source are stripped while it has more axes than dest;
       the Go code shifts in place, keeping the slice lengths *)
    let '(tsh, tst) :=
      if (dd <? sd)%nat then
        let '(a, b) := strip_leading_ones (sd - dd) (shp (d_ap src)) (str (d_ap src)) in
        (a ++ skipn (length a) (shp (d_ap src)), b ++ skipn (length b) (str (d_ap src)))
      else (shp (d_ap src), str (d_ap src)) in
    match broadcast_strides (shp (d_ap dest)) tsh (str (d_ap dest)) tst with
    | Err => Err
    | Panic => Panic
    | Ok ns =>
      if negb (requires_iterator dest) && negb (requires_iterator src)
         && has_same_order (ord (d_ap dest)) (ord (d_ap src))
      then copy_raw V σ dest src
      else
        match iter_all (d_ap dest), iter_all (mkAP tsh ns (ord (d_ap src)) true) with
        | Some di, Some si =>
          match copy_seq V σ dest src di si with Some σ' => Ok σ' | None => Panic end
        | _, _ => Panic
        end
    end
  end.

(* reshape of a dense value: default strides of its own order, sanity for non-views *)
Definition reshape_val (d : dense) (dims : list Z) : dense :=
  mkDense (d_buf d) (d_off d) (d_len d)
          (mkAP dims (default_strides (ord (d_ap d)) dims) (ord (d_ap d)) true) (d_old d) (d_view d).

(* the slice of a tensor VALUE (no registration) *)
Definition slice_val (σ : store) (d : dense) (sl : list slice) : res dense :=
  match ap_S (d_ap d) (d_len d) sl with
  | Ok (a', s, e) =>
    let cap := zlen (get_buf V σ (d_buf d)) - d_off d in
    if (s <? 0) || (e <? s) || (cap <? e) then Panic
    else Ok (mkDense (d_buf d) (d_off d + s) (e - s) a' None true)
  | Err => Err
  | Panic => Panic
  end.

(* ---- denseConcat ---- : returns the store (the row-vector fix-up RESHAPES THE OPERAND) and
   the result tensor value *)
Fixpoint concat_loop (σ : store) (ret : dense) (axis : Z) (all : list nat) (start : Z)
  : res store :=
  match all with
  | [] => Ok σ
  | ti :: rest =>
    match get_t σ ti with
    | None => Panic
    | Some T =>
      match zget (shp (d_ap T)) axis with
      | None => Panic
      | Some ext =>
        let en := start + ext in
        let sl := repeat None (Z.to_nat axis) ++ [Some (start, en, 1)] in
        match slice_val σ ret sl with
        | Err => Err
        | Panic => Panic
        | Ok v =>
          let rdims := zlen (shp (d_ap ret)) in
          let isOuter := axis =? 0 in
          let isInner := axis =? zlen (shp (d_ap T)) - 1 in
          (* keep dims after slicing *)
          let step : res (store * dense * dense * bool) :=
            if is_vector (shp (d_ap v)) && (zlen (shp (d_ap T)) =? 2) && (axis =? 0) then
              match shp (d_ap v) with
              | v0 :: _ => Ok (σ, reshape_val v [v0; 1], T, false)
              | [] => Panic
              end
            else if is_rowvec (shp (d_ap T)) && (axis =? 0) then
              (* T.reshape(T.Shape()[1]) — the OPERAND is reshaped *)
              match shp (d_ap T) with
              | [_; n] => let T' := reshape_val T [n] in Ok (set_t V σ ti T', v, T', false)
              | _ => Panic
              end
            else if is_scalar_equiv (shp (d_ap v)) && is_scalar_equiv (shp (d_ap T)) then
              Ok (σ, v, T, true)
            else
              let diff := rdims - zlen (shp (d_ap v)) in
              if (0 <? diff) && isOuter then
                Ok (σ, reshape_val v (repeat 1 (Z.to_nat diff) ++ shp (d_ap v)), T, false)
              else if (0 <? diff) && isInner then
                let a := d_ap v in
                Ok (σ, mkDense (d_buf v) (d_off v) (d_len v)
                               (mkAP (shp a ++ repeat 1 (Z.to_nat diff)) (str a ++ repeat 1 (Z.to_nat diff)) (ord a) (fin a))
                               (d_old v) (d_view v), T, false)
              else if ext =? 1 then
                (* unsqueeze(axis): shape gets a 1 at axis; strides get a trailing 1 shifted in *)
                let a := d_ap v in
                if zlen (shp a) + 1 <? axis then Err else
                let sh' := insert_at (Z.to_nat axis) 1 (shp a) in
                let st0 := str a ++ [1] in
                let st' := firstn (Z.to_nat axis + 1) st0 ++ skipn (Z.to_nat axis) (str a) in
                Ok (σ, mkDense (d_buf v) (d_off v) (d_len v) (mkAP sh' st' (ord a) (fin a)) (d_old v) (d_view v), T, false)
              else Ok (σ, v, T, false) in
          match step with
          | Err => Err
          | Panic => Panic
          | Ok (σ1, v', T', rawcopy) =>
            let r := if rawcopy then copy_raw V σ1 v' T' else assign_array σ1 v' T' in
            match r with
            | Ok σ2 => concat_loop σ2 ret axis rest en
            | Err => Err
            | Panic => Panic
            end
          end
        end
      end
    end
  end.

Definition m_concat (σ : store) (t : nat) (axis : Z) (others : list nat) : res (store * dense) :=
  match get_t σ t with
  | None => Panic
  | Some a =>
    let ods := flat_map (fun o => match get_t σ o with Some d => [d] | None => [] end) others in
    if negb (Nat.eqb (length ods) (length others)) then Panic else
    match shape_concat (shp (d_ap a)) axis (map (fun d => shp (d_ap d)) ods) with
    | None => Err
    | Some newShape =>
      let '(σ1, ret) := fresh σ newShape in
      (* note: the axis is used as given (AllAxes = -1 is only normalised inside Shape.Concat) *)
      if axis <? 0 then Panic else
      match concat_loop σ1 ret axis (t :: others) 0 with
      | Ok σ2 => Ok (σ2, ret)
      | Err => Err
      | Panic => Panic
      end
    end
  end.

(* ---- Repeat: fastCopyDenseRepeat over the raw windows ---- *)
Fixpoint rep_k (k : nat) (σ : store) (src dst : dense) (srcStart destStart stride newStride : Z)
  : option (store * Z) :=
  match k with
  | O => Some (σ, destStart)
  | S k' =>
    if (d_len src <=? srcStart) || (d_len dst <? destStart + stride) then Some (σ, destStart)  (* break *)
    else
      (* dSlice = dest[destStart : destStart+newStride]; copy(dSlice, src[srcStart:]) *)
      if (d_len dst <? destStart + newStride) || (newStride <? 0) then None else
      let n := Z.min newStride (d_len src - srcStart) in
      match win_gather V σ src (map (fun i => srcStart + i) (zseq 0 (Z.to_nat n))) with
      | Some vs =>
        match win_scatter V σ dst (map (fun i => destStart + i) (zseq 0 (Z.to_nat n))) vs with
        | Some σ' => rep_k k' σ' src dst srcStart (destStart + newStride) stride newStride
        | None => None
        end
      | None => None
      end
  end.

Fixpoint rep_j (reps : list Z) (σ : store) (src dst : dense) (srcStart destStart stride newStride : Z)
  : option (store * Z * Z) :=
  match reps with
  | [] => Some (σ, srcStart, destStart)
  | tmp :: rest =>
    if (stride =? 1) && (newStride =? 1) then
      (* broadcast src[srcStart] over dest[destStart : destStart+tmp] *)
      if (d_len src <? srcStart + 1) || (d_len dst <? destStart + tmp) || (tmp <? 0) then None else
      match win_get V σ src srcStart with
      | None => None
      | Some v =>
        match win_fill V σ dst (map (fun i => destStart + i) (zseq 0 (Z.to_nat tmp))) v with
        | Some σ' => rep_j rest σ' src dst (srcStart + 1) (destStart + tmp) stride newStride
        | None => None
        end
      end
    else
      if d_len src <? srcStart then None else        (* sarr.slice(srcStart, src.len()) *)
      match rep_k (Z.to_nat tmp) σ src dst srcStart destStart stride newStride with
      | Some (σ', dest') => rep_j rest σ' src dst (srcStart + stride) dest' stride newStride
      | None => None
      end
  end.

Fixpoint rep_i (n : nat) (reps : list Z) (σ : store) (src dst : dense) (srcStart destStart stride newStride : Z)
  : option store :=
  match n with
  | O => Some σ
  | S n' =>
    match rep_j reps σ src dst srcStart destStart stride newStride with
    | Some (σ', s', d') => rep_i n' reps σ' src dst s' d' stride newStride
    | None => None
    end
  end.

Definition ostrides (d : dense) : list Z :=
  match d_old d with Some o => str o | None => str (d_ap d) end.

Definition m_repeat (σ : store) (t : nat) (axis : Z) (repeats : list Z) : res (store * dense) :=
  match get_t σ t with
  | None => Panic
  | Some d =>
    match shape_repeat (shp (d_ap d)) axis repeats with
    | Err => Err
    | Panic => Panic
    | Ok (newShape, reps, sz, _) =>
      let axis' := if axis =? -1 then 0 else axis in
      if negb (pos_shapeb newShape) && negb (forallb (fun x => 0 <=? x) newShape) then Panic else
      let '(σ1, rr) := fresh σ newShape in
      let outers := if is_scalar (shp (d_ap d)) then 1 else size (firstn (Z.to_nat axis') (shp (d_ap d))) in
      let stride_r : option Z :=
        if is_vector newShape || is_vector (shp (d_ap d)) then Some 1 else zget (ostrides d) axis' in
      let newStride_r : option Z :=
        if is_vector newShape then Some 1 else zget (str (d_ap rr)) axis' in
      match stride_r, newStride_r with
      | Some stride, Some newStride =>
        if axis' <? 0 then Panic else
        match rep_i (Z.to_nat outers) reps σ1 d rr 0 0 stride newStride with
        | Some σ2 => Ok (σ2, rr)
        | None => Panic
        end
      | _, _ => Panic
      end
    end
  end.

End Shapeops.
