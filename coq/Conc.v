(* Conc.v — C18 "goroutines on disjoint tensors / read-only sharing": the LOGIC of the property.
   The Go memory model and the scheduler are outside; what is proved is that steps which only
   READ the shared part commute with everything other threads do, so every interleaving gives
   every thread the result it gets running alone.
   LAYER 1  (abstract)   : threads = local state + list of steps  S -> L -> L * O over a shared
                           read-only S; schedules = list of thread ids.
   LAYER 1b (abstract)   : the same over ONE global state with per-thread views (what the store
                           model needs: all threads act on one store).
   LAYER 2  (Mem / Run)  : footprints of the operations of Run.op on the real store model. *)
From TV Require Import Base Index AP Iter Mem Spec Guards Run IndexProofs IterProofs APProofs MemProofs.
From Coq Require Import Lia ZifyBool.

(* ====================================================================================== *)
(*  LAYER 1 : shared read-only state, thread-local states                                 *)
(* ====================================================================================== *)
Section Layer1.
Local Open Scope nat_scope.
Variables S L O : Type.

Definition step : Type := S -> L -> L * O.

(* a thread: local state + program *)
Record thread := mkThread { th_loc : L; th_prog : list step }.

(* a running thread: local state, remaining program, observations emitted so far *)
Record tstate := mkTS { ts_loc : L; ts_prog : list step; ts_obs : list O }.

(* a configuration: one running thread per thread id *)
Definition config : Type := list tstate.

Definition start (th : thread) : tstate := mkTS (th_loc th) (th_prog th) [].
Definition init_cfg (ths : list thread) : config := map start ths.

(* the thread running alone: fold of its steps *)
Fixpoint run_steps (s : S) (l : L) (p : list step) : L * list O :=
  match p with
  | [] => (l, [])
  | f :: p' => let '(l1, o) := f s l in
               let '(l2, os) := run_steps s l1 p' in (l2, o :: os)
  end.

Definition run_alone (s : S) (th : thread) : L * list O := run_steps s (th_loc th) (th_prog th).

(* one step of a running thread; nothing happens when its program is finished *)
Definition exec_one (s : S) (ts : tstate) : tstate :=
  match ts_prog ts with
  | [] => ts
  | f :: p => let '(l', o) := f s (ts_loc ts) in mkTS l' p (ts_obs ts ++ [o])
  end.

(* scheduling thread i; ids out of range do nothing *)
Definition sched_step (s : S) (i : nat) (cfg : config) : config :=
  match nth_error cfg i with
  | Some ts => upd cfg i (exec_one s ts)
  | None => cfg
  end.

Fixpoint run_sched (s : S) (sch : list nat) (cfg : config) : config :=
  match sch with
  | [] => cfg
  | i :: r => run_sched s r (sched_step s i cfg)
  end.

Definition finished (cfg : config) : Prop := forall ts, In ts cfg -> ts_prog ts = [].
Definition complete (s : S) (sch : list nat) (cfg : config) : Prop := finished (run_sched s sch cfg).

(* ---- run_steps ---- *)
Lemma run_steps_app s : forall p1 p2 l,
  run_steps s l (p1 ++ p2) =
  let '(l1, o1) := run_steps s l p1 in
  let '(l2, o2) := run_steps s l1 p2 in (l2, o1 ++ o2).
Proof.
  induction p1 as [|f p1 IH]; intros p2 l; cbn [run_steps app].
  - destruct (run_steps s l p2) as [l2 o2] eqn:E. reflexivity.
  - destruct (f s l) as [l1 o] eqn:Ef. rewrite IH.
    destruct (run_steps s l1 p1) as [l2 o1] eqn:E1.
    destruct (run_steps s l2 p2) as [l3 o2] eqn:E2. reflexivity.
Qed.

Lemma run_steps_length s : forall p l, length (snd (run_steps s l p)) = length p.
Proof.
  induction p as [|f p IH]; intros l; cbn [run_steps]; [reflexivity|].
  destruct (f s l) as [l1 o] eqn:Ef. specialize (IH l1).
  destruct (run_steps s l1 p) as [l2 os] eqn:E. cbn [snd length] in *. lia.
Qed.

(* ---- the invariant tying a running thread to the thread it was started from:
        it has executed the first k steps of the original program exactly as when alone ---- *)
Definition inv_ts (s : S) (th : thread) (ts : tstate) : Prop :=
  exists k, k <= length (th_prog th) /\
            ts_prog ts = skipn k (th_prog th) /\
            run_steps s (th_loc th) (firstn k (th_prog th)) = (ts_loc ts, ts_obs ts).

Lemma inv_ts_start s th : inv_ts s th (start th).
Proof. exists 0. cbn. split; [lia|]. split; reflexivity. Qed.

Lemma skipn_cons_nth {A} : forall (l : list A) k x r, skipn k l = x :: r ->
  k < length l /\ firstn (Datatypes.S k) l = firstn k l ++ [x] /\ skipn (Datatypes.S k) l = r.
Proof.
  induction l as [|h t IH]; intros k x r H.
  - destruct k; discriminate.
  - destruct k as [|k].
    + cbn in H. inversion H; subst. cbn. split; [lia|]. split; reflexivity.
    + cbn [skipn] in H. destruct (IH k x r H) as (H1 & H2 & H3).
      split; [cbn; lia|]. split; [|exact H3].
      change (firstn (Datatypes.S (Datatypes.S k)) (h :: t)) with (h :: firstn (Datatypes.S k) t).
      rewrite H2. reflexivity.
Qed.

Lemma inv_ts_exec s th ts : inv_ts s th ts -> inv_ts s th (exec_one s ts).
Proof.
  intros (k & Hk & Hp & Hr). unfold exec_one.
  destruct (ts_prog ts) as [|f p] eqn:Ep.
  - exists k. rewrite Ep. auto.
  - symmetry in Hp. destruct (skipn_cons_nth _ _ _ _ Hp) as (Hlt & Hf & Hs).
    destruct (f s (ts_loc ts)) as [l' o] eqn:Ef.
    exists (Datatypes.S k). cbn [ts_prog ts_loc ts_obs]. split; [lia|]. split; [symmetry; exact Hs|].
    rewrite Hf, run_steps_app, Hr. cbn [run_steps]. rewrite Ef. reflexivity.
Qed.

(* ---- configurations ---- *)
Definition inv_cfg (s : S) (ths : list thread) (cfg : config) : Prop := Forall2 (inv_ts s) ths cfg.

Lemma inv_cfg_init s ths : inv_cfg s ths (init_cfg ths).
Proof. induction ths as [|th r IH]; constructor; [apply inv_ts_start|exact IH]. Qed.

Lemma Forall2_upd {A B} (R : A -> B -> Prop) : forall l l' i y,
  Forall2 R l l' -> (forall x, nth_error l i = Some x -> R x y) -> Forall2 R l (upd l' i y).
Proof.
  intros l l' i y H. revert i. induction H as [|a b l l' Hab H IH]; intros i Hy.
  - constructor.
  - destruct i as [|i]; cbn [upd].
    + constructor; [apply Hy; reflexivity|exact H].
    + constructor; [exact Hab|]. apply IH. intros x Hx. apply Hy. exact Hx.
Qed.

Lemma Forall2_nth_error_both {A B} (R : A -> B -> Prop) : forall l l', Forall2 R l l' ->
  forall i x y, nth_error l i = Some x -> nth_error l' i = Some y -> R x y.
Proof.
  intros l l' H. induction H as [|a b l l' Hab H IH]; intros [|i] x y Hx Hy; cbn in *; try discriminate.
  - congruence.
  - eapply IH; eassumption.
Qed.

Lemma inv_cfg_sched_step s ths cfg i : inv_cfg s ths cfg -> inv_cfg s ths (sched_step s i cfg).
Proof.
  intros H. unfold sched_step. destruct (nth_error cfg i) as [ts|] eqn:E; [|exact H].
  apply Forall2_upd; [exact H|]. intros th Hth. apply inv_ts_exec.
  eapply Forall2_nth_error_both; eassumption.
Qed.

Lemma inv_cfg_run_sched s ths : forall sch cfg, inv_cfg s ths cfg -> inv_cfg s ths (run_sched s sch cfg).
Proof.
  induction sch as [|i r IH]; intros cfg H; cbn [run_sched]; [exact H|].
  apply IH. apply inv_cfg_sched_step. exact H.
Qed.

(* ---- prefix consistency: under ANY schedule (complete or not) every thread has executed a
        prefix of its program exactly as when alone ---- *)
Theorem prefix_consistent (s : S) (ths : list thread) (sch : list nat) (i : nat) th ts :
  nth_error ths i = Some th ->
  nth_error (run_sched s sch (init_cfg ths)) i = Some ts ->
  let k := length (ts_obs ts) in
  k <= length (th_prog th) /\
  ts_prog ts = skipn k (th_prog th) /\
  ts_obs ts = firstn k (snd (run_alone s th)) /\
  (ts_loc ts, ts_obs ts) = run_steps s (th_loc th) (firstn k (th_prog th)).
Proof.
  intros Hth Hts.
  pose proof (inv_cfg_run_sched s ths sch _ (inv_cfg_init s ths)) as Hinv.
  destruct (Forall2_nth_error_both _ _ _ Hinv _ _ _ Hth Hts) as (k & Hk & Hp & Hr).
  assert (Hlen : length (ts_obs ts) = k).
  { pose proof (run_steps_length s (firstn k (th_prog th)) (th_loc th)) as Hl.
    rewrite Hr in Hl. cbn [snd] in Hl. rewrite Hl. apply firstn_length_le. exact Hk. }
  cbn zeta. rewrite Hlen. split; [exact Hk|]. split; [exact Hp|]. split; [|symmetry; exact Hr].
  unfold run_alone. rewrite <- (firstn_skipn k (th_prog th)) at 1.
  rewrite run_steps_app, Hr.
  destruct (run_steps s (ts_loc ts) (skipn k (th_prog th))) as [l2 o2] eqn:E2. cbn [snd].
  rewrite <- Hlen at 1. rewrite firstn_app, Nat.sub_diag, firstn_all. cbn [firstn]. rewrite app_nil_r. reflexivity.
Qed.

(* the observations of a thread are, at every moment, a prefix of its run-alone observations *)
Corollary observations_prefix (s : S) ths sch i th ts :
  nth_error ths i = Some th ->
  nth_error (run_sched s sch (init_cfg ths)) i = Some ts ->
  exists rest, snd (run_alone s th) = ts_obs ts ++ rest.
Proof.
  intros Hth Hts. destruct (prefix_consistent s ths sch i th ts Hth Hts) as (_ & _ & Ho & _).
  exists (skipn (length (ts_obs ts)) (snd (run_alone s th))).
  rewrite Ho at 1. apply eq_sym, firstn_skipn.
Qed.

Lemma run_sched_length s : forall sch cfg, length (run_sched s sch cfg) = length cfg.
Proof.
  induction sch as [|i r IH]; intros cfg; cbn [run_sched]; [reflexivity|].
  rewrite IH. unfold sched_step. destruct (nth_error cfg i); [apply upd_length|reflexivity].
Qed.

(* ---- THE theorem: every complete schedule gives every thread its run-alone result ---- *)
Theorem interleaving_deterministic (s : S) (ths : list thread) (sch : list nat) :
  complete s sch (init_cfg ths) ->
  forall i th, nth_error ths i = Some th ->
  exists ts, nth_error (run_sched s sch (init_cfg ths)) i = Some ts /\
             ts_prog ts = [] /\
             (ts_loc ts, ts_obs ts) = run_alone s th.
Proof.
  intros Hc i th Hth.
  destruct (nth_error (run_sched s sch (init_cfg ths)) i) as [ts|] eqn:Ets.
  2:{ apply nth_error_None in Ets. rewrite run_sched_length in Ets. unfold init_cfg in Ets.
      rewrite map_length in Ets. apply nth_error_None in Ets. congruence. }
  exists ts. split; [reflexivity|].
  assert (Hfin : ts_prog ts = []) by (apply Hc; eapply nth_error_In; exact Ets).
  split; [exact Hfin|].
  destruct (prefix_consistent s ths sch i th ts Hth Ets) as (Hk & Hp & _ & Hr).
  rewrite Hfin in Hp.
  assert (Hall : length (th_prog th) <= length (ts_obs ts)).
  { pose proof (skipn_length (length (ts_obs ts)) (th_prog th)) as Hl. rewrite <- Hp in Hl.
    cbn [length] in Hl. lia. }
  rewrite firstn_all2 in Hr by exact Hall. exact Hr.
Qed.

(* two complete schedules: identical per-thread results *)
Corollary schedules_agree (s : S) ths sch1 sch2 :
  complete s sch1 (init_cfg ths) -> complete s sch2 (init_cfg ths) ->
  forall i ts1 ts2,
    nth_error (run_sched s sch1 (init_cfg ths)) i = Some ts1 ->
    nth_error (run_sched s sch2 (init_cfg ths)) i = Some ts2 ->
    ts_loc ts1 = ts_loc ts2 /\ ts_obs ts1 = ts_obs ts2.
Proof.
  intros H1 H2 i ts1 ts2 E1 E2.
  destruct (nth_error ths i) as [th|] eqn:Eth.
  2:{ apply nth_error_None in Eth. assert (Hn : nth_error (run_sched s sch1 (init_cfg ths)) i = None).
      { apply nth_error_None. rewrite run_sched_length. unfold init_cfg. rewrite map_length. exact Eth. }
      congruence. }
  destruct (interleaving_deterministic s ths sch1 H1 i th Eth) as (a & Ea & _ & Ra).
  destruct (interleaving_deterministic s ths sch2 H2 i th Eth) as (b & Eb & _ & Rb).
  assert (a = ts1) by congruence. assert (b = ts2) by congruence. subst a b.
  assert (Heq : (ts_loc ts1, ts_obs ts1) = (ts_loc ts2, ts_obs ts2)) by congruence.
  inversion Heq. split; reflexivity.
Qed.

(* ---- complete schedules exist: a schedule is complete iff it names every thread at least as
        often as the thread has steps left ---- *)
Definition remaining (cfg : config) (i : nat) : nat :=
  match nth_error cfg i with Some ts => length (ts_prog ts) | None => 0 end.

Lemma nth_error_upd_eq {A} : forall (l : list A) n v x, nth_error l n = Some x -> nth_error (upd l n v) n = Some v.
Proof.
  intros l n v x H. apply nth_error_upd_same. apply nth_error_Some. congruence.
Qed.

Lemma exec_one_prog_length s ts : length (ts_prog (exec_one s ts)) = pred (length (ts_prog ts)).
Proof.
  unfold exec_one. destruct (ts_prog ts) as [|f p] eqn:E; [rewrite E; reflexivity|].
  destruct (f s (ts_loc ts)) as [l' o]. reflexivity.
Qed.

Lemma remaining_sched_step s j cfg i :
  remaining (sched_step s j cfg) i = if Nat.eqb i j then pred (remaining cfg i) else remaining cfg i.
Proof.
  unfold remaining, sched_step. destruct (Nat.eqb i j) eqn:Eij.
  - apply Nat.eqb_eq in Eij. subst j. destruct (nth_error cfg i) as [ts|] eqn:E.
    + rewrite (nth_error_upd_eq _ _ _ _ E). apply exec_one_prog_length.
    + rewrite E. reflexivity.
  - apply Nat.eqb_neq in Eij. destruct (nth_error cfg j) as [ts|] eqn:E; [|reflexivity].
    rewrite nth_error_upd_other by congruence. reflexivity.
Qed.

Lemma remaining_run_sched s : forall sch cfg i,
  remaining (run_sched s sch cfg) i = remaining cfg i - count_occ Nat.eq_dec sch i.
Proof.
  induction sch as [|j r IH]; intros cfg i; cbn [run_sched count_occ]; [lia|].
  rewrite IH, remaining_sched_step. destruct (Nat.eq_dec j i) as [E|E].
  - subst j. rewrite Nat.eqb_refl. lia.
  - assert (Hne : Nat.eqb i j = false) by (apply Nat.eqb_neq; congruence). rewrite Hne. reflexivity.
Qed.

Lemma finished_remaining cfg : finished cfg <-> forall i, remaining cfg i = 0.
Proof.
  unfold finished, remaining. split.
  - intros H i. destruct (nth_error cfg i) as [ts|] eqn:E; [|reflexivity].
    rewrite (H ts (nth_error_In _ _ E)). reflexivity.
  - intros H ts Hin. destruct (In_nth_error _ _ Hin) as [i Hi]. specialize (H i). rewrite Hi in H.
    destruct (ts_prog ts); [reflexivity|discriminate].
Qed.

Theorem complete_iff (s : S) sch cfg :
  complete s sch cfg <-> forall i, remaining cfg i <= count_occ Nat.eq_dec sch i.
Proof.
  unfold complete. rewrite finished_remaining. split; intros H i; specialize (H i);
    rewrite remaining_run_sched in *; lia.
Qed.

(* round-robin: `rounds` passes over thread ids 0 .. n-1 *)
Definition round_robin (n rounds : nat) : list nat := concat (repeat (seq 0 n) rounds).

Lemma count_occ_seq i : forall n a, count_occ Nat.eq_dec (seq a n) i = if (a <=? i) && (i <? a + n) then 1 else 0.
Proof.
  induction n as [|n IH]; intros a; cbn [seq count_occ].
  - destruct (a <=? i) eqn:E1; destruct (i <? a + 0) eqn:E2; cbn; try reflexivity; lia.
  - rewrite IH. destruct (Nat.eq_dec a i) as [E|E].
    + subst a. destruct (i <=? i) eqn:E1; destruct (i <? i + Datatypes.S n) eqn:E2;
      destruct (Datatypes.S i <=? i) eqn:E3; cbn; try reflexivity; lia.
    + destruct (a <=? i) eqn:E1; destruct (i <? a + Datatypes.S n) eqn:E2;
      destruct (Datatypes.S a <=? i) eqn:E3; destruct (i <? Datatypes.S a + n) eqn:E4; cbn; try reflexivity; lia.
Qed.

Lemma count_occ_round_robin n i : i < n -> forall r, count_occ Nat.eq_dec (round_robin n r) i = r.
Proof.
  intros Hi. unfold round_robin. induction r as [|r IH]; cbn [repeat concat]; [reflexivity|].
  rewrite count_occ_app, IH, count_occ_seq.
  destruct (0 <=? i) eqn:E1; destruct (i <? 0 + n) eqn:E2; cbn; try reflexivity; lia.
Qed.

Definition max_prog (cfg : config) : nat := fold_right (fun ts m => Nat.max (length (ts_prog ts)) m) 0 cfg.

Lemma remaining_le_max : forall cfg i, remaining cfg i <= max_prog cfg.
Proof.
  unfold remaining. induction cfg as [|ts cfg IH]; intros [|i]; cbn [nth_error max_prog fold_right]; try lia.
  specialize (IH i). unfold max_prog in IH. lia.
Qed.

Lemma remaining_out_of_range cfg i : length cfg <= i -> remaining cfg i = 0.
Proof. intros H. unfold remaining. apply nth_error_None in H. rewrite H. reflexivity. Qed.

Theorem complete_schedule_exists (s : S) (cfg : config) :
  forall rounds, max_prog cfg <= rounds -> complete s (round_robin (length cfg) rounds) cfg.
Proof.
  intros rounds Hr. apply complete_iff. intros i.
  destruct (Nat.lt_ge_cases i (length cfg)) as [Hi|Hi].
  - rewrite count_occ_round_robin by exact Hi. pose proof (remaining_le_max cfg i). lia.
  - rewrite remaining_out_of_range by exact Hi. lia.
Qed.

(* non-vacuity in one statement: a complete schedule exists, and under it (as under every other
   complete schedule) every thread gets its run-alone result *)
Corollary round_robin_runs_alone (s : S) (ths : list thread) :
  let sch := round_robin (length ths) (max_prog (init_cfg ths)) in
  complete s sch (init_cfg ths) /\
  forall i th, nth_error ths i = Some th ->
  exists ts, nth_error (run_sched s sch (init_cfg ths)) i = Some ts /\
             (ts_loc ts, ts_obs ts) = run_alone s th.
Proof.
  cbn zeta.
  assert (Hc : complete s (round_robin (length ths) (max_prog (init_cfg ths))) (init_cfg ths)).
  { pose proof (complete_schedule_exists s (init_cfg ths) _ (Nat.le_refl _)) as H.
    unfold init_cfg in H at 1. rewrite map_length in H. exact H. }
  split; [exact Hc|]. intros i th Hth.
  destruct (interleaving_deterministic s ths _ Hc i th Hth) as (ts & E & _ & R).
  exists ts. split; assumption.
Qed.

End Layer1.

Arguments mkThread {S L O}.
Arguments mkTS {S L O}.
Arguments th_loc {S L O}.
Arguments th_prog {S L O}.
Arguments ts_loc {S L O}.
Arguments ts_prog {S L O}.
Arguments ts_obs {S L O}.

(* ---- a concrete instance: 3 threads over nat, shared state 10, two different schedules ---- *)
Section Example1.
Local Open Scope nat_scope.

Definition ex_add : step nat nat nat := fun s l => (l + s, l).        (* observe, then add the shared value *)
Definition ex_dbl : step nat nat nat := fun _ l => (2 * l, l).
Definition ex_peek : step nat nat nat := fun s l => (l, s + l).

Definition ex_threads : list (thread nat nat nat) :=
  [ mkThread 1 [ex_add; ex_dbl; ex_peek];
    mkThread 5 [ex_dbl; ex_dbl];
    mkThread 0 [ex_peek; ex_add; ex_add; ex_peek] ].

Definition ex_sch1 : list nat := [0; 0; 0; 1; 1; 2; 2; 2; 2].           (* one thread after the other *)
Definition ex_sch2 : list nat := [2; 1; 7; 0; 2; 2; 0; 1; 1; 2; 0; 0].    (* interleaved, with idle / out-of-range picks *)

Definition results (cfg : config nat nat nat) : list (nat * list nat) :=
  map (fun ts => (ts_loc ts, ts_obs ts)) cfg.

Example ex_alone : map (run_alone nat nat nat 10) ex_threads =
  [ (22, [1; 11; 32]); (20, [5; 10]); (20, [10; 0; 10; 30]) ].
Proof. reflexivity. Qed.

Example ex_run1 : results (run_sched nat nat nat 10 ex_sch1 (init_cfg nat nat nat ex_threads)) =
                  map (run_alone nat nat nat 10) ex_threads.
Proof. reflexivity. Qed.

Example ex_run2 : results (run_sched nat nat nat 10 ex_sch2 (init_cfg nat nat nat ex_threads)) =
                  map (run_alone nat nat nat 10) ex_threads.
Proof. reflexivity. Qed.

Example ex_complete : complete nat nat nat 10 ex_sch1 (init_cfg nat nat nat ex_threads) /\
                      complete nat nat nat 10 ex_sch2 (init_cfg nat nat nat ex_threads) /\
                      ex_sch1 <> ex_sch2.
Proof.
  split; [|split].
  - intros ts Hin. cbn in Hin. repeat (destruct Hin as [Hin|Hin]; [subst ts; reflexivity|]). destruct Hin.
  - intros ts Hin. cbn in Hin. repeat (destruct Hin as [Hin|Hin]; [subst ts; reflexivity|]). destruct Hin.
  - discriminate.
Qed.
End Example1.

(* ====================================================================================== *)
(*  LAYER 1b : ONE global state, per-thread views                                         *)
(*  All threads act on the same state G (the store).  Thread i has a partial equivalence  *)
(*  `view i` on G ("thread i cannot tell g1 from g2": they agree on what i may read).     *)
(*  A step of thread i must (1) be determined by view i and (2) be invisible to every     *)
(*  other thread; Inv is a state invariant under which this holds.                        *)
(* ====================================================================================== *)
Section Layer1b.
Local Open Scope nat_scope.
Variables G O : Type.
Variable view : nat -> G -> G -> Prop.
Variable Inv : G -> Prop.
Variable view_sym : forall i g1 g2, view i g1 g2 -> view i g2 g1.
Variable view_trans : forall i g1 g2 g3, view i g1 g2 -> view i g2 g3 -> view i g1 g3.

Definition gstep : Type := G -> G * O.

Definition local_step (i : nat) (f : gstep) : Prop :=
  (forall g, Inv g -> Inv (fst (f g))) /\
  (forall g1 g2, Inv g1 -> Inv g2 -> view i g1 g2 ->
     snd (f g1) = snd (f g2) /\ view i (fst (f g1)) (fst (f g2))) /\
  (forall j g, j <> i -> Inv g -> view j g (fst (f g))).

(* a running thread: remaining program, observations so far *)
Definition gthread : Type := list gstep * list O.
Definition gconfig : Type := G * list gthread.

Definition ginit (g : G) (progs : list (list gstep)) : gconfig := (g, map (fun p => (p, [])) progs).

Fixpoint run_gsteps (g : G) (p : list gstep) : G * list O :=
  match p with
  | [] => (g, [])
  | f :: p' => let '(g1, o) := f g in
               let '(g2, os) := run_gsteps g1 p' in (g2, o :: os)
  end.

Definition gsched_step (i : nat) (c : gconfig) : gconfig :=
  match nth_error (snd c) i with
  | Some (f :: p, obs) => let '(g', o) := f (fst c) in (g', upd (snd c) i (p, obs ++ [o]))
  | _ => c
  end.

Fixpoint grun (sch : list nat) (c : gconfig) : gconfig :=
  match sch with
  | [] => c
  | i :: r => grun r (gsched_step i c)
  end.

Definition gfinished (c : gconfig) : Prop := forall p obs, In (p, obs) (snd c) -> p = [].

Lemma run_gsteps_app : forall p1 p2 g,
  run_gsteps g (p1 ++ p2) =
  let '(g1, o1) := run_gsteps g p1 in
  let '(g2, o2) := run_gsteps g1 p2 in (g2, o1 ++ o2).
Proof.
  induction p1 as [|f p1 IH]; intros p2 g; cbn [run_gsteps app].
  - destruct (run_gsteps g p2) as [g2 o2]. reflexivity.
  - destruct (f g) as [g1 o]. rewrite IH.
    destruct (run_gsteps g1 p1) as [g2 o1]. destruct (run_gsteps g2 p2) as [g3 o2]. reflexivity.
Qed.

Lemma run_gsteps_length : forall p g, length (snd (run_gsteps g p)) = length p.
Proof.
  induction p as [|f p IH]; intros g; cbn [run_gsteps]; [reflexivity|].
  destruct (f g) as [g1 o]. specialize (IH g1). destruct (run_gsteps g1 p) as [g2 os].
  cbn [snd length] in *. lia.
Qed.

(* thread i, started with prog0 from g0, has run k steps: same observations as alone, and the
   global state looks to thread i like its run-alone state *)
Definition ginv_thread (g0 : G) (g : G) (i : nat) (prog0 : list gstep) (th : gthread) : Prop :=
  exists k ga, k <= length prog0 /\ fst th = skipn k prog0 /\
               run_gsteps g0 (firstn k prog0) = (ga, snd th) /\ view i g ga /\ Inv ga.

Definition ginv (g0 : G) (progs : list (list gstep)) (c : gconfig) : Prop :=
  Inv (fst c) /\ length (snd c) = length progs /\
  forall i prog0 th, nth_error progs i = Some prog0 -> nth_error (snd c) i = Some th ->
                     ginv_thread g0 (fst c) i prog0 th.

Definition local_progs (progs : list (list gstep)) : Prop :=
  forall i prog0 f, nth_error progs i = Some prog0 -> In f prog0 -> local_step i f.

Lemma ginv_init g0 progs : Inv g0 -> (forall i, view i g0 g0) -> ginv g0 progs (ginit g0 progs).
Proof.
  intros HI Hrefl. split; [exact HI|]. split; [cbn; apply map_length|].
  intros i prog0 th Hp Ht. cbn [ginit snd fst] in *. rewrite nth_error_map, Hp in Ht. cbn in Ht.
  injection Ht as <-. exists 0, g0. cbn. split; [lia|]. split; [reflexivity|]. split; [reflexivity|].
  split; [apply Hrefl|exact HI].
Qed.

Lemma ginv_step g0 progs j c : local_progs progs -> ginv g0 progs c -> ginv g0 progs (gsched_step j c).
Proof.
  intros HL (HI & Hlen & Hth). destruct c as [g ths]. cbn [fst snd] in *. unfold gsched_step. cbn [fst snd].
  destruct (nth_error ths j) as [[[|f p] obs]|] eqn:Ej; try (split; [exact HI|split; [exact Hlen|exact Hth]]).
  destruct (nth_error progs j) as [progj|] eqn:Epj.
  2:{ apply nth_error_None in Epj. assert (nth_error ths j = None) by (apply nth_error_None; lia). congruence. }
  destruct (Hth j progj _ Epj Ej) as (k & ga & Hk & Hp & Hr & Hv & HIa). cbn [fst snd] in Hp, Hr.
  symmetry in Hp. destruct (skipn_cons_nth _ _ _ _ Hp) as (Hlt & Hf & Hs).
  assert (Hin : In f progj).
  { rewrite <- (firstn_skipn k progj), Hp. apply in_or_app. right. left. reflexivity. }
  destruct (HL j progj f Epj Hin) as (LI & LD & LV).
  destruct (f g) as [g' o] eqn:Efg. cbn [fst snd].
  assert (Eg' : g' = fst (f g)) by (rewrite Efg; reflexivity).
  split; [rewrite Eg'; apply LI; exact HI|]. split; [cbn [snd]; rewrite upd_length; exact Hlen|]. cbn [fst snd].
  intros i prog0 th Hp0 Hti. destruct (Nat.eq_dec i j) as [E|E].
  - subst i. assert (prog0 = progj) by congruence. subst prog0.
    rewrite (nth_error_upd_eq _ _ _ _ Ej) in Hti. injection Hti as <-.
    destruct (LD g ga HI HIa Hv) as [Ho Hv']. rewrite Efg in Ho, Hv'. cbn [fst snd] in Ho, Hv'.
    destruct (f ga) as [ga' o'] eqn:Efa. cbn [fst snd] in Ho, Hv'. subst o'.
    exists (Datatypes.S k), ga'. cbn [fst snd]. split; [lia|]. split; [symmetry; exact Hs|].
    split; [rewrite Hf, run_gsteps_app, Hr; cbn [run_gsteps]; rewrite Efa; reflexivity|].
    split; [exact Hv'|]. replace ga' with (fst (f ga)) by (rewrite Efa; reflexivity). apply LI. exact HIa.
  - rewrite nth_error_upd_other in Hti by congruence.
    destruct (Hth i prog0 th Hp0 Hti) as (k' & gi & Hk' & Hp' & Hr' & Hv' & HIi).
    exists k', gi. split; [exact Hk'|]. split; [exact Hp'|]. split; [exact Hr'|]. split; [|exact HIi].
    apply view_trans with g; [|exact Hv']. apply view_sym. rewrite Eg'. apply LV; [exact E|exact HI].
Qed.

Lemma ginv_run g0 progs : local_progs progs -> forall sch c, ginv g0 progs c -> ginv g0 progs (grun sch c).
Proof.
  intros HL. induction sch as [|i r IH]; intros c H; cbn [grun]; [exact H|].
  apply IH. apply ginv_step; assumption.
Qed.

(* under ANY schedule: thread i has executed a prefix of its program with exactly the
   observations it makes alone, and the global state looks to it like its run-alone state *)
Theorem gprefix_consistent (g0 : G) (progs : list (list gstep)) (sch : list nat) i prog0 p obs :
  Inv g0 -> (forall j, view j g0 g0) -> local_progs progs ->
  nth_error progs i = Some prog0 ->
  nth_error (snd (grun sch (ginit g0 progs))) i = Some (p, obs) ->
  let k := length obs in
  k <= length prog0 /\ p = skipn k prog0 /\
  obs = firstn k (snd (run_gsteps g0 prog0)) /\
  obs = snd (run_gsteps g0 (firstn k prog0)) /\
  view i (fst (grun sch (ginit g0 progs))) (fst (run_gsteps g0 (firstn k prog0))).
Proof.
  intros HI Hrefl HL Hp Ht.
  pose proof (ginv_run g0 progs HL sch _ (ginv_init g0 progs HI Hrefl)) as (_ & _ & Hth).
  destruct (Hth i prog0 _ Hp Ht) as (k & ga & Hk & Hpk & Hr & Hv & _). cbn [fst snd] in Hpk, Hr.
  assert (Hlen : length obs = k).
  { pose proof (run_gsteps_length (firstn k prog0) g0) as Hl. rewrite Hr in Hl. cbn [snd] in Hl.
    rewrite Hl. apply firstn_length_le. exact Hk. }
  cbn zeta. rewrite Hlen. split; [exact Hk|]. split; [exact Hpk|].
  split; [|split; [rewrite Hr; reflexivity|rewrite Hr; exact Hv]].
  rewrite <- (firstn_skipn k prog0) at 1. rewrite run_gsteps_app, Hr.
  destruct (run_gsteps ga (skipn k prog0)) as [g2 o2]. cbn [snd].
  rewrite <- Hlen at 1. rewrite firstn_app, Nat.sub_diag, firstn_all. cbn [firstn]. rewrite app_nil_r. reflexivity.
Qed.

(* every complete schedule: every thread observes exactly what it observes alone, and the final
   global state looks to it like the final state of its run alone *)
Theorem ginterleaving_deterministic (g0 : G) (progs : list (list gstep)) (sch : list nat) :
  Inv g0 -> (forall j, view j g0 g0) -> local_progs progs ->
  gfinished (grun sch (ginit g0 progs)) ->
  forall i prog0, nth_error progs i = Some prog0 ->
  exists obs, nth_error (snd (grun sch (ginit g0 progs))) i = Some ([], obs) /\
              obs = snd (run_gsteps g0 prog0) /\
              view i (fst (grun sch (ginit g0 progs))) (fst (run_gsteps g0 prog0)).
Proof.
  intros HI Hrefl HL Hfin i prog0 Hp.
  pose proof (ginv_run g0 progs HL sch _ (ginv_init g0 progs HI Hrefl)) as (_ & Hlen & _).
  destruct (nth_error (snd (grun sch (ginit g0 progs))) i) as [[p obs]|] eqn:Et.
  2:{ apply nth_error_None in Et. rewrite Hlen in Et. apply nth_error_None in Et. congruence. }
  assert (p = []) by (eapply Hfin; eapply nth_error_In; exact Et). subst p.
  exists obs. split; [reflexivity|].
  destruct (gprefix_consistent g0 progs sch i prog0 [] obs HI Hrefl HL Hp Et) as (Hk & Hs & _ & Ho & Hv).
  assert (Hall : length prog0 <= length obs).
  { pose proof (skipn_length (length obs) prog0) as Hl. rewrite <- Hs in Hl. cbn [length] in Hl. lia. }
  rewrite firstn_all2 in Ho, Hv by exact Hall. split; assumption.
Qed.

(* ---- complete schedules exist (same counting argument as in Layer 1) ---- *)
Definition gremaining (c : gconfig) (i : nat) : nat :=
  match nth_error (snd c) i with Some th => length (fst th) | None => 0 end.

Lemma gremaining_step j c i :
  gremaining (gsched_step j c) i = if Nat.eqb i j then pred (gremaining c i) else gremaining c i.
Proof.
  unfold gremaining, gsched_step. destruct c as [g ths]. cbn [fst snd].
  destruct (nth_error ths j) as [[[|f p] obs]|] eqn:Ej; cbn [fst snd].
  - destruct (Nat.eqb i j) eqn:Eij; [|reflexivity]. apply Nat.eqb_eq in Eij. subst j. rewrite Ej. reflexivity.
  - destruct (f g) as [g' o]. cbn [snd]. destruct (Nat.eqb i j) eqn:Eij.
    + apply Nat.eqb_eq in Eij. subst j. rewrite (nth_error_upd_eq _ _ _ _ Ej), Ej. reflexivity.
    + apply Nat.eqb_neq in Eij. rewrite nth_error_upd_other by congruence. reflexivity.
  - destruct (Nat.eqb i j) eqn:Eij; [|reflexivity]. apply Nat.eqb_eq in Eij. subst j. rewrite Ej. reflexivity.
Qed.

Lemma gremaining_run : forall sch c i,
  gremaining (grun sch c) i = gremaining c i - count_occ Nat.eq_dec sch i.
Proof.
  induction sch as [|j r IH]; intros c i; cbn [grun count_occ]; [lia|].
  rewrite IH, gremaining_step. destruct (Nat.eq_dec j i) as [E|E].
  - subst j. rewrite Nat.eqb_refl. lia.
  - assert (Hne : Nat.eqb i j = false) by (apply Nat.eqb_neq; congruence). rewrite Hne. reflexivity.
Qed.

Lemma gfinished_remaining c : gfinished c <-> forall i, gremaining c i = 0.
Proof.
  unfold gfinished, gremaining. destruct c as [g ths]. cbn [snd]. split.
  - intros H i. destruct (nth_error ths i) as [[p obs]|] eqn:E; [|reflexivity].
    rewrite (H p obs (nth_error_In _ _ E)). reflexivity.
  - intros H p obs Hin. destruct (In_nth_error _ _ Hin) as [i Hi]. specialize (H i). unfold gthread in *. rewrite Hi in H.
    cbn [fst] in H. destruct p; [reflexivity|discriminate].
Qed.

Theorem gcomplete_iff sch c :
  gfinished (grun sch c) <-> forall i, gremaining c i <= count_occ Nat.eq_dec sch i.
Proof.
  rewrite gfinished_remaining. split; intros H i; specialize (H i); rewrite gremaining_run in *; lia.
Qed.

Theorem gcomplete_schedule_exists c rounds :
  (forall i, gremaining c i <= rounds) -> gfinished (grun (round_robin (length (snd c)) rounds) c).
Proof.
  intros Hr. apply gcomplete_iff. intros i.
  destruct (Nat.lt_ge_cases i (length (snd c))) as [Hi|Hi].
  - rewrite count_occ_round_robin by exact Hi. apply Hr.
  - unfold gremaining. apply nth_error_None in Hi. rewrite Hi. lia.
Qed.

End Layer1b.

(* ====================================================================================== *)
(*  LAYER 2 : the operations of Run.op on the store model                                 *)
(* ====================================================================================== *)
Section Layer2.
Variable V : Type.
Variable vzero : V.

Notation store := (Mem.store V).
Notation op := (Run.op V).

Ltac inv H := inversion H; subst; clear H.

(* ---------------------------------------------------------------------------------------- *)
(*  2.0  sharing-agnostic write frames: which tensor entry / which allocation a step touches *)
(* ---------------------------------------------------------------------------------------- *)
(* every tensor that exists keeps its allocation id *)
Definition buf_stable (σ σ' : store) : Prop :=
  forall t d, get_t V σ t = Some d -> exists d', get_t V σ' t = Some d' /\ d_buf d' = d_buf d.

(* σ' differs from σ at most in allocation b *)
Definition only_buf (b : nat) (σ σ' : store) : Prop :=
  tens V σ' = tens V σ /\ length (bufs V σ') = length (bufs V σ) /\
  forall b', b' <> b -> get_buf V σ' b' = get_buf V σ b'.

(* σ' differs from σ at most in tensor entry t and allocation b; nothing is allocated *)
Definition wr (t b : nat) (σ σ' : store) : Prop :=
  length (tens V σ') = length (tens V σ) /\ length (bufs V σ') = length (bufs V σ) /\
  (forall t', t' <> t -> nth_error (tens V σ') t' = nth_error (tens V σ) t') /\
  (forall b', b' <> b -> get_buf V σ' b' = get_buf V σ b') /\
  buf_stable σ σ'.

Lemma buf_stable_refl σ : buf_stable σ σ.
Proof. intros t d H. exists d. split; [exact H|reflexivity]. Qed.

Lemma buf_stable_trans σ1 σ2 σ3 : buf_stable σ1 σ2 -> buf_stable σ2 σ3 -> buf_stable σ1 σ3.
Proof.
  intros H12 H23 t d Hd. destruct (H12 t d Hd) as (d2 & Hd2 & E2).
  destruct (H23 t d2 Hd2) as (d3 & Hd3 & E3). exists d3. split; [exact Hd3|congruence].
Qed.

Lemma only_buf_refl b σ : only_buf b σ σ.
Proof. split; [reflexivity|]. split; [reflexivity|]. intros; reflexivity. Qed.

Lemma only_buf_trans b σ1 σ2 σ3 : only_buf b σ1 σ2 -> only_buf b σ2 σ3 -> only_buf b σ1 σ3.
Proof.
  intros (T1 & L1 & B1) (T2 & L2 & B2). split; [congruence|]. split; [congruence|].
  intros b' Hb. rewrite B2, B1 by exact Hb. reflexivity.
Qed.

Lemma set_buf_only σ b l : only_buf b σ (set_buf V σ b l).
Proof.
  split; [reflexivity|]. split; [cbn [set_buf bufs]; apply upd_length|].
  intros b' Hb. unfold get_buf, set_buf. cbn [bufs]. apply nth_upd_other. congruence.
Qed.

Lemma win_set_only σ d i v σ' : win_set V σ d i v = Some σ' -> only_buf (d_buf d) σ σ'.
Proof.
  unfold win_set. intros H. destruct ((i <? 0) || (d_len d <=? i)); [discriminate|].
  destruct (zset (get_buf V σ (d_buf d)) (d_off d + i) v) as [l|]; [|discriminate].
  inv H. apply set_buf_only.
Qed.

Lemma cap_set_only σ d i v σ' : cap_set V σ d i v = Some σ' -> only_buf (d_buf d) σ σ'.
Proof.
  unfold cap_set. intros H. destruct (i <? 0); [discriminate|].
  destruct (zset (get_buf V σ (d_buf d)) (d_off d + i) v) as [l|]; [|discriminate].
  inv H. apply set_buf_only.
Qed.

Lemma win_fill_only d v : forall idx σ σ', win_fill V σ d idx v = Some σ' -> only_buf (d_buf d) σ σ'.
Proof.
  induction idx as [|i r IH]; intros σ σ' H; cbn [win_fill] in H.
  - inv H. apply only_buf_refl.
  - destruct (win_set V σ d i v) as [σ1|] eqn:E; [|discriminate].
    eapply only_buf_trans; [eapply win_set_only; exact E|apply IH; exact H].
Qed.

Lemma win_scatter_only d : forall idx vs σ σ', win_scatter V σ d idx vs = Some σ' -> only_buf (d_buf d) σ σ'.
Proof.
  induction idx as [|i r IH]; intros vs σ σ' H; cbn [win_scatter] in H.
  - inv H. apply only_buf_refl.
  - destruct vs as [|v vs]; [inv H; apply only_buf_refl|].
    destruct (win_set V σ d i v) as [σ1|] eqn:E; [|discriminate].
    eapply only_buf_trans; [eapply win_set_only; exact E|eapply IH; exact H].
Qed.

Lemma copy_seq_only dst src : forall di si σ σ', copy_seq V σ dst src di si = Some σ' -> only_buf (d_buf dst) σ σ'.
Proof.
  induction di as [|i di IH]; intros si σ σ' H; cbn [copy_seq] in H.
  - inv H. apply only_buf_refl.
  - destruct si as [|j si]; [inv H; apply only_buf_refl|].
    destruct (cap_get V σ src j) as [v|]; [|discriminate].
    destruct (cap_set V σ dst i v) as [σ1|] eqn:E; [|discriminate].
    eapply only_buf_trans; [eapply cap_set_only; exact E|eapply IH; exact H].
Qed.

Lemma copy_raw_only σ dst src σ' : copy_raw V σ dst src = Ok σ' -> only_buf (d_buf dst) σ σ'.
Proof.
  unfold copy_raw. intros H.
  destruct (win_scatter V σ dst (zseq 0 (Z.to_nat (Z.min (d_len dst) (d_len src)))) (window V σ src)) as [σ1|] eqn:E;
    [|discriminate].
  inv H. eapply win_scatter_only; exact E.
Qed.

Lemma copy_iter_only σ dst src σ' : copy_iter V σ dst src = Ok σ' -> only_buf (d_buf dst) σ σ'.
Proof.
  unfold copy_iter. intros H.
  destruct (iter_all (d_ap dst)) as [di|]; [|discriminate].
  destruct (iter_all (d_ap src)) as [si|]; [|discriminate].
  destruct (copy_seq V σ dst src di si) as [σ1|] eqn:E; [|discriminate].
  inv H. eapply copy_seq_only; exact E.
Qed.

Lemma copy_dense_iter_only σ dst src σ' : copy_dense_iter V σ dst src = Ok σ' -> only_buf (d_buf dst) σ σ'.
Proof.
  unfold copy_dense_iter. intros H.
  destruct (negb (requires_iterator dst) && negb (requires_iterator src)
            && has_same_order (ord (d_ap dst)) (ord (d_ap src))).
  - eapply copy_raw_only; exact H.
  - eapply copy_iter_only; exact H.
Qed.

Lemma transpose_d_only σ d σ' d' : m_transpose_d V σ d = Ok (σ', d') ->
  only_buf (d_buf d) σ σ' /\ d_buf d' = d_buf d.
Proof.
  unfold m_transpose_d. intros H.
  destruct (d_old d) as [o|]; [|inv H; split; [apply only_buf_refl|reflexivity]].
  destruct (is_scalar (shp (d_ap d))); [inv H; split; [apply only_buf_refl|reflexivity]|].
  cbv zeta in H.
  destruct (is_vector (shp (d_ap d))); [inv H; split; [apply only_buf_refl|reflexivity]|].
  destruct (iter_all (d_ap d)) as [idx|]; [|discriminate].
  destruct (win_gather V σ d idx) as [tmp|]; [|discriminate].
  destruct (win_scatter V σ d (zseq 0 (Z.to_nat (Z.min (d_len d) (zlen tmp)))) tmp) as [σ1|] eqn:E; [|discriminate].
  inv H. split; [eapply win_scatter_only; exact E|reflexivity].
Qed.

(* ---- wr ---- *)
Lemma wr_refl t b σ : wr t b σ σ.
Proof. repeat split; try reflexivity. apply buf_stable_refl. Qed.

Lemma wr_trans t b σ1 σ2 σ3 : wr t b σ1 σ2 -> wr t b σ2 σ3 -> wr t b σ1 σ3.
Proof.
  intros (A1 & B1 & C1 & D1 & E1) (A2 & B2 & C2 & D2 & E2).
  split; [congruence|]. split; [congruence|]. split; [|split].
  - intros t' Ht. rewrite C2, C1 by exact Ht. reflexivity.
  - intros b' Hb. rewrite D2, D1 by exact Hb. reflexivity.
  - eapply buf_stable_trans; eassumption.
Qed.

Lemma only_buf_wr t b σ σ' : only_buf b σ σ' -> wr t b σ σ'.
Proof.
  intros (T & L & B). split; [rewrite T; reflexivity|]. split; [exact L|]. split; [|split].
  - intros t' _. rewrite T. reflexivity.
  - exact B.
  - intros t0 d Hd. exists d. unfold get_t in *. rewrite T. split; [exact Hd|reflexivity].
Qed.

Lemma set_t_wr t b σ d' : (forall d, get_t V σ t = Some d -> d_buf d' = d_buf d) -> wr t b σ (set_t V σ t d').
Proof.
  intros Hd. split; [cbn [set_t tens]; apply upd_length|]. split; [reflexivity|]. split; [|split].
  - intros t' Ht. cbn [set_t tens]. apply nth_error_upd_other. congruence.
  - intros b' _. reflexivity.
  - intros t0 d0 H0. destruct (Nat.eq_dec t0 t) as [E|E].
    + subst t0. exists d'. split; [eapply get_t_set_t_same; exact H0|apply Hd; exact H0].
    + exists d0. split; [rewrite get_t_set_t_other by exact E; exact H0|reflexivity].
Qed.

(* only_buf then a metadata update of t that keeps the allocation id *)
Lemma only_buf_set_t_wr t σ d σ1 d' : get_t V σ t = Some d -> only_buf (d_buf d) σ σ1 -> d_buf d' = d_buf d ->
  wr t (d_buf d) σ (set_t V σ1 t d').
Proof.
  intros Hd Ho Hb. eapply wr_trans; [apply only_buf_wr; exact Ho|].
  apply set_t_wr. intros d0 H0. destruct Ho as (T & _ & _). unfold get_t in H0. rewrite T in H0.
  unfold get_t in Hd. congruence.
Qed.

(* ---- the in-place operations: only their own tensor entry and their own allocation ---- *)
Lemma m_setat_wr σ t d c v σ' : get_t V σ t = Some d -> m_setat V σ t c v = Ok σ' -> wr t (d_buf d) σ σ'.
Proof.
  intros Hd H. unfold m_setat in H. rewrite Hd in H.
  destruct (at_index (shp (d_ap d)) (str (d_ap d)) c) as [i| |]; try discriminate.
  destruct (win_set V σ d i v) as [σ1|] eqn:E; [|discriminate]. inv H.
  apply only_buf_wr. eapply win_set_only; exact E.
Qed.

Lemma m_memset_wr σ t d v σ' : get_t V σ t = Some d -> m_memset V σ t v = Ok σ' -> wr t (d_buf d) σ σ'.
Proof.
  intros Hd H. unfold m_memset in H. rewrite Hd in H. apply only_buf_wr.
  destruct (is_materializable d).
  - destruct (iter_all (d_ap d)) as [idx|]; [|discriminate].
    destruct (win_fill V σ d idx v) as [σ1|] eqn:E; [|discriminate]. inv H. eapply win_fill_only; exact E.
  - destruct (win_fill V σ d (zseq 0 (Z.to_nat (d_len d))) v) as [σ1|] eqn:E; [|discriminate].
    inv H. eapply win_fill_only; exact E.
Qed.

Lemma m_zero_wr σ t d σ' : get_t V σ t = Some d -> m_zero V vzero σ t = Ok σ' -> wr t (d_buf d) σ σ'.
Proof.
  intros Hd H. unfold m_zero in H. rewrite Hd in H. apply only_buf_wr.
  destruct (is_materializable d).
  - destruct (iter_all (d_ap d)) as [idx|]; [|discriminate].
    destruct (win_fill V σ d idx vzero) as [σ1|] eqn:E; [|discriminate]. inv H. eapply win_fill_only; exact E.
  - destruct (win_fill V σ d (zseq 0 (Z.to_nat (d_len d))) vzero) as [σ1|] eqn:E; [|discriminate].
    inv H. eapply win_fill_only; exact E.
Qed.

Lemma m_transpose_wr σ t d σ' : get_t V σ t = Some d -> m_transpose V σ t = Ok σ' -> wr t (d_buf d) σ σ'.
Proof.
  intros Hd H. unfold m_transpose in H. rewrite Hd in H.
  destruct (m_transpose_d V σ d) as [[σ1 d1]| |] eqn:E; try discriminate. inv H.
  destruct (transpose_d_only _ _ _ _ E) as [Ho Hb].
  eapply only_buf_set_t_wr; eassumption.
Qed.

Lemma ut_dense_buf d : d_buf (ut_dense d) = d_buf d.
Proof. unfold ut_dense. destruct (d_old d); reflexivity. Qed.

Lemma m_UT_wr σ t d σ' : get_t V σ t = Some d -> m_UT V σ t = Ok σ' -> wr t (d_buf d) σ σ'.
Proof.
  intros Hd H. unfold m_UT in H. rewrite Hd in H. inv H.
  apply set_t_wr. intros d0 H0. rewrite ut_dense_buf. congruence.
Qed.

Lemma m_T_wr σ t d axes σ' : get_t V σ t = Some d -> m_T V σ t axes = Ok σ' -> wr t (d_buf d) σ σ'.
Proof.
  intros Hd H. unfold m_T in H. rewrite Hd in H.
  destruct (ap_T (d_ap d) axes) as [tr ax| | |]; try discriminate.
  2:{ inv H. apply wr_refl. }
  destruct (d_old d) as [o|] eqn:Eo.
  2:{ inv H. apply set_t_wr. intros d0 H0. cbn [d_buf]. congruence. }
  assert (Hut : wr t (d_buf d) σ (set_t V σ t (ut_dense d))).
  { apply set_t_wr. intros d0 H0. rewrite ut_dense_buf. congruence. }
  destruct (is_vector (shp (d_ap d))); [inv H; exact Hut|].
  destruct (prefix_eqb (shp tr) (shp o)) as [[|]|]; try discriminate.
  - inv H. exact Hut.
  - destruct (m_transpose_d V σ d) as [[σ1 d1]| |] eqn:E; try discriminate. inv H.
    destruct (transpose_d_only _ _ _ _ E) as [Ho Hb].
    eapply only_buf_set_t_wr; [exact Hd|exact Ho|cbn [d_buf]; exact Hb].
Qed.

Lemma m_reshape_wr σ t d dims σ' rf : get_t V σ t = Some d -> m_reshape V σ t dims = Ok (σ', rf) ->
  wr t (d_buf d) σ σ'.
Proof.
  intros Hd H. unfold m_reshape in H. rewrite Hd in H.
  destruct (negb (size (shp (d_ap d)) =? size dims)); [inv H; apply wr_refl|].
  destruct (d_view d && is_nc (ord (d_ap d))); [inv H; apply wr_refl|].
  destruct (if is_some (d_old d) then m_transpose_d V σ d else Ok (σ, d)) as [[σ1 d1]| |] eqn:E; try discriminate.
  assert (Ho : only_buf (d_buf d) σ σ1 /\ d_buf d1 = d_buf d).
  { destruct (is_some (d_old d)); [eapply transpose_d_only; exact E|].
    inv E. split; [apply only_buf_refl|reflexivity]. }
  destruct Ho as [Ho Hb]. cbv zeta in H.
  match type of H with (if ?c then _ else _) = _ => destruct c end; inv H;
    (eapply only_buf_set_t_wr; [exact Hd|exact Ho|cbn [d_buf]; exact Hb]).
Qed.

Lemma m_copy_wr σ dt st dst σ' : get_t V σ dt = Some dst -> m_copy V σ dt st = Ok σ' -> wr dt (d_buf dst) σ σ'.
Proof.
  intros Hd H. unfold m_copy in H. rewrite Hd in H.
  destruct (get_t V σ st) as [src|]; [|discriminate]. apply only_buf_wr.
  destruct (requires_iterator src || requires_iterator dst).
  - eapply copy_dense_iter_only; exact H.
  - eapply copy_raw_only; exact H.
Qed.

(* ---------------------------------------------------------------------------------------- *)
(*  2.a  the split of a store into a SHARED part and the rest                               *)
(* ---------------------------------------------------------------------------------------- *)
Variables sh_t sh_b : nat -> bool.   (* shared tensor indices / shared allocation ids *)

(* every shared tensor entry and every shared allocation is the same in σ' as in σ *)
Definition shared_frame (σ σ' : store) : Prop :=
  (forall t, sh_t t = true -> nth_error (tens V σ') t = nth_error (tens V σ) t) /\
  (forall b, sh_b b = true -> get_buf V σ' b = get_buf V σ b).

(* what has not been allocated yet is not shared *)
Definition fresh_unshared (σ : store) : Prop :=
  (forall t, (length (tens V σ) <= t)%nat -> sh_t t = false) /\
  (forall b, (length (bufs V σ) <= b)%nat -> sh_b b = false).

(* shared_frame + what makes it compose: stores only grow, tensors keep their allocation *)
Definition sfr (σ σ' : store) : Prop :=
  shared_frame σ σ' /\
  (length (tens V σ) <= length (tens V σ'))%nat /\ (length (bufs V σ) <= length (bufs V σ'))%nat /\
  buf_stable σ σ'.

Lemma sfr_refl σ : sfr σ σ.
Proof. split; [split; intros; reflexivity|]. split; [lia|]. split; [lia|apply buf_stable_refl]. Qed.

Lemma sfr_trans σ1 σ2 σ3 : sfr σ1 σ2 -> sfr σ2 σ3 -> sfr σ1 σ3.
Proof.
  intros ((T1 & B1) & LT1 & LB1 & S1) ((T2 & B2) & LT2 & LB2 & S2).
  split; [split|].
  - intros t Ht. rewrite T2, T1 by exact Ht. reflexivity.
  - intros b Hb. rewrite B2, B1 by exact Hb. reflexivity.
  - split; [lia|]. split; [lia|eapply buf_stable_trans; eassumption].
Qed.

Lemma fresh_unshared_sfr σ σ' : fresh_unshared σ -> sfr σ σ' -> fresh_unshared σ'.
Proof.
  intros [Ft Fb] (_ & LT & LB & _). split; [intros t Ht; apply Ft; lia|intros b Hb; apply Fb; lia].
Qed.

(* a write to a non-shared tensor living in a non-shared allocation *)
Lemma wr_sfr t b σ σ' : sh_t t = false -> sh_b b = false -> wr t b σ σ' -> sfr σ σ'.
Proof.
  intros Ht Hb (LT & LB & T & B & St). split; [split|].
  - intros t' Ht'. apply T. congruence.
  - intros b' Hb'. apply B. congruence.
  - split; [lia|]. split; [lia|exact St].
Qed.

(* allocation: the store is extended at the end *)
Definition ext (σ σ' : store) : Prop :=
  exists lb lt, bufs V σ' = bufs V σ ++ lb /\ tens V σ' = tens V σ ++ lt.

Lemma ext_sfr σ σ' : fresh_unshared σ -> ext σ σ' -> sfr σ σ'.
Proof.
  intros [Ft Fb] (lb & lt & Eb & Et). split; [split|].
  - intros t Ht. rewrite Et. apply nth_error_app1.
    destruct (Nat.lt_ge_cases t (length (tens V σ))) as [Hl|Hl]; [exact Hl|].
    rewrite (Ft t Hl) in Ht. discriminate.
  - intros b Hb. unfold get_buf. rewrite Eb. apply app_nth1.
    destruct (Nat.lt_ge_cases b (length (bufs V σ))) as [Hl|Hl]; [exact Hl|].
    rewrite (Fb b Hl) in Hb. discriminate.
  - split; [rewrite Et, app_length; lia|]. split; [rewrite Eb, app_length; lia|].
    intros t d Hd. exists d. split; [|reflexivity]. unfold get_t in *. rewrite Et.
    rewrite nth_error_app1; [exact Hd|]. apply nth_error_Some. congruence.
Qed.

Lemma ext_add_t σ d : ext σ (fst (add_t V σ d)).
Proof. exists [], [d]. cbn. split; [symmetry; apply app_nil_r|reflexivity]. Qed.

Lemma ext_add_buf_t σ l d : ext σ (fst (add_t V (fst (add_buf V σ l)) d)).
Proof. exists [l], [d]. cbn. split; reflexivity. Qed.

Lemma ext_add_buf σ l : ext σ (fst (add_buf V σ l)).
Proof. exists [l], []. cbn. split; [reflexivity|symmetry; apply app_nil_r]. Qed.

(* ---- the allocating operations ---- *)
Lemma m_slice_sfr σ t sl σ' t' : fresh_unshared σ -> m_slice V σ t sl = Ok (σ', t') -> sfr σ σ'.
Proof.
  intros Hf H. unfold m_slice in H. destruct (get_t V σ t) as [d|]; [|discriminate].
  destruct (ap_S (d_ap d) (d_len d) sl) as [[[a' s] e]| |]; try discriminate.
  match type of H with (if ?c then _ else _) = _ => destruct c end; [discriminate|].
  inv H. apply ext_sfr; [exact Hf|]. apply (ext_add_t σ).
Qed.

Lemma m_clone_sfr σ t σ' t' : fresh_unshared σ -> m_clone V σ t = Ok (σ', t') -> sfr σ σ'.
Proof.
  intros Hf H. unfold m_clone in H. destruct (get_t V σ t) as [d|]; [|discriminate].
  cbn in H. inv H. apply ext_sfr; [exact Hf|]. exists [window V σ d], [mkDense (length (bufs V σ)) 0 (d_len d) (d_ap d) (d_old d) false].
  split; reflexivity.
Qed.

(* SafeT: the new tensor is the LAST index and lives in the LAST (fresh) allocation *)
Lemma m_safeT_sfr σ t axes σ' t' : fresh_unshared σ -> m_safeT V σ t axes = Ok (σ', t') ->
  sfr σ σ' /\ t' = length (tens V σ) /\
  exists d', get_t V σ' t' = Some d' /\ d_buf d' = length (bufs V σ).
Proof.
  intros Hf H. unfold m_safeT in H. destruct (get_t V σ t) as [d|]; [|discriminate].
  assert (Hmk : forall tr, Ok (add_t V (fst (add_buf V σ (window V σ d)))
                               (mkDense (snd (add_buf V σ (window V σ d))) 0 (d_len d) tr (Some (d_ap d)) false)) = Ok (σ', t') ->
            sfr σ σ' /\ t' = length (tens V σ) /\
            exists d', get_t V σ' t' = Some d' /\ d_buf d' = length (bufs V σ)).
  { intros tr Hm. cbn in Hm. inv Hm. split; [|split; [reflexivity|]].
    - apply ext_sfr; [exact Hf|]. eexists [_], [_]. split; reflexivity.
    - eexists. split; [unfold get_t; cbn [tens]; apply nth_error_app_last|reflexivity]. }
  destruct (ap_T (d_ap d) axes) as [tr ax| | |]; try discriminate; eapply Hmk; exact H.
Qed.

Lemma m_materialize_sfr σ t σ' t' : fresh_unshared σ -> m_materialize V vzero σ t = Ok (σ', t') -> sfr σ σ'.
Proof.
  intros Hf H. unfold m_materialize in H. destruct (get_t V σ t) as [d|]; [|discriminate].
  destruct (negb (is_materializable d)); [inv H; apply sfr_refl|].
  cbv zeta in H.
  set (n := if is_scalar (shp (d_ap d)) then 1 else size (shp (d_ap d))) in *.
  cbn [add_buf] in H.
  set (σ1 := mkStore V (bufs V σ ++ [repeat vzero (Z.to_nat n)]) (tens V σ)) in *.
  set (nd := mkDense (length (bufs V σ)) 0 n (mkAP (shp (d_ap d)) (calc_strides (shp (d_ap d))) 0 true) None false) in *.
  destruct (copy_dense_iter V σ1 nd d) as [σ2| |] eqn:E; try discriminate. inv H.
  pose proof (copy_dense_iter_only _ _ _ _ E) as Ho.
  assert (H1 : sfr σ σ1).
  { apply ext_sfr; [exact Hf|]. exists [repeat vzero (Z.to_nat n)], []. split; [reflexivity|symmetry; apply app_nil_r]. }
  pose proof (fresh_unshared_sfr _ _ Hf H1) as Hf1.
  assert (H2 : sfr σ1 σ2).
  { apply (wr_sfr (length (tens V σ)) (d_buf nd)); [apply Hf; lia|apply Hf; cbn; lia|].
    apply only_buf_wr. exact Ho. }
  pose proof (fresh_unshared_sfr _ _ Hf1 H2) as Hf2.
  eapply sfr_trans; [exact H1|]. eapply sfr_trans; [exact H2|].
  apply ext_sfr; [exact Hf2|]. apply (ext_add_t σ2).
Qed.

Lemma new_raw_sfr σ cm shp0 data σ' t' : fresh_unshared σ -> new_raw V σ cm shp0 data = Ok (σ', t') ->
  sfr σ σ' /\ t' = length (tens V σ) /\
  exists d', get_t V σ' t' = Some d' /\ d_buf d' = length (bufs V σ).
Proof.
  intros Hf H. unfold new_raw in H.
  destruct (negb (zlen data =? size shp0) && negb (is_scalar shp0)); [discriminate|].
  cbn in H. inv H. split; [|split; [reflexivity|]].
  - apply ext_sfr; [exact Hf|]. eexists [_], [_]. split; reflexivity.
  - eexists. split; [unfold get_t; cbn [tens]; apply nth_error_app_last|reflexivity].
Qed.

Lemma new_cmb_sfr σ shp0 data σ' t' : fresh_unshared σ -> new_cmb V σ shp0 data = Ok (σ', t') -> sfr σ σ'.
Proof.
  intros Hf H. unfold new_cmb in H.
  destruct (new_raw V σ false shp0 data) as [[σ1 t]| |] eqn:E1; try discriminate.
  destruct (new_raw_sfr _ _ _ _ _ _ Hf E1) as (S1 & Et & d1 & Hd1 & Hb1).
  destruct (m_T V σ1 t []) as [σ2| |] eqn:E2; try discriminate.
  destruct (m_transpose V σ2 t) as [σ3| |] eqn:E3; try discriminate.
  destruct (get_t V σ3 t) as [d3|] eqn:E4; [|discriminate]. inv H.
  pose proof (m_T_wr _ _ _ _ _ Hd1 E2) as W2.
  destruct W2 as (LT2 & LB2 & T2 & B2 & St2).
  destruct (St2 _ _ Hd1) as (d2 & Hd2 & Hb2).
  pose proof (m_transpose_wr _ _ _ _ Hd2 E3) as W3. rewrite Hb2 in W3.
  assert (W2 : wr (length (tens V σ)) (d_buf d1) σ1 σ2) by (repeat split; assumption).
  pose proof (wr_trans _ _ _ _ _ W2 W3) as W13.
  assert (W4 : wr (length (tens V σ)) (d_buf d1) σ3
                  (set_t V σ3 (length (tens V σ)) (mkDense (d_buf d3) (d_off d3) (d_len d3)
                      (mkAP shp0 (default_strides CM shp0) CM true) None false))).
  { apply set_t_wr. intros d0 H0. cbn [d_buf]. congruence. }
  pose proof (wr_trans _ _ _ _ _ W13 W4) as W.
  eapply sfr_trans; [exact S1|]. eapply wr_sfr; [| |exact W].
  - apply Hf. lia.
  - rewrite Hb1. apply Hf. lia.
Qed.

Lemma m_api_transpose_sfr σ t axes σ' t' : fresh_unshared σ -> m_api_transpose V σ t axes = Ok (σ', t') -> sfr σ σ'.
Proof.
  intros Hf H. unfold m_api_transpose in H.
  destruct (m_safeT V σ t axes) as [[σ1 t1]| |] eqn:E1; try discriminate.
  destruct (m_transpose V σ1 t1) as [σ2| |] eqn:E2; try discriminate. inv H.
  destruct (m_safeT_sfr _ _ _ _ _ Hf E1) as (S1 & Et & d1 & Hd1 & Hb1).
  eapply sfr_trans; [exact S1|].
  eapply wr_sfr; [| |eapply m_transpose_wr; [exact Hd1|exact E2]].
  - subst t'. apply Hf. lia.
  - rewrite Hb1. apply Hf. lia.
Qed.

(* ---------------------------------------------------------------------------------------- *)
(*  2.a  footprints and the class of operations                                             *)
(* ---------------------------------------------------------------------------------------- *)
(* the tensor whose entry / allocation an operation may write (None: it only reads and allocates) *)
Definition written (o : op) : option nat :=
  match o with
  | OT _ t _ | OUT _ t | OTranspose _ t | OSetAt _ t _ _ | OMemset _ t _ | OZero _ t
  | OReshape _ t _ _ => Some t
  | OCopy _ d _ => Some d
  | ORollAxis _ t _ _ false => Some t          (* the unsafe RollAxis is t.T(axes...) *)
  | ONew _ _ _ _ | OSlice _ _ _ _ | OAt _ _ _ | OClone _ _ | OMaterialize _ _ _ | OSafeT _ _ _
  | ORollAxis _ _ _ _ true | OApiTranspose _ _ _ => None
  end.

(* the class: the written tensor (if any) is not shared and lives in a non-shared allocation.
   Every constructor of Run.op is in the class as soon as this footprint condition holds;
   reads of shared tensors are unrestricted. *)
Definition c18_op (σ : store) (o : op) : Prop :=
  match written o with
  | None => True
  | Some t => sh_t t = false /\ forall d, get_t V σ t = Some d -> sh_b (d_buf d) = false
  end.

Definition c18_opb (σ : store) (o : op) : bool :=
  match written o with
  | None => true
  | Some t => negb (sh_t t) && match get_t V σ t with Some d => negb (sh_b (d_buf d)) | None => true end
  end.

Lemma c18_opb_spec σ o : c18_opb σ o = true <-> c18_op σ o.
Proof.
  unfold c18_opb, c18_op. destruct (written o) as [t|]; [|tauto].
  rewrite andb_true_iff, negb_true_iff. split.
  - intros [Ht Hb]. split; [exact Ht|]. intros d Hd. rewrite Hd in Hb. apply negb_true_iff. exact Hb.
  - intros [Ht Hb]. split; [exact Ht|]. destruct (get_t V σ t) as [d|]; [|reflexivity].
    apply negb_true_iff. apply Hb. reflexivity.
Qed.

(* ---------------------------------------------------------------------------------------- *)
(*  2.b  the frame theorem for one step                                                     *)
(* ---------------------------------------------------------------------------------------- *)
Lemma lift_store_inv σ r σ' out : lift_store V σ r = (σ', out) -> r = Ok σ' \/ σ' = σ.
Proof. destruct r; cbn; intros H; inv H; auto. Qed.

Lemma lift_new_inv σ r σ' out : lift_new V σ r = (σ', out) -> (exists t, r = Ok (σ', t)) \/ σ' = σ.
Proof. destruct r as [[σ1 t]| |]; cbn; intros H; inv H; eauto. Qed.

(* an in-place step on tensor t *)
Lemma writer_sfr σ t r σ' out :
  sh_t t = false -> (forall d, get_t V σ t = Some d -> sh_b (d_buf d) = false) ->
  (forall d, get_t V σ t = Some d -> r = Ok σ' -> wr t (d_buf d) σ σ') ->
  (get_t V σ t = None -> r = Ok σ' -> σ' = σ) ->
  lift_store V σ r = (σ', out) -> sfr σ σ'.
Proof.
  intros Ht Hb Hw Hn H. destruct (lift_store_inv _ _ _ _ H) as [E|E]; [|subst σ'; apply sfr_refl].
  destruct (get_t V σ t) as [d|] eqn:Ed.
  - eapply wr_sfr; [exact Ht|apply (Hb d); reflexivity|apply Hw; [reflexivity|exact E]].
  - rewrite (Hn eq_refl E). apply sfr_refl.
Qed.

Theorem step_model_sfr σ o σ' r :
  fresh_unshared σ -> c18_op σ o -> step_model V vzero σ o = (σ', r) -> sfr σ σ'.
Proof.
  intros Hf Hc H. destruct o; unfold c18_op in Hc; cbn [written] in Hc; cbn [step_model] in H.
  - (* ONew *)
    destruct (order =? 2).
    + destruct (lift_new_inv _ _ _ _ H) as [[t E]|E]; [|subst; apply sfr_refl]. eapply new_cmb_sfr; eassumption.
    + destruct (lift_new_inv _ _ _ _ H) as [[t E]|E]; [|subst; apply sfr_refl].
      eapply new_raw_sfr; eassumption.
  - (* OSlice *)
    destruct (lift_new_inv _ _ _ _ H) as [[t' E]|E]; [|subst; apply sfr_refl]. eapply m_slice_sfr; eassumption.
  - (* OT *)
    destruct Hc as [Ht Hb]. eapply writer_sfr; [exact Ht|exact Hb| | |exact H].
    + intros d Hd E. eapply m_T_wr; eassumption.
    + intros Hn E. unfold m_T in E. rewrite Hn in E. discriminate.
  - (* OUT *)
    destruct Hc as [Ht Hb]. eapply writer_sfr; [exact Ht|exact Hb| | |exact H].
    + intros d Hd E. eapply m_UT_wr; eassumption.
    + intros Hn E. unfold m_UT in E. rewrite Hn in E. discriminate.
  - (* OTranspose *)
    destruct Hc as [Ht Hb]. eapply writer_sfr; [exact Ht|exact Hb| | |exact H].
    + intros d Hd E. eapply m_transpose_wr; eassumption.
    + intros Hn E. unfold m_transpose in E. rewrite Hn in E. discriminate.
  - (* OAt *)
    destruct (m_at V σ t c); inv H; apply sfr_refl.
  - (* OSetAt *)
    destruct Hc as [Ht Hb]. eapply writer_sfr; [exact Ht|exact Hb| | |exact H].
    + intros d Hd E. eapply m_setat_wr; eassumption.
    + intros Hn E. unfold m_setat in E. rewrite Hn in E. discriminate.
  - (* OMemset *)
    destruct Hc as [Ht Hb]. eapply writer_sfr; [exact Ht|exact Hb| | |exact H].
    + intros d Hd E. eapply m_memset_wr; eassumption.
    + intros Hn E. unfold m_memset in E. rewrite Hn in E. discriminate.
  - (* OZero *)
    destruct Hc as [Ht Hb]. eapply writer_sfr; [exact Ht|exact Hb| | |exact H].
    + intros d Hd E. eapply m_zero_wr; eassumption.
    + intros Hn E. unfold m_zero in E. rewrite Hn in E. discriminate.
  - (* OClone *)
    destruct (lift_new_inv _ _ _ _ H) as [[t' E]|E]; [|subst; apply sfr_refl]. eapply m_clone_sfr; eassumption.
  - (* OMaterialize *)
    destruct (lift_new_inv _ _ _ _ H) as [[t' E]|E]; [|subst; apply sfr_refl]. eapply m_materialize_sfr; eassumption.
  - (* OCopy *)
    destruct Hc as [Ht Hb]. eapply writer_sfr; [exact Ht|exact Hb| | |exact H].
    + intros d Hd E. eapply m_copy_wr; eassumption.
    + intros Hn E. unfold m_copy in E. rewrite Hn in E. discriminate.
  - (* OSafeT *)
    destruct (lift_new_inv _ _ _ _ H) as [[t' E]|E]; [|subst; apply sfr_refl].
    eapply m_safeT_sfr; eassumption.
  - (* ORollAxis *)
    destruct (lift_new_inv _ _ _ _ H) as [[t' E]|E]; [|subst; apply sfr_refl].
    unfold m_rollaxis in E. destruct (get_t V σ t) as [d|] eqn:Ed; [|discriminate].
    destruct (negb ((0 <=? axis) && (axis <? zlen (shp (d_ap d))))); [discriminate|].
    destruct (negb ((0 <=? start0) && (start0 <=? zlen (shp (d_ap d))))); [discriminate|].
    cbv zeta in E.
    match type of E with (if ?c then _ else _) = _ => destruct c end; [inv E; apply sfr_refl|].
    destruct safe.
    + eapply m_safeT_sfr; eassumption.
    + destruct Hc as [Ht Hb].
      match type of E with match ?m with _ => _ end = _ => destruct m as [σ1| |] eqn:ET end; try discriminate.
      inv E. eapply wr_sfr; [exact Ht|exact (Hb d Ed)|eapply m_T_wr; eassumption].
  - (* OApiTranspose *)
    destruct (lift_new_inv _ _ _ _ H) as [[t' E]|E]; [|subst; apply sfr_refl]. eapply m_api_transpose_sfr; eassumption.
  - (* OReshape *)
    destruct Hc as [Ht Hb].
    destruct (m_reshape V σ t dims) as [[σ1 rf]| |] eqn:E; inv H; try apply sfr_refl.
    destruct (get_t V σ t) as [d|] eqn:Ed.
    + eapply wr_sfr; [exact Ht|apply (Hb d); reflexivity|eapply m_reshape_wr; eassumption].
    + unfold m_reshape in E. rewrite Ed in E. discriminate.
Qed.

(* the statement asked for: shared tensors and shared allocations are untouched *)
Theorem step_model_shared_frame σ o σ' r :
  fresh_unshared σ -> c18_op σ o -> step_model V vzero σ o = (σ', r) -> shared_frame σ σ'.
Proof. intros Hf Hc H. exact (proj1 (step_model_sfr σ o σ' r Hf Hc H)). Qed.

(* ... and the side conditions survive the step, so the theorem can be iterated:
   fresh indices stay non-shared, and the footprint of any later operation on a tensor that
   already exists is still valid (tensors never change allocation) *)
Theorem step_model_keeps_conditions σ o σ' r :
  fresh_unshared σ -> c18_op σ o -> step_model V vzero σ o = (σ', r) ->
  fresh_unshared σ' /\
  forall o', c18_op σ o' -> (forall t, written o' = Some t -> (t < length (tens V σ))%nat) -> c18_op σ' o'.
Proof.
  intros Hf Hc H. pose proof (step_model_sfr σ o σ' r Hf Hc H) as Hs.
  split; [eapply fresh_unshared_sfr; eassumption|].
  intros o' Hc' Hlt. unfold c18_op in *. destruct (written o') as [t|]; [|exact I].
  destruct Hc' as [Ht Hb]. split; [exact Ht|]. intros d' Hd'.
  specialize (Hlt t eq_refl). destruct (get_t V σ t) as [d|] eqn:Ed.
  - destruct Hs as (_ & _ & _ & St). destruct (St t d Ed) as (d2 & Hd2 & Hb2).
    assert (d2 = d') by congruence. subst d2. rewrite Hb2. apply Hb. reflexivity.
  - unfold get_t in Ed. apply nth_error_None in Ed. lia.
Qed.

(* a whole program of one thread *)
Fixpoint run_ops (σ : store) (os : list op) : store * list (outcome V) :=
  match os with
  | [] => (σ, [])
  | o :: r => let '(σ1, x) := step_model V vzero σ o in
              let '(σ2, xs) := run_ops σ1 r in (σ2, x :: xs)
  end.

(* every operation is in the class in the state in which it is executed *)
Fixpoint c18_prog (σ : store) (os : list op) : Prop :=
  match os with
  | [] => True
  | o :: r => c18_op σ o /\ c18_prog (fst (step_model V vzero σ o)) r
  end.

Theorem run_ops_shared_frame : forall os σ,
  fresh_unshared σ -> c18_prog σ os -> shared_frame σ (fst (run_ops σ os)).
Proof.
  assert (H : forall os σ, fresh_unshared σ -> c18_prog σ os -> sfr σ (fst (run_ops σ os))).
  { induction os as [|o r IH]; intros σ Hf Hc; cbn [run_ops]; [apply sfr_refl|].
    destruct Hc as [Ho Hr]. destruct (step_model V vzero σ o) as [σ1 x] eqn:E. cbn [fst] in Hr.
    pose proof (step_model_sfr _ _ _ _ Hf Ho E) as S1.
    specialize (IH σ1 (fresh_unshared_sfr _ _ Hf S1) Hr).
    destruct (run_ops σ1 r) as [σ2 xs]. cbn [fst] in *. eapply sfr_trans; eassumption. }
  intros os σ Hf Hc. exact (proj1 (H os σ Hf Hc)).
Qed.

(* ---------------------------------------------------------------------------------------- *)
(*  2.c  what a read returns depends only on what it reads                                  *)
(* ---------------------------------------------------------------------------------------- *)
(* σ1 and σ2 agree on tensor t: same entry, same contents of the allocation it lives in *)
Definition agree_on (σ1 σ2 : store) (t : nat) : Prop :=
  get_t V σ1 t = get_t V σ2 t /\
  forall d, get_t V σ1 t = Some d -> get_buf V σ1 (d_buf d) = get_buf V σ2 (d_buf d).

Lemma agree_on_sym σ1 σ2 t : agree_on σ1 σ2 t -> agree_on σ2 σ1 t.
Proof. intros [E B]. split; [symmetry; exact E|]. intros d Hd. symmetry. apply B. congruence. Qed.

Lemma win_get_buf σ1 σ2 d i : get_buf V σ1 (d_buf d) = get_buf V σ2 (d_buf d) -> win_get V σ1 d i = win_get V σ2 d i.
Proof. intros E. unfold win_get. rewrite E. reflexivity. Qed.

Lemma window_buf σ1 σ2 d : get_buf V σ1 (d_buf d) = get_buf V σ2 (d_buf d) -> window V σ1 d = window V σ2 d.
Proof. intros E. unfold window. rewrite E. reflexivity. Qed.

Theorem m_at_read_determined σ1 σ2 t c : agree_on σ1 σ2 t -> m_at V σ1 t c = m_at V σ2 t c.
Proof.
  intros [E B]. unfold m_at. rewrite <- E. destruct (get_t V σ1 t) as [d|]; [|reflexivity].
  destruct (at_index (shp (d_ap d)) (str (d_ap d)) c) as [i| |]; try reflexivity.
  rewrite (win_get_buf σ1 σ2 d i (B d eq_refl)). reflexivity.
Qed.

(* OAt: the store is returned unchanged and the outcome is a function of what was read *)
Theorem step_model_read_determined σ1 σ2 t c : agree_on σ1 σ2 t ->
  snd (step_model V vzero σ1 (OAt V t c)) = snd (step_model V vzero σ2 (OAt V t c)) /\
  fst (step_model V vzero σ1 (OAt V t c)) = σ1 /\ fst (step_model V vzero σ2 (OAt V t c)) = σ2.
Proof.
  intros Ha. cbn [step_model]. rewrite (m_at_read_determined σ1 σ2 t c Ha).
  destruct (m_at V σ2 t c); cbn; auto.
Qed.

(* the whole logical content (every coordinate) *)
Theorem logical_read_determined σ1 σ2 t : agree_on σ1 σ2 t -> logical V σ1 t = logical V σ2 t.
Proof.
  intros Ha. unfold logical. rewrite <- (proj1 Ha).
  destruct (get_t V σ1 t) as [d|]; [|reflexivity].
  apply map_ext. intros c. apply m_at_read_determined. exact Ha.
Qed.

(* allocation of one tensor in one fresh allocation: the new dense value is `mk` applied to the
   fresh allocation id; only the two fresh indices depend on the rest of the store *)
Definition alloc_new (σ : store) (l : list V) (mk : nat -> dense) : store * nat :=
  add_t V (fst (add_buf V σ l)) (mk (length (bufs V σ))).

(* OSlice: the same new dense value (a view of the same allocation), or the same failure *)
Theorem slice_read_determined σ1 σ2 t sl : agree_on σ1 σ2 t ->
  (exists nd, m_slice V σ1 t sl = Ok (add_t V σ1 nd) /\ m_slice V σ2 t sl = Ok (add_t V σ2 nd)) \/
  (m_slice V σ1 t sl = Err /\ m_slice V σ2 t sl = Err) \/
  (m_slice V σ1 t sl = Panic /\ m_slice V σ2 t sl = Panic).
Proof.
  intros [E B]. unfold m_slice. rewrite <- E. destruct (get_t V σ1 t) as [d|]; [|right; right; split; reflexivity].
  rewrite <- (B d eq_refl).
  destruct (ap_S (d_ap d) (d_len d) sl) as [[[a' s] e]| |]; [|right; left; split; reflexivity|right; right; split; reflexivity].
  match goal with |- context [if ?c then _ else _] => destruct c end.
  - right; right; split; reflexivity.
  - left. eexists. split; reflexivity.
Qed.

(* OClone / OSafeT: a fresh allocation with the same contents, the same metadata *)
Theorem clone_read_determined σ1 σ2 t : agree_on σ1 σ2 t ->
  (exists l mk, (forall b, d_buf (mk b) = b) /\
                m_clone V σ1 t = Ok (alloc_new σ1 l mk) /\ m_clone V σ2 t = Ok (alloc_new σ2 l mk)) \/
  (m_clone V σ1 t = Panic /\ m_clone V σ2 t = Panic).
Proof.
  intros [E B]. unfold m_clone. rewrite <- E. destruct (get_t V σ1 t) as [d|]; [|right; split; reflexivity].
  left. exists (window V σ1 d), (fun b => mkDense b 0 (d_len d) (d_ap d) (d_old d) false).
  split; [reflexivity|]. rewrite <- (window_buf σ1 σ2 d (B d eq_refl)). split; reflexivity.
Qed.

Theorem safeT_read_determined σ1 σ2 t axes : agree_on σ1 σ2 t ->
  (exists l mk, (forall b, d_buf (mk b) = b) /\
                m_safeT V σ1 t axes = Ok (alloc_new σ1 l mk) /\ m_safeT V σ2 t axes = Ok (alloc_new σ2 l mk)) \/
  (m_safeT V σ1 t axes = Err /\ m_safeT V σ2 t axes = Err) \/
  (m_safeT V σ1 t axes = Panic /\ m_safeT V σ2 t axes = Panic).
Proof.
  intros [E B]. unfold m_safeT. rewrite <- E. destruct (get_t V σ1 t) as [d|]; [|right; right; split; reflexivity].
  rewrite <- (window_buf σ1 σ2 d (B d eq_refl)).
  destruct (ap_T (d_ap d) axes) as [tr ax| | |].
  - left. exists (window V σ1 d), (fun b => mkDense b 0 (d_len d) tr (Some (d_ap d)) false).
    split; [reflexivity|]. split; reflexivity.
  - left. exists (window V σ1 d), (fun b => mkDense b 0 (d_len d) (d_ap d) (Some (d_ap d)) false).
    split; [reflexivity|]. split; reflexivity.
  - right; left; split; reflexivity.
  - right; right; split; reflexivity.
Qed.

(* ---------------------------------------------------------------------------------------- *)
(*  2.d  a read of a shared tensor commutes with any class step of another thread           *)
(* ---------------------------------------------------------------------------------------- *)
(* t is a shared tensor living in a shared allocation *)
Definition shared_tensor (σ : store) (t : nat) : Prop :=
  sh_t t = true /\ forall d, get_t V σ t = Some d -> sh_b (d_buf d) = true.

Lemma shared_frame_agree_on σ σ' t : shared_tensor σ t -> shared_frame σ σ' -> agree_on σ σ' t.
Proof.
  intros [Ht Hb] [T B]. split; [unfold get_t; symmetry; apply T; exact Ht|].
  intros d Hd. symmetry. apply B. apply (Hb d Hd).
Qed.

(* the value read is the same before and after the other thread's step *)
Theorem read_stable_under_step σ o2 σ' r2 t c :
  fresh_unshared σ -> c18_op σ o2 -> shared_tensor σ t ->
  step_model V vzero σ o2 = (σ', r2) ->
  m_at V σ' t c = m_at V σ t c /\ logical V σ' t = logical V σ t.
Proof.
  intros Hf Hc Hs H.
  pose proof (shared_frame_agree_on σ σ' t Hs (step_model_shared_frame _ _ _ _ Hf Hc H)) as Ha.
  split; symmetry; [apply m_at_read_determined|apply logical_read_determined]; exact Ha.
Qed.

(* two-step commutation: reader first or writer first — same final store, same two outcomes *)
Theorem readers_commute σ o2 t c :
  fresh_unshared σ -> c18_op σ o2 -> shared_tensor σ t ->
  let '(σa, ra) := step_model V vzero σ (OAt V t c) in      (* thread 1 reads, then thread 2 steps *)
  let '(σab, rb) := step_model V vzero σa o2 in
  let '(σb, rb') := step_model V vzero σ o2 in              (* thread 2 steps, then thread 1 reads *)
  let '(σba, ra') := step_model V vzero σb (OAt V t c) in
  σab = σba /\ ra = ra' /\ rb = rb'.
Proof.
  intros Hf Hc Hs.
  destruct (step_model V vzero σ (OAt V t c)) as [σa ra] eqn:Ea.
  destruct (step_model V vzero σa o2) as [σab rb] eqn:Eab.
  destruct (step_model V vzero σ o2) as [σb rb'] eqn:Eb.
  destruct (step_model V vzero σb (OAt V t c)) as [σba ra'] eqn:Eba.
  pose proof (shared_frame_agree_on σ σb t Hs (step_model_shared_frame _ _ _ _ Hf Hc Eb)) as Ha.
  destruct (step_model_read_determined σ σb t c Ha) as (Hr & H1 & H2).
  rewrite Ea in Hr, H1. rewrite Eba in Hr, H2. cbn [fst snd] in *. subst σa σba.
  rewrite Eb in Eab. inv Eab. auto.
Qed.

(* the same for a whole program of the other thread *)
Theorem read_stable_under_program σ os t c :
  fresh_unshared σ -> c18_prog σ os -> shared_tensor σ t ->
  m_at V (fst (run_ops σ os)) t c = m_at V σ t c.
Proof.
  intros Hf Hc Hs. symmetry. apply m_at_read_determined.
  apply shared_frame_agree_on; [exact Hs|]. apply run_ops_shared_frame; assumption.
Qed.

End Layer2.

(* ====================================================================================== *)
(*  LAYER 2' : non-interference on the store model, for the operations that do not        *)
(*  allocate.  (Allocation picks the next free index of the ONE global store, so the      *)
(*  index a thread gets back depends on the interleaving; results of allocating steps are *)
(*  equal only up to that renaming — see 2.c — and are not part of this layer.)           *)
(* ====================================================================================== *)
Section Layer2NI.
Variable V : Type.
Variable vzero : V.

Notation store := (Mem.store V).
Notation op := (Run.op V).

Ltac inv H := inversion H; subst; clear H.

Definition orel {A} (R : A -> A -> Prop) (x y : option A) : Prop :=
  match x, y with Some a, Some b => R a b | None, None => True | _, _ => False end.

Definition rrel {A} (R : A -> A -> Prop) (x y : res A) : Prop :=
  match x, y with Ok a, Ok b => R a b | Err, Err => True | Panic, Panic => True | _, _ => False end.

Section Agree.
Variables Pt Pb : nat -> Prop.      (* the tensor indices / allocation ids under consideration *)

Definition agree (σ1 σ2 : store) : Prop :=
  (forall t, Pt t -> get_t V σ1 t = get_t V σ2 t) /\
  (forall b, Pb b -> get_buf V σ1 b = get_buf V σ2 b).

Lemma agree_refl σ : agree σ σ.
Proof. split; intros; reflexivity. Qed.

Lemma agree_sym σ1 σ2 : agree σ1 σ2 -> agree σ2 σ1.
Proof. intros [T B]. split; intros x Hx; symmetry; auto. Qed.

Lemma agree_trans σ1 σ2 σ3 : agree σ1 σ2 -> agree σ2 σ3 -> agree σ1 σ3.
Proof. intros [T1 B1] [T2 B2]. split; intros x Hx; [rewrite T1, T2|rewrite B1, B2]; auto. Qed.

Lemma zset_set_buf (σ : store) b p v l : zset (get_buf V σ b) p v = Some l -> get_buf V (set_buf V σ b l) b = l.
Proof.
  unfold zset. destruct ((p <? 0) || (zlen (get_buf V σ b) <=? p)); [discriminate|]. intros H. inv H.
  unfold get_buf, set_buf. cbn [bufs]. apply upd_nil_nth.
Qed.

Lemma set_buf_agree σ1 σ2 b p v l : agree σ1 σ2 ->
  zset (get_buf V σ1 b) p v = Some l -> zset (get_buf V σ2 b) p v = Some l ->
  agree (set_buf V σ1 b l) (set_buf V σ2 b l).
Proof.
  intros [T B] Z1 Z2. split; [intros t Ht; exact (T t Ht)|].
  intros b' Hb'. destruct (Nat.eq_dec b' b) as [E|E].
  - subst b'. rewrite (zset_set_buf _ _ _ _ _ Z1), (zset_set_buf _ _ _ _ _ Z2). reflexivity.
  - unfold get_buf, set_buf. cbn [bufs]. rewrite !nth_upd_other by congruence. exact (B b' Hb').
Qed.

Lemma win_set_agree σ1 σ2 d i v : agree σ1 σ2 -> Pb (d_buf d) ->
  orel agree (win_set V σ1 d i v) (win_set V σ2 d i v).
Proof.
  intros Ha Hd. pose proof (proj2 Ha _ Hd) as E. unfold win_set.
  destruct ((i <? 0) || (d_len d <=? i)); [exact I|]. rewrite <- E.
  destruct (zset (get_buf V σ1 (d_buf d)) (d_off d + i) v) as [l|] eqn:Z; [|exact I].
  cbn [orel]. eapply set_buf_agree; [exact Ha|exact Z|rewrite <- E; exact Z].
Qed.

Lemma cap_set_agree σ1 σ2 d i v : agree σ1 σ2 -> Pb (d_buf d) ->
  orel agree (cap_set V σ1 d i v) (cap_set V σ2 d i v).
Proof.
  intros Ha Hd. pose proof (proj2 Ha _ Hd) as E. unfold cap_set.
  destruct (i <? 0); [exact I|]. rewrite <- E.
  destruct (zset (get_buf V σ1 (d_buf d)) (d_off d + i) v) as [l|] eqn:Z; [|exact I].
  cbn [orel]. eapply set_buf_agree; [exact Ha|exact Z|rewrite <- E; exact Z].
Qed.

Lemma win_get_agree σ1 σ2 d i : agree σ1 σ2 -> Pb (d_buf d) -> win_get V σ1 d i = win_get V σ2 d i.
Proof. intros Ha Hd. unfold win_get. rewrite (proj2 Ha _ Hd). reflexivity. Qed.

Lemma cap_get_agree σ1 σ2 d i : agree σ1 σ2 -> Pb (d_buf d) -> cap_get V σ1 d i = cap_get V σ2 d i.
Proof. intros Ha Hd. unfold cap_get. rewrite (proj2 Ha _ Hd). reflexivity. Qed.

Lemma window_agree σ1 σ2 d : agree σ1 σ2 -> Pb (d_buf d) -> window V σ1 d = window V σ2 d.
Proof. intros Ha Hd. unfold window. rewrite (proj2 Ha _ Hd). reflexivity. Qed.

Lemma win_gather_agree σ1 σ2 d : agree σ1 σ2 -> Pb (d_buf d) ->
  forall idx, win_gather V σ1 d idx = win_gather V σ2 d idx.
Proof.
  intros Ha Hd. induction idx as [|i r IH]; cbn [win_gather]; [reflexivity|].
  rewrite IH, (win_get_agree σ1 σ2 d i Ha Hd). reflexivity.
Qed.

Lemma win_fill_agree d v : Pb (d_buf d) -> forall idx σ1 σ2, agree σ1 σ2 ->
  orel agree (win_fill V σ1 d idx v) (win_fill V σ2 d idx v).
Proof.
  intros Hd. induction idx as [|i r IH]; intros σ1 σ2 Ha; cbn [win_fill]; [exact Ha|].
  pose proof (win_set_agree σ1 σ2 d i v Ha Hd) as H.
  destruct (win_set V σ1 d i v) as [a|], (win_set V σ2 d i v) as [b|]; cbn [orel] in H; try contradiction.
  - apply IH. exact H.
  - exact I.
Qed.

Lemma win_scatter_agree d : Pb (d_buf d) -> forall idx vs σ1 σ2, agree σ1 σ2 ->
  orel agree (win_scatter V σ1 d idx vs) (win_scatter V σ2 d idx vs).
Proof.
  intros Hd. induction idx as [|i r IH]; intros vs σ1 σ2 Ha; cbn [win_scatter]; [exact Ha|].
  destruct vs as [|v vs]; [exact Ha|].
  pose proof (win_set_agree σ1 σ2 d i v Ha Hd) as H.
  destruct (win_set V σ1 d i v) as [a|], (win_set V σ2 d i v) as [b|]; cbn [orel] in H; try contradiction.
  - apply IH. exact H.
  - exact I.
Qed.

Lemma copy_seq_agree dst src : Pb (d_buf dst) -> Pb (d_buf src) -> forall di si σ1 σ2, agree σ1 σ2 ->
  orel agree (copy_seq V σ1 dst src di si) (copy_seq V σ2 dst src di si).
Proof.
  intros Hd Hs. induction di as [|i di IH]; intros si σ1 σ2 Ha; cbn [copy_seq]; [exact Ha|].
  destruct si as [|j si]; [exact Ha|].
  rewrite <- (cap_get_agree σ1 σ2 src j Ha Hs).
  destruct (cap_get V σ1 src j) as [v|]; [|exact I].
  pose proof (cap_set_agree σ1 σ2 dst i v Ha Hd) as H.
  destruct (cap_set V σ1 dst i v) as [a|], (cap_set V σ2 dst i v) as [b|]; cbn [orel] in H; try contradiction.
  - apply IH. exact H.
  - exact I.
Qed.

Lemma copy_raw_agree σ1 σ2 dst src : agree σ1 σ2 -> Pb (d_buf dst) -> Pb (d_buf src) ->
  rrel agree (copy_raw V σ1 dst src) (copy_raw V σ2 dst src).
Proof.
  intros Ha Hd Hs. unfold copy_raw. rewrite <- (window_agree σ1 σ2 src Ha Hs).
  pose proof (win_scatter_agree dst Hd (zseq 0 (Z.to_nat (Z.min (d_len dst) (d_len src)))) (window V σ1 src) σ1 σ2 Ha) as H.
  destruct (win_scatter V σ1 dst _ _) as [a|], (win_scatter V σ2 dst _ _) as [b|]; cbn [orel] in H; try contradiction;
    cbn [rrel]; auto.
Qed.

Lemma copy_iter_agree σ1 σ2 dst src : agree σ1 σ2 -> Pb (d_buf dst) -> Pb (d_buf src) ->
  rrel agree (copy_iter V σ1 dst src) (copy_iter V σ2 dst src).
Proof.
  intros Ha Hd Hs. unfold copy_iter.
  destruct (iter_all (d_ap dst)) as [di|]; [|exact I].
  destruct (iter_all (d_ap src)) as [si|]; [|exact I].
  pose proof (copy_seq_agree dst src Hd Hs di si σ1 σ2 Ha) as H.
  destruct (copy_seq V σ1 dst src di si) as [a|], (copy_seq V σ2 dst src di si) as [b|]; cbn [orel] in H;
    try contradiction; cbn [rrel]; auto.
Qed.

Lemma copy_dense_iter_agree σ1 σ2 dst src : agree σ1 σ2 -> Pb (d_buf dst) -> Pb (d_buf src) ->
  rrel agree (copy_dense_iter V σ1 dst src) (copy_dense_iter V σ2 dst src).
Proof.
  intros Ha Hd Hs. unfold copy_dense_iter.
  destruct (negb (requires_iterator dst) && negb (requires_iterator src)
            && has_same_order (ord (d_ap dst)) (ord (d_ap src))).
  - apply copy_raw_agree; assumption.
  - apply copy_iter_agree; assumption.
Qed.

Definition agree_d (x y : store * dense) : Prop := agree (fst x) (fst y) /\ snd x = snd y.

Lemma transpose_d_agree σ1 σ2 d : agree σ1 σ2 -> Pb (d_buf d) ->
  rrel agree_d (m_transpose_d V σ1 d) (m_transpose_d V σ2 d).
Proof.
  intros Ha Hd. unfold m_transpose_d.
  destruct (d_old d) as [o|]; [|split; [exact Ha|reflexivity]].
  destruct (is_scalar (shp (d_ap d))); [split; [exact Ha|reflexivity]|].
  cbv zeta.
  destruct (is_vector (shp (d_ap d))); [split; [exact Ha|reflexivity]|].
  destruct (iter_all (d_ap d)) as [idx|]; [|exact I].
  rewrite <- (win_gather_agree σ1 σ2 d Ha Hd idx).
  destruct (win_gather V σ1 d idx) as [tmp|]; [|exact I].
  pose proof (win_scatter_agree d Hd (zseq 0 (Z.to_nat (Z.min (d_len d) (zlen tmp)))) tmp σ1 σ2 Ha) as H.
  destruct (win_scatter V σ1 d _ tmp) as [a|], (win_scatter V σ2 d _ tmp) as [b|]; cbn [orel] in H;
    try contradiction; cbn [rrel]; [|exact I].
  split; [exact H|reflexivity].
Qed.

Lemma set_t_agree σ1 σ2 t d1 d2 d' : agree σ1 σ2 -> get_t V σ1 t = Some d1 -> get_t V σ2 t = Some d2 ->
  agree (set_t V σ1 t d') (set_t V σ2 t d').
Proof.
  intros [T B] H1 H2. split; [|intros b Hb; exact (B b Hb)].
  intros t' Ht'. destruct (Nat.eq_dec t' t) as [E|E].
  - subst t'. rewrite (get_t_set_t_same V _ _ _ d' H1), (get_t_set_t_same V _ _ _ d' H2). reflexivity.
  - rewrite !get_t_set_t_other by exact E. exact (T t' Ht').
Qed.

(* only_buf keeps every tensor entry *)
Lemma only_buf_get_t b (σ σ' : store) t : only_buf V b σ σ' -> get_t V σ' t = get_t V σ t.
Proof. intros (T & _ & _). unfold get_t. rewrite T. reflexivity. Qed.

(* ---- the in-place operations, relationally: t visible, its allocation visible ---- *)
Section OneTensor.
Variables (σ1 σ2 : store) (t : nat) (d : dense).
Variable Ha : agree σ1 σ2.
Variable H1 : get_t V σ1 t = Some d.
Variable H2 : get_t V σ2 t = Some d.
Variable Hd : Pb (d_buf d).

Lemma m_at_agree c : m_at V σ1 t c = m_at V σ2 t c.
Proof.
  unfold m_at. rewrite H1, H2.
  destruct (at_index (shp (d_ap d)) (str (d_ap d)) c) as [i| |]; try reflexivity.
  rewrite (win_get_agree σ1 σ2 d i Ha Hd). reflexivity.
Qed.

Lemma m_setat_agree c v : rrel agree (m_setat V σ1 t c v) (m_setat V σ2 t c v).
Proof.
  unfold m_setat. rewrite H1, H2.
  destruct (at_index (shp (d_ap d)) (str (d_ap d)) c) as [i| |]; try exact I.
  pose proof (win_set_agree σ1 σ2 d i v Ha Hd) as H.
  destruct (win_set V σ1 d i v) as [a|], (win_set V σ2 d i v) as [b|]; cbn [orel] in H; try contradiction;
    cbn [rrel]; auto.
Qed.

Lemma fill_agree idx v :
  rrel agree (match win_fill V σ1 d idx v with Some σ' => Ok σ' | None => Panic end)
             (match win_fill V σ2 d idx v with Some σ' => Ok σ' | None => Panic end).
Proof.
  pose proof (win_fill_agree d v Hd idx σ1 σ2 Ha) as H.
  destruct (win_fill V σ1 d idx v) as [a|], (win_fill V σ2 d idx v) as [b|]; cbn [orel] in H; try contradiction;
    cbn [rrel]; auto.
Qed.

Lemma m_memset_agree v : rrel agree (m_memset V σ1 t v) (m_memset V σ2 t v).
Proof.
  unfold m_memset. rewrite H1, H2. destruct (is_materializable d).
  - destruct (iter_all (d_ap d)) as [idx|]; [apply fill_agree|exact I].
  - apply fill_agree.
Qed.

Lemma m_zero_agree : rrel agree (m_zero V vzero σ1 t) (m_zero V vzero σ2 t).
Proof.
  unfold m_zero. rewrite H1, H2. destruct (is_materializable d).
  - destruct (iter_all (d_ap d)) as [idx|]; [apply fill_agree|exact I].
  - apply fill_agree.
Qed.

(* transpose_d followed by a metadata update computed from the returned dense *)
Lemma transpose_then_set (f : dense -> dense) :
  rrel agree (match m_transpose_d V σ1 d with Ok (σ', d') => Ok (set_t V σ' t (f d')) | Err => Err | Panic => Panic end)
             (match m_transpose_d V σ2 d with Ok (σ', d') => Ok (set_t V σ' t (f d')) | Err => Err | Panic => Panic end).
Proof.
  pose proof (transpose_d_agree σ1 σ2 d Ha Hd) as H.
  destruct (m_transpose_d V σ1 d) as [[a da]| |] eqn:E1, (m_transpose_d V σ2 d) as [[b db]| |] eqn:E2;
    cbn [rrel] in H; try contradiction; try exact I.
  destruct H as [Hab Hdd]. cbn [fst snd] in Hab, Hdd. subst db. cbn [rrel].
  destruct (transpose_d_only V _ _ _ _ E1) as [O1 _]. destruct (transpose_d_only V _ _ _ _ E2) as [O2 _].
  eapply set_t_agree; [exact Hab| |].
  - rewrite (only_buf_get_t _ _ _ t O1). exact H1.
  - rewrite (only_buf_get_t _ _ _ t O2). exact H2.
Qed.

Lemma m_transpose_agree : rrel agree (m_transpose V σ1 t) (m_transpose V σ2 t).
Proof. unfold m_transpose. rewrite H1, H2. apply (transpose_then_set (fun d' => d')). Qed.

Lemma m_UT_agree : rrel agree (m_UT V σ1 t) (m_UT V σ2 t).
Proof. unfold m_UT. rewrite H1, H2. cbn [rrel]. eapply set_t_agree; eassumption. Qed.

Lemma m_T_agree axes : rrel agree (m_T V σ1 t axes) (m_T V σ2 t axes).
Proof.
  unfold m_T. rewrite H1, H2.
  destruct (ap_T (d_ap d) axes) as [tr ax| | |]; try exact I; [|exact Ha].
  destruct (d_old d) as [o|]; [|cbn [rrel]; eapply set_t_agree; eassumption].
  destruct (is_vector (shp (d_ap d))); [cbn [rrel]; eapply set_t_agree; eassumption|].
  destruct (prefix_eqb (shp tr) (shp o)) as [[|]|]; try exact I.
  - cbn [rrel]. eapply set_t_agree; eassumption.
  - apply (transpose_then_set (fun d' => mkDense (d_buf d') (d_off d') (d_len d') tr (Some (d_ap d')) (d_view d'))).
Qed.

Definition agree_b (x y : store * bool) : Prop := agree (fst x) (fst y) /\ snd x = snd y.

Lemma m_reshape_agree dims : rrel agree_b (m_reshape V σ1 t dims) (m_reshape V σ2 t dims).
Proof.
  unfold m_reshape. rewrite H1, H2.
  destruct (negb (size (shp (d_ap d)) =? size dims)); [split; [exact Ha|reflexivity]|].
  destruct (d_view d && is_nc (ord (d_ap d))); [split; [exact Ha|reflexivity]|].
  assert (H : rrel agree_d (if is_some (d_old d) then m_transpose_d V σ1 d else Ok (σ1, d))
                           (if is_some (d_old d) then m_transpose_d V σ2 d else Ok (σ2, d))).
  { destruct (is_some (d_old d)); [apply transpose_d_agree; assumption|split; [exact Ha|reflexivity]]. }
  assert (G1 : forall a da, (if is_some (d_old d) then m_transpose_d V σ1 d else Ok (σ1, d)) = Ok (a, da) -> get_t V a t = Some d).
  { intros a da E. destruct (is_some (d_old d)).
    - destruct (transpose_d_only V _ _ _ _ E) as [O1 _]. rewrite (only_buf_get_t _ _ _ t O1). exact H1.
    - inv E. exact H1. }
  assert (G2 : forall a da, (if is_some (d_old d) then m_transpose_d V σ2 d else Ok (σ2, d)) = Ok (a, da) -> get_t V a t = Some d).
  { intros a da E. destruct (is_some (d_old d)).
    - destruct (transpose_d_only V _ _ _ _ E) as [O1 _]. rewrite (only_buf_get_t _ _ _ t O1). exact H2.
    - inv E. exact H2. }
  destruct (if is_some (d_old d) then m_transpose_d V σ1 d else Ok (σ1, d)) as [[a da]| |] eqn:E1,
           (if is_some (d_old d) then m_transpose_d V σ2 d else Ok (σ2, d)) as [[b db]| |] eqn:E2;
    cbn [rrel] in H; try contradiction; try exact I.
  destruct H as [Hab Hdd]. cbn [fst snd] in Hab, Hdd. subst db. cbv zeta.
  match goal with |- context [if ?c then _ else _] => destruct c end; cbn [rrel];
    (split; [cbn [fst]; eapply set_t_agree; [exact Hab|eapply G1; reflexivity|eapply G2; reflexivity]|reflexivity]).
Qed.

End OneTensor.

Lemma m_copy_agree σ1 σ2 dt st dst src : agree σ1 σ2 ->
  get_t V σ1 dt = Some dst -> get_t V σ2 dt = Some dst -> get_t V σ1 st = Some src -> get_t V σ2 st = Some src ->
  Pb (d_buf dst) -> Pb (d_buf src) ->
  rrel agree (m_copy V σ1 dt st) (m_copy V σ2 dt st).
Proof.
  intros Ha D1 D2 S1 S2 Hd Hs. unfold m_copy. rewrite D1, D2, S1, S2.
  destruct (requires_iterator src || requires_iterator dst).
  - apply copy_dense_iter_agree; assumption.
  - apply copy_raw_agree; assumption.
Qed.

End Agree.

(* ---- one step of the operation language ---- *)
(* the operations that allocate nothing *)
Definition nonalloc (o : op) : bool :=
  match o with
  | OT _ _ _ | OUT _ _ | OTranspose _ _ | OAt _ _ _ | OSetAt _ _ _ _ | OMemset _ _ _ | OZero _ _
  | OCopy _ _ _ | OReshape _ _ _ _ | ORollAxis _ _ _ _ false => true
  | _ => false
  end.

(* the tensors an operation reads (entry and contents); written tensors are read as well *)
Definition reads (o : op) : list nat :=
  match o with
  | OT _ t _ | OUT _ t | OTranspose _ t | OAt _ t _ | OSetAt _ t _ _ | OMemset _ t _ | OZero _ t
  | OReshape _ t _ _ | ORollAxis _ t _ _ _ | OSlice _ t _ _ | OClone _ t | OMaterialize _ t _
  | OSafeT _ t _ | OApiTranspose _ t _ => [t]
  | OCopy _ d s => [d; s]
  | ONew _ _ _ _ => []
  end.

Lemma lift_store_rel Pt Pb σ1 σ2 r1 r2 : agree Pt Pb σ1 σ2 -> rrel (agree Pt Pb) r1 r2 ->
  snd (lift_store V σ1 r1) = snd (lift_store V σ2 r2) /\
  agree Pt Pb (fst (lift_store V σ1 r1)) (fst (lift_store V σ2 r2)).
Proof.
  intros Ha H. destruct r1 as [a| |], r2 as [b| |]; cbn [rrel] in H; try contradiction; cbn; auto.
Qed.

Theorem step_model_agree Pt Pb σ1 σ2 o :
  nonalloc o = true -> agree Pt Pb σ1 σ2 ->
  (forall t, In t (reads o) -> Pt t) ->
  (forall t d, In t (reads o) -> get_t V σ1 t = Some d -> Pb (d_buf d)) ->
  snd (step_model V vzero σ1 o) = snd (step_model V vzero σ2 o) /\
  agree Pt Pb (fst (step_model V vzero σ1 o)) (fst (step_model V vzero σ2 o)).
Proof.
  intros Hn Ha Hr Hb.
  assert (One : forall t, In t (reads o) ->
            get_t V σ1 t = get_t V σ2 t /\ forall d, get_t V σ1 t = Some d -> Pb (d_buf d)).
  { intros t Hin. split; [apply (proj1 Ha); apply Hr; exact Hin|]. intros d Hd. eapply Hb; eassumption. }
  destruct o; cbn [nonalloc] in Hn; try discriminate; cbn [reads] in One; cbn [step_model].
  - (* OT *)
    destruct (One t (or_introl eq_refl)) as [E P]. apply lift_store_rel; [exact Ha|].
    destruct (get_t V σ1 t) as [d|] eqn:E1; symmetry in E.
    + apply (m_T_agree Pt Pb σ1 σ2 t d Ha E1 E (P d eq_refl)).
    + unfold m_T. rewrite E1, E. exact I.
  - (* OUT *)
    destruct (One t (or_introl eq_refl)) as [E P]. apply lift_store_rel; [exact Ha|].
    destruct (get_t V σ1 t) as [d|] eqn:E1; symmetry in E.
    + apply (m_UT_agree Pt Pb σ1 σ2 t d Ha E1 E).
    + unfold m_UT. rewrite E1, E. exact I.
  - (* OTranspose *)
    destruct (One t (or_introl eq_refl)) as [E P]. apply lift_store_rel; [exact Ha|].
    destruct (get_t V σ1 t) as [d|] eqn:E1; symmetry in E.
    + apply (m_transpose_agree Pt Pb σ1 σ2 t d Ha E1 E (P d eq_refl)).
    + unfold m_transpose. rewrite E1, E. exact I.
  - (* OAt *)
    destruct (One t (or_introl eq_refl)) as [E P].
    assert (Hat : m_at V σ1 t c = m_at V σ2 t c).
    { destruct (get_t V σ1 t) as [d|] eqn:E1; symmetry in E.
      - apply (m_at_agree Pt Pb σ1 σ2 t d Ha E1 E (P d eq_refl)).
      - unfold m_at. rewrite E1, E. reflexivity. }
    rewrite Hat. destruct (m_at V σ2 t c); cbn; auto.
  - (* OSetAt *)
    destruct (One t (or_introl eq_refl)) as [E P]. apply lift_store_rel; [exact Ha|].
    destruct (get_t V σ1 t) as [d|] eqn:E1; symmetry in E.
    + apply (m_setat_agree Pt Pb σ1 σ2 t d Ha E1 E (P d eq_refl)).
    + unfold m_setat. rewrite E1, E. exact I.
  - (* OMemset *)
    destruct (One t (or_introl eq_refl)) as [E P]. apply lift_store_rel; [exact Ha|].
    destruct (get_t V σ1 t) as [d|] eqn:E1; symmetry in E.
    + apply (m_memset_agree Pt Pb σ1 σ2 t d Ha E1 E (P d eq_refl)).
    + unfold m_memset. rewrite E1, E. exact I.
  - (* OZero *)
    destruct (One t (or_introl eq_refl)) as [E P]. apply lift_store_rel; [exact Ha|].
    destruct (get_t V σ1 t) as [d|] eqn:E1; symmetry in E.
    + apply (m_zero_agree Pt Pb σ1 σ2 t d Ha E1 E (P d eq_refl)).
    + unfold m_zero. rewrite E1, E. exact I.
  - (* OCopy *)
    destruct (One dst (or_introl eq_refl)) as [Ed Pd].
    destruct (One src (or_intror (or_introl eq_refl))) as [Es Ps].
    apply lift_store_rel; [exact Ha|].
    destruct (get_t V σ1 dst) as [dd|] eqn:D1; symmetry in Ed.
    + destruct (get_t V σ1 src) as [ds|] eqn:S1; symmetry in Es.
      * apply (m_copy_agree Pt Pb σ1 σ2 dst src dd ds Ha D1 Ed S1 Es (Pd dd eq_refl) (Ps ds eq_refl)).
      * unfold m_copy. rewrite D1, Ed, S1, Es. exact I.
    + unfold m_copy. rewrite D1, Ed. exact I.
  - (* ORollAxis, unsafe *)
    destruct safe; [discriminate|].
    destruct (One t (or_introl eq_refl)) as [E P].
    assert (Hrel : rrel (fun x y => agree Pt Pb (fst x) (fst y) /\ snd x = snd y)
                        (m_rollaxis V σ1 t axis start0 false) (m_rollaxis V σ2 t axis start0 false)).
    { unfold m_rollaxis. destruct (get_t V σ1 t) as [d|] eqn:E1; symmetry in E; rewrite E; [|exact I].
      destruct (negb ((0 <=? axis) && (axis <? zlen (shp (d_ap d))))); [exact I|].
      destruct (negb ((0 <=? start0) && (start0 <=? zlen (shp (d_ap d))))); [exact I|].
      cbv zeta.
      match goal with |- context [if ?c then _ else _] => destruct c end; [split; [exact Ha|reflexivity]|].
      match goal with |- context [m_T V σ1 t ?ax] =>
        pose proof (m_T_agree Pt Pb σ1 σ2 t d Ha E1 E (P d eq_refl) ax) as HT;
        destruct (m_T V σ1 t ax) as [a| |], (m_T V σ2 t ax) as [b| |] end;
        cbn [rrel] in HT; try contradiction; cbn [rrel]; auto. }
    destruct (m_rollaxis V σ1 t axis start0 false) as [[a ta]| |],
             (m_rollaxis V σ2 t axis start0 false) as [[b tb]| |]; cbn [rrel] in Hrel; try contradiction; cbn; auto.
    destruct Hrel as [Hab Ht]. cbn [fst snd] in Hab, Ht. subst tb. auto.
  - (* OReshape *)
    destruct (One t (or_introl eq_refl)) as [E P].
    assert (Hrel : rrel (agree_b Pt Pb) (m_reshape V σ1 t dims) (m_reshape V σ2 t dims)).
    { destruct (get_t V σ1 t) as [d|] eqn:E1; symmetry in E.
      - apply (m_reshape_agree Pt Pb σ1 σ2 t d Ha E1 E (P d eq_refl)).
      - unfold m_reshape. rewrite E1, E. exact I. }
    destruct (m_reshape V σ1 t dims) as [[a ra]| |], (m_reshape V σ2 t dims) as [[b rb]| |];
      cbn [rrel] in Hrel; try contradiction; cbn; auto.
    destruct Hrel as [Hab Hrr]. cbn [fst snd] in Hab, Hrr. subst rb. auto.
Qed.

(* a non-allocating step changes at most the entry and the allocation of its written tensor *)
Theorem nonalloc_step_wr σ o σ' r : nonalloc o = true -> step_model V vzero σ o = (σ', r) ->
  σ' = σ \/ exists t d, written V o = Some t /\ get_t V σ t = Some d /\ wr V t (d_buf d) σ σ'.
Proof.
  intros Hn H.
  assert (W : forall t (m : res store) out,
            written V o = Some t -> lift_store V σ m = (σ', out) ->
            (forall d, get_t V σ t = Some d -> m = Ok σ' -> wr V t (d_buf d) σ σ') ->
            (get_t V σ t = None -> m <> Ok σ') ->
            σ' = σ \/ exists t d, written V o = Some t /\ get_t V σ t = Some d /\ wr V t (d_buf d) σ σ').
  { intros t m out Hw Hl Hs Hnone. destruct (lift_store_inv V _ _ _ _ Hl) as [E|E]; [|left; exact E].
    destruct (get_t V σ t) as [d|] eqn:Ed.
    - right. exists t, d. split; [exact Hw|]. split; [exact Ed|]. apply Hs; [reflexivity|exact E].
    - exfalso. apply (Hnone eq_refl). exact E. }
  destruct o; cbn [nonalloc] in Hn; try discriminate; cbn [step_model] in H.
  - eapply W; [reflexivity|exact H| |].
    + intros d Hd E. eapply m_T_wr; eassumption.
    + intros Hnone. unfold m_T. rewrite Hnone. discriminate.
  - eapply W; [reflexivity|exact H| |].
    + intros d Hd E. eapply m_UT_wr; eassumption.
    + intros Hnone. unfold m_UT. rewrite Hnone. discriminate.
  - eapply W; [reflexivity|exact H| |].
    + intros d Hd E. eapply m_transpose_wr; eassumption.
    + intros Hnone. unfold m_transpose. rewrite Hnone. discriminate.
  - left. destruct (m_at V σ t c); inv H; reflexivity.
  - eapply W; [reflexivity|exact H| |].
    + intros d Hd E. eapply m_setat_wr; eassumption.
    + intros Hnone. unfold m_setat. rewrite Hnone. discriminate.
  - eapply W; [reflexivity|exact H| |].
    + intros d Hd E. eapply m_memset_wr; eassumption.
    + intros Hnone. unfold m_memset. rewrite Hnone. discriminate.
  - eapply W; [reflexivity|exact H| |].
    + intros d Hd E. eapply m_zero_wr; eassumption.
    + intros Hnone. unfold m_zero. rewrite Hnone. discriminate.
  - eapply W; [reflexivity|exact H| |].
    + intros d Hd E. eapply m_copy_wr; eassumption.
    + intros Hnone. unfold m_copy. rewrite Hnone. discriminate.
  - destruct safe; [discriminate|].
    destruct (lift_new_inv V _ _ _ _ H) as [[t' E]|E]; [|left; exact E].
    unfold m_rollaxis in E. destruct (get_t V σ t) as [d|] eqn:Ed; [|discriminate].
    destruct (negb ((0 <=? axis) && (axis <? zlen (shp (d_ap d))))); [discriminate|].
    destruct (negb ((0 <=? start0) && (start0 <=? zlen (shp (d_ap d))))); [discriminate|].
    cbv zeta in E.
    match type of E with (if ?c then _ else _) = _ => destruct c end; [inv E; left; reflexivity|].
    match type of E with match ?m with _ => _ end = _ => destruct m as [σ1| |] eqn:ET end; try discriminate.
    injection E as <- <-. right. exists t, d. split; [reflexivity|]. split; [exact Ed|]. eapply m_T_wr; eassumption.
  - destruct (m_reshape V σ t dims) as [[σ1 rf]| |] eqn:E; inv H; try (left; reflexivity).
    destruct (get_t V σ t) as [d|] eqn:Ed.
    + right. exists t, d. split; [reflexivity|]. split; [exact Ed|]. eapply m_reshape_wr; eassumption.
    + unfold m_reshape in E. rewrite Ed in E. discriminate.
Qed.

(* ---------------------------------------------------------------------------------------- *)
(*  threads over ONE store: ownership, views, the interleaving theorem                      *)
(* ---------------------------------------------------------------------------------------- *)
Section Threads.
Variables own_t own_b : nat -> nat -> bool.   (* own_t i t: thread i owns tensor index t; own_b i b: allocation b *)
Variables sh_t sh_b : nat -> bool.            (* shared (read-only) tensor indices / allocations *)

(* the split is a partition: nothing is owned twice, nothing owned is shared *)
Definition ownership_disjoint : Prop :=
  (forall i j t, i <> j -> own_t i t = true -> own_t j t = false) /\
  (forall i t, own_t i t = true -> sh_t t = false) /\
  (forall i j b, i <> j -> own_b i b = true -> own_b j b = false) /\
  (forall i b, own_b i b = true -> sh_b b = false).

(* what thread i may read: the shared part and its own part *)
Definition vis_t (i t : nat) : Prop := sh_t t = true \/ own_t i t = true.
Definition vis_b (i b : nat) : Prop := sh_b b = true \/ own_b i b = true.

(* thread i cannot tell two stores apart when they agree on everything it may read *)
Definition view (i : nat) : store -> store -> Prop := agree (vis_t i) (vis_b i).

(* the state invariant: shared tensors live in shared allocations, owned tensors in allocations
   of the same owner *)
Definition own_inv (σ : store) : Prop :=
  forall t d, get_t V σ t = Some d ->
    (sh_t t = true -> sh_b (d_buf d) = true) /\
    (forall i, own_t i t = true -> own_b i (d_buf d) = true).

(* an operation thread i may execute: it allocates nothing, writes only a tensor it owns, reads
   only tensors that are shared or its own *)
Definition thread_op (i : nat) (o : op) : Prop :=
  nonalloc o = true /\
  (forall t, written V o = Some t -> own_t i t = true) /\
  (forall t, In t (reads o) -> vis_t i t).

Definition op_step (o : op) : gstep store (outcome V) := fun σ => step_model V vzero σ o.

Lemma wr_own_inv t b σ σ' : wr V t b σ σ' -> own_inv σ -> own_inv σ'.
Proof.
  intros (LT & _ & _ & _ & St) Hi t0 d' Hd'.
  assert (Hlt : (t0 < length (tens V σ))%nat).
  { rewrite <- LT. apply nth_error_Some. unfold get_t in Hd'. congruence. }
  destruct (get_t V σ t0) as [d0|] eqn:E0.
  2:{ unfold get_t in E0. apply nth_error_None in E0. lia. }
  destruct (St t0 d0 E0) as (d2 & Hd2 & Hb2). assert (d2 = d') by congruence. subst d2.
  rewrite Hb2. apply (Hi t0 d0 E0).
Qed.

Lemma vis_buf_of_vis_t i σ t d : own_inv σ -> get_t V σ t = Some d -> vis_t i t -> vis_b i (d_buf d).
Proof.
  intros Hi Hd [Hs|Ho]; destruct (Hi t d Hd) as [A B]; [left; apply A; exact Hs|right; apply B; exact Ho].
Qed.

Theorem thread_op_local i o : ownership_disjoint -> thread_op i o ->
  local_step store (outcome V) view own_inv i (op_step o).
Proof.
  intros (Dt & Dts & Db & Dbs) (Hn & Hw & Hr). unfold op_step. split; [|split].
  - (* the invariant is kept *)
    intros σ Hi. destruct (step_model V vzero σ o) as [σ' r] eqn:E. cbn [fst].
    destruct (nonalloc_step_wr σ o σ' r Hn E) as [->|(t & d & _ & _ & W)]; [exact Hi|].
    eapply wr_own_inv; eassumption.
  - (* the step is determined by what thread i sees *)
    intros σ1 σ2 I1 I2 Hv. apply step_model_agree; [exact Hn|exact Hv|exact Hr|].
    intros t d Hin Hd. eapply vis_buf_of_vis_t; [exact I1|exact Hd|apply Hr; exact Hin].
  - (* and is invisible to every other thread *)
    intros j σ Hji Hi. destruct (step_model V vzero σ o) as [σ' r] eqn:E. cbn [fst].
    destruct (nonalloc_step_wr σ o σ' r Hn E) as [->|(t & d & Hwt & Hd & W)]; [apply agree_refl|].
    pose proof (Hw t Hwt) as Hot. pose proof (proj2 (Hi t d Hd) i Hot) as Hob.
    destruct W as (_ & _ & T & B & _). split.
    + intros t' [Hs|Ho]; unfold get_t; symmetry; apply T; intros ->.
      * rewrite (Dts i t Hot) in Hs. discriminate.
      * rewrite (Dt i j t (not_eq_sym Hji) Hot) in Ho. discriminate.
    + intros b' [Hs|Ho]; symmetry; apply B; intros ->.
      * rewrite (Dbs i _ Hob) in Hs. discriminate.
      * rewrite (Db i j _ (not_eq_sym Hji) Hob) in Ho. discriminate.
Qed.

Lemma run_gsteps_ops : forall os σ, run_gsteps store (outcome V) σ (map op_step os) = run_ops V vzero σ os.
Proof.
  induction os as [|o r IH]; intros σ; cbn [map run_gsteps run_ops]; [reflexivity|].
  unfold op_step at 1. destruct (step_model V vzero σ o) as [σ1 x]. rewrite IH. reflexivity.
Qed.

(* the threads' programs *)
Definition thread_progs (progs : list (list op)) : Prop :=
  forall i os o, nth_error progs i = Some os -> In o os -> thread_op i o.

Definition store_cfg (σ0 : store) (progs : list (list op)) : gconfig store (outcome V) :=
  ginit store (outcome V) σ0 (map (map op_step) progs).

Lemma thread_progs_local progs : ownership_disjoint -> thread_progs progs ->
  local_progs store (outcome V) view own_inv (map (map op_step) progs).
Proof.
  intros Hd Hp i prog0 f Hn Hin. rewrite nth_error_map in Hn.
  destruct (nth_error progs i) as [os|] eqn:E; [|discriminate]. cbn in Hn. injection Hn as <-.
  apply in_map_iff in Hin. destruct Hin as (o & <- & Ho). apply thread_op_local; [exact Hd|].
  eapply Hp; eassumption.
Qed.

(* ANY schedule: thread i has produced a prefix of the outcomes it produces alone, and sees the
   store exactly as after that many steps alone *)
Theorem store_prefix_consistent σ0 progs sch i os p obs :
  ownership_disjoint -> own_inv σ0 -> thread_progs progs ->
  nth_error progs i = Some os ->
  nth_error (snd (grun store (outcome V) sch (store_cfg σ0 progs))) i = Some (p, obs) ->
  let k := length obs in
  (k <= length os)%nat /\ p = map op_step (skipn k os) /\
  obs = firstn k (snd (run_ops V vzero σ0 os)) /\
  obs = snd (run_ops V vzero σ0 (firstn k os)) /\
  view i (fst (grun store (outcome V) sch (store_cfg σ0 progs))) (fst (run_ops V vzero σ0 (firstn k os))).
Proof.
  intros Hd Hi Hp Hos Hth.
  assert (Hn : nth_error (map (map op_step) progs) i = Some (map op_step os)).
  { rewrite nth_error_map, Hos. reflexivity. }
  destruct (gprefix_consistent store (outcome V) view own_inv
              (fun j => agree_sym (vis_t j) (vis_b j)) (fun j => agree_trans (vis_t j) (vis_b j))
              σ0 (map (map op_step) progs) sch i (map op_step os) p obs Hi
              (fun j => agree_refl (vis_t j) (vis_b j) σ0) (thread_progs_local progs Hd Hp) Hn Hth)
    as (Hk & Hs & Ho1 & Ho2 & Hv).
  rewrite map_length in Hk. rewrite skipn_map in Hs. rewrite firstn_map in Ho2, Hv.
  rewrite run_gsteps_ops in Ho1, Ho2, Hv. cbn zeta. auto.
Qed.

(* EVERY complete schedule: thread i gets exactly the outcomes it gets alone, and the final store
   agrees with its run-alone final store on every tensor and allocation it may read *)
Theorem store_interleaving_deterministic σ0 progs sch :
  ownership_disjoint -> own_inv σ0 -> thread_progs progs ->
  gfinished store (outcome V) (grun store (outcome V) sch (store_cfg σ0 progs)) ->
  forall i os, nth_error progs i = Some os ->
  exists obs, nth_error (snd (grun store (outcome V) sch (store_cfg σ0 progs))) i = Some ([], obs) /\
              obs = snd (run_ops V vzero σ0 os) /\
              view i (fst (grun store (outcome V) sch (store_cfg σ0 progs))) (fst (run_ops V vzero σ0 os)).
Proof.
  intros Hd Hi Hp Hfin i os Hos.
  assert (Hn : nth_error (map (map op_step) progs) i = Some (map op_step os)).
  { rewrite nth_error_map, Hos. reflexivity. }
  destruct (ginterleaving_deterministic store (outcome V) view own_inv
              (fun j => agree_sym (vis_t j) (vis_b j)) (fun j => agree_trans (vis_t j) (vis_b j))
              σ0 (map (map op_step) progs) sch Hi
              (fun j => agree_refl (vis_t j) (vis_b j) σ0) (thread_progs_local progs Hd Hp) Hfin
              i (map op_step os) Hn) as (obs & Ho & Ho2 & Hv).
  rewrite run_gsteps_ops in Ho2, Hv. exists obs. auto.
Qed.

(* in particular every coordinate thread i can read afterwards has its run-alone value *)
Corollary store_interleaving_reads σ0 progs sch :
  ownership_disjoint -> own_inv σ0 -> thread_progs progs ->
  gfinished store (outcome V) (grun store (outcome V) sch (store_cfg σ0 progs)) ->
  forall i os t c, nth_error progs i = Some os -> vis_t i t ->
  m_at V (fst (grun store (outcome V) sch (store_cfg σ0 progs))) t c = m_at V (fst (run_ops V vzero σ0 os)) t c.
Proof.
  intros Hd Hi Hp Hfin i os t c Hos Hvt.
  destruct (store_interleaving_deterministic σ0 progs sch Hd Hi Hp Hfin i os Hos) as (obs & _ & _ & Hv).
  pose proof (ginv_run store (outcome V) view own_inv
              (fun j => agree_sym (vis_t j) (vis_b j)) (fun j => agree_trans (vis_t j) (vis_b j))
              σ0 (map (map op_step) progs) (thread_progs_local progs Hd Hp) sch _
              (ginv_init store (outcome V) view own_inv σ0 (map (map op_step) progs) Hi
                 (fun j => agree_refl (vis_t j) (vis_b j) σ0))) as (HI & _ & _).
  set (σf := fst (grun store (outcome V) sch (store_cfg σ0 progs))) in *.
  pose proof (proj1 Hv t Hvt) as Et.
  destruct (get_t V σf t) as [d|] eqn:Ed.
  - symmetry in Et. apply (m_at_agree (vis_t i) (vis_b i) σf _ t d Hv Ed Et).
    eapply vis_buf_of_vis_t; [exact HI|exact Ed|exact Hvt].
  - unfold m_at. rewrite Ed, <- Et. reflexivity.
Qed.

(* and complete schedules exist *)
Theorem store_complete_schedule_exists σ0 progs rounds :
  (forall os, In os progs -> (length os <= rounds)%nat) ->
  gfinished store (outcome V)
    (grun store (outcome V) (round_robin (length progs) rounds) (store_cfg σ0 progs)).
Proof.
  intros Hr.
  assert (Hl : length (snd (store_cfg σ0 progs)) = length progs).
  { unfold store_cfg, ginit. cbn [snd]. rewrite !map_length. reflexivity. }
  rewrite <- Hl. apply gcomplete_schedule_exists.
  intros i. unfold gremaining, store_cfg, ginit. cbn [snd]. rewrite nth_error_map, nth_error_map.
  destruct (nth_error progs i) as [os|] eqn:E; cbn; [|lia].
  rewrite map_length. apply Hr. eapply nth_error_In; exact E.
Qed.

End Threads.

End Layer2NI.

(* ---- a concrete instance over Z: one shared 2x2 tensor (index 0, allocation 0), thread 0 owns
        tensor 1 / allocation 1, thread 1 owns tensor 2 / allocation 2 ---- *)
Section Example2.
Local Open Scope Z_scope.

Definition ex_ap : ap := mkAP [2; 2] [2; 1] 0 true.
Definition ex_store : Mem.store Z :=
  mkStore Z [[1; 2; 3; 4]; [0; 0; 0; 0]; [9; 9; 9; 9]]
            [mkDense 0 0 4 ex_ap None false; mkDense 1 0 4 ex_ap None false; mkDense 2 0 4 ex_ap None false].

Definition ex_own_t (i t : nat) : bool := Nat.eqb t (Datatypes.S i).
Definition ex_own_b (i b : nat) : bool := Nat.eqb b (Datatypes.S i).
Definition ex_sh (x : nat) : bool := Nat.eqb x 0.

Definition ex_progs : list (list (op Z)) :=
  [ [OAt Z 0 [1; 0]; OSetAt Z 1 [0; 0] 7; OCopy Z 1 0; OSetAt Z 1 [1; 1] 8; OAt Z 1 [1; 1]; OAt Z 1 [0; 1]];
    [OMemset Z 2 5; OAt Z 0 [0; 1]; OT Z 2 []; OAt Z 2 [1; 0]; OTranspose Z 2; OZero Z 2; OAt Z 2 [0; 0]] ].

Definition ex2_sch1 : list nat := [0; 0; 0; 0; 0; 0; 1; 1; 1; 1; 1; 1; 1]%nat.
Definition ex2_sch2 : list nat := [1; 0; 1; 1; 0; 0; 1; 0; 1; 1; 0; 0; 1]%nat.

Definition ex2_obs (sch : list nat) : list (list (outcome Z)) :=
  map snd (snd (grun _ _ sch (store_cfg Z 0 ex_store ex_progs))).

Example ex2_hyps :
  ownership_disjoint ex_own_t ex_own_b ex_sh ex_sh /\
  own_inv Z ex_own_t ex_own_b ex_sh ex_sh ex_store /\
  thread_progs Z ex_own_t ex_sh ex_progs.
Proof.
  split; [|split].
  - unfold ownership_disjoint, ex_own_t, ex_own_b, ex_sh.
    repeat split; intros; repeat match goal with
      | H : Nat.eqb _ _ = true |- _ => apply Nat.eqb_eq in H end; subst; apply Nat.eqb_neq; lia.
  - intros t d Hd. unfold get_t, ex_store in Hd. cbn [tens] in Hd.
    destruct t as [|[|[|t]]]; cbn in Hd; try (destruct t; discriminate);
      injection Hd as <-; cbn [d_buf]; (split; [intros H; exact H|intros i H; exact H]).
  - intros i os o Hn Hin. unfold ex_progs in Hn.
    destruct i as [|[|i]]; cbn in Hn; try (destruct i; discriminate); injection Hn as <-;
      cbn in Hin; repeat (destruct Hin as [<-|Hin]; [
        split; [reflexivity|]; split;
        [ intros t Ht; cbn in Ht; try discriminate; injection Ht as <-; reflexivity
        | intros t Ht; cbn in Ht; unfold vis_t;
          repeat (destruct Ht as [<-|Ht]; [first [left; reflexivity|right; reflexivity]|]); destruct Ht ] |]);
      destruct Hin.
Qed.

Example ex2_alone :
  map (fun os => snd (run_ops Z 0 ex_store os)) ex_progs =
  [ [RVal Z 3; RUnit Z; RUnit Z; RUnit Z; RVal Z 8; RVal Z 2];
    [RUnit Z; RVal Z 2; RUnit Z; RVal Z 5; RUnit Z; RUnit Z; RVal Z 0] ].
Proof. vm_compute. reflexivity. Qed.

Example ex2_run1 : ex2_obs ex2_sch1 = map (fun os => snd (run_ops Z 0 ex_store os)) ex_progs.
Proof. vm_compute. reflexivity. Qed.

Example ex2_run2 : ex2_obs ex2_sch2 = map (fun os => snd (run_ops Z 0 ex_store os)) ex_progs.
Proof. vm_compute. reflexivity. Qed.

End Example2.

(* ====================================================================================== *)
(*  spelled-out forms for PropC18.v (definitions unfolded in the statements)              *)
(* ====================================================================================== *)
(* which tensor each constructor of Run.op may write *)
Lemma written_table (V : Type) :
  (forall order sh data, written V (ONew V order sh data) = None) /\
  (forall t sl hint, written V (OSlice V t sl hint) = None) /\
  (forall t axes, written V (OT V t axes) = Some t) /\
  (forall t, written V (OUT V t) = Some t) /\
  (forall t, written V (OTranspose V t) = Some t) /\
  (forall t c, written V (OAt V t c) = None) /\
  (forall t c v, written V (OSetAt V t c v) = Some t) /\
  (forall t v, written V (OMemset V t v) = Some t) /\
  (forall t, written V (OZero V t) = Some t) /\
  (forall t, written V (OClone V t) = None) /\
  (forall t same, written V (OMaterialize V t same) = None) /\
  (forall d s, written V (OCopy V d s) = Some d) /\
  (forall t axes, written V (OSafeT V t axes) = None) /\
  (forall t axis start, written V (ORollAxis V t axis start true) = None) /\
  (forall t axis start, written V (ORollAxis V t axis start false) = Some t) /\
  (forall t axes, written V (OApiTranspose V t axes) = None) /\
  (forall t dims refused, written V (OReshape V t dims refused) = Some t).
Proof. repeat split; reflexivity. Qed.

Theorem step_model_shared_frame_explicit (V : Type) (vzero : V) (sh_t sh_b : nat -> bool)
    (σ : store V) (o : op V) (σ' : store V) (r : outcome V) :
  (forall t, (length (tens V σ) <= t)%nat -> sh_t t = false) ->
  (forall b, (length (bufs V σ) <= b)%nat -> sh_b b = false) ->
  (forall t, written V o = Some t ->
             sh_t t = false /\ forall d, get_t V σ t = Some d -> sh_b (d_buf d) = false) ->
  step_model V vzero σ o = (σ', r) ->
  (forall t, sh_t t = true -> nth_error (tens V σ') t = nth_error (tens V σ) t) /\
  (forall b, sh_b b = true -> get_buf V σ' b = get_buf V σ b).
Proof.
  intros Ft Fb Hw H. apply (step_model_shared_frame V vzero sh_t sh_b σ o σ' r); [split; assumption| |exact H].
  unfold c18_op. destruct (written V o) as [t|]; [apply Hw; reflexivity|exact I].
Qed.

Theorem readers_commute_explicit (V : Type) (vzero : V) (sh_t sh_b : nat -> bool)
    (σ : store V) (o2 : op V) (t : nat) (c : list Z) :
  (forall t, (length (tens V σ) <= t)%nat -> sh_t t = false) ->
  (forall b, (length (bufs V σ) <= b)%nat -> sh_b b = false) ->
  (forall t2, written V o2 = Some t2 ->
              sh_t t2 = false /\ forall d, get_t V σ t2 = Some d -> sh_b (d_buf d) = false) ->
  sh_t t = true -> (forall d, get_t V σ t = Some d -> sh_b (d_buf d) = true) ->
  forall σa ra σab rb σb rb' σba ra',
  step_model V vzero σ (OAt V t c) = (σa, ra) -> step_model V vzero σa o2 = (σab, rb) ->
  step_model V vzero σ o2 = (σb, rb') -> step_model V vzero σb (OAt V t c) = (σba, ra') ->
  σab = σba /\ ra = ra' /\ rb = rb'.
Proof.
  intros Ft Fb Hw Ht Hb σa ra σab rb σb rb' σba ra' E1 E2 E3 E4.
  assert (Hc : c18_op V sh_t sh_b σ o2).
  { unfold c18_op. destruct (written V o2) as [t2|]; [apply Hw; reflexivity|exact I]. }
  pose proof (readers_commute V vzero sh_t sh_b σ o2 t c (conj Ft Fb) Hc (conj Ht Hb)) as H.
  rewrite E1, E2, E3, E4 in H. exact H.
Qed.

(* ====================================================================================== *)
(*  2.c (continued)  Materialize: the copy it returns is a function of what it reads       *)
(* ====================================================================================== *)
Section MaterializeRead.
Variable V : Type.
Variable vzero : V.
Notation store := (Mem.store V).
Ltac inv H := inversion H; subst; clear H.

(* two runs writing into DIFFERENT fresh allocations b1 / b2 while reading the same source bs *)
Section Sim.
Variables b1 b2 bs : nat.
Variable Hs1 : bs <> b1.
Variable Hs2 : bs <> b2.
Variables (off len : Z) (a : ap) (old : option ap) (vw : bool).
Definition mkd (b : nat) : dense := mkDense b off len a old vw.
Variable src : dense.
Variable Hsrc : d_buf src = bs.

Definition sim (σa σb : store) : Prop :=
  get_buf V σa b1 = get_buf V σb b2 /\ get_buf V σa bs = get_buf V σb bs.

Lemma set_buf_sim σa σb p v l : sim σa σb ->
  zset (get_buf V σa b1) p v = Some l -> sim (set_buf V σa b1 l) (set_buf V σb b2 l).
Proof.
  intros [E1 Es] Z. split.
  - rewrite (zset_set_buf V σa b1 p v l Z). rewrite E1 in Z. rewrite (zset_set_buf V σb b2 p v l Z). reflexivity.
  - unfold get_buf, set_buf. cbn [bufs]. rewrite !nth_upd_other by congruence. exact Es.
Qed.

Lemma win_set_sim σa σb i v : sim σa σb -> orel (A := store) sim (win_set V σa (mkd b1) i v) (win_set V σb (mkd b2) i v).
Proof.
  intros Hsim. unfold win_set, mkd. cbn [d_len d_off d_buf].
  destruct ((i <? 0) || (len <=? i)); [exact I|]. rewrite <- (proj1 Hsim).
  destruct (zset (get_buf V σa b1) (off + i) v) as [l|] eqn:Z; [|exact I].
  cbn [orel]. eapply set_buf_sim; eassumption.
Qed.

Lemma cap_set_sim σa σb i v : sim σa σb -> orel (A := store) sim (cap_set V σa (mkd b1) i v) (cap_set V σb (mkd b2) i v).
Proof.
  intros Hsim. unfold cap_set, mkd. cbn [d_len d_off d_buf].
  destruct (i <? 0); [exact I|]. rewrite <- (proj1 Hsim).
  destruct (zset (get_buf V σa b1) (off + i) v) as [l|] eqn:Z; [|exact I].
  cbn [orel]. eapply set_buf_sim; eassumption.
Qed.

Lemma win_scatter_sim : forall idx vs σa σb, sim σa σb ->
  orel (A := store) sim (win_scatter V σa (mkd b1) idx vs) (win_scatter V σb (mkd b2) idx vs).
Proof.
  induction idx as [|i r IH]; intros vs σa σb Hsim; cbn [win_scatter]; [exact Hsim|].
  destruct vs as [|v vs]; [exact Hsim|].
  pose proof (win_set_sim σa σb i v Hsim) as H.
  destruct (win_set V σa (mkd b1) i v) as [x|], (win_set V σb (mkd b2) i v) as [y|]; cbn [orel] in H; try contradiction.
  - apply IH. exact H.
  - exact I.
Qed.

Lemma copy_seq_sim : forall di si σa σb, sim σa σb ->
  orel (A := store) sim (copy_seq V σa (mkd b1) src di si) (copy_seq V σb (mkd b2) src di si).
Proof.
  induction di as [|i di IH]; intros si σa σb Hsim; cbn [copy_seq]; [exact Hsim|].
  destruct si as [|j si]; [exact Hsim|].
  assert (Eg : cap_get V σa src j = cap_get V σb src j).
  { unfold cap_get. rewrite Hsrc, (proj2 Hsim). reflexivity. }
  rewrite <- Eg. destruct (cap_get V σa src j) as [v|]; [|exact I].
  pose proof (cap_set_sim σa σb i v Hsim) as H.
  destruct (cap_set V σa (mkd b1) i v) as [x|], (cap_set V σb (mkd b2) i v) as [y|]; cbn [orel] in H; try contradiction.
  - apply IH. exact H.
  - exact I.
Qed.

Lemma copy_dense_iter_sim σa σb : sim σa σb ->
  rrel (A := store) sim (copy_dense_iter V σa (mkd b1) src) (copy_dense_iter V σb (mkd b2) src).
Proof.
  intros Hsim. unfold copy_dense_iter.
  change (requires_iterator (mkd b2)) with (requires_iterator (mkd b1)).
  change (d_ap (mkd b2)) with (d_ap (mkd b1)).
  destruct (negb (requires_iterator (mkd b1)) && negb (requires_iterator src)
            && has_same_order (ord (d_ap (mkd b1))) (ord (d_ap src))).
  - unfold copy_raw. change (d_len (mkd b2)) with (d_len (mkd b1)).
    assert (Ew : window V σa src = window V σb src).
    { unfold window. rewrite Hsrc, (proj2 Hsim). reflexivity. }
    rewrite <- Ew.
    pose proof (win_scatter_sim (zseq 0 (Z.to_nat (Z.min (d_len (mkd b1)) (d_len src)))) (window V σa src) σa σb Hsim) as H.
    destruct (win_scatter V σa (mkd b1) _ _) as [x|], (win_scatter V σb (mkd b2) _ _) as [y|]; cbn [orel] in H;
      try contradiction; cbn [rrel]; auto.
  - unfold copy_iter. change (d_ap (mkd b2)) with (d_ap (mkd b1)).
    destruct (iter_all (d_ap (mkd b1))) as [di|]; [|exact I].
    destruct (iter_all (d_ap src)) as [si|]; [|exact I].
    pose proof (copy_seq_sim di si σa σb Hsim) as H.
    destruct (copy_seq V σa (mkd b1) src di si) as [x|], (copy_seq V σb (mkd b2) src di si) as [y|]; cbn [orel] in H;
      try contradiction; cbn [rrel]; auto.
Qed.
End Sim.

(* a store that differs from  σ + one fresh allocation  only in that allocation IS σ + one fresh
   allocation (with other contents) *)
Lemma only_buf_fresh (σ σ' : store) z :
  only_buf V (length (bufs V σ)) (fst (add_buf V σ z)) σ' ->
  σ' = fst (add_buf V σ (get_buf V σ' (length (bufs V σ)))).
Proof.
  intros (T & L & B). destruct σ' as [bs' ts']. cbn [add_buf fst tens bufs] in *. subst ts'. f_equal.
  rewrite app_length in L. cbn [length] in L.
  apply (nth_ext _ _ [] []); [rewrite app_length; cbn [length]; lia|].
  intros n Hn. destruct (Nat.eq_dec n (length (bufs V σ))) as [E|E].
  - subst n. rewrite nth_app_last. reflexivity.
  - specialize (B n E). unfold get_buf in B. cbn [bufs] in B. rewrite B.
    rewrite !app_nth1 by lia. reflexivity.
Qed.

Theorem materialize_read_determined σ1 σ2 t d :
  agree_on V σ1 σ2 t -> get_t V σ1 t = Some d ->
  (d_buf d < length (bufs V σ1))%nat -> (d_buf d < length (bufs V σ2))%nat ->
  (is_materializable d = false /\
   m_materialize V vzero σ1 t = Ok (σ1, t) /\ m_materialize V vzero σ2 t = Ok (σ2, t)) \/
  (exists l mk, (forall b, d_buf (mk b) = b) /\
                m_materialize V vzero σ1 t = Ok (alloc_new V σ1 l mk) /\
                m_materialize V vzero σ2 t = Ok (alloc_new V σ2 l mk)) \/
  (m_materialize V vzero σ1 t = Err /\ m_materialize V vzero σ2 t = Err) \/
  (m_materialize V vzero σ1 t = Panic /\ m_materialize V vzero σ2 t = Panic).
Proof.
  intros [E B] Hd L1 L2. pose proof (B d Hd) as Eb. unfold m_materialize. rewrite <- E, Hd.
  destruct (is_materializable d) eqn:Em; cbn [negb]; [right|left; auto].
  cbv zeta.
  set (n := if is_scalar (shp (d_ap d)) then 1 else size (shp (d_ap d))).
  set (z := repeat vzero (Z.to_nat n)).
  set (a := mkAP (shp (d_ap d)) (calc_strides (shp (d_ap d))) 0 true).
  cbn [add_buf].
  change (mkDense (length (bufs V σ1)) 0 n a None false) with (mkd 0 n a None false (length (bufs V σ1))).
  change (mkDense (length (bufs V σ2)) 0 n a None false) with (mkd 0 n a None false (length (bufs V σ2))).
  set (b1 := length (bufs V σ1)). set (b2 := length (bufs V σ2)).
  set (σ1a := mkStore V (bufs V σ1 ++ [z]) (tens V σ1)). set (σ2a := mkStore V (bufs V σ2 ++ [z]) (tens V σ2)).
  assert (Hsim : sim b1 b2 (d_buf d) σ1a σ2a).
  { split; unfold get_buf, σ1a, σ2a; cbn [bufs].
    - unfold b1, b2. rewrite !nth_app_last. reflexivity.
    - rewrite !app_nth1 by assumption. exact Eb. }
  pose proof (copy_dense_iter_sim b1 b2 (d_buf d) ltac:(unfold b1; lia) ltac:(unfold b2; lia)
                0 n a None false d eq_refl σ1a σ2a Hsim) as H.
  destruct (copy_dense_iter V σ1a (mkd 0 n a None false b1) d) as [x| |] eqn:C1,
           (copy_dense_iter V σ2a (mkd 0 n a None false b2) d) as [y| |] eqn:C2; cbn [rrel] in H; try contradiction.
  - left. exists (get_buf V x b1), (mkd 0 n a None false). split; [reflexivity|].
    pose proof (copy_dense_iter_only V _ _ _ _ C1) as O1. pose proof (copy_dense_iter_only V _ _ _ _ C2) as O2.
    cbn [mkd d_buf] in O1, O2.
    pose proof (only_buf_fresh σ1 x z O1) as X1. pose proof (only_buf_fresh σ2 y z O2) as X2.
    unfold alloc_new. fold b1 b2 in X1, X2 |- *. rewrite (proj1 H) in X1 |- *.
    rewrite <- X1, <- X2. split; reflexivity.
  - right; left; split; reflexivity.
  - right; right; split; reflexivity.
Qed.

End MaterializeRead.
